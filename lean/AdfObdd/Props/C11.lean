import AdfObdd.OpsProofs
import AdfObdd.Grounded
import AdfObdd.Complete
import AdfObdd.PreGround2
import AdfObdd.Stable
import AdfObdd.Props.C02
import AdfObdd.Props.C03
import AdfObdd.Props.C04
import AdfObdd.Props.C05
import AdfObdd.MemoCheckProofs
import AdfObdd.MemoTransparent
import AdfObdd.CallHistoryMemo
import AdfObdd.CallHistoryMemoFull
import AdfObdd.CallHistoryQuery
import AdfObdd.CallHistoryRand
import AdfObdd.CallHistoryCount
import AdfObdd.Props.C12
import AdfObdd.PersistMore
import AdfObdd.Props.C14
/-! # C11 — cache transparency, handle stability, determinism across call histories

Every public call only *extends* the node table and adds sound memo entries (`WF` is preserved,
`Ext` holds: C06/C07); the conditions `ac` are never modified. Answers are functions of the Boolean
functions the handles denote, so they cannot depend on what was computed before. -/
namespace C11

/-- handle stability: after any further operation sequence every earlier handle denotes what it
denoted before (memo tables warm or cold) -/
theorem handles_stable (ops : List Op) (s : Store) (hist : List Nat) (fs : List BoolFn)
    (w : WF s) (h : HistOK s hist fs) (hv : opsValid ops hist.length) (t : Nat) (ht : t < s.nodes.size) :
    ∀ σ, eval (runOps ops s hist).1 t σ = eval s t σ :=
  fun σ => eval_ext w (runOps_refines ops s hist fs w h hv).2.1 t σ ht

/-- the grounded answer depends only on the functions of the conditions: two well-formed stores
(e.g. a fresh object and one with an arbitrary call history) whose condition handles denote the same
functions give the same decided part -/
theorem grounded_history_independent (s s' : Store) (ac ac' : List Nat) (w : WF s) (w' : WF s')
    (hv : ∀ t ∈ ac, t < s.nodes.size) (hv' : ∀ t ∈ ac', t < s'.nodes.size)
    (hsame : ac.map (eval s) = ac'.map (eval s')) :
    (groundedLoop StoreRA (ac.length + 1) s ac).2.map storeIsConst =
    (groundedLoop StoreRA (ac'.length + 1) s' ac').2.map storeIsConst := by
  have h1 := grounded_native (ac.length + 1) s ac w hv (Nat.lt_succ_self _)
  have h2 := grounded_native (ac'.length + 1) s' ac' w' hv' (Nat.lt_succ_self _)
  simp only at h1 h2
  rw [← hsame] at h2
  have l1 := congrArg List.length h1.1
  have l2 := congrArg List.length h2.1
  rw [Gam_length] at l1 l2
  exact Le3_antisymm (by omega) (h1.2 _ h2.1) (h2.2 _ h1.1)

/-- the complete filter's verdict depends only on the functions as well -/
theorem complete_filter_history_independent (s s' : Store) (ac v ac' v' : List Nat) (w : WF s) (w' : WF s')
    (ha : ∀ t ∈ ac, t < s.nodes.size) (hv : ∀ t ∈ v, t < s.nodes.size) (hl : ac.length = v.length)
    (ha' : ∀ t ∈ ac', t < s'.nodes.size) (hv' : ∀ t ∈ v', t < s'.nodes.size) (hl' : ac'.length = v'.length)
    (hsame : ac.map (eval s) = ac'.map (eval s')) (hv3 : v.map storeIsConst = v'.map storeIsConst) :
    (completeCheck StoreRA s v ac v).2 = (completeCheck StoreRA s' v' ac' v').2 := by
  have a := complete_filter_iff StoreRA s ac v w ha hv hl
  have b := complete_filter_iff StoreRA s' ac' v' w' ha' hv' hl'
  have e1 : asg3 StoreRA v = asg3 StoreRA v' := hv3
  have e2 : ac.map (StoreRA.den s) = ac'.map (StoreRA.den s') := hsame
  rw [e1, e2] at a
  cases h : (completeCheck StoreRA s v ac v).2 <;> cases h' : (completeCheck StoreRA s' v' ac' v').2 <;> simp_all

/-- the complete-model answer after an arbitrary call history is the answer of a fresh object:
as sets of three-valued interpretations (each listed once on both sides) -/
theorem complete_history_independent (s s' : Store) (n : Nat) (ac ac' : List Nat) (w : WF s) (w' : WF s')
    (hl : ac.length = n) (hl' : ac'.length = n)
    (hv : ∀ t ∈ ac, t < s.nodes.size) (hv' : ∀ t ∈ ac', t < s'.nodes.size)
    (hsame : ac.map (eval s) = ac'.map (eval s')) (v : I3) :
    v ∈ (completeAll s n ac).2.2.map (fun x => x.map storeIsConst) ↔
    v ∈ (completeAll s' n ac').2.2.map (fun x => x.map storeIsConst) := by
  have a := (C02.complete_exact s n ac w hl hv).2.1 v
  have b := (C02.complete_exact s' n ac' w' hl' hv').2.1 v
  rw [a, b, hsame]

/-- the same for the enumerate-and-check stable models … -/
theorem stable_history_independent (s s' : Store) (n : Nat) (ac ac' : List Nat) (w : WF s) (w' : WF s')
    (hl : ac.length = n) (hl' : ac'.length = n)
    (hv : ∀ t ∈ ac, t < s.nodes.size) (hv' : ∀ t ∈ ac', t < s'.nodes.size)
    (hsame : ac.map (eval s) = ac'.map (eval s')) (v : I3) :
    v ∈ (stableAll s n ac).2.map (fun x => x.map storeIsConst) ↔
    v ∈ (stableAll s' n ac').2.map (fun x => x.map storeIsConst) := by
  have a := (C03.stable_exact s n ac w hl hv).2 v
  have b := (C03.stable_exact s' n ac' w' hl' hv').2 v
  rw [a, b, hsame]

/-- … for the counting-guided search (also across the TWO heuristics): the set of answers is the same.  The ORDER
(same heuristic) is equal too - the branching reads the diagrams' shapes, which are functions of the denoted
functions by canonicity: `count_order_history_independent` below -/
theorem count_search_history_independent (s s' : Store) (n : Nat) (ac ac' : List Nat) (useA useA' : Bool)
    (w : WF s) (w' : WF s') (hl : ac.length = n) (hl' : ac'.length = n)
    (hv : ∀ t ∈ ac, t < s.nodes.size) (hv' : ∀ t ∈ ac', t < s'.nodes.size)
    (hsame : ac.map (eval s) = ac'.map (eval s')) (v : I3) :
    v ∈ (countAll s n ac useA).2.map (fun x => x.map storeIsConst) ↔
    v ∈ (countAll s' n ac' useA').2.map (fun x => x.map storeIsConst) := by
  have a := (C04.count_search_exact s n ac useA w hl hv).2 v
  have b := (C04.count_search_exact s' n ac' useA' w' hl' hv').2 v
  rw [a, b, hsame]

/-- … and for the nogood-learning search in stable mode, under any two heuristics: whatever was
computed before and whichever heuristic is used, the same models are delivered, each once -/
theorem ng_search_history_independent (h h' : SM.Heu) (s s' : Store) (n : Nat) (ac ac' : List Nat)
    (w : WF s) (w' : WF s') (hl : ac.length = n) (hl' : ac'.length = n)
    (hv : ∀ t ∈ ac, t < s.nodes.size) (hv' : ∀ t ∈ ac', t < s'.nodes.size)
    (hsame : ac.map (eval s) = ac'.map (eval s')) :
    ∃ fuel fuel', (SM.ngSearch h fuel s n ac true).2.2.2 = true ∧ (SM.ngSearch h' fuel' s' n ac' true).2.2.2 = true ∧
      ∀ v : I3, v ∈ (SM.ngSearch h fuel s n ac true).2.1.map (fun x => x.map storeIsConst) ↔
                v ∈ (SM.ngSearch h' fuel' s' n ac' true).2.1.map (fun x => x.map storeIsConst) := by
  obtain ⟨f, hd, _, hm⟩ := C05.ng_search_exact h s n ac true w hl hv (by intro hh; cases hh)
  obtain ⟨f', hd', _, hm'⟩ := C05.ng_search_exact h' s' n ac' true w' hl' hv' (by intro hh; cases hh)
  refine ⟨f, f', hd, hd', ?_⟩
  intro v
  have a := hm v
  have b := hm' v
  rw [a, b, hsame]

/-! Determinism ("repeating the same call sequence reproduces the same answers in the same order") is
    immediate for the model: every function above is a pure function of explicit inputs (for Rand the
    generator state is an explicit input of the scripted shape). The ORDER in which the nogood-learning
    search emits its models after different histories IS equal (`ng_order_equal_after_history` below); for the
    counting searches it is open (compared handle for handle with the model on every explored history). -/

/-- non-vacuity of the history-independence theorems: two (here identical) well-formed stores whose
condition handles denote the same functions -/
example : WF Store.init ∧ [1, 0].length = 2 ∧ (∀ t ∈ [1, 0], t < Store.init.nodes.size) ∧
    [1, 0].map (eval Store.init) = [1, 0].map (eval Store.init) := by
  refine ⟨WF_init, rfl, ?_, rfl⟩
  intro t ht
  simp at ht
  rcases ht with h | h <;> subst h <;> simp [Store.init]

example : WF Store.init := WF_init

end C11

/-! ## the audit of the implementation's real memo tables is a verified checker

At the end of every diagram-family case (and after the ADF computations and the persistence round
trips) the harness dumps the PRIVATE tables of the Rust object — unique table, if-then-else memo,
restrict memo, count cache, dependency lists — next to its node table. `wfCheck` (proved:
`wfCheck_sound`) establishes the structural invariant of the dumped node table;
`MemoCheck.memoCheckF` audits the other tables against the Boolean functions of that node table.
`memo_audit_sound` says what a positive verdict means: every memo entry, whenever and in whichever
order it was written, denotes what it is a memo of — which is why a warm cache cannot change an
answer. (`MemoCheck.lean`, `MemoCheckProofs.lean`.) -/
namespace C11

/-- **soundness of the memo audit**: on a dumped node table that passes `wfCheck`, a positive
verdict of `memoCheckF` on the dumped private tables means `MemoSound` for every store `s` with
that node table:
* every unique-table row `(v, lo, hi, t)` is the node at the inner handle `t`, and every inner
  node has its row;
* every if-then-else entry `(i, t, e, r)` has its handles in range and
  `∀ σ, eval s r σ = if eval s i σ then eval s t σ else eval s e σ`;
* every restrict entry `(t, v, b, r)` has `∀ σ, eval s r σ = eval s t (upd σ v b)`;
* every count entry holds `pathsF`, the depth of `countF` and — unless the feature set is the
  documented exception — the (counter-)model counts of `countF`;
* there is one dependency list per node, equal as a set to `depsF`. -/
theorem memo_audit_sound (nv : Nat) (exc : Bool) (s : Store) (r : MemoCheck.Rows)
    (hwf : wfCheck s.nodes = true) (hc : MemoCheck.memoCheckF nv exc s.nodes r = true) :
    MemoCheck.MemoSound nv exc s r :=
  MemoCheck.memoCheckF_sound nv exc s r (wfCheck_sound s.nodes hwf) hc

/-- the same from the structural invariant (e.g. for the node table of a model store, `WF.table`) -/
theorem memo_audit_sound_of_tableWF (nv : Nat) (exc : Bool) (s : Store) (r : MemoCheck.Rows)
    (h : TableWF s.nodes) (hc : MemoCheck.memoCheckF nv exc s.nodes r = true) :
    MemoCheck.MemoSound nv exc s r :=
  MemoCheck.memoCheckF_sound nv exc s r h hc

/-- the checker's bottom-up table of a node represents the node's function -/
theorem memo_audit_tables_represent (s : Store) (h : TableWF s.nodes) (nv i : Nat) (hi : i < s.nodes.size) :
    TT.Rep nv ((MemoCheck.ttOf nv s.nodes).getD i 0) (eval s i) :=
  MemoCheck.tt_of_node_rep s h nv i hi

/-- the node table of x0, x1 and x0 ∧ x1 (handles 2, 3, 4) over two variables … -/
def auditTable : Array Node := #[⟨VBOT, 0, 0⟩, ⟨VTOP, 1, 1⟩, ⟨0, 0, 1⟩, ⟨1, 0, 1⟩, ⟨0, 0, 3⟩]

/-- … and private tables as the implementation would hold them after computing the conjunction,
two restrictions and the counts of the conjunction (3 counter-models, 1 model, 2 paths to ⊥,
1 path to ⊤, depth 2) -/
def auditRows : MemoCheck.Rows :=
  { uniq := [(0, 0, 3, 4), (0, 0, 1, 2), (1, 0, 1, 3)]
    ite := [(2, 3, 0, 4)]
    res := [(4, 0, true, 3), (4, 0, false, 0), (4, 1, false, 0)]
    cnt := [(4, 3, 1, 2, 1, 2), (3, 1, 1, 1, 1, 1)]
    deps := some [[], [], [0], [1], [0, 1]] }

/-- non-vacuity: both checks pass on these tables (by evaluation), so the theorem applies … -/
example : wfCheck auditTable = true ∧ MemoCheck.memoCheckF 2 false auditTable auditRows = true := by
  constructor <;> decide

example : MemoCheck.MemoSound 2 false ⟨auditTable, ∅, ∅, ∅⟩ auditRows :=
  memo_audit_sound 2 false ⟨auditTable, ∅, ∅, ∅⟩ auditRows (by decide) (by decide)

/-- … and the audit is not trivially positive: a wrong if-then-else entry (x0 ∧ x1 recorded as
x1), a wrong cofactor, a wrong model count, a missing unique-table row and a wrong dependency
list are each rejected -/
example :
    MemoCheck.memoCheckF 2 false auditTable { auditRows with ite := [(2, 3, 0, 3)] } = false ∧
    MemoCheck.memoCheckF 2 false auditTable { auditRows with res := [(4, 0, true, 4)] } = false ∧
    MemoCheck.memoCheckF 2 false auditTable { auditRows with cnt := [(4, 2, 2, 2, 1, 2)] } = false ∧
    MemoCheck.memoCheckF 2 true auditTable { auditRows with cnt := [(4, 2, 2, 2, 1, 2)] } = true ∧
    MemoCheck.memoCheckF 2 false auditTable { auditRows with uniq := [(0, 0, 3, 4), (0, 0, 1, 2), (0, 0, 1, 2)] } = false ∧
    MemoCheck.memoCheckF 2 false auditTable { auditRows with deps := some [[], [], [0], [1], [1]] } = false := by
  refine ⟨?_, ?_, ?_, ?_, ?_, ?_⟩ <;> decide

/-- **handles_memo_independent** (memo transparency of the allocation order): on two well-formed
stores with the same node table — memo tables `iteC` / `resC` warm, cold or different on either side —
every operation sequence issues the same handle NUMBERS and builds the same node table; in
particular (second half) on a store whose memo tables were dropped.  Proved in
`AdfObdd/MemoTransparent.lean`: an operation whose result is already represented returns that handle
and allocates nothing (`MemoT.iteF_rep`, `MemoT.restrictF_rep`), hence a memo hit on one side is
matched by the recomputation on the other (`MemoT.iteF_lock`, `MemoT.restrictF_lock`). -/
theorem handles_memo_independent (ops : List Op) (s s' : Store) (hist : List Nat) (w : WF s) (w' : WF s')
    (hn : s'.nodes = s.nodes) (hh : ∀ k, k < hist.length → hget hist k < s.nodes.size)
    (hv : opsValid ops hist.length) :
    ((runOps ops s' hist).2 = (runOps ops s hist).2 ∧
     (runOps ops s' hist).1.nodes = (runOps ops s hist).1.nodes) ∧
    ((runOps ops { s with iteC := {}, resC := {} } hist).2 = (runOps ops s hist).2 ∧
     (runOps ops { s with iteC := {}, resC := {} } hist).1.nodes = (runOps ops s hist).1.nodes) :=
  ⟨runOps_memo_transparent ops s s' hist w w' hn hh hv, runOps_memo_dropped ops s hist w hh hv⟩

/-- the single-call core, for reference: a diagram operation whose result function is already
represented by a handle `r` returns `r` and leaves the node table alone, whatever the memo holds -/
theorem represented_result_not_reallocated (s : Store) (w : WF s) (i t e r : Nat)
    (hi : i < s.nodes.size) (ht : t < s.nodes.size) (he : e < s.nodes.size) (hr : r < s.nodes.size)
    (hev : ∀ σ, eval s r σ = if eval s i σ then eval s t σ else eval s e σ) :
    (opIte s i t e).1.nodes = s.nodes ∧ (opIte s i t e).2 = r :=
  MemoT.iteF_rep (i + t + e + 1) s i t e r w hi ht he (by omega) hr hev

/-- the reachable states satisfy the hypotheses: after any valid operation sequence from the fresh
object, the state and its memo-dropped copy continue in lockstep -/
theorem handles_memo_independent_reachable (ops0 ops : List Op) (hv0 : opsValid ops0 2)
    (hv : opsValid ops (runOps ops0 Store.init [0, 1]).2.length) :
    let s := (runOps ops0 Store.init [0, 1]).1
    let hist := (runOps ops0 Store.init [0, 1]).2
    (runOps ops { s with iteC := {}, resC := {} } hist).2 = (runOps ops s hist).2 ∧
    (runOps ops { s with iteC := {}, resC := {} } hist).1.nodes = (runOps ops s hist).1.nodes := by
  intro s hist
  have ⟨w, _, h⟩ := runOps_refines ops0 Store.init [0, 1] _ WF_init HistOK.init hv0
  exact runOps_memo_dropped ops s hist w (fun k hk => (h.ok k hk).1) hv

/-- non-vacuity: the hypotheses hold for the fresh object and a concrete operation sequence
(x0, x1, x0 ∧ x1, x0 ∧ x1 again, ¬(x0 ∧ x1), (x0 ∧ x1)[x0 := ⊤]) … -/
example :
    let ops : List Op := [.var 0, .var 1, .and 2 3, .and 2 3, .not 4, .restrict 4 0 true]
    (runOps ops { Store.init with iteC := {}, resC := {} } [0, 1]).2 = (runOps ops Store.init [0, 1]).2 :=
  (handles_memo_independent _ Store.init Store.init [0, 1] WF_init WF_init rfl
    (fun k hk => (HistOK.init.ok k hk).1) (by simp [opsValid, Op.valid, VBOT])).2.1

/-- … and for a warm reachable state against its memo-dropped copy -/
example :
    let s := (runOps [.var 0, .var 1, .and 2 3] Store.init [0, 1]).1
    let hist := (runOps [.var 0, .var 1, .and 2 3] Store.init [0, 1]).2
    (runOps [.and 2 3, .xor 2 3] { s with iteC := {}, resC := {} } hist).2 =
    (runOps [.and 2 3, .xor 2 3] s hist).2 :=
  (handles_memo_independent_reachable [.var 0, .var 1, .and 2 3] [.and 2 3, .xor 2 3]
    (by simp [opsValid, Op.valid, VBOT]) (by rw [runOps_length]; simp [opsValid, Op.valid])).1

end C11

#print axioms C11.memo_audit_sound
#print axioms C11.handles_memo_independent
#print axioms C11.handles_memo_independent_reachable


/-! ## call histories on ONE object

`AdfObdd/CallHistory.lean` models the object (`AdfState`: shared store, `n`, `ac`, handles issued so
far), the public calls a user can repeat on it (`Call`: grounded, complete, stable,
stable_with_prefilter, the two counting searches, the nogood-learning search in stable and two-valued
mode with every modelled heuristic incl. a scripted custom one, models / paths / depth / variable
dependencies of a condition, extra formulas as a list of diagram operations) and `runCall` /
`runCalls`, built from exactly the definitions the driver runs for the corresponding protocol lines
(`groundedLoop StoreRA`, `completeAll`, `stableAll`, `Cli.stablePre` (= `Drv.stablePreAll`),
`countAll`, `SM.ngSearch`, `countF` / `paths` / `depsOf`, `runOps`), threading the store.
`Heuristic::Rand` / `Adf::seed` are not part of `Call` (nor run by the driver); they are modelled over an ABSTRACT
deterministic generator in `AdfObdd/CallHistoryRand.lean` (`same_seed_statement` below; `StdRng` itself is not
modelled).  NOT part of `AdfState`: `count_cache` and `var_deps` (the feature-dependent tables of C12); the
memoised model count is therefore not a `Call` - see `memoised_count_is_the_reimport_exception`.
How the first sentence of the property ("the answer of a call after any history equals the answer of the same
call on a fresh object") is READ here: for term vectors, handle NUMBERS cannot be equal across histories (the
node tables differ), so equality is of the decided parts and of the functions the handles denote; for the
enumerations it is proved as equality of SETS (each model once) for every call kind
(`answers_history_independent`), as equality of the LISTS (same order) for `stable` / `stable_with_prefilter`
(`stable_answers_equal_after_history`), `complete` (`complete_order_equal_after_history`: decided parts),
`grounded` (one vector) and the nogood-learning search with every built-in heuristic, in both modes, for every
bound (`ng_order_equal_after_history`), and the two COUNTING searches (`count_order_equal_after_history`: the two
runs of the machine are in lock step for "same denotations", the cube list `Bdd::interpretations` of a residual
diagram is canonical, `canonical_cube_list`); together: `order_across_histories` (every call kind).  Order equality for ALL call kinds is proved between objects with the SAME node
table (`answers_memo_independent`, `answers_depend_on_node_table`) - that never compares "after h" with "fresh".
Proofs: `AdfObdd/CallHistoryProofs.lean`, `AdfObdd/CallHistoryMemo.lean`, `AdfObdd/SearchLock.lean`
(+ `CountSearchLock.lean`), `AdfObdd/CallHistoryMemoFull.lean`. -/
namespace C11
open CallH

/-- **invariant over call histories** (induction over the call list). After ANY history on an
object that satisfies the invariant `Inv` (store `WF`, `ac` = `n` valid handles, issued handles
valid): the invariant holds again; `ac` and `n` are unchanged; handles are only appended to the
issued list; the node table only grew (`Ext`: size and every old entry kept — a prefix); and every
handle that existed before — the statement handles `ac`, every issued handle — is still valid,
names the same node and denotes the same Boolean function. The nogood-learning search needs no
halting hypothesis here (`CallH.ngSearch_store`: well formed for every bound). -/
theorem history_invariant (st : AdfState) (hi : Inv st) (h : List Call) :
    let st' := (runCalls st h).1
    Inv st' ∧ st'.ac = st.ac ∧ st'.n = st.n ∧ st.issued <+: st'.issued ∧ Ext st.s st'.s ∧
    (∀ t, t < st.s.nodes.size →
      t < st'.s.nodes.size ∧ st'.s.nodes[t]? = st.s.nodes[t]? ∧ ∀ σ, eval st'.s t σ = eval st.s t σ) ∧
    (∀ t ∈ st.ac ++ st.issued, t < st.s.nodes.size) := by
  intro st'
  have ⟨hi', stp⟩ := runCalls_inv h st hi
  refine ⟨hi', stp.ac, stp.n, stp.issued, stp.ext, fun t ht => stp.handles_stable hi t ht, ?_⟩
  intro t ht
  rcases List.mem_append.mp ht with h1 | h1
  · exact hi.ac t h1
  · exact hi.issued t h1

/-- **every answer is determined by the Boolean functions of the conditions** (`CallH.Exact`): on an
object satisfying the invariant, `grounded` returns the least fixpoint (and handles of the residual
functions `semLoop`), `complete` the fixpoints of Γ without duplicates, grounded first, the three
stable enumerations and both searches exactly the stable models, each once, the two-valued search
the two-valued models (side condition `Supp` as in C05), extra formulas handles of the functions
the operations name.  For QUERIES (and for a search that hit its iteration bound) `CallH.Exact` is `True`,
i.e. this theorem says NOTHING about them; what a query answers is `query_answers_exact` below. -/
theorem answers_exact (st : AdfState) (c : Call) (hi : Inv st) (hs : c.twoValued → Supp st) :
    Exact (st.ac.map (eval st.s)) st.n c (runCall st c).1.s (runCall st c).2 :=
  runCall_exact st c hi hs

/-- **history independence**: for every history `h` and every call `c`, the answer of `c` after `h`
agrees with the answer of `c` on the object before `h` (e.g. freshly built): `CallH.Agree` —
grounded: same T/F/u vector and the handles denote the same residual functions; complete: no
duplicates, same set of T/F/u vectors, same FIRST element; stable / prefilter / counting searches /
nogood search in both modes: no duplicates, same set; queries: equal numbers; extra formulas: same
functions; rejected requests: rejected on both sides. For a nogood search that hit its iteration
bound on either side nothing is claimed — `ng_halts_after_history` says that does not happen for
large bounds. -/
theorem answers_history_independent (st : AdfState) (hi : Inv st) (h : List Call) (c : Call)
    (hs : c.twoValued → Supp st) :
    Agree c (runCall (runCalls st h).1 c).1.s (answerAfter st h c) (runCall st c).1.s (runCall st c).2 :=
  history_independent st hi h c hs

theorem ng_halts_after_history (st : AdfState) (hi : Inv st) (h : List Call) (heu : SM.Heu) (stable : Bool)
    (hs : stable = false → Supp st) :
    ∃ F0, ∀ F, F0 ≤ F → answerAfter st h (.ng heu F stable) ≠ .fuelExhausted :=
  ng_halts_after st hi h heu stable hs

/-- from the written framework: after ANY history on the freshly built object every answer is the
definitional answer for the WRITTEN conditions (`fms.map Fm.sem`) - for every call kind except queries
(`Exact … (.query _ _) = True`); queries: `query_answers_exact_after_history_from_formulas` -/
theorem answers_exact_after_history_from_formulas (fms : List Fm) (hn : fms.length ≤ VBOT)
    (hv : ∀ f ∈ fms, NConc.atomsLt fms.length f) (h : List Call) (c : Call) :
    Exact (fms.map Fm.sem) fms.length c (runCall (runCalls (freshAdf fms) h).1 c).1.s
      (answerAfter (freshAdf fms) h c) :=
  exact_after_history_from_formulas fms hn hv h c


/-! ### queries: the numbers are those of the condition's FUNCTION (second review, item 6a)

`CallH.ExactQuery D i q a`: the answer `a` to `query i q` is a list of numbers that, for EVERY truth table `tt`
over EVERY number `nv` of variables representing the function `D[i]` (`TT.Rep`; the function must look at the
variables below `nv` only, `TT.DetBy`), satisfies `CallH.QuerySpec nv tt q`:
models `[cm, m]` with `m · 2^nv = TT.sat nv tt · 2^(TT.depth nv tt)` and `cm · 2^nv = TT.unsat … · 2^depth` (the
counts over the diagram's own depth, C13 `counts_vs_truth_table`), paths `= TT.paths nv tt`, depth
`= TT.depth nv tt` (C13 `depth_vs_truth_table`, `paths_vs_truth_table`), dependencies: the same SET as
`TT.deps nv tt` (the list order / multiplicity of the model's `depsOf` is not claimed); an index out of range
is rejected. -/

/-- **a query answers the truth-table-level numbers of the condition's function** -/
theorem query_answers_exact (st : AdfState) (hi : Inv st) (i : Nat) (q : Query) :
    ExactQuery (st.ac.map (eval st.s)) i q (runCall st (.query i q)).2 :=
  query_exact st hi i q

/-- … after any history on the freshly built object: the numbers of the WRITTEN condition -/
theorem query_answers_exact_after_history_from_formulas (fms : List Fm) (hn : fms.length ≤ VBOT)
    (hv : ∀ f ∈ fms, NConc.atomsLt fms.length f) (h : List Call) (i : Nat) (q : Query) :
    ExactQuery (fms.map Fm.sem) i q (answerAfter (freshAdf fms) h (.query i q)) :=
  query_exact_after_history_from_formulas fms hn hv h i q

/-- every call kind: `Exact` and, for queries, `ExactQuery` -/
theorem answers_exact_incl_queries (st : AdfState) (c : Call) (hi : Inv st) (hs : c.twoValued → Supp st) :
    Exact (st.ac.map (eval st.s)) st.n c (runCall st c).1.s (runCall st c).2 ∧
    ∀ i q, c = .query i q → ExactQuery (st.ac.map (eval st.s)) i q (runCall st c).2 :=
  ⟨runCall_exact st c hi hs, fun i q e => e ▸ query_exact st hi i q⟩

/-! ### order across histories (second review, item 6b) -/

/-- **`stable` and `stable_with_prefilter`: the LISTS are equal** - same vectors (of the handles 0 / 1), same
order - after any history and before it (in particular on the fresh object): the candidates are enumerated by
`TwoValuedInterpretationsIterator` over the decided part of the grounded vector and the test is a function of
the conditions' functions; neither looks at a diagram's shape -/
theorem stable_answers_equal_after_history (st : AdfState) (hi : Inv st) (h : List Call) :
    answerAfter st h .stable = (runCall st .stable).2 ∧ answerAfter st h .stablePre = (runCall st .stablePre).2 :=
  CallH.stable_answers_equal_after_history st hi h

/-- **`complete`: the decided parts are listed in the same order** after any history and before it (the
vectors themselves contain handles of residual functions at undecided positions, whose NUMBERS differ across
histories) -/
theorem complete_order_equal_after_history (st : AdfState) (hi : Inv st) (h : List Call) :
    ∃ vs vs', answerAfter st h .complete = .vecs vs ∧ (runCall st .complete).2 = .vecs vs' ∧ dec vs = dec vs' :=
  complete_answers_order_after_history st hi h

/-- **the nogood-learning search: same verdict on the bound, same decided parts in the same order** after any
history and before it - every built-in heuristic (Simple, both counting heuristics, the scripted shape), both
modes, every bound; no support hypothesis -/
theorem ng_order_equal_after_history (st : AdfState) (hi : Inv st) (h : List Call) (heu : SM.Heu) (fuel : Nat)
    (stable : Bool) :
    (answerAfter st h (.ng heu fuel stable) = .fuelExhausted ∧ (runCall st (.ng heu fuel stable)).2 = .fuelExhausted) ∨
    ∃ vs tr vs' tr', answerAfter st h (.ng heu fuel stable) = .ng vs tr ∧
      (runCall st (.ng heu fuel stable)).2 = .ng vs' tr' ∧ dec vs = dec vs' :=
  ng_answers_order_after_history st hi h heu fuel stable

/-- … for two different objects whose conditions denote the same functions -/
theorem ng_order_history_independent (heu : SM.Heu) (s s' : Store) (n : Nat) (ac ac' : List Nat) (stable : Bool)
    (w : WF s) (w' : WF s') (hl : ac.length = n) (hl' : ac'.length = n)
    (hv : ∀ t ∈ ac, t < s.nodes.size) (hv' : ∀ t ∈ ac', t < s'.nodes.size)
    (hsame : ac.map (eval s) = ac'.map (eval s')) (fuel : Nat) :
    (SM.ngSearch heu fuel s n ac stable).2.2.2 = (SM.ngSearch heu fuel s' n ac' stable).2.2.2 ∧
    ((SM.ngSearch heu fuel s n ac stable).2.2.2 = true →
      (SM.ngSearch heu fuel s n ac stable).2.1.map (fun v => v.map storeIsConst) =
      (SM.ngSearch heu fuel s' n ac' stable).2.1.map (fun v => v.map storeIsConst)) :=
  NConc.Ord.ngSearch_order heu s s' n ac ac' stable w w' hl hl' hv hv' hsame fuel

/-- … for two different objects whose conditions denote the same functions -/
theorem stable_order_history_independent (s s' : Store) (n : Nat) (ac ac' : List Nat) (w : WF s) (w' : WF s')
    (hl : ac.length = n) (hl' : ac'.length = n)
    (hv : ∀ t ∈ ac, t < s.nodes.size) (hv' : ∀ t ∈ ac', t < s'.nodes.size)
    (hsame : ac.map (eval s) = ac'.map (eval s')) :
    (stableAll s n ac).2 = (stableAll s' n ac').2 ∧ (Cli.stablePre s n ac).2 = (Cli.stablePre s' n ac').2 :=
  stable_order_independent s s' n ac ac' w w' hl hl' hv hv' hsame

/-- the decided parts an answer lists, in order (`none`: not an enumeration / iteration bound hit) -/
def decAns : Answer → Option (List I3)
  | .vec v => some [v.map storeIsConst]
  | .vecs vs => some (dec vs)
  | .ng vs _ => some (dec vs)
  | _ => none

/-- FULL order statement across histories: for every enumeration call the decided parts are listed in the same
order after any history as before it (whenever neither side hit the iteration bound) -/
def order_across_histories_statement : Prop :=
  ∀ (st : AdfState), Inv st → ∀ (h : List Call) (c : Call), (c.twoValued → Supp st) →
    ∀ l l', decAns (answerAfter st h c) = some l → decAns (runCall st c).2 = some l' → l = l'

/-- **the canonical cube list**: on two well-formed node tables, handles that denote the same Boolean function have
the same list of path cubes `Bdd::interpretations` (`cubesF`, as the counting search calls it) - same literals, same
order, for every goal value, goal variable and accumulator.  (Canonicity across tables: same function ⇒ both
constants and equal, or inner nodes with the same variable and children denoting the same functions,
`CubesCanon.iso_step`.) -/
theorem canonical_cube_list (s s' : Store) (w : WF s) (w' : WF s') (t t' : Nat) (ht : t < s.nodes.size)
    (ht' : t' < s'.nodes.size) (e : eval s t = eval s' t') (goal : Bool) (gv : Nat) (neg pos : List Nat) :
    cubesF s (t + 1) t goal gv neg pos = cubesF s' (t' + 1) t' goal gv neg pos :=
  CubesCanon.cubesF_den s s' w w' t t' ht ht' e goal gv neg pos

/-- **the two counting searches: same decided parts in the same order** for two different objects whose conditions
denote the same functions (different node tables, different handle numbers) -/
theorem count_order_history_independent (s s' : Store) (n : Nat) (ac ac' : List Nat) (useA : Bool)
    (w : WF s) (w' : WF s') (hl : ac.length = n) (hl' : ac'.length = n)
    (hv : ∀ t ∈ ac, t < s.nodes.size) (hv' : ∀ t ∈ ac', t < s'.nodes.size)
    (hsame : ac.map (eval s) = ac'.map (eval s')) :
    dec (countAll s n ac useA).2 = dec (countAll s' n ac' useA).2 :=
  count_order_independent s s' n ac ac' useA w w' hl hl' hv hv' hsame

/-- … and already the candidate lists BEFORE the stability filter (`two_val_model_counts_logic` proper) -/
theorem count_candidates_order_history_independent (s s' : Store) (n : Nat) (ac ac' : List Nat) (useA : Bool)
    (w : WF s) (w' : WF s') (hl : ac.length = n) (hl' : ac'.length = n)
    (hv : ∀ t ∈ ac, t < s.nodes.size) (hv' : ∀ t ∈ ac', t < s'.nodes.size)
    (hsame : ac.map (eval s) = ac'.map (eval s')) :
    dec (countLogic ac useA (n + 1) (groundedLoop StoreRA (n + 1) s ac).1 (groundedLoop StoreRA (n + 1) s ac).2
      (List.replicate n 2)).2 =
    dec (countLogic ac' useA (n + 1) (groundedLoop StoreRA (n + 1) s' ac').1 (groundedLoop StoreRA (n + 1) s' ac').2
      (List.replicate n 2)).2 :=
  CI.Rel.countLogic_order s s' n ac ac' useA w w' hl hl' hv hv' hsame

/-- **`stable_count_optimisation_heu_a/b`: the decided parts are listed in the same order** after any history and
before it -/
theorem count_order_equal_after_history (st : AdfState) (hi : Inv st) (h : List Call) (useA : Bool) :
    ∃ vs vs', answerAfter st h (.count useA) = .vecs vs ∧ (runCall st (.count useA)).2 = .vecs vs' ∧
      dec vs = dec vs' :=
  count_answers_order_after_history st hi h useA

/-- **order across histories, every call kind** (no support hypothesis needed): `grounded`, `complete`, `stable`,
`stable_with_prefilter` (their enumeration order is that of the iterator over the decided part of the grounded
vector, the filters are semantic: `CallH.threeValAll_dec`, `CallH.twoValAll_eq`), the nogood-learning search `ng`
(both runs are lock-step simulations of the SAME run of the semantic machine: `NConc.Ord.ngSearch_order`), the two
counting searches `count` (lock step of the two runs of `GK.search` for "same denotations", canonical cube lists:
`CI.Rel.countAll_order`); queries and extra formulas are not enumerations (`decAns … = none`). -/
theorem order_across_histories_all (st : AdfState) (hi : Inv st) (h : List Call) (c : Call) :
    ∀ l l', decAns (answerAfter st h c) = some l → decAns (runCall st c).2 = some l' → l = l' := by
  intro l l' h1 h2
  cases c with
  | grounded =>
    have := history_independent st hi h .grounded (fun x => x.elim)
    simp only [answerAfter, runCall] at this h1 h2
    simp only [decAns, Option.some.injEq] at h1 h2
    rw [← h1, ← h2]
    simp only [CallH.Agree] at this
    rw [this.1]
  | complete =>
    obtain ⟨vs, vs', e1, e2, e3⟩ := complete_answers_order_after_history st hi h
    rw [e1] at h1; rw [e2] at h2
    simp only [decAns, Option.some.injEq] at h1 h2
    rw [← h1, ← h2, e3]
  | stable =>
    rw [(CallH.stable_answers_equal_after_history st hi h).1, h2] at h1
    exact (Option.some.inj h1).symm
  | stablePre =>
    rw [(CallH.stable_answers_equal_after_history st hi h).2, h2] at h1
    exact (Option.some.inj h1).symm
  | count useA =>
    obtain ⟨vs, vs', e1, e2, e3⟩ := count_answers_order_after_history st hi h useA
    rw [e1] at h1; rw [e2] at h2
    simp only [decAns, Option.some.injEq] at h1 h2
    rw [← h1, ← h2, e3]
  | ng heu fuel stable =>
    rcases ng_answers_order_after_history st hi h heu fuel stable with ⟨e1, _⟩ | ⟨vs, tr, vs', tr', e1, e2, e3⟩
    · rw [e1] at h1; cases h1
    · rw [e1] at h1; rw [e2] at h2
      simp only [decAns, Option.some.injEq] at h1 h2
      rw [← h1, ← h2, e3]
  | query i q =>
    simp only [runCall] at h2
    split at h2 <;> cases h2
  | ops ol =>
    simp only [runCall] at h2
    split at h2 <;> cases h2

/-- **the full order statement** -/
theorem order_across_histories : order_across_histories_statement :=
  fun st hi h c _ => order_across_histories_all st hi h c

/-- corollary kept under its old name: the call kinds whose order was proved first -/
theorem order_across_histories_partial (st : AdfState) (hi : Inv st) (h : List Call) (c : Call)
    (_hc : c = .grounded ∨ c = .complete ∨ c = .stable ∨ c = .stablePre ∨ ∃ heu fuel stable, c = .ng heu fuel stable) :
    ∀ l l', decAns (answerAfter st h c) = some l → decAns (runCall st c).2 = some l' → l = l' :=
  order_across_histories_all st hi h c

/-! ### `count_cache` / `var_deps` are not part of `AdfState` (second review, item 6c) -/

/-- **the ONLY answer that can differ after export + import is the memoised model count under the exception
configuration** (`adhoccounting` without `adhoccountmodels` - the DEFAULT feature set).  `AdfState` is the
feature-free `Store`: the calls of `Call` (among them the NAIVE counts, `query … .models`) are unaffected by a
re-import (`answers_reimport_midway`), but only because the memoised variant `bdd.models(t, true)` - which reads
`count_cache` - is not among them.  In the configured store `FStore` of C12 it is: on a store built by
operations it answers `(0, 0)` for every inner node before the export (`C12.models_exception`), and the exact
counts after `import` + `fix_import` (`C12.answers_after_import`) - so the two answers DIFFER.  Every other
query (`paths`, `max_depth`, `var_dependencies`, naive and - outside the exception - memoised `models`) answers
as the feature-free reference on both sides (`C12.answers_after_import`, `C12.semantics_feature_independent`). -/
theorem memoised_count_is_the_reimport_exception (c : Cfg) (hv : c.valid) (he : c.exc = true) (fs : FStore)
    (inv : FInv c true fs) (t : Nat) (ht2 : 2 ≤ t) (ht : t < fs.base.nodes.size) :
    let fs' := fixImportC c (importC fs.base.nodes fs.base.uniq)
    (modelsC c fs t true).1 = (0, 0) ∧
    (modelsC c fs' t true).1 = ((countF fs.base (t+1) t).1, (countF fs.base (t+1) t).2.1) ∧
    (modelsC c fs' t true).1 ≠ (modelsC c fs t true).1 := by
  intro fs'
  have ⟨a, b⟩ := C12.models_exception c fs inv he t ht2 ht
  have w0 : WF (⟨fs.base.nodes, fs.base.uniq, ∅, ∅⟩ : Store) :=
    Persist.WF_of_same fs.base _ inv.wf rfl (fun _ => rfl) (fun _ => by simp) (fun _ => by simp)
  have h := C12.answers_after_import c hv fs.base.nodes fs.base.uniq w0 [t] (by intro x hx; simp at hx; subst hx; exact ht)
    [] trivial
  simp only at h
  have h5 := (h.2.2.2 t (by simp [runOps]) true).2.2.2.2.1 he ht2 ht
  have hcnt : countF (⟨fs.base.nodes, fs.base.uniq, ∅, ∅⟩ : Store) (t+1) t = countF fs.base (t+1) t :=
    countF_ext inv.wf (Ext_of_nodes (s := fs.base) (s' := ⟨fs.base.nodes, fs.base.uniq, ∅, ∅⟩) rfl) (t+1) t ht
  have h5' : (modelsC c fs' t true).1 = ((countF fs.base (t+1) t).1, (countF fs.base (t+1) t).2.1) := by
    rw [← hcnt]; exact h5
  refine ⟨a, h5', ?_⟩
  rw [h5']
  exact fun e => b e.symm

/-! ### Rand and `seed` (second review, item 6d) -/

/-- **"with the same seed for Rand, repeating the same call sequence reproduces the same answers in the same
order"**, over an abstract deterministic generator `G : seed → index of the draw → raw output` (the way
`SM.Heu.script` uses splitmix): the object carries the seed and the number of draws made (`CallH.RState`),
`RCall` = every call of `Call`, `seed k`, and the Rand search in both modes (`heu_rand`: two draws per call).
Two objects that agree on node table, `n`, `ac`, issued handles - memo contents arbitrary -, seed and draw
counter answer EVERY call sequence identically (lists, order, handle numbers, traces).  `StdRng` (ChaCha12) is
NOT modelled; without a call of `seed` the Rust generator comes from entropy and nothing is claimed. -/
def same_seed_statement : Prop :=
  ∀ (G : Nat → Nat → Nat) (h : List RCall) (r r' : RState), Inv r.st → REq r r' →
    (runRCalls G r' h).2 = (runRCalls G r h).2 ∧ REq (runRCalls G r h).1 (runRCalls G r' h).1

theorem same_seed_same_answers : same_seed_statement := CallH.same_seed_same_answers

/-- and whatever the generator produces, a Rand search that halts answers exactly the stable / two-valued
models, each once (`HeuOK` holds of `randHeu G seed ctr` for every `G`) -/
theorem rand_search_exact (G : Nat → Nat → Nat) (seed ctr : Nat) (st : AdfState) (hi : Inv st) (stable : Bool)
    (hs : stable = false → Supp st) :
    ∃ fuel, (NConc.cSearch (randHeu G seed ctr) fuel st.s st.n st.ac stable).2.2.2 = true ∧
      (dec (NConc.cSearch (randHeu G seed ctr) fuel st.s st.n st.ac stable).2.1).Nodup ∧
      ∀ v : I3, v ∈ dec (NConc.cSearch (randHeu G seed ctr) fuel st.s st.n st.ac stable).2.1 ↔
        ModelSpec (st.ac.map (eval st.s)) st.n stable v :=
  CallH.rand_search_exact G seed ctr st.s st.n st.ac stable hi.wf hi.len hi.ac hs

/-! ### determinism: what a pure model can say and what it cannot

(a) "The same call sequence on two objects built the same way yields the same answers in the same
order, the same node tables and handles": for the MODEL this is congruence of the function
`runCalls` (`same_calls_same_answers` below) and carries no information — a Lean function cannot be
nondeterministic. What it rules in is only that the model has no hidden input: no clock, no
address, no generator state (`Heuristic::Rand` is excluded from `Call`; with the generator state as an explicit
input it is `same_seed_same_answers` above).

(b) What could make the REAL object nondeterministic or history dependent in its emission order is
state that is not part of the mathematical answer: the CONTENTS of the memo tables (which depend on
everything computed before) and the iteration order of hash maps. The first is covered by a
theorem: `answers_memo_independent` — for EVERY call kind (both searches included) the answers
INCLUDING THEIR ORDER, issued handle numbers and the node table afterwards are the same on two
objects that differ arbitrarily in the contents of `ite_cache` / `restrict_cache` (built on
`handles_memo_independent` / `MemoT.restrictF_lock`); hence emission order is a function of the node
table, `n`, `ac` (`answers_depend_on_node_table`), and dropping the memo tables or exporting and
re-importing the object at any point of a history changes no later answer
(`answers_memo_dropped_midway`, `answers_reimport_midway`). The second is OUTSIDE the
model: the model never iterates a hash map (the unique table and the memo tables are only ever
looked up by key), exactly as `obdd.rs` / `adf.rs` never iterate `HashMap`s when computing answers;
that the Rust code indeed does not is a fact about the source that only the correspondence run
(handle-for-handle comparison of the driver with the real object on every explored history)
witnesses. -/

/-- (a) congruence — trivially true of any function; stated for the record only -/
theorem same_calls_same_answers (st st' : AdfState) (h h' : List Call) (e1 : st = st') (e2 : h = h') :
    runCalls st h = runCalls st' h' := runCalls_deterministic st st' h h' e1 e2

/-- (b) full statement (every call kind), one call -/
def answers_memo_independent_statement : Prop := CallH.memo_independent_statement

/-- (b) **one call, every call kind**: grounded / complete / stable / stable_with_prefilter / both
counting searches / the nogood-learning search in both modes with every modelled heuristic /
queries / extra formulas. On two objects equal up to memo CONTENTS (`MemoEq`: both stores well
formed, same node table, same `n`, `ac`, issued handles) the answers are EQUAL — same vectors, same
ORDER, same handle numbers, for the nogood search also the same interpretations shown to the
heuristic and the same verdict on the iteration bound — and the objects are again equal up to memo
contents (same node table). No halting or support hypothesis is needed. -/
theorem answers_memo_independent_call : answers_memo_independent_statement := CallH.memo_independent

/-- (b) **any history**: the answer lists are equal and the final objects equal up to memo contents -/
theorem answers_memo_independent (h : List Call) (st st' : AdfState) (hi : Inv st) (hm : MemoEq st st') :
    (runCalls st' h).2 = (runCalls st h).2 ∧ MemoEq (runCalls st h).1 (runCalls st' h).1 :=
  runCalls_memo_independent h st st' hi hm

/-- emission order (and every other part of the answers, the node table and the issued handles
afterwards) is a function of the node table, `n`, `ac` and the issued handles only: two objects
satisfying the invariant that agree on these answer every history identically -/
theorem answers_depend_on_node_table (h : List Call) (st st' : AdfState) (hi : Inv st) (hi' : Inv st')
    (hnodes : st'.s.nodes = st.s.nodes) (hn : st'.n = st.n) (hac : st'.ac = st.ac) (his : st'.issued = st.issued) :
    (runCalls st' h).2 = (runCalls st h).2 ∧ (runCalls st' h).1.s.nodes = (runCalls st h).1.s.nodes ∧
    (runCalls st' h).1.issued = (runCalls st h).1.issued :=
  CallH.answers_depend_on_node_table h st st' hi hi' hnodes hn hac his

/-- in particular against the memo-dropped copy of any object -/
theorem answers_memo_dropped (h : List Call) (st : AdfState) (hi : Inv st) :
    (runCalls (dropMemo st) h).2 = (runCalls st h).2 ∧
    (runCalls (dropMemo st) h).1.s.nodes = (runCalls st h).1.s.nodes := by
  have ⟨a, m⟩ := runCalls_memo_independent h st _ hi (memoEq_drop st hi)
  exact ⟨a, m.lk.nodes⟩

/-- dropping the memo tables after ANY history `h1` changes no answer of ANY continuation `h2`
(nor its order, nor the node table built) -/
theorem answers_memo_dropped_midway (st : AdfState) (hi : Inv st) (h1 h2 : List Call) :
    (runCalls (dropMemo (runCalls st h1).1) h2).2 = (runCalls (runCalls st h1).1 h2).2 ∧
    (runCalls (dropMemo (runCalls st h1).1) h2).1.s.nodes = (runCalls (runCalls st h1).1 h2).1.s.nodes :=
  memo_dropped_midway st hi h1 h2

/-- the same for the object whose `Bdd` went through `serde` export and import
(`Persist.exportB` / `importB` of C14: node table and unique table survive, memo tables skipped).
CAVEAT: this is about the calls of `Call`; `count_cache` / `var_deps` are not part of `AdfState`, and the one
call that reads `count_cache` - memoised `models` - DOES change its answer under the default features
(`memoised_count_is_the_reimport_exception`) -/
theorem answers_reimport_midway (st : AdfState) (hi : Inv st) (h1 h2 : List Call) :
    (runCalls (reimport (runCalls st h1).1) h2).2 = (runCalls (runCalls st h1).1 h2).2 ∧
    (runCalls (reimport (runCalls st h1).1) h2).1.s.nodes = (runCalls (runCalls st h1).1 h2).1.s.nodes :=
  CallH.reimport_midway st hi h1 h2

/-- corollaries kept under their old names (search-free histories) -/
theorem answers_memo_independent_partial (h : List Call) (st st' : AdfState) (hi : Inv st) (hm : MemoEq st st')
    (_hc : ∀ c ∈ h, ¬ c.isSearch) :
    (runCalls st' h).2 = (runCalls st h).2 ∧ MemoEq (runCalls st h).1 (runCalls st' h).1 :=
  answers_memo_independent h st st' hi hm

theorem answers_memo_dropped_partial (h : List Call) (st : AdfState) (hi : Inv st) (_hc : ∀ c ∈ h, ¬ c.isSearch) :
    (runCalls (dropMemo st) h).2 = (runCalls st h).2 ∧
    (runCalls (dropMemo st) h).1.s.nodes = (runCalls st h).1.s.nodes :=
  answers_memo_dropped h st hi

/-! ### non-vacuity: a ← ¬b, b ← ¬a (two statements), non-trivial histories

Stores do not kernel-reduce (`Std.HashMap`), so the theorems are instantiated; the `#guard`s
show by evaluation what the instantiated statements speak about. -/

def exFms : List Fm := [.not (.atom 1), .not (.atom 0)]
def exHist : List Call := [.complete, .ops [.xor 2 3, .not 4], .count true, .grounded, .query 1 .models]

theorem exFms_ok : exFms.length ≤ VBOT ∧ ∀ f ∈ exFms, NConc.atomsLt exFms.length f := by
  refine ⟨by simp [exFms, VBOT], ?_⟩
  intro f hf
  simp only [exFms, List.mem_cons, List.mem_nil_iff, or_false] at hf
  rcases hf with h | h <;> subst h <;> simp [NConc.atomsLt, exFms]

theorem exInv : Inv (freshAdf exFms) :=
  (fresh_inv exFms exFms_ok.1 (fun f hf => NConc.atomsOK_of_lt exFms_ok.1 f (exFms_ok.2 f hf))).1

/-- the invariant theorem applies to the history … -/
example : Inv (runCalls (freshAdf exFms) exHist).1 ∧ (runCalls (freshAdf exFms) exHist).1.ac = (freshAdf exFms).ac :=
  ⟨(history_invariant _ exInv exHist).1, (history_invariant _ exInv exHist).2.1⟩

/-- … the stable models after it are those of the fresh object, also via the two-valued nogood search
(side condition discharged by `fresh_supp`) … -/
example : Agree .stable (runCall (runCalls (freshAdf exFms) exHist).1 .stable).1.s
    (answerAfter (freshAdf exFms) exHist .stable) (runCall (freshAdf exFms) .stable).1.s
    (runCall (freshAdf exFms) .stable).2 :=
  answers_history_independent _ exInv exHist .stable (fun h => h.elim)

example : Agree (.ng .minPathsMaxVarImp 1000 false)
    (runCall (runCalls (freshAdf exFms) exHist).1 (.ng .minPathsMaxVarImp 1000 false)).1.s
    (answerAfter (freshAdf exFms) exHist (.ng .minPathsMaxVarImp 1000 false))
    (runCall (freshAdf exFms) (.ng .minPathsMaxVarImp 1000 false)).1.s
    (runCall (freshAdf exFms) (.ng .minPathsMaxVarImp 1000 false)).2 :=
  answers_history_independent _ exInv exHist _ (fun _ => fresh_supp exFms exFms_ok.1 exFms_ok.2)

/-- a history with both counting searches and the nogood search in both modes (built-in and
scripted custom heuristic) -/
def exHistS : List Call :=
  [.complete, .count true, .ng .minPathsMaxVarImp 1000 true, .ops [.xor 2 3, .not 4], .count false,
   .ng (.script 7) 1000 false, .stablePre, .grounded, .ng .simple 3 true]

/-- … the memo-dropped copy answers the history WITH the searches identically, order included … -/
example : (runCalls (dropMemo (freshAdf exFms)) exHistS).2 = (runCalls (freshAdf exFms) exHistS).2 :=
  (answers_memo_dropped exHistS _ exInv).1

/-- … also when the tables are dropped, or the object exported and re-imported, in the middle … -/
example : (runCalls (dropMemo (runCalls (freshAdf exFms) exHist).1) exHistS).2 =
    (runCalls (runCalls (freshAdf exFms) exHist).1 exHistS).2 :=
  (answers_memo_dropped_midway _ exInv exHist exHistS).1

example : (runCalls (reimport (runCalls (freshAdf exFms) exHist).1) exHistS).2 =
    (runCalls (runCalls (freshAdf exFms) exHist).1 exHistS).2 :=
  (answers_reimport_midway _ exInv exHist exHistS).1

/-- … and `MemoEq` is satisfiable with genuinely different memo contents: the object after a
history against its memo-dropped copy -/
example : MemoEq (runCalls (freshAdf exFms) exHist).1 (dropMemo (runCalls (freshAdf exFms) exHist).1) :=
  memoEq_drop _ (history_invariant _ exInv exHist).1


/-- a query after the history, through the theorem: the condition of statement 0 is `¬b`; its truth table
over the two statements is `TT.ofFn 2 …` (`TT.rep_ofFn`), the function looks at the statements only
(`sem_detBy`), hence the depth answered after `exHist` is `TT.depth` of that table = 1, the paths are (1, 1), and
the model counts `[cm, m]` satisfy `m · 4 = 2 · 2` and `cm · 4 = 2 · 2` -/
example : answerAfter (freshAdf exFms) exHist (.query 0 .depth) = .nums [1] ∧
    answerAfter (freshAdf exFms) exHist (.query 0 .paths) = .nums [1, 1] ∧
    ∃ cm m, answerAfter (freshAdf exFms) exHist (.query 0 .models) = .nums [cm, m] ∧ m * 4 = 2 * 2 ∧ cm * 4 = 2 * 2 := by
  have key : ∀ q, ∃ l, answerAfter (freshAdf exFms) exHist (.query 0 q) = .nums l ∧
      QuerySpec 2 (TT.ofFn 2 (fun a => ((exFms.map Fm.sem).getD 0 (fun _ => false)) (TT.bitsAsg a))) q l := by
    intro q
    have h := query_answers_exact_after_history_from_formulas exFms exFms_ok.1 exFms_ok.2 exHist 0 q
    cases ha : answerAfter (freshAdf exFms) exHist (.query 0 q) with
    | nums l =>
      rw [ha] at h
      exact ⟨l, rfl, h.2 2 _ (TT.rep_ofFn 2 _) (sem_detBy exFms exFms_ok.2 0)⟩
    | rejected => rw [ha] at h; exact absurd (by decide) h
    | vec _ => rw [ha] at h; exact h.elim
    | vecs _ => rw [ha] at h; exact h.elim
    | ng _ _ => rw [ha] at h; exact h.elim
    | fuelExhausted => rw [ha] at h; exact h.elim
    | handles _ => rw [ha] at h; exact h.elim
  have hd : TT.depth 2 (TT.ofFn 2 (fun a => ((exFms.map Fm.sem).getD 0 (fun _ => false)) (TT.bitsAsg a))) = 1 := by decide
  have hp : TT.paths 2 (TT.ofFn 2 (fun a => ((exFms.map Fm.sem).getD 0 (fun _ => false)) (TT.bitsAsg a))) = (1, 1) := by decide
  have hs : TT.sat 2 (TT.ofFn 2 (fun a => ((exFms.map Fm.sem).getD 0 (fun _ => false)) (TT.bitsAsg a))) = 2 := by decide
  have hu : TT.unsat 2 (TT.ofFn 2 (fun a => ((exFms.map Fm.sem).getD 0 (fun _ => false)) (TT.bitsAsg a))) = 2 := by decide
  refine ⟨?_, ?_, ?_⟩
  · obtain ⟨l, e, sp⟩ := key .depth
    simp only [QuerySpec, hd] at sp
    rw [e, sp]
  · obtain ⟨l, e, sp⟩ := key .paths
    simp only [QuerySpec, hp] at sp
    rw [e, sp]
  · obtain ⟨l, e, cm, m, el, h1, h2⟩ := key .models
    rw [hd, hs] at h1
    rw [hd, hu] at h2
    exact ⟨cm, m, by rw [e, el], h1, h2⟩

/-- order: the `stable` answer after the history EQUALS the fresh one as a list (theorem, not evaluation) -/
example : answerAfter (freshAdf exFms) exHist .stable = (runCall (freshAdf exFms) .stable).2 :=
  (stable_answers_equal_after_history _ exInv exHist).1

/-- … and the nogood search in two-valued mode under a counting heuristic lists its models in the fresh order
after the history (theorem) -/
example : (answerAfter (freshAdf exFms) exHist (.ng .minPathsMaxVarImp 1000 false) = .fuelExhausted ∧
      (runCall (freshAdf exFms) (.ng .minPathsMaxVarImp 1000 false)).2 = .fuelExhausted) ∨
    ∃ vs tr vs' tr', answerAfter (freshAdf exFms) exHist (.ng .minPathsMaxVarImp 1000 false) = .ng vs tr ∧
      (runCall (freshAdf exFms) (.ng .minPathsMaxVarImp 1000 false)).2 = .ng vs' tr' ∧ dec vs = dec vs' :=
  ng_order_equal_after_history _ exInv exHist _ _ _

/-- `complete` lists the same decided parts in the same order after the history (theorem) -/
example : ∃ vs vs', answerAfter (freshAdf exFms) exHist .complete = .vecs vs ∧
    (runCall (freshAdf exFms) .complete).2 = .vecs vs' ∧ dec vs = dec vs' :=
  complete_order_equal_after_history _ exInv exHist

/-- the re-import exception on the store of `x0, x1, x0 ⊕ x1` under the DEFAULT features: for every issued inner
handle the memoised model count is (0, 0) before the export, exact after import + `fix_import`, hence different -/
example : ∀ t ∈ (runOps [.var 0, .var 1, .xor 2 3] Store.init [0, 1]).2, 2 ≤ t →
    let fs := (runOpsC Cfg.default [.var 0, .var 1, .xor 2 3] (newC Cfg.default) [0, 1]).1
    (modelsC Cfg.default fs t true).1 = (0, 0) ∧
    (modelsC Cfg.default (fixImportC Cfg.default (importC fs.base.nodes fs.base.uniq)) t true).1 ≠ (0, 0) := by
  intro t ht h2 fs
  have hv : opsValid [.var 0, .var 1, .xor 2 3] 2 :=
    ⟨by simp [Op.valid, VBOT], by simp [Op.valid, VBOT], by simp [Op.valid], trivial⟩
  have ⟨_, b, i⟩ := C12.node_tables_feature_independent Cfg.default [.var 0, .var 1, .xor 2 3] hv
  have ⟨_, _, h3⟩ := runOps_refines [.var 0, .var 1, .xor 2 3] Store.init [0, 1] _ WF_init HistOK.init hv
  have hlt : t < fs.base.nodes.size := by
    show t < (runOpsC Cfg.default [.var 0, .var 1, .xor 2 3] (newC Cfg.default) [0, 1]).1.base.nodes.size
    rw [b]; exact C12.mem_hist_lt h3 t ht
  have ⟨a, _, c⟩ := memoised_count_is_the_reimport_exception Cfg.default (by intro h; cases h) rfl fs i t h2 hlt
  exact ⟨a, by rw [← a]; exact c⟩
#guard (runOps [.var 0, .var 1, .xor 2 3] Store.init [0, 1]).2 == [0, 1, 2, 3, 5]

/-- same seed: the object after a history and its memo-dropped copy, both seeded with 42, answer a sequence with
two Rand searches, a re-seed and other calls identically - for every generator `G` -/
example (G : Nat → Nat → Nat) :
    let calls : List RCall := [.rand 1000 true, .plain .complete, .rand 1000 false, .seed 7, .rand 1000 true]
    (runRCalls G ⟨dropMemo (runCalls (freshAdf exFms) exHist).1, 42, 0⟩ calls).2 =
    (runRCalls G ⟨(runCalls (freshAdf exFms) exHist).1, 42, 0⟩ calls).2 :=
  (same_seed_same_answers G _ ⟨(runCalls (freshAdf exFms) exHist).1, 42, 0⟩
    ⟨dropMemo (runCalls (freshAdf exFms) exHist).1, 42, 0⟩ (history_invariant _ exInv exHist).1
    ⟨memoEq_drop _ (history_invariant _ exInv exHist).1, rfl, rfl⟩).1

/-- five statements, a history that allocates 17 nodes: on every enumeration call the decided parts are listed
in the same ORDER after the history as on the fresh object (by evaluation here; as a theorem: `ordExample` below) -/
def ordFms : List Fm := [.not (.atom 1), .not (.atom 0), .not (.atom 3), .not (.atom 2), .xor (.atom 0) (.and (.atom 2) (.atom 4))]
def ordHist : List Call := [.ops [.xor 2 4, .and 6 5, .or 7 6, .iff 3 5, .restrict 8 1 true, .var 1, .var 3, .and 12 13],
  .complete, .ng (.script 3) 1000 false, .query 2 .models]
def ordCalls : List Call := [.grounded, .complete, .stable, .stablePre, .count true, .count false, .ng .simple 1000 true,
  .ng .minPathsMaxVarImp 1000 true, .ng .maxVarImpMinPaths 1000 false, .ng (.script 5) 1000 true, .ng (.script 5) 1000 false]
#guard ordCalls.all fun c => decAns (answerAfter (freshAdf ordFms) ordHist c) == decAns (runCall (freshAdf ordFms) c).2
#guard (runCalls (freshAdf ordFms) ordHist).1.s.nodes.size - (freshAdf ordFms).s.nodes.size == 17

theorem ordFms_ok : ordFms.length ≤ VBOT ∧ ∀ f ∈ ordFms, NConc.atomsLt ordFms.length f := by
  refine ⟨by simp [ordFms, VBOT], ?_⟩
  intro f hf
  simp only [ordFms, List.mem_cons, List.mem_nil_iff, or_false] at hf
  rcases hf with h | h | h | h | h <;> subst h <;> simp [NConc.atomsLt, ordFms]

theorem ordInv : Inv (freshAdf ordFms) :=
  (fresh_inv ordFms ordFms_ok.1 (fun f hf => NConc.atomsOK_of_lt ordFms_ok.1 f (ordFms_ok.2 f hf))).1

/-- non-vacuity of `order_across_histories` / `count_order_equal_after_history`: the five-statement object and the
history above (17 new nodes, so the node tables differ) satisfy the hypotheses; both counting searches list the same
decided parts in the same order after the history (theorem, not evaluation; the `#guard`s show the lists are not
empty and that the residual diagrams branched on are inner nodes) -/
theorem ordExample (useA : Bool) : ∃ vs vs', answerAfter (freshAdf ordFms) ordHist (.count useA) = .vecs vs ∧
    (runCall (freshAdf ordFms) (.count useA)).2 = .vecs vs' ∧ dec vs = dec vs' :=
  count_order_equal_after_history _ ordInv ordHist useA
example (c : Call) (l l' : List I3) (h1 : decAns (answerAfter (freshAdf ordFms) ordHist c) = some l)
    (h2 : decAns (runCall (freshAdf ordFms) c).2 = some l') : l = l' :=
  order_across_histories _ ordInv ordHist c (fun _ => fresh_supp ordFms ordFms_ok.1 ordFms_ok.2) l l' h1 h2


/-- … and two DIFFERENT objects: the same framework written differently (`ordFms2`: other connectives, another
operand order) is built into a different node table (17 vs 15 nodes, the last condition has another handle number);
both counting searches list the same decided parts in the same order on the two objects (theorem) -/
def ordFms2 : List Fm := [.imp (.atom 1) .bot, .not (.atom 0), .xor (.atom 3) .top, .not (.atom 2),
  .or (.and (.atom 0) (.not (.and (.atom 4) (.atom 2)))) (.and (.not (.atom 0)) (.and (.atom 2) (.atom 4)))]
theorem ordFms2_ok : ordFms2.length ≤ VBOT ∧ ∀ f ∈ ordFms2, NConc.atomsLt ordFms2.length f := by
  refine ⟨by simp [ordFms2, VBOT], ?_⟩
  intro f hf
  simp only [ordFms2, List.mem_cons, List.mem_nil_iff, or_false] at hf
  rcases hf with h | h | h | h | h <;> subst h <;> simp [NConc.atomsLt, ordFms2]
theorem ordSem : ordFms.map Fm.sem = ordFms2.map Fm.sem := by
  have e0 : Fm.sem (.not (.atom 1)) = Fm.sem (.imp (.atom 1) .bot) := by funext σ; simp [Fm.sem]
  have e2 : Fm.sem (.not (.atom 3)) = Fm.sem (.xor (.atom 3) .top) := by funext σ; simp [Fm.sem]
  have e4 : Fm.sem (.xor (.atom 0) (.and (.atom 2) (.atom 4))) = Fm.sem (.or (.and (.atom 0) (.not (.and (.atom 4) (.atom 2))))
      (.and (.not (.atom 0)) (.and (.atom 2) (.atom 4)))) := by
    funext σ; simp only [Fm.sem]; cases σ 0 <;> cases σ 2 <;> cases σ 4 <;> rfl
  simp only [ordFms, ordFms2, List.map_cons, List.map_nil, e0, e2, e4]
theorem ordExample2 (useA : Bool) :
    dec (countAll (freshAdf ordFms).s 5 (freshAdf ordFms).ac useA).2 =
    dec (countAll (freshAdf ordFms2).s 5 (freshAdf ordFms2).ac useA).2 := by
  have a := fresh_inv ordFms ordFms_ok.1 (fun f hf => NConc.atomsOK_of_lt ordFms_ok.1 f (ordFms_ok.2 f hf))
  have b := fresh_inv ordFms2 ordFms2_ok.1 (fun f hf => NConc.atomsOK_of_lt ordFms2_ok.1 f (ordFms2_ok.2 f hf))
  exact count_order_history_independent _ _ 5 _ _ useA a.1.wf b.1.wf a.1.len b.1.len a.1.ac b.1.ac
    (by rw [a.2, b.2, ordSem])
#guard (freshAdf ordFms2).ac != (freshAdf ordFms).ac
#guard (freshAdf ordFms2).s.nodes.size == 17 && (freshAdf ordFms).s.nodes.size == 15
#guard (match (runCall (freshAdf ordFms) (.count true)).2 with | .vecs vs => vs.length == 3 | _ => false)
#guard (match answerAfter (freshAdf ordFms) ordHist (.count false) with | .vecs vs => vs.length == 3 | _ => false)
#guard cubesOf (freshAdf ordFms).s ((freshAdf ordFms).ac.getD 4 0) true 7 == cubesOf (freshAdf ordFms2).s ((freshAdf ordFms2).ac.getD 4 0) true 7
-- the canonical cube list on the two tables: the condition of statement 4 (x0 ⊕ (x2 ∧ x4)) has the same three
-- model cubes in the fresh table and in the table after the history (handles as issued there)
#guard cubesOf (freshAdf ordFms).s ((freshAdf ordFms).ac.getD 4 0) true 7 ==
  cubesOf (runCalls (freshAdf ordFms) ordHist).1.s ((runCalls (freshAdf ordFms) ordHist).1.ac.getD 4 0) true 7
#guard (cubesOf (freshAdf ordFms).s ((freshAdf ordFms).ac.getD 4 0) true 7).length == 3

-- by evaluation: the history is not trivial (it allocates nodes, issues handles, answers differ in kind)
#guard (runCalls (freshAdf exFms) exHist).1.s.nodes.size > (freshAdf exFms).s.nodes.size
#guard (runCalls (freshAdf exFms) exHist).1.issued.length == 4
#guard answerAfter (freshAdf exFms) exHist .stable == .vecs [[0, 1], [1, 0]]
#guard (runCall (freshAdf exFms) .stable).2 == .vecs [[0, 1], [1, 0]]
#guard (match answerAfter (freshAdf exFms) exHist (.ng .minPathsMaxVarImp 1000 false) with
        | .ng vs _ => vs.length == 2 | _ => false)
-- the search history: both searches emit two vectors, the bounded run hits its bound, the memo tables
-- of the used object are not empty, and the answers agree with the memo-dropped copy (by evaluation)
#guard (runCalls (freshAdf exFms) exHistS).2.length == 9
#guard (runCalls (freshAdf exFms) exHistS).2[1]? == some (.vecs [[0, 1], [1, 0]])
#guard (match (runCalls (freshAdf exFms) exHistS).2[2]? with | some (Answer.ng vs tr) => vs.length == 2 && tr.length ≥ 1 | _ => false)
#guard (match (runCalls (freshAdf exFms) exHistS).2[5]? with | some (Answer.ng vs _) => vs.length == 2 | _ => false)
#guard (runCalls (freshAdf exFms) exHistS).2[8]? == some .fuelExhausted
#guard (runCalls (freshAdf exFms) exHist).1.s.resC.size > 0
#guard (dropMemo (runCalls (freshAdf exFms) exHist).1).s.resC.size == 0
#guard (runCalls (dropMemo (runCalls (freshAdf exFms) exHist).1) exHistS).2 == (runCalls (runCalls (freshAdf exFms) exHist).1 exHistS).2

end C11

#print axioms C11.history_invariant
#print axioms C11.answers_exact
#print axioms C11.answers_history_independent
#print axioms C11.ng_halts_after_history
#print axioms C11.answers_exact_after_history_from_formulas
#print axioms C11.answers_memo_independent_call
#print axioms C11.answers_memo_independent
#print axioms C11.answers_depend_on_node_table
#print axioms C11.answers_memo_dropped
#print axioms C11.answers_memo_dropped_midway
#print axioms C11.answers_reimport_midway
#print axioms C11.answers_memo_independent_partial
#print axioms C11.answers_memo_dropped_partial
#print axioms C11.query_answers_exact
#print axioms C11.query_answers_exact_after_history_from_formulas
#print axioms C11.stable_answers_equal_after_history
#print axioms C11.order_across_histories_partial
#print axioms C11.order_across_histories
#print axioms C11.order_across_histories_all
#print axioms C11.canonical_cube_list
#print axioms C11.count_order_history_independent
#print axioms C11.count_candidates_order_history_independent
#print axioms C11.count_order_equal_after_history
#print axioms C11.complete_order_equal_after_history
#print axioms C11.ng_order_equal_after_history
#print axioms C11.memoised_count_is_the_reimport_exception
#print axioms C11.same_seed_same_answers
#print axioms C11.rand_search_exact


/-! ## (with C14) answers as LISTS after both persistence round trips, order and handle numbers included

`C14.*_after_roundtrip` give `SameAnswers` (no duplicates, same members). Both round trips reproduce the NODE
TABLE, and `answers_depend_on_node_table` above says every answer - order included - is a function of the node
table, `n` and `ac`; composed in `PersistMore.lean` and restated here so that they are audited with a property. -/
namespace C14More
open Persist CallH

theorem history_after_roundtrip_lists (a : PAdf) (w : WF a.bdd.st) (hv : ∀ t ∈ a.ac, t < a.bdd.st.nodes.size)
    (h : List Call) :
    let j := fixImportA (importA (exportA a))
    let r := rebuildP a.bdd.st.nodes
    ((runCalls (stateOf j.bdd.st j.ac) h).2 = (runCalls (stateOf a.bdd.st a.ac) h).2 ∧
      (runCalls (stateOf j.bdd.st j.ac) h).1.s.nodes = (runCalls (stateOf a.bdd.st a.ac) h).1.s.nodes) ∧
    ((runCalls (stateOf r.st a.ac) h).2 = (runCalls (stateOf a.bdd.st a.ac) h).2 ∧
      (runCalls (stateOf r.st a.ac) h).1.s.nodes = (runCalls (stateOf a.bdd.st a.ac) h).1.s.nodes) :=
  history_after_roundtrip a w hv h

theorem searches_after_roundtrip_lists (a : PAdf) (w : WF a.bdd.st) (hv : ∀ t ∈ a.ac, t < a.bdd.st.nodes.size) :
    let j := fixImportA (importA (exportA a))
    let r := rebuildP a.bdd.st.nodes
    let n := a.ac.length
    ((completeAll j.bdd.st n j.ac).2.2 = (completeAll a.bdd.st n a.ac).2.2 ∧
     (stableAll j.bdd.st n j.ac).2 = (stableAll a.bdd.st n a.ac).2 ∧
     (Cli.stablePre j.bdd.st n j.ac).2 = (Cli.stablePre a.bdd.st n a.ac).2 ∧
     (∀ useA, (countAll j.bdd.st n j.ac useA).2 = (countAll a.bdd.st n a.ac useA).2)) ∧
    ((completeAll r.st n a.ac).2.2 = (completeAll a.bdd.st n a.ac).2.2 ∧
     (stableAll r.st n a.ac).2 = (stableAll a.bdd.st n a.ac).2 ∧
     (Cli.stablePre r.st n a.ac).2 = (Cli.stablePre a.bdd.st n a.ac).2 ∧
     (∀ useA, (countAll r.st n a.ac useA).2 = (countAll a.bdd.st n a.ac useA).2)) :=
  searches_after_roundtrip a w hv

theorem nogood_after_roundtrip_lists (a : PAdf) (w : WF a.bdd.st) (hv : ∀ t ∈ a.ac, t < a.bdd.st.nodes.size)
    (heu : SM.Heu) (fuel : Nat) (stable : Bool)
    (hd : (SM.ngSearch heu fuel a.bdd.st a.ac.length a.ac stable).2.2.2 = true) :
    let j := fixImportA (importA (exportA a))
    let r := rebuildP a.bdd.st.nodes
    ((SM.ngSearch heu fuel j.bdd.st a.ac.length j.ac stable).2.2.2 = true ∧
      (SM.ngSearch heu fuel j.bdd.st a.ac.length j.ac stable).2.1 =
        (SM.ngSearch heu fuel a.bdd.st a.ac.length a.ac stable).2.1) ∧
    ((SM.ngSearch heu fuel r.st a.ac.length a.ac stable).2.2.2 = true ∧
      (SM.ngSearch heu fuel r.st a.ac.length a.ac stable).2.1 =
        (SM.ngSearch heu fuel a.bdd.st a.ac.length a.ac stable).2.1) :=
  nogood_after_roundtrip a w hv heu fuel stable hd

/-! third review (audit L1): non-vacuity of `nogood_after_roundtrip_lists` (halting hypothesis) and a TWO-statement
text-level round trip with both hash maps in REVERSED order (the permutation parameters of C14's text theorems were
only exercised with `Perm.refl` on a one-statement object) -/
section ThirdReview
open Std C14


/-- non-vacuity of `nogood_after_roundtrip` on the two-statement object: the halting hypothesis is
satisfiable for every heuristic (stable mode), hence the emitted lists coincide -/
example (heu : SM.Heu) : ∃ fuel,
    (SM.ngSearch heu fuel negStore 2 [3, 2] true).2.2.2 = true ∧
    (SM.ngSearch heu fuel (rebuildP negStore.nodes).st 2 [3, 2] true).2.1 =
      (SM.ngSearch heu fuel negStore 2 [3, 2] true).2.1 := by
  obtain ⟨fuel, h1, _⟩ := C05.ng_search_exact_stable heu negStore 2 [3, 2] negAdf_ok.1 rfl negAdf_ok.2
  exact ⟨fuel, h1, (nogood_after_roundtrip negAdf negAdf_ok.1 negAdf_ok.2 heu fuel true h1).2.2⟩

def m2 : HashMap String Nat := ((∅ : HashMap String Nat).insert "a" 0).insert "b" 1

theorem neg_fits : Json.FitsA negAdf m2.toList.reverse negAdf.bdd.st.uniq.toList.reverse :=
  Json.fitsA_of_wf negAdf m2 _ _ negAdf_ok.1
    (by show negStore.nodes.size ≤ _; rw [negStore_nodes]; simp [Json.B64])
    negAdf_ok.2
    (fun k v h => by
      simp only [m2, HashMap.getElem?_insert, HashMap.getElem?_empty] at h
      split at h
      · simp at h; subst h; simp [Json.B64]
      · split at h <;> simp at h
        subst h; simp [Json.B64])
    (List.reverse_perm _) (List.reverse_perm _)

/-- two statements, two stable models, both hash maps written in REVERSED iteration order -/
example :
    ∃ r, Json.importFixText (Json.exportText Json.noWs negAdf m2.toList.reverse negAdf.bdd.st.uniq.toList.reverse) = some r ∧
      r.names = ["a", "b"] ∧ r.ac = [3, 2] ∧ r.bdd.st.nodes = negStore.nodes ∧
      SameAnswers (dec3 (stableAll r.bdd.st 2 [3, 2]).2) (dec3 (stableAll negStore 2 [3, 2]).2) :=
  let ⟨r, h, hnm, hac, _, _, hs, _⟩ := text_answers_equal Json.noWs (fun _ _ h => by simp [Json.noWs] at h) negAdf m2 _ _
    (List.reverse_perm _) (List.reverse_perm _) neg_fits negAdf_ok.1 negAdf_ok.2
  let ⟨r', h', _, _, hn, _⟩ := text_import_fix Json.noWs (fun _ _ h => by simp [Json.noWs] at h) negAdf m2 _ _
    (List.reverse_perm _) (List.reverse_perm _) neg_fits negAdf_ok.1
  ⟨r, h, hnm, hac, by rw [h] at h'; cases h'; exact hn, hs⟩

-- what the text looks like (evidence)
#eval String.ofList (Json.exportText Json.noWs negAdf m2.toList negAdf.bdd.st.uniq.toList)
#eval String.ofList (Json.exportText C14.someWs nastyAdf nastyMap.toList nastyAdf.bdd.st.uniq.toList)

-- reader: things that must be rejected / accepted
#eval (Json.parse "{\"ordering\":{\"names\":[],\"mapping\":{}},\"bdd\":{\"nodes\":[],\"cache\":[]},\"ac\":[]} x".toList).isSome
#eval (Json.parse "{\"ordering\":{\"names\":[],\"mapping\":{}},\"bdd\":{\"nodes\":[],\"cache\":[]},\"ac\":[]}{}".toList).isSome
#eval (Json.parse "{\"ordering\":{\"names\":[],\"mapping\":{}},\"bdd\":{\"nodes\":[],\"cache\":[]},\"ac\":[1 2]}".toList).isSome
#eval (Json.parse "{\"ordering\":{\"names\":[],\"mapping\":{}},\"bdd\":{\"nodes\":[],\"cache\":[]},\"ac\":[[1]]}".toList).isSome
#eval (Json.parse "{\"ordering\":{\"names\":[],\"mapping\":{}},\"bdd\":{\"nodes\":[],\"cache\":[]},\"ac\":[1],\"x\":true}".toList).isSome
#eval (Json.parse "{\"ordering\":{\"names\":[],\"mapping\":{}},\"bdd\":{\"nodes\":[],\"cache\":[]},\"ac\":[1],\"x\":{\"ac\":[[]]}}".toList).isSome
#eval (Json.parse "{\"ordering\":{\"names\":[],\"mapping\":{},\"names\":[]},\"bdd\":{\"nodes\":[],\"cache\":[]},\"ac\":[1]}".toList).isSome
#eval (Json.parse "{\"ordering\":{\"names\":[],\"mapping\":{\"a\":1,\"a\":2}},\"bdd\":{\"nodes\":[],\"cache\":[]},\"ac\":[1]}".toList).map (·.mapping)
#eval (Json.parse "{\"ordering\":{\"names\":[],\"mapping\":{}},\"bdd\":{\"nodes\":[[1,2,3,4]],\"cache\":[]},\"ac\":[1]}".toList).isSome
#eval (Json.parse "{\"ordering\":{\"names\":[],\"mapping\":{}},\"bdd\":{\"nodes\":[],\"cache\":[]},\"ac\":[1]".toList).isSome
#eval (Json.parse "{\"ordering\":{\"names\":[\"\\ud83d\\ude00\"],\"mapping\":{}},\"bdd\":{\"nodes\":[],\"cache\":[]},\"ac\":[1]}".toList).isSome

end ThirdReview

end C14More

#print axioms C14More.history_after_roundtrip_lists
#print axioms C14More.searches_after_roundtrip_lists
#print axioms C14More.nogood_after_roundtrip_lists
