import AdfObdd.ClosureSound
import AdfObdd.SearchModel
import AdfObdd.Stable
import AdfObdd.NgEndToEnd
import AdfObdd.NgChannel
import AdfObdd.NgPartialHeu
import AdfObdd.NgChannelMore
import AdfObdd.NgFuelBound
/-! # C05 — the nogood-learning search is exact and terminates for every heuristic

**Main theorem** `ng_search_exact` (= `ng_search_statement`): for the CONCRETE executable model
`SM.ngSearch` (`SM.ngIter`/`SM.ngRun`, what the driver runs handle for handle against
`Adf::nogood_internal`), every heuristic of `SM.Heu` (Simple, both counting heuristics, the scripted
shape of Rand/custom heuristics under every seed), every well-formed store and every valid vector of
acceptance conditions: there is a fuel within which the loop halts, and the emitted interpretations
are, without repetition, exactly the stable models (`stable = true`) resp. the two-valued models
(`stable = false`) of the conditions' Boolean functions. `ng_search_exact_from_formulas` is the same
from the written conditions (`from_parser` model), where the only side condition of the two-valued
mode — the conditions mention statements of the framework only — is a property of the text.
The fuel is EXPLICIT: `ng_search_halts_within_explicit_bound` / `ng_search_exact_within_explicit_bound` —
at every fuel `≥ NConc.ngBound n = 2^(n+3)` (`n` statements) the loop has halted with the exact answer
(section "the explicit iteration bound"; `2^(n+3) ≤ 10^6`, the driver's bound, iff `n ≤ 16`).

How it is proved (files `NgGen`, `NgGenHalt`, `NgSem`, `NgConcrete`, `NgLeaf`, `NgSimulation`,
`NgEndToEnd`):

1. `NGen`: the abstract machine of `NgSearch.lean`/`NgHalt.lean` generalised over the type of the
   interpretation vector (`dec : V → PA`) and of the nogood store, all laws relativised to shape
   predicates carried by the invariant; the heuristic is an oracle indexed by the iteration number.
   `generic_exact_if_halts` (safety) and `generic_terminates` (liveness, big-step induction; new:
   an iteration that changes the vector but not its decided part is followed by one that classifies).
2. `NSem`: the instance `V := List BoolFn` (denotations of the handle vector), buckets with `addNg`,
   the concrete `conclusionClosure`, `semRound`, semantic consistency/leaf tests — no free parameter
   left but the raw heuristic answers; all laws discharged (`semantic_machine_exact`,
   `semantic_machine_halts`). On denotations the machine's test "`gam cur ≠ cur`" is the code's
   `update_fp` on handles (canonicity), so the simulation is LOCK-STEP: the stutter of the
   decided-part abstraction disappears.
3. `NConc`: every concrete operation computes the semantic one under `v ↦ v.map (eval s)`
   (`concrete_closure_is_abstract_closure`, `leaf_test_decides_stability`, `heuristics_valid`,
   `heuristics_total`), hence `concrete_iteration_is_abstract_iteration`; the oracle is read off the
   concrete run itself.

**Channel clause** (`channel_variants_statement`, `channel_variants_deliver_exactly`): the search as a
producer that `send`s each model into a channel (unbounded or bounded) and drops the sender when
`nogood_internal` returns, a consumer iterating over the receiver, EVERY schedule of the two
(`Channel.lean`, `NgChannel.lean`); `iterator_variant_exact` is `stable_nogood`,
`iterator_variant_exact_two_valued` the sequential consumer of the CLI's `--twoval` (bin/src/main.rs:238-242).
Second review, item 10 (`ChannelZero`, `ChannelClones`, `ChannelDrop`, `NgChannelMore`):
`rendezvous_channel_delivers_exactly` (`bounded(0)`, which `Chan.run` treats as "always full": there the
hand-over is one joint event), `shared_sender_clones_deliver` (k searches of one object on CLONES of one
sender, explicit sender count: the consumer receives the concatenation and its loop ends exactly after the
last handle is dropped), `receiver_dropped_before_last_model_panics` (the `.expect` at the send site with the
concrete producer).  In `Chan.Cfg` the flag `closed` means "the ONE sender the search was handed is dropped";
it coincides with "channel disconnected" only when no clone exists - the clone model is `Chan.MCfg`.

**Heuristics that give no answer** (`heuristic_totality_necessary`): `HeuOK.total` cannot be dropped
(`NgPartialHeu.lean`).

The prototype theorems on the `PA`-level machine (`exact_if_halts`, `terminates`, `stutter_transfer`) are
not connected to `SM.ngSearch` any more and live in `AdfObdd/NgPrototype.lean` (namespace `NgProto`). -/
namespace C05

/-! ## the generic machine (any vector type, any store type, shape-relativised laws) -/

/-- safety of the generic machine: if the run halts, the emitted list is exactly the target models,
each once, and every output is two-valued and well shaped -/
theorem generic_exact_if_halts {V Sto : Type} {T : Asg → Prop} {P : NGen.GParams V Sto} (hP : NGen.GSound T P)
    (fuel k : Nat) (s s' : NGen.St V Sto) (hinv : NGen.SInv T P s) (hr : NGen.run P k fuel s = some s') :
    (∀ σ, T σ → ∃ o ∈ s'.out, Matches o σ) ∧ (∀ o ∈ s'.out, ∀ σ, Matches o σ → T σ) ∧ s'.out.Nodup ∧
    (∀ o ∈ s'.out, P.twoVal o = true ∧ P.OkG o) :=
  NGen.run_exact hP fuel k s s' hinv hr

/-- liveness of the generic machine (for every heuristic oracle; `gam_idem` pays for the iterations in
which only residual handles change) -/
theorem generic_terminates {V Sto : Type} {P : NGen.GParams V Sto} {n : Nat} {mu : PA → Nat} (hL : NGen.GLive P n mu)
    (g : V) (st : Sto) (hok : P.Ok g) (hoks : P.OkS st) (hemp : ∀ x, ¬ P.Mem st x) (k : Nat) :
    ∃ fuel s', NGen.run P k fuel { cur := g, store := st, stack := [], backtrack := false, choice := false, out := [] } = some s' :=
  NGen.halts hL g st hok hoks hemp k

/-! ## the semantic instance: concrete closure, concrete semantics of `D`, any heuristic oracle -/

/-- all soundness laws hold of the semantic instance (`D` of width `n`; in two-valued mode the
conditions depend on the statements only) — for EVERY sequence of raw heuristic answers -/
theorem semantic_laws_sound {D : List BoolFn} {n : Nat} {stable : Bool} (hD : D.length = n)
    (hS : stable = false → ∀ f ∈ D, NSem.Supp n f) (raw : Nat → Option (Nat × Bool)) :
    NGen.GSound (NSem.Target D n stable) (NSem.semP D n stable raw) := NSem.sem_sound hD hS raw

/-- all liveness laws hold of the semantic instance, with `mu` = number of decided statements -/
theorem semantic_laws_live {D : List BoolFn} {n : Nat} {stable : Bool} (raw : Nat → Option (Nat × Bool)) :
    NGen.GLive (NSem.semP D n stable raw) n size := NSem.sem_live raw

/-- the abstract machine with the concrete closure and the concrete semantics is exact … -/
theorem semantic_machine_exact {D : List BoolFn} {n : Nat} {stable : Bool} (hD : D.length = n)
    (hS : stable = false → ∀ f ∈ D, NSem.Supp n f) (raw : Nat → Option (Nat × Bool))
    (V0 : List BoolFn) (hok : NSem.OkV D n stable V0) (hg : ∀ σ, NSem.Target D n stable σ → Matches (cv V0) σ)
    (fuel : Nat) (s' : NGen.St (List BoolFn) (List (List PA)))
    (hr : NGen.run (NSem.semP D n stable raw) 0 fuel (NSem.initSt V0 n) = some s') :
    (∀ σ, NSem.Target D n stable σ → ∃ o ∈ s'.out, Matches o σ) ∧
    (∀ o ∈ s'.out, ∀ σ, Matches o σ → NSem.Target D n stable σ) ∧ s'.out.Nodup ∧
    (∀ o ∈ s'.out, NSem.twoV o = true ∧ o.length = n) :=
  NSem.sem_exact hD hS raw V0 hok hg fuel s' hr

/-- … and halts -/
theorem semantic_machine_halts {D : List BoolFn} {n : Nat} {stable : Bool} (raw : Nat → Option (Nat × Bool))
    (V0 : List BoolFn) (hok : NSem.OkV D n stable V0) :
    ∃ fuel s', NGen.run (NSem.semP D n stable raw) 0 fuel (NSem.initSt V0 n) = some s' :=
  NSem.sem_halts raw V0 hok

/-! ## the concrete operations against the semantic ones -/

/-- `conclusion_closure` on handle vectors = the `PA`-level closure, then `update_term_vec` -/
theorem concrete_closure_is_abstract_closure (bs : List (List PA)) (v : List Nat) :
    SM.closureF bs v = NConc.liftC v (conclusionClosure bs (toPA v)) := NConc.closureF_eq bs v

/-- `stability_check` decides "the least fixpoint of the reduct is the candidate" -/
theorem leaf_test_decides_stability (s : Store) (n : Nat) (ac cand : List Nat) (w : WF s)
    (hac : ∀ t ∈ ac, t < s.nodes.size) (hl : ac.length = n) (hc : cand.length = n) :
    WF (stabilityCheck s n ac cand).1 ∧ Ext s (stabilityCheck s n ac cand).1 ∧
    ((stabilityCheck s n ac cand).2 = true ↔
      ∀ w', IsLfp (redu (ac.map (eval s)) (toPA cand)) w' → w' = toPA cand) :=
  NConc.stabilityCheck_spec s n ac cand w hac hl hc

/-- validity of the built-in heuristics of the concrete model: whatever they return is an undecided
statement with a truth value (for the scripted/Rand shape: for EVERY generator output) -/
theorem heuristics_valid (h : SM.Heu) (s : Store) (v : List Nat) (time i t : Nat)
    (hc : SM.heuCall h s v time = some (i, t)) :
    t < 2 ∧ i < v.length ∧ ∃ x, v[i]? = some x ∧ isTV x = false := NConc.heuCall_valid h s v time i t hc

/-- totality: a heuristic gives no answer only when no statement is undecided -/
theorem heuristics_total (h : SM.Heu) (s : Store) (v : List Nat) (time : Nat)
    (hc : SM.heuCall h s v time = none) : v.all isTV = true := NConc.heuCall_none h s v time hc

/-- `SM.ngIter` is the composition of its phases (`rfl` and one case split); `NConc.cIter` takes an
arbitrary heuristic FUNCTION in the place of `SM.heuCall h` -/
theorem concrete_iteration_phases (h : SM.Heu) (n : Nat) (ac : List Nat) (stable : Bool) (st : SM.NgS) :
    SM.ngIter h n ac stable st = NConc.cIter (SM.heuCall h) n ac stable st := NConc.ngIter_eq h n ac stable st

/-- the built-in heuristics satisfy what C05 asks of a heuristic -/
theorem builtin_heuristics_ok (h : SM.Heu) : NConc.HeuOK (SM.heuCall h) := NConc.heuOK_builtin h

/-- **lock-step simulation**: one concrete iteration is one iteration of the semantic machine whose
heuristic oracle answers, in iteration `k`, what the concrete heuristic answers -/
theorem concrete_iteration_is_abstract_iteration {s0 : Store} {n : Nat} (ac : List Nat) (stable : Bool)
    (raw : Nat → Option (Nat × Bool)) (w0 : WF s0) (hac0 : ∀ t ∈ ac, t < s0.nodes.size) (hn : ac.length = n)
    {h : NConc.CHeu} (hok : NConc.HeuOK h) (k : Nat) {c : SM.NgS} {a : NConc.ASt} (hr : NConc.Rel c a)
    (hi : NConc.CInv s0 n c) (hraw : raw k = NConc.conv (h c.s c.cur c.time)) :
    match NGen.iter (NConc.PP s0 n ac stable raw) k a with
    | NGen.Res.done a' => (NConc.cIter h n ac stable c).done = true ∧ (NConc.cIter h n ac stable c).out.map toPA = a'.out
    | NGen.Res.cont a' => NConc.Rel (NConc.cIter h n ac stable c) a' ∧ NConc.CInv s0 n (NConc.cIter h n ac stable c) :=
  NConc.sim_iter ac stable raw w0 hac0 hn hok k hr hi hraw

/-! ## the end-to-end theorem -/

/-- full statement for the concrete machine. With respect to the statement written in the design
round one hypothesis was added, for the two-valued mode only: the conditions depend on the
statements `0 … n-1` only (for a framework that comes out of the parser: every atom is a declared
statement). Without it the two-valued claim is false of the model — store `mkNode Store.init 5 0 1`,
`n = 1`, `ac = [2]` (the condition of statement 0 is the foreign variable 5): the search emits `[1]`
and `[0]`, neither of which is a fixpoint of `Γ` (`#guard` at the end of this file); the consistency
test only looks at entries that are constant. (The parser cannot produce such conditions: an
undeclared atom makes `from_parser` panic; so this is a side condition of the statement about
arbitrary handle vectors, not a defect of the code.) The stable mode needs nothing: its stability
test re-derives every value. -/
def ng_search_statement : Prop :=
  ∀ (h : SM.Heu) (s : Store) (n : Nat) (ac : List Nat) (stable : Bool),
    WF s → ac.length = n → (∀ t ∈ ac, t < s.nodes.size) →
    (stable = false → ∀ t ∈ ac, ∀ σ τ : Asg, (∀ i, i < n → σ i = τ i) → eval s t σ = eval s t τ) →
    ∃ fuel, (SM.ngSearch h fuel s n ac stable).2.2.2 = true ∧
      let D := ac.map (eval s)
      let out := (SM.ngSearch h fuel s n ac stable).2.1.map (fun v => v.map storeIsConst)
      out.Nodup ∧ ∀ v : I3, v ∈ out ↔
        (v.length = n ∧ TotalI v ∧ Gam D v = v ∧
          (stable = true → ∀ w : I3, IsLfp (redu D v) w → ∀ i : Nat, v[i]? = some (some true) → w[i]? = some (some true)))

/-- **C05**: the concrete nogood-learning search halts and emits exactly the stable models (two-valued
mode: exactly the two-valued models), each once — for every heuristic of `SM.Heu`, every well-formed
store, every valid vector of conditions -/
theorem ng_search_exact : ng_search_statement := by
  intro h s n ac stable w hn hv hsup
  exact NConc.ng_end_to_end h s n ac stable w hn hv hsup

/-- **C05 for arbitrary custom heuristics**: the same for the loop run with ANY function of (store,
vector shown, number of earlier calls) that always proposes an undecided statement with a truth
value (`NConc.HeuOK`) — `NConc.cSearch hc` is `SM.ngSearch` with `hc` in the place of `SM.heuCall h`
(`NConc.ngSearch_eq`) -/
theorem ng_search_exact_any_heuristic (hc : NConc.CHeu) (hok : NConc.HeuOK hc) (s : Store) (n : Nat) (ac : List Nat)
    (stable : Bool) (w0 : WF s) (hn : ac.length = n) (hac0 : ∀ t ∈ ac, t < s.nodes.size)
    (hsup : stable = false → ∀ t ∈ ac, ∀ σ τ : Asg, (∀ i, i < n → σ i = τ i) → eval s t σ = eval s t τ) :
    ∃ fuel, (NConc.cSearch hc fuel s n ac stable).2.2.2 = true ∧
      let D := ac.map (eval s)
      let out := (NConc.cSearch hc fuel s n ac stable).2.1.map (fun v => v.map storeIsConst)
      out.Nodup ∧ ∀ v : I3, v ∈ out ↔
        (v.length = n ∧ TotalI v ∧ Gam D v = v ∧
          (stable = true → ∀ w : I3, IsLfp (redu D v) w → ∀ i : Nat, v[i]? = some (some true) → w[i]? = some (some true))) :=
  NConc.search_exact_any_heuristic hc hok s n ac stable w0 hn hac0 hsup

/-- in stable mode the statement of the design round holds verbatim (no side condition) -/
theorem ng_search_exact_stable (h : SM.Heu) (s : Store) (n : Nat) (ac : List Nat) (w : WF s) (hn : ac.length = n)
    (hv : ∀ t ∈ ac, t < s.nodes.size) :
    ∃ fuel, (SM.ngSearch h fuel s n ac true).2.2.2 = true ∧
      let D := ac.map (eval s)
      let out := (SM.ngSearch h fuel s n ac true).2.1.map (fun v => v.map storeIsConst)
      out.Nodup ∧ ∀ v : I3, v ∈ out ↔
        (v.length = n ∧ TotalI v ∧ Gam D v = v ∧
          ∀ w : I3, IsLfp (redu D v) w → ∀ i : Nat, v[i]? = some (some true) → w[i]? = some (some true)) := by
  obtain ⟨fuel, h1, h2, h3⟩ := ng_search_exact h s n ac true w hn hv (fun hc => by cases hc)
  refine ⟨fuel, h1, h2, ?_⟩
  intro v
  rw [h3 v]
  constructor
  · intro ⟨a, b, c, d⟩; exact ⟨a, b, c, d rfl⟩
  · intro ⟨a, b, c, d⟩; exact ⟨a, b, c, fun _ => d⟩

/-- C05 end to end from the written acceptance conditions (`from_parser` model + search): the side
condition of the two-valued mode is "every atom is a statement of the framework" -/
theorem ng_search_exact_from_formulas (h : SM.Heu) (fms : List Fm) (stable : Bool) (hn : fms.length ≤ VBOT)
    (hv : ∀ f ∈ fms, NConc.atomsLt fms.length f) :
    ∃ fuel, (SM.ngSearch h fuel (buildNative fms.length fms).1 fms.length (buildNative fms.length fms).2 stable).2.2.2 = true ∧
      let D := fms.map Fm.sem
      let out := (SM.ngSearch h fuel (buildNative fms.length fms).1 fms.length (buildNative fms.length fms).2 stable).2.1.map
        (fun v => v.map storeIsConst)
      out.Nodup ∧ ∀ v : I3, v ∈ out ↔
        (v.length = fms.length ∧ TotalI v ∧ Gam D v = v ∧
          (stable = true → ∀ w : I3, IsLfp (redu D v) w → ∀ i : Nat, v[i]? = some (some true) → w[i]? = some (some true))) :=
  NConc.ng_end_to_end_compiled h fms stable hn hv

/-! ## the explicit iteration bound (both reviews' "fuel" items)

`ng_search_exact` says "there is a fuel". The termination argument (`NGen.bigstep`: strong induction
on the number `d` of undecided statements) is redone in `AdfObdd/NgBound.lean` with the iterations
counted (`NGen.bigstepN`): exploring the subtree below a state with `d` undecided statements takes at
most `stepsT d` iterations, `stepsT 0 = 2`, `stepsT (d+1) = 2 * stepsT d + 6`, i.e. `8 * 2^d - 6`;
from the start state two more iterations are needed. The simulation concrete ↔ semantic machine is
lock-step, so the same number bounds `SM.ngRun` (`AdfObdd/NgFuelBound.lean`):

    NConc.ngBound n = 2^(n+3)      (n = number of statements; not tight)

It is exponential in `n` (it has to be: the loop emits up to `2^n` models), so it reaches the driver's
10^6 exactly for `n ≤ 16`. For larger frameworks "halted within 10^6" stays a hypothesis of the CLI /
server theorems and is established by evaluation only; the Rust loop itself has no bound. -/

/-- liveness of the generic machine with the iterations counted: at most `stepsT n + 2` -/
theorem generic_terminates_within {V Sto : Type} {P : NGen.GParams V Sto} {n : Nat} {mu : PA → Nat}
    (hL : NGen.GLive P n mu) (g : V) (st : Sto) (hok : P.Ok g) (hoks : P.OkS st) (hemp : ∀ x, ¬ P.Mem st x) (k : Nat) :
    ∃ fuel s', fuel ≤ NGen.stepsT n + 2 ∧
      NGen.run P k fuel { cur := g, store := st, stack := [], backtrack := false, choice := false, out := [] } = some s' :=
  NGen.halts_within hL g st hok hoks hemp k

/-- closed form of the step count: `stepsT d = 8 * 2^d - 6` -/
theorem generic_step_count_closed_form (d : Nat) : NGen.stepsT d + 6 = 8 * 2 ^ d := NGen.stepsT_closed d

/-- … which is below the bound used for the concrete loop -/
theorem generic_step_count_le_bound (n : Nat) : NGen.stepsT n + 2 ≤ NConc.ngBound n := NConc.stepsT_le_ngBound n

/-- statement: under the hypotheses of `ng_search_exact` (halting needs neither the support hypothesis
of the two-valued mode nor anything about the heuristic beyond `SM.Heu`) the loop has halted at EVERY
fuel from `2^(n+3)` on -/
def ng_search_halts_within_statement : Prop :=
  ∀ (h : SM.Heu) (s : Store) (n : Nat) (ac : List Nat) (stable : Bool),
    WF s → ac.length = n → (∀ t ∈ ac, t < s.nodes.size) →
    ∀ fuel, NConc.ngBound n ≤ fuel → (SM.ngSearch h fuel s n ac stable).2.2.2 = true

/-- **C05, explicit fuel**: `SM.ngSearch` has halted within `NConc.ngBound n = 2^(n+3)` iterations -/
theorem ng_search_halts_within_explicit_bound : ng_search_halts_within_statement := by
  intro h s n ac stable w hn hv fuel hf
  exact NConc.ngSearch_halts_within h s n ac stable w hn hv fuel hf

/-- the same for ANY heuristic function satisfying `NConc.HeuOK` -/
theorem ng_search_halts_within_any_heuristic (hc : NConc.CHeu) (hok : NConc.HeuOK hc) (s : Store) (n : Nat)
    (ac : List Nat) (stable : Bool) (w0 : WF s) (hn : ac.length = n) (hac0 : ∀ t ∈ ac, t < s.nodes.size) :
    ∀ fuel, NConc.ngBound n ≤ fuel → (NConc.cSearch hc fuel s n ac stable).2.2.2 = true :=
  NConc.search_halts_within_any_heuristic hc hok s n ac stable w0 hn hac0

/-- **`ng_search_exact` with the quantifier over the fuel turned round**: at EVERY fuel `≥ 2^(n+3)` the
search has halted and the emitted list is exactly the models, each once -/
theorem ng_search_exact_within_explicit_bound (h : SM.Heu) (s : Store) (n : Nat) (ac : List Nat) (stable : Bool)
    (w : WF s) (hn : ac.length = n) (hv : ∀ t ∈ ac, t < s.nodes.size)
    (hsup : stable = false → ∀ t ∈ ac, ∀ σ τ : Asg, (∀ i, i < n → σ i = τ i) → eval s t σ = eval s t τ) :
    ∀ fuel, NConc.ngBound n ≤ fuel → (SM.ngSearch h fuel s n ac stable).2.2.2 = true ∧
      let D := ac.map (eval s)
      let out := (SM.ngSearch h fuel s n ac stable).2.1.map (fun v => v.map storeIsConst)
      out.Nodup ∧ ∀ v : I3, v ∈ out ↔
        (v.length = n ∧ TotalI v ∧ Gam D v = v ∧
          (stable = true → ∀ w : I3, IsLfp (redu D v) w → ∀ i : Nat, v[i]? = some (some true) → w[i]? = some (some true))) :=
  NConc.ngSearch_exact_within h s n ac stable w hn hv hsup

/-- … and from the written conditions -/
theorem ng_search_exact_within_from_formulas (h : SM.Heu) (fms : List Fm) (stable : Bool) (hn : fms.length ≤ VBOT)
    (hv : ∀ f ∈ fms, NConc.atomsLt fms.length f) :
    ∀ fuel, NConc.ngBound fms.length ≤ fuel →
      (SM.ngSearch h fuel (buildNative fms.length fms).1 fms.length (buildNative fms.length fms).2 stable).2.2.2 = true ∧
      let D := fms.map Fm.sem
      let out := (SM.ngSearch h fuel (buildNative fms.length fms).1 fms.length (buildNative fms.length fms).2 stable).2.1.map
        (fun v => v.map storeIsConst)
      out.Nodup ∧ ∀ v : I3, v ∈ out ↔
        (v.length = fms.length ∧ TotalI v ∧ Gam D v = v ∧
          (stable = true → ∀ w : I3, IsLfp (redu D v) w → ∀ i : Nat, v[i]? = some (some true) → w[i]? = some (some true))) :=
  NConc.ngSearch_exact_within_compiled h fms stable hn hv

/-- the bound as numerals (kernel-checked evaluation) -/
theorem explicit_bound_2 : NConc.ngBound 2 = 32 := rfl
theorem explicit_bound_5 : NConc.ngBound 5 = 256 := rfl
theorem explicit_bound_6 : NConc.ngBound 6 = 512 := rfl
theorem explicit_bound_8 : NConc.ngBound 8 = 2048 := rfl
theorem explicit_bound_16 : NConc.ngBound 16 = 524288 := rfl
theorem explicit_bound_17 : NConc.ngBound 17 = 1048576 := rfl

/-- 16 is the largest number of statements for which the explicit bound is within the driver's 10^6 -/
theorem explicit_bound_within_driver_bound_iff (n : Nat) : NConc.ngBound n ≤ 1000000 ↔ n ≤ 16 :=
  NConc.ngBound_le_million_iff n

/-- **the driver's bound suffices for at most 16 statements** (every heuristic, both modes) -/
theorem ng_search_halts_within_driver_bound (h : SM.Heu) (s : Store) (n : Nat) (ac : List Nat) (stable : Bool)
    (w : WF s) (hn : ac.length = n) (hv : ∀ t ∈ ac, t < s.nodes.size) (h16 : n ≤ 16) :
    (SM.ngSearch h 1000000 s n ac stable).2.2.2 = true :=
  ng_search_halts_within_explicit_bound h s n ac stable w hn hv 1000000
    ((explicit_bound_within_driver_bound_iff n).mpr h16)

/-- validity of the built-in heuristics of the concrete model: whatever they return is an undecided
statement with a truth value (for the scripted/Rand shape: for EVERY generator output) -/
theorem builtin_heuristics_valid (h : SM.Heu) (s : Store) (v : List Nat) (time i t : Nat)
    (hc : SM.heuCall h s v time = some (i, t)) : t < 2 ∧ ∃ x, (x, i) ∈ v.zipIdx ∧ isTV x = false := by
  have ⟨h1, h2, x, h3, h4⟩ := NConc.heuCall_valid h s v time i t hc
  refine ⟨h1, x, ?_, h4⟩
  rw [List.mem_zipIdx_iff_getElem?]
  simpa using h3


/-! ## the channel variants -/

/-- what "the models, each once" means for a list of handle vectors (the right-hand side of `ng_search_statement`) -/
def ExactModels (s : Store) (n : Nat) (ac : List Nat) (stable : Bool) (res : List (List Nat)) : Prop :=
  let D := ac.map (eval s)
  let out := res.map (fun v => v.map storeIsConst)
  out.Nodup ∧ ∀ v : I3, v ∈ out ↔
    (v.length = n ∧ TotalI v ∧ Gam D v = v ∧
      (stable = true → ∀ w : I3, IsLfp (redu D v) w → ∀ i : Nat, v[i]? = some (some true) → w[i]? = some (some true)))

/-- full statement of the channel clause for `stable_nogood_channel` (`stable = true`) and
`two_val_nogood_channel` (`stable = false`): there is a list `res` - the list `SM.ngSearch` returns, which is
exactly the stable resp. two-valued models, each once - such that for EVERY channel capacity (`none` =
unbounded, `some k` = `bounded(k)`) and EVERY schedule of producer and consumer steps
 1. what the consumer has received, followed by what is queued, is a prefix of `res`;
 2. once the sender is dropped, received ++ queued = `res`, and the events at the sending end were: one `send`
    per element of `res`, in order, then the `close` - and (3.) before that no `close`;
 4. whenever the consumer's `for … in receiver` has ended, it has received exactly `res` (same order, same
    multiplicities) and the channel is closed and empty;
 5. if the capacity is ≥ 1, every schedule with `m` fair rounds (`m` ≥ the total work) ends the consumer's loop;
 6. after the sender is dropped nothing changes at the sending end under any continuation of the schedule. -/
def channel_variants_statement : Prop :=
  ∀ (h : SM.Heu) (s : Store) (n : Nat) (ac : List Nat) (stable : Bool),
    WF s → ac.length = n → (∀ t ∈ ac, t < s.nodes.size) →
    (stable = false → ∀ t ∈ ac, ∀ σ τ : Asg, (∀ i, i < n → σ i = τ i) → eval s t σ = eval s t τ) →
    ∃ fuel, (SM.ngSearch h fuel s n ac stable).2.2.2 = true ∧
      let res := (SM.ngSearch h fuel s n ac stable).2.1
      ExactModels s n ac stable res ∧
      ∀ (cap : Option Nat) (sched : List Chan.Ev),
        let c := NConc.chanRun (SM.heuCall h) cap sched s n ac stable
        (c.got ++ c.buf <+: res) ∧
        (c.closed = true → c.got ++ c.buf = res ∧ c.log = res.map Chan.ChEv.send ++ [Chan.ChEv.close]) ∧
        (c.closed = false → ∀ e ∈ c.log, e ≠ Chan.ChEv.close) ∧
        (c.consDone = true → c.got = res ∧ c.closed = true ∧ c.buf = []) ∧
        ((∀ k, cap = some k → 1 ≤ k) → ∀ m, Chan.Fair m sched → fuel + res.length + 1 + res.length + 1 ≤ m →
            c.consDone = true) ∧
        (c.closed = true → ∀ more : List Chan.Ev,
            let c' := NConc.chanRun (SM.heuCall h) cap (sched ++ more) s n ac stable
            c'.closed = true ∧ c'.log = c.log ∧ c'.got ++ c'.buf = c.got ++ c.buf)

/-- the same for the loop run with ANY heuristic function satisfying `NConc.HeuOK` -/
theorem channel_variants_any_heuristic (hc : NConc.CHeu) (hok : NConc.HeuOK hc) (s : Store) (n : Nat) (ac : List Nat)
    (stable : Bool) (w0 : WF s) (hn : ac.length = n) (hac0 : ∀ t ∈ ac, t < s.nodes.size)
    (hsup : stable = false → ∀ t ∈ ac, ∀ σ τ : Asg, (∀ i, i < n → σ i = τ i) → eval s t σ = eval s t τ) :
    ∃ fuel, (NConc.cSearch hc fuel s n ac stable).2.2.2 = true ∧
      let res := (NConc.cSearch hc fuel s n ac stable).2.1
      ExactModels s n ac stable res ∧
      ∀ (cap : Option Nat) (sched : List Chan.Ev),
        let c := NConc.chanRun hc cap sched s n ac stable
        (c.got ++ c.buf <+: res) ∧
        (c.closed = true → c.got ++ c.buf = res ∧ c.log = res.map Chan.ChEv.send ++ [Chan.ChEv.close]) ∧
        (c.closed = false → ∀ e ∈ c.log, e ≠ Chan.ChEv.close) ∧
        (c.consDone = true → c.got = res ∧ c.closed = true ∧ c.buf = []) ∧
        ((∀ k, cap = some k → 1 ≤ k) → ∀ m, Chan.Fair m sched → fuel + res.length + 1 + res.length + 1 ≤ m →
            c.consDone = true) ∧
        (c.closed = true → ∀ more : List Chan.Ev,
            let c' := NConc.chanRun hc cap (sched ++ more) s n ac stable
            c'.closed = true ∧ c'.log = c.log ∧ c'.got ++ c'.buf = c.got ++ c.buf) := by
  obtain ⟨fuel, hd, hex⟩ := ng_search_exact_any_heuristic hc hok s n ac stable w0 hn hac0 hsup
  refine ⟨fuel, hd, hex, ?_⟩
  intro cap sched
  have ⟨a, b, c, d, e⟩ := NConc.channel_delivers hc cap s n ac stable hd sched
  exact ⟨a, b, c, d, e, fun hcl more => NConc.channel_frozen_after_close hc cap s n ac stable sched more hcl⟩

/-- **C05, channel clause**: the channel variants deliver exactly the stable (resp. two-valued) models, each
once, in the order in which `SM.ngSearch` lists them, under every schedule and every capacity; the sender is
dropped exactly after the last model was sent, nothing is sent afterwards, and the consumer's loop over the
channel ends (under every fair schedule) having received exactly that list -/
theorem channel_variants_deliver_exactly : channel_variants_statement := by
  intro h s n ac stable w hn hv hsup
  have := channel_variants_any_heuristic (SM.heuCall h) (NConc.heuOK_builtin h) s n ac stable w hn hv hsup
  simp only [← NConc.ngSearch_eq] at this
  exact this

/-- **the iterator variant `stable_nogood`**: unbounded channel created inside, the whole search first, the
sender dropped at its end, then `r.iter().collect()`: the collection ends and is exactly the list of stable
models `SM.ngSearch` returns (`a`, `b` = numbers of producer / consumer steps granted, any sufficiently large) -/
theorem iterator_variant_exact (h : SM.Heu) (s : Store) (n : Nat) (ac : List Nat) (w : WF s) (hn : ac.length = n)
    (hv : ∀ t ∈ ac, t < s.nodes.size) :
    ∃ fuel, (SM.ngSearch h fuel s n ac true).2.2.2 = true ∧
      let res := (SM.ngSearch h fuel s n ac true).2.1
      ExactModels s n ac true res ∧
      ∀ a b, fuel + res.length + 1 ≤ a → res.length + 1 ≤ b →
        let c := NConc.chanRun (SM.heuCall h) none (List.replicate a Chan.Ev.prod ++ List.replicate b Chan.Ev.cons) s n ac true
        c.consDone = true ∧ c.got = res := by
  obtain ⟨fuel, hd, hex⟩ := ng_search_exact h s n ac true w hn hv (fun hc => by cases hc)
  refine ⟨fuel, hd, hex, ?_⟩
  intro a b ha hb
  rw [NConc.ngSearch_eq] at hd ha hb ⊢
  exact NConc.iterator_variant (SM.heuCall h) s n ac true hd a b ha hb

/-- the same for both modes; `stable = false` needs the support hypothesis of the two-valued mode -/
theorem iterator_variant_exact_any_mode (h : SM.Heu) (s : Store) (n : Nat) (ac : List Nat) (stable : Bool) (w : WF s)
    (hn : ac.length = n) (hv : ∀ t ∈ ac, t < s.nodes.size)
    (hsup : stable = false → ∀ t ∈ ac, ∀ σ τ : Asg, (∀ i, i < n → σ i = τ i) → eval s t σ = eval s t τ) :
    ∃ fuel, (SM.ngSearch h fuel s n ac stable).2.2.2 = true ∧
      let res := (SM.ngSearch h fuel s n ac stable).2.1
      ExactModels s n ac stable res ∧
      ∀ a b, fuel + res.length + 1 ≤ a → res.length + 1 ≤ b →
        let c := NConc.chanRun (SM.heuCall h) none (List.replicate a Chan.Ev.prod ++ List.replicate b Chan.Ev.cons) s n ac stable
        c.consDone = true ∧ c.got = res := by
  obtain ⟨fuel, hd, hex⟩ := ng_search_exact h s n ac stable w hn hv hsup
  refine ⟨fuel, hd, hex, ?_⟩
  intro a b ha hb
  rw [NConc.ngSearch_eq] at hd ha hb ⊢
  exact NConc.iterator_variant (SM.heuCall h) s n ac stable hd a b ha hb

/-- **the CLI's `--twoval` consumer** (bin/src/main.rs:238-242: `unbounded()`, the whole call of
`two_val_nogood_channel`, then `for model in receiver.into_iter()`): sequential and two-valued.  This schedule
is not `Chan.Fair m` for useful `m`, so clause 5 of `channel_variants_statement` does not reach it; here it is:
the loop over the receiver ends and has received exactly the list of two-valued models the search returns -/
theorem iterator_variant_exact_two_valued (h : SM.Heu) (s : Store) (n : Nat) (ac : List Nat) (w : WF s)
    (hn : ac.length = n) (hv : ∀ t ∈ ac, t < s.nodes.size)
    (hsup : ∀ t ∈ ac, ∀ σ τ : Asg, (∀ i, i < n → σ i = τ i) → eval s t σ = eval s t τ) :
    ∃ fuel, (SM.ngSearch h fuel s n ac false).2.2.2 = true ∧
      let res := (SM.ngSearch h fuel s n ac false).2.1
      ExactModels s n ac false res ∧
      ∀ a b, fuel + res.length + 1 ≤ a → res.length + 1 ≤ b →
        let c := NConc.chanRun (SM.heuCall h) none (List.replicate a Chan.Ev.prod ++ List.replicate b Chan.Ev.cons) s n ac false
        c.consDone = true ∧ c.got = res :=
  iterator_variant_exact_any_mode h s n ac false w hn hv (fun _ => hsup)

/-! ## `bounded(0)`, clones of the sender, a receiver dropped early (second review, item 10) -/

/-- **`bounded(0)`** (crossbeam's zero-capacity channel is a rendezvous: `send` completes when a receiver takes
the message).  `Chan.run` with `cap = some 0` never sends (`full (some 0) _ = true`), so the clauses of
`channel_variants_statement` hold there for the wrong reason and clause 5 excludes it.  In the rendezvous model
`Chan.Zero` (the hand-over is one joint event, linearised as the consumer's step; a producer standing at `send`
is blocked) the delivery theorem holds: for every schedule (1) the consumer has received a prefix of `res`,
nothing is ever queued; (2) once the sender is dropped everything was received and the sending end saw one
`send` per model, in order, then `close`; (3) when the consumer's loop has ended it has received exactly `res`;
(4) every schedule with enough fair rounds ends the consumer's loop -/
theorem rendezvous_channel_delivers_exactly (h : SM.Heu) (s : Store) (n : Nat) (ac : List Nat) (stable : Bool) (w : WF s)
    (hn : ac.length = n) (hv : ∀ t ∈ ac, t < s.nodes.size)
    (hsup : stable = false → ∀ t ∈ ac, ∀ σ τ : Asg, (∀ i, i < n → σ i = τ i) → eval s t σ = eval s t τ) :
    ∃ fuel, (SM.ngSearch h fuel s n ac stable).2.2.2 = true ∧
      let res := (SM.ngSearch h fuel s n ac stable).2.1
      ExactModels s n ac stable res ∧
      ∀ (sched : List Chan.Ev),
        let c := NConc.chanRunZ (SM.heuCall h) sched s n ac stable
        (c.got <+: res ∧ c.buf = []) ∧
        (c.closed = true → c.got = res ∧ c.log = res.map Chan.ChEv.send ++ [Chan.ChEv.close]) ∧
        (c.consDone = true → c.got = res ∧ c.closed = true) ∧
        (∀ m, Chan.Fair m sched → fuel + res.length + 1 + res.length + 1 ≤ m → c.consDone = true) := by
  obtain ⟨fuel, hd, hex⟩ := ng_search_exact h s n ac stable w hn hv hsup
  refine ⟨fuel, hd, hex, ?_⟩
  intro sched
  rw [NConc.ngSearch_eq] at hd ⊢
  exact NConc.rendezvous_delivers (SM.heuCall h) s n ac stable hd sched

/-- **the receiver is dropped before the last model was sent: the `.expect("Sender should accept results")` at
the send site panics** - with the concrete producer `NConc.ngProducer` (the search itself), any
capacity (for `cap = some 0` the model `Chan.DCfg` never sends - `Chan.cap0_never_sends` below - so `got = []` and the
hypothesis `sent < res.length` is trivially true there; the rendezvous channel is only treated without receiver drop,
`rendezvous_channel_delivers_exactly`): after ANY schedule `sched` in which fewer models were handed to the channel than the search finds
(`sent < res.length`), the consumer drops the receiver; every continuation `more` containing more than `fuel`
producer steps ends with the producer thread panicked (the unwinding drops the sender), and the consumer has
exactly what it had received when it dropped the receiver.  (If all models were already sent there is nothing
to panic about: `Chan.no_pending_no_panic`.) -/
theorem receiver_dropped_before_last_model_panics (h : SM.Heu) (s : Store) (n : Nat) (ac : List Nat) (stable : Bool)
    (w : WF s) (hn : ac.length = n) (hv : ∀ t ∈ ac, t < s.nodes.size)
    (hsup : stable = false → ∀ t ∈ ac, ∀ σ τ : Asg, (∀ i, i < n → σ i = τ i) → eval s t σ = eval s t τ) :
    ∃ fuel, (SM.ngSearch h fuel s n ac stable).2.2.2 = true ∧
      let res := (SM.ngSearch h fuel s n ac stable).2.1
      ExactModels s n ac stable res ∧
      ∀ (cap : Option Nat) (sched : List Chan.Ev) (more : List Chan.DEv),
        (NConc.chanRun (SM.heuCall h) cap sched s n ac stable).sent < res.length →
        fuel < more.count Chan.DEv.prod →
        let c := NConc.chanRunD (SM.heuCall h) cap (sched.map Chan.Ev.toD ++ Chan.DEv.dropRecv :: more) s n ac stable
        c.panicked = true ∧ c.base.got = (NConc.chanRun (SM.heuCall h) cap sched s n ac stable).got := by
  obtain ⟨fuel, hd, hex⟩ := ng_search_exact h s n ac stable w hn hv hsup
  refine ⟨fuel, hd, hex, ?_⟩
  intro cap sched more hlt hmore
  rw [NConc.ngSearch_eq] at hd hlt
  exact NConc.receiver_dropped_panics (SM.heuCall h) cap s n ac stable hd sched more hlt hmore

/-- **several searches of one object on clones of one sender** (the library's own test, adf.rs "multi-threaded
usage": `stable_nogood_channel(h1, s.clone()); stable_nogood_channel(h2, s.clone()); two_val_nogood_channel(h3, s)`
in one thread, `while let Ok(v) = r.recv()` in another).  `hs` = the calls (heuristic, stable?), in order, on the
object with store `s`; every search starts on the store its predecessor left behind.  There are fuels (`calls`)
within which all searches halt; every search returns exactly the stable resp. two-valued models of the object's
conditions (`NConc.ngAllExact`); and in the explicit clone model `Chan.MCfg` (sender COUNT; a search drops only
the handle it was handed; the channel is disconnected when the count is 0), for every capacity and schedule
(for `cap = some 0` the model `Chan.MCfg` never sends, so clauses 1-4 hold there with `got = buf = []` for the wrong
reason; the rendezvous channel `bounded(0)` is only treated for ONE search without clones,
`rendezvous_channel_delivers_exactly`):
 1. received ++ queued is a prefix of the concatenation `all` of the k result lists;
 2. the count is 0 iff the last call has returned, then exactly k handles were dropped; with fewer than k drops a
    handle is alive and the consumer's loop has NOT ended (the first k-1 drops do not disconnect);
 3. when the count is 0: received ++ queued = `all`;
 4. when the consumer's loop has ended it has received exactly `all`, count 0, queue empty;
 5. (capacity ≥ 1 or unbounded) every schedule with `m` fair rounds ends the consumer's loop. -/
theorem shared_sender_clones_deliver (x : SM.Heu × Bool) (tl : List (SM.Heu × Bool)) (s : Store) (n : Nat) (ac : List Nat)
    (w : WF s) (hn : ac.length = n) (hv : ∀ t ∈ ac, t < s.nodes.size)
    (hsup : (∃ y ∈ x :: tl, y.2 = false) → ∀ t ∈ ac, ∀ σ τ : Asg, (∀ i, i < n → σ i = τ i) → eval s t σ = eval s t τ) :
    ∃ (c0 : NConc.CHeu × Bool × Nat) (cs : List (NConc.CHeu × Bool × Nat)),
      (c0 :: cs).map (fun c => (c.1, c.2.1)) = (x :: tl).map (fun y => (SM.heuCall y.1, y.2)) ∧
      NConc.ngAllDone n ac s (c0 :: cs) ∧ NConc.ngAllExact n ac (ac.map (eval s)) s (c0 :: cs) ∧
      ∀ cap : Option Nat, ∃ m, ∀ sched : List Chan.Ev,
        let c := NConc.chanRunM cap sched n ac s c0 cs
        let all := (NConc.ngResults n ac s (c0 :: cs)).flatten
        (c.got ++ c.buf <+: all) ∧
        ((c.senders = 0 ↔ c.running = false) ∧ (c.senders = 0 → c.drops = cs.length + 1) ∧
          (c.drops < cs.length + 1 → 1 ≤ c.senders ∧ c.consDone = false)) ∧
        (c.senders = 0 → c.got ++ c.buf = all) ∧
        (c.consDone = true → c.got = all ∧ c.senders = 0 ∧ c.buf = []) ∧
        ((∀ k, cap = some k → 1 ≤ k) → Chan.Fair m sched → c.consDone = true) := by
  obtain ⟨calls, h1, h2, h3⟩ := NConc.ng_fuels_exist n ac (ac.map (eval s))
    ((x :: tl).map (fun y => (SM.heuCall y.1, y.2))) s
    (by intro y hy; obtain ⟨z, _, rfl⟩ := List.mem_map.mp hy; exact NConc.heuOK_builtin z.1) w hn hv rfl
    (by
      intro ⟨y, hy, hy2⟩
      obtain ⟨z, hz, rfl⟩ := List.mem_map.mp hy
      exact hsup ⟨z, hz, hy2⟩)
  cases calls with
  | nil => simp at h1
  | cons c0 cs =>
    exact ⟨c0, cs, h1, h2, h3, fun cap => NConc.clones_deliver_ng cap n ac s c0 cs h2⟩

/-! ## heuristics that give no answer -/

/-- what the code does with a heuristic answer `None` (`adf.rs:851-853`: `backtrack = true`): the iteration
continues exactly as after a conflict; on an empty stack the search ends -/
theorem none_answer_is_a_conflict (hc : NConc.CHeu) (n : Nat) (ac : List Nat) (stable : Bool) (st : SM.NgS)
    (hch : st.choice = true) (hn : hc st.s st.cur st.time = none) :
    NConc.cIter hc n ac stable st =
      NConc.cIter hc n ac stable { st with choice := false, backtrack := true, trace := st.trace ++ [st.cur], time := st.time + 1 } ∧
    (st.stack = [] → (NConc.cIter hc n ac stable st).done = true ∧ (NConc.cIter hc n ac stable st).out = st.out) :=
  ⟨NConc.cIter_none hc n ac stable st hch hn, NConc.cIter_none_empty_stack hc n ac stable st hch hn⟩

/-- **`HeuOK.total` is necessary** (why `ng_search_exact_any_heuristic` asks a custom heuristic to answer whenever
something is undecided): for EVERY framework with two different models `v1 ≠ v2` (in the sense of the right-hand
side of `ng_search_exact`) and EVERY heuristic that answers `None` the first time it is asked, the search halts
with the EMPTY result - both models, and all others, are lost -/
theorem heuristic_totality_necessary (hc : NConc.CHeu) (hfirst : ∀ st v, hc st v 0 = none)
    (s : Store) (n : Nat) (ac : List Nat) (stable : Bool)
    (w0 : WF s) (hn : ac.length = n) (hac0 : ∀ t ∈ ac, t < s.nodes.size)
    (hsup : stable = false → ∀ t ∈ ac, ∀ σ τ : Asg, (∀ i, i < n → σ i = τ i) → eval s t σ = eval s t τ)
    (v1 v2 : I3) (hne : v1 ≠ v2)
    (m : ∀ v, v = v1 ∨ v = v2 → (v.length = n ∧ TotalI v ∧ Gam (ac.map (eval s)) v = v ∧
          (stable = true → ∀ w : I3, IsLfp (redu (ac.map (eval s)) v) w → ∀ i : Nat, v[i]? = some (some true) → w[i]? = some (some true)))) :
    ∃ fuel, (NConc.cSearch hc fuel s n ac stable).2.2.2 = true ∧ (NConc.cSearch hc fuel s n ac stable).2.1 = [] :=
  NConc.first_call_none_models hc hfirst s n ac stable w0 hn hac0 hsup _ rfl _ (fun _ => Iff.rfl) v1 v2
    (m v1 (Or.inl rfl)) (m v2 (Or.inr rfl)) hne

/-! ## non-vacuity -/

/-- the hypotheses of `ng_search_exact` are satisfiable and its right-hand side is inhabited: one
statement with condition ⊤, stable mode, any heuristic — the search halts and `[t]` is emitted -/
example (h : SM.Heu) : ∃ fuel, (SM.ngSearch h fuel Store.init 1 [1] true).2.2.2 = true ∧
    [some true] ∈ (SM.ngSearch h fuel Store.init 1 [1] true).2.1.map (fun v => v.map storeIsConst) := by
  obtain ⟨fuel, h1, _, h3⟩ := ng_search_exact h Store.init 1 [1] true WF_init' rfl (by simp [Store.init])
    (fun hc => by cases hc)
  refine ⟨fuel, h1, (h3 [some true]).mpr ?_⟩
  have hD : [1].map (eval Store.init) = [fun _ => true] := by
    simp only [List.map_cons, List.map_nil]; congr 1
  simp only [hD]
  refine ⟨rfl, ?_, ?_, ?_⟩
  · intro i hi
    have : i = 0 := by simpa using hi
    subst this; exact ⟨true, rfl⟩
  · simp only [Gam, List.map_cons, List.map_nil]
    congr 1
    exact constOf_some.mpr (fun _ => rfl)
  · intro _ w hw i hi
    have hi0 : i = 0 := by
      rcases Nat.lt_or_ge i 1 with h' | h'
      · omega
      · rw [List.getElem?_eq_none (by simpa using h')] at hi; cases hi
    subst hi0
    rw [← hw.1]
    simp only [Gam, redu, List.map_cons, List.map_nil, List.getElem?_cons_zero, Option.some.injEq]
    exact constOf_some.mpr (fun _ => rfl)

/-- two-valued mode from written formulas: `ac(a) = b`, `ac(b) = a` (mutual support); the side condition
holds of the text, the search halts for every heuristic, and the model "both false" is emitted -/
example (h : SM.Heu) : ∃ fuel,
    [some false, some false] ∈
      (SM.ngSearch h fuel (buildNative 2 [.atom 1, .atom 0]).1 2 (buildNative 2 [.atom 1, .atom 0]).2 false).2.1.map
        (fun v => v.map storeIsConst) := by
  obtain ⟨fuel, _, _, h3⟩ := ng_search_exact_from_formulas h [.atom 1, .atom 0] false (by simp [VBOT])
    (by intro f hf; simp at hf; rcases hf with rfl | rfl <;> simp [NConc.atomsLt])
  refine ⟨fuel, (h3 [some false, some false]).mpr ⟨rfl, ?_, ?_, fun hc => by cases hc⟩⟩
  · intro i hi
    have : i = 0 ∨ i = 1 := by simp at hi; omega
    rcases this with rfl | rfl <;> exact ⟨false, rfl⟩
  · simp only [Gam, List.map_cons, List.map_nil, Fm.sem]
    congr 1
    · congr 1; exact constOf_some.mpr (fun σ => by simp [over, upd])
    · congr 1; congr 1; exact constOf_some.mpr (fun σ => by simp [over, upd])


theorem mutual_support_models : ∀ v : I3, v = [some false, some false] ∨ v = [some true, some true] →
    (v.length = [Fm.atom 1, Fm.atom 0].length ∧ TotalI v ∧ Gam ([Fm.atom 1, Fm.atom 0].map Fm.sem) v = v ∧
      (false = true → ∀ w : I3, IsLfp (redu ([Fm.atom 1, Fm.atom 0].map Fm.sem) v) w →
        ∀ i : Nat, v[i]? = some (some true) → w[i]? = some (some true))) := by
  intro v hv
  rcases hv with rfl | rfl
  · refine ⟨rfl, ?_, ?_, fun hc => by cases hc⟩
    · intro i hi
      have : i = 0 ∨ i = 1 := by simp at hi; omega
      rcases this with rfl | rfl <;> exact ⟨false, rfl⟩
    · simp only [Gam, List.map_cons, List.map_nil, Fm.sem]
      congr 1
      · congr 1; exact constOf_some.mpr (fun σ => by simp [over, upd])
      · congr 1; congr 1; exact constOf_some.mpr (fun σ => by simp [over, upd])
  · refine ⟨rfl, ?_, ?_, fun hc => by cases hc⟩
    · intro i hi
      have : i = 0 ∨ i = 1 := by simp at hi; omega
      rcases this with rfl | rfl <;> exact ⟨true, rfl⟩
    · simp only [Gam, List.map_cons, List.map_nil, Fm.sem]
      congr 1
      · congr 1; exact constOf_some.mpr (fun σ => by simp [over, upd])
      · congr 1; congr 1; exact constOf_some.mpr (fun σ => by simp [over, upd])

/-- the explicit bound on a non-trivial instance (kernel-checked hypotheses): `ac(a) = b`, `ac(b) = a`,
two-valued mode, ANY heuristic: at fuel `32 = ngBound 2` the run has halted and both models are emitted -/
example (h : SM.Heu) :
    (SM.ngSearch h 32 (buildNative 2 [.atom 1, .atom 0]).1 2 (buildNative 2 [.atom 1, .atom 0]).2 false).2.2.2 = true ∧
    [some false, some false] ∈
      (SM.ngSearch h 32 (buildNative 2 [.atom 1, .atom 0]).1 2 (buildNative 2 [.atom 1, .atom 0]).2 false).2.1.map
        (fun v => v.map storeIsConst) ∧
    [some true, some true] ∈
      (SM.ngSearch h 32 (buildNative 2 [.atom 1, .atom 0]).1 2 (buildNative 2 [.atom 1, .atom 0]).2 false).2.1.map
        (fun v => v.map storeIsConst) := by
  obtain ⟨hd, _, h3⟩ := ng_search_exact_within_from_formulas h [.atom 1, .atom 0] false (by simp [VBOT])
    (by intro f hf; simp at hf; rcases hf with rfl | rfl <;> simp [NConc.atomsLt]) 32 (by decide)
  exact ⟨hd, (h3 _).mpr (mutual_support_models _ (Or.inl rfl)), (h3 _).mpr (mutual_support_models _ (Or.inr rfl))⟩

/-- the channel clause on a non-trivial instance: `ac(a) = b`, `ac(b) = a`, two-valued mode (models: both
false, both true), a `bounded(1)` channel and the alternating schedule: for every heuristic the consumer's
loop ends, it has received both models, and the last event at the sending end is the `close` -/
example (h : SM.Heu) : ∃ m,
    let c := NConc.chanRun (SM.heuCall h) (some 1) (List.flatten (List.replicate m [Chan.Ev.prod, Chan.Ev.cons]))
      (buildNative 2 [.atom 1, .atom 0]).1 2 (buildNative 2 [.atom 1, .atom 0]).2 false
    c.consDone = true ∧ [some false, some false] ∈ c.got.map (fun v => v.map storeIsConst) ∧
    [some true, some true] ∈ c.got.map (fun v => v.map storeIsConst) ∧ c.log.getLast? = some Chan.ChEv.close := by
  obtain ⟨fuel, hd, h3⟩ := ng_search_exact_from_formulas h [.atom 1, .atom 0] false (by simp [VBOT])
    (by intro f hf; simp at hf; rcases hf with rfl | rfl <;> simp [NConc.atomsLt])
  rw [NConc.ngSearch_eq] at hd h3
  let res := (NConc.cSearch (SM.heuCall h) fuel (buildNative 2 [.atom 1, .atom 0]).1 2 (buildNative 2 [.atom 1, .atom 0]).2 false).2.1
  refine ⟨fuel + res.length + 1 + res.length + 1, ?_⟩
  have ⟨_, b, _, d, e⟩ := NConc.channel_delivers (SM.heuCall h) (some 1) (buildNative 2 [.atom 1, .atom 0]).1 2
    (buildNative 2 [.atom 1, .atom 0]).2 false hd
    (List.flatten (List.replicate (fuel + res.length + 1 + res.length + 1) [Chan.Ev.prod, Chan.Ev.cons]))
  have hcd := e (by intro k hk; cases hk; exact Nat.le_refl 1) _ (Chan.fair_alternating _) (Nat.le_refl _)
  have ⟨hgot, hcl, _⟩ := d hcd
  refine ⟨hcd, ?_, ?_, ?_⟩
  · rw [hgot]; exact (h3.2 _).mpr (mutual_support_models _ (Or.inl rfl))
  · rw [hgot]; exact (h3.2 _).mpr (mutual_support_models _ (Or.inr rfl))
  · rw [(b hcl).2]; simp

/-- `heuristic_totality_necessary` on that instance: the heuristic that never answers makes the search return
nothing, although two two-valued models exist (and are emitted under every heuristic of `SM.Heu`) -/
example : ∃ fuel,
    (NConc.cSearch (fun _ _ _ => none) fuel (buildNative 2 [.atom 1, .atom 0]).1 2 (buildNative 2 [.atom 1, .atom 0]).2 false).2.2.2 = true ∧
    (NConc.cSearch (fun _ _ _ => none) fuel (buildNative 2 [.atom 1, .atom 0]).1 2 (buildNative 2 [.atom 1, .atom 0]).2 false).2.1 = [] :=
  NConc.first_call_none_compiled (fun _ _ _ => none) (fun _ _ => rfl) [.atom 1, .atom 0] false (by simp [VBOT])
    (by intro f hf; simp at hf; rcases hf with rfl | rfl <;> simp [NConc.atomsLt])
    [some false, some false] [some true, some true] (by decide) mutual_support_models

/-- the library's test pattern on `ac(a) = b`, `ac(b) = a`: two stable searches (two different heuristics) and a
two-valued one (Simple) on clones of one sender, a `bounded(1)` channel: under the alternating schedule the
consumer's loop ends, three handles were dropped, and what it has received is the concatenation of the three
result lists, which contains the stable model (both false) from the first search and the two-valued model
"both true" from the third -/
example : ∃ (c0 : NConc.CHeu × Bool × Nat) (cs : List (NConc.CHeu × Bool × Nat)) (m : Nat),
    let c := NConc.chanRunM (some 1) (List.flatten (List.replicate m [Chan.Ev.prod, Chan.Ev.cons])) 2
      (buildNative 2 [.atom 1, .atom 0]).2 (buildNative 2 [.atom 1, .atom 0]).1 c0 cs
    cs.length = 2 ∧ c.consDone = true ∧ c.drops = 3 ∧ c.senders = 0 ∧
    c.got = (NConc.ngResults 2 (buildNative 2 [.atom 1, .atom 0]).2 (buildNative 2 [.atom 1, .atom 0]).1 (c0 :: cs)).flatten ∧
    [some true, some true] ∈ c.got.map (fun v => v.map storeIsConst) := by
  have hf := NConc.compiled_facts [.atom 1, .atom 0] (by simp [VBOT])
    (by intro f hf; simp at hf; rcases hf with rfl | rfl <;> simp [NConc.atomsLt])
  obtain ⟨w, hl, hv, hD, hs⟩ := hf
  have hD : (buildNative 2 [.atom 1, .atom 0]).2.map (eval (buildNative 2 [.atom 1, .atom 0]).1) =
      [Fm.atom 1, Fm.atom 0].map Fm.sem := hD
  obtain ⟨c0, cs, h1, h2, h3, h4⟩ := shared_sender_clones_deliver (.minPathsMaxVarImp, true)
    [(.maxVarImpMinPaths, true), (.simple, false)] (buildNative 2 [.atom 1, .atom 0]).1 2 (buildNative 2 [.atom 1, .atom 0]).2
    w hl hv (fun _ => hs)
  obtain ⟨m, h5⟩ := h4 (some 1)
  have hlen : cs.length = 2 := by
    have := congrArg List.length h1
    simpa using this
  refine ⟨c0, cs, m, hlen, ?_⟩
  have ⟨_, ⟨hz, hdr, _⟩, _, hdone, hfair⟩ := h5 (List.flatten (List.replicate m [Chan.Ev.prod, Chan.Ev.cons]))
  have hcd := hfair (by intro k hk; cases hk; exact Nat.le_refl 1) (Chan.fair_alternating m)
  have ⟨hgot, hs0, _⟩ := hdone hcd
  refine ⟨hcd, by rw [hdr hs0, hlen], hs0, hgot, ?_⟩
  rw [hgot]
  -- the third call is the two-valued one: its result contains "both true"
  match cs, hlen, h1, h3 with
  | [c1, c2], _, h1, h3 =>
    obtain ⟨hc0, st0, f0⟩ := c0
    obtain ⟨hc1, st1, f1⟩ := c1
    obtain ⟨hc2, st2, f2⟩ := c2
    simp only [List.map_cons, List.map_nil, List.cons.injEq, Prod.mk.injEq, and_true] at h1
    obtain ⟨⟨_, rfl⟩, ⟨_, rfl⟩, ⟨_, rfl⟩⟩ := h1
    have hex := h3.2.2.1
    rw [hD] at hex
    have hmem := (hex.2 [some true, some true]).mpr (mutual_support_models _ (Or.inr rfl))
    simp only [NConc.ngResults, List.flatten_cons, List.flatten_nil, List.append_nil, List.map_append, List.mem_append]
    exact Or.inr (Or.inr hmem)

/-- `receiver_dropped_before_last_model_panics` on that framework (two two-valued models): the consumer drops the
receiver before anything was sent (`sched = []`); after enough producer steps the search thread has panicked
and the consumer has nothing -/
example (h : SM.Heu) : ∃ k,
    let c := NConc.chanRunD (SM.heuCall h) (some 1) (Chan.DEv.dropRecv :: List.replicate k Chan.DEv.prod)
      (buildNative 2 [.atom 1, .atom 0]).1 2 (buildNative 2 [.atom 1, .atom 0]).2 false
    c.panicked = true ∧ c.base.got = [] := by
  obtain ⟨w, hl, hv, hD, hs⟩ := NConc.compiled_facts [.atom 1, .atom 0] (by simp [VBOT])
    (by intro f hf; simp at hf; rcases hf with rfl | rfl <;> simp [NConc.atomsLt])
  have hD : (buildNative 2 [.atom 1, .atom 0]).2.map (eval (buildNative 2 [.atom 1, .atom 0]).1) =
      [Fm.atom 1, Fm.atom 0].map Fm.sem := hD
  obtain ⟨fuel, _, hex, hp⟩ := receiver_dropped_before_last_model_panics h (buildNative 2 [.atom 1, .atom 0]).1 2
    (buildNative 2 [.atom 1, .atom 0]).2 false w hl hv (fun _ => hs)
  refine ⟨fuel + 1, ?_⟩
  have hpos : 0 < (SM.ngSearch h fuel (buildNative 2 [.atom 1, .atom 0]).1 2 (buildNative 2 [.atom 1, .atom 0]).2 false).2.1.length := by
    have hex' := hex
    simp only [ExactModels, hD] at hex'
    have := (hex'.2 [some true, some true]).mpr (mutual_support_models _ (Or.inr rfl))
    rw [List.mem_map] at this
    obtain ⟨v, hv, _⟩ := this
    exact List.length_pos_of_mem hv
  exact hp (some 1) [] (List.replicate (fuel + 1) Chan.DEv.prod) hpos (by simp)

/-- the CLI's `--twoval` schedule and the rendezvous channel on `ac(a) = b`, `ac(b) = a` (two-valued models: both
false, both true): the sequential consumer ends having received both models; through `bounded(0)` under the
alternating schedule as well -/
example (h : SM.Heu) : ∃ a b m,
    let st := (buildNative 2 [.atom 1, .atom 0]).1
    let ac := (buildNative 2 [.atom 1, .atom 0]).2
    let c := NConc.chanRun (SM.heuCall h) none (List.replicate a Chan.Ev.prod ++ List.replicate b Chan.Ev.cons) st 2 ac false
    let z := NConc.chanRunZ (SM.heuCall h) (List.flatten (List.replicate m [Chan.Ev.prod, Chan.Ev.cons])) st 2 ac false
    (c.consDone = true ∧ [some true, some true] ∈ c.got.map (fun v => v.map storeIsConst) ∧
      [some false, some false] ∈ c.got.map (fun v => v.map storeIsConst)) ∧
    (z.consDone = true ∧ z.buf = [] ∧ z.got = c.got) := by
  obtain ⟨w, hl, hv, hD, hs⟩ := NConc.compiled_facts [.atom 1, .atom 0] (by simp [VBOT])
    (by intro f hf; simp at hf; rcases hf with rfl | rfl <;> simp [NConc.atomsLt])
  have hD : (buildNative 2 [.atom 1, .atom 0]).2.map (eval (buildNative 2 [.atom 1, .atom 0]).1) =
      [Fm.atom 1, Fm.atom 0].map Fm.sem := hD
  obtain ⟨fuel, hd, hex, hseq⟩ := iterator_variant_exact_two_valued h (buildNative 2 [.atom 1, .atom 0]).1 2
    (buildNative 2 [.atom 1, .atom 0]).2 w hl hv hs
  have hz := NConc.rendezvous_delivers (SM.heuCall h) (buildNative 2 [.atom 1, .atom 0]).1 2
    (buildNative 2 [.atom 1, .atom 0]).2 false (fuel := fuel) (by rw [← NConc.ngSearch_eq]; exact hd)
  rw [← NConc.ngSearch_eq] at hz
  let L := (SM.ngSearch h fuel (buildNative 2 [.atom 1, .atom 0]).1 2 (buildNative 2 [.atom 1, .atom 0]).2 false).2.1.length
  refine ⟨fuel + L + 1, L + 1, fuel + L + 1 + L + 1, ?_⟩
  have ⟨h1, h2⟩ := hseq (fuel + L + 1) (L + 1) (Nat.le_refl _) (Nat.le_refl _)
  have ⟨hz1, _, hz3, hz4⟩ := hz (List.flatten (List.replicate (fuel + L + 1 + L + 1) [Chan.Ev.prod, Chan.Ev.cons]))
  have hzd := hz4 _ (Chan.fair_alternating _) (Nat.le_refl _)
  simp only [ExactModels, hD] at hex
  refine ⟨⟨h1, ?_, ?_⟩, hzd, hz1.2, ?_⟩
  · rw [h2]; exact (hex.2 _).mpr (mutual_support_models _ (Or.inr rfl))
  · rw [h2]; exact (hex.2 _).mpr (mutual_support_models _ (Or.inl rfl))
  · rw [h2]; exact (hz3 hzd).1

/-- the laws of the semantic instance are satisfiable by a real start state (grounded interpretation
of a one-statement framework) -/
example : NSem.OkV ([1].map (eval Store.init)) 1 true
    ((NConc.initC Store.init 1 [1]).cur.map (eval (NConc.initC Store.init 1 [1]).s)) :=
  (NConc.init_facts Store.init 1 [1] true WF_init' (by simp [Store.init]) rfl).2.2.1

/-! ### third review (audit L1): the second-review theorems for ANY heuristic with `HeuOK` (the property says "any
custom heuristic"), a direct instance of `rendezvous_channel_delivers_exactly`, and the `cap = some 0` caveat -/
section ThirdReview
open Chan

/-- the three "second review" theorems for ANY heuristic function with `HeuOK` -/
theorem rendezvous_any_heuristic (hc : NConc.CHeu) (hok : NConc.HeuOK hc) (s : Store) (n : Nat) (ac : List Nat)
    (stable : Bool) (w0 : WF s) (hn : ac.length = n) (hac0 : ∀ t ∈ ac, t < s.nodes.size)
    (hsup : stable = false → ∀ t ∈ ac, ∀ σ τ : Asg, (∀ i, i < n → σ i = τ i) → eval s t σ = eval s t τ) :
    ∃ fuel, (NConc.cSearch hc fuel s n ac stable).2.2.2 = true ∧
      let res := (NConc.cSearch hc fuel s n ac stable).2.1
      ExactModels s n ac stable res ∧
      ∀ (sched : List Chan.Ev),
        let c := NConc.chanRunZ hc sched s n ac stable
        (c.got <+: res ∧ c.buf = []) ∧
        (c.closed = true → c.got = res ∧ c.log = res.map Chan.ChEv.send ++ [Chan.ChEv.close]) ∧
        (c.consDone = true → c.got = res ∧ c.closed = true) ∧
        (∀ m, Chan.Fair m sched → fuel + res.length + 1 + res.length + 1 ≤ m → c.consDone = true) := by
  obtain ⟨fuel, hd, hex⟩ := ng_search_exact_any_heuristic hc hok s n ac stable w0 hn hac0 hsup
  exact ⟨fuel, hd, hex, fun sched => NConc.rendezvous_delivers hc s n ac stable hd sched⟩

theorem receiver_dropped_any_heuristic (hc : NConc.CHeu) (hok : NConc.HeuOK hc) (s : Store) (n : Nat) (ac : List Nat)
    (stable : Bool) (w0 : WF s) (hn : ac.length = n) (hac0 : ∀ t ∈ ac, t < s.nodes.size)
    (hsup : stable = false → ∀ t ∈ ac, ∀ σ τ : Asg, (∀ i, i < n → σ i = τ i) → eval s t σ = eval s t τ) :
    ∃ fuel, (NConc.cSearch hc fuel s n ac stable).2.2.2 = true ∧
      let res := (NConc.cSearch hc fuel s n ac stable).2.1
      ExactModels s n ac stable res ∧
      ∀ (cap : Option Nat) (sched : List Chan.Ev) (more : List Chan.DEv),
        (NConc.chanRun hc cap sched s n ac stable).sent < res.length →
        fuel < more.count Chan.DEv.prod →
        let c := NConc.chanRunD hc cap (sched.map Chan.Ev.toD ++ Chan.DEv.dropRecv :: more) s n ac stable
        c.panicked = true ∧ c.base.got = (NConc.chanRun hc cap sched s n ac stable).got := by
  obtain ⟨fuel, hd, hex⟩ := ng_search_exact_any_heuristic hc hok s n ac stable w0 hn hac0 hsup
  exact ⟨fuel, hd, hex, fun cap sched more hlt hmore =>
    NConc.receiver_dropped_panics hc cap s n ac stable hd sched more hlt hmore⟩


theorem shared_sender_clones_any_heuristic (x : NConc.CHeu × Bool) (tl : List (NConc.CHeu × Bool))
    (hok : ∀ y ∈ x :: tl, NConc.HeuOK y.1) (s : Store) (n : Nat) (ac : List Nat)
    (w : WF s) (hn : ac.length = n) (hv : ∀ t ∈ ac, t < s.nodes.size)
    (hsup : (∃ y ∈ x :: tl, y.2 = false) → ∀ t ∈ ac, ∀ σ τ : Asg, (∀ i, i < n → σ i = τ i) → eval s t σ = eval s t τ) :
    ∃ (c0 : NConc.CHeu × Bool × Nat) (cs : List (NConc.CHeu × Bool × Nat)),
      (c0 :: cs).map (fun c => (c.1, c.2.1)) = (x :: tl) ∧
      NConc.ngAllDone n ac s (c0 :: cs) ∧ NConc.ngAllExact n ac (ac.map (eval s)) s (c0 :: cs) ∧
      ∀ cap : Option Nat, ∃ m, ∀ sched : List Chan.Ev,
        let c := NConc.chanRunM cap sched n ac s c0 cs
        let all := (NConc.ngResults n ac s (c0 :: cs)).flatten
        (c.got ++ c.buf <+: all) ∧
        ((c.senders = 0 ↔ c.running = false) ∧ (c.senders = 0 → c.drops = cs.length + 1) ∧
          (c.drops < cs.length + 1 → 1 ≤ c.senders ∧ c.consDone = false)) ∧
        (c.senders = 0 → c.got ++ c.buf = all) ∧
        (c.consDone = true → c.got = all ∧ c.senders = 0 ∧ c.buf = []) ∧
        ((∀ k, cap = some k → 1 ≤ k) → Chan.Fair m sched → c.consDone = true) := by
  obtain ⟨calls, h1, h2, h3⟩ := NConc.ng_fuels_exist n ac (ac.map (eval s)) (x :: tl) s hok w hn hv rfl hsup
  cases calls with
  | nil => simp at h1
  | cons c0 cs => exact ⟨c0, cs, h1, h2, h3, fun cap => NConc.clones_deliver_ng cap n ac s c0 cs h2⟩

def alt (m : Nat) : List Ev := List.flatten (List.replicate m [Ev.prod, Ev.cons])

/-- direct instance of `rendezvous_channel_delivers_exactly` -/
example (h : SM.Heu) : ∃ fuel m,
    let z := NConc.chanRunZ (SM.heuCall h) (alt m) (buildNative 2 [.atom 1, .atom 0]).1 2 (buildNative 2 [.atom 1, .atom 0]).2 false
    z.consDone = true ∧ z.got = (SM.ngSearch h fuel (buildNative 2 [.atom 1, .atom 0]).1 2 (buildNative 2 [.atom 1, .atom 0]).2 false).2.1 ∧
    [some true, some true] ∈ z.got.map (fun v => v.map storeIsConst) := by
  obtain ⟨w, hl, hv, hD, hs⟩ := NConc.compiled_facts [.atom 1, .atom 0] (by simp [VBOT])
    (by intro f hf; simp at hf; rcases hf with rfl | rfl <;> simp [NConc.atomsLt])
  have hD : (buildNative 2 [.atom 1, .atom 0]).2.map (eval (buildNative 2 [.atom 1, .atom 0]).1) =
      [Fm.atom 1, Fm.atom 0].map Fm.sem := hD
  obtain ⟨fuel, _, hex, hz⟩ := rendezvous_channel_delivers_exactly h (buildNative 2 [.atom 1, .atom 0]).1 2
    (buildNative 2 [.atom 1, .atom 0]).2 false w hl hv (fun _ => hs)
  let L := (SM.ngSearch h fuel (buildNative 2 [.atom 1, .atom 0]).1 2 (buildNative 2 [.atom 1, .atom 0]).2 false).2.1.length
  refine ⟨fuel, fuel + L + 1 + L + 1, ?_⟩
  have ⟨_, _, h3, h4⟩ := hz (alt (fuel + L + 1 + L + 1))
  have hd := h4 _ (Chan.fair_alternating _) (Nat.le_refl _)
  refine ⟨hd, (h3 hd).1, ?_⟩
  rw [(h3 hd).1]
  simp only [ExactModels, hD] at hex
  exact (hex.2 _).mpr (mutual_support_models _ (Or.inr rfl))



end ThirdReview

end C05

section ThirdReviewCap0
open Chan
/-- capacity `some 0` in `Chan.run`: nothing is ever sent, whatever the producer and the schedule -/
theorem Chan.cap0_never_sends {σ α : Type} (P : Producer σ α) (sched : List Ev) :
    ∀ c : Cfg σ α, c.sent = 0 → c.buf = [] → c.got = [] →
      (run P (some 0) sched c).sent = 0 ∧ (run P (some 0) sched c).got = [] ∧ (run P (some 0) sched c).buf = [] := by
  induction sched with
  | nil => intro c a b d; exact ⟨a, d, b⟩
  | cons e es ih =>
    intro c a b d
    apply ih
    · cases e with
      | prod =>
        simp only [step, prodStep, full]
        split
        · exact a
        · split
          · simp [a]
          · split <;> exact a
      | cons =>
        simp only [step, consStep]
        split
        · exact a
        · rw [b]; simp only; split <;> exact a
    · cases e with
      | prod =>
        simp only [step, prodStep, full]
        split
        · exact b
        · split
          · simp [b]
          · split <;> exact b
      | cons =>
        simp only [step, consStep]
        split
        · exact b
        · rw [b]; simp only; split <;> first | rfl | exact b
    · cases e with
      | prod =>
        simp only [step, prodStep, full]
        split
        · exact d
        · split
          · simp [d]
          · split <;> exact d
      | cons =>
        simp only [step, consStep]
        split
        · exact d
        · rw [b]; simp only; split <;> exact d

example (h : SM.Heu) (sched : List Ev) (s : Store) (n : Nat) (ac : List Nat) (st : Bool) :
    (NConc.chanRun (SM.heuCall h) (some 0) sched s n ac st).sent = 0 ∧
    (NConc.chanRun (SM.heuCall h) (some 0) sched s n ac st).got = [] :=
  let r := Chan.cap0_never_sends (NConc.ngProducer (SM.heuCall h) n ac st) sched (Chan.init (NConc.initC s n ac)) rfl rfl rfl
  ⟨r.1, r.2.1⟩

#print axioms C05.ng_search_exact
#print axioms C05.ng_search_halts_within_explicit_bound
#print axioms C05.ng_search_exact_within_explicit_bound
#print axioms C05.ng_search_exact_within_from_formulas
#print axioms C05.ng_search_halts_within_driver_bound
#print axioms C05.channel_variants_deliver_exactly
#print axioms C05.channel_variants_any_heuristic
#print axioms C05.iterator_variant_exact
#print axioms C05.iterator_variant_exact_two_valued
#print axioms C05.rendezvous_channel_delivers_exactly
#print axioms C05.receiver_dropped_before_last_model_panics
#print axioms C05.shared_sender_clones_deliver
#print axioms C05.heuristic_totality_necessary

/-! the side condition of the two-valued mode is necessary: statement 0 with the foreign variable 5 as
its condition — the model emits `[1]` and `[0]` in two-valued mode, though no fixpoint of `Γ` exists
(an evaluation, not a kernel-checked lemma: `Std.HashMap` does not reduce in the kernel) -/
#guard (SM.ngSearch .simple 50 (mkNode Store.init 5 0 1).1 1 [(mkNode Store.init 5 0 1).2] false).2.1 == [[1], [0]]
#guard (SM.ngSearch .simple 50 (mkNode Store.init 5 0 1).1 1 [(mkNode Store.init 5 0 1).2] true).2.1 == []

end ThirdReviewCap0

#print axioms C05.rendezvous_any_heuristic
#print axioms C05.receiver_dropped_any_heuristic
#print axioms C05.shared_sender_clones_any_heuristic
#print axioms Chan.cap0_never_sends
