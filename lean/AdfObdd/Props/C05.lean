import AdfObdd.NgHalt
import AdfObdd.ClosureSound
import AdfObdd.Stutter
import AdfObdd.SearchModel
import AdfObdd.Stable
/-! # C05 — the nogood-learning search is exact and terminates for every heuristic

Two machines with the same control flow: the abstract one (`run`, `NgSearch.lean`/`NgHalt.lean`)
keeps the decided part, a flat nogood list and a ghost-annotated stack; its propagation, closure,
leaf test and heuristic are parameters with laws. The heuristic is an ORACLE indexed by the number
of choices made so far, constrained only to propose an undecided statement — so the theorems cover
Simple, both counting heuristics, Rand under any seed and any custom closure. The concrete machine
(`SM.ngRun`, handle-exact with the code) is related to it by a stuttering simulation. -/
namespace C05

/-- safety: if the run halts, the emitted list is exactly the target models (stable models, or
two-valued models in two-valued mode), each once — for every valid heuristic -/
theorem exact_if_halts {T : Asg → Prop} {P : Params} (hP : Sound T P) (fuel : Nat) (s s' : St)
    (hinv : SInv T P s) (hr : run P fuel s = some s') :
    (∀ σ, T σ → ∃ o ∈ s'.out, Matches o σ) ∧ (∀ o ∈ s'.out, ∀ σ, Matches o σ → T σ) ∧ s'.out.Nodup :=
  run_exact hP fuel s s' hinv hr

/-- the initial state (the grounded interpretation, empty store and stack) satisfies the invariant -/
theorem init_invariant {T : Asg → Prop} {P : Params} (g : PA) (hg : ∀ σ, T σ → Matches g σ) :
    SInv T P { cur := g, store := [], stack := [], backtrack := false, choice := false, out := [] } :=
  inv_init g hg

/-- liveness: the run from the initial state halts — for every heuristic oracle satisfying the
liveness laws (it proposes an undecided statement), given the closure laws -/
theorem terminates {P : Params} {n : Nat} {mu : PA → Nat} (hL : Live P n mu)
    (cl_direct : ∀ st A, (∃ g ∈ st, PSub g A) → P.closure st A = Closure.inconsistent) (g : PA) :
    ∃ fuel s', run P fuel { cur := g, store := [], stack := [], backtrack := false, choice := false, out := [] } = some s' :=
  halts hL cl_direct g

/-- generic stuttering-simulation lemma that carries halting and the final abstract state (hence
the emitted list) from the abstract to the concrete loop -/
theorem stutter_transfer {C A : Type} {cstep : C → StutterM.SRes C} {astep : A → StutterM.SRes A} {abs : C → A}
    {settled : C → Prop} (h : StutterM.StutterSim cstep astep abs settled)
    (fuel : Nat) (c : C) (a' : A) (hr : StutterM.srun astep fuel (abs c) = some a') :
    ∃ fuel' c', fuel' ≤ 2 * fuel ∧ StutterM.srun cstep fuel' c = some c' ∧ abs c' = a' :=
  StutterM.stutter_halts h fuel c a' hr

/-- full statement for the concrete machine; PARTIAL: the instantiation of `Sound`/`Live` with the
concrete closure (all five closure laws are proved, `ClosureFacts`/`ClosureSound`) and heuristics,
and the stuttering simulation between `SM.ngIter` and the abstract `iter`, are not yet discharged;
the relation is monitored by execution on every explored run instead -/
def ng_search_statement : Prop :=
  ∀ (h : SM.Heu) (s : Store) (n : Nat) (ac : List Nat) (stable : Bool),
    WF s → ac.length = n → (∀ t ∈ ac, t < s.nodes.size) →
    ∃ fuel, (SM.ngSearch h fuel s n ac stable).2.2.2 = true ∧
      let D := ac.map (eval s)
      let out := (SM.ngSearch h fuel s n ac stable).2.1.map (fun v => v.map storeIsConst)
      out.Nodup ∧ ∀ v : I3, v ∈ out ↔
        (v.length = n ∧ TotalI v ∧ Gam D v = v ∧
          (stable = true → ∀ w : I3, IsLfp (redu D v) w → ∀ i : Nat, v[i]? = some (some true) → w[i]? = some (some true)))

/-- validity of the built-in heuristics of the concrete model: whatever they return is an undecided
statement with a truth value (for the scripted/Rand shape: for EVERY generator output) -/
theorem builtin_heuristics_valid (h : SM.Heu) (s : Store) (v : List Nat) (time i t : Nat)
    (hc : SM.heuCall h s v time = some (i, t)) : t < 2 ∧ ∃ x, (x, i) ∈ v.zipIdx ∧ isTV x = false := by
  have mem_und : ∀ p : Nat × Nat, p ∈ SM.undecided v → (p.2, p.1) ∈ v.zipIdx ∧ isTV p.2 = false := by
    intro p hp
    simp only [SM.undecided, List.mem_map, List.mem_filter] at hp
    obtain ⟨⟨x, j⟩, ⟨hm, hx⟩, rfl⟩ := hp
    exact ⟨hm, by simpa using hx⟩
  have minBy_mem : ∀ (cmp : (Nat × Nat) → (Nat × Nat) → Ordering) (l : List (Nat × Nat)) (r : Nat × Nat),
      minBy cmp l = some r → r ∈ l := by
    intro cmp l r hr
    cases l with
    | nil => simp [minBy] at hr
    | cons x xs =>
      simp only [minBy, Option.some.injEq] at hr
      subst hr
      have : ∀ (ys : List (Nat × Nat)) (m : Nat × Nat),
          ys.foldl (fun m y => if cmp m y == .gt then y else m) m = m ∨
          ys.foldl (fun m y => if cmp m y == .gt then y else m) m ∈ ys := by
        intro ys
        induction ys with
        | nil => intro m; left; rfl
        | cons y ys ih =>
          intro m
          simp only [List.foldl_cons]
          rcases ih (if cmp m y == .gt then y else m) with h | h
          · rw [h]; split
            · right; simp
            · left; rfl
          · right; exact List.mem_cons_of_mem _ h
      rcases this xs x with h | h
      · rw [h]; simp
      · exact List.mem_cons_of_mem _ h
  cases h with
  | simple =>
    simp only [SM.heuCall, Option.map_eq_some_iff] at hc
    obtain ⟨⟨j, x⟩, hh, he⟩ := hc
    cases he
    have := mem_und (j, x) (List.mem_of_mem_head? hh)
    exact ⟨by omega, x, this.1, this.2⟩
  | minPathsMaxVarImp =>
    simp only [SM.heuCall, Option.map_eq_some_iff] at hc
    obtain ⟨⟨j, x⟩, hh, he⟩ := hc
    cases he
    have := mem_und (j, x) (minBy_mem _ _ _ hh)
    exact ⟨by split <;> omega, x, this.1, this.2⟩
  | maxVarImpMinPaths =>
    simp only [SM.heuCall, Option.map_eq_some_iff] at hc
    obtain ⟨⟨j, x⟩, hh, he⟩ := hc
    cases he
    have := mem_und (j, x) (minBy_mem _ _ _ hh)
    exact ⟨by split <;> omega, x, this.1, this.2⟩
  | script seed =>
    simp only [SM.heuCall] at hc
    split at hc
    · rename_i j x hget
      simp only [Option.some.injEq, Prod.mk.injEq] at hc
      obtain ⟨hi, ht⟩ := hc
      subst hi
      have := mem_und (j, x) (List.mem_of_getElem? hget)
      exact ⟨by omega, x, this.1, this.2⟩
    · cases hc

end C05
