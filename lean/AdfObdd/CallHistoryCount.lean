import AdfObdd.CallHistoryQuery
import AdfObdd.CountOrder
/-! # order of the two counting searches across call histories

`stable_count_optimisation_heu_a/b` after ANY call history list the same decided parts in the same ORDER as before
the history (`CI.Rel.countAll_order`: the two runs of the machine `GK.search` are in lock step for "same
denotations"; the branching statement is chosen by path counts and dependency sets, the cube list of the chosen
residual diagram is canonical - `CubesCanon.cubesF_den`). -/
namespace CallH
open CI

/-- two different objects whose conditions denote the same functions -/
theorem count_order_independent (s s' : Store) (n : Nat) (ac ac' : List Nat) (useA : Bool) (w : WF s) (w' : WF s')
    (hl : ac.length = n) (hl' : ac'.length = n)
    (hv : ∀ t ∈ ac, t < s.nodes.size) (hv' : ∀ t ∈ ac', t < s'.nodes.size)
    (hsame : ac.map (eval s) = ac'.map (eval s')) :
    dec (countAll s n ac useA).2 = dec (countAll s' n ac' useA).2 :=
  CI.Rel.countAll_order s s' n ac ac' useA w w' hl hl' hv hv' hsame

/-- on one object: after ANY history both counting searches list the decided parts they list before it, in the
same order -/
theorem count_answers_order_after_history (st : AdfState) (hi : Inv st) (h : List Call) (useA : Bool) :
    ∃ vs vs', answerAfter st h (.count useA) = .vecs vs ∧ (runCall st (.count useA)).2 = .vecs vs' ∧
      dec vs = dec vs' := by
  have ⟨hi', stp⟩ := runCalls_inv h st hi
  have hd := stp.den_same hi
  refine ⟨_, _, rfl, rfl, ?_⟩
  show dec (countAll (runCalls st h).1.s (runCalls st h).1.n (runCalls st h).1.ac useA).2 = _
  rw [stp.n]
  exact count_order_independent (runCalls st h).1.s st.s st.n (runCalls st h).1.ac st.ac useA hi'.wf hi.wf
    (by rw [← stp.n]; exact hi'.len) hi.len hi'.ac hi.ac hd

end CallH
