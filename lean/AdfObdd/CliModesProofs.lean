import AdfObdd.CliModes
import AdfObdd.CliFaithful
import AdfObdd.BioProofs
import AdfObdd.SortProofs
/-! # The text-level, mode-aware CLI model (`CliModes.lean`): theorems

* `parsed_pres`: the parser object every arm builds from (after the sorting flag) presents a
  permutation of the declared names (also as `namelist`, which `render` and the library's own name
  map read) and the written conditions;
* rejection: `runText_rejects`, `runText_rejects_ill_formed`;
* the naive arm IS `Cli.run .naive` (`runNaive_eq`), so the correspondence run of the driver keeps
  tying it to the binary;
* `naive_faithful`, `bio_faithful`, `hybrid_faithful`: per arm, every block is, as a multiset of
  three-valued interpretations, the specification's answer for its section;
* `runText_faithful`: the whole run from the text; `modes_same_sets`;
* `render_spec`: the line format. -/
namespace CliMP
open CliM ParserM FromParser Cli SortModel

/-! ## the parser object after parsing and sorting -/

/-- the name list after the sorting flag -/
def sortedNames (an : List Label → List Label) : Sorting → List Label → List Label
  | .none, ns => ns
  | .lx, ns => isort byteLe ns
  | .an, ns => an ns

/-- `Presents` plus: `namelist` is the presented name list -/
structure Pres (st : PState) (names : List Label) (acs : List (Label × Fml)) : Prop where
  p : Presents st names acs
  nl : st.namelist = names

theorem pres_ofFacts (fs : List Fact) : Pres (PState.ofFacts fs) (namesOf fs) (acsOf fs) :=
  ⟨presents_ofFacts fs, (ofFacts_spec fs).1⟩

theorem pres_resort {st : PState} {names : List Label} {acs : List (Label × Fml)}
    (h : Pres st names acs) (ns' : List Label) (hp : ns'.Perm names) : Pres (st.resort ns') ns' acs :=
  ⟨presents_resort h.p ns' hp, rfl⟩

theorem sortedNames_perm (an : List Label → List Label) (han : ∀ ns, (an ns).Perm ns) (so : Sorting)
    (ns : List Label) : (sortedNames an so ns).Perm ns := by
  cases so with
  | none => exact List.Perm.refl _
  | lx => exact isort_perm _ _
  | an => exact han ns

theorem pres_sortState (an : List Label → List Label) (han : ∀ ns, (an ns).Perm ns) (so : Sorting)
    {st : PState} {names : List Label} {acs : List (Label × Fml)} (h : Pres st names acs) :
    Pres (sortState an so st) (sortedNames an so names) acs := by
  cases so with
  | none => exact h
  | lx =>
    have : sortState an .lx st = st.resort (isort byteLe names) := by
      show st.resort (isort byteLe st.namelist) = _
      rw [h.nl]
    rw [this]
    exact pres_resort h _ (isort_perm _ _)
  | an =>
    have : sortState an .an st = st.resort (an names) := by
      show st.resort (an st.namelist) = _
      rw [h.nl]
    rw [this]
    exact pres_resort h _ (han names)

/-- **the parser object an arm builds from**: the text is the spelling of a unique non-empty list
of facts `fs`; the object presents the declared names in the order the sorting flag asks for — as
dictionary, as `namelist` — and the conditions of the file in file order -/
theorem parsed_pres {T : Type} (W : World T) (han : ∀ ns, (W.anSort ns).Perm ns) (i : Inv) (t : List Char)
    (st : PState) (h : parsed W i t = some st) :
    ∃ fs, fs ≠ [] ∧ DerFile fs t ∧ Pres st (sortedNames W.anSort i.sort (namesOf fs)) (acsOf fs) := by
  unfold parsed at h
  cases hp : parse t with
  | none => rw [hp] at h; cases h
  | some st0 =>
    rw [hp] at h
    simp only [Option.map_some, Option.some.injEq] at h
    obtain ⟨fs, hne, hder, rfl⟩ := parse_some_der t st0 hp
    subst h
    exact ⟨fs, hne, hder, pres_sortState W.anSort han i.sort (pres_ofFacts fs)⟩

/-- a text of the documented format is parsed (converse of `parsed_pres`) -/
theorem parsed_of_der {T : Type} (W : World T) (i : Inv) (t : List Char) (fs : List Fact) (hd : DerFile fs t)
    (hne : fs ≠ []) : parsed W i t = some (sortState W.anSort i.sort (PState.ofFacts fs)) := by
  unfold parsed
  rw [parse_eq, parseFacts_complete fs t hd hne]; rfl

/-! ## the work lists -/

theorem workListBio_eq {st : PState} {names : List Label} {acs : List (Label × Fml)}
    (h : Pres st names acs) : workListBio st = workList st := by
  have hd : dictGet st.dict = indexOf st.namelist := by
    funext l; rw [h.nl]; exact h.p.dict l
  unfold workListBio workList
  rw [← hd]
  rfl

/-- the conditions are given for declared labels and mention declared labels only -/
def WfOn (names : List Label) (acs : List (Label × Fml)) : Prop :=
  ∀ lf ∈ acs, lf.1 ∈ names ∧ ∀ a ∈ atomsOf lf.2, a ∈ names

theorem wfOn_perm {names names' : List Label} {acs : List (Label × Fml)} (hp : names'.Perm names)
    (h : WfOn names acs) : WfOn names' acs :=
  fun lf hlf => ⟨hp.mem_iff.mpr (h lf hlf).1, fun a ha => hp.mem_iff.mpr ((h lf hlf).2 a ha)⟩

theorem workList_isSome_iff {st : PState} {names : List Label} {acs : List (Label × Fml)}
    (h : Presents st names acs) : (workList st).isSome = true ↔ WfOn names acs := by
  rw [workList_presents h, omap_isSome]
  unfold WfOn
  constructor
  · intro hh lf hlf
    have ⟨h1, h2⟩ := (itemOf_isSome _ lf).mp (hh lf hlf)
    rw [indexOf_isSome] at h1
    refine ⟨by simpa using h1, ?_⟩
    intro a ha
    have := (resolve_isSome _ lf.2).mp h2 a ha
    rw [indexOf_isSome] at this
    simpa using this
  · intro hh lf hlf
    have ⟨h1, h2⟩ := hh lf hlf
    rw [itemOf_isSome, indexOf_isSome, resolve_isSome]
    refine ⟨by simpa using h1, ?_⟩
    intro a ha
    rw [indexOf_isSome]
    simpa using h2 a ha

theorem fromParser_none_iff (st : PState) : fromParser st = none ↔ workList st = none := by
  unfold fromParser
  cases workList st <;> simp

/-! ## rejection -/

/-- **a text the parser refuses**: every arm panics before anything is printed -/
theorem runText_rejects_unparsed {T : Type} (W : World T) (fuel : Nat) (i : Inv) (t : List Char)
    (h : parse t = none) : runText W fuel i t = CliM.rejected := by
  unfold runText parsed
  rw [h]; rfl

/-- **a parsed text on which `from_parser` panics** (a condition for an undeclared label, an
undeclared atom): every arm — the library-side `from_parser` of the other two arms panics on the same
objects — exits with status 101 and prints nothing -/
theorem runText_rejects_panic {T : Type} (W : World T) (han : ∀ ns, (W.anSort ns).Perm ns) (fuel : Nat)
    (i : Inv) (t : List Char) (st : PState) (hp : parsed W i t = some st) (hb : fromParser st = none) :
    runText W fuel i t = CliM.rejected := by
  obtain ⟨fs, _, _, pres⟩ := parsed_pres W han i t st hp
  have hw : workList st = none := (fromParser_none_iff st).mp hb
  have hwb : workListBio st = none := by rw [workListBio_eq pres]; exact hw
  unfold runText
  rw [hp]
  simp only
  have : runParsed W fuel i st = none := by
    unfold runParsed
    cases i.mode with
    | naive => simp only [runNaive, hb, Option.map_none]
    | biodivine => simp only [runBio, bioBuild, hwb, Option.map_none]; split <;> rfl
    | hybrid => simp only [runHybrid, bioBuild, hwb, Option.map_none]; split <;> rfl
  rw [this]

/-- **rejection, both cases in one statement**: exit status 101 (non-zero), empty stdout -/
theorem runText_rejects {T : Type} (W : World T) (han : ∀ ns, (W.anSort ns).Perm ns) (fuel : Nat)
    (i : Inv) (t : List Char)
    (h : parse t = none ∨ ∃ st, parsed W i t = some st ∧ fromParser st = none) :
    runText W fuel i t = CliM.rejected := by
  rcases h with h | ⟨st, h1, h2⟩
  · exact runText_rejects_unparsed W fuel i t h
  · exact runText_rejects_panic W han fuel i t st h1 h2

/-- in terms of the written facts: a text of the documented format that does not describe a
well-formed ADF is rejected in every mode, with every sorting flag -/
theorem runText_rejects_ill_formed {T : Type} (W : World T) (han : ∀ ns, (W.anSort ns).Perm ns) (fuel : Nat)
    (i : Inv) (t : List Char) (fs : List Fact) (hd : DerFile fs t) (hne : fs ≠ [])
    (hbad : ¬ WellFormedAdf fs) : runText W fuel i t = CliM.rejected := by
  have hp := parsed_of_der W i t fs hd hne
  apply runText_rejects_panic W han fuel i t _ hp
  have pres := pres_sortState W.anSort han i.sort (pres_ofFacts fs)
  rw [fromParser_none_iff]
  cases hw : workList (sortState W.anSort i.sort (PState.ofFacts fs)) with
  | none => rfl
  | some items =>
    exfalso
    apply hbad
    have := (workList_isSome_iff pres.p).mp (by rw [hw]; rfl)
    exact wfOn_perm (sortedNames_perm W.anSort han i.sort (namesOf fs)).symm this

/-! ## the naive arm is `Cli.run .naive` -/

theorem secNaive_eq_F (fuel : Nat) (heu : SM.Heu) (n : Nat) (ac : List Nat) (sec : Section) (s : Store) :
    secNaive fuel heu n ac sec s = CliF.runSectionF fuel heu sec s n ac := by
  cases sec <;> rfl

theorem secHalts_eq_F (fuel : Nat) (heu : SM.Heu) (n : Nat) (ac : List Nat) (sec : Section) (s : Store) :
    secHalts fuel heu n ac sec s = CliF.sectionHaltsF fuel heu sec s n ac := by
  cases sec <;> rfl

theorem runWith_naive_eq_F (fuel : Nat) (heu : SM.Heu) (n : Nat) (ac : List Nat) :
    ∀ (l : List Section) (acc : Store × List Block),
      runWith (secNaive fuel heu n ac) l acc = CliF.runFromF fuel heu n ac l acc := by
  intro l
  induction l with
  | nil => intro acc; rfl
  | cons x xs ih => intro acc; simp only [runWith, CliF.runFromF, secNaive_eq_F]; exact ih _

theorem haltsWith_naive_eq_F (fuel : Nat) (heu : SM.Heu) (n : Nat) (ac : List Nat) :
    ∀ (l : List Section) (s : Store),
      haltsWith (secHalts fuel heu n ac) (secNaive fuel heu n ac) l s = CliF.haltsFromF fuel heu n ac l s := by
  intro l
  induction l with
  | nil => intro s; rfl
  | cons x xs ih => intro s; simp only [haltsWith, CliF.haltsFromF, secNaive_eq_F, secHalts_eq_F, ih]

/-- **the naive arm of the text-level model is the function the driver executes** (`Cli.run .naive`
on the object `from_parser` builds, at the driver's bound) -/
theorem runNaive_eq (f : Flags) (heu : SM.Heu) (st : PState) :
    runNaive 1000000 f heu st = (fromParser st).map fun b => Cli.run .naive f heu b.1 (dictSizeOf st) b.2 := by
  unfold runNaive
  congr 1
  funext b
  rw [runWith_naive_eq_F, CliF.runFromF_eq]
  rfl

/-! ## the line format -/

theorem mark_spec (t : Nat) :
    (mark t = 'T' ↔ storeIsConst t = some true) ∧ (mark t = 'F' ↔ storeIsConst t = some false) ∧
    (mark t = 'u' ↔ storeIsConst t = none) := by
  unfold mark storeIsConst
  by_cases h1 : t = 1
  · subst h1; decide
  · by_cases h0 : t = 0
    · subst h0; decide
    · simp [h1, h0]

theorem render_go (names : List Label) : ∀ (v : List Nat) (k : Nat), k + v.length = names.length →
    (v.zipIdx k).flatMap (fun p => entry (names.getD p.2 []) p.1) =
      (List.zipWith entry (names.drop k) v).flatten := by
  intro v
  induction v with
  | nil => intro k _; simp
  | cons x v ih =>
    intro k hk
    have hlt : k < names.length := by simp at hk; omega
    rw [List.drop_eq_getElem_cons hlt]
    simp only [List.zipIdx_cons, List.flatMap_cons, List.zipWith_cons_cons, List.flatten_cons]
    rw [ih (k + 1) (by simp at hk; omega)]
    congr 1
    simp [List.getD, List.getElem?_eq_getElem hlt]

/-- **the line of an interpretation**: the concatenation, in statement order, of one entry per
statement — the mark of ITS value, then ITS name in brackets, then a blank -/
theorem render_spec (names : List Label) (v : List Nat) (hl : v.length = names.length) :
    render names v = (List.zipWith entry names v).flatten := by
  have := render_go names v 0 (by omega)
  simpa [render] using this


/-! ## the framework a parser object presents -/

/-- the index-level Boolean functions of the presented framework: position `p` carries the function
of the last condition written for `names[p]` (⊥ if there is none), atoms read at their positions -/
def condsOn (names : List Label) (acs : List (Label × Fml)) : List BoolFn :=
  condFnsOn names (fun l => (lastCond acs l).getD .bot)

/-- their truth tables over `n` variables (input of the executable specification) -/
def tablesD (n : Nat) (D : List BoolFn) : List Nat := D.map (fun f => TT.ofFn n (fun a => f (TT.bitsAsg a)))

theorem condsOn_length (names : List Label) (acs : List (Label × Fml)) : (condsOn names acs).length = names.length := by
  simp [condsOn, condFnsOn]

theorem condsOn_det (names : List Label) (acs : List (Label × Fml)) :
    ∀ f ∈ condsOn names acs, TT.DetBy names.length f := by
  intro f hf
  obtain ⟨l, _, rfl⟩ := List.mem_map.mp hf
  intro σ σ' hag
  have : labelAsg (indexOf names) σ = labelAsg (indexOf names) σ' := by
    funext a
    unfold labelAsg
    cases hi : indexOf names a with
    | none => rfl
    | some k => exact hag k (indexOf_lt _ _ _ hi)
  simp only [this]

theorem reps_condsOn (names : List Label) (acs : List (Label × Fml)) :
    SpecSound.Reps names.length (tablesD names.length (condsOn names acs)) (condsOn names acs) :=
  SpecSound.reps_ofFn _ _ (condsOn_det names acs)

theorem resolve_atomsLt (d : Label → Option Nat) (n : Nat) (hd : ∀ l p, d l = some p → p < n) (f : Fml) :
    ∀ (φ : Fm), resolveFml d f = some φ → NConc.atomsLt n φ := by
  induction f with
  | top => intro φ h; simp [resolveFml] at h; subst h; trivial
  | bot => intro φ h; simp [resolveFml] at h; subst h; trivial
  | atom l =>
    intro φ h
    simp only [resolveFml] at h
    cases hl : d l with
    | none => rw [hl] at h; simp at h
    | some i => rw [hl] at h; simp at h; subst h; exact hd l i hl
  | not f ih =>
    intro φ h
    simp only [resolveFml] at h
    cases hf : resolveFml d f with
    | none => rw [hf] at h; simp at h
    | some x => rw [hf] at h; simp at h; subst h; exact ih x hf
  | and a b iha ihb | or a b iha ihb | imp a b iha ihb | xor a b iha ihb | iff a b iha ihb =>
    intro φ h
    simp only [resolveFml] at h
    cases ha : resolveFml d a with
    | none => rw [ha] at h; simp at h
    | some x =>
      cases hb : resolveFml d b with
      | none => rw [ha, hb] at h; simp at h
      | some y => rw [ha, hb] at h; simp at h; subst h; exact ⟨iha x ha, ihb y hb⟩

/-- what the native `from_parser` builds from a parser object that presents a well-formed framework,
and the formula-level content of its work list -/
theorem items_facts {st : PState} {names : List Label} {acs : List (Label × Fml)}
    (h : Pres st names acs) (hwf : WfOn names acs) (hn : names.length ≤ VBOT) :
    ∃ items s ac, workList st = some items ∧ fromParser st = some (s, ac) ∧ dictSizeOf st = names.length ∧
      WF s ∧ ac.length = names.length ∧ (∀ t ∈ ac, t < s.nodes.size) ∧
      ac.map (eval s) = condsOn names acs ∧
      (placeFm (List.replicate names.length Fm.bot) items).map Fm.sem = condsOn names acs ∧
      (∀ pf ∈ items, NConc.atomsLt names.length pf.2) := by
  have hs := (workList_isSome_iff h.p).mpr hwf
  cases hw : workList st with
  | none => rw [hw] at hs; cases hs
  | some items =>
    have hi : omap (itemOf names) acs = some items := by rw [← workList_presents h.p]; exact hw
    have hlt : ∀ pf ∈ items, NConc.atomsLt names.length pf.2 := by
      intro pf hpf
      obtain ⟨lf, _, hlf⟩ := omap_mem _ _ _ hi pf hpf
      unfold itemOf at hlf
      cases h1 : indexOf names lf.1 with
      | none => simp [h1] at hlf
      | some q =>
        cases h2 : resolveFml (indexOf names) lf.2 with
        | none => simp [h1, h2] at hlf
        | some φ =>
          simp [h1, h2] at hlf
          rw [← hlf]
          exact resolve_atomsLt _ _ (fun l p hl => indexOf_lt _ _ _ hl) _ _ h2
    have hfp : fromParser st = some (placeCompile (buildVars names.length Store.init)
        (List.replicate names.length 0) items) := by
      unfold fromParser; rw [hw, h.p.size]; rfl
    have ⟨a, b, c, d⟩ := fromParser_presents_correct h.p _ _ hfp hn
    have w0 := buildVars_WF _ hn
    have spec := placeCompile_spec items (buildVars names.length Store.init)
      (List.replicate names.length 0) (List.replicate names.length Fm.bot) w0
      (by intro t ht; rw [List.mem_replicate] at ht; rw [ht.2]; exact zero_lt _ w0)
      (by rw [List.map_replicate, List.map_replicate]; congr 1 <;> (funext σ; exact eval_zero _ σ))
      (fun pf hpf => NConc.atomsOK_of_lt hn _ (hlt pf hpf))
    refine ⟨items, _, _, rfl, hfp, h.p.size, a, b, c, d, ?_, hlt⟩
    rw [← spec.2.2.2.2]; exact d

/-! ## the construction on the library -/

theorem fmToBExpr_sem : ∀ φ : Fm, (fmToBExpr φ).sem = φ.sem := by
  intro φ
  induction φ with
  | top => rfl
  | bot => rfl
  | atom v => rfl
  | not f ih => funext σ; simp [fmToBExpr, Bio.BExpr.sem, Fm.sem, ih]
  | and a b iha ihb | or a b iha ihb | imp a b iha ihb | xor a b iha ihb | iff a b iha ihb =>
    funext σ; simp [fmToBExpr, Bio.BExpr.sem, Fm.sem, iha, ihb]

theorem fmToBExpr_closed (n : Nat) : ∀ φ : Fm, NConc.atomsLt n φ → (fmToBExpr φ).closed n = true := by
  intro φ
  induction φ with
  | top => intro _; rfl
  | bot => intro _; rfl
  | atom v => intro h; simpa [fmToBExpr, Bio.BExpr.closed, NConc.atomsLt] using h
  | not f ih => intro h; exact ih h
  | and a b iha ihb | or a b iha ihb | imp a b iha ihb | xor a b iha ihb | iff a b iha ihb =>
    intro h
    simp only [fmToBExpr, Bio.BExpr.closed, Bool.and_eq_true]
    exact ⟨iha h.1, ihb h.2⟩

section lib
variable {T : Type} {L : Bio.Lib T} {n : Nat} (W : Bio.Lawful L n)

/-- the placement loop of the library-side `from_parser`, in lock-step with the formula-level loop -/
theorem fold_place : ∀ (items : List (Nat × Fm)) (acc : List T) (D : List Fm),
    (∀ x ∈ acc, W.Valid x) → acc.map W.den = D.map Fm.sem → (∀ pf ∈ items, NConc.atomsLt n pf.2) →
    ((items.map fun pf => (pf.1, fmToBExpr pf.2)).foldl (fun ac p => ac.set p.1 (L.evalExpr p.2)) acc).length
        = acc.length ∧
    (∀ x ∈ (items.map fun pf => (pf.1, fmToBExpr pf.2)).foldl (fun ac p => ac.set p.1 (L.evalExpr p.2)) acc,
        W.Valid x) ∧
    ((items.map fun pf => (pf.1, fmToBExpr pf.2)).foldl (fun ac p => ac.set p.1 (L.evalExpr p.2)) acc).map W.den
        = (placeFm D items).map Fm.sem := by
  intro items
  induction items with
  | nil => intro acc D hv hD _; exact ⟨rfl, hv, hD⟩
  | cons pf r ih =>
    intro acc D hv hD hcl
    have hc := fmToBExpr_closed n pf.2 (hcl pf (List.mem_cons_self ..))
    have ⟨ev, ed⟩ := W.evalExpr_spec _ hc
    simp only [List.map_cons, List.foldl_cons, placeFm]
    have := ih (acc.set pf.1 (L.evalExpr (fmToBExpr pf.2))) (D.set pf.1 pf.2)
      (by
        intro x hx
        rcases List.mem_or_eq_of_mem_set hx with h | h
        · exact hv x h
        · rw [h]; exact ev)
      (by rw [List.map_set, List.map_set, hD, ed, fmToBExpr_sem])
      (fun q hq => hcl q (List.mem_cons_of_mem _ hq))
    refine ⟨by rw [this.1]; simp, this.2.1, this.2.2⟩

theorem acOf_items (items : List (Nat × Fm)) (hcl : ∀ pf ∈ items, NConc.atomsLt n pf.2) :
    (Bio.acOf L n (items.map (·.1)) (items.map fun pf => fmToBExpr pf.2)).length = n ∧
    (∀ x ∈ Bio.acOf L n (items.map (·.1)) (items.map fun pf => fmToBExpr pf.2), W.Valid x) ∧
    (Bio.acOf L n (items.map (·.1)) (items.map fun pf => fmToBExpr pf.2)).map W.den =
      (placeFm (List.replicate n Fm.bot) items).map Fm.sem := by
  unfold Bio.acOf
  rw [List.zip_map']
  have := fold_place W items (List.replicate n L.mkFalse) (List.replicate n Fm.bot)
    (by intro x hx; rw [(List.mem_replicate.mp hx).2]; exact W.mkFalse_spec.1)
    (by rw [List.map_replicate, List.map_replicate, W.mkFalse_spec.2]; rfl) hcl
  exact ⟨by rw [this.1]; simp, this.2.1, this.2.2⟩

end lib

/-- **the library-side object**: for a parser object that presents a well-formed framework whose
labels the library accepts, `from_parser` does not panic, `ac` has one valid diagram per statement,
and they denote the SAME functions as the handles of the native `from_parser` -/
theorem bioBuild_facts {T : Type} {L : Bio.Lib T} {st : PState} {names : List Label} {acs : List (Label × Fml)}
    (W : Bio.Lawful L names.length) (h : Pres st names acs) (hwf : WfOn names acs) (hn : names.length ≤ VBOT)
    (hnames : names.all bioNameOK = true) (rew : Bool) :
    ∃ items, workList st = some items ∧ (∀ pf ∈ items, NConc.atomsLt names.length pf.2) ∧
      bioBuild L st rew = some (Bio.acOf L names.length (items.map (·.1)) (items.map fun pf => fmToBExpr pf.2),
        if rew then some (Bio.stmRewriting L (items.map (·.1)) (items.map fun pf => fmToBExpr pf.2)) else none) ∧
      (Bio.acOf L names.length (items.map (·.1)) (items.map fun pf => fmToBExpr pf.2)).length = names.length ∧
      (∀ x ∈ Bio.acOf L names.length (items.map (·.1)) (items.map fun pf => fmToBExpr pf.2), W.Valid x) ∧
      (Bio.acOf L names.length (items.map (·.1)) (items.map fun pf => fmToBExpr pf.2)).map W.den = condsOn names acs := by
  obtain ⟨items, s, ac, hw, _, hsz, _, _, _, _, hpl, hlt⟩ := items_facts h hwf hn
  have ⟨a, b, c⟩ := acOf_items W items hlt
  refine ⟨items, hw, hlt, ?_, a, b, by rw [c]; exact hpl⟩
  unfold bioBuild
  rw [h.nl, if_pos hnames, workListBio_eq h, hw, hsz]
  rfl


/-! ## the biodivine arm -/

section bioarm
variable {T : Type} {L : Bio.Lib T} {n : Nat} (W : Bio.Lawful L n) {tts : List Nat} {D : List BoolFn}

theorem implemented_bio (sec : Section) (h : implemented .biodivine sec = true) :
    sec = .grd ∨ sec = .com ∨ sec = .stm ∨ sec = .stmrew := by
  cases sec <;> simp [implemented] at h ⊢

/-- one block of the biodivine arm: the back-end's own algorithm on the library, read as
three-valued interpretations, is a permutation of the specification's answer -/
theorem secBio_exact (R : SpecSound.Reps n tts D) (hD : D.length = n) (hdet : ∀ f ∈ D, TT.DetBy n f)
    (acB : List T) (hv : ∀ x ∈ acB, W.Valid x) (hlen : acB.length = n) (hden : acB.map W.den = D)
    (rw : Option T) (hg : Bio.GoodRewrite W acB rw) (sec : Section) (hi : implemented .biodivine sec = true) :
    ((secBio L rw acB sec).map (fun v => v.map storeIsConst)).Perm (specSection n tts sec) := by
  have hs : CliF.Same n D D := CliF.Same.refl hD hdet
  rcases implemented_bio sec hi with h | h | h | h <;> subst h
  · have ⟨_, hl⟩ := Bio.bioGrounded_lfp W acB hv hlen
    rw [hden] at hl
    have := StableExact.lfp_unique _ _ _ hl (SpecSound.grounded_spec R hD)
    show ([Bio.bioGrounded L acB].map _).Perm [Spec.grounded n tts]
    simp only [List.map_cons, List.map_nil, this]
    exact List.Perm.refl _
  · have ⟨nd, hm, _⟩ := Bio.bioComplete_exact W acB hv hlen
    rw [hden] at hm
    show ((Bio.bioComplete L acB).map _).Perm (Spec.completeAll n tts)
    apply CliF.perm_of_nodup nd (SpecSound.completeAll_nodup n tts)
    intro v
    rw [hm v, SpecSound.completeAll_spec R v]
  · have ⟨nd, hm⟩ := Bio.bioStable_exact W acB hv hlen
    rw [hden] at hm
    show ((Bio.bioStable L acB).map _).Perm (Spec.stableAll n tts)
    exact CliF.stable_perm R hs nd hm
  · have ⟨nd, hm⟩ := Bio.bioStableRep_exact W rw acB hv hlen hg
    rw [hden] at hm
    show ((Bio.bioStableRep L rw acB).map _).Perm (Spec.stableAll n tts)
    exact CliF.stable_perm R hs nd hm

end bioarm

/-! ## the hybrid arm -/

/-- THE ASSUMPTION about `Bdd::to_string()` (in addition to `Bio.Lawful`): the dump of a diagram
lists the two terminals first, children before parents with larger variables (`DumpOK`, the
hypothesis of the bridge theorem C09), and its last entry denotes the diagram's function. Only the
dumps the bridge READS are constrained: diagrams that are neither `is_true` nor `is_false` (this is
`Bio.DumpSpec.ok`, `dumpLaw_of_spec`). -/
def DumpLaw {T : Type} {L : Bio.Lib T} {n : Nat} (W : Bio.Lawful L n) (dump : T → List Node) : Prop :=
  ∀ t, W.Valid t → L.isTrue t = false → L.isFalse t = false →
    DumpOK (dump t) ∧ 2 ≤ (dump t).length ∧ Den (dump t) ((dump t).length - 1) (W.den t)

section hybridarm
variable {T : Type} {L : Bio.Lib T} {n : Nat} (W : Bio.Lawful L n) {dump : T → List Node}

theorem bridgeOne_spec (hd : DumpLaw W dump) (s : Store) (w : WF s) (t : T) (ht : W.Valid t) :
    WF (bridgeOne L dump s t).1 ∧ Ext s (bridgeOne L dump s t).1 ∧
    (bridgeOne L dump s t).2 < (bridgeOne L dump s t).1.nodes.size ∧
    eval (bridgeOne L dump s t).1 (bridgeOne L dump s t).2 = W.den t := by
  unfold bridgeOne
  by_cases h1 : L.isTrue t = true
  · rw [if_pos h1]
    have := (W.isTrue_spec t ht).mp h1
    refine ⟨w, Ext.refl _, by have := w.len; show 1 < s.nodes.size; omega, ?_⟩
    funext σ; show eval s 1 σ = _; rw [eval_one, this σ]
  · rw [if_neg h1]
    by_cases h0 : L.isFalse t = true
    · rw [if_pos h0]
      have := (W.isFalse_spec t ht).mp h0
      refine ⟨w, Ext.refl _, by have := w.len; show 0 < s.nodes.size; omega, ?_⟩
      funext σ; show eval s 0 σ = _; rw [eval_zero, this σ]
    · rw [if_neg h0]
      have ⟨dok, dlen, dden⟩ := hd t ht (by simpa using h1) (by simpa using h0)
      have ⟨a, b, c, d⟩ := bridge_correct (dump t) dok dlen s w
      simp only
      have hj : (replayL ((dump t).drop 2) s [0, 1]).2[(replayL ((dump t).drop 2) s [0, 1]).2.length - 1]? =
          some ((replayL ((dump t).drop 2) s [0, 1]).2.getD ((replayL ((dump t).drop 2) s [0, 1]).2.length - 1) 0) := by
        have : (replayL ((dump t).drop 2) s [0, 1]).2.length - 1 < (replayL ((dump t).drop 2) s [0, 1]).2.length := by
          rw [c]; omega
        simp [List.getD, List.getElem?_eq_getElem this]
      rw [c] at hj
      have := d _ _ _ hj dden
      rw [c]
      exact ⟨a, b, this.1, funext this.2⟩

theorem bridgeAll_spec (hd : DumpLaw W dump) : ∀ (ts : List T) (s : Store) (acc : List Nat),
    WF s → (∀ t ∈ ts, W.Valid t) → (∀ h ∈ acc, h < s.nodes.size) →
    WF (bridgeAll L dump ts s acc).1 ∧ Ext s (bridgeAll L dump ts s acc).1 ∧
    (∀ h ∈ (bridgeAll L dump ts s acc).2, h < (bridgeAll L dump ts s acc).1.nodes.size) ∧
    (bridgeAll L dump ts s acc).2.map (eval (bridgeAll L dump ts s acc).1) = acc.map (eval s) ++ ts.map W.den := by
  intro ts
  induction ts with
  | nil => intro s acc w _ hv; exact ⟨w, Ext.refl _, hv, by simp [bridgeAll]⟩
  | cons t ts ih =>
    intro s acc w hts hv
    have ⟨w1, e1, v1, d1⟩ := bridgeOne_spec W hd s w t (hts t (List.mem_cons_self ..))
    simp only [bridgeAll]
    have hv' : ∀ h ∈ acc ++ [(bridgeOne L dump s t).2], h < (bridgeOne L dump s t).1.nodes.size := by
      intro h hh
      rcases List.mem_append.mp hh with h' | h'
      · exact Nat.lt_of_lt_of_le (hv h h') e1.1
      · rw [List.mem_singleton] at h'; rw [h']; exact v1
    have ⟨a, b, c, d⟩ := ih _ (acc ++ [(bridgeOne L dump s t).2]) w1 (fun x hx => hts x (List.mem_cons_of_mem _ hx)) hv'
    refine ⟨a, Ext.trans e1 b, c, ?_⟩
    rw [d, List.map_append, CI.map_eval_ext w e1 hv]
    simp [d1]

/-- least fixpoint and pre-grounded conditions of the Kleene loop on functions -/
theorem semLoop_is_pre (D : List BoolFn) (hn : D.length = n) :
    ∃ g : I3, IsLfp D g ∧ semLoop (n + 1) D = pre D g := by
  have r0 : Reach D D := by
    apply reach_init
    intro w' hw' i b h
    simp only [cv, List.getElem?_map] at h
    cases hd : D[i]? with
    | none => simp [hd] at h
    | some f =>
      simp only [hd, Option.map_some, Option.some.injEq] at h
      rw [constOf_some] at h
      rw [← hw']
      simp only [Gam, List.getElem?_map, hd, Option.map_some, Option.some.injEq]
      rw [constOf_some]
      intro σ; exact h _
  have hpre := CliF.semLoop_pre D (n + 1) _ r0 (by omega)
  exact ⟨cv (semLoop (n + 1) D), grounded_sem _ (n + 1) (by omega), hpre⟩

/-- **`hybrid_step`**: `grounded_internal` on the library, then the bridge: a well-formed own store
whose handles denote the PRE-GROUNDED conditions (the conditions with the decided statements of the
grounded interpretation substituted) -/
theorem hybridStep_spec (hd : DumpLaw W dump) (acB : List T) (hv : ∀ x ∈ acB, W.Valid x) (hlen : acB.length = n) :
    WF (hybridStep L dump acB).1 ∧ (∀ h ∈ (hybridStep L dump acB).2, h < (hybridStep L dump acB).1.nodes.size) ∧
    (hybridStep L dump acB).2.length = n ∧
    ∃ g : I3, IsLfp (acB.map W.den) g ∧
      (hybridStep L dump acB).2.map (eval (hybridStep L dump acB).1) = pre (acB.map W.den) g := by
  have ⟨gv, gl, gd⟩ := Bio.groundedLoopB_sem W (acB.length + 1) acB hv (by omega)
  have ⟨a, _, c, d⟩ := bridgeAll_spec W hd (Bio.groundedInternal L acB) Store.init [] WF_init gv
    (fun _ h => by cases h)
  obtain ⟨g, hg, hp⟩ := semLoop_is_pre (n := n) (acB.map W.den) (by simp [hlen])
  refine ⟨a, c, ?_, g, hg, ?_⟩
  · have := congrArg List.length d
    simp only [List.length_map, List.map_nil, List.nil_append] at this
    show (bridgeAll L dump (Bio.groundedInternal L acB) Store.init []).2.length = n
    rw [this]; unfold Bio.groundedInternal; rw [gl, hlen]
  · show (bridgeAll L dump (Bio.groundedInternal L acB) Store.init []).2.map
      (eval (bridgeAll L dump (Bio.groundedInternal L acB) Store.init []).1) = _
    rw [d]
    simp only [List.map_nil, List.nil_append]
    unfold Bio.groundedInternal
    rw [gd, hlen, hp]

end hybridarm


/-! ### the sections of the hybrid arm -/

section hybridsections
variable {n : Nat} {tts : List Nat} {D D' : List BoolFn}

theorem secHybrid_ne (fuel : Nat) (heu : SM.Heu) (cands : List (List Nat)) (ac : List Nat) (sec : Section)
    (s : Store) (h : sec ≠ .stmrew) :
    secHybrid fuel heu cands n ac sec s = CliF.runSectionF fuel heu sec s n ac := by
  cases sec <;> first | rfl | exact absurd rfl h

/-- the candidate list of the library object: every satisfying valuation, each once, of a function
every two-valued model of the ORIGINAL conditions satisfies -/
def GoodCands (n : Nat) (D : List BoolFn) (cands : List (List Nat)) : Prop :=
  ∃ (R0 : BoolFn) (vals : List (List Bool)), (∀ σ, Bio.ModelOf D σ → R0 σ = true) ∧
    Bio.SatEnum R0 n vals ∧ cands = vals.map Bio.toTerms

/-- one section of the hybrid arm on the bridged (pre-grounded) object -/
theorem secHybrid_exact (R : SpecSound.Reps n tts D) (hD : D.length = n) (hs : CliF.Same n D D')
    (cands : List (List Nat)) (hc : GoodCands n D cands)
    (fuel : Nat) (heu : SM.Heu) (sec : Section) (s : Store) (ac : List Nat) (w : WF s)
    (hn : ac.length = n) (hv : ∀ t ∈ ac, t < s.nodes.size) (hden : ac.map (eval s) = D')
    (hh : secHalts fuel heu n ac sec s = true) :
    WF (secHybrid fuel heu cands n ac sec s).1 ∧ Ext s (secHybrid fuel heu cands n ac sec s).1 ∧
    ((secHybrid fuel heu cands n ac sec s).2.map (fun v => v.map storeIsConst)).Perm (specSection n tts sec) := by
  by_cases hsec : sec = .stmrew
  · subst hsec
    obtain ⟨R0, vals, hR, hse, rfl⟩ := hc
    have hcl : ∀ c ∈ vals.map Bio.toTerms, c.length = n ∧ ∀ i, i < c.length → c.getD i 0 < 2 := by
      intro c hc'
      obtain ⟨val, hval, rfl⟩ := List.mem_map.mp hc'
      exact ⟨by have := ((hse.2 val).mp hval).1; simpa [Bio.toTerms] using this, Bio.toTerms_total val⟩
    have ⟨⟨w1, e1⟩, b⟩ := Bio.nativeStableRep_filter s n ac w hn hv _ hcl
    show WF (Bio.nativeStableRep s n ac (vals.map Bio.toTerms)).1 ∧ Ext s (Bio.nativeStableRep s n ac (vals.map Bio.toTerms)).1 ∧
      ((Bio.nativeStableRep s n ac (vals.map Bio.toTerms)).2.map _).Perm (Spec.stableAll n tts)
    refine ⟨w1, e1, ?_⟩
    rw [b, hden]
    have ⟨nd, hm⟩ := Bio.rep_answers D n hD R0 hR vals hse (StableExact.verdict D') (by
      intro c hcn _
      rw [StableExact.verdict_iff]
      have hl : (c.map storeIsConst).length = n := by simpa using hcn
      constructor
      · intro h
        have := (CliF.stable_iff hs _).mp ⟨hl, h.1, h.2.1, h.2.2⟩
        exact ⟨this.2.1, this.2.2.1, this.2.2.2⟩
      · intro h
        have := (CliF.stable_iff hs _).mpr ⟨hl, h.1, h.2.1, h.2.2⟩
        exact ⟨this.2.1, this.2.2.1, this.2.2.2⟩)
    exact CliF.stable_perm R (CliF.Same.refl hD (fun f hf => by
      obtain ⟨i, hi, rfl⟩ := List.getElem_of_mem hf
      exact R.det i _ (List.getElem?_eq_getElem hi))) nd hm
  · rw [secHybrid_ne fuel heu cands ac sec s hsec]
    rw [secHalts_eq_F] at hh
    exact CliF.section_exact R hD hs fuel heu sec s ac w hn hv hden hh

/-- the sections of the hybrid arm thread the store -/
theorem runWith_hybrid_faithful (R : SpecSound.Reps n tts D) (hD : D.length = n) (hs : CliF.Same n D D')
    (cands : List (List Nat)) (hc : GoodCands n D cands)
    (fuel : Nat) (heu : SM.Heu) (s1 : Store) (ac : List Nat) (w1 : WF s1) (hn : ac.length = n)
    (hv : ∀ t ∈ ac, t < s1.nodes.size) (hden : ac.map (eval s1) = D') :
    ∀ (l : List Section) (acc : Store × List Block), WF acc.1 → Ext s1 acc.1 →
      haltsWith (secHalts fuel heu n ac) (secHybrid fuel heu cands n ac) l acc.1 = true →
      (∀ blk ∈ acc.2, CliF.Faithful n tts blk) →
      ∀ blk ∈ (runWith (secHybrid fuel heu cands n ac) l acc).2, CliF.Faithful n tts blk := by
  intro l
  induction l with
  | nil => intro acc _ _ _ hacc; exact hacc
  | cons x xs ih =>
    intro acc wa ea hh hacc
    simp only [haltsWith, Bool.and_eq_true] at hh
    have hva : ∀ t ∈ ac, t < acc.1.nodes.size := fun t ht => Nat.lt_of_lt_of_le (hv t ht) ea.1
    have hd : ac.map (eval acc.1) = D' := by rw [CI.map_eval_ext w1 ea hv]; exact hden
    have ⟨w2, e2, pm⟩ := secHybrid_exact R hD hs cands hc fuel heu x acc.1 ac wa hn hva hd hh.1
    simp only [runWith]
    apply ih _ w2 (Ext.trans ea e2) hh.2
    intro blk hb
    rcases List.mem_append.mp hb with h | h
    · exact hacc blk h
    · rw [List.mem_singleton] at h
      subst h
      exact pm

end hybridsections

theorem runWith_fst (Rn : Section → Store → Store × List (List Nat)) :
    ∀ (l : List Section) (acc : Store × List Block), (runWith Rn l acc).2.map (·.1) = acc.2.map (·.1) ++ l := by
  intro l
  induction l with
  | nil => intro acc; simp [runWith]
  | cons x xs ih => intro acc; simp only [runWith]; rw [ih]; simp

/-! ## no statement with two conditions: the prepared rewriting of `--stmrew` is usable -/

theorem items_order_nodup (names : List Label) : ∀ (acs : List (Label × Fml)) (items : List (Nat × Fm)),
    omap (itemOf names) acs = some items → (acs.map (·.1)).Nodup → (items.map (·.1)).Nodup := by
  intro acs
  induction acs with
  | nil => intro items h _; simp [omap] at h; subst h; simp
  | cons lf acs ih =>
    intro items h hnd
    obtain ⟨p, items', h1, h2, rfl⟩ := omap_cons_some h
    simp only [List.map_cons, List.nodup_cons] at hnd ⊢
    refine ⟨?_, ih items' h2 hnd.2⟩
    intro hmem
    obtain ⟨q, hq, hqp⟩ := List.mem_map.mp hmem
    obtain ⟨lf', hlf', hi'⟩ := omap_mem _ _ _ h2 q hq
    apply hnd.1
    have e1 : indexOf names lf.1 = some p.1 := by
      unfold itemOf at h1
      cases ha : indexOf names lf.1 <;> cases hb : resolveFml (indexOf names) lf.2 <;> simp [ha, hb] at h1
      rw [← h1]
    have e2 : indexOf names lf'.1 = some q.1 := by
      unfold itemOf at hi'
      cases ha : indexOf names lf'.1 <;> cases hb : resolveFml (indexOf names) lf'.2 <;> simp [ha, hb] at hi'
      rw [← hi']
    have g1 := indexOf_get names lf.1 _ e1
    have g2 := indexOf_get names lf'.1 _ e2
    rw [hqp, g1] at g2
    rw [Option.some.inj g2]
    exact List.mem_map_of_mem hlf'

theorem items_order_lt (names : List Label) (acs : List (Label × Fml)) (items : List (Nat × Fm))
    (h : omap (itemOf names) acs = some items) : ∀ o ∈ items.map (·.1), o < names.length := by
  intro o ho
  obtain ⟨q, hq, rfl⟩ := List.mem_map.mp ho
  obtain ⟨lf', _, hi'⟩ := omap_mem _ _ _ h q hq
  unfold itemOf at hi'
  cases ha : indexOf names lf'.1 <;> cases hb : resolveFml (indexOf names) lf'.2 <;> simp [ha, hb] at hi'
  rw [← hi']
  exact indexOf_lt _ _ _ ha


/-! ## the three arms on a parser object -/

/-- THE ASSUMPTIONS about the external world of the binary: the BDD library is lawful for every
variable set whose variable numbers fit the own store's variable type (`Bio.Lawful`, `nv ≤ VBOT` - the
theorems only ever use the law at the number of statements of a framework that fits; the bound lets
the project's own store serve as the library, `CliMP.storeWorldOK`) and the alphanumeric sort returns a permutation of the name list. The
hybrid arm needs in addition `DumpOK`: the node dump is an ordered dump of the diagram (`DumpLaw`). -/
structure WorldOK {T : Type} (W : World T) where
  law : (nv : Nat) → nv ≤ VBOT → Bio.Lawful (W.lib nv) nv
  an : ∀ ns, (W.anSort ns).Perm ns

/-- the additional assumption the hybrid arm needs (for variable sets whose variable numbers fit the
own store's variable type, `nv ≤ VBOT`: no ordered dump exists beyond) -/
def DumpOKW {T : Type} (W : World T) (ok : WorldOK W) : Prop :=
  ∀ nv (h : nv ≤ VBOT), DumpLaw (ok.law nv h) W.dump

theorem spec_len {n : Nat} {tts : List Nat} {D : List BoolFn} (R : SpecSound.Reps n tts D) (hD : D.length = n)
    (sec : Section) : ∀ w ∈ specSection n tts sec, w.length = n := by
  intro w hw
  cases sec with
  | grd =>
    have : w = Spec.grounded n tts := by simpa [specSection] using hw
    rw [this, Bio.lfp_len (SpecSound.grounded_spec R hD), hD]
  | com => exact ((SpecSound.completeAll_spec R w).mp hw).1
  | twoval => exact ((SpecSound.models2_spec R w).mp hw).1
  | stm | stmca | stmcb | stmpre | stmrew | stmng => exact ((SpecSound.stable_spec R w).mp hw).1

theorem faithful_len {n : Nat} {tts : List Nat} {D : List BoolFn} (R : SpecSound.Reps n tts D) (hD : D.length = n)
    (blk : Block) (h : CliF.Faithful n tts blk) : ∀ v ∈ blk.2, v.length = n := by
  intro v hv
  have : v.map storeIsConst ∈ specSection n tts blk.1 := h.mem_iff.mp (List.mem_map_of_mem hv)
  simpa using spec_len R hD blk.1 _ this

/-- **every arm, on the parser object**: for a parser object that presents a well-formed framework
(names in the order the sorting flag produced), the construction does not panic, one block per
requested and implemented section is produced in the documented order, and EVERY block is, as a
multiset of three-valued interpretations, the specification's answer for its section on the
presented framework — the naive arm by the own algorithms (C01–C05), the biodivine arm by the
back-end's algorithms over the lawful library (BioProofs), the hybrid arm by library grounding,
bridge (C09) and the own algorithms on the pre-grounded conditions, `--stmrew`/`--stmrew2` by the
single-formula candidates. Hypotheses beyond well-formedness: the labels are acceptable to the
library in the two arms that use it (`bioNameOK` — otherwise those arms PANIC,
`bio_arms_reject_special_label`); with `--stmrew` no statement has two conditions in the file;
no nogood-learning search hit the bound (`haltedParsed`). -/
theorem runParsed_faithful {T : Type} (W : World T) (ok : WorldOK W) (fuel : Nat) (i : Inv)
    {st : PState} {names : List Label} {acs : List (Label × Fml)}
    (h : Pres st names acs) (hwf : WfOn names acs) (hn : names.length ≤ VBOT)
    (hnames : i.mode ≠ .naive → names.all bioNameOK = true)
    (hone : i.mode ≠ .naive → i.flags.stmrew = true → (acs.map (·.1)).Nodup)
    (hdump : i.mode = .hybrid → DumpOKW W ok)
    (hh : haltedParsed W fuel i st = true) :
    ∃ blocks, runParsed W fuel i st = some blocks ∧ blocks.map (·.1) = sections i.mode i.flags ∧
      ∀ blk ∈ blocks, CliF.Faithful names.length (tablesD names.length (condsOn names acs)) blk := by
  have R := reps_condsOn names acs
  have hD := condsOn_length names acs
  have hdet := condsOn_det names acs
  obtain ⟨mode, f, so, heu⟩ := i
  have hsz : dictSizeOf st = names.length := h.p.size
  cases mode with
  | naive =>
    obtain ⟨items, s, ac, _, hfp, _, w, hl, hv, hden, _, _⟩ := items_facts h hwf hn
    simp only [haltedParsed, hfp, hsz, haltsWith_naive_eq_F] at hh
    refine ⟨(runWith (secNaive fuel heu names.length ac) (sections .naive f) (s, [])).2, ?_, ?_, ?_⟩
    · simp only [runParsed, runNaive, hfp, hsz, Option.map_some]
    · rw [runWith_fst]; rfl
    · rw [runWith_naive_eq_F]
      exact (CliF.runFromF_faithful R hD (CliF.Same.refl hD hdet) fuel heu s ac w hl hv hden
        (sections .naive f) (s, []) w (Ext.refl _) hh (fun _ hx => by cases hx)).2.2
  | biodivine =>
    have hnm := hnames (by simp)
    obtain ⟨items, hw, hlt, hb, hl, hv, hden⟩ := bioBuild_facts (ok.law names.length hn) h hwf hn hnm f.stmrew
    have hg : Bio.GoodRewrite (ok.law names.length hn)
        (Bio.acOf (W.lib names.length) names.length (items.map (·.1)) (items.map fun pf => fmToBExpr pf.2))
        (if f.stmrew = true then some (Bio.stmRewriting (W.lib names.length) (items.map (·.1))
          (items.map fun pf => fmToBExpr pf.2)) else none) := by
      by_cases hr : f.stmrew = true
      · rw [if_pos hr]
        have hi : omap (itemOf names) acs = some items := by rw [← workList_presents h.p]; exact hw
        exact Bio.stmRewriting_good (ok.law names.length hn) _ _
          (by intro φ hφ
              obtain ⟨pf, hpf, rfl⟩ := List.mem_map.mp hφ
              exact fmToBExpr_closed _ _ (hlt pf hpf))
          (items_order_lt names acs items hi) (items_order_nodup names acs items hi (hone (by simp) hr))
          (by simp)
      · rw [if_neg hr]; trivial
    refine ⟨?blocks, ?a, ?b, ?c⟩
    case a => simp only [runParsed, runBio, hsz, hb, Option.map_some]; rfl
    case b => rw [List.map_map]; exact List.map_id' _
    intro blk hblk
    obtain ⟨sec, hsec, rfl⟩ := List.mem_map.mp hblk
    have himpl : implemented .biodivine sec = true := by
      have := (List.mem_filter.mp hsec).2
      simp only [Bool.and_eq_true] at this
      exact this.2
    exact secBio_exact (ok.law names.length hn) R hD hdet _ hv hl hden _ hg sec himpl
  | hybrid =>
    have hnm := hnames (by simp)
    obtain ⟨items, hw, hlt, hb, hl, hv, hden⟩ := bioBuild_facts (ok.law names.length hn) h hwf hn hnm f.stmrew
    have hg : Bio.GoodRewrite (ok.law names.length hn)
        (Bio.acOf (W.lib names.length) names.length (items.map (·.1)) (items.map fun pf => fmToBExpr pf.2))
        (if f.stmrew = true then some (Bio.stmRewriting (W.lib names.length) (items.map (·.1))
          (items.map fun pf => fmToBExpr pf.2)) else none) := by
      by_cases hr : f.stmrew = true
      · rw [if_pos hr]
        have hi : omap (itemOf names) acs = some items := by rw [← workList_presents h.p]; exact hw
        exact Bio.stmRewriting_good (ok.law names.length hn) _ _
          (by intro φ hφ
              obtain ⟨pf, hpf, rfl⟩ := List.mem_map.mp hφ
              exact fmToBExpr_closed _ _ (hlt pf hpf))
          (items_order_lt names acs items hi) (items_order_nodup names acs items hi (hone (by simp) hr))
          (by simp)
      · rw [if_neg hr]; trivial
    have ⟨w1, v1, l1, g, hlfp, hpre⟩ := hybridStep_spec (ok.law names.length hn) (hdump rfl names.length hn) _ hv hl
    rw [hden] at hlfp hpre
    have hs := CliF.Same.pre hD hdet hlfp
    have hc : GoodCands names.length (condsOn names acs) (Bio.stableModelCandidates (W.lib names.length)
        (if f.stmrew = true then some (Bio.stmRewriting (W.lib names.length) (items.map (·.1))
          (items.map fun pf => fmToBExpr pf.2)) else none)
        (Bio.acOf (W.lib names.length) names.length (items.map (·.1)) (items.map fun pf => fmToBExpr pf.2))) := by
      obtain ⟨R0, vals, hR, hse, he⟩ := Bio.candidates_enum (ok.law names.length hn) _ _ hv hl hg
      rw [hden] at hR
      exact ⟨R0, vals, hR, hse, he⟩
    simp only [haltedParsed, hsz, hb] at hh
    refine ⟨?blocksH, ?aH, ?bH, ?cH⟩
    case aH => simp only [runParsed, runHybrid, hsz, hb, Option.map_some]; rfl
    case bH => rw [runWith_fst]; rfl
    exact runWith_hybrid_faithful R hD hs _ hc fuel heu _ _ w1 l1 v1 hpre (sections .hybrid f) (_, []) w1
      (Ext.refl _) hh (fun _ hx => by cases hx)

/-- **the three modes print the same sets**: two invocations on the same parser object (same text,
same sorting flag) in ANY two library modes (and with any two heuristics and bounds): for every
section both print, the two blocks are permutations of one another. The three arms are three
different computations here (own store / external library / library + bridge + own store). -/
theorem modes_same_sets {T : Type} (W : World T) (ok : WorldOK W) (fuel fuel' : Nat) (i i' : Inv)
    {st : PState} {names : List Label} {acs : List (Label × Fml)}
    (h : Pres st names acs) (hwf : WfOn names acs) (hn : names.length ≤ VBOT)
    (hnames : names.all bioNameOK = true) (hone : (acs.map (·.1)).Nodup) (hdump : DumpOKW W ok)
    (hh : haltedParsed W fuel i st = true) (hh' : haltedParsed W fuel' i' st = true)
    (blocks blocks' : List Block) (hb : runParsed W fuel i st = some blocks)
    (hb' : runParsed W fuel' i' st = some blocks')
    (blk blk' : Block) (hm : blk ∈ blocks) (hm' : blk' ∈ blocks') (hs : blk.1 = blk'.1) :
    (blk.2.map (fun v => v.map storeIsConst)).Perm (blk'.2.map (fun v => v.map storeIsConst)) := by
  obtain ⟨b1, e1, _, f1⟩ := runParsed_faithful W ok fuel i h hwf hn (fun _ => hnames) (fun _ _ => hone) (fun _ => hdump) hh
  obtain ⟨b2, e2, _, f2⟩ := runParsed_faithful W ok fuel' i' h hwf hn (fun _ => hnames) (fun _ _ => hone) (fun _ => hdump) hh'
  rw [hb] at e1; rw [hb'] at e2
  cases e1; cases e2
  have p1 := f1 blk hm
  have p2 := f2 blk' hm'
  unfold CliF.Faithful at p1 p2
  rw [hs] at p1
  exact p1.trans p2.symm

/-! ## the whole run, from the text -/

/-- **C15 from the text of the file**: a text of the documented format (`DerFile fs t`) that describes
a well-formed ADF, any mode / flags / sorting flag / heuristic: exit status 0; stdout is, block by
block in the documented order, one line per interpretation, rendered with the names in the order the
sorting flag asks for (`sortedNames`), and every block is the specification's answer for its section
on the framework `condFnsOn names (condOf fs)` (statement `p` = the `p`-th name of that order, its
condition = the last one written for it, ⊥ if none; read at the renumbered atoms) -/
theorem runText_faithful {T : Type} (W : World T) (ok : WorldOK W) (fuel : Nat) (i : Inv) (t : List Char)
    (fs : List Fact) (hd : DerFile fs t) (hne : fs ≠ []) (hwf : WellFormedAdf fs)
    (hn : (namesOf fs).length ≤ VBOT)
    (hnames : i.mode ≠ .naive → (namesOf fs).all bioNameOK = true)
    (hone : i.mode ≠ .naive → i.flags.stmrew = true → ((acsOf fs).map (·.1)).Nodup)
    (hdump : i.mode = .hybrid → DumpOKW W ok)
    (hh : haltedParsed W fuel i (sortState W.anSort i.sort (PState.ofFacts fs)) = true) :
    ∃ blocks : List Block,
      runText W fuel i t =
        ⟨0, blocks.flatMap fun b => b.2.map (render (sortedNames W.anSort i.sort (namesOf fs)))⟩ ∧
      blocks.map (·.1) = sections i.mode i.flags ∧
      (∀ blk ∈ blocks, CliF.Faithful (sortedNames W.anSort i.sort (namesOf fs)).length
        (tablesD (sortedNames W.anSort i.sort (namesOf fs)).length
          (condFnsOn (sortedNames W.anSort i.sort (namesOf fs)) (condOf fs))) blk) ∧
      (∀ blk ∈ blocks, ∀ v ∈ blk.2, v.length = (sortedNames W.anSort i.sort (namesOf fs)).length) := by
  have hp := parsed_of_der W i t fs hd hne
  have pres := pres_sortState W.anSort ok.an i.sort (pres_ofFacts fs)
  have hperm := sortedNames_perm W.anSort ok.an i.sort (namesOf fs)
  have hwf' : WfOn (sortedNames W.anSort i.sort (namesOf fs)) (acsOf fs) := wfOn_perm hperm hwf
  obtain ⟨blocks, hb, hsec, hf⟩ := runParsed_faithful W ok fuel i pres hwf' (by rw [hperm.length_eq]; exact hn)
    (fun hm => by
      have := hnames hm
      rw [List.all_eq_true] at this ⊢
      exact fun x hx => this x (hperm.mem_iff.mp hx))
    hone hdump hh
  refine ⟨blocks, ?_, hsec, hf, ?_⟩
  · unfold runText
    rw [hp]
    simp only [hb, pres.nl]
  · intro blk hblk
    exact faithful_len (reps_condsOn _ _) (condsOn_length _ _) blk (hf blk hblk)

/-- **the line format**: every line of stdout is the line of one interpretation `v` of one block:
the concatenation, over the statements in the printed order, of `mark(v_k) ( name_k ) blank` — each
statement once, under its own name, with the mark of the value `v` gives it (`mark_spec`) -/
theorem runText_lines {T : Type} (W : World T) (ok : WorldOK W) (fuel : Nat) (i : Inv) (t : List Char)
    (fs : List Fact) (hd : DerFile fs t) (hne : fs ≠ []) (hwf : WellFormedAdf fs)
    (hn : (namesOf fs).length ≤ VBOT)
    (hnames : i.mode ≠ .naive → (namesOf fs).all bioNameOK = true)
    (hone : i.mode ≠ .naive → i.flags.stmrew = true → ((acsOf fs).map (·.1)).Nodup)
    (hdump : i.mode = .hybrid → DumpOKW W ok)
    (hh : haltedParsed W fuel i (sortState W.anSort i.sort (PState.ofFacts fs)) = true) :
    ∀ line ∈ (runText W fuel i t).stdout, ∃ v : List Nat,
      v.length = (sortedNames W.anSort i.sort (namesOf fs)).length ∧
      line = (List.zipWith entry (sortedNames W.anSort i.sort (namesOf fs)) v).flatten := by
  obtain ⟨blocks, e, _, _, hl⟩ := runText_faithful W ok fuel i t fs hd hne hwf hn hnames hone hdump hh
  rw [e]
  intro line hline
  simp only [List.mem_flatMap, List.mem_map] at hline
  obtain ⟨blk, hblk, v, hv, rfl⟩ := hline
  exact ⟨v, hl blk hblk v hv, render_spec _ v (hl blk hblk v hv)⟩


/-! ## the fuel hypothesis `haltedParsed`

The Rust loop of the nogood-learning search (`--twoval`, `--stmng`) has no iteration bound; the model
is a total function and gives each search `fuel` iterations. `haltedParsed W fuel i st = true` says:
"in this invocation every such search reached its end (`done` flag) within `fuel` iterations", i.e.
the bounded model did the whole computation of the unbounded loop. Without the hypothesis the
bounded model prints a prefix. It is discharged (1) outright for invocations without the two flags
and for the biodivine arm (`halted_of_no_search`), (2) for the naive arm from some bound on
(`halted_naive_eventually`; C05's termination proof gives no number, so no relation to the
driver's 1 000 000 is proved; that the driver's runs stay below it is checked by evaluation
(`#guard`) and by the correspondence run, not by the kernel: the store's hash maps do not reduce in
the kernel). -/

theorem haltsWith_of_no_search (fuel : Nat) (heu : SM.Heu) (n : Nat) (ac : List Nat)
    (Rn : Section → Store → Store × List (List Nat)) :
    ∀ (l : List Section) (s : Store), Section.twoval ∉ l → Section.stmng ∉ l →
      haltsWith (secHalts fuel heu n ac) Rn l s = true := by
  intro l
  induction l with
  | nil => intro s _ _; rfl
  | cons x xs ih =>
    intro s h1 h2
    simp only [List.mem_cons, not_or] at h1 h2
    simp only [haltsWith, Bool.and_eq_true]
    refine ⟨?_, ih _ h1.2 h2.2⟩
    cases x <;> first | rfl | exact absurd rfl h1.1 | exact absurd rfl h2.1

theorem sections_no_search (m : Mode) (f : Flags) (h1 : f.twoval = false) (h2 : f.stmng = false) :
    Section.twoval ∉ sections m f ∧ Section.stmng ∉ sections m f := by
  constructor
  · intro h
    have := (List.mem_filter.mp h).2
    simp [wanted, h1] at this
  · intro h
    have := (List.mem_filter.mp h).2
    simp [wanted, h2] at this

/-- no `--twoval`, no `--stmng` (or the biodivine arm, which has neither): nothing is bounded -/
theorem halted_of_no_search {T : Type} (W : World T) (fuel : Nat) (i : Inv) (st : PState)
    (h : i.mode = .biodivine ∨ (i.flags.twoval = false ∧ i.flags.stmng = false)) :
    haltedParsed W fuel i st = true := by
  obtain ⟨mode, f, so, heu⟩ := i
  cases mode with
  | biodivine => rfl
  | naive =>
    rcases h with h | ⟨h1, h2⟩
    · cases h
    · simp only [haltedParsed]
      split
      · rfl
      · exact haltsWith_of_no_search _ _ _ _ _ _ _ (sections_no_search _ f h1 h2).1 (sections_no_search _ f h1 h2).2
  | hybrid =>
    rcases h with h | ⟨h1, h2⟩
    · cases h
    · simp only [haltedParsed]
      split
      · rfl
      · exact haltsWith_of_no_search _ _ _ _ _ _ _ (sections_no_search _ f h1 h2).1 (sections_no_search _ f h1 h2).2

/-- the naive arm, any flags: from some bound on no search hits it -/
theorem halted_naive_eventually {T : Type} (W : World T) (i : Inv) (hm : i.mode = .naive)
    {st : PState} {names : List Label} {acs : List (Label × Fml)}
    (h : Pres st names acs) (hwf : WfOn names acs) (hn : names.length ≤ VBOT) :
    ∃ F0, ∀ fuel, F0 ≤ fuel → haltedParsed W fuel i st = true := by
  obtain ⟨mode, f, so, heu⟩ := i
  cases hm
  have R := reps_condsOn names acs
  have hD := condsOn_length names acs
  have hdet := condsOn_det names acs
  have hsz : dictSizeOf st = names.length := h.p.size
  obtain ⟨items, s, ac, _, hfp, _, w, hl, hv, hden, _, _⟩ := items_facts h hwf hn
  obtain ⟨F0, h0⟩ := CliF.haltsFromF_eventually R hD (CliF.Same.refl hD hdet) heu s ac w hl hv hden
    (sections .naive f) s w (Ext.refl _)
  refine ⟨F0, fun fuel hf => ?_⟩
  simp only [haltedParsed, hfp, hsz, haltsWith_naive_eq_F]
  exact h0 fuel hf

/-! ## labels the library refuses: the two arms that use it panic (a well-formed file!) -/

/-- **finding**: `BddVariableSetBuilder::make_variable` panics on a name containing one of
`! & | ^ = < > ( ) ? :`. Quoted labels may contain them. For such a (well-formed) file the
biodivine arm and the hybrid arm — the DEFAULT — exit with status 101 and print nothing, while the
naive arm answers (`runText_faithful` has no such hypothesis for `.naive`). Observed on the binary:
`s("a&b").s(c).ac("a&b",c(v)).ac(c,"a&b").` with `--grd`: naive prints `T(a&b) T(c)`, the other two
modes panic. So the clause "for every well-formed input … every library mode … exits successfully;
the three modes print the same sets" of C15 holds only for labels free of these characters. -/
theorem bio_arms_reject_special_label {T : Type} (W : World T) (fuel : Nat) (i : Inv) (t : List Char)
    (st : PState) (hp : parsed W i t = some st) (hm : i.mode ≠ .naive)
    (hbad : st.namelist.all bioNameOK = false) : runText W fuel i t = CliM.rejected := by
  obtain ⟨mode, f, so, heu⟩ := i
  unfold runText
  rw [hp]
  have : runParsed W fuel ⟨mode, f, so, heu⟩ st = none := by
    cases mode with
    | naive => exact absurd rfl hm
    | biodivine => simp [runParsed, runBio, bioBuild, hbad]
    | hybrid => simp [runParsed, runHybrid, bioBuild, hbad]
  simp only [this]

/-! ## non-vacuity (kernel-checked) -/

/-- a world that satisfies the assumptions: the truth-table library (`Bio.ttLawful`), the identity as
alphanumeric sort (the dump is irrelevant outside the hybrid arm) -/
def exW : World Nat := ⟨Bio.ttLib, fun _ => [], id⟩
def exOK : WorldOK exW := ⟨fun nv _ => Bio.ttLawful nv, fun _ => List.Perm.refl _⟩

/-- `s(b).s(a).ac(b,neg(a)).ac(a,neg(b)).` -/
def exText : List Char :=
  ['s','(','b',')','.','s','(','a',')','.','a','c','(','b',',','n','e','g','(','a',')',')','.',
   'a','c','(','a',',','n','e','g','(','b',')',')','.']
def exFacts : List Fact :=
  [.stmt ['b'], .stmt ['a'], .ac ['b'] (.not (.atom ['a'])), .ac ['a'] (.not (.atom ['b']))]

theorem exText_parse : parse exText = some (PState.ofFacts exFacts) := by decide

theorem exText_der : DerFile exFacts exText := by
  obtain ⟨fs, _, hd, he⟩ := parse_some_der exText _ exText_parse
  have : fs = exFacts := by
    have h1 : parse exText = some (PState.ofFacts fs) := by rw [exText_parse, he]
    rw [parse_eq] at h1
    have h2 : parseFacts exText = some exFacts := by decide
    rw [h2] at h1
    obtain ⟨fs', hf', hd'⟩ : ∃ fs', parseFacts exText = some fs' ∧ DerFile fs' exText :=
      ⟨exFacts, h2, by
        have ⟨_, d⟩ := parseFacts_sound exText exFacts h2
        exact d⟩
    rw [h2] at hf'
    cases hf'
    exact hd.unique hd'
  rw [← this]; exact hd

/-- the hypotheses of `runText_faithful` hold for the biodivine arm with `--lx` and all four flags it
implements (two statements attacking each other, declared in the order b, a: `--lx` reorders) … -/
example : ∃ blocks : List Block,
    runText exW 0 ⟨.biodivine, { grd := true, com := true, stm := true, stmrew := true }, .lx, .simple⟩ exText =
      ⟨0, blocks.flatMap fun b => b.2.map (render [['a'], ['b']])⟩ ∧
    blocks.map (·.1) = [.grd, .com, .stm, .stmrew] := by
  obtain ⟨blocks, h1, h2, _⟩ := runText_faithful exW exOK 0
    ⟨.biodivine, { grd := true, com := true, stm := true, stmrew := true }, .lx, .simple⟩ exText exFacts
    exText_der (by decide) (by decide) (by simp [VBOT]; decide) (fun _ => by decide) (fun _ _ => by decide)
    (fun h => by cases h) rfl
  refine ⟨blocks, ?_, ?_⟩
  · rw [h1]
    have : sortedNames exW.anSort .lx (namesOf exFacts) = [['a'], ['b']] := by decide
    simp only [this]
  · rw [h2]; decide

/-- … and for the naive arm WITH both search flags: some bound satisfies the fuel hypothesis
(`halted_naive_eventually`), and the run with that bound exits with status 0 and prints the blocks
of `--grd --com --stm --stmng`… (`--twoval` is not wired in the naive arm) -/
example : ∃ fuel, ∃ blocks : List Block,
    haltedParsed exW fuel ⟨.naive, { grd := true, com := true, twoval := true, stm := true, stmng := true }, .none, .simple⟩
      (sortState exW.anSort .none (PState.ofFacts exFacts)) = true ∧
    runText exW fuel ⟨.naive, { grd := true, com := true, twoval := true, stm := true, stmng := true }, .none, .simple⟩ exText =
      ⟨0, blocks.flatMap fun b => b.2.map (render [['b'], ['a']])⟩ ∧
    blocks.map (·.1) = [.grd, .com, .stm, .stmng] := by
  obtain ⟨F0, hF⟩ := halted_naive_eventually exW
    ⟨.naive, { grd := true, com := true, twoval := true, stm := true, stmng := true }, .none, .simple⟩ rfl
    (pres_sortState exW.anSort exOK.an .none (pres_ofFacts exFacts)) (show WellFormedAdf exFacts by decide)
    (by simp [VBOT]; decide)
  obtain ⟨blocks, h1, h2, _⟩ := runText_faithful exW exOK F0
    ⟨.naive, { grd := true, com := true, twoval := true, stm := true, stmng := true }, .none, .simple⟩ exText exFacts
    exText_der (by decide) (by decide) (by simp [VBOT]; decide) (fun h => absurd rfl h) (fun h => absurd rfl h)
    (fun h => by cases h) (hF F0 (Nat.le_refl _))
  exact ⟨F0, blocks, hF F0 (Nat.le_refl _), h1, by rw [h2]; decide⟩

/-- the rejection theorems fire: `s(a).ac(b,a).` (condition for an undeclared label) is parsed and
is not a well-formed ADF; `s(a)` is not parsed -/
example : runText exW 7 ⟨.hybrid, { grd := true }, .an, .simple⟩ ['s','(','a',')'] = CliM.rejected :=
  runText_rejects_unparsed _ _ _ _ (by decide)
example : ¬ WellFormedAdf [.stmt ['a'], .ac ['b'] (.atom ['a'])] := by decide

/-- the finding, on the model: `s("a&b").` -/
example : runText exW 7 ⟨.hybrid, { grd := true }, .none, .simple⟩ ['s','(','"','a','&','b','"',')','.'] = CliM.rejected :=
  bio_arms_reject_special_label exW 7 _ _ (PState.ofFacts [.stmt ['a','&','b']]) (by decide) (by decide) (by decide)

/-- the line format on a concrete vector: statements `a`, `b` with handles 1 (⊤), 5 (an inner node) -/
example : render [['a'], ['b']] [1, 5] = ['T','(','a',')',' ','u','(','b',')',' '] := by decide

end CliMP
#print axioms CliMP.runText_faithful
#print axioms CliMP.modes_same_sets
#print axioms CliMP.runText_rejects
#print axioms CliMP.runText_rejects_ill_formed
#print axioms CliMP.runNaive_eq
#print axioms CliMP.runText_lines
#print axioms CliMP.bio_arms_reject_special_label
#print axioms CliMP.halted_naive_eventually
