import AdfObdd.NgGenHalt
import AdfObdd.NgStore
import AdfObdd.Stable
import AdfObdd.PreGround2
import AdfObdd.NgModel
/-! # The semantic instance of the generic nogood search

`V := List BoolFn` (the Boolean functions denoted by the entries of the interpretation vector),
`Sto := List (List PA)` (the size-indexed buckets with `addNg`), closure := the concrete
`conclusionClosure`, propagation := `semRound` (every entry restricted by the decided part),
consistency / leaf tests := the semantic conditions on `D`. No free parameter is left except the
raw heuristic answers `raw : Nat → Option (Nat × Bool)` (any function at all: an answer that is not
an undecided statement is replaced by a valid one, so the laws hold for every oracle; the
concrete heuristics never need the replacement).

Result: `sem_exact` + `sem_halts` — the abstract machine with the concrete closure and the
concrete semantics of `D` halts and emits exactly the target models, each once. -/
namespace NSem
open NGen

/-! ### small bridges between the `pget` and the `getElem?` vocabulary -/

theorem pget_eq_some {g : PA} {i : Nat} {b : Bool} : pget g i = some b ↔ g[i]? = some (some b) := by
  unfold pget
  cases h : g[i]? with
  | none => simp
  | some x => simp

theorem pget_eq_none {g : PA} {i : Nat} : pget g i = none ↔ (g[i]? = none ∨ g[i]? = some none) := by
  unfold pget
  cases h : g[i]? with
  | none => simp
  | some x => simp

theorem pget_of_get {g : PA} {i : Nat} {x : Option Bool} (h : g[i]? = some x) : pget g i = x := by
  unfold pget; rw [h]; rfl

theorem matches_iff_agree {g : PA} {σ : Asg} : Matches g σ ↔ Agree σ g :=
  ⟨fun h i b hi => h i b (pget_eq_some.mpr hi), fun h i b hi => h i b (pget_eq_some.mp hi)⟩

theorem psub_iff_le3 {g h : PA} : PSub g h ↔ Le3 g h :=
  ⟨fun s i b hi => pget_eq_some.mp (s i b (pget_eq_some.mpr hi)),
   fun s i b hi => pget_eq_some.mpr (s i b (pget_eq_some.mp hi))⟩

theorem size_eq_countSome (g : PA) : size g = countSome g := rfl

theorem constOf_const (b : Bool) : constOf (fun _ => b) = some b := constOf_some.mpr (fun _ => rfl)

theorem cv_get (V : List BoolFn) (i : Nat) : (cv V)[i]? = (V[i]?).map constOf := by simp [cv]

theorem pget_cv_some {V : List BoolFn} {i : Nat} {b : Bool} :
    pget (cv V) i = some b ↔ ∃ f, V[i]? = some f ∧ ∀ σ, f σ = b := by
  rw [pget_eq_some, cv_get]
  cases h : V[i]? with
  | none => simp
  | some f => simp [constOf_some]

theorem over_matches {σ : Asg} {A : PA} (h : Matches A σ) : over σ 0 A = σ := over_of_agree (matches_iff_agree.mp h)

theorem matches_over (σ : Asg) (A : PA) : Matches A (over σ 0 A) := matches_iff_agree.mpr (agree_over σ A)

/-! ### the target predicate -/

/-- the two-valued interpretation of width `n` read off a total assignment -/
def vOf (n : Nat) (σ : Asg) : I3 := (List.range n).map (fun i => some (σ i))

theorem vOf_length (n : Nat) (σ : Asg) : (vOf n σ).length = n := by simp [vOf]

theorem vOf_get {n : Nat} {σ : Asg} {i : Nat} (hi : i < n) : (vOf n σ)[i]? = some (some (σ i)) := by
  simp [vOf, hi]

theorem vOf_total (n : Nat) (σ : Asg) : TotalI (vOf n σ) := by
  intro i hi
  rw [vOf_length] at hi
  exact ⟨σ i, vOf_get hi⟩

theorem agree_vOf (n : Nat) (σ : Asg) : Agree σ (vOf n σ) := by
  intro i b h
  rcases Nat.lt_or_ge i n with hi | hi
  · rw [vOf_get hi] at h; simp at h; exact h
  · rw [List.getElem?_eq_none (by rw [vOf_length]; exact hi)] at h; cases h

/-- `σ` (on the first `n` statements) is a two-valued model of `D`, and in stable mode the least
fixpoint of its reduct is the model itself (which by `stable_check_iff` is the definition) -/
def Target (D : List BoolFn) (n : Nat) (stable : Bool) (σ : Asg) : Prop :=
  Gam D (vOf n σ) = vOf n σ ∧ (stable = true → ∀ w, IsLfp (redu D (vOf n σ)) w → w = vOf n σ)

/-- the condition depends on the first `n` statements only -/
def Supp (n : Nat) (f : BoolFn) : Prop := ∀ σ τ, (∀ i, i < n → σ i = τ i) → f σ = f τ

theorem target_model {D : List BoolFn} {n : Nat} {stable : Bool} {σ : Asg} (hD : D.length = n)
    (hT : Target D n stable σ) {i : Nat} {f : BoolFn} (hf : D[i]? = some f) : f σ = σ i := by
  have hi : i < n := by
    rw [← hD]
    rcases Nat.lt_or_ge i D.length with h | h
    · exact h
    · rw [List.getElem?_eq_none h] at hf; cases hf
  have h1 := Gam_get D (vOf n σ) i f hf
  rw [hT.1, vOf_get hi] at h1
  have h2 : constOf (fun τ => f (over τ 0 (vOf n σ))) = some (σ i) := by simpa using h1.symm
  have h3 := constOf_some.mp h2 σ
  rwa [over_of_agree (agree_vOf n σ)] at h3

/-! ### the parameters -/

/-- consistency test with the acceptance conditions: some decided value contradicts the value its
condition has under the decided part -/
noncomputable def acInc (D : List BoolFn) (A : PA) : Bool :=
  open Classical in decide (∃ i b c, pget A i = some b ∧ pget (Gam D A) i = some c ∧ b ≠ c)

noncomputable def isTgt (D : List BoolFn) (stable : Bool) (A : PA) : Bool :=
  open Classical in if stable then decide (∀ w, IsLfp (redu D A) w → w = A) else true

def twoV (A : PA) : Bool := A.all Option.isSome

def setF (V : List BoolFn) (v : Nat) (b : Bool) : List BoolFn := V.set v (fun _ => b)

/-- `update_term_vec` on functions -/
def updF (V : List BoolFn) (R : PA) : List BoolFn :=
  (List.range V.length).map (fun i => match pget R i with
    | some b => fun _ => b
    | none => V.getD i (fun _ => false))

noncomputable def fallback (V : List BoolFn) : Option (Nat × Bool) :=
  ((List.range V.length).find? (fun i => (pget (cv V) i).isNone)).map (fun i => (i, true))

/-- the heuristic oracle: the raw answer of iteration `k` if it is an undecided statement, a valid
default otherwise -/
noncomputable def heuO (raw : Nat → Option (Nat × Bool)) (k : Nat) (V : List BoolFn) : Option (Nat × Bool) :=
  match raw k with
  | some (v, b) => if pget (cv V) v = none ∧ v < V.length then some (v, b) else fallback V
  | none => fallback V

open Classical in
theorem acInc_true_iff {D : List BoolFn} {A : PA} :
    acInc D A = true ↔ ∃ i b c, pget A i = some b ∧ pget (Gam D A) i = some c ∧ b ≠ c := by
  unfold acInc; exact decide_eq_true_iff

open Classical in
theorem acInc_false_iff {D : List BoolFn} {A : PA} :
    acInc D A = false ↔ ¬ ∃ i b c, pget A i = some b ∧ pget (Gam D A) i = some c ∧ b ≠ c := by
  unfold acInc; exact decide_eq_false_iff_not

open Classical in
theorem isTgt_true_iff {D : List BoolFn} {stable : Bool} {A : PA} :
    isTgt D stable A = true ↔ (stable = true → ∀ w, IsLfp (redu D A) w → w = A) := by
  unfold isTgt
  cases stable with
  | false => simp
  | true => simp only [if_true, true_implies]; exact decide_eq_true_iff

/-- the uniform semantic invariant of the vector -/
def OkV (D : List BoolFn) (n : Nat) (stable : Bool) (V : List BoolFn) : Prop :=
  V.length = n ∧ ∀ σ, Target D n stable σ → Matches (cv V) σ → ∀ i f, V[i]? = some f → f σ = σ i

noncomputable def semP (D : List BoolFn) (n : Nat) (stable : Bool) (raw : Nat → Option (Nat × Bool)) :
    GParams (List BoolFn) (List (List PA)) where
  dec := cv
  Ok := OkV D n stable
  OkG := fun g => g.length = n
  OkS := NgInv n
  Mem := Stored
  add := addNg
  gam := semRound
  setV := setF
  updV := updF
  acIncons := acInc D
  isTarget := isTgt D stable
  twoVal := twoV
  heu := heuO raw
  closure := conclusionClosure

/-! ### facts about the heuristic oracle -/

theorem fallback_valid {V : List BoolFn} {v : Nat} {b : Bool} (h : fallback V = some (v, b)) :
    pget (cv V) v = none ∧ v < V.length := by
  unfold fallback at h
  rw [Option.map_eq_some_iff] at h
  obtain ⟨i, hi, he⟩ := h
  cases he
  have h1 := List.find?_some hi
  have h2 := List.mem_of_find?_eq_some hi
  exact ⟨by simpa using h1, List.mem_range.mp h2⟩

theorem heuO_valid {raw : Nat → Option (Nat × Bool)} {k : Nat} {V : List BoolFn} {v : Nat} {b : Bool}
    (h : heuO raw k V = some (v, b)) : pget (cv V) v = none ∧ v < V.length := by
  unfold heuO at h
  split at h
  · rename_i v' b' _
    by_cases c : pget (cv V) v' = none ∧ v' < V.length
    · rw [if_pos c] at h; cases h; exact c
    · rw [if_neg c] at h; exact fallback_valid h
  · exact fallback_valid h

theorem twoV_false {A : PA} (h : twoV A = false) : ∃ i, i < A.length ∧ pget A i = none := by
  unfold twoV at h
  rw [List.all_eq_false] at h
  obtain ⟨x, hx, hn⟩ := h
  obtain ⟨i, hi, rfl⟩ := List.getElem_of_mem hx
  refine ⟨i, hi, ?_⟩
  unfold pget
  rw [List.getElem?_eq_getElem hi]
  cases hxi : A[i] with
  | none => rfl
  | some b => rw [hxi] at hn; simp at hn

theorem twoV_true {A : PA} (h : twoV A = true) : ∀ i, i < A.length → ∃ b, A[i]? = some (some b) := by
  intro i hi
  unfold twoV at h
  rw [List.all_eq_true] at h
  have := h A[i] (List.getElem_mem hi)
  rw [List.getElem?_eq_getElem hi]
  cases hx : A[i] with
  | none => rw [hx] at this; simp at this
  | some b => exact ⟨b, rfl⟩

theorem fallback_total {V : List BoolFn} (h : twoV (cv V) = false) : (fallback V).isSome = true := by
  obtain ⟨i, hi, hn⟩ := twoV_false h
  unfold fallback
  rw [Option.isSome_map]
  rw [List.find?_isSome]
  refine ⟨i, List.mem_range.mpr (by simpa [cv] using hi), by simp [hn]⟩

theorem heuO_total {raw : Nat → Option (Nat × Bool)} {k : Nat} {V : List BoolFn} (h : twoV (cv V) = false) :
    (heuO raw k V).isSome = true := by
  unfold heuO
  split
  · rename_i v' b' _
    by_cases c : pget (cv V) v' = none ∧ v' < V.length
    · rw [if_pos c]; rfl
    · rw [if_neg c]; exact fallback_total h
  · exact fallback_total h

/-! ### shape laws -/

theorem cv_length (V : List BoolFn) : (cv V).length = V.length := by simp [cv]

theorem cv_setF {V : List BoolFn} {v : Nat} (b : Bool) (hv : v < V.length) :
    cv (setF V v b) = setAt (cv V) v b := by
  unfold setF setAt
  rw [if_pos (by rw [cv_length]; exact hv)]
  simp [cv, List.map_set, constOf_const]

theorem stored_addNg {n : Nat} {bs : List (List PA)} (hi : NgInv n bs) {g : PA} (hg : g.length = n) (x : PA) :
    Stored (addNg bs g) x ↔ (x = g ∨ Stored bs x) := by
  have hsz : size g < bs.length := by
    have := size_le_of_length hg
    rw [hi.len]; omega
  constructor
  · rintro ⟨k, b', hk, hb'⟩
    unfold addNg at hk
    obtain ⟨b, hb, rfl⟩ := getElem?_mapIdx_some.mp hk
    by_cases c : (k == size g) = true
    · rw [if_pos c] at hb'
      by_cases c2 : b.contains g = true
      · rw [if_pos c2] at hb'; exact Or.inr ⟨k, b, hb, hb'⟩
      · rw [if_neg c2] at hb'
        rcases List.mem_append.mp hb' with h | h
        · exact Or.inr ⟨k, b, hb, h⟩
        · exact Or.inl (List.mem_singleton.mp h)
    · rw [if_neg c] at hb'; exact Or.inr ⟨k, b, hb, hb'⟩
  · rintro (rfl | ⟨k, b, hb, hx⟩)
    · obtain ⟨b, hb⟩ : ∃ b, bs[size x]? = some b := ⟨_, List.getElem?_eq_getElem hsz⟩
      refine ⟨size x, _, getElem?_mapIdx_some.mpr ⟨b, hb, rfl⟩, ?_⟩
      simp only [beq_self_eq_true, if_true]
      by_cases c2 : b.contains x = true
      · rw [if_pos c2]; exact List.contains_iff_mem.mp c2
      · rw [if_neg c2]; simp
    · refine ⟨k, _, getElem?_mapIdx_some.mpr ⟨b, hb, rfl⟩, ?_⟩
      by_cases c : (k == size g) = true
      · rw [if_pos c]
        by_cases c2 : b.contains g = true
        · rw [if_pos c2]; exact hx
        · rw [if_neg c2]; exact List.mem_append_left _ hx
      · rw [if_neg c]; exact hx

theorem ngInv_addNg {n : Nat} {bs : List (List PA)} (hi : NgInv n bs) {g : PA} (hg : g.length = n) :
    NgInv n (addNg bs g) :=
  NgStore.addNg_inv ⟨bs, .equiv⟩ g hi hg

theorem avoidsAll_of_stored {bs : List (List PA)} {σ : Asg} (h : ∀ g, Stored bs g → ¬ Matches g σ) :
    AvoidsAll bs σ := fun b hb g hg => h g (stored_iff_mem.mpr ⟨b, hb, hg⟩)

/-! ### `updF` -/

theorem updF_length (V : List BoolFn) (R : PA) : (updF V R).length = V.length := by simp [updF]

theorem updF_get {V : List BoolFn} {R : PA} {i : Nat} (hi : i < V.length) :
    (updF V R)[i]? = some (match pget R i with | some b => fun _ => b | none => V[i]) := by
  unfold updF
  rw [List.getElem?_map, List.getElem?_range hi]
  simp only [Option.map_some]
  congr 1
  cases pget R i with
  | some b => rfl
  | none => simp [List.getD_eq_getElem?_getD, List.getElem?_eq_getElem hi]

theorem cv_updF {V : List BoolFn} {R : PA} (hl : R.length = V.length) (hs : PSub (cv V) R) : cv (updF V R) = R := by
  apply list_ext_pget (by rw [cv_length, updF_length, hl])
  intro i hi
  rw [cv_length, updF_length] at hi
  have hg : (cv (updF V R))[i]? = some (constOf (match pget R i with | some b => fun _ => b | none => V[i])) := by
    rw [cv_get, updF_get hi]; rfl
  rw [pget_of_get hg]
  cases hr : pget R i with
  | some b => simp only; exact constOf_const b
  | none =>
    simp only
    cases hc : constOf V[i] with
    | none => rfl
    | some c =>
      have : pget (cv V) i = some c := by
        rw [pget_cv_some]; exact ⟨V[i], List.getElem?_eq_getElem hi, constOf_some.mp hc⟩
      rw [hs i c this] at hr; cases hr

/-! ### semantic facts about the propagation step -/

theorem psub_round (V : List BoolFn) : PSub (cv V) (cv (semRound V)) := psub_iff_le3.mpr (cv_le_round V)

theorem semRound_length (V : List BoolFn) : (semRound V).length = V.length := by simp [semRound]

theorem semRound_idem {V : List BoolFn} (h : cv (semRound V) = cv V) : semRound (semRound V) = semRound V := by
  apply List.ext_getElem?
  intro i
  rw [semRound_get (semRound V) i, semRound_get V i]
  cases hv : V[i]? with
  | none => rfl
  | some f =>
    simp only [Option.map_some, Option.some.injEq]
    funext σ
    rw [h, over_of_agree (agree_over σ (cv V))]

variable {D : List BoolFn} {n : Nat} {stable : Bool}

theorem okV_round {V : List BoolFn} (h : OkV D n stable V) : OkV D n stable (semRound V) := by
  refine ⟨by rw [semRound_length]; exact h.1, ?_⟩
  intro σ hT hm i f' hf'
  have hm0 : Matches (cv V) σ := fun j b hj => hm j b (psub_round V j b hj)
  rw [semRound_get] at hf'
  cases hv : V[i]? with
  | none => rw [hv] at hf'; cases hf'
  | some f =>
    rw [hv] at hf'
    simp only [Option.map_some, Option.some.injEq] at hf'
    subst hf'
    simp only [over_matches hm0]
    exact h.2 σ hT hm0 i f hv

theorem round_sound {V : List BoolFn} (h : OkV D n stable V) {σ : Asg} (hT : Target D n stable σ)
    (hm : Matches (cv V) σ) : Matches (cv (semRound V)) σ := by
  intro i b hi
  obtain ⟨f', hf', hc⟩ := pget_cv_some.mp hi
  rw [semRound_get] at hf'
  cases hv : V[i]? with
  | none => rw [hv] at hf'; cases hf'
  | some f =>
    rw [hv] at hf'
    simp only [Option.map_some, Option.some.injEq] at hf'
    subst hf'
    have := hc σ
    simp only [over_matches hm] at this
    rw [← h.2 σ hT hm i f hv]; exact this

theorem size_round_lt {V : List BoolFn} (h : cv (semRound V) ≠ cv V) : size (cv V) < size (cv (semRound V)) := by
  have hl : (cv V).length = (cv (semRound V)).length := by rw [cv_length, cv_length, semRound_length]
  have hm := countSome_mono _ _ hl (cv_le_round V)
  rcases Nat.lt_or_ge (countSome (cv V)) (countSome (cv (semRound V))) with c | c
  · exact c
  · exact absurd (eq_of_le_count _ _ hl (cv_le_round V) (by omega)) h

theorem okV_setF {V : List BoolFn} (h : OkV D n stable V) {v : Nat} {b : Bool} (hn : pget (cv V) v = none)
    (hv : v < V.length) : OkV D n stable (setF V v b) := by
  refine ⟨by simp [setF, h.1], ?_⟩
  intro σ hT hm i f hf
  rw [cv_setF b hv] at hm
  have hm0 : Matches (cv V) σ := matches_of_setAt hn hm
  have hσv : σ v = b := hm v b (by rw [pget_setAt]; simp)
  unfold setF at hf
  by_cases e : i = v
  · subst e
    rw [List.getElem?_set_self hv] at hf
    cases hf; exact hσv.symm
  · rw [List.getElem?_set_ne (Ne.symm e)] at hf
    exact h.2 σ hT hm0 i f hf

theorem okV_updF {V : List BoolFn} (h : OkV D n stable V) {R : PA} (hl : R.length = V.length)
    (hs : PSub (cv V) R) : OkV D n stable (updF V R) := by
  refine ⟨by rw [updF_length]; exact h.1, ?_⟩
  intro σ hT hm i f hf
  rw [cv_updF hl hs] at hm
  have hm0 : Matches (cv V) σ := fun j b hj => hm j b (hs j b hj)
  have hi : i < V.length := by
    rcases Nat.lt_or_ge i V.length with c | c
    · exact c
    · rw [List.getElem?_eq_none (by rw [updF_length]; exact c)] at hf; cases hf
  rw [updF_get hi] at hf
  cases hr : pget R i with
  | some b =>
    rw [hr] at hf; simp only [Option.some.injEq] at hf
    subst hf
    exact (hm i b hr).symm
  | none =>
    rw [hr] at hf; simp only [Option.some.injEq] at hf
    subst hf
    exact h.2 σ hT hm0 i V[i] (List.getElem?_eq_getElem hi)

/-! ### the consistency test and the leaf test -/

theorem acInc_sound (hD : D.length = n) {A : PA} (h : acInc D A = true) {σ : Asg} (hT : Target D n stable σ) :
    ¬ Matches A σ := by
  intro hm
  obtain ⟨i, b, c, hb, hc, hne⟩ := acInc_true_iff.mp h
  have hg := pget_eq_some.mp hc
  simp only [Gam, List.getElem?_map] at hg
  cases hf : D[i]? with
  | none => rw [hf] at hg; cases hg
  | some f =>
    rw [hf] at hg
    simp only [Option.map_some, Option.some.injEq] at hg
    have h1 := constOf_some.mp hg σ
    simp only [over_matches hm] at h1
    have h2 := target_model hD hT hf
    have h3 := hm i b hb
    apply hne
    rw [← h3, ← h2, h1]

/-- a total interpretation of width `n` overrides everything a condition with support `< n` sees -/
theorem over_total_supp {A : PA} {f : BoolFn} (hA : A.length = n) (htv : twoV A = true) (hf : Supp n f) (τ τ' : Asg) :
    f (over τ 0 A) = f (over τ' 0 A) := by
  apply hf
  intro i hi
  obtain ⟨b, hb⟩ := twoV_true htv i (by rw [hA]; exact hi)
  have h1 := agree_over τ A i b hb
  have h2 := agree_over τ' A i b hb
  rw [h1, h2]

theorem vOf_of_matches {A : PA} (hA : A.length = n) (htv : twoV A = true) {σ : Asg} (hm : Matches A σ) :
    vOf n σ = A := by
  apply List.ext_getElem?
  intro i
  rcases Nat.lt_or_ge i n with hi | hi
  · obtain ⟨b, hb⟩ := twoV_true htv i (by rw [hA]; exact hi)
    rw [vOf_get hi, hb, hm i b (pget_eq_some.mpr hb)]
  · rw [List.getElem?_eq_none (by rw [vOf_length]; exact hi), List.getElem?_eq_none (by rw [hA]; exact hi)]

/-- on a total interpretation without a contradicted value, `Γ` reproduces the interpretation -/
theorem gam_fix_of_leaf (hD : D.length = n) (hS : ∀ f ∈ D, Supp n f) {A : PA} (hA : A.length = n)
    (htv : twoV A = true) (hac : acInc D A = false) : Gam D A = A := by
  apply List.ext_getElem?
  intro i
  rcases Nat.lt_or_ge i n with hi | hi
  · obtain ⟨b, hb⟩ := twoV_true htv i (by rw [hA]; exact hi)
    have hf : D[i]? = some D[i] := List.getElem?_eq_getElem (by rw [hD]; exact hi)
    rw [Gam_get D A i _ hf, hb]
    congr 1
    have hconst : constOf (fun τ => D[i] (over τ 0 A)) = some (D[i] (over (fun _ => false) 0 A)) :=
      constOf_some.mpr (fun τ => over_total_supp hA htv (hS _ (List.getElem_mem _)) τ _)
    rw [hconst]
    congr 1
    false_or_by_contra
    rename_i hne
    apply acInc_false_iff.mp hac
    refine ⟨i, b, _, pget_eq_some.mpr hb, ?_, fun e => hne e.symm⟩
    rw [pget_eq_some, Gam_get D A i _ hf, hconst]
  · rw [List.getElem?_eq_none (by rw [Gam_length, hD]; exact hi), List.getElem?_eq_none (by rw [hA]; exact hi)]

/-- the least fixpoint of any list of conditions exists -/
theorem lfp_exists (D' : List BoolFn) : ∃ w, IsLfp D' w :=
  ⟨_, grounded_sem D' (D'.length + 1) (Nat.lt_succ_self _)⟩

/-- at a leaf (total interpretation, no contradicted value) the leaf test decides membership in the
target set. In two-valued mode this needs the conditions to depend on the statements only (a
condition that still depends on a foreign variable under a total interpretation is not noticed by
the consistency test); in stable mode the stability test re-derives every value, so nothing is needed -/
theorem leaf_iff (hD : D.length = n) (hS : stable = false → ∀ f ∈ D, Supp n f) {A : PA} (hA : A.length = n)
    (htv : twoV A = true) (hac : acInc D A = false) {σ : Asg} (hm : Matches A σ) :
    Target D n stable σ ↔ isTgt D stable A = true := by
  have hv := vOf_of_matches hA htv hm
  rw [isTgt_true_iff]
  unfold Target
  rw [hv]
  cases hst : stable with
  | false =>
    have hfix := gam_fix_of_leaf hD (hS hst) hA htv hac
    exact ⟨fun h => h.2, fun h => ⟨hfix, h⟩⟩
  | true =>
    refine ⟨fun h => h.2, fun h => ⟨?_, h⟩⟩
    obtain ⟨w0, hw0⟩ := lfp_exists (redu D A)
    have e := h rfl w0 hw0
    rw [← Gam_redu_total]
    have := hw0.1
    rw [e] at this
    exact this

/-! ### the laws -/

theorem setAt_length_ge (H : PA) (v : Nat) (b : Bool) (hv : ¬ v < H.length) : (setAt H v b).length = v + 1 := by
  unfold setAt; rw [if_neg hv]; simp; omega

theorem closure_psub_len {bs : List (List PA)} {A R : PA} (h : conclusionClosure bs A = Closure.update R) :
    R.length = A.length ∧ PSub A R ∧ size A < size R :=
  ⟨closure_length h, (closure_upd_sub bs A R h).1, (closure_upd_sub bs A R h).2⟩

theorem flip_law {bs : List (List PA)} (hi : NgInv n bs) {H : PA} {v : Nat} {b : Bool} (hH : H.length = n)
    (hC : (setAt H v b).length = n) (hn : pget H v = none) (hmem : Stored bs (setAt H v b))
    (hcls : ∀ g, Stored bs g → Closed g H ∨ PSub (setAt H v b) g) :
    ∃ R, conclusionClosure bs H = Closure.update R ∧ pget R v = some (!b) := by
  have hv : v < n := by
    rcases Nat.lt_or_ge v H.length with c | c
    · rw [← hH]; exact c
    · have := setAt_length_ge H v b (by omega); omega
  have hpre : FlipPre n bs.flatten H v b := by
    refine ⟨hH, hv, hn, ?_, ?_, ?_⟩
    · intro g hg
      obtain ⟨bk, hb, hgb⟩ := List.mem_flatten.mp hg
      exact hi.lengths bk hb g hgb
    · obtain ⟨bk, hb, hgb⟩ := stored_iff_mem.mp hmem
      exact List.mem_flatten.mpr ⟨bk, hb, hgb⟩
    · intro g hg
      obtain ⟨bk, hb, hgb⟩ := List.mem_flatten.mp hg
      exact hcls g (stored_iff_mem.mpr ⟨bk, hb, hgb⟩)
  refine ⟨setAt H v (!b), closure_flip_inv hi hpre ?_ hmem, by rw [pget_setAt]; simp⟩
  intro g hg
  obtain ⟨bk, hb, hgb⟩ := stored_iff_mem.mp hg
  exact List.mem_flatten.mpr ⟨bk, hb, hgb⟩

theorem size_lt_of_none {g : PA} {i : Nat} (hi : i < g.length) (hn : pget g i = none) : size g < g.length := by
  have h1 := size_setAt g i true hi hn
  have h2 := size_le_length (setAt g i true)
  rw [setAt_length g i true hi] at h2
  omega

theorem law_ok_upd {st : List (List PA)} {X : List BoolFn} {R : PA} (h : OkV D n stable X)
    (hc : conclusionClosure st (cv X) = Closure.update R) : OkV D n stable (updF X R) := by
  have ⟨a, b, _⟩ := closure_psub_len hc
  exact okV_updF h (by rw [a, cv_length]) b

theorem law_dec_upd {st : List (List PA)} {X : List BoolFn} {R : PA}
    (hc : conclusionClosure st (cv X) = Closure.update R) : cv (updF X R) = R := by
  have ⟨a, b, _⟩ := closure_psub_len hc
  exact cv_updF (by rw [a, cv_length]) b

theorem law_okg {X : List BoolFn} (h : OkV D n stable X) : (cv X).length = n := by
  rw [cv_length]; exact h.1

theorem law_leaf_pos (hD : D.length = n) (hS : stable = false → ∀ f ∈ D, Supp n f) {X : List BoolFn} (h : OkV D n stable X)
    (htv : twoV (cv X) = true) (hac : acInc D (cv X) = false) (hit : isTgt D stable (cv X) = true)
    (σ : Asg) (hm : Matches (cv X) σ) : Target D n stable σ :=
  (leaf_iff hD hS (law_okg h) htv hac hm).mpr hit

theorem law_leaf_neg (hD : D.length = n) (hS : stable = false → ∀ f ∈ D, Supp n f) {X : List BoolFn} (h : OkV D n stable X)
    (htv : twoV (cv X) = true) (hac : acInc D (cv X) = false) (hit : isTgt D stable (cv X) = false)
    (σ : Asg) (hm : Matches (cv X) σ) : ¬ Target D n stable σ := by
  intro hT
  have := (leaf_iff hD hS (law_okg h) htv hac hm).mp hT
  rw [hit] at this; cases this

theorem law_cl_no {st : List (List PA)} {A : PA} (hs : NgInv n st) (hA : A.length = n)
    (hc : conclusionClosure st A = Closure.noUpdate) : ∀ g, Stored st g → g ≠ A := by
  intro g hg e
  subst e
  have := closure_direct_inv hs hg (PSub.refl _) hA
  rw [this] at hc; cases hc

theorem law_heu_valid {raw : Nat → Option (Nat × Bool)} {k : Nat} {X : List BoolFn} {v : Nat} {b : Bool}
    (hh : heuO raw k X = some (v, b)) : pget (cv X) v = none ∧ size (cv X) < size (setAt (cv X) v b) := by
  have ⟨h1, h2⟩ := heuO_valid hh
  refine ⟨h1, ?_⟩
  have := size_setAt (cv X) v b (by rw [cv_length]; exact h2) h1
  omega

theorem law_heu_total {raw : Nat → Option (Nat × Bool)} {k : Nat} {X : List BoolFn} (h : OkV D n stable X)
    (htv : twoV (cv X) = false) : (heuO raw k X).isSome = true ∧ size (cv X) < n := by
  refine ⟨heuO_total htv, ?_⟩
  obtain ⟨i, hi, hn⟩ := twoV_false htv
  have := size_lt_of_none hi hn
  have hl : (cv X).length = n := law_okg h
  omega

theorem law_mu_le {A : PA} (hA : A.length = n) : size A ≤ n := by
  have := size_le_length A; omega

theorem sem_sound (hD : D.length = n) (hS : stable = false → ∀ f ∈ D, Supp n f) (raw : Nat → Option (Nat × Bool)) :
    GSound (Target D n stable) (semP D n stable raw) where
  ok_gam := fun _ h => okV_round h
  ok_set := fun _ _ _ _ h hh => okV_setF h (heuO_valid hh).1 (heuO_valid hh).2
  ok_upd := fun _ _ _ _ h hc => law_ok_upd h hc
  dec_set := fun _ _ _ b _ hh => cv_setF b (heuO_valid hh).2
  dec_upd := fun _ _ _ _ _ hc => law_dec_upd hc
  okg := fun _ h => law_okg h
  oks_add := fun _ _ hs hg => ngInv_addNg hs hg
  mem_add := fun _ _ x hs hg => stored_addNg hs hg x
  gam_sound := fun _ _ h hT hm => round_sound h hT hm
  ac_sound := fun _ _ hac _ hT => acInc_sound hD hac hT
  leaf_pos := fun _ h htv hac hit σ hm => law_leaf_pos hD hS h htv hac hit σ hm
  leaf_neg := fun _ h htv hac hit σ hm => law_leaf_neg hD hS h htv hac hit σ hm
  heu_valid := fun _ _ _ _ _ hh => (heuO_valid hh).1
  heu_total := fun _ _ _ htv => heuO_total htv
  cl_upd := fun st A R _ _ hc σ hm ha => (closure_sound_gen st A σ hm (avoidsAll_of_stored ha)).1 R hc
  cl_inc := fun st A _ _ hc σ hm ha => (closure_sound_gen st A σ hm (avoidsAll_of_stored ha)).2 hc
  cl_no := fun _ _ hs hA hc => law_cl_no hs hA hc

theorem sem_live (raw : Nat → Option (Nat × Bool)) : GLive (semP D n stable raw) n size where
  ok_gam := fun _ h => okV_round h
  ok_set := fun _ _ _ _ h hh => okV_setF h (heuO_valid hh).1 (heuO_valid hh).2
  ok_upd := fun _ _ _ _ h hc => law_ok_upd h hc
  dec_set := fun _ _ _ b _ hh => cv_setF b (heuO_valid hh).2
  dec_upd := fun _ _ _ _ _ hc => law_dec_upd hc
  okg := fun _ h => law_okg h
  oks_add := fun _ _ hs hg => ngInv_addNg hs hg
  mem_add := fun _ _ x hs hg => stored_addNg hs hg x
  heu_valid := fun _ _ _ _ _ hh => law_heu_valid hh
  heu_total := fun _ _ h htv => law_heu_total h htv
  gam_sub := fun X _ => psub_round X
  gam_grow := fun _ _ hne => size_round_lt hne
  gam_idem := fun _ _ h => semRound_idem h
  upd_sub := fun st A R _ _ hc => closure_upd_sub st A R hc
  mu_le := fun _ hA => law_mu_le hA
  cl_flip := fun _ _ _ _ hs hH hC hn hmem hcls => flip_law hs hH hC hn hmem hcls
  cl_direct := fun _ _ hs hA ⟨_, hg, hp⟩ => closure_direct_inv hs hg hp hA

/-! ### the abstract machine with the concrete closure and the concrete semantics: exact and halting -/

def initSt (V0 : List BoolFn) (n : Nat) : St (List BoolFn) (List (List PA)) :=
  { cur := V0, store := List.replicate (n + 1) [], stack := [], backtrack := false, choice := false, out := [] }

theorem replicate_inv (n : Nat) : NgInv n (List.replicate (n + 1) ([] : List PA)) := NgStore.new_inv n

theorem replicate_not_stored (n : Nat) (x : PA) : ¬ Stored (List.replicate (n + 1) ([] : List PA)) x :=
  NgStore.new_not_stored n x

/-- safety of the semantic machine: whenever it halts it has emitted exactly the target models -/
theorem sem_exact (hD : D.length = n) (hS : stable = false → ∀ f ∈ D, Supp n f) (raw : Nat → Option (Nat × Bool))
    (V0 : List BoolFn) (hok : OkV D n stable V0) (hg : ∀ σ, Target D n stable σ → Matches (cv V0) σ)
    (fuel : Nat) (s' : St (List BoolFn) (List (List PA)))
    (hr : run (semP D n stable raw) 0 fuel (initSt V0 n) = some s') :
    (∀ σ, Target D n stable σ → ∃ o ∈ s'.out, Matches o σ) ∧
    (∀ o ∈ s'.out, ∀ σ, Matches o σ → Target D n stable σ) ∧ s'.out.Nodup ∧
    (∀ o ∈ s'.out, twoV o = true ∧ o.length = n) :=
  run_exact (sem_sound hD hS raw) fuel 0 _ s'
    (inv_init (P := semP D n stable raw) V0 _ hg hok (replicate_inv n) (replicate_not_stored n)) hr

/-- liveness of the semantic machine -/
theorem sem_halts (raw : Nat → Option (Nat × Bool)) (V0 : List BoolFn) (hok : OkV D n stable V0) :
    ∃ fuel s', run (semP D n stable raw) 0 fuel (initSt V0 n) = some s' :=
  halts (sem_live raw) V0 _ hok (replicate_inv n) (replicate_not_stored n) 0

end NSem
#print axioms NSem.sem_exact
#print axioms NSem.sem_halts
