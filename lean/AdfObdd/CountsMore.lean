import AdfObdd.Counts
import AdfObdd.PathsDepth
/-! C13, remaining counting clauses: `cmodels + models = 2^depth`, and the counter-model count
    stands in the exact ratio of the falsifying assignments. -/

theorem total_arith (cl ml ch mh dl dh D : Nat) (h1 : cl + ml = 2 ^ dl) (h2 : ch + mh = 2 ^ dh)
    (hl : dl ≤ D) (hh : dh ≤ D) :
    (cl * 2 ^ (D - dl) + ch * 2 ^ (D - dh)) + (ml * 2 ^ (D - dl) + mh * 2 ^ (D - dh)) = 2 ^ (D + 1) := by
  have e1 : 2 ^ D = 2 ^ dl * 2 ^ (D - dl) := by rw [← Nat.pow_add]; congr 1; omega
  have e2 : 2 ^ D = 2 ^ dh * 2 ^ (D - dh) := by rw [← Nat.pow_add]; congr 1; omega
  calc (cl * 2 ^ (D - dl) + ch * 2 ^ (D - dh)) + (ml * 2 ^ (D - dl) + mh * 2 ^ (D - dh))
      = (cl + ml) * 2 ^ (D - dl) + (ch + mh) * 2 ^ (D - dh) := by ring
    _ = 2 ^ dl * 2 ^ (D - dl) + 2 ^ dh * 2 ^ (D - dh) := by rw [h1, h2]
    _ = 2 ^ D + 2 ^ D := by rw [← e1, ← e2]
    _ = 2 ^ (D + 1) := by ring

/-- counter-models and models of `modelcount_naive` add up to `2^depth` -/
theorem counts_total_fuel (s : Store) (h : TableWF s.nodes) : ∀ (fuel t : Nat), t < s.nodes.size → t < fuel →
    (countF s fuel t).1 + (countF s fuel t).2.1 = 2 ^ (countF s fuel t).2.2 := by
  intro fuel
  induction fuel with
  | zero => intro t _ h; omega
  | succ f ih =>
    intro t ht hf
    by_cases h1 : t = 1
    · subst h1; rw [countF_one]; rfl
    by_cases h0 : t = 0
    · subst h0; rw [countF_zero]; rfl
    obtain ⟨n, hn⟩ := get_of_lt ht
    have ⟨_, hlo, hhi, _, _, _⟩ := h.inner t n (by omega) hn
    rw [countF_node s f t n (by omega) hn]
    simp only
    exact total_arith _ _ _ _ _ _ _ (ih n.lo (by omega) (by omega)) (ih n.hi (by omega) (by omega))
      (Nat.le_max_left _ _) (Nat.le_max_right _ _)

/-- satisfying plus falsifying assignments are all assignments -/
theorem sat_compl (f : Asg → Bool) : ∀ (vs : List Nat) (base : Asg),
    sat f base vs + sat (fun σ => !f σ) base vs = 2 ^ vs.length := by
  intro vs
  induction vs with
  | nil =>
    intro base
    simp only [sat]
    by_cases hb : f base = true <;> simp [hb]
  | cons v vs ih =>
    intro base
    simp only [sat, List.length_cons, Nat.pow_succ]
    have a := ih (upd base v true)
    have b := ih (upd base v false)
    omega

/-- C13, counter-model clause -/
theorem cmodels_ratio (s : Store) (w : WF s) (fuel t : Nat) (ht : t < s.nodes.size) (hf : t < fuel)
    (vs : List Nat) (hvs : vs.Pairwise (· < ·)) (hdeps : ∀ x ∈ depsF s fuel t, x ∈ vs) (base : Asg) :
    (countF s fuel t).1 * 2 ^ vs.length =
      sat (fun σ => !eval s t σ) base vs * 2 ^ (countF s fuel t).2.2 := by
  have hm := models_ratio s w fuel t ht hf vs hvs hdeps base
  have ht' := counts_total_fuel s w.table fuel t ht hf
  have hc := sat_compl (eval s t) vs base
  have e1 : ((countF s fuel t).1 + (countF s fuel t).2.1) * 2 ^ vs.length
      = 2 ^ (countF s fuel t).2.2 * 2 ^ vs.length := by rw [ht']
  have e2 : (sat (eval s t) base vs + sat (fun σ => !eval s t σ) base vs) * 2 ^ (countF s fuel t).2.2
      = 2 ^ vs.length * 2 ^ (countF s fuel t).2.2 := by rw [hc]
  rw [Nat.add_mul] at e1 e2
  rw [Nat.mul_comm (2 ^ vs.length) (2 ^ (countF s fuel t).2.2)] at e2
  omega

/-- a diagram's function looks at the listed variables only -/
theorem eval_agree_on_deps (s : Store) (h : TableWF s.nodes) : ∀ (t : Nat), t < s.nodes.size →
    ∀ σ σ' : Asg, (∀ x ∈ depsF s (t+1) t, σ x = σ' x) → eval s t σ = eval s t σ' := by
  intro t
  induction t using Nat.strongRecOn with
  | _ t ih =>
    intro ht σ σ' hag
    by_cases h2 : t < 2
    · have h01 : t = 0 ∨ t = 1 := by omega
      rcases h01 with h0 | h0 <;> subst h0 <;> simp [eval_zero, eval_one]
    obtain ⟨n, hn⟩ := get_of_lt ht
    have ⟨_, hlo, hhi, _, _, _⟩ := h.inner t n (by omega) hn
    have hd : depsF s (t+1) t = n.var :: (depsF s (n.lo+1) n.lo ++ depsF s (n.hi+1) n.hi) := by
      conv => lhs; unfold depsF
      rw [if_neg h2]
      simp only [hn]
      rw [depsF_fuel s h n.lo t hlo, depsF_fuel s h n.hi t hhi]
    rw [hd] at hag
    rw [Tab.eval_node s h t n (by omega) hn, Tab.eval_node s h t n (by omega) hn,
        hag n.var (List.mem_cons_self ..),
        ih n.hi hhi (by omega) σ σ' (fun x hx => hag x (List.mem_cons_of_mem _ (List.mem_append_right _ hx))),
        ih n.lo hlo (by omega) σ σ' (fun x hx => hag x (List.mem_cons_of_mem _ (List.mem_append_left _ hx)))]

#print axioms counts_total_fuel
#print axioms cmodels_ratio
