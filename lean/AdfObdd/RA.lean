import AdfObdd.Base
/-! prototype 3: generic restriction algebra + grounded loop = least fixpoint -/

structure RA (S T : Type) where
  Inv : S → Prop
  Valid : S → T → Prop
  den : S → T → BoolFn
  Le : S → S → Prop
  le_refl : ∀ s, Le s s
  le_trans : ∀ {a b c}, Le a b → Le b c → Le a c
  valid_mono : ∀ {s s' t}, Le s s' → Valid s t → Valid s' t
  den_mono : ∀ {s s' t}, Inv s → Le s s' → Valid s t → den s' t = den s t
  restrict : S → T → Nat → Bool → S × T
  restrict_spec : ∀ {s t} v b, Inv s → Valid s t →
      Inv (restrict s t v b).1 ∧ Le s (restrict s t v b).1 ∧ Valid (restrict s t v b).1 (restrict s t v b).2 ∧
      den (restrict s t v b).1 (restrict s t v b).2 = fun σ => den s t (upd σ v b)
  isConst : T → Option Bool
  isConst_spec : ∀ {s t} b, Inv s → Valid s t → (isConst t = some b ↔ ∀ σ, den s t σ = b)

variable {S T : Type} (A : RA S T)

/-- three valued interpretation read off a vector of terms -/
def asg3 (v : List T) : List (Option Bool) := v.map A.isConst

/-- override σ by the decided part of `w`, positions `k, k+1, …` of the statement numbering -/
def over (σ : Asg) : Nat → List (Option Bool) → Asg
  | _, [] => σ
  | k, none :: w => over σ (k+1) w
  | k, some b :: w => over (upd σ k b) (k+1) w

/-- `fold` of the Rust code: restrict `t` by every decided entry of `curr` (positions from `k`) -/
def restrictBy (s : S) (t : T) : Nat → List T → S × T
  | _, [] => (s, t)
  | k, c :: cs =>
    match A.isConst c with
    | some b => let r := A.restrict s t k b; restrictBy r.1 r.2 (k+1) cs
    | none => restrictBy s t (k+1) cs

theorem upd_comm (σ : Asg) {k j : Nat} (h : k ≠ j) (b c : Bool) :
    upd (upd σ k b) j c = upd (upd σ j c) k b := by
  funext x; simp only [upd]; split <;> split <;> first | rfl | omega

theorem over_upd : ∀ (w : List (Option Bool)) (σ : Asg) (k j : Nat) (b : Bool), k < j →
    over (upd σ k b) j w = upd (over σ j w) k b := by
  intro w
  induction w with
  | nil => intros; rfl
  | cons x w ih =>
    intro σ k j b h
    cases x with
    | none => simp only [over]; exact ih σ k (j+1) b (by omega)
    | some c =>
      simp only [over]
      rw [upd_comm σ (by omega : k ≠ j) b c]
      exact ih (upd σ j c) k (j+1) b (by omega)

theorem restrictBy_spec : ∀ (cs : List T) (k : Nat) (s : S) (t : T), A.Inv s → A.Valid s t →
    A.Inv (restrictBy A s t k cs).1 ∧ A.Le s (restrictBy A s t k cs).1 ∧
    A.Valid (restrictBy A s t k cs).1 (restrictBy A s t k cs).2 ∧
    A.den (restrictBy A s t k cs).1 (restrictBy A s t k cs).2 = fun σ => A.den s t (over σ k (asg3 A cs)) := by
  intro cs
  induction cs with
  | nil => intro k s t hi hv; exact ⟨hi, A.le_refl s, hv, rfl⟩
  | cons c cs ih =>
    intro k s t hi hv
    unfold restrictBy
    cases hc : A.isConst c with
    | none =>
      simp only
      have ⟨a, b, c', d⟩ := ih (k+1) s t hi hv
      refine ⟨a, b, c', ?_⟩
      rw [d]; funext σ; simp [asg3, over, hc]
    | some b =>
      simp only
      have ⟨i1, l1, v1, d1⟩ := A.restrict_spec k b hi hv
      have ⟨i2, l2, v2, d2⟩ := ih (k+1) _ _ i1 v1
      refine ⟨i2, A.le_trans l1 l2, v2, ?_⟩
      rw [d2, d1]; funext σ; simp only [asg3, List.map_cons, hc, over]
      rw [over_upd _ σ k (k+1) b (by omega)]

/-! ### semantic level -/
open Classical in
noncomputable def constOf (f : BoolFn) : Option Bool :=
  if ∀ σ, f σ = true then some true else if ∀ σ, f σ = false then some false else none

theorem constOf_some {f : BoolFn} {b : Bool} : constOf f = some b ↔ ∀ σ, f σ = b := by
  unfold constOf
  by_cases h1 : ∀ σ, f σ = true
  · rw [if_pos h1]
    constructor
    · intro h; cases h; exact h1
    · intro h; have h' := h (fun _ => true); rw [h1] at h'; rw [h']
  · rw [if_neg h1]
    by_cases h2 : ∀ σ, f σ = false
    · rw [if_pos h2]
      constructor
      · intro h; cases h; exact h2
      · intro h; have h' := h (fun _ => true); rw [h2] at h'; rw [h']
    · rw [if_neg h2]
      constructor
      · intro h; cases h
      · intro h; cases b
        · exact absurd h h2
        · exact absurd h h1

/-- semantic round on a vector of residual functions -/
noncomputable def semRound (V : List BoolFn) : List BoolFn :=
  V.map (fun f σ => f (over σ 0 (V.map constOf)))

def countSome (w : List (Option Bool)) : Nat := (w.filter Option.isSome).length

noncomputable def semLoop : Nat → List BoolFn → List BoolFn
  | 0, V => V
  | f+1, V => if countSome ((semRound V).map constOf) = countSome (V.map constOf) then semRound V
              else semLoop f (semRound V)

/-! ### generic state-passing round and loop -/
def roundAux (s : S) (curr : List T) : List T → S × List T
  | [] => (s, [])
  | x :: xs =>
    match A.isConst x with
    | some _ => let r := roundAux s curr xs; (r.1, x :: r.2)
    | none =>
      let r1 := restrictBy A s x 0 curr
      let r := roundAux r1.1 curr xs
      (r.1, r1.2 :: r.2)

def AllValid (s : S) (v : List T) : Prop := ∀ x ∈ v, A.Valid s x

theorem AllValid.mono {s s' : S} {v : List T} (h : AllValid A s v) (l : A.Le s s') : AllValid A s' v :=
  fun x hx => A.valid_mono l (h x hx)

theorem map_den_mono {s s' : S} {v : List T} (hi : A.Inv s) (l : A.Le s s') (h : AllValid A s v) :
    v.map (A.den s') = v.map (A.den s) := by
  apply List.map_congr_left
  intro x hx; exact A.den_mono hi l (h x hx)

theorem asg3_eq {s : S} {v : List T} (hi : A.Inv s) (h : AllValid A s v) :
    asg3 A v = (v.map (A.den s)).map constOf := by
  simp only [asg3, List.map_map]
  apply List.map_congr_left
  intro x hx
  simp only [Function.comp]
  cases hc : A.isConst x with
  | some b => exact ((constOf_some).mpr ((A.isConst_spec b hi (h x hx)).mp hc)).symm
  | none =>
    cases hd : constOf (A.den s x) with
    | none => rfl
    | some b =>
      have := (A.isConst_spec b hi (h x hx)).mpr (constOf_some.mp hd)
      rw [hc] at this; cases this

theorem roundAux_spec (curr : List T) : ∀ (xs : List T) (s : S), A.Inv s → AllValid A s curr → AllValid A s xs →
    A.Inv (roundAux A s curr xs).1 ∧ A.Le s (roundAux A s curr xs).1 ∧
    AllValid A (roundAux A s curr xs).1 (roundAux A s curr xs).2 ∧
    (roundAux A s curr xs).2.map (A.den (roundAux A s curr xs).1) =
      xs.map (fun x σ => A.den s x (over σ 0 (asg3 A curr))) := by
  intro xs
  induction xs with
  | nil => intro s hi _ _; exact ⟨hi, A.le_refl s, (fun _ h => by cases h), rfl⟩
  | cons x xs ih =>
    intro s hi hc hx
    have hxv : A.Valid s x := hx x (List.mem_cons_self ..)
    have hxs : AllValid A s xs := fun y hy => hx y (List.mem_cons_of_mem _ hy)
    unfold roundAux
    cases hcx : A.isConst x with
    | some b =>
      simp only
      have ⟨i1, l1, v1, d1⟩ := ih s hi hc hxs
      refine ⟨i1, l1, ?_, ?_⟩
      · intro y hy
        rcases List.mem_cons.mp hy with h | h
        · subst h; exact A.valid_mono l1 hxv
        · exact v1 y h
      · simp only [List.map_cons, d1]
        congr 1
        rw [A.den_mono hi l1 hxv]
        funext σ
        have := (A.isConst_spec b hi hxv).mp hcx
        rw [this, this]
    | none =>
      simp only
      have ⟨i0, l0, v0, d0⟩ := restrictBy_spec A curr 0 s x hi hxv
      have ⟨i1, l1, v1, d1⟩ := ih _ i0 (AllValid.mono A hc l0) (AllValid.mono A hxs l0)
      refine ⟨i1, A.le_trans l0 l1, ?_, ?_⟩
      · intro y hy
        rcases List.mem_cons.mp hy with h | h
        · subst h; exact A.valid_mono l1 v0
        · exact v1 y h
      · simp only [List.map_cons, d1]
        congr 1
        · rw [A.den_mono i0 l1 v0, d0]
        · apply List.map_congr_left
          intro y hy
          funext σ
          rw [A.den_mono hi l0 (hxs y hy)]

/-- the round commutes with denotation -/
theorem round_sem (s : S) (v : List T) (hi : A.Inv s) (hv : AllValid A s v) :
    A.Inv (roundAux A s v v).1 ∧ A.Le s (roundAux A s v v).1 ∧ AllValid A (roundAux A s v v).1 (roundAux A s v v).2 ∧
    (roundAux A s v v).2.map (A.den (roundAux A s v v).1) = semRound (v.map (A.den s)) := by
  have ⟨i1, l1, v1, d1⟩ := roundAux_spec A v v s hi hv hv
  refine ⟨i1, l1, v1, ?_⟩
  rw [d1, semRound, List.map_map, asg3_eq A hi hv]
  rfl
