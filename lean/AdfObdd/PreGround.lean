import AdfObdd.Stable
/-! prototype 38: pre-grounding (`hybrid_step`: replace every condition by its residual under the
    grounded interpretation `g`) does not change the fixpoints of Γ — hence not the grounded
    interpretation, the complete models or the two-valued models (C01/C02 hybrid pipelines) -/

/-- the conditions after substituting the decided part of `g` -/
def pre (D : List BoolFn) (g : I3) : List BoolFn := D.map (fun f σ => f (over σ 0 g))

theorem pre_get (D : List BoolFn) (g : I3) (i : Nat) (f : BoolFn) (h : D[i]? = some f) :
    (pre D g)[i]? = some (fun σ => f (over σ 0 g)) := by simp [pre, h]

/-- above `g` the two operators coincide -/
theorem Gam_pre_above (D : List BoolFn) (g w : I3) (l : Le3 g w) : Gam (pre D g) w = Gam D w := by
  apply List.ext_getElem?
  intro i
  cases hf : D[i]? with
  | none => simp [Gam, pre, hf]
  | some f =>
    rw [Gam_get _ _ _ _ (pre_get D g i f hf), Gam_get _ _ _ _ hf]
    congr 2
    funext σ
    have : Agree (over σ 0 w) g := (agree_over σ w).mono l
    rw [over_of_agree this]

/-- every decided value of `g` is forced under `g` itself -/
def SelfForced (D : List BoolFn) (g : I3) : Prop :=
  ∀ (i : Nat) (b : Bool) (f : BoolFn), g[i]? = some (some b) → D[i]? = some f → ∀ σ, f (over σ 0 g) = b

theorem selfForced_of_fix {D : List BoolFn} {g : I3} (h : Gam D g = g) : SelfForced D g := by
  intro i b f hg hf σ
  have := Gam_get D g i f hf
  rw [h, hg] at this
  simp only [Option.some.injEq] at this
  exact (constOf_some.mp this.symm) σ

/-- whatever the argument, the substituted operator decides what `g` decides -/
theorem Gam_pre_ge (D : List BoolFn) (g w : I3) (hl : g.length ≤ D.length) (sf : SelfForced D g) :
    Le3 g (Gam (pre D g) w) := by
  intro i b hg
  have hi : i < g.length := by
    rcases Nat.lt_or_ge i g.length with h | h
    · exact h
    · rw [List.getElem?_eq_none h] at hg; cases hg
  have hiD : i < D.length := by omega
  have hf : D[i]? = some D[i] := List.getElem?_eq_getElem hiD
  rw [Gam_get _ _ _ _ (pre_get D g i _ hf)]
  congr 1
  rw [constOf_some]
  intro σ
  exact sf i b _ hg hf (over σ 0 w)

/-- fixpoints of the substituted operator = fixpoints of the original one that lie above `g` -/
theorem pre_fix_iff (D : List BoolFn) (g w : I3) (hl : g.length ≤ D.length) (sf : SelfForced D g) :
    Gam (pre D g) w = w ↔ (Gam D w = w ∧ Le3 g w) := by
  constructor
  · intro h
    have l : Le3 g w := by have := Gam_pre_ge D g w hl sf; rwa [h] at this
    exact ⟨by rw [← Gam_pre_above D g w l]; exact h, l⟩
  · intro ⟨h, l⟩
    rw [Gam_pre_above D g w l]; exact h

/-- C01 (pre-grounded hybrid pipeline): the grounded interpretation is unchanged -/
theorem pre_lfp (D : List BoolFn) (g : I3) (h : IsLfp D g) : IsLfp (pre D g) g := by
  have hl : g.length ≤ D.length := by
    have := congrArg List.length h.1; rw [Gam_length] at this; omega
  have sf := selfForced_of_fix h.1
  refine ⟨(pre_fix_iff D g g hl sf).mpr ⟨h.1, fun _ _ x => x⟩, ?_⟩
  intro w' hw'
  exact ((pre_fix_iff D g w' hl sf).mp hw').2

/-- C02 (pre-grounded hybrid pipeline): exactly the same complete interpretations, hence the
same two-valued models -/
theorem pre_complete_iff (D : List BoolFn) (g w : I3) (h : IsLfp D g) :
    Gam (pre D g) w = w ↔ Gam D w = w := by
  have hl : g.length ≤ D.length := by
    have := congrArg List.length h.1; rw [Gam_length] at this; omega
  rw [pre_fix_iff D g w hl (selfForced_of_fix h.1)]
  exact ⟨fun x => x.1, fun x => ⟨x, h.2 w x⟩⟩
#print axioms pre_lfp
#print axioms pre_complete_iff
