import AdfObdd.Channel
/-! # Several searches on clones of one sender

The library's own test (`adf.rs`, `nogood_stable_channel…`, "multi-threaded usage") runs, in one thread,
```
adf.stable_nogood_channel(h1, s.clone());  adf.stable_nogood_channel(h2, s.clone());  adf.two_val_nogood_channel(h3, s)
```
while another thread loops `while let Ok(v) = r.recv()`.  `Chan.Cfg.closed` ("the sender was dropped" =
"the channel is disconnected") cannot express this: a search drops only the sender it was HANDED, and the
channel disconnects when the LAST sender is gone.

`MCfg` models it explicitly: `senders` = number of live `Sender` handles; the producer thread runs the
jobs `j₁, …, j_k` one after the other; each call is handed a clone of the thread's sender (`senders + 1`),
except the last call, which is handed the original; a search that returns drops the handle it was handed
(`senders - 1`, ghost `drops + 1`); the consumer's `recv` fails - its loop ends - iff the queue is empty and
`senders = 0`.  (The return of call `i` and call `i+1` are one producer step: nothing observable happens in
between.)

The model is proved to be, step by step, `Chan.run` of the COMPOSITE producer `comp` (the jobs run in
sequence, the outputs concatenated) with `closed = (senders = 0)`, so that every theorem of Channel.lean
transfers: for every capacity ≥ 1 or unbounded and every schedule the consumer receives a prefix of the
concatenation of the k results, its loop ends only after the LAST handle was dropped (not after the first
k-1 drops), then it has received exactly the concatenation, and every fair schedule ends it. -/
namespace Chan
variable {σ α : Type}

/-- one call: the loop, its start state, and the fact that it only appends to its output -/
structure Job (σ α : Type) where
  P : Producer σ α
  p : σ
  mono : Mono P

/-- the state of the producer thread: results of the searches that have returned, the running one, the
calls still to come -/
structure MState (σ α : Type) where
  pre : List α
  cur : Job σ α
  rest : List (Job σ α)

/-- the jobs in sequence as one producer -/
def comp : Producer (MState σ α) α where
  iter st :=
    if st.cur.P.done st.cur.p then
      match st.rest with
      | [] => st
      | j :: tl => { pre := st.pre ++ st.cur.P.out st.cur.p, cur := j, rest := tl }
    else { st with cur := { st.cur with p := st.cur.P.iter st.cur.p } }
  done st := st.cur.P.done st.cur.p && st.rest.isEmpty
  out st := st.pre ++ st.cur.P.out st.cur.p

theorem comp_mono : Mono (comp : Producer (MState σ α) α) := by
  intro st
  show st.pre ++ st.cur.P.out st.cur.p <+: (comp.iter st).pre ++ (comp.iter st).cur.P.out (comp.iter st).cur.p
  unfold comp
  simp only
  split
  · split
    · exact List.prefix_refl _
    · exact List.prefix_append _ _
  · exact (List.prefix_append_right_inj _).mpr (st.cur.mono st.cur.p)

/-! ## the explicit model with a sender count -/

structure MCfg (σ α : Type) where
  st : MState σ α
  running : Bool           -- the thread is inside one of the calls (false: the last call has returned)
  senders : Nat            -- live `Sender` handles
  drops : Nat              -- ghost: handles dropped so far
  iters : Nat
  sent : Nat
  buf : List α
  got : List α
  consDone : Bool
  log : List (ChEv α)      -- ghost: `send v` per message, `close` when the last handle is dropped

def mprodStep (cap : Option Nat) (c : MCfg σ α) : MCfg σ α :=
  if !c.running then c else
  match (comp.out c.st)[c.sent]? with
  | some v =>
    if full cap c.buf then c
    else { c with sent := c.sent + 1, buf := c.buf ++ [v], log := c.log ++ [ChEv.send v] }
  | none =>
    if c.st.cur.P.done c.st.cur.p then
      -- the running search returns and drops the handle it was handed
      match c.st.rest with
      | [] => { c with running := false, senders := c.senders - 1, drops := c.drops + 1, log := c.log ++ [ChEv.close] }
      | _ :: tl =>
        -- next call: handed a clone (`+ 1`), or - the last call - the original (count unchanged)
        { c with st := comp.iter c.st, iters := c.iters + 1, drops := c.drops + 1,
                 senders := c.senders - 1 + (if tl.isEmpty then 0 else 1) }
    else { c with st := comp.iter c.st, iters := c.iters + 1 }

def mconsStep (c : MCfg σ α) : MCfg σ α :=
  if c.consDone then c else
  match c.buf with
  | v :: rest => { c with buf := rest, got := c.got ++ [v] }
  | [] => if c.senders == 0 then { c with consDone := true } else c     -- `recv` fails: disconnected and empty

def mstep (cap : Option Nat) (c : MCfg σ α) : Ev → MCfg σ α
  | .prod => mprodStep cap c
  | .cons => mconsStep c

def mrun (cap : Option Nat) (sched : List Ev) (c : MCfg σ α) : MCfg σ α := sched.foldl (mstep cap) c

/-- the thread is about to run `j :: tl`: it owns the sender; the first call has been handed a clone (or, if it
is the only call, the original) -/
def minit (j : Job σ α) (tl : List (Job σ α)) : MCfg σ α :=
  { st := { pre := [], cur := j, rest := tl }, running := true, senders := if tl.isEmpty then 1 else 2, drops := 0,
    iters := 0, sent := 0, buf := [], got := [], consDone := false, log := [] }

/-- the view as a configuration of `Chan` over the composite producer: disconnected = no sender left -/
def proj (c : MCfg σ α) : Cfg (MState σ α) α :=
  { p := c.st, iters := c.iters, sent := c.sent, buf := c.buf, closed := !c.running, got := c.got,
    consDone := c.consDone, log := c.log }

/-- bookkeeping of handles: while a call is running the thread's original (unless handed to the last call)
and the handed one are alive; `total` = number of calls -/
structure CountInv (total : Nat) (c : MCfg σ α) : Prop where
  hs : c.senders = if c.running then (if c.st.rest.isEmpty then 1 else 2) else 0
  hd : c.drops + c.st.rest.length + (if c.running then 1 else 0) = total

theorem minit_count (j : Job σ α) (tl : List (Job σ α)) : CountInv (tl.length + 1) (minit j tl) :=
  ⟨rfl, by simp [minit]⟩

theorem comp_iter_rest_of_not_done (st : MState σ α) (h : st.cur.P.done st.cur.p = false) :
    (comp.iter st).rest = st.rest := by
  simp [comp, h]

theorem mprodStep_sim (cap : Option Nat) {total : Nat} (c : MCfg σ α) (h : CountInv total c) :
    proj (mprodStep cap c) = prodStep comp cap (proj c) ∧ CountInv total (mprodStep cap c) := by
  obtain ⟨st, running, senders, drops, iters, sent, buf, got, consDone, log⟩ := c
  obtain ⟨h1, h2⟩ := h
  simp only at h1 h2
  unfold mprodStep prodStep
  cases running with
  | false => exact ⟨by simp [proj], ⟨h1, h2⟩⟩
  | true =>
    simp only [Bool.not_true, Bool.false_eq_true, if_false, proj]
    cases hg : (comp.out st)[sent]? with
    | some v =>
      simp only
      by_cases hf : full cap buf = true
      · rw [if_pos hf, if_pos hf]; exact ⟨by simp, ⟨h1, h2⟩⟩
      · rw [if_neg hf, if_neg hf]; exact ⟨by simp, ⟨h1, h2⟩⟩
    | none =>
      simp only
      cases hdn : st.cur.P.done st.cur.p with
      | false =>
        have hcd : (comp.done st) = false := by simp [comp, hdn]
        simp only [Bool.false_eq_true, if_false, hcd]
        refine ⟨by simp, ⟨?_, ?_⟩⟩
        · simp only; rw [comp_iter_rest_of_not_done _ hdn]; exact h1
        · simp only; rw [comp_iter_rest_of_not_done _ hdn]; exact h2
      | true =>
        simp only [if_true]
        cases hrest : st.rest with
        | nil =>
          have hcd : (comp.done st) = true := by simp [comp, hdn, hrest]
          simp only [hcd, if_true]
          rw [hrest] at h1 h2
          simp at h1 h2
          refine ⟨by simp, ⟨?_, ?_⟩⟩
          · simp [h1]
          · simp [hrest]; omega
        | cons j tl =>
          have hcd : (comp.done st) = false := by simp [comp, hdn, hrest]
          simp only [hcd, Bool.false_eq_true, if_false]
          rw [hrest] at h1 h2
          simp at h1 h2
          have hit : (comp.iter st).rest = tl := by simp [comp, hdn, hrest]
          refine ⟨by simp, ⟨?_, ?_⟩⟩
          · simp only; rw [hit, h1]; cases tl <;> simp
          · simp only; rw [hit]; simp; omega

theorem mconsStep_sim {total : Nat} (c : MCfg σ α) (h : CountInv total c) :
    proj (mconsStep c) = consStep (proj c) ∧ CountInv total (mconsStep c) := by
  obtain ⟨st, running, senders, drops, iters, sent, buf, got, consDone, log⟩ := c
  obtain ⟨h1, h2⟩ := h
  simp only at h1 h2
  unfold mconsStep consStep
  cases consDone with
  | true => exact ⟨by simp [proj], ⟨h1, h2⟩⟩
  | false =>
    simp only [proj, Bool.false_eq_true, if_false]
    cases buf with
    | cons v rest => exact ⟨by simp, ⟨h1, h2⟩⟩
    | nil =>
      simp only
      cases running with
      | true =>
        have : (senders == 0) = false := by
          rw [h1]; simp only [if_true]; split <;> rfl
        rw [this]; exact ⟨by simp, ⟨h1, h2⟩⟩
      | false =>
        have : (senders == 0) = true := by rw [h1]; rfl
        rw [this]; exact ⟨by simp, ⟨h1, h2⟩⟩

theorem mrun_sim (cap : Option Nat) {total : Nat} (sched : List Ev) : ∀ (c : MCfg σ α), CountInv total c →
    proj (mrun cap sched c) = run comp cap sched (proj c) ∧ CountInv total (mrun cap sched c) := by
  induction sched with
  | nil => intro c h; exact ⟨rfl, h⟩
  | cons e es ih =>
    intro c h
    show proj (mrun cap es (mstep cap c e)) = run comp cap es (step comp cap (proj c) e) ∧ _
    cases e with
    | prod =>
      have ⟨a, b⟩ := mprodStep_sim cap c h
      have ⟨x, y⟩ := ih _ b
      exact ⟨x.trans (by rw [a]; rfl), y⟩
    | cons =>
      have ⟨a, b⟩ := mconsStep_sim c h
      have ⟨x, y⟩ := ih _ b
      exact ⟨x.trans (by rw [a]; rfl), y⟩

/-! ## the composite producer halts with the concatenation of the results -/

theorem runG_add (P : Producer σ α) (a : Nat) (p : σ) : ∀ b, runG P (a + b) p = runG P b (runG P a p) := by
  intro b
  induction b with
  | zero => rfl
  | succ b ih =>
    show (if P.done (runG P (a + b) p) then runG P (a + b) p else P.iter (runG P (a + b) p)) = _
    rw [ih]; rfl

theorem runG_front (P : Producer σ α) (k : Nat) (p : σ) :
    runG P (k + 1) p = runG P k (if P.done p then p else P.iter p) := by
  rw [Nat.add_comm, runG_add]; rfl

/-- the composite runs the current job up to its end (first moment at which it is done) -/
theorem comp_runs_job (rest : List (Job σ α)) (pre : List α) (P : Producer σ α) (hm : Mono P) :
    ∀ (N : Nat) (p : σ), P.done (runG P N p) = true →
      ∃ k, runG comp k ⟨pre, ⟨P, p, hm⟩, rest⟩ = ⟨pre, ⟨P, runG P N p, hm⟩, rest⟩ := by
  intro N
  induction N with
  | zero => intro p _; exact ⟨0, rfl⟩
  | succ m ih =>
    intro p hd
    by_cases hdp : P.done p = true
    · refine ⟨0, ?_⟩
      have : runG P (m + 1) p = p := runG_stable (j := 0) hdp (m + 1) (Nat.zero_le _)
      rw [this]; rfl
    · rw [runG_front, if_neg hdp] at hd ⊢
      obtain ⟨k, hk⟩ := ih (P.iter p) hd
      refine ⟨k + 1, ?_⟩
      rw [runG_front]
      have h1 : (comp.done (⟨pre, ⟨P, p, hm⟩, rest⟩ : MState σ α)) = false := by simp [comp, hdp]
      have h2 : comp.iter (⟨pre, ⟨P, p, hm⟩, rest⟩ : MState σ α) = ⟨pre, ⟨P, P.iter p, hm⟩, rest⟩ := by
        simp [comp, hdp]
      rw [h1]; simp only [Bool.false_eq_true, if_false]
      rw [h2]; exact hk

/-- job `j` halts with result `fin` -/
def Job.Halts (j : Job σ α) (fin : List α) : Prop := ∃ N, j.P.done (runG j.P N j.p) = true ∧ j.P.out (runG j.P N j.p) = fin

/-- the jobs halt with the results `fins`, one by one -/
inductive AllHalt : List (Job σ α) → List (List α) → Prop
  | nil : AllHalt [] []
  | cons {j : Job σ α} {f : List α} {js : List (Job σ α)} {fs : List (List α)} :
      j.Halts f → AllHalt js fs → AllHalt (j :: js) (f :: fs)

theorem comp_halts : ∀ (rest : List (Job σ α)) (fins : List (List α)), AllHalt rest fins →
    ∀ (cur : Job σ α) (pre fin : List α), cur.Halts fin →
    ∃ M, comp.done (runG comp M ⟨pre, cur, rest⟩) = true ∧
      comp.out (runG comp M ⟨pre, cur, rest⟩) = pre ++ fin ++ fins.flatten := by
  intro rest
  induction rest with
  | nil =>
    intro fins hf cur pre fin ⟨N, hd, ho⟩
    cases hf
    obtain ⟨P, p, hm⟩ := cur
    obtain ⟨k, hk⟩ := comp_runs_job [] pre P hm N p hd
    refine ⟨k, ?_, ?_⟩
    · rw [hk]; simp only [comp, List.isEmpty_nil, Bool.and_true]; exact hd
    · rw [hk]; simp only [comp, List.flatten_nil, List.append_nil]; rw [← ho]
  | cons j tl ih =>
    intro fins hf cur pre fin ⟨N, hd, ho⟩
    cases hf with
    | cons hj htl =>
      rename_i f fs
      obtain ⟨P, p, hm⟩ := cur
      obtain ⟨k, hk⟩ := comp_runs_job (j :: tl) pre P hm N p hd
      obtain ⟨M, h1, h2⟩ := ih fs htl j (pre ++ fin) f hj
      refine ⟨k + (1 + M), ?_⟩
      rw [runG_add, hk, Nat.add_comm 1 M, runG_front]
      have hnd : (comp.done (⟨pre, ⟨P, runG P N p, hm⟩, j :: tl⟩ : MState σ α)) = false := by simp [comp]
      have hit : comp.iter (⟨pre, ⟨P, runG P N p, hm⟩, j :: tl⟩ : MState σ α) = ⟨pre ++ fin, j, tl⟩ := by
        simp only [comp]
        simp only at hd ho
        rw [if_pos hd, ho]
      rw [hnd]; simp only [Bool.false_eq_true, if_false]
      rw [hit]
      exact ⟨h1, by rw [h2]; simp⟩

/-! ## what the consumer of the shared channel sees -/

/-- **k sequential searches on clones of one sender.** `j :: tl` are the calls, `fin :: fins` their results.
For every capacity and every schedule, with `c` the configuration reached and `all` the concatenation of
the results:
 1. received ++ queued is a prefix of `all`;
 2. handles: the count is 0 iff the last call has returned, and then exactly `k` handles were dropped;
    before that (fewer than `k` drops) at least one handle is alive and the consumer's loop has NOT ended;
 3. when the last handle is gone: received ++ queued = `all`;
 4. when the consumer's loop has ended: it has received exactly `all`, no handle is left, nothing is queued;
 5. (capacity ≥ 1 or unbounded) there is a bound `m` such that every schedule with `m` fair rounds ends the
    consumer's loop. -/
theorem clones_deliver (j : Job σ α) (tl : List (Job σ α)) (fin : List α) (fins : List (List α))
    (hj : j.Halts fin) (htl : AllHalt tl fins) (cap : Option Nat) :
    ∃ m, ∀ (sched : List Ev),
      let c := mrun cap sched (minit j tl)
      let all := fin ++ fins.flatten
      (c.got ++ c.buf <+: all) ∧
      ((c.senders = 0 ↔ c.running = false) ∧ (c.senders = 0 → c.drops = tl.length + 1) ∧
        (c.drops < tl.length + 1 → 1 ≤ c.senders ∧ c.consDone = false)) ∧
      (c.senders = 0 → c.got ++ c.buf = all) ∧
      (c.consDone = true → c.got = all ∧ c.senders = 0 ∧ c.buf = []) ∧
      ((∀ k, cap = some k → 1 ≤ k) → Fair m sched → c.consDone = true) := by
  obtain ⟨M, hM, hout⟩ := comp_halts tl fins htl j [] fin hj
  simp only [List.nil_append] at hout
  refine ⟨M + (fin ++ fins.flatten).length + 1 + (fin ++ fins.flatten).length + 1, ?_⟩
  intro sched
  have ⟨hp, hc⟩ := mrun_sim cap sched (minit j tl) (minit_count j tl)
  have hpi : proj (minit j tl) = (init ⟨[], j, tl⟩ : Cfg (MState σ α) α) := rfl
  rw [hpi] at hp
  generalize mrun cap sched (minit j tl) = c at hp hc ⊢
  intro c' all
  have hcc : c = c' := rfl
  clear_value c'
  subst hcc
  have hinv : Inv comp cap ⟨[], j, tl⟩ (proj c) := by
    rw [hp]; exact run_inv comp_mono sched _ (Inv.init _ cap _)
  have hzero : c.senders = 0 ↔ c.running = false := by
    rw [hc.hs]
    cases c.running with
    | false => simp
    | true => simp only [if_true, Bool.true_eq_false, iff_false]; split <;> omega
  have hdone : c.consDone = true → c.got = all ∧ c.senders = 0 ∧ c.buf = [] := by
    intro hcd
    have ⟨a, b, d⟩ := finished_exact hM hinv hcd
    rw [hout] at a
    refine ⟨a, hzero.mpr ?_, d⟩
    have : (!c.running) = true := b
    simpa using this
  refine ⟨?_, ⟨hzero, ?_, ?_⟩, ?_, hdone, ?_⟩
  · have := got_buf_prefix comp_mono hM hinv
    rw [hout] at this; exact this
  · intro h0
    have hr := hzero.mp h0
    have h2 := hc.hd
    rw [hr] at h2
    have hcl : (proj c).closed = true := by show (!c.running) = true; rw [hr]; rfl
    have ⟨hd, _⟩ := hinv.hc hcl
    have : (proj c).p.rest.isEmpty = true := by
      have : ((proj c).p.cur.P.done (proj c).p.cur.p && (proj c).p.rest.isEmpty) = true := hd
      simp at this; simpa using this.2
    have hre : c.st.rest = [] := by
      have : c.st.rest.isEmpty = true := this
      simpa using this
    rw [hre] at h2; simp at h2; omega
  · intro hlt
    have hrun : c.running = true := by
      cases hr : c.running with
      | true => rfl
      | false =>
        have h2 := hc.hd
        rw [hr] at h2
        have hcl : (proj c).closed = true := by show (!c.running) = true; rw [hr]; rfl
        have ⟨hd, _⟩ := hinv.hc hcl
        have : ((proj c).p.cur.P.done (proj c).p.cur.p && (proj c).p.rest.isEmpty) = true := hd
        simp at this
        have hre : c.st.rest = [] := this.2
        rw [hre] at h2; simp at h2; omega
    have hs1 : 1 ≤ c.senders := by
      rw [hc.hs, hrun]; simp only [if_true]; split <;> omega
    refine ⟨hs1, ?_⟩
    cases hcd : c.consDone with
    | false => rfl
    | true => have := (hdone hcd).2.1; omega
  · intro h0
    have hr := hzero.mp h0
    have hcl : (proj c).closed = true := by show (!c.running) = true; rw [hr]; rfl
    have := closed_all_sent hM hinv hcl
    rw [hout] at this; exact this
  · intro hcap hf
    have := fair_finishes comp_mono hM hcap _ sched hf _ (Inv.init comp cap ⟨[], j, tl⟩)
      (by rw [measure_init, hout]; exact Nat.le_refl _)
    rw [← hp] at this
    exact this

/-! ## a kernel-evaluated instance: three toy searches on clones, `bounded(1)` -/

/-- a loop emitting `b, b+1, …, b+k-1` -/
def toyJob (b k : Nat) : Job Nat Nat :=
  { P := { iter := (· + 1), done := fun p => decide (k ≤ p), out := fun p => (List.range p).map (· + b) },
    p := 0,
    mono := by
      intro p
      show (List.range p).map (· + b) <+: (List.range (p + 1)).map (· + b)
      rw [List.range_succ, List.map_append]; exact List.prefix_append _ _ }

/-- two results, none, one result: after the first and the second call have returned (2 drops) a handle is
still alive and the consumer, although the queue is empty, is not done; after the third return it ends with
`[10, 11, 30]` -/
example :
    let s1 : List Ev := [.prod, .prod, .cons, .prod, .prod, .cons, .prod, .prod, .cons, .cons]
    let c1 := mrun (some 1) s1 (minit (toyJob 10 2) [toyJob 20 0, toyJob 30 1])
    let c2 := mrun (some 1) [.prod, .prod, .cons, .prod, .cons, .cons] c1
    (c1.drops = 2 ∧ c1.senders = 1 ∧ c1.got = [10, 11] ∧ c1.buf = [] ∧ c1.consDone = false) ∧
    (c2.drops = 3 ∧ c2.senders = 0 ∧ c2.got = [10, 11, 30] ∧ c2.consDone = true) := by decide

end Chan
