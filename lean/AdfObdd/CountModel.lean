import AdfObdd.NgModel
import AdfObdd.CountsDef
import AdfObdd.Cubes
/-! concrete executable model of `two_val_model_counts_logic` (repaired, D1 + D4) for the spike -/

def heuA (s : Store) (interp : List Nat) (l r : Nat × Nat) : Ordering :=
  match compare (passive s r.1 interp) (passive s l.1 interp) with
  | .eq => match compare (active s l.1 interp) (active s r.1 interp) with
    | .eq => compare (minPaths s l.2) (minPaths s r.2)
    | o => o
  | o => o

def heuB (s : Store) (interp : List Nat) (l r : Nat × Nat) : Ordering :=
  match compare (minPaths s l.2) (minPaths s r.2) with
  | .eq => compare (passive s r.1 interp) (passive s l.1 interp)
  | o => o

/-- `Iterator::min_by`: the first minimum -/
def minBy (cmp : (Nat × Nat) → (Nat × Nat) → Ordering) : List (Nat × Nat) → Option (Nat × Nat)
  | [] => none
  | x :: xs => some (xs.foldl (fun m y => if cmp m y == .gt then y else m) x)

def noInfIncons (a b : Nat) : Bool := sameInfo a b || !isTV a

def cubesOf (s : Store) (t : Nat) (goal : Bool) (gv : Nat) : List PCube := cubesF s (t+1) t goal gv [] []

def applyCube (interp willBe : List Nat) (c : PCube) : Option (List Nat) := Id.run do
  let mut ni := interp
  let mut ok := true
  for v in c.1 do
    if ok then
      if ni.getD v 0 == 1 || willBe.getD v 2 == 1 then ok := false
      else ni := ni.set v 0
  -- `.and(..)` evaluates the positive loop eagerly
  let mut ok2 := true
  for v in c.2 do
    if ok2 then
      if (isTV (ni.getD v 0) && ni.getD v 0 != 1) || willBe.getD v 2 == 0 then ok2 := false
      else ni := ni.set v 1
  if ok && ok2 then some ni else none

def mapRestrict (s : Store) (v : Nat) (b : Bool) : List Nat → Store × List Nat
  | [] => (s, [])
  | t :: ts => let r := restrictF (t+1) s t v b; let m := mapRestrict r.1 v b ts; (m.1, r.2 :: m.2)

partial def countLogic (ac : List Nat) (useA : Bool) (s : Store) (interp willBe : List Nat) : Store × List (List Nat) :=
  let cands := (interp.zipIdx.filter (fun (t, i) => !(isTV t || isTV (willBe.getD i 2)))).map (fun (t, i) => (i, t))
  match minBy (if useA then heuA s interp else heuB s interp) cands with
  | none =>
    let concluded := interp.zipIdx.map (fun (t, i) => if !isTV t then willBe.getD i 2 else t)
    let r := applyInterp s concluded ac
    if (r.2.zip concluded).all (fun (int, wb) => noInfIncons wb int) then (r.1, [r.2]) else (r.1, [interp])
  | some (idx, a) =>
    let checkModels := !moreModels (paths s a)
    let goalT := if checkModels then 1 else 0
    let cubes := cubesOf s a checkModels idx
    let r1 := cubes.foldl (fun (acc : Store × List (List Nat)) c =>
        match applyCube interp willBe c with
        | none => acc
        | some ni =>
          let ni := ni.set idx goalT
          let upd := applyInterp acc.1 ni ni
          if (upd.2.zip willBe).all (fun (int, wb) => noInfIncons wb int) then
            let rec' := countLogic ac useA upd.1 upd.2 willBe
            (rec'.1, acc.2 ++ rec'.2)
          else (upd.1, acc.2)) (s, [])
    -- conclude the other value
    let ni := mapRestrict r1.1 idx (!checkModels) interp
    let upd := applyInterp ni.1 ni.2 ni.2
    let nidx := ni.2.getD idx 0
    if noInfIncons nidx (upd.2.getD idx 0) then
      let other := if checkModels then 0 else 1
      let upd2 := upd.2.set idx other
      if noInfIncons nidx other then
        let rec' := countLogic ac useA upd.1 upd2 (willBe.set idx nidx)
        (rec'.1, r1.2 ++ rec'.2)
      else (upd.1, r1.2)
    else (upd.1, r1.2)

/-- `stable_count_optimisation_heu_a/b` -/
def countAll (s : Store) (n : Nat) (ac : List Nat) (useA : Bool) : Store × List (List Nat) :=
  let g := groundedLoop StoreRA (n + 1) s ac
  let c := countLogic ac useA g.1 g.2 (List.replicate n 2)
  c.2.foldl (fun (acc : Store × List (List Nat)) v =>
      let chk := stabilityCheck acc.1 n ac v
      (chk.1, if chk.2 then acc.2 ++ [v] else acc.2)) (c.1, [])
