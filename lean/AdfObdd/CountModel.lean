import AdfObdd.AdfModel
import AdfObdd.CountsDef
import AdfObdd.HeuMemo
import AdfObdd.Cubes
import AdfObdd.CountSearchK
/-! Concrete executable model of `two_val_model_counts_logic` (as repaired, D1 + D4) and of
    `stable_count_optimisation_heu_a/b`. The recursion is the generic machine `GK.search`
    instantiated with the code's steps (`countParams`), so it is structurally recursive on a fuel
    (`n + 1` levels suffice, proved in `CountInstance.lean`) and the theorems about the machine apply
    to exactly what the driver runs handle for handle against the Rust. -/

def heuA (s : Store) (interp : List Nat) (l r : Nat × Nat) : Ordering :=
  match compare (passive s r.1 interp) (passive s l.1 interp) with
  | .eq => match compare (active s l.1 interp) (active s r.1 interp) with
    | .eq => compare (minPaths s l.2) (minPaths s r.2)
    | o => o
  | o => o

def heuB (s : Store) (interp : List Nat) (l r : Nat × Nat) : Ordering :=
  match compare (minPaths s l.2) (minPaths s r.2) with
  | .eq => compare (passive s r.1 interp) (passive s l.1 interp)
  | o => o

/-- `Iterator::min_by`: the first minimum -/
def minBy (cmp : (Nat × Nat) → (Nat × Nat) → Ordering) : List (Nat × Nat) → Option (Nat × Nat)
  | [] => none
  | x :: xs => some (xs.foldl (fun m y => if cmp m y == .gt then y else m) x)

/-- `min_by` with a comparison that looks at keys only = `min_by` on the precomputed keys -/
theorem minBy_keyed {K : Type} (key : Nat × Nat → K) (cmp : (Nat × Nat) → (Nat × Nat) → Ordering)
    (cmpK : K → K → Ordering) (h : ∀ l r, cmp l r = cmpK (key l) (key r)) (xs : List (Nat × Nat)) :
    minBy cmp xs = Memo.minByK cmpK (xs.map (fun p => (p, key p))) := by
  cases xs with
  | nil => rfl
  | cons x xs => simp only [minBy, List.map_cons, Memo.minByK, Memo.foldl_keyed key cmp cmpK h]

/-- the choice of `heu_a` with the keys of all candidates computed once (shared memos) -/
def pickA (s : Store) (interp : List Nat) (cands : List (Nat × Nat)) : Option (Nat × Nat) :=
  Memo.minByK Memo.cmpA (Memo.keysA s interp cands)
/-- the choice of `heu_b` with the keys of all candidates computed once (shared memos) -/
def pickB (s : Store) (interp : List Nat) (cands : List (Nat × Nat)) : Option (Nat × Nat) :=
  Memo.minByK Memo.cmpB (Memo.keysPI s interp cands)

theorem minBy_heuA (s : Store) (interp : List Nat) (cands : List (Nat × Nat)) :
    minBy (heuA s interp) cands = pickA s interp cands := by
  rw [pickA, Memo.keysA_eq]
  exact minBy_keyed (fun p => (passive s p.1 interp, active s p.1 interp, minPaths s p.2)) (heuA s interp) Memo.cmpA (fun _ _ => rfl) cands

theorem minBy_heuB (s : Store) (interp : List Nat) (cands : List (Nat × Nat)) :
    minBy (heuB s interp) cands = pickB s interp cands := by
  rw [pickB, Memo.keysPI_eq]
  exact minBy_keyed (fun p => (minPaths s p.2, passive s p.1 interp)) (heuB s interp) Memo.cmpB (fun _ _ => rfl) cands

def noInfIncons (a b : Nat) : Bool := sameInfo a b || !isTV a

def cubesOf (s : Store) (t : Nat) (goal : Bool) (gv : Nat) : List PCube := cubesF s (t+1) t goal gv [] []

/-- the `negative.iter().try_for_each(..)` of the cube closure -/
def negLoop (willBe : List Nat) : List Nat → List Nat → Option (List Nat)
  | [], ni => some ni
  | v :: vs, ni =>
    if ni.getD v 0 == 1 || willBe.getD v 2 == 1 then none else negLoop willBe vs (ni.set v 0)

/-- the `positive.iter().try_for_each(..)` of the cube closure -/
def posLoop (willBe : List Nat) : List Nat → List Nat → Option (List Nat)
  | [], ni => some ni
  | v :: vs, ni =>
    if (isTV (ni.getD v 0) && ni.getD v 0 != 1) || willBe.getD v 2 == 0 then none
    else posLoop willBe vs (ni.set v 1)

/-- `negative…try_for_each(..).and(positive…try_for_each(..))`: `.and` evaluates its argument
eagerly, but the loops have no effect outside `new_int`, which is dropped on `Err` -/
def applyCube (interp willBe : List Nat) (c : PCube) : Option (List Nat) :=
  match negLoop willBe c.1 interp with
  | none => none
  | some ni => posLoop willBe c.2 ni

def mapRestrict (s : Store) (v : Nat) (b : Bool) : List Nat → Store × List Nat
  | [] => (s, [])
  | t :: ts => let r := restrictF (t+1) s t v b; let m := mapRestrict r.1 v b ts; (m.1, r.2 :: m.2)

/-- `apply_interpretation(ac, interp)`; `update_interpretation_fixpoint(v)` is `applyVec s v v`
(the loop of the code compares `update(interpretation)` with itself in its second round, so it
performs exactly one step; the second evaluation only hits the restriction memo) -/
def applyVec (s : Store) (interp : List Nat) : List Nat → Store × List Nat
  | [] => (s, [])
  | a :: acs => let r := restrictBy StoreRA s a 0 interp; let m := applyVec r.1 interp acs; (m.1, r.2 :: m.2)

/-- `check_consistency(v, will_be)` -/
def consistentWith (v willBe : List Nat) : Bool := (v.zip willBe).all (fun (int, wb) => noInfIncons wb int)

/-- `stability_check` -/
def stabilityCheckC (s : Store) (n : Nat) (ac cand : List Nat) : Store × Bool :=
  let red := mapFalse s cand ac
  let grd := groundedLoop StoreRA (n + 1) red.1 red.2
  (grd.1, (grd.2.zip cand).all (fun (a, b) => sameInfo a b))

/-- the state of the recursion: `(interpr, will_be)` -/
abbrev CState := List Nat × List Nat

/-- positions undecided in both vectors, as `(index, handle)` -/
def candidates (c : CState) : List (Nat × Nat) :=
  (c.1.zipIdx.filter (fun (t, i) => !(isTV t || isTV (c.2.getD i 2)))).map (fun (t, i) => (i, t))

/-- the steps of `two_val_model_counts_logic`. With `unrepaired := true` the cube list is cut at the
first cube that contradicts the current vectors — the behaviour of the closure that returned `res`
(defect D1; `applyCube` does not touch the store, so cutting the list is the same as aborting). -/
def countParams (ac : List Nat) (useA : Bool) (unrepaired : Bool := false) :
    GK.CParams Store CState PCube (List Nat) where
  pick s c := (minBy (if useA then heuA s c.1 else heuB s c.1) (candidates c)).map (·.1)
  goal s c idx := !moreModels (paths s (c.1.getD idx 0))
  cubes s c idx g :=
    let cs := cubesOf s (c.1.getD idx 0) g idx
    if unrepaired then cs.takeWhile (fun cu => (applyCube c.1 c.2 cu).isSome) else cs
  cubeStep s c idx g cu :=
    match applyCube c.1 c.2 cu with
    | none => (s, none)
    | some ni =>
      let ni := ni.set idx (if g then 1 else 0)
      let upd := applyVec s ni ni
      (upd.1, if consistentWith upd.2 c.2 then some (upd.2, c.2) else none)
  flipStep s c idx g :=
    -- conclude the other value
    let ni := mapRestrict s idx (!g) c.1
    let upd := applyVec ni.1 ni.2 ni.2
    let nidx := ni.2.getD idx 0
    if noInfIncons nidx (upd.2.getD idx 0) then
      let other := if g then 0 else 1
      if noInfIncons nidx other then (upd.1, some (upd.2.set idx other, c.2.set idx nidx))
      else (upd.1, none)
    else (upd.1, none)
  leaf s c :=
    let concluded := c.1.zipIdx.map (fun (t, i) => if !isTV t then c.2.getD i 2 else t)
    let r := applyVec s concluded ac
    if consistentWith r.2 concluded then (r.1, [r.2]) else (r.1, [c.1])

/-- `countParams` with the heuristic keys computed once per call (what the compiled driver runs) -/
def countParamsM (ac : List Nat) (useA : Bool) (unrepaired : Bool := false) :
    GK.CParams Store CState PCube (List Nat) where
  pick s c := ((if useA then pickA s c.1 else pickB s c.1) (candidates c)).map (·.1)
  goal s c idx := !moreModels (paths s (c.1.getD idx 0))
  cubes s c idx g :=
    let cs := cubesOf s (c.1.getD idx 0) g idx
    if unrepaired then cs.takeWhile (fun cu => (applyCube c.1 c.2 cu).isSome) else cs
  cubeStep s c idx g cu :=
    match applyCube c.1 c.2 cu with
    | none => (s, none)
    | some ni =>
      let ni := ni.set idx (if g then 1 else 0)
      let upd := applyVec s ni ni
      (upd.1, if consistentWith upd.2 c.2 then some (upd.2, c.2) else none)
  flipStep s c idx g :=
    -- conclude the other value
    let ni := mapRestrict s idx (!g) c.1
    let upd := applyVec ni.1 ni.2 ni.2
    let nidx := ni.2.getD idx 0
    if noInfIncons nidx (upd.2.getD idx 0) then
      let other := if g then 0 else 1
      if noInfIncons nidx other then (upd.1, some (upd.2.set idx other, c.2.set idx nidx))
      else (upd.1, none)
    else (upd.1, none)
  leaf s c :=
    let concluded := c.1.zipIdx.map (fun (t, i) => if !isTV t then c.2.getD i 2 else t)
    let r := applyVec s concluded ac
    if consistentWith r.2 concluded then (r.1, [r.2]) else (r.1, [c.1])

@[csimp] theorem countParams_eq_countParamsM : @countParams = @countParamsM := by
  funext ac useA unrepaired
  unfold countParams countParamsM
  congr 1
  funext s c
  cases useA
  · simp only [Bool.false_eq_true, if_false, minBy_heuB]
  · simp only [if_true, minBy_heuA]

/-- `two_val_model_counts_logic`, `fuel` levels of recursion -/
def countLogic (ac : List Nat) (useA : Bool) (fuel : Nat) (s : Store) (interp willBe : List Nat) :
    Store × List (List Nat) :=
  GK.search (countParams ac useA) fuel s (interp, willBe)

/-- the filter `.filter(|int| self.stability_check(int))`, threading the store -/
def stableFilter (n : Nat) (ac : List Nat) (cands : List (List Nat)) (s : Store) : Store × List (List Nat) :=
  cands.foldl (fun (acc : Store × List (List Nat)) v =>
      let chk := stabilityCheckC acc.1 n ac v
      (chk.1, if chk.2 then acc.2 ++ [v] else acc.2)) (s, [])

/-- `stable_count_optimisation_heu_a/b` -/
def countAll (s : Store) (n : Nat) (ac : List Nat) (useA : Bool) : Store × List (List Nat) :=
  let g := groundedLoop StoreRA (n + 1) s ac
  let c := countLogic ac useA (n + 1) g.1 g.2 (List.replicate n 2)
  stableFilter n ac c.2 c.1

/-- the same with the unrepaired cube loop (D1), for the counterexample -/
def countAllUnrepaired (s : Store) (n : Nat) (ac : List Nat) (useA : Bool) : Store × List (List Nat) :=
  let g := groundedLoop StoreRA (n + 1) s ac
  let c := GK.search (countParams ac useA true) (n + 1) g.1 (g.2, List.replicate n 2)
  stableFilter n ac c.2 c.1
