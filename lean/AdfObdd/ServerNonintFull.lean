import AdfObdd.ServerNonintJ
import AdfObdd.ServerMention
import AdfObdd.ServerD9
/-! # C17 — noninterference with name conflicts as PERMITTED DIFFERENCES

`ServerNonintJ.lean` proves "what the jars `J` observe = what they observe alone" under `DisciplinedJ`,
which EXCLUDES every mention of a name of the other side while something of that name exists. Here:

* `runAll_append_out`, `noop_event_unobservable_mid`: an event that leaves the server state as it is
  can be removed from ANY position of a history; only its own jar sees a difference.
* `MentionNoop` / `mentionNoopB`: the three kinds of foreign mentions of an EXISTING account name
  (`register v`, `update → v`, failed `login v`) and the proof that they are no-ops on the state.
* `DisciplinedJ'`: the discipline of `DisciplinedJ` in which a foreign event that is a no-op on the
  state is always allowed (it claims nothing); `nonint_dynJ'`: the conclusion of `nonint_dynJ` under it.
* `discB` / `discB'`: Bool checkers for `DisciplinedJ` / `DisciplinedJ'` with soundness proofs.
* the vocabulary of the FULL statement (`Props/C17.noninterference_statement`): `DisciplinedF`
  (conflicts allowed on both sides), the alone run with reserved names `runRsv`.
Core Lean only. -/
namespace ServerM
section
variable {T H A R : Type} [DecidableEq T]

/-! ### removing a no-op event from the middle of a history -/

theorem runAll_append_out (E : Env T H A R) : ∀ (a b : List (Event T)) (st : State T H A R),
    (runAll E st (a ++ b)).2 = (runAll E st a).2 ++ (runAll E (runAll E st a).1 b).2 := by
  intro a
  induction a with
  | nil => intro b st; simp [runAll]
  | cons e es ih =>
    intro b st
    simp only [List.cons_append, runAll]
    rw [ih]
    simp [List.append_assoc]

theorem stepEv_sess_other (E : Env T H A R) (st : State T H A R) (e : Event T) (k : Nat) (hk : e.jar ≠ k) :
    (stepEv E st e).1.sess k = st.sess k :=
  runAll_sess_untouched E k [e] st (by intro e' he'; simp at he'; subst he'; exact hk)

/-- an event that leaves the state as it is - wherever it stands in the history - can be removed
without changing the final state or what any set of jars not containing its own jar observes -/
theorem noop_event_unobservable_mid (E : Env T H A R) (st : State T H A R) (pre post : List (Event T)) (e : Event T)
    (h : (stepEv E (runAll E st pre).1 e).1 = (runAll E st pre).1) :
    (runAll E st (pre ++ e :: post)).1 = (runAll E st (pre ++ post)).1 ∧
    (∀ J : Nat → Bool, J e.jar = false →
      obsJ J (runAll E st (pre ++ e :: post)).2 = obsJ J (runAll E st (pre ++ post)).2) ∧
    (∀ j, j ≠ e.jar → obs j (runAll E st (pre ++ e :: post)).2 = obs j (runAll E st (pre ++ post)).2) := by
  have h1 : (runAll E (runAll E st pre).1 (e :: post)).1 = (runAll E (runAll E st pre).1 post).1 := by
    show (runAll E (stepEv E (runAll E st pre).1 e).1 post).1 = _
    rw [h]
  have h2 : (runAll E (runAll E st pre).1 (e :: post)).2 =
      (match (stepEv E (runAll E st pre).1 e).2 with | some r => [(e.jar, r)] | none => []) ++
        (runAll E (runAll E st pre).1 post).2 := by
    show _ ++ (runAll E (stepEv E (runAll E st pre).1 e).1 post).2 = _
    rw [h]
    rfl
  refine ⟨?_, ?_, ?_⟩
  · rw [runAll_append, runAll_append, h1]
  · intro J hJ
    rw [runAll_append_out, runAll_append_out, h2, obsJ_append, obsJ_append, obsJ_append]
    cases (stepEv E (runAll E st pre).1 e).2 with
    | none => simp [obsJ]
    | some r => simp [obsJ, hJ]
  · intro j hj
    rw [runAll_append_out, runAll_append_out, h2, obs_append, obs_append, obs_append]
    cases (stepEv E (runAll E st pre).1 e).2 with
    | none => simp [obs]
    | some r => simp [obs, Ne.symm hj]

/-! ### foreign mentions of an existing account name are no-ops -/

omit [DecidableEq T] in
private theorem state_ext' {s t : State T H A R} (h1 : s.db = t.db) (h2 : s.sess = t.sess) : s = t := by
  cases s; cases t; simp_all

/-- the three kinds of requests by which somebody who is not `v` can name the account `v`: -/
def mentionNoopB (E : Env T H A R) (st : State T H A R) : Event T → Bool
  | .req ⟨jar, .register v _ _⟩ => st.db.users.any (isUser v) && decide (st.sess jar ≠ some v)
  | .req ⟨jar, .update v _ _⟩ => st.db.users.any (isUser v) && decide (st.sess jar ≠ some v)
  | .req ⟨jar, .login v p⟩ => decide ((step E st ⟨jar, .login v p⟩).2.status ≠ 200)
  | _ => false

/-- `register v` / `update → v` against an existing account `v` by a jar whose session is not `v`
(answered `409 name taken`), and a failed `login v` (400 / 404), leave the WHOLE state as it is -/
theorem mentionNoopB_sound (E : Env T H A R) (st : State T H A R) (e : Event T) (h : mentionNoopB E st e = true) :
    (stepEv E st e).1 = st := by
  cases e with
  | req rq =>
    obtain ⟨jar, r⟩ := rq
    cases r with
    | register v p salt =>
      simp only [mentionNoopB, Bool.and_eq_true, decide_eq_true_eq] at h
      have r := register_taken E st jar v p salt h.1
      exact state_ext' r.1 r.2.1
    | update v p salt =>
      simp only [mentionNoopB, Bool.and_eq_true, decide_eq_true_eq] at h
      have r := update_taken E st jar v p salt h.1 h.2
      exact state_ext' r.1 r.2.1
    | login v p =>
      simp only [mentionNoopB, decide_eq_true_eq] at h
      have l := login_harmless E st jar v p
      exact state_ext' l.1 (l.2.1 h)
    | _ => simp [mentionNoopB] at h
  | _ => simp [mentionNoopB] at h

/-! ### the unused name proposal of an authenticated `add` -/

/-- `e` is an `add` of a logged-in jar: its name proposal `fu` is never looked at (a ghost mention) -/
def ghostAdd (st : State T H A R) : Event T → Bool
  | .req ⟨jar, .add _ _ _ _ _ _⟩ => (st.sess jar).isSome
  | _ => false

/-- the same event with the unused proposal of an authenticated `add` replaced by the session's own name -/
def deghost (st : State T H A R) : Event T → Event T
  | .req ⟨jar, .add name code file parsing fu fp⟩ =>
    match st.sess jar with
    | some u => .req ⟨jar, .add name code file parsing u fp⟩
    | none => .req ⟨jar, .add name code file parsing fu fp⟩
  | e => e

omit [DecidableEq T] in
theorem deghost_jar (st : State T H A R) (e : Event T) : (deghost st e).jar = e.jar := by
  cases e with
  | req rq =>
    obtain ⟨jar, r⟩ := rq
    cases r <;> try rfl
    simp only [deghost]; split <;> rfl
  | _ => rfl

/-- an authenticated `add` does not depend on its name proposal -/
theorem stepEv_deghost (E : Env T H A R) (st : State T H A R) (e : Event T) :
    stepEv E st (deghost st e) = stepEv E st e := by
  cases e with
  | req rq =>
    obtain ⟨jar, r⟩ := rq
    cases r <;> try rfl
    rename_i name code file parsing fu fp
    simp only [deghost]
    cases hs : st.sess jar with
    | none => rfl
    | some u =>
      have h : handler E jar (some u) (.add name code file parsing u fp) =
          handler E jar (some u) (.add name code file parsing fu fp) := rfl
      simp only [stepEv, step, stepT, hs, h]
  | _ => rfl

omit [DecidableEq T] in
theorem deghost_congr (st st' : State T H A R) (e : Event T) (h : st.sess e.jar = st'.sess e.jar) :
    deghost st e = deghost st' e := by
  cases e with
  | req rq =>
    obtain ⟨jar, r⟩ := rq
    cases r <;> try rfl
    simp only [Event.jar] at h
    simp only [deghost, h]
  | _ => rfl

omit [DecidableEq T] in
theorem ghost_names (st : State T H A R) (e : Event T) (h : ghostAdd st e = true) :
    ∃ u, st.sess e.jar = some u ∧ evNames (deghost st e) = [u] := by
  cases e with
  | req rq =>
    obtain ⟨jar, r⟩ := rq
    cases r <;> try (simp [ghostAdd] at h)
    rename_i name code file parsing fu fp
    cases hs : st.sess jar with
    | none => simp [hs] at h
    | some u => exact ⟨u, hs, by simp [deghost, hs, evNames, reqNames]⟩
  | _ => simp [ghostAdd] at h

omit [DecidableEq T] in
theorem namesIn_of_evNames (S : T → Bool) (e : Event T) (h : ∀ n ∈ evNames e, S n = true) : e.namesIn S := by
  cases e with
  | req rq => exact h
  | _ => trivial

/-! ### the weaker discipline: foreign no-ops are permitted -/

/-- **`DisciplinedJ` with the name-uniqueness conflicts of the OTHERS permitted.** As `DisciplinedJ`,
except that an event of a jar outside `J` that leaves the server state as it is - by
`mentionNoopB_sound`: `register v` / `update → v` against an existing account (409), a failed
`login v` - is always allowed, whatever name it mentions, and claims nothing; and that an `add` of a
logged-in jar (of either side), whose name proposal is never looked at, is always allowed and claims nothing. -/
def DisciplinedJ' (E : Env T H A R) (J : Nat → Bool) : (T → Option Nat) → State T H A R → List (Event T) → Prop
  | _, _, [] => True
  | own, st, e :: es =>
    (J e.jar = false ∧ (stepEv E st e).1 = st ∧ DisciplinedJ' E J own st es) ∨
    (ghostAdd st e = true ∧ DisciplinedJ' E J own (stepEv E st e).1 es) ∨
    ((∀ n ∈ evNames e, (ownedByJ J (own n) = J e.jar) ∨ Free n st) ∧
      DisciplinedJ' E J (fun n => if n ∈ evNames e then some e.jar else own n) (stepEv E st e).1 es)

theorem disciplinedJ'_of_disciplinedJ (E : Env T H A R) (J : Nat → Bool) : ∀ (es : List (Event T)) (own : T → Option Nat)
    (st : State T H A R), DisciplinedJ E J own st es → DisciplinedJ' E J own st es := by
  intro es
  induction es with
  | nil => intro _ _ _; trivial
  | cons e es ih => intro own st h; exact Or.inr (Or.inr ⟨h.1, ih _ _ h.2⟩)

/-- the unwinding argument under the weaker discipline -/
theorem nonint_dynJ' (E : Env T H A R) (J : Nat → Bool) : ∀ (es : List (Event T)) (own : T → Option Nat) (s a : State T H A R),
    SimJ (spaceOfJ own J) J s a → NsInvJ (spaceOfJ own J) J s → NsInvJ (spaceOfJ own J) J a → WithinJ (spaceOfJ own J) J a →
    DisciplinedJ' E J own s es →
    obsJ J (runAll E s es).2 = obsJ J (runAll E a (es.filter (fun e => J e.jar))).2 := by
  intro es
  induction es with
  | nil => intro _ s a _ _ _ _ _; rfl
  | cons e es ih =>
    intro own s a sim is ia w hd
    rcases hd with ⟨hj', hno, hrest⟩ | ⟨hgh, hrest⟩ | ⟨hnames, hrest⟩
    · simp only [List.filter_cons, hj', Bool.false_eq_true, if_false, runAll, obsJ_append]
      rw [hno, ih own s a sim is ia w hrest]
      cases (stepEv E s e).2 with
      | none => simp [obsJ]
      | some r => simp [obsJ, hj']
    · -- an authenticated `add`: executed as the same request with the session's own name as proposal
      obtain ⟨u, hu, hnm⟩ := ghost_names s e hgh
      by_cases hj : J e.jar = true
      · have hjd : J (deghost s e).jar = true := by rw [deghost_jar]; exact hj
        have hn : (deghost s e).namesIn (spaceOfJ own J) := by
          apply namesIn_of_evNames
          intro n hn; rw [hnm, List.mem_singleton] at hn; subst hn
          exact is.mine _ hj _ hu
        have hm := stepEv_mineJ E (deghost s e) hjd sim is ia hn
        have hw := stepEv_withinJ E (deghost s e) hjd w ia hn
        rw [deghost_congr s a e (sim.sess _ hj), stepEv_deghost] at hw
        rw [stepEv_deghost, deghost_congr s a e (sim.sess _ hj), stepEv_deghost] at hm
        simp only [List.filter_cons, hj, if_true, runAll, obsJ_append]
        rw [ih _ _ _ hm.2.1 hm.2.2.1 hm.2.2.2 hw hrest, hm.1]
      · have hj' : J e.jar = false := by simpa using hj
        have hjd : J (deghost s e).jar = false := by rw [deghost_jar]; exact hj'
        have hn : (deghost s e).namesIn (fun x => !spaceOfJ own J x) := by
          apply namesIn_of_evNames
          intro n hn; rw [hnm, List.mem_singleton] at hn; subst hn
          rw [is.others _ hj' _ hu]; rfl
        have ho := stepEv_otherJ E (deghost s e) hjd sim is hn
        rw [stepEv_deghost] at ho
        simp only [List.filter_cons, hj', Bool.false_eq_true, if_false, runAll, obsJ_append]
        rw [ih _ _ _ ho.1 ho.2 ia w hrest]
        cases (stepEv E s e).2 with
        | none => simp [obsJ]
        | some r => simp [obsJ, hj']
    · have hfree : ∀ n, spaceOfJ own J n ≠ spaceOfJ (fun n => if n ∈ evNames e then some e.jar else own n) J n → Free n s := by
        intro n hne
        by_cases hmem : n ∈ evNames e
        · rcases hnames n hmem with h | h
          · exfalso; apply hne
            simp only [spaceOfJ, hmem, if_true, ownedByJ]
            exact h
          · exact h
        · exfalso; apply hne; simp [spaceOfJ, hmem]
      obtain ⟨sim', is', ia', w'⟩ := rebaseJ sim is ia w hfree
      by_cases hj : J e.jar = true
      · have hn : e.namesIn (spaceOfJ (fun n => if n ∈ evNames e then some e.jar else own n) J) := by
          cases e with
          | req rq => intro n hn; simp [spaceOfJ, evNames, hn, ownedByJ]; exact hj
          | finish _ _ => trivial
          | write _ _ => trivial
          | timeout _ _ => trivial
        have hm := stepEv_mineJ E e hj sim' is' ia' hn
        have hw := stepEv_withinJ E e hj w' ia' hn
        simp only [List.filter_cons, hj, if_true, runAll, obsJ_append]
        rw [ih _ _ _ hm.2.1 hm.2.2.1 hm.2.2.2 hw hrest, hm.1]
      · have hj' : J e.jar = false := by simpa using hj
        have hn : e.namesIn (fun x => !spaceOfJ (fun n => if n ∈ evNames e then some e.jar else own n) J x) := by
          cases e with
          | req rq => intro n hn; simp [spaceOfJ, evNames, hn, ownedByJ]; exact hj'
          | finish _ _ => trivial
          | write _ _ => trivial
          | timeout _ _ => trivial
        have ho := stepEv_otherJ E e hj' sim' is' hn
        simp only [List.filter_cons, hj', Bool.false_eq_true, if_false, runAll, obsJ_append]
        rw [ih _ _ _ ho.1 ho.2 ia' w' hrest]
        cases (stepEv E s e).2 with
        | none => simp [obsJ]
        | some r => simp [obsJ, hj']

/-! ### Bool checkers (all sessions outside the finite list `jars` are empty) -/

def freeB (n : T) (st : State T H A R) (jars : List Nat) : Bool :=
  st.db.users.all (fun u => decide (u.username ≠ n)) && st.db.problems.all (fun p => decide (p.username ≠ n)) &&
  st.db.running.all (fun i => decide (i.username ≠ n)) && jars.all (fun k => decide (st.sess k ≠ some n)) &&
  st.db.tasks.all (fun t => !(live t) || decide (t.username ≠ n))

theorem freeB_sound (n : T) (st : State T H A R) (jars : List Nat) (hs : ∀ k, k ∉ jars → st.sess k = none)
    (h : freeB n st jars = true) : Free n st := by
  simp only [freeB, Bool.and_eq_true, List.all_eq_true, decide_eq_true_eq, Bool.or_eq_true, Bool.not_eq_true'] at h
  obtain ⟨⟨⟨⟨h1, h2⟩, h3⟩, h4⟩, h5⟩ := h
  refine ⟨h1, h2, h3, ?_, ?_⟩
  · intro k
    by_cases hk : k ∈ jars
    · exact h4 k hk
    · rw [hs k hk]; intro h; cases h
  · intro t ht hl
    rcases h5 t ht with h | h
    · rw [h] at hl; cases hl
    · exact h

/-- checker for `DisciplinedJ` -/
def discB (E : Env T H A R) (J : Nat → Bool) (jars : List Nat) : (T → Option Nat) → State T H A R → List (Event T) → Bool
  | _, _, [] => true
  | own, st, e :: es =>
    (evNames e).all (fun n => (ownedByJ J (own n) == J e.jar) || freeB n st jars) &&
    discB E J jars (fun n => if n ∈ evNames e then some e.jar else own n) (stepEv E st e).1 es

theorem discB_sound (E : Env T H A R) (J : Nat → Bool) (jars : List Nat) : ∀ (es : List (Event T)) (own : T → Option Nat)
    (st : State T H A R),
    (∀ k, k ∉ jars → st.sess k = none) → (∀ e ∈ es, e.jar ∈ jars) → discB E J jars own st es = true →
    DisciplinedJ E J own st es := by
  intro es
  induction es with
  | nil => intro _ _ _ _ _; trivial
  | cons e es ih =>
    intro own st hs hj h
    simp only [discB, Bool.and_eq_true, List.all_eq_true, Bool.or_eq_true, beq_iff_eq] at h
    refine ⟨fun n hn => ?_, ih _ _ ?_ (fun e' he' => hj e' (List.mem_cons_of_mem _ he')) h.2⟩
    · rcases h.1 n hn with h1 | h1
      · exact Or.inl h1
      · exact Or.inr (freeB_sound n st jars hs h1)
    · intro k hk
      rw [stepEv_sess_other E st e k (fun h' => hk (h' ▸ hj e (List.mem_cons_self ..)))]
      exact hs k hk

/-- checker for `DisciplinedJ'`: a foreign `register v` / `update → v` against an existing account and a
foreign failed `login v` are skipped -/
def discB' (E : Env T H A R) (J : Nat → Bool) (jars : List Nat) : (T → Option Nat) → State T H A R → List (Event T) → Bool
  | _, _, [] => true
  | own, st, e :: es =>
    if !J e.jar && mentionNoopB E st e then discB' E J jars own st es
    else if ghostAdd st e then discB' E J jars own (stepEv E st e).1 es
    else
      (evNames e).all (fun n => (ownedByJ J (own n) == J e.jar) || freeB n st jars) &&
      discB' E J jars (fun n => if n ∈ evNames e then some e.jar else own n) (stepEv E st e).1 es

theorem discB'_sound (E : Env T H A R) (J : Nat → Bool) (jars : List Nat) : ∀ (es : List (Event T)) (own : T → Option Nat)
    (st : State T H A R),
    (∀ k, k ∉ jars → st.sess k = none) → (∀ e ∈ es, e.jar ∈ jars) → discB' E J jars own st es = true →
    DisciplinedJ' E J own st es := by
  intro es
  induction es with
  | nil => intro _ _ _ _ _; trivial
  | cons e es ih =>
    intro own st hs hj h
    have hj' : ∀ e' ∈ es, e'.jar ∈ jars := fun e' he' => hj e' (List.mem_cons_of_mem _ he')
    simp only [discB'] at h
    split at h
    · rename_i hc
      simp only [Bool.and_eq_true, Bool.not_eq_true'] at hc
      exact Or.inl ⟨hc.1, mentionNoopB_sound E st e hc.2, ih own st hs hj' h⟩
    · have hs' : ∀ k, k ∉ jars → (stepEv E st e).1.sess k = none := by
        intro k hk
        rw [stepEv_sess_other E st e k (fun h' => hk (h' ▸ hj e (List.mem_cons_self ..)))]
        exact hs k hk
      split at h
      · rename_i hg
        exact Or.inr (Or.inl ⟨hg, ih _ _ hs' hj' h⟩)
      · simp only [Bool.and_eq_true, List.all_eq_true, Bool.or_eq_true, beq_iff_eq] at h
        refine Or.inr (Or.inr ⟨fun n hn => ?_, ih _ _ hs' hj' h.2⟩)
        rcases h.1 n hn with h1 | h1
        · exact Or.inl h1
        · exact Or.inr (freeB_sound n st jars hs h1)

/-! ### vocabulary of the full statement -/

/-- the event is a `login` request that succeeds in `st` -/
def loginOk (E : Env T H A R) (st : State T H A R) : Event T → Bool
  | .req ⟨jar, .login u p⟩ => (step E st ⟨jar, .login u p⟩).2.status == 200
  | _ => false

/-- the mention of `n` by `e` is a NAME-UNIQUENESS CONFLICT: an account `n` exists, the requesting
jar's session is not `n`, and the request is not a login that succeeds (whoever passes the
credential check of an account IS that user) -/
def Conflict (E : Env T H A R) (st : State T H A R) (e : Event T) (n : T) : Prop :=
  hasAccount n st.db ∧ st.sess e.jar ≠ some n ∧ loginOk E st e = false

open Classical in
/-- the ghost record after `e`: a regular mention (by the side that claimed the name last, or of a name of
which nothing exists) claims the name for `e.jar`; a conflicting mention claims nothing -/
noncomputable def claimF (J : Nat → Bool) (own : T → Option Nat) (st : State T H A R) (e : Event T) : T → Option Nat :=
  fun n => if n ∈ evNames e ∧ ((ownedByJ J (own n) = J e.jar) ∨ Free n st) then some e.jar else own n

theorem claimF_regular (J : Nat → Bool) (own : T → Option Nat) (st : State T H A R) (e : Event T)
    (hreg : ∀ n ∈ evNames e, (ownedByJ J (own n) = J e.jar) ∨ Free n st) :
    claimF J own st e = (fun n => if n ∈ evNames e then some e.jar else own n) := by
  funext n
  unfold claimF
  by_cases hm : n ∈ evNames e
  · rw [if_pos ⟨hm, hreg n hm⟩, if_pos hm]
  · rw [if_neg (fun h => hm h.1), if_neg hm]

theorem claimF_conflict (J : Nat → Bool) (own : T → Option Nat) (st : State T H A R) (e : Event T)
    (h : ∀ n ∈ evNames e, ¬ ((ownedByJ J (own n) = J e.jar) ∨ Free n st)) : claimF J own st e = own := by
  funext n
  unfold claimF
  by_cases hm : n ∈ evNames e
  · rw [if_neg (fun h' => h n hm h'.2)]
  · rw [if_neg (fun h' => hm h'.1)]

/-- **the discipline of the FULL statement.** `own` records which side (jar) claimed a name last. Every
mention of a name `n` by an event `e` is one of
* regular: `e`'s side claimed `n` last (`J`: some jar of `J`; others: not a jar of `J`), or nothing of
  `n` exists (`Free`) - the mention claims `n` for `e.jar`;
* a conflict (`Conflict`): `n` is an existing account of the other side - the mention claims nothing.
  With `ownConfl = false` conflicts are permitted to the jars outside `J` only; with `ghost = false` the
  unused name proposal of an authenticated `add` must not be in conflict.
What stays excluded is exactly the property's "no account name is re-used while sessions / tasks of its
previous owner exist" (`stale_cookie_interferes`, `late_write_interferes`), and logging in to the other
side's account with the right password. -/
def DisciplinedF (E : Env T H A R) (J : Nat → Bool) (ownConfl ghost : Bool) :
    (T → Option Nat) → State T H A R → List (Event T) → Prop
  | _, _, [] => True
  | own, st, e :: es =>
    (∀ n ∈ evNames e, (ownedByJ J (own n) = J e.jar) ∨ Free n st ∨
      ((ownConfl = true ∨ J e.jar = false) ∧ (ghost = true ∨ ghostAdd st e = false) ∧ Conflict E st e n)) ∧
    DisciplinedF E J ownConfl ghost (claimF J own st e) (stepEv E st e).1 es

/-- an unauthenticated `add` whose generated account name is taken: `500`, nothing happens -/
theorem add_taken (E : Env T H A R) (st : State T H A R) (jar : Nat) (name : T) (code file : Option T)
    (parsing : Parsing) (fu fp : T) (hs : st.sess jar = none) (hv : hasAccount fu st.db) :
    (step E st ⟨jar, .add name code file parsing fu fp⟩).1 = st := by
  obtain ⟨x, hx⟩ := find_of_any hv
  have key : ∃ r cs, run (handler E jar (st.sess jar) (.add name code file parsing fu fp)) st.db = (st.db, r, cs) ∧
      r.cookie = .keep := by
    rw [hs]
    simp only [handler, hAdd]
    split
    · exact ⟨_, _, run_reply .., rfl⟩
    · split
      · exact ⟨_, _, run_reply .., rfl⟩
      · simp only [run, exec, hx, reply]
        exact ⟨_, _, rfl, rfl⟩
  obtain ⟨r, cs, hr, hc⟩ := key
  have ⟨a, _, c⟩ := step_of_run E st ⟨jar, .add name code file parsing fu fp⟩ r cs hr
  exact state_ext' a (c hc)

omit [DecidableEq T] in
theorem evNames_le_one (e : Event T) : ∀ m ∈ evNames e, ∀ n ∈ evNames e, m = n := by
  cases e with
  | req rq =>
    obtain ⟨jar, r⟩ := rq
    cases r <;> simp [evNames, reqNames]
    all_goals (intro m hm n hn; rw [hm, hn])
  | _ => simp [evNames]

/-- **every conflict that is not a ghost proposal is a no-op on the state** -/
theorem conflict_noop (E : Env T H A R) (st : State T H A R) (e : Event T) (n : T) (hn : n ∈ evNames e)
    (hc : Conflict E st e n) (hg : ghostAdd st e = false) : (stepEv E st e).1 = st := by
  obtain ⟨hacc, hsess, hlog⟩ := hc
  cases e with
  | req rq =>
    obtain ⟨jar, r⟩ := rq
    cases r with
    | register v p salt =>
      simp only [evNames, reqNames, List.mem_singleton] at hn; subst hn
      have r := register_taken E st jar n p salt hacc
      exact state_ext' r.1 r.2.1
    | update v p salt =>
      simp only [evNames, reqNames, List.mem_singleton] at hn; subst hn
      have r := update_taken E st jar n p salt hacc hsess
      exact state_ext' r.1 r.2.1
    | login v p =>
      have l := login_harmless E st jar v p
      simp only [loginOk, beq_eq_false_iff_ne, ne_eq] at hlog
      exact state_ext' l.1 (l.2.1 hlog)
    | add name code file parsing fu fp =>
      simp only [evNames, reqNames, List.mem_singleton] at hn; subst hn
      simp only [ghostAdd, Option.isSome_eq_false_iff, Option.isNone_iff_eq_none] at hg
      exact add_taken E st jar name code file parsing n fp hg hacc
    | _ => simp [evNames, reqNames] at hn
  | _ => simp [evNames] at hn

/-- the discipline of the full statement without own conflicts and without ghost conflicts implies
`DisciplinedJ'`: every conflict of the others is a no-op on the state -/
theorem disciplinedJ'_of_disciplinedF (E : Env T H A R) (J : Nat → Bool) (ghost : Bool) : ∀ (es : List (Event T)) (own : T → Option Nat)
    (st : State T H A R), DisciplinedF E J false ghost own st es → DisciplinedJ' E J own st es := by
  intro es
  induction es with
  | nil => intro _ _ _; trivial
  | cons e es ih =>
    intro own st h
    obtain ⟨hn, hrest⟩ := h
    by_cases hreg : ∀ n ∈ evNames e, (ownedByJ J (own n) = J e.jar) ∨ Free n st
    · have hfun := claimF_regular J own st e hreg
      rw [hfun] at hrest
      exact Or.inr (Or.inr ⟨hreg, ih _ _ hrest⟩)
    · have hex : ∃ n, n ∈ evNames e ∧ ¬ ((ownedByJ J (own n) = J e.jar) ∨ Free n st) := by
        apply Classical.byContradiction
        intro hne
        apply hreg
        intro n hn'
        apply Classical.byContradiction
        intro h'
        exact hne ⟨n, hn', h'⟩
      obtain ⟨n, hmem, hnot⟩ := hex
      have hc : (false = true ∨ J e.jar = false) ∧ (ghost = true ∨ ghostAdd st e = false) ∧ Conflict E st e n := by
        rcases hn n hmem with h | h | h
        · exact absurd (Or.inl h) hnot
        · exact absurd (Or.inr h) hnot
        · exact h
      have hj : J e.jar = false := by rcases hc.1 with h | h; cases h; exact h
      have hfun : claimF J own st e = own := by
        apply claimF_conflict
        intro m hm
        have : m = n := evNames_le_one e m hm n hmem
        subst this
        exact hnot
      rw [hfun] at hrest
      cases hg : ghostAdd st e with
      | true => exact Or.inr (Or.inl ⟨hg, ih _ _ hrest⟩)
      | false =>
        have hnoop := conflict_noop E st e n hmem hc.2.2 hg
        rw [hnoop] at hrest
        exact Or.inl ⟨hj, hnoop, ih _ _ hrest⟩

/-! ### a Bool checker for `DisciplinedF` -/

theorem freeB_complete (n : T) (st : State T H A R) (jars : List Nat) (h : Free n st) : freeB n st jars = true := by
  simp only [freeB, Bool.and_eq_true, List.all_eq_true, decide_eq_true_eq, Bool.or_eq_true, Bool.not_eq_true']
  refine ⟨⟨⟨⟨h.users, h.probs⟩, h.running⟩, fun k _ => h.sess k⟩, ?_⟩
  intro t ht
  cases hl : live t
  · exact Or.inl rfl
  · exact Or.inr (h.tasks t ht hl)

theorem freeB_iff (n : T) (st : State T H A R) (jars : List Nat) (hs : ∀ k, k ∉ jars → st.sess k = none) :
    freeB n st jars = true ↔ Free n st :=
  ⟨freeB_sound n st jars hs, freeB_complete n st jars⟩

def conflictB (E : Env T H A R) (st : State T H A R) (e : Event T) (n : T) : Bool :=
  st.db.users.any (isUser n) && decide (st.sess e.jar ≠ some n) && !loginOk E st e

theorem conflictB_iff (E : Env T H A R) (st : State T H A R) (e : Event T) (n : T) :
    conflictB E st e n = true ↔ Conflict E st e n := by
  simp only [conflictB, Conflict, hasAccount, Bool.and_eq_true, decide_eq_true_eq, Bool.not_eq_true', and_assoc]

/-- checker for `DisciplinedF` -/
def discF (E : Env T H A R) (J : Nat → Bool) (jars : List Nat) (ownConfl ghost : Bool) :
    (T → Option Nat) → State T H A R → List (Event T) → Bool
  | _, _, [] => true
  | own, st, e :: es =>
    (evNames e).all (fun n => (ownedByJ J (own n) == J e.jar) || freeB n st jars ||
      ((ownConfl || !J e.jar) && (ghost || !ghostAdd st e) && conflictB E st e n)) &&
    discF E J jars ownConfl ghost
      (fun n => if n ∈ evNames e ∧ ((ownedByJ J (own n) == J e.jar) || freeB n st jars) = true then some e.jar else own n)
      (stepEv E st e).1 es

theorem discF_sound (E : Env T H A R) (J : Nat → Bool) (jars : List Nat) (ownConfl ghost : Bool) :
    ∀ (es : List (Event T)) (own : T → Option Nat) (st : State T H A R),
    (∀ k, k ∉ jars → st.sess k = none) → (∀ e ∈ es, e.jar ∈ jars) → discF E J jars ownConfl ghost own st es = true →
    DisciplinedF E J ownConfl ghost own st es := by
  intro es
  induction es with
  | nil => intro _ _ _ _ _; trivial
  | cons e es ih =>
    intro own st hs hj h
    simp only [discF, Bool.and_eq_true, List.all_eq_true] at h
    have hreg : ∀ n, ((ownedByJ J (own n) == J e.jar) || freeB n st jars) = true ↔
        ((ownedByJ J (own n) = J e.jar) ∨ Free n st) := by
      intro n
      rw [Bool.or_eq_true, beq_iff_eq, freeB_iff n st jars hs]
    have hfun : claimF J own st e =
        (fun n => if n ∈ evNames e ∧ ((ownedByJ J (own n) == J e.jar) || freeB n st jars) = true then some e.jar else own n) := by
      funext n
      unfold claimF
      by_cases hc : n ∈ evNames e ∧ ((ownedByJ J (own n) = J e.jar) ∨ Free n st)
      · rw [if_pos hc, if_pos ⟨hc.1, (hreg n).mpr hc.2⟩]
      · rw [if_neg hc, if_neg (fun h' => hc ⟨h'.1, (hreg n).mp h'.2⟩)]
    refine ⟨fun n hn => ?_, ?_⟩
    · have h1 := h.1 n hn
      rw [Bool.or_eq_true] at h1
      rcases h1 with h1 | h1
      · rcases (hreg n).mp h1 with h2 | h2
        · exact Or.inl h2
        · exact Or.inr (Or.inl h2)
      · simp only [Bool.and_eq_true, Bool.or_eq_true, Bool.not_eq_true'] at h1
        exact Or.inr (Or.inr ⟨h1.1.1, h1.1.2, (conflictB_iff E st e n).mp h1.2⟩)
    · rw [hfun]
      refine ih _ _ ?_ (fun e' he' => hj e' (List.mem_cons_of_mem _ he')) h.2
      intro k hk
      rw [stepEv_sess_other E st e k (fun h' => hk (h' ▸ hj e (List.mem_cons_self ..)))]
      exact hs k hk

/-- the user records of the full state `s` under names the alone state `a` does not hold: the names
that are RESERVED as far as the jars in `J` are concerned -/
def foreignUsers (s a : State T H A R) : List (User T H) :=
  s.db.users.filter (fun u => !(a.db.users.any (isUser u.username)))

def reserve (rs : List (User T H)) (a : State T H A R) : State T H A R :=
  { a with db := { a.db with users := a.db.users ++ rs } }

def unreserve (rs : List (User T H)) (a : State T H A R) : State T H A R :=
  { a with db := { a.db with users := a.db.users.filter (fun u => !(rs.any (isUser u.username))) } }

/-- **the alone run with reserved names**: the reference behaviour "the user with the jars `J` is alone,
apart from account names being unique". `s` is the full state, `a` the alone state. Events of other
jars move `s` only. An event of a jar of `J` is executed on the alone state to which the user records
the others hold at that moment are added for the duration of the event (so that `register` / `update`
to such a name is refused, a `login` under such a name is checked against that record, a generated
temporary name that is taken is refused) - nothing else of the others is visible. -/
def runRsv (E : Env T H A R) (J : Nat → Bool) : State T H A R → State T H A R → List (Event T) → List (Nat × Resp T R)
  | _, _, [] => []
  | s, a, e :: es =>
    if J e.jar then
      let rs := foreignUsers s a
      let o := stepEv E (reserve rs a) e
      (match o.2 with | some r => [(e.jar, r)] | none => []) ++ runRsv E J (stepEv E s e).1 (unreserve rs o.1) es
    else runRsv E J (stepEv E s e).1 a es

end
end ServerM
