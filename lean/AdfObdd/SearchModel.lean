import AdfObdd.NgModel
import AdfObdd.CountModel
/-! Executable, fuel-based models of `Adf::nogood_internal` for every built-in heuristic and for
    scripted custom heuristics, and of `two_val_model_counts_logic` — what the driver runs for
    the handle-exact correspondence of C04/C05. -/

namespace SM

/-- splitmix64, shared with the Rust harness for scripted heuristics -/
def splitmix (x : UInt64) : UInt64 :=
  let z := x + 0x9E3779B97F4A7C15
  let z := (z ^^^ (z >>> 30)) * 0xBF58476D1CE4E5B9
  let z := (z ^^^ (z >>> 27)) * 0x94D049BB133111EB
  z ^^^ (z >>> 31)

inductive Heu where
  | simple
  | minPathsMaxVarImp      -- `MinModMinPathsMaxVarImp`
  | maxVarImpMinPaths      -- `MinModMaxVarImpMinPaths`
  | script (seed : Nat)    -- custom heuristic: PRNG-chosen undecided statement and value per call
deriving Repr

def undecided (v : List Nat) : List (Nat × Nat) :=
  (v.zipIdx.filter (fun (t, _) => !isTV t)).map (fun (t, i) => (i, t))

def cmpMinPathsImp (s : Store) (interp : List Nat) (l r : Nat × Nat) : Ordering :=
  match compare (minPaths s l.2) (minPaths s r.2) with
  | .eq => compare (passive s l.1 interp) (passive s r.1 interp)
  | o => o

def cmpImpMinPaths (s : Store) (interp : List Nat) (l r : Nat × Nat) : Ordering :=
  match compare (passive s l.1 interp) (passive s r.1 interp) with
  | .eq => compare (minPaths s l.2) (minPaths s r.2)
  | o => o

/-- the heuristic call: statement and proposed handle (0/1); `time` = number of earlier calls -/
def heuCall (h : Heu) (s : Store) (v : List Nat) (time : Nat) : Option (Nat × Nat) :=
  match h with
  | .simple => (undecided v).head?.map (fun (i, _) => (i, 1))
  | .minPathsMaxVarImp =>
    (minBy (cmpMinPathsImp s v) (undecided v)).map (fun (i, t) => (i, if moreModels (paths s t) then 1 else 0))
  | .maxVarImpMinPaths =>
    (minBy (cmpImpMinPaths s v) (undecided v)).map (fun (i, t) => (i, if moreModels (paths s t) then 1 else 0))
  | .script seed =>
    let u := undecided v
    let r := (splitmix (UInt64.ofNat seed + UInt64.ofNat time * 0x2545F4914F6CDD1D)).toNat
    match u[r % u.length]? with
    | some (i, _) => some (i, (r / 2 ^ 33) % 2)
    | none => none

/-- `heuCall` with the keys of all undecided statements computed once per call (path counts and
dependency sets with shared memos) — what the compiled driver runs -/
def heuCallM (h : Heu) (s : Store) (v : List Nat) (time : Nat) : Option (Nat × Nat) :=
  match h with
  | .simple => (undecided v).head?.map (fun (i, _) => (i, 1))
  | .minPathsMaxVarImp =>
    (Memo.minByK Memo.cmpPI (Memo.keysPI s v (undecided v))).map (fun (i, t) => (i, if moreModels (paths s t) then 1 else 0))
  | .maxVarImpMinPaths =>
    (Memo.minByK Memo.cmpIP (Memo.keysPI s v (undecided v))).map (fun (i, t) => (i, if moreModels (paths s t) then 1 else 0))
  | .script seed =>
    let u := undecided v
    let r := (splitmix (UInt64.ofNat seed + UInt64.ofNat time * 0x2545F4914F6CDD1D)).toNat
    match u[r % u.length]? with
    | some (i, _) => some (i, (r / 2 ^ 33) % 2)
    | none => none

@[csimp] theorem heuCall_eq_heuCallM : @heuCall = @heuCallM := by
  funext h s v time
  cases h with
  | simple => rfl
  | script seed => rfl
  | minPathsMaxVarImp =>
    simp only [heuCall, heuCallM, Memo.keysPI_eq]
    rw [minBy_keyed (fun p => (minPaths s p.2, passive s p.1 v)) (cmpMinPathsImp s v) Memo.cmpPI (fun _ _ => rfl)]
  | maxVarImpMinPaths =>
    simp only [heuCall, heuCallM, Memo.keysPI_eq]
    rw [minBy_keyed (fun p => (minPaths s p.2, passive s p.1 v)) (cmpImpMinPaths s v) Memo.cmpIP (fun _ _ => rfl)]

/-- `conclusion_closure` with an explicit bound on the number of rounds (each round decides at
least one more position, so `length + 1` rounds suffice) -/
def closureRounds (buckets : List (List PA)) : Nat → List Nat → ClosT
  | 0, r => ClosT.update r
  | fuel+1, r =>
    match conclusions buckets (toPA r) with
    | none => ClosT.inconsistent
    | some val =>
      let u := updateTerms val r
      if u.2 then closureRounds buckets fuel u.1 else ClosT.update u.1

def closureF (buckets : List (List PA)) (interp : List Nat) : ClosT :=
  match conclusions buckets (toPA interp) with
  | none => ClosT.inconsistent
  | some val =>
    let u := updateTerms val interp
    if !u.2 then ClosT.noUpdate else closureRounds buckets (interp.length + 1) u.1

structure NgS where
  s : Store
  cur : List Nat
  buckets : List (List PA)
  stack : List (Bool × PA)
  hist : List (List Nat)
  backtrack : Bool := false
  choice : Bool := false
  out : List (List Nat) := []
  trace : List (List Nat) := []
  time : Nat := 0
  done : Bool := false

/-- the pop loop of the backtrack step -/
def popLoop (buckets : List (List PA)) (cur : List Nat) (hist : List (List Nat)) :
    List (Bool × PA) → List (List PA) × List (Bool × PA) × List Nat × List (List Nat)
  | [] => (buckets, [], cur, hist)
  | (ch, g) :: rest =>
    let buckets := addNg buckets g
    if ch then (buckets, rest, hist.headD cur, hist.tail) else popLoop buckets cur hist rest

/-- one iteration of the `loop` of `nogood_internal` -/
def ngIter (h : Heu) (n : Nat) (ac : List Nat) (stable : Bool) (st : NgS) : NgS :=
  -- choice
  let st := if st.choice then
      match heuCall h st.s st.cur st.time with
      | some (v, t) =>
        let cur' := st.cur.set v t
        { st with choice := false, hist := st.cur :: st.hist, cur := cur', stack := (true, toPA cur') :: st.stack,
                  trace := st.trace ++ [st.cur], time := st.time + 1 }
      | none => { st with choice := false, backtrack := true, trace := st.trace ++ [st.cur], time := st.time + 1 }
    else st
  -- backtrack
  if st.backtrack && st.stack.isEmpty then { st with done := true } else
  let st := if st.backtrack then
      let p := popLoop st.buckets st.cur st.hist st.stack
      { st with backtrack := false, buckets := p.1, stack := p.2.1, cur := p.2.2.1, hist := p.2.2.2 }
    else st
  -- closure under the learned nogoods
  match closureF st.buckets st.cur with
  | ClosT.inconsistent => { st with backtrack := true }
  | cl =>
    let (st, updNg) := match cl with
      | ClosT.update r => ({ st with cur := r, stack := (false, toPA r) :: st.stack }, true)
      | _ => (st, false)
    -- consistency with the acceptance conditions
    let acr := applyInterp st.s st.cur ac
    let st := { st with s := acr.1 }
    let bad := (st.cur.zip acr.2).any (fun (c, a) => isTV c && isTV a && (c != a))
    if bad then { st with backtrack := true } else
    -- one propagation step
    let upd := applyInterp st.s st.cur st.cur
    let st := { st with s := upd.1 }
    let updFp := upd.2 != st.cur
    let st := { st with cur := upd.2 }
    if updFp then st
    else if updNg then st
    else if !(st.cur.all isTV) then { st with choice := true }
    else
      let chk := if stable then stabilityCheck st.s n ac st.cur else (st.s, true)
      let st := { st with s := chk.1 }
      if chk.2 then
        { st with stack := (false, toPA st.cur) :: st.stack, out := st.out ++ [st.cur], backtrack := true }
      else
        { st with stack := (false, toPA st.cur) :: st.stack, backtrack := true }

def ngRun (h : Heu) (n : Nat) (ac : List Nat) (stable : Bool) : Nat → NgS → NgS
  | 0, st => st
  | fuel+1, st => if st.done then st else ngRun h n ac stable fuel (ngIter h n ac stable st)

/-- `stable_nogood(heu)` / `two_val_nogood_channel(heu)`: (store, emitted vectors in order,
interpretations shown to the heuristic in order, halted within the fuel) -/
def ngSearch (h : Heu) (fuel : Nat) (s : Store) (n : Nat) (ac : List Nat) (stable : Bool) :
    Store × List (List Nat) × List (List Nat) × Bool :=
  let g := groundedLoop StoreRA (n + 1) s ac
  let r := ngRun h n ac stable fuel
    { s := g.1, cur := g.2, buckets := List.replicate (n + 1) [], stack := [], hist := [] }
  (r.s, r.out, r.trace, r.done)

end SM
