import AdfObdd.Base
/-! nogoods and the (repaired: D8a, D10 indexing) nogood store: `conclude`, `is_violating`, `conclusions` -/

abbrev PA := List (Option Bool)          -- partial assignment / nogood / interpretation

def pget (g : PA) (i : Nat) : Option Bool := (g[i]?).getD none

def size (g : PA) : Nat := (g.filter Option.isSome).length

/-- `self.active \ other.active` -/
def implPos (self other : PA) : List Nat :=
  (List.range self.length).filter (fun i => (pget self i).isSome && (pget other i).isNone)

/-- both active, different value -/
def mismatch (self other : PA) : Bool :=
  (List.range self.length).any (fun i =>
    match pget self i, pget other i with
    | some a, some b => a != b
    | _, _ => false)

def conclude (self other : PA) : Option (Nat × Bool) :=
  match implPos self other with
  | [p] => if mismatch self other then none else
            match pget self p with
            | some v => some (p, !v)
            | none => none
  | _ => none

/-- `self.is_violating(other)`: every assignment of `self` is matched by `other` -/
def violating (self other : PA) : Bool :=
  (List.range self.length).all (fun i =>
    match pget self i with
    | none => true
    | some a => pget other i == some a)

def Matches (g : PA) (σ : Asg) : Prop := ∀ i b, pget g i = some b → σ i = b

theorem pget_lt {g : PA} {i : Nat} {b : Bool} (h : pget g i = some b) : i < g.length := by
  unfold pget at h
  rcases Nat.lt_or_ge i g.length with h' | h'
  · exact h'
  · simp [List.getElem?_eq_none h'] at h

theorem violating_iff (self other : PA) :
    violating self other = true ↔ ∀ i a, pget self i = some a → pget other i = some a := by
  unfold violating
  rw [List.all_eq_true]
  constructor
  · intro h i a hi
    have := h i (List.mem_range.mpr (pget_lt hi))
    simp only [hi] at this
    simpa using this
  · intro h i _
    cases hg : pget self i with
    | none => rfl
    | some a => simp [h i a hg]

theorem mismatch_false {self other : PA} (h : mismatch self other = false) :
    ∀ i a b, pget self i = some a → pget other i = some b → a = b := by
  intro i a b ha hb
  unfold mismatch at h
  rw [List.any_eq_false] at h
  have := h i (List.mem_range.mpr (pget_lt ha))
  simp only [ha, hb] at this
  simpa using this

theorem implPos_mem {self other : PA} {i : Nat} :
    i ∈ implPos self other ↔ (pget self i).isSome = true ∧ pget other i = none := by
  unfold implPos
  rw [List.mem_filter, List.mem_range]
  constructor
  · intro ⟨_, h⟩
    simp only [Bool.and_eq_true] at h
    exact ⟨h.1, by simpa using h.2⟩
  · intro ⟨h1, h2⟩
    refine ⟨?_, by simp [h1, h2]⟩
    cases hg : pget self i with
    | none => simp [hg] at h1
    | some a => exact pget_lt hg

/-- T1: a conclusion is forced: every total assignment that extends `other` and does not
match the nogood `self` gives the concluded value. -/
theorem conclude_some {self other : PA} {p : Nat} {b : Bool} (h : conclude self other = some (p, b)) :
    implPos self other = [p] ∧ mismatch self other = false ∧ pget self p = some (!b) := by
  unfold conclude at h
  cases hp : implPos self other with
  | nil => simp [hp] at h
  | cons p' rest =>
    cases rest with
    | cons _ _ => simp [hp] at h
    | nil =>
      simp only [hp] at h
      cases hmm : mismatch self other with
      | true => simp [hmm] at h
      | false =>
        simp only [hmm, Bool.false_eq_true, if_false] at h
        cases hv : pget self p' with
        | none => simp [hv] at h
        | some v =>
          simp only [hv, Option.some.injEq, Prod.mk.injEq] at h
          obtain ⟨rfl, rfl⟩ := h
          exact ⟨rfl, rfl, by simp [hv]⟩

/-- T1: a conclusion is forced: every total assignment that extends `other` and does not
match the nogood `self` gives the concluded value. -/
theorem conclude_sound {self other : PA} {p : Nat} {b : Bool} (h : conclude self other = some (p, b))
    (σ : Asg) (hm : Matches other σ) (hav : ¬ Matches self σ) : σ p = b := by
  have ⟨hp, hmm, hv⟩ := conclude_some h
  false_or_by_contra
  rename_i hne
  apply hav
  intro i a hi
  by_cases hip : i = p
  · subst hip
    rw [hv] at hi; cases hi
    cases hσ : σ i <;> cases b <;> simp_all
  · cases ho : pget other i with
    | some c =>
      have := mismatch_false hmm i a c hi ho
      subst this
      exact hm i a ho
    | none =>
      have : i ∈ implPos self other := implPos_mem.mpr ⟨by simp [hi], ho⟩
      rw [hp] at this
      simp at this
      exact absurd this hip

/-! ### the store -/

def setAt (g : PA) (i : Nat) (v : Bool) : PA :=
  if i < g.length then g.set i (some v) else g ++ List.replicate (i - g.length) none ++ [some v]

theorem pget_setAt (g : PA) (i j : Nat) (v : Bool) :
    pget (setAt g i v) j = if j = i then some v else pget g j := by
  unfold setAt pget
  by_cases h : i < g.length
  · rw [if_pos h]
    by_cases hj : j = i
    · subst hj; simp [h]
    · rw [if_neg hj, List.getElem?_set_ne (Ne.symm hj)]
  · rw [if_neg h]
    by_cases hj : j = i
    · subst hj
      rw [if_pos rfl]
      have : (g ++ List.replicate (j - g.length) none).length = j := by simp; omega
      rw [List.getElem?_append_right (by omega)]
      simp [this]
    · rw [if_neg hj]
      rcases Nat.lt_or_ge j g.length with h1 | h1
      · rw [List.append_assoc, List.getElem?_append_left h1]
      · rw [List.getElem?_eq_none h1]
        rcases Nat.lt_or_ge j i with h2 | h2
        · rw [List.getElem?_append_left (by simp; omega), List.getElem?_append_right h1]
          simp only [List.getElem?_replicate]
          split <;> rfl
        · rw [List.getElem?_eq_none (by simp; omega)]

def consistentPairs (ps : List (Nat × Bool)) : Bool :=
  ps.all (fun x => ps.all (fun y => x.1 != y.1 || x.2 == y.2))

def mergePairs (acc : PA) (ps : List (Nat × Bool)) : PA := ps.foldl (fun a x => setAt a x.1 x.2) acc

def bucketStep (interp : PA) (acc : Option PA) (bucket : List PA) : Option PA :=
  match acc with
  | none => none
  | some acc =>
    let pairs := bucket.filterMap (fun g => conclude g interp)
    if pairs.isEmpty || !consistentPairs pairs then some acc
    else if pairs.any (fun x => pget acc x.1 == some (!x.2)) then none
    else some (mergePairs acc pairs)

/-- the buckets `conclusions` looks at: bucket `k` holds the nogoods of size `k` (repaired
indexing, D10), and the filter `*len <= nogood.len() + 1` keeps the indices `0 … size interp + 1`,
i.e. the first `size interp + 2` buckets (`relevant_eq_filter` in `NgStore.lean` states the
equality with the enumerate/filter form of the code) -/
def relevant (store : List (List PA)) (interp : PA) : List (List PA) := store.take (size interp + 2)

def conclusions (store : List (List PA)) (interp : PA) : Option PA :=
  match (relevant store interp).foldl (bucketStep interp) (some interp) with
  | none => none
  | some result =>
    if (relevant store interp).any (fun b => b.any (fun e => violating e result || violating e interp))
    then none else some result

def AvoidsAll (store : List (List PA)) (σ : Asg) : Prop := ∀ b ∈ store, ∀ g ∈ b, ¬ Matches g σ

structure Forced (store : List (List PA)) (interp acc : PA) : Prop where
  keep : ∀ i b, pget interp i = some b → pget acc i = some b
  forced : ∀ σ, Matches interp σ → AvoidsAll store σ → Matches acc σ

theorem relevant_sub {store : List (List PA)} {interp : PA} {b : List PA}
    (h : b ∈ relevant store interp) : b ∈ store := by
  exact List.mem_of_mem_take h

def ForcedLit (store : List (List PA)) (interp : PA) (x : Nat × Bool) : Prop :=
  pget interp x.1 = none ∧ ∀ σ, Matches interp σ → AvoidsAll store σ → σ x.1 = x.2

theorem merge_forced {store : List (List PA)} {interp : PA} : ∀ (ps : List (Nat × Bool)) (acc : PA),
    Forced store interp acc → (∀ x ∈ ps, ForcedLit store interp x) →
    Forced store interp (mergePairs acc ps) := by
  intro ps
  induction ps with
  | nil => intro acc h _; exact h
  | cons x ps ih =>
    intro acc h hx
    unfold mergePairs
    simp only [List.foldl_cons]
    apply ih
    · have ⟨hn, hf⟩ := hx x (List.mem_cons_self ..)
      constructor
      · intro i b hi
        rw [pget_setAt]
        have : i ≠ x.1 := by intro e; rw [e, hn] at hi; cases hi
        rw [if_neg this]; exact h.keep i b hi
      · intro σ hm ha i b hi
        rw [pget_setAt] at hi
        by_cases e : i = x.1
        · rw [if_pos e] at hi; cases hi; rw [e]; exact hf σ hm ha
        · rw [if_neg e] at hi; exact h.forced σ hm ha i b hi
    · intro y hy; exact hx y (List.mem_cons_of_mem _ hy)

theorem pairs_forced {store : List (List PA)} {interp : PA} {bucket : List PA} (hb : bucket ∈ store) :
    ∀ x ∈ bucket.filterMap (fun g => conclude g interp), ForcedLit store interp x := by
  intro x hx
  rw [List.mem_filterMap] at hx
  obtain ⟨g, hg, hc⟩ := hx
  have ⟨hp, _, _⟩ := conclude_some (p := x.1) (b := x.2) hc
  have hmem : x.1 ∈ implPos g interp := by rw [hp]; simp
  refine ⟨(implPos_mem.mp hmem).2, ?_⟩
  intro σ hm ha
  exact conclude_sound (p := x.1) (b := x.2) hc σ hm (ha bucket hb g hg)

/-- one bucket: either the accumulated conclusions stay forced, or there is a real conflict -/
theorem bucketStep_spec {store : List (List PA)} {interp : PA} {bucket : List PA} (hb : bucket ∈ store)
    (acc : PA) (h : Forced store interp acc) :
    (∀ r, bucketStep interp (some acc) bucket = some r → Forced store interp r) ∧
    (bucketStep interp (some acc) bucket = none → ∀ σ, Matches interp σ → ¬ AvoidsAll store σ) := by
  unfold bucketStep
  simp only
  have hpf := pairs_forced (interp := interp) hb
  generalize bucket.filterMap (fun g => conclude g interp) = pairs at *
  by_cases c1 : (pairs.isEmpty || !consistentPairs pairs) = true
  · rw [if_pos c1]
    exact ⟨(fun r hr => by cases hr; exact h), (fun hn => by cases hn)⟩
  · rw [if_neg c1]
    by_cases c2 : pairs.any (fun x => pget acc x.1 == some (!x.2)) = true
    · rw [if_pos c2]
      refine ⟨(fun r hr => by cases hr), fun _ σ hm ha => ?_⟩
      rw [List.any_eq_true] at c2
      obtain ⟨x, hx, hc⟩ := c2
      have hacc : pget acc x.1 = some (!x.2) := by simpa using hc
      have h1 := (hpf x hx).2 σ hm ha
      have h2 := h.forced σ hm ha x.1 _ hacc
      rw [h1] at h2
      cases hx2 : x.2 <;> simp [hx2] at h2
    · rw [if_neg c2]
      exact ⟨(fun r hr => by cases hr; exact merge_forced pairs acc h hpf), (fun hn => by cases hn)⟩

theorem fold_spec {store : List (List PA)} {interp : PA} : ∀ (bs : List (List PA)), (∀ b ∈ bs, b ∈ store) →
    ∀ (acc : PA), Forced store interp acc →
    (∀ r, bs.foldl (bucketStep interp) (some acc) = some r → Forced store interp r) ∧
    (bs.foldl (bucketStep interp) (some acc) = none → ∀ σ, Matches interp σ → ¬ AvoidsAll store σ) := by
  intro bs
  induction bs with
  | nil => intro _ acc h; exact ⟨(fun r hr => by cases hr; exact h), (fun hn => by cases hn)⟩
  | cons b bs ih =>
    intro hbs acc h
    simp only [List.foldl_cons]
    have ⟨s1, s2⟩ := bucketStep_spec (hbs b (List.mem_cons_self ..)) acc h
    cases hstep : bucketStep interp (some acc) b with
    | none =>
      have hnone : ∀ (l : List (List PA)), l.foldl (bucketStep interp) none = none := by
        intro l; induction l with
        | nil => rfl
        | cons _ _ ih' => simp only [List.foldl_cons]; exact ih'
      rw [hnone]
      exact ⟨(fun r hr => by cases hr), fun _ => s2 hstep⟩
    | some r1 =>
      exact ih (fun b' hb' => hbs b' (List.mem_cons_of_mem _ hb')) r1 (s1 r1 hstep)

/-- T2 + T3 for the repaired `conclusions` -/
theorem conclusions_sound (store : List (List PA)) (interp : PA) :
    (∀ r, conclusions store interp = some r → Forced store interp r) ∧
    (conclusions store interp = none → ∀ σ, Matches interp σ → ¬ AvoidsAll store σ) := by
  have h0 : Forced store interp interp := ⟨fun _ _ h => h, fun _ hm _ => hm⟩
  have ⟨f1, f2⟩ := fold_spec (relevant store interp) (fun b hb => relevant_sub hb) interp h0
  unfold conclusions
  cases hf : (relevant store interp).foldl (bucketStep interp) (some interp) with
  | none => exact ⟨(fun r hr => by cases hr), fun _ => f2 hf⟩
  | some result =>
    simp only
    have hF := f1 result hf
    by_cases c : (relevant store interp).any (fun b => b.any (fun e => violating e result || violating e interp)) = true
    · rw [if_pos c]
      refine ⟨(fun r hr => by cases hr), fun _ σ hm ha => ?_⟩
      rw [List.any_eq_true] at c
      obtain ⟨b, hb, hc⟩ := c
      rw [List.any_eq_true] at hc
      obtain ⟨e, he, hv⟩ := hc
      apply ha b (relevant_sub hb) e he
      rw [Bool.or_eq_true] at hv
      rcases hv with hv | hv
      · intro i a hi
        exact hF.forced σ hm ha i a ((violating_iff e result).mp hv i a hi)
      · intro i a hi
        exact hm i a ((violating_iff e interp).mp hv i a hi)
    · rw [if_neg c]
      exact ⟨(fun r hr => by cases hr; exact hF), (fun hn => by cases hn)⟩
#print axioms conclusions_sound
