import AdfObdd.StoreIte
import AdfObdd.Deps
/-! prototype 26: the `variablelist` shortcut of `restrict` ("variable not in the diagram ⇒
    return the diagram") agrees, handle for handle and node table for node table, with the
    body that does the full recursion (C12 for `restrict`) -/

theorem restrict_absent (s : Store) (w : WF s) : ∀ (fuel t v : Nat) (b : Bool), t < s.nodes.size → t < fuel →
    v ∉ depsF s fuel t →
    (restrictF fuel s t v b).1.nodes = s.nodes ∧ (restrictF fuel s t v b).2 = t := by
  intro fuel
  induction fuel generalizing s with
  | zero => intro t v b _ h; omega
  | succ f ih =>
    intro t v b ht hf hv
    have hindep : ∀ σ, eval s t (upd σ v b) = eval s t σ := by
      intro σ
      have hv' : v ∉ depsF s (t+1) t := by
        -- fuel irrelevance of depsF is not needed: use the instance at hand through monotone fuel
        intro hm; apply hv
        -- depsF with more fuel lists at least the same variables
        have mono : ∀ (g t' x : Nat), x ∈ depsF s g t' → ∀ g', g ≤ g' → x ∈ depsF s g' t' := by
          intro g
          induction g with
          | zero => intro t' x h; simp [depsF] at h
          | succ g ihg =>
            intro t' x h g' hg
            cases g' with
            | zero => omega
            | succ g' =>
              unfold depsF at h ⊢
              by_cases h2 : t' < 2
              · rw [if_pos h2] at h; cases h
              · rw [if_neg h2] at h ⊢
                cases hn : s.nodes[t']? with
                | none => simp [hn] at h
                | some n =>
                  simp only [hn] at h ⊢
                  rcases List.mem_cons.mp h with rfl | h
                  · exact List.mem_cons_self ..
                  · apply List.mem_cons_of_mem
                    rcases List.mem_append.mp h with h | h
                    · exact List.mem_append_left _ (ihg _ _ h g' (by omega))
                    · exact List.mem_append_right _ (ihg _ _ h g' (by omega))
        exact mono (t+1) t v hm (f+1) (by omega)
      exact depsF_indep s w (t+1) t v ht (by omega) hv' σ b
    unfold restrictF
    cases hm : s.resC[(t, v, b)]? with
    | some r =>
      simp only
      have ⟨_, a, _, c⟩ := w.resOK t v b r hm
      refine ⟨trivial, ?_⟩
      apply (canonical s w r t a ht).mp
      intro σ; rw [c σ, hindep σ]
    | none =>
      simp only
      obtain ⟨n, hn⟩ := get_of_lt ht
      simp only [hn]
      by_cases hc1 : n.var > v ∨ n.var ≥ VBOT
      · rw [if_pos hc1]; exact ⟨rfl, rfl⟩
      · rw [if_neg hc1]
        have ht2 : 2 ≤ t := inner_of_not_const w hn (by omega)
        have ⟨hvb, hlo, hhi, hne, _, _⟩ := w.inner t n ht2 hn
        unfold depsF at hv
        rw [if_neg (by omega)] at hv
        simp only [hn] at hv
        have hvn : v ≠ n.var := fun e => hv (e ▸ List.mem_cons_self ..)
        have hvlo : v ∉ depsF s f n.lo := fun m => hv (List.mem_cons_of_mem _ (List.mem_append_left _ m))
        have hvhi : v ∉ depsF s f n.hi := fun m => hv (List.mem_cons_of_mem _ (List.mem_append_right _ m))
        have hc2 : n.var < v := by omega
        rw [if_pos hc2]
        simp only
        -- left child
        have ⟨n1, r1⟩ := ih s w n.lo v b (by omega) (by omega) hvlo
        have ⟨w1, e1, _, _, _⟩ := restrictF_spec f s n.lo v b w (by omega) (by omega)
        -- right child, on the store returned by the first call (same node table)
        have hdeps_eq : ∀ (g t' : Nat), depsF (restrictF f s n.lo v b).1 g t' = depsF s g t' := by
          intro g
          induction g with
          | zero => intro t'; rfl
          | succ g ihg => intro t'; unfold depsF; rw [n1]; simp only [ihg]
        have ⟨n2, r2⟩ := ih (restrictF f s n.lo v b).1 w1 n.hi v b (by rw [n1]; omega) (by omega)
          (by rw [hdeps_eq]; exact hvhi)
        have ⟨w2, _, _, _, _⟩ := restrictF_spec f (restrictF f s n.lo v b).1 n.hi v b w1 (by rw [n1]; omega) (by omega)
        rw [r1, r2]
        -- the unique table already knows the node
        have n12 : (restrictF f (restrictF f s n.lo v b).1 n.hi v b).1.nodes = s.nodes := n2.trans n1
        have hu : (restrictF f (restrictF f s n.lo v b).1 n.hi v b).1.uniq[(⟨n.var, n.lo, n.hi⟩ : Node)]? = some t := by
          apply (w2.uniqOK _ t).mpr
          refine ⟨ht2, ?_⟩
          rw [n12]; exact hn
        have hmk : mkNode (restrictF f (restrictF f s n.lo v b).1 n.hi v b).1 n.var n.lo n.hi =
            ((restrictF f (restrictF f s n.lo v b).1 n.hi v b).1, t) := by
          unfold mkNode; rw [if_neg hne, hu]
        rw [hmk]
        exact ⟨n12, rfl⟩
#print axioms restrict_absent
