import AdfObdd.Complete
import AdfObdd.IterFull
import AdfObdd.Stable
/-! `Adf::complete` end to end: the store-threading fold over the three-valued iterator is a
    plain filter by "decided part is a fixpoint of Γ"; with C20 (every refinement of the grounded
    vector exactly once, the grounded vector first) and C01 (the grounded interpretation is the
    least fixpoint) this gives: the answers, read as three-valued interpretations, are exactly
    the complete interpretations, each once, the grounded one first. -/
open IterFull

namespace CompleteExact

/-! ### the fold, for every lawful back-end -/
section generic
variable {S T : Type} (A : RA S T)

/-- the verdict of the filter does not depend on the (extended) store it is computed in -/
theorem check_indep (s s0 : S) (ac v : List T) (hi0 : A.Inv s0) (hle : A.Le s0 s) (hi : A.Inv s)
    (hv : AllValid A s0 v) (ha : AllValid A s0 ac) (hl : ac.length = v.length) :
    (completeCheck A s v ac v).2 = (completeCheck A s0 v ac v).2 := by
  have ⟨_, _, h1⟩ := completeCheck_spec A v ac v s s0 hi0 hle hi hv ha hv hl
  have ⟨_, _, h2⟩ := completeCheck_spec A v ac v s0 s0 hi0 (A.le_refl _) hi0 hv ha hv hl
  exact Bool.eq_iff_iff.mpr (h1.trans h2.symm)

/-- one step of the loop of `Adf::complete` -/
def cstep (ac : List T) (acc : S × List (List T)) (v : List T) : S × List (List T) :=
  let c := completeCheck A acc.1 v ac v
  (c.1, if c.2 then acc.2 ++ [v] else acc.2)

/-- the store-threading loop keeps the invariant, only extends the store, and collects exactly
the candidates that pass the filter evaluated in the initial store -/
theorem fold_spec (s0 : S) (ac : List T) (hi0 : A.Inv s0) (ha : AllValid A s0 ac) :
    ∀ (vs : List (List T)) (acc : S × List (List T)),
      (∀ v ∈ vs, AllValid A s0 v ∧ ac.length = v.length) → A.Inv acc.1 → A.Le s0 acc.1 →
      A.Inv (vs.foldl (cstep A ac) acc).1 ∧ A.Le acc.1 (vs.foldl (cstep A ac) acc).1 ∧
      (vs.foldl (cstep A ac) acc).2 = acc.2 ++ vs.filter (fun v => (completeCheck A s0 v ac v).2) := by
  intro vs
  induction vs with
  | nil => intro acc _ hi hle; exact ⟨hi, A.le_refl _, by simp⟩
  | cons v vs ih =>
    intro acc hvs hi hle
    have ⟨hv, hl⟩ := hvs v (List.mem_cons_self ..)
    have ⟨i1, l1, _⟩ := completeCheck_spec A v ac v acc.1 s0 hi0 hle hi hv ha hv hl
    have e := check_indep A acc.1 s0 ac v hi0 hle hi hv ha hl
    have ⟨i2, l2, h2⟩ := ih (cstep A ac acc v) (fun w hw => hvs w (List.mem_cons_of_mem _ hw)) i1
      (A.le_trans hle l1)
    rw [List.foldl_cons]
    refine ⟨i2, A.le_trans l1 l2, ?_⟩
    rw [h2, List.filter_cons]
    simp only [cstep, e]
    cases (completeCheck A s0 v ac v).2 <;> simp
end generic

/-! ### handles and information values -/

theorem sic_eq_iff (a b : Nat) : storeIsConst a = storeIsConst b ↔ (a = b ∨ (2 ≤ a ∧ 2 ≤ b)) := by
  unfold storeIsConst
  by_cases a0 : a = 0 <;> by_cases a1 : a = 1 <;> by_cases b0 : b = 0 <;> by_cases b1 : b = 1 <;>
    simp [a0, a1, b0, b1] <;> omega

theorem sic_some (a : Nat) (b : Bool) : storeIsConst a = some b ↔ a = (if b then 1 else 0) := by
  unfold storeIsConst
  by_cases a0 : a = 0 <;> by_cases a1 : a = 1 <;> cases b <;> simp [a0, a1] <;> omega

theorem sic_none (a : Nat) : storeIsConst a = none ↔ 2 ≤ a := by
  unfold storeIsConst
  by_cases a0 : a = 0 <;> by_cases a1 : a = 1 <;> simp [a0, a1] <;> omega

theorem nodup_map_on {α β : Type} (f : α → β) (l : List α) (h : l.Nodup)
    (inj : ∀ a ∈ l, ∀ b ∈ l, f a = f b → a = b) : (l.map f).Nodup := by
  unfold List.Nodup at *
  rw [List.pairwise_map]
  exact List.Pairwise.imp_of_mem (fun ha hb hne he => hne (inj _ ha _ hb he)) h

/-- two refinements of one vector with the same decided part are the same vector -/
theorem refinement_inj (v w1 w2 : List Nat) (h1 : isRefinement w1 v) (h2 : isRefinement w2 v)
    (he : w1.map storeIsConst = w2.map storeIsConst) : w1 = w2 := by
  apply List.ext_getElem?
  intro i
  rcases Nat.lt_or_ge i v.length with hi | hi
  · have l1 : i < w1.length := by rw [h1.1]; exact hi
    have l2 : i < w2.length := by rw [h2.1]; exact hi
    rw [get?_of_lt w1 l1, get?_of_lt w2 l2]
    congr 1
    have e := congrArg (fun l => l[i]?) he
    simp only [List.getElem?_map, get?_of_lt w1 l1, get?_of_lt w2 l2, Option.map_some,
      Option.some.injEq] at e
    rw [sic_eq_iff] at e
    have a := h1.2 i hi
    have b := h2.2 i hi
    split at a <;> split at b <;> omega
  · rw [List.getElem?_eq_none (by rw [h1.1]; exact hi), List.getElem?_eq_none (by rw [h2.1]; exact hi)]

/-- the handle vector with decided part `w` over the residuals of `g` -/
def pick (o : Option Bool) (t : Nat) : Nat :=
  match o with | some false => 0 | some true => 1 | none => t

def lift (w : I3) (g : List Nat) : List Nat := List.zipWith pick w g

theorem lift_get (w : I3) (g : List Nat) (i : Nat) (o : Option Bool) (t : Nat) (hw : w[i]? = some o)
    (hg : g[i]? = some t) :
    (lift w g)[i]? = some (pick o t) := by
  simp [lift, List.getElem?_zipWith, hw, hg]

/-- an interpretation above the decided part of `g` is the decided part of a refinement of `g` -/
theorem lift_spec (w : I3) (g : List Nat) (hl : w.length = g.length)
    (hle : Le3 (g.map storeIsConst) w) :
    isRefinement (lift w g) g ∧ (lift w g).map storeIsConst = w := by
  have hlen : (lift w g).length = g.length := by simp [lift, List.length_zipWith, hl]
  have key : ∀ i, i < g.length → ∃ o t, w[i]? = some o ∧ g[i]? = some t ∧ g.getD i 0 = t ∧
      (lift w g)[i]? = some (pick o t) ∧
      (∀ b, storeIsConst t = some b → o = some b) := by
    intro i hi
    have hwi : i < w.length := by omega
    refine ⟨w[i], g[i], List.getElem?_eq_getElem hwi, List.getElem?_eq_getElem hi, ?_, ?_, ?_⟩
    · simp [List.getD, List.getElem?_eq_getElem hi]
    · exact lift_get w g i _ _ (List.getElem?_eq_getElem hwi) (List.getElem?_eq_getElem hi)
    · intro b hb
      have := hle i b (by simp [List.getElem?_map, List.getElem?_eq_getElem hi, hb])
      rw [List.getElem?_eq_getElem hwi] at this
      simpa using this
  constructor
  · refine ⟨hlen, ?_⟩
    intro i hi
    obtain ⟨o, t, hw, hg, hgd, hlf, hc⟩ := key i hi
    rw [getD_eq_of_get? hlf, hgd]
    cases o with
    | none =>
      by_cases h : t < 2 <;> simp [h, pick]
    | some b =>
      by_cases h : t < 2
      · rw [if_pos h]
        have : t = 0 ∨ t = 1 := by omega
        rcases this with h0 | h0
        · have := hc false ((sic_some t false).mpr (by simp [h0]))
          cases this; simp [h0, pick]
        · have := hc true ((sic_some t true).mpr (by simp [h0]))
          cases this; simp [h0, pick]
      · rw [if_neg h]
        cases b <;> simp [pick]
  · apply List.ext_getElem?
    intro i
    rcases Nat.lt_or_ge i g.length with hi | hi
    · obtain ⟨o, t, hw, hg, hgd, hlf, hc⟩ := key i hi
      rw [List.getElem?_map, hlf, hw, Option.map_some]
      congr 1
      cases o with
      | some b => cases b <;> simp [storeIsConst, pick]
      | none =>
        simp only [pick]
        cases hs : storeIsConst t with
        | none => rfl
        | some b => have := hc b hs; cases this
    · rw [List.getElem?_eq_none (by simp [hlen]; exact hi), List.getElem?_eq_none (by omega)]

/-- a refinement of a valid vector is valid -/
theorem refinement_valid (s : Store) (hs : 2 ≤ s.nodes.size) (g v : List Nat)
    (hg : ∀ t ∈ g, t < s.nodes.size) (h : isRefinement v g) : ∀ t ∈ v, t < s.nodes.size := by
  intro t ht
  obtain ⟨i, hi, rfl⟩ := List.getElem_of_mem ht
  have hig : i < g.length := by rw [← h.1]; exact hi
  have e1 : v.getD i 0 = v[i] := by simp [List.getD, List.getElem?_eq_getElem hi]
  have e2 : g.getD i 0 = g[i] := by simp [List.getD, List.getElem?_eq_getElem hig]
  have hgi : g[i] < s.nodes.size := hg _ (List.getElem_mem hig)
  have := h.2 i hig
  rw [e1, e2] at this
  split at this <;> omega

/-! ### `completeAll` -/

theorem completeAll_exact (s : Store) (n : Nat) (ac : List Nat) (hw : WF s) (hn : ac.length = n)
    (hv : ∀ t ∈ ac, t < s.nodes.size) :
    ((completeAll s n ac).2.2.map (fun v => v.map storeIsConst)).Nodup ∧
    (∀ w : I3, w ∈ (completeAll s n ac).2.2.map (fun v => v.map storeIsConst) ↔
      (w.length = n ∧ Gam (ac.map (eval s)) w = w)) ∧
    (completeAll s n ac).2.2.head? = some (completeAll s n ac).2.1 := by
  obtain ⟨gi, gle, gv, _⟩ := groundedLoop_sem StoreRA (n+1) s ac hw hv
  obtain ⟨gfix, gleast⟩ := grounded_native (n+1) s ac hw hv (by omega)
  generalize hg : groundedLoop StoreRA (n+1) s ac = g at gi gle gv gfix gleast
  have hglen : g.2.length = n := by
    have := congrArg List.length gfix
    simpa [Gam, hn] using this.symm
  have hac : AllValid StoreRA g.1 ac := AllValid.mono StoreRA hv gle
  have hD : ac.map (StoreRA.den g.1) = ac.map (eval s) := map_den_mono StoreRA hw gle hv
  have hvs : ∀ v ∈ threeValAll g.2, AllValid StoreRA g.1 v ∧ ac.length = v.length := by
    intro v hv'
    have hr := (mem_enum3_iff_refinement g.2 v).mp (by rw [← threeValAll_eq_enum3]; exact hv')
    exact ⟨refinement_valid g.1 gi.len g.2 v gv hr, by rw [hr.1, hglen, hn]⟩
  have key := fold_spec StoreRA g.1 ac gi hac (threeValAll g.2) (g.1, []) hvs gi (Ext.refl _)
  have hr : (completeAll s n ac).2.2 =
      (threeValAll g.2).filter (fun v => (completeCheck StoreRA g.1 v ac v).2) := by
    have := key.2.2
    simp only [List.nil_append] at this
    rw [← this, ← hg]; rfl
  have hr1 : (completeAll s n ac).2.1 = g.2 := by rw [← hg]; rfl
  -- the filter, semantically
  have hchk : ∀ v ∈ threeValAll g.2, ((completeCheck StoreRA g.1 v ac v).2 = true ↔
      Gam (ac.map (eval s)) (v.map storeIsConst) = v.map storeIsConst) := by
    intro v hv'
    have ⟨a, b⟩ := hvs v hv'
    have := complete_filter_iff StoreRA g.1 ac v gi hac a b
    rw [hD] at this
    exact this
  have hnd3 : (threeValAll g.2).Nodup := by
    rw [threeValAll_eq_enum3]
    exact enum3_nodup _ _ (und_nodup g.2) (fun i hi => (mem_und.mp hi).1) (und_undecided g.2)
  have hex : ∀ v, v ∈ threeValAll g.2 ↔ isRefinement v g.2 := by
    intro v; rw [threeValAll_eq_enum3]; exact mem_enum3_iff_refinement g.2 v
  rw [hr, hr1]
  refine ⟨?_, ?_, ?_⟩
  · apply nodup_map_on
    · exact List.Nodup.sublist List.filter_sublist hnd3
    · intro a ha b hb he
      exact refinement_inj g.2 a b ((hex a).mp (List.mem_filter.mp ha).1)
        ((hex b).mp (List.mem_filter.mp hb).1) he
  · intro w
    rw [List.mem_map]
    constructor
    · rintro ⟨v, hv', rfl⟩
      have ⟨m, c⟩ := List.mem_filter.mp hv'
      refine ⟨?_, (hchk v m).mp c⟩
      rw [List.length_map, ((hex v).mp m).1, hglen]
    · rintro ⟨hl, hfix⟩
      have ⟨hrf, hmap⟩ := lift_spec w g.2 (by omega) (gleast w hfix)
      refine ⟨lift w g.2, List.mem_filter.mpr ⟨(hex _).mpr hrf, ?_⟩, hmap⟩
      rw [hchk _ ((hex _).mpr hrf), hmap]; exact hfix
  · obtain ⟨tl, htl⟩ : ∃ tl, threeValAll g.2 = g.2 :: tl := by
      rw [threeValAll_eq_enum3]; exact enum3_head (und g.2) g.2
    have hgm : g.2 ∈ threeValAll g.2 := by rw [htl]; exact List.mem_cons_self ..
    have : (completeCheck StoreRA g.1 g.2 ac g.2).2 = true := (hchk g.2 hgm).mpr gfix
    rw [htl, List.filter_cons, if_pos this]; rfl

/-- the loop only extends the store and keeps it well formed -/
theorem completeAll_store (s : Store) (n : Nat) (ac : List Nat) (hw : WF s) (hn : ac.length = n)
    (hv : ∀ t ∈ ac, t < s.nodes.size) :
    WF (completeAll s n ac).1 ∧ Ext s (completeAll s n ac).1 ∧
    (completeAll s n ac).2.1 = (groundedLoop StoreRA (n + 1) s ac).2 := by
  obtain ⟨gi, gle, gv, _⟩ := groundedLoop_sem StoreRA (n+1) s ac hw hv
  obtain ⟨gfix, _⟩ := grounded_native (n+1) s ac hw hv (by omega)
  generalize hg : groundedLoop StoreRA (n+1) s ac = g at gi gle gv gfix
  have hglen : g.2.length = n := by
    have := congrArg List.length gfix
    simpa [Gam, hn] using this.symm
  have hac : AllValid StoreRA g.1 ac := AllValid.mono StoreRA hv gle
  have hvs : ∀ v ∈ threeValAll g.2, AllValid StoreRA g.1 v ∧ ac.length = v.length := by
    intro v hv'
    have hr := (mem_enum3_iff_refinement g.2 v).mp (by rw [← threeValAll_eq_enum3]; exact hv')
    exact ⟨refinement_valid g.1 gi.len g.2 v gv hr, by rw [hr.1, hglen, hn]⟩
  have key := fold_spec StoreRA g.1 ac gi hac (threeValAll g.2) (g.1, []) hvs gi (Ext.refl _)
  have h1 : (completeAll s n ac).1 = ((threeValAll g.2).foldl (cstep StoreRA ac) (g.1, [])).1 := by
    rw [← hg]; rfl
  rw [h1]
  exact ⟨key.1, Ext.trans gle key.2.1, by rw [← hg]; rfl⟩

end CompleteExact
