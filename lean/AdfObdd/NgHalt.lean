import AdfObdd.NgSearch
/-! prototype 15: the nogood-learning search halts (abstract machine), by a big-step
    induction on the number of undecided statements -/

def PSub (A B : PA) : Prop := ∀ i b, pget A i = some b → pget B i = some b
def Closed (g A : PA) : Prop := ∃ i c, pget g i = some c ∧ pget A i = some (!c)

theorem PSub.refl (A : PA) : PSub A A := fun _ _ h => h
theorem PSub.trans {A B C : PA} (h1 : PSub A B) (h2 : PSub B C) : PSub A C := fun i b h => h2 i b (h1 i b h)
theorem Closed.mono {g A B : PA} (h : Closed g A) (s : PSub A B) : Closed g B := by
  obtain ⟨i, c, h1, h2⟩ := h; exact ⟨i, c, h1, s i _ h2⟩
theorem psub_setAt {A : PA} {v : Nat} (b : Bool) (h : pget A v = none) : PSub A (setAt A v b) := by
  intro i c hi
  rw [pget_setAt]
  have : i ≠ v := by intro e; rw [e, h] at hi; cases hi
  rw [if_neg this]; exact hi

/-- liveness laws of the parameters; `mu` measures how much is decided, `n` bounds it -/
structure Live (P : Params) (n : Nat) (mu : PA → Nat) : Prop where
  heu_valid : ∀ t A v b, P.heu t A = some (v, b) → pget A v = none ∧ mu A < mu (setAt A v b)
  heu_total : ∀ t A, P.twoVal A = false → (P.heu t A).isSome = true ∧ mu A < n
  gam_sub : ∀ A, PSub A (P.gam A)
  gam_grow : ∀ A, P.gam A ≠ A → mu A < mu (P.gam A)
  upd_sub : ∀ st A R, P.closure st A = Closure.update R → PSub A R ∧ mu A < mu R
  mu_le : ∀ A, mu A ≤ n
  /-- the structure-lemma consequence for the concrete closure (to be proved from C18) -/
  cl_flip : ∀ st H v b, pget H v = none → setAt H v b ∈ st →
      (∀ g ∈ st, Closed g H ∨ PSub (setAt H v b) g) →
      ∃ R, P.closure st H = Closure.update R ∧ pget R v = some (!b)

/-- apply `iter` k times, all of them continuing -/
def iterN (P : Params) : Nat → St → Option St
  | 0, s => some s
  | k+1, s => match iter P s with
    | Res.cont s' => iterN P k s'
    | Res.done _ => none

theorem iterN_add (P : Params) : ∀ (k l : Nat) (s s' s'' : St), iterN P k s = some s' → iterN P l s' = some s'' →
    iterN P (k + l) s = some s'' := by
  intro k
  induction k with
  | zero => intro l s s' s'' h1 h2; simp [iterN] at h1; subst h1; simpa using h2
  | succ k ih =>
    intro l s s' s'' h1 h2
    have : k + 1 + l = (k + l) + 1 := by omega
    rw [this]
    unfold iterN at h1 ⊢
    cases hi : iter P s with
    | done _ => rw [hi] at h1; cases h1
    | cont s1 => rw [hi] at h1; simp only; exact ih l s1 s' s'' h1 h2

def Plain (base top : PA) (extra : List Entry) : Prop :=
  ∀ e ∈ extra, e.choice = none ∧ PSub base e.ng ∧ PSub e.ng top

theorem Plain.top {base top top' : PA} {l : List Entry} (h : Plain base top l) (hs : PSub top top') :
    Plain base top' l := fun e he => ⟨(h e he).1, (h e he).2.1, (h e he).2.2.trans hs⟩

/-- what one `stepTail` does to a state without pending choice or backtrack -/
inductive TailOut (P : Params) (mu : PA → Nat) (s s' : St) : Prop
  | dead (pl : List Entry) : s'.backtrack = true → s'.choice = false → s'.stack = pl ++ s.stack →
      Plain s.cur s'.cur pl → s'.store = s.store → PSub s.cur s'.cur → s'.out.length ≥ 0 → TailOut P mu s s'
  | grown (pl : List Entry) : s'.backtrack = false → s'.choice = false → s'.stack = pl ++ s.stack →
      Plain s.cur s'.cur pl → s'.store = s.store → PSub s.cur s'.cur → mu s.cur < mu s'.cur →
      (∀ R, P.closure s.store s.cur = Closure.update R → PSub R s'.cur) → TailOut P mu s s'
  | choose : s'.backtrack = false → s'.choice = true → s'.stack = s.stack → s'.store = s.store →
      s'.cur = s.cur → P.twoVal s.cur = false → P.closure s.store s.cur = Closure.noUpdate → TailOut P mu s s'

variable {P : Params} {n : Nat} {mu : PA → Nat}

theorem final_out (hL : Live P n mu) (s s3 : St) (updNg : Bool) (pl : List Entry)
    (hb : s3.backtrack = false) (hc : s3.choice = false) (hst : s3.stack = pl ++ s.stack)
    (hpl : Plain s.cur s3.cur pl) (hstore : s3.store = s.store) (hsub : PSub s.cur s3.cur)
    (hup : updNg = true → mu s.cur < mu s3.cur)
    (hno : updNg = false → s3.cur = s.cur ∧ pl = [] ∧ P.closure s.store s.cur = Closure.noUpdate)
    (hR : ∀ R, P.closure s.store s.cur = Closure.update R → PSub R s3.cur) :
    TailOut P mu s (stepFinal P s3 updNg) := by
  unfold stepFinal
  by_cases hac : P.acIncons s3.cur = true
  · rw [if_pos hac]
    exact TailOut.dead pl rfl hc hst hpl hstore hsub (Nat.zero_le _)
  · rw [if_neg hac]
    simp only
    have gs := hL.gam_sub s3.cur
    by_cases hfp : (P.gam s3.cur != s3.cur) = true
    · rw [if_pos hfp]
      have hne : P.gam s3.cur ≠ s3.cur := by simpa using hfp
      have hg := hL.gam_grow _ hne
      refine TailOut.grown pl hb hc hst (hpl.top gs) hstore (hsub.trans gs) ?_ (fun R h => (hR R h).trans gs)
      cases hu : updNg with
      | true => have := hup hu; simp only; omega
      | false => have h' := (hno hu).1; simp only; rw [← h']; exact hg
    · rw [if_neg hfp]
      have heq : P.gam s3.cur = s3.cur := by simpa using hfp
      by_cases hun : updNg = true
      · rw [if_pos hun]
        exact TailOut.grown pl hb hc hst (hpl.top gs) hstore (hsub.trans gs) (by simp only; rw [heq]; exact hup hun)
          (fun R h => (hR R h).trans gs)
      · rw [if_neg hun]
        have hun' : updNg = false := by simpa using hun
        have ⟨hcur, hpl0, hcl⟩ := hno hun'
        by_cases htv : (!P.twoVal (P.gam s3.cur)) = true
        · rw [if_pos htv]
          refine TailOut.choose hb rfl (by simp only; rw [hst, hpl0]; rfl) hstore (by simp only; rw [heq, hcur]) ?_ hcl
          rw [heq, hcur] at htv; simpa using htv
        · rw [if_neg htv]
          have plain' : Plain s.cur (P.gam s3.cur) ({ choice := none, ng := P.gam s3.cur } :: pl) := by
            intro e he
            rcases List.mem_cons.mp he with rfl | he
            · exact ⟨rfl, hsub.trans gs, PSub.refl _⟩
            · exact (hpl.top gs) e he
          by_cases hit : P.isTarget (P.gam s3.cur) = true
          · rw [if_pos hit]
            exact TailOut.dead _ rfl hc (by simp only; rw [hst]; rfl) plain' hstore (hsub.trans gs) (Nat.zero_le _)
          · rw [if_neg hit]
            exact TailOut.dead _ rfl hc (by simp only; rw [hst]; rfl) plain' hstore (hsub.trans gs) (Nat.zero_le _)

theorem tail_out (hL : Live P n mu) (s : St) (hb : s.backtrack = false) (hc : s.choice = false) :
    TailOut P mu s (stepTail P s) := by
  unfold stepTail
  cases hcl : P.closure s.store s.cur with
  | inconsistent =>
    simp only
    exact TailOut.dead [] rfl hc rfl (fun _ h => by cases h) rfl (PSub.refl _) (Nat.zero_le _)
  | update r =>
    simp only
    have ⟨hs, hm⟩ := hL.upd_sub _ _ r hcl
    exact final_out hL s _ true [{ choice := none, ng := r }] hb hc rfl
      (fun e he => by rw [List.mem_singleton.mp he]; exact ⟨rfl, hs, PSub.refl _⟩) rfl hs (fun _ => hm) (fun h => by cases h)
      (fun R h => by rw [hcl] at h; cases h; exact PSub.refl _)
  | noUpdate =>
    simp only
    exact final_out hL s s false [] hb hc rfl (fun _ h => by cases h) rfl (PSub.refl _)
      (fun h => by cases h) (fun _ => ⟨rfl, rfl, hcl⟩) (fun R h => by rw [hcl] at h; cases h)

/-! ### unfolding one iteration by kind of state -/

theorem iter_N (s : St) (hb : s.backtrack = false) (hc : s.choice = false) :
    iter P s = Res.cont (stepTail P s) := by
  have h1 : step1 P s = s := by unfold step1; rw [if_neg (by simp [hc])]
  unfold iter; simp only [h1]
  rw [if_neg (by simp [hb])]
  have h3 : step3 s = s := by unfold step3; rw [if_neg (by simp [hb])]
  rw [h3]

theorem iter_B (s : St) (hb : s.backtrack = true) (hc : s.choice = false) (hs : s.stack ≠ []) :
    iter P s = Res.cont (stepTail P (step3 s)) := by
  have h1 : step1 P s = s := by unfold step1; rw [if_neg (by simp [hc])]
  unfold iter; simp only [h1]
  rw [if_neg (by simp [hs])]

def afterChoice (s : St) (v : Nat) (b : Bool) : St :=
  { s with choice := false, time := s.time + 1, cur := setAt s.cur v b,
           stack := { choice := some (s.cur, v, b), ng := setAt s.cur v b } :: s.stack }

theorem iter_C (s : St) (hb : s.backtrack = false) (hc : s.choice = true) (v : Nat) (b : Bool)
    (hh : P.heu s.time s.cur = some (v, b)) :
    iter P s = Res.cont (stepTail P (afterChoice s v b)) := by
  have h1 : step1 P s = afterChoice s v b := by
    unfold step1 afterChoice; rw [if_pos hc, hh]
  unfold iter; simp only [h1]
  have hb' : (afterChoice s v b).backtrack = false := hb
  rw [if_neg (by simp [hb'])]
  have h3 : step3 (afterChoice s v b) = afterChoice s v b := by
    unfold step3; rw [if_neg (by simp [hb'])]
  rw [h3]

/-- popping plain entries down to a choice entry -/
theorem popLoop_to_choice : ∀ (extra : List Entry) (H : PA) (v : Nat) (b : Bool) (C : PA) (rest : List Entry)
    (store : List PA) (cur : PA), (∀ e ∈ extra, e.choice = none) →
    (popLoop (extra ++ { choice := some (H, v, b), ng := C } :: rest) store cur).1 = rest ∧
    (popLoop (extra ++ { choice := some (H, v, b), ng := C } :: rest) store cur).2.2 = H ∧
    (∀ g, g ∈ (popLoop (extra ++ { choice := some (H, v, b), ng := C } :: rest) store cur).2.1 ↔
        (g = C ∨ (∃ e ∈ extra, e.ng = g) ∨ g ∈ store)) := by
  intro extra
  induction extra with
  | nil =>
    intro H v b C rest store cur _
    simp [popLoop]
  | cons e extra ih =>
    intro H v b C rest store cur hp
    have he : e.choice = none := hp e (List.mem_cons_self ..)
    have ⟨a, b', c⟩ := ih H v b C rest (e.ng :: store) cur (fun x hx => hp x (List.mem_cons_of_mem _ hx))
    simp only [List.cons_append, popLoop, he]
    refine ⟨a, b', ?_⟩
    intro g
    rw [c g]
    simp only [List.mem_cons]
    constructor
    · rintro (h | ⟨x, hx, h⟩ | h | h)
      · exact Or.inl h
      · exact Or.inr (Or.inl ⟨x, Or.inr hx, h⟩)
      · exact Or.inr (Or.inl ⟨e, Or.inl rfl, h.symm⟩)
      · exact Or.inr (Or.inr h)
    · rintro (h | ⟨x, hx | hx, h⟩ | h)
      · exact Or.inl h
      · subst hx; exact Or.inr (Or.inr (Or.inl h.symm))
      · exact Or.inr (Or.inl ⟨x, hx, h⟩)
      · exact Or.inr (Or.inr (Or.inr h))

structure LInv (P : Params) (s : St) : Prop where
  nb : s.backtrack = false
  w : ∀ g ∈ s.store, Closed g s.cur
  ch : s.choice = true → P.twoVal s.cur = false

/-- from `s` the loop reaches, without halting, a state that asks for backtracking and whose
stack is the given one plus plain entries above `base` -/
def ReachB (P : Params) (s : St) (base : PA) (stk : List Entry) (st0 : List PA) : Prop :=
  ∃ k s', iterN P k s = some s' ∧ s'.backtrack = true ∧ s'.choice = false ∧
    (∃ extra, s'.stack = extra ++ stk ∧ Plain base s'.cur extra) ∧
    (∀ g ∈ s'.store, g ∈ st0 ∨ PSub base g) ∧ PSub base s'.cur

theorem Plain.weaken {base base' top : PA} {l : List Entry} (h : Plain base' top l) (hs : PSub base base') :
    Plain base top l := fun e he => ⟨(h e he).1, hs.trans (h e he).2.1, (h e he).2.2⟩

theorem ReachB.weaken {s : St} {base base' : PA} {stk stk' : List Entry} {st0 st0' : List PA}
    (h : ReachB P s base' stk' st0') (pl : List Entry) (hstk : stk' = pl ++ stk) (hpl : Plain base base' pl)
    (hb : PSub base base') (hst : ∀ g ∈ st0', g ∈ st0 ∨ PSub base g) : ReachB P s base stk st0 := by
  obtain ⟨k, s', hk, b1, b2, ⟨extra, he, hp⟩, hs, hc⟩ := h
  refine ⟨k, s', hk, b1, b2, ⟨extra ++ pl, by rw [he, hstk, List.append_assoc], ?_⟩, ?_, hb.trans hc⟩
  · intro e he'
    rcases List.mem_append.mp he' with h1 | h1
    · exact (hp.weaken hb) e h1
    · exact (hpl.top hc) e h1
  · intro g hg
    rcases hs g hg with h1 | h1
    · exact hst g h1
    · exact Or.inr (hb.trans h1)

theorem ReachB.step {s s1 : St} {base : PA} {stk : List Entry} {st0 : List PA}
    (hi : iter P s = Res.cont s1) (h : ReachB P s1 base stk st0) : ReachB P s base stk st0 := by
  obtain ⟨k, s', hk, rest⟩ := h
  refine ⟨k + 1, s', ?_, rest⟩
  unfold iterN; rw [hi]; exact hk

theorem after_tail (s s'' : St) (to : TailOut P mu s s'') (hw : ∀ g ∈ s.store, Closed g s.cur)
    (hG : ∀ t, LInv P t → t.choice = false → mu s.cur < mu t.cur → ReachB P t t.cur t.stack t.store)
    (hC : ∀ t, LInv P t → t.choice = true → t.cur = s.cur → ReachB P t t.cur t.stack t.store) :
    ReachB P s'' s.cur s.stack s.store := by
  cases to with
  | dead pl b1 b2 hst hpl hstore hsub _ =>
    exact ⟨0, s'', rfl, b1, b2, ⟨pl, hst, hpl⟩, fun g hg => Or.inl (hstore ▸ hg), hsub⟩
  | grown pl b1 b2 hst hpl hstore hsub hmu _ =>
    have li : LInv P s'' := ⟨b1, fun g hg => (hw g (hstore ▸ hg)).mono hsub, fun h => by rw [b2] at h; cases h⟩
    exact (hG s'' li b2 hmu).weaken pl hst hpl hsub (fun g hg => Or.inl (hstore ▸ hg))
  | choose b1 b2 hst hstore hcur htv _ =>
    have li : LInv P s'' := ⟨b1, fun g hg => by rw [hcur]; exact hw g (hstore ▸ hg), fun _ => by rw [hcur]; exact htv⟩
    exact (hC s'' li b2 hcur).weaken [] (by rw [hst]; rfl) (fun _ h => by cases h) (by rw [hcur]; exact PSub.refl _)
      (fun g hg => Or.inl (hstore ▸ hg))

/-- the big-step lemma: exploring the subtree below any live state comes back -/
theorem bigstep (hL : Live P n mu) : ∀ (d : Nat) (s : St), LInv P s → n - mu s.cur ≤ d →
    ReachB P s s.cur s.stack s.store := by
  intro d
  induction d using Nat.strongRecOn with
  | _ d ih =>
    -- states that are about to choose
    have Ccase : ∀ s, LInv P s → s.choice = true → n - mu s.cur ≤ d → ReachB P s s.cur s.stack s.store := by
      intro s li hc hd
      have ⟨hsome, hlt⟩ := hL.heu_total s.time s.cur (li.ch hc)
      cases hh : P.heu s.time s.cur with
      | none => rw [hh] at hsome; cases hsome
      | some vb =>
        obtain ⟨v, b⟩ := vb
        have ⟨hn, hgrow⟩ := hL.heu_valid s.time s.cur v b hh
        have hd1 : 1 ≤ d := by omega
        have hiter := iter_C (P := P) s li.nb hc v b hh
        have hs1b : (afterChoice s v b).backtrack = false := li.nb
        have hs1c : (afterChoice s v b).choice = false := rfl
        have hs1cur : (afterChoice s v b).cur = setAt s.cur v b := rfl
        have hs1stack : (afterChoice s v b).stack = { choice := some (s.cur, v, b), ng := setAt s.cur v b } :: s.stack := rfl
        have hs1store : (afterChoice s v b).store = s.store := rfl
        have to1 := tail_out hL (afterChoice s v b) hs1b hs1c
        have hw1 : ∀ g ∈ (afterChoice s v b).store, Closed g (afterChoice s v b).cur :=
          fun g hg => (li.w g hg).mono (psub_setAt b hn)
        have r1 := after_tail _ _ to1 hw1
          (fun t lt _ hm => ih (d-1) (by omega) t lt (by rw [hs1cur] at hm; omega))
          (fun t lt _ hcur => ih (d-1) (by omega) t lt (by rw [hcur, hs1cur]; omega))
        obtain ⟨k1, sB, hk1, bB, cB, ⟨extra, hstB, hplB⟩, hstoreB, hcurB⟩ := r1
        rw [hs1stack] at hstB
        -- the backtracking iteration
        have hne : sB.stack ≠ [] := by rw [hstB]; simp
        have hiterB := iter_B (P := P) sB bB cB hne
        have hpop := popLoop_to_choice extra s.cur v b (setAt s.cur v b) s.stack sB.store sB.cur
          (fun e he => (hplB e he).1)
        rw [← hstB] at hpop
        obtain ⟨p1, p2, p3⟩ := hpop
        have h3b : (step3 sB).backtrack = false := by unfold step3; rw [if_pos bB]
        have h3c : (step3 sB).choice = false := by unfold step3; rw [if_pos bB]; exact cB
        have h3stack : (step3 sB).stack = s.stack := by unfold step3; rw [if_pos bB]; exact p1
        have h3cur : (step3 sB).cur = s.cur := by unfold step3; rw [if_pos bB]; exact p2
        have h3store : ∀ g, g ∈ (step3 sB).store ↔ (g = setAt s.cur v b ∨ (∃ e ∈ extra, e.ng = g) ∨ g ∈ sB.store) := by
          unfold step3; rw [if_pos bB]; exact p3
        -- classification of the stored nogoods w.r.t. the level being flipped
        have hclass : ∀ g ∈ (step3 sB).store, Closed g s.cur ∨ PSub (setAt s.cur v b) g := by
          intro g hg
          rcases (h3store g).mp hg with h | ⟨e, he, h⟩ | h
          · right; rw [h]; exact PSub.refl _
          · right; rw [← h]; exact (hplB e he).2.1
          · rcases hstoreB g h with h' | h'
            · left; exact li.w g h'
            · right; exact h'
        have hst0 : ∀ g ∈ (step3 sB).store, g ∈ s.store ∨ PSub s.cur g := by
          intro g hg
          rcases (h3store g).mp hg with h | ⟨e, he, h⟩ | h
          · right; rw [h]; exact psub_setAt b hn
          · right; rw [← h]; exact (psub_setAt b hn).trans (hplB e he).2.1
          · rcases hstoreB g h with h' | h'
            · left; exact h'
            · right; exact (psub_setAt b hn).trans h'
        obtain ⟨R, hclR, hRv⟩ := hL.cl_flip (step3 sB).store s.cur v b hn
          ((h3store _).mpr (Or.inl rfl)) hclass
        have to2 := tail_out hL (step3 sB) h3b h3c
        have r2 : ReachB P (stepTail P (step3 sB)) s.cur s.stack s.store := by
          cases to2 with
          | dead pl b1 b2 hst hpl hstore hsub _ =>
            refine ⟨0, _, rfl, b1, b2, ⟨pl, by rw [hst, h3stack], by rw [← h3cur]; exact hpl⟩, ?_, by rw [← h3cur]; exact hsub⟩
            intro g hg; exact hst0 g (hstore ▸ hg)
          | grown pl b1 b2 hst hpl hstore hsub hmu hR =>
            have hRt := hR R (by rw [h3cur]; exact hclR)
            have li2 : LInv P (stepTail P (step3 sB)) := by
              refine ⟨b1, ?_, fun h => by rw [b2] at h; cases h⟩
              intro g hg
              rcases hclass g (hstore ▸ hg) with h | h
              · exact h.mono (by rw [← h3cur]; exact hsub)
              · refine ⟨v, b, h v b (by rw [pget_setAt]; simp), hRt v _ hRv⟩
            have := ih (d-1) (by omega) _ li2 (by rw [h3cur] at hmu; omega)
            exact this.weaken pl (by rw [hst, h3stack]) (by rw [← h3cur]; exact hpl)
              (by rw [← h3cur]; exact hsub) (fun g hg => hst0 g (hstore ▸ hg))
          | choose _ _ _ _ _ _ hno =>
            rw [h3cur, hclR] at hno; cases hno
        -- put the pieces together
        have rB : ReachB P sB s.cur s.stack s.store := ReachB.step hiterB r2
        obtain ⟨k2, sF, hk2, rest⟩ := rB
        refine ⟨(k1 + k2) + 1, sF, ?_, rest⟩
        unfold iterN; rw [hiter]
        exact iterN_add P k1 k2 _ sB sF hk1 hk2
    intro s li hd
    by_cases hc : s.choice = true
    · exact Ccase s li hc hd
    · have hc' : s.choice = false := by simpa using hc
      have hiter := iter_N (P := P) s li.nb hc'
      have to := tail_out hL s li.nb hc'
      apply ReachB.step hiter
      apply after_tail s _ to li.w
      · intro t lt _ hm
        have := hL.mu_le t.cur
        exact ih (d-1) (by omega) t lt (by omega)
      · intro t lt htc hcur
        exact Ccase t lt htc (by rw [hcur]; exact hd)
#print axioms bigstep

/-! ### halting from the initial state -/

theorem run_of_iterN : ∀ (k j : Nat) (s s' : St), iterN P k s = some s' → run P (k + j) s = run P j s' := by
  intro k
  induction k with
  | zero => intro j s s' h; simp [iterN] at h; subst h; simp
  | succ k ih =>
    intro j s s' h
    have : k + 1 + j = (k + j) + 1 := by omega
    rw [this]
    unfold iterN at h
    rw [run]
    cases hi : iter P s with
    | done _ => rw [hi] at h; cases h
    | cont s1 => rw [hi] at h; simp only; exact ih j s1 s' h

theorem popLoop_plain : ∀ (extra : List Entry) (store : List PA) (cur : PA), (∀ e ∈ extra, e.choice = none) →
    (popLoop extra store cur).1 = [] ∧ (popLoop extra store cur).2.2 = cur ∧
    (∀ e ∈ extra, e.ng ∈ (popLoop extra store cur).2.1) := by
  intro extra
  induction extra with
  | nil => intro store cur _; simp [popLoop]
  | cons e extra ih =>
    intro store cur hp
    have he : e.choice = none := hp e (List.mem_cons_self ..)
    have ⟨a, b, c⟩ := ih (e.ng :: store) cur (fun x hx => hp x (List.mem_cons_of_mem _ hx))
    simp only [popLoop, he]
    refine ⟨a, b, ?_⟩
    intro x hx
    rcases List.mem_cons.mp hx with rfl | hx
    · -- pushed first, stays in
      have keep : ∀ (l : List Entry) (st : List PA) (c : PA) (g : PA), g ∈ st → g ∈ (popLoop l st c).2.1 := by
        intro l
        induction l with
        | nil => intro st c g hg; simpa [popLoop] using hg
        | cons y l ihl =>
          intro st c g hg
          simp only [popLoop]
          cases y.choice with
          | none => exact ihl _ _ _ (List.mem_cons_of_mem _ hg)
          | some t => obtain ⟨h, _, _⟩ := t; exact List.mem_cons_of_mem _ hg
      exact keep _ _ _ _ (List.mem_cons_self ..)
    · exact c x hx

/-- C05, liveness half (abstract machine): from the initial state the loop halts, for every
heuristic satisfying the `Live` laws; `cl_direct`: a stored nogood contained in the current
interpretation makes the closure report an inconsistency. -/
theorem halts (hL : Live P n mu)
    (cl_direct : ∀ st A, (∃ g ∈ st, PSub g A) → P.closure st A = Closure.inconsistent) (g : PA) :
    ∃ fuel s', run P fuel { cur := g, store := [], stack := [], backtrack := false, choice := false, out := [] } = some s' := by
  have li : LInv P { cur := g, store := [], stack := [], backtrack := false, choice := false, out := [] } :=
    ⟨rfl, (fun _ h => by cases h), (fun h => by cases h)⟩
  obtain ⟨k, sB, hk, bB, cB, ⟨extra, hst, hpl⟩, _, _⟩ := bigstep hL (n - mu g) _ li (Nat.le_refl _)
  simp only [List.append_nil] at hst
  have hdoneAt : ∀ t : St, t.backtrack = true → t.choice = false → t.stack = [] → iter P t = Res.done t := by
    intro t tb tc ts
    have h1 : step1 P t = t := by unfold step1; rw [if_neg (by simp [tc])]
    unfold iter; simp only [h1]; rw [if_pos ⟨tb, ts⟩]
  cases hex : extra with
  | nil =>
    refine ⟨k + 1, sB, ?_⟩
    rw [run_of_iterN k 1 _ sB hk]
    unfold run; rw [hdoneAt sB bB cB (by rw [hst, hex])]
  | cons e rest =>
    -- one more backtracking iteration empties the stack and finds the popped nogood violated
    have hne : sB.stack ≠ [] := by rw [hst, hex]; simp
    have hiterB := iter_B (P := P) sB bB cB hne
    have ⟨p1, p2, p3⟩ := popLoop_plain sB.stack sB.store sB.cur (by rw [hst]; exact fun x hx => (hpl x hx).1)
    have hcl : P.closure (step3 sB).store (step3 sB).cur = Closure.inconsistent := by
      apply cl_direct
      refine ⟨e.ng, ?_, ?_⟩
      · unfold step3; rw [if_pos bB]; exact p3 e (by rw [hst, hex]; exact List.mem_cons_self ..)
      · unfold step3; rw [if_pos bB]; simp only; rw [p2]
        exact (hpl e (by rw [hex]; exact List.mem_cons_self ..)).2.2
    have hfin : stepTail P (step3 sB) = { step3 sB with backtrack := true } := by
      unfold stepTail; rw [hcl]
    have hdone := hdoneAt { step3 sB with backtrack := true } rfl
      (by unfold step3; rw [if_pos bB]; exact cB) (by unfold step3; rw [if_pos bB]; exact p1)
    refine ⟨k + 2, { step3 sB with backtrack := true }, ?_⟩
    rw [run_of_iterN k 2 _ sB hk]
    unfold run; rw [hiterB]; simp only
    unfold run; rw [hfin, hdone]
#print axioms halts
