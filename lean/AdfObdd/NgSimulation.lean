import AdfObdd.NgLeaf
/-! # Lock-step simulation: `SM.ngIter` is the semantic machine `NSem.semP` under denotation

`cIter` is `SM.ngIter` cut into its phases (`ngIter_eq`, by `rfl` + one case split). `Rel c a` relates a
concrete state `c` (store, handle vectors, `stack`/`hist` in lock-step) with a state `a` of the
generic machine instantiated with `NSem.semP`: `a.cur = c.cur.map (eval c.s)`, the same buckets,
the stack entries with their ghost annotation read off `hist`, the same flags, `a.out = c.out.map toPA`.
`sim_iter`: one concrete iteration is one abstract iteration (no stuttering: the abstract test
`semRound V ≠ V` on denotations is the concrete test on handles by canonicity). -/
namespace NConc
open NSem

/-! ### the concrete iteration, cut into phases -/

/-- a concrete heuristic: any function of the store, the vector shown to it and the number of earlier
calls (`SM.heuCall h` for the built-in ones; an arbitrary custom closure otherwise) -/
abbrev CHeu := Store → List Nat → Nat → Option (Nat × Nat)

/-- what C05 asks of a heuristic: every answer is an undecided statement with a handle `0`/`1`, and an
answer is given whenever an undecided statement exists -/
structure HeuOK (hc : CHeu) : Prop where
  valid : ∀ s v time i t, hc s v time = some (i, t) → t < 2 ∧ i < v.length ∧ ∃ x, v[i]? = some x ∧ isTV x = false
  total : ∀ s v time, hc s v time = none → v.all isTV = true

theorem heuOK_builtin (h : SM.Heu) : HeuOK (SM.heuCall h) :=
  ⟨fun s v time i t hc => heuCall_valid h s v time i t hc, fun s v time hc => heuCall_none h s v time hc⟩

def cChoice (hc : CHeu) (st : SM.NgS) : SM.NgS :=
  if st.choice then
    match hc st.s st.cur st.time with
    | some (v, t) =>
      let cur' := st.cur.set v t
      { st with choice := false, hist := st.cur :: st.hist, cur := cur', stack := (true, toPA cur') :: st.stack,
                trace := st.trace ++ [st.cur], time := st.time + 1 }
    | none => { st with choice := false, backtrack := true, trace := st.trace ++ [st.cur], time := st.time + 1 }
  else st

def cBack (st : SM.NgS) : SM.NgS :=
  if st.backtrack then
    let p := SM.popLoop st.buckets st.cur st.hist st.stack
    { st with backtrack := false, buckets := p.1, stack := p.2.1, cur := p.2.2.1, hist := p.2.2.2 }
  else st

def cClass (n : Nat) (ac : List Nat) (stable : Bool) (st : SM.NgS) : SM.NgS :=
  if !(st.cur.all isTV) then { st with choice := true }
  else
    let chk := if stable then stabilityCheck st.s n ac st.cur else (st.s, true)
    let st := { st with s := chk.1 }
    if chk.2 then
      { st with stack := (false, toPA st.cur) :: st.stack, out := st.out ++ [st.cur], backtrack := true }
    else
      { st with stack := (false, toPA st.cur) :: st.stack, backtrack := true }

def cProp (n : Nat) (ac : List Nat) (stable : Bool) (st : SM.NgS) (updNg : Bool) : SM.NgS :=
  let upd := applyInterp st.s st.cur st.cur
  let st' := { st with s := upd.1, cur := upd.2 }
  if upd.2 != st.cur then st'
  else if updNg then st'
  else cClass n ac stable st'

def cFinal (n : Nat) (ac : List Nat) (stable : Bool) (st : SM.NgS) (updNg : Bool) : SM.NgS :=
  let acr := applyInterp st.s st.cur ac
  let st := { st with s := acr.1 }
  if (st.cur.zip acr.2).any (fun (c, a) => isTV c && isTV a && (c != a)) then { st with backtrack := true }
  else cProp n ac stable st updNg

def cTail (n : Nat) (ac : List Nat) (stable : Bool) (st : SM.NgS) : SM.NgS :=
  match SM.closureF st.buckets st.cur with
  | ClosT.inconsistent => { st with backtrack := true }
  | ClosT.update r => cFinal n ac stable { st with cur := r, stack := (false, toPA r) :: st.stack } true
  | ClosT.noUpdate => cFinal n ac stable st false

def cIter (hc : CHeu) (n : Nat) (ac : List Nat) (stable : Bool) (st : SM.NgS) : SM.NgS :=
  let st1 := cChoice hc st
  if st1.backtrack && st1.stack.isEmpty then { st1 with done := true } else cTail n ac stable (cBack st1)

/-- the tail of `SM.ngIter`, verbatim -/
def origTail (n : Nat) (ac : List Nat) (stable : Bool) (st : SM.NgS) : SM.NgS :=
  match SM.closureF st.buckets st.cur with
  | ClosT.inconsistent => { st with backtrack := true }
  | cl =>
    let (st, updNg) := match cl with
      | ClosT.update r => ({ st with cur := r, stack := (false, toPA r) :: st.stack }, true)
      | _ => (st, false)
    let acr := applyInterp st.s st.cur ac
    let st := { st with s := acr.1 }
    let bad := (st.cur.zip acr.2).any (fun (c, a) => isTV c && isTV a && (c != a))
    if bad then { st with backtrack := true } else
    let upd := applyInterp st.s st.cur st.cur
    let st := { st with s := upd.1 }
    let updFp := upd.2 != st.cur
    let st := { st with cur := upd.2 }
    if updFp then st
    else if updNg then st
    else if !(st.cur.all isTV) then { st with choice := true }
    else
      let chk := if stable then stabilityCheck st.s n ac st.cur else (st.s, true)
      let st := { st with s := chk.1 }
      if chk.2 then
        { st with stack := (false, toPA st.cur) :: st.stack, out := st.out ++ [st.cur], backtrack := true }
      else
        { st with stack := (false, toPA st.cur) :: st.stack, backtrack := true }

theorem ngIter_eq0 (h : SM.Heu) (n : Nat) (ac : List Nat) (stable : Bool) (st : SM.NgS) :
    SM.ngIter h n ac stable st =
      (let st1 := cChoice (SM.heuCall h) st
       if st1.backtrack && st1.stack.isEmpty then { st1 with done := true } else origTail n ac stable (cBack st1)) := rfl

theorem origTail_eq (n : Nat) (ac : List Nat) (stable : Bool) (st : SM.NgS) :
    origTail n ac stable st = cTail n ac stable st := by
  unfold origTail cTail
  cases SM.closureF st.buckets st.cur with
  | inconsistent => rfl
  | update r => rfl
  | noUpdate => rfl

/-- `SM.ngIter` is the composition of its phases -/
theorem ngIter_eq (h : SM.Heu) (n : Nat) (ac : List Nat) (stable : Bool) (st : SM.NgS) :
    SM.ngIter h n ac stable st = cIter (SM.heuCall h) n ac stable st := by
  rw [ngIter_eq0]; unfold cIter; simp only [origTail_eq]

/-! ### the simulation relation -/

abbrev ASt := NGen.St (List BoolFn) (List (List PA))
abbrev AEntry := NGen.Entry (List BoolFn)

/-- the concrete `stack`/`hist` pair against the ghost-annotated abstract stack -/
inductive StackRel (s : Store) : List (Bool × PA) → List (List Nat) → List AEntry → Prop
  | nil (hs : List (List Nat)) : StackRel s [] hs []
  | plain (g : PA) (rest : List (Bool × PA)) (hs : List (List Nat)) (as : List AEntry) :
      StackRel s rest hs as → StackRel s ((false, g) :: rest) hs (⟨none, g⟩ :: as)
  | choice (g : PA) (rest : List (Bool × PA)) (h : List Nat) (hs : List (List Nat)) (v : Nat) (b : Bool)
      (as : List AEntry) : StackRel s rest hs as →
      StackRel s ((true, g) :: rest) (h :: hs) (⟨some (h.map (eval s), v, b), g⟩ :: as)

structure Rel (c : SM.NgS) (a : ASt) : Prop where
  cur : a.cur = c.cur.map (eval c.s)
  store : a.store = c.buckets
  stack : StackRel c.s c.stack c.hist a.stack
  bt : a.backtrack = c.backtrack
  ch : a.choice = c.choice
  out : a.out = c.out.map toPA

/-- shape invariant of the concrete state (`s0` = the store the search was started in) -/
structure CInv (s0 : Store) (n : Nat) (c : SM.NgS) : Prop where
  wf : WF c.s
  ext : Ext s0 c.s
  valid : ∀ t ∈ c.cur, t < c.s.nodes.size
  len : c.cur.length = n
  histOK : ∀ h ∈ c.hist, h.length = n ∧ ∀ t ∈ h, t < c.s.nodes.size
  nd : c.done = false

theorem StackRel.mono {s s' : Store} (w : WF s) (he : Ext s s') {st : List (Bool × PA)} {hs : List (List Nat)}
    {as : List AEntry} (h : StackRel s st hs as) (hv : ∀ x ∈ hs, ∀ t ∈ x, t < s.nodes.size) : StackRel s' st hs as := by
  induction h with
  | nil hs => exact StackRel.nil hs
  | plain g rest hs as _ ih => exact StackRel.plain g rest hs as (ih hv)
  | choice g rest x hs v b as _ ih =>
    have e : x.map (eval s) = x.map (eval s') := (map_eval_ext w he (hv x (List.mem_cons_self ..))).symm
    rw [e]
    exact StackRel.choice g rest x hs v b as (ih (fun y hy => hv y (List.mem_cons_of_mem _ hy)))

theorem StackRel.nil_iff {s : Store} {st : List (Bool × PA)} {hs : List (List Nat)} {as : List AEntry}
    (h : StackRel s st hs as) : as = [] ↔ st = [] := by
  cases h <;> simp

variable {s0 : Store} {n : Nat}

/-- replacing the store by an extension keeps both the relation and the invariant -/
theorem rel_store {c : SM.NgS} {a : ASt} (hr : Rel c a) (hi : CInv s0 n c) {s' : Store} (w' : WF s')
    (he : Ext c.s s') : Rel { c with s := s' } a ∧ CInv s0 n { c with s := s' } := by
  refine ⟨⟨?_, hr.store, ?_, hr.bt, hr.ch, hr.out⟩, ⟨w', Ext.trans hi.ext he, ?_, hi.len, ?_, hi.nd⟩⟩
  · show a.cur = c.cur.map (eval s')
    rw [map_eval_ext hi.wf he hi.valid]; exact hr.cur
  · exact hr.stack.mono hi.wf he (fun x hx => (hi.histOK x hx).2)
  · intro t ht; exact Nat.lt_of_lt_of_le (hi.valid t ht) he.1
  · intro x hx; exact ⟨(hi.histOK x hx).1, fun t ht => Nat.lt_of_lt_of_le ((hi.histOK x hx).2 t ht) he.1⟩

/-! ### phase 1: the choice -/

/-- the concrete answer `(statement, handle)` as an abstract answer `(statement, value)` -/
def conv : Option (Nat × Nat) → Option (Nat × Bool)
  | some (i, t) => some (i, t == 1)
  | none => none

theorem fallback_none_of_total {V : List BoolFn} (h : twoV (cv V) = true) : fallback V = none := by
  unfold fallback
  rw [Option.map_eq_none_iff, List.find?_eq_none]
  intro i hi
  have hi' : i < (cv V).length := by rw [cv_length]; exact List.mem_range.mp hi
  obtain ⟨b, hb⟩ := twoV_true h i hi'
  rw [pget_eq_some.mpr hb]; simp

theorem sim_choice (D : List BoolFn) (stable : Bool) (raw : Nat → Option (Nat × Bool)) {h : CHeu} (hok : HeuOK h)
    (k : Nat) {c : SM.NgS} {a : ASt} (hr : Rel c a) (hi : CInv s0 n c)
    (hraw : raw k = conv (h c.s c.cur c.time)) :
    Rel (cChoice h c) (NGen.step1 (semP D n stable raw) k a) ∧ CInv s0 n (cChoice h c) := by
  unfold cChoice NGen.step1
  rw [hr.ch]
  by_cases hc : c.choice = true
  · rw [if_pos hc, if_pos hc]
    have hcv : cv a.cur = toPA c.cur := by rw [hr.cur]; exact cv_map_eval hi.wf hi.valid
    have hlenV : a.cur.length = c.cur.length := by rw [hr.cur]; simp
    cases hh : h c.s c.cur c.time with
    | none =>
      have htv := hok.total c.s c.cur c.time hh
      have hheu : (semP D n stable raw).heu k a.cur = none := by
        show heuO raw k a.cur = none
        unfold heuO
        rw [hraw, hh]
        simp only [conv]
        apply fallback_none_of_total
        rw [hcv, ← all_isTV_iff]; exact htv
      rw [hheu]
      exact ⟨⟨hr.cur, hr.store, hr.stack, rfl, rfl, hr.out⟩, ⟨hi.wf, hi.ext, hi.valid, hi.len, hi.histOK, hi.nd⟩⟩
    | some vt =>
      obtain ⟨v, t⟩ := vt
      have ⟨ht2, hv, x, hx, hxn⟩ := hok.valid c.s c.cur c.time v t hh
      have hheu : (semP D n stable raw).heu k a.cur = some (v, t == 1) := by
        show heuO raw k a.cur = some (v, t == 1)
        unfold heuO
        rw [hraw, hh]
        simp only [conv]
        rw [if_pos]
        refine ⟨?_, by rw [hlenV]; exact hv⟩
        rw [hcv, pget_toPA hv]
        rw [List.getElem?_eq_getElem hv] at hx
        rw [Option.some.inj hx]
        exact isTV_false_iff.mp hxn
      rw [hheu]
      simp only
      have htb : t = bit (t == 1) := by
        have : t = 0 ∨ t = 1 := by omega
        rcases this with rfl | rfl <;> rfl
      have hvalid' : ∀ y ∈ c.cur.set v t, y < c.s.nodes.size := by
        intro y hy
        rcases List.mem_or_eq_of_mem_set hy with h1 | h1
        · exact hi.valid y h1
        · rw [h1, htb]; exact bit_lt hi.wf _
      have hset : (semP D n stable raw).setV a.cur v (t == 1) = (c.cur.set v t).map (eval c.s) := by
        show setF a.cur v (t == 1) = _
        unfold setF
        rw [hr.cur, List.map_set]
        congr 1
        rw [htb, eval_bit]
        cases t == 1 <;> rfl
      have hdec : (semP D n stable raw).dec ((semP D n stable raw).setV a.cur v (t == 1)) = toPA (c.cur.set v t) := by
        rw [hset]; exact cv_map_eval hi.wf hvalid'
      refine ⟨⟨hset, hr.store, ?_, hr.bt, rfl, hr.out⟩, ⟨hi.wf, hi.ext, hvalid', by simp [hi.len], ?_, hi.nd⟩⟩
      · rw [hdec, hr.cur]
        exact StackRel.choice _ _ _ _ _ _ _ hr.stack
      · intro y hy
        rcases List.mem_cons.mp hy with rfl | hy
        · exact ⟨hi.len, hi.valid⟩
        · exact hi.histOK y hy
  · rw [if_neg hc, if_neg hc]; exact ⟨hr, hi⟩

/-! ### phase 3: backtracking -/

theorem sim_popLoop (P : NGen.GParams (List BoolFn) (List (List PA))) (hadd : P.add = addNg) {s : Store} :
    ∀ {stack : List (Bool × PA)} {hist : List (List Nat)} {as : List AEntry}, StackRel s stack hist as →
    ∀ (buckets : List (List PA)) (cur : List Nat),
    StackRel s (SM.popLoop buckets cur hist stack).2.1 (SM.popLoop buckets cur hist stack).2.2.2
      (NGen.popLoop P as buckets (cur.map (eval s))).1 ∧
    (NGen.popLoop P as buckets (cur.map (eval s))).2.1 = (SM.popLoop buckets cur hist stack).1 ∧
    (NGen.popLoop P as buckets (cur.map (eval s))).2.2 = (SM.popLoop buckets cur hist stack).2.2.1.map (eval s) ∧
    ((SM.popLoop buckets cur hist stack).2.2.1 = cur ∨ (SM.popLoop buckets cur hist stack).2.2.1 ∈ hist) ∧
    (∀ x ∈ (SM.popLoop buckets cur hist stack).2.2.2, x ∈ hist) := by
  intro stack hist as h
  induction h with
  | nil hs =>
    intro buckets cur
    simp only [SM.popLoop, NGen.popLoop]
    exact ⟨StackRel.nil hs, trivial, trivial, Or.inl trivial, fun _ hx => hx⟩
  | plain g rest hs as _ ih =>
    intro buckets cur
    simp only [SM.popLoop, NGen.popLoop, hadd, Bool.false_eq_true, if_false]
    exact ih (addNg buckets g) cur
  | choice g rest x hs v b as hrest _ =>
    intro buckets cur
    simp only [SM.popLoop, NGen.popLoop, hadd, if_true, List.headD_cons, List.tail_cons]
    exact ⟨hrest, trivial, trivial, Or.inr (List.mem_cons_self ..), fun y hy => List.mem_cons_of_mem _ hy⟩

theorem sim_back (D : List BoolFn) (stable : Bool) (raw : Nat → Option (Nat × Bool))
    {c : SM.NgS} {a : ASt} (hr : Rel c a) (hi : CInv s0 n c) :
    Rel (cBack c) (NGen.step3 (semP D n stable raw) a) ∧ CInv s0 n (cBack c) := by
  unfold cBack NGen.step3
  rw [hr.bt]
  by_cases hb : c.backtrack = true
  · rw [if_pos hb, if_pos hb]
    have ⟨p1, p2, p3, p4, p5⟩ := sim_popLoop (semP D n stable raw) rfl hr.stack c.buckets c.cur
    rw [hr.store, hr.cur]
    refine ⟨⟨p3, p2, p1, rfl, hr.ch, hr.out⟩, ⟨hi.wf, hi.ext, ?_, ?_, ?_, hi.nd⟩⟩
    · rcases p4 with e | e
      · simp only [e]; exact hi.valid
      · exact (hi.histOK _ e).2
    · rcases p4 with e | e
      · simp only [e]; exact hi.len
      · exact (hi.histOK _ e).1
    · intro x hx; exact hi.histOK x (p5 x hx)
  · rw [if_neg hb, if_neg hb]; exact ⟨hr, hi⟩

/-! ### phases 4–7: closure, consistency, propagation, classification -/

/-- the classification part of `NGen.stepFinal` -/
noncomputable def aClass (P : NGen.GParams (List BoolFn) (List (List PA))) (s4 : ASt) : ASt :=
  if !P.twoVal (P.dec s4.cur) then { s4 with choice := true }
  else if P.isTarget (P.dec s4.cur) then
    { s4 with stack := { choice := none, ng := P.dec s4.cur } :: s4.stack, out := s4.out ++ [P.dec s4.cur],
              backtrack := true }
  else
    { s4 with stack := { choice := none, ng := P.dec s4.cur } :: s4.stack, backtrack := true }

open Classical in
theorem stepFinal_eq (P : NGen.GParams (List BoolFn) (List (List PA))) (s3 : ASt) (updNg : Bool) :
    NGen.stepFinal P s3 updNg =
      if P.acIncons (P.dec s3.cur) then { s3 with backtrack := true } else
      if P.gam s3.cur ≠ s3.cur then { s3 with cur := P.gam s3.cur }
      else if updNg then { s3 with cur := P.gam s3.cur }
      else aClass P { s3 with cur := P.gam s3.cur } := by
  unfold NGen.stepFinal aClass
  by_cases h1 : P.acIncons (P.dec s3.cur) = true
  · rw [if_pos h1, if_pos h1]
  · rw [if_neg h1, if_neg h1]
    simp only

section tail
variable (ac : List Nat) (stable : Bool) (raw : Nat → Option (Nat × Bool))

/-- the parameters the concrete run is compared with -/
noncomputable abbrev PP (s0 : Store) (n : Nat) (ac : List Nat) (stable : Bool) (raw : Nat → Option (Nat × Bool)) :=
  semP (ac.map (eval s0)) n stable raw

theorem rel_cv {c : SM.NgS} {a : ASt} (hr : Rel c a) (hi : CInv s0 n c) : cv a.cur = toPA c.cur := by
  rw [hr.cur]; exact cv_map_eval hi.wf hi.valid

theorem sim_class (w0 : WF s0) (hac0 : ∀ t ∈ ac, t < s0.nodes.size) (hn : ac.length = n)
    {c : SM.NgS} {a : ASt} (hr : Rel c a) (hi : CInv s0 n c) :
    Rel (cClass n ac stable c) (aClass (PP s0 n ac stable raw) a) ∧ CInv s0 n (cClass n ac stable c) := by
  have hcv := rel_cv hr hi
  have htv : (PP s0 n ac stable raw).twoVal ((PP s0 n ac stable raw).dec a.cur) = c.cur.all isTV := by
    show twoV (cv a.cur) = _
    rw [hcv, all_isTV_iff]
  unfold cClass aClass
  rw [htv]
  by_cases hall : (!(c.cur.all isTV)) = true
  · rw [if_pos hall, if_pos hall]
    exact ⟨⟨hr.cur, hr.store, hr.stack, hr.bt, rfl, hr.out⟩, ⟨hi.wf, hi.ext, hi.valid, hi.len, hi.histOK, hi.nd⟩⟩
  · rw [if_neg hall, if_neg hall]
    -- the leaf test
    have hacs : ∀ t ∈ ac, t < c.s.nodes.size := fun t ht => Nat.lt_of_lt_of_le (hac0 t ht) hi.ext.1
    have hD : ac.map (eval c.s) = ac.map (eval s0) := map_eval_ext w0 hi.ext hac0
    have hchk : WF (if stable then stabilityCheck c.s n ac c.cur else (c.s, true)).1 ∧
        Ext c.s (if stable then stabilityCheck c.s n ac c.cur else (c.s, true)).1 ∧
        (if stable then stabilityCheck c.s n ac c.cur else (c.s, true)).2 =
          (PP s0 n ac stable raw).isTarget ((PP s0 n ac stable raw).dec a.cur) := by
      show _ ∧ _ ∧ _ = isTgt (ac.map (eval s0)) stable (cv a.cur)
      rw [hcv]
      cases stable with
      | false =>
        simp only [Bool.false_eq_true, if_false]
        refine ⟨hi.wf, Ext.refl _, ?_⟩
        exact (isTgt_true_iff.mpr (fun h => by cases h)).symm
      | true =>
        simp only [if_true]
        have ⟨a1, a2, a3⟩ := stabilityCheck_spec c.s n ac c.cur hi.wf hacs hn hi.len
        refine ⟨a1, a2, ?_⟩
        rw [hD] at a3
        apply Bool.eq_iff_iff.mpr
        rw [a3, isTgt_true_iff]
        exact ⟨fun h _ => h, fun h => h rfl⟩
    obtain ⟨cw, ce, cb⟩ := hchk
    have ⟨r1, i1⟩ := rel_store hr hi cw ce
    simp only
    rw [← cb]
    have hdec : (PP s0 n ac stable raw).dec a.cur = toPA c.cur := hcv
    by_cases hb : (if stable then stabilityCheck c.s n ac c.cur else (c.s, true)).2 = true
    · rw [if_pos hb, if_pos hb]
      refine ⟨⟨r1.cur, r1.store, ?_, rfl, r1.ch, ?_⟩, ⟨i1.wf, i1.ext, i1.valid, i1.len, i1.histOK, i1.nd⟩⟩
      · rw [hdec]; exact StackRel.plain _ _ _ _ r1.stack
      · show a.out ++ [(PP s0 n ac stable raw).dec a.cur] = (c.out ++ [c.cur]).map toPA
        rw [hdec, List.map_append, hr.out]; rfl
    · rw [if_neg hb, if_neg hb]
      refine ⟨⟨r1.cur, r1.store, ?_, rfl, r1.ch, r1.out⟩, ⟨i1.wf, i1.ext, i1.valid, i1.len, i1.histOK, i1.nd⟩⟩
      rw [hdec]; exact StackRel.plain _ _ _ _ r1.stack

open Classical in
theorem sim_prop (w0 : WF s0) (hac0 : ∀ t ∈ ac, t < s0.nodes.size) (hn : ac.length = n)
    {c : SM.NgS} {a : ASt} (hr : Rel c a) (hi : CInv s0 n c) (updNg : Bool) :
    Rel (cProp n ac stable c updNg)
      (if (PP s0 n ac stable raw).gam a.cur ≠ a.cur then { a with cur := (PP s0 n ac stable raw).gam a.cur }
       else if updNg then { a with cur := (PP s0 n ac stable raw).gam a.cur }
       else aClass (PP s0 n ac stable raw) { a with cur := (PP s0 n ac stable raw).gam a.cur }) ∧
    CInv s0 n (cProp n ac stable c updNg) := by
  have hcv := rel_cv hr hi
  have ⟨u1, u2, u3, u4⟩ := applyInterp_spec c.cur c.cur c.s hi.wf hi.valid hi.valid
  have hgam : (PP s0 n ac stable raw).gam a.cur =
      (applyInterp c.s c.cur c.cur).2.map (eval (applyInterp c.s c.cur c.cur).1) := by
    show semRound a.cur = _
    have hcv' : List.map constOf a.cur = toPA c.cur := hcv
    rw [u4, semRound, hcv', hr.cur, List.map_map]
    rfl
  -- the state after the propagation step
  have ⟨r1, i1⟩ := rel_store hr hi u1 u2
  have r2 : Rel { c with s := (applyInterp c.s c.cur c.cur).1, cur := (applyInterp c.s c.cur c.cur).2 }
      { a with cur := (PP s0 n ac stable raw).gam a.cur } :=
    ⟨hgam, r1.store, r1.stack, r1.bt, r1.ch, r1.out⟩
  have i2 : CInv s0 n { c with s := (applyInterp c.s c.cur c.cur).1, cur := (applyInterp c.s c.cur c.cur).2 } :=
    ⟨i1.wf, i1.ext, u3, by show (applyInterp c.s c.cur c.cur).2.length = n; rw [applyInterp_length, hi.len],
      i1.histOK, i1.nd⟩
  -- the change test
  have hfp : ((applyInterp c.s c.cur c.cur).2 != c.cur) = true ↔ (PP s0 n ac stable raw).gam a.cur ≠ a.cur := by
    rw [hgam, r1.cur]
    show _ ↔ _ ≠ c.cur.map (eval (applyInterp c.s c.cur c.cur).1)
    rw [bne_iff_ne]
    constructor
    · intro hne he; exact hne (vec_canonical u1 u3 i1.valid he)
    · intro hne he; apply hne; rw [he]
  unfold cProp
  simp only
  by_cases hc : ((applyInterp c.s c.cur c.cur).2 != c.cur) = true
  · rw [if_pos hc, if_pos (hfp.mp hc)]; exact ⟨r2, i2⟩
  · rw [if_neg hc, if_neg (fun h => hc (hfp.mpr h))]
    by_cases hu : updNg = true
    · rw [if_pos hu, if_pos hu]; exact ⟨r2, i2⟩
    · rw [if_neg hu, if_neg hu]
      exact sim_class ac stable raw w0 hac0 hn r2 i2

theorem sim_final (w0 : WF s0) (hac0 : ∀ t ∈ ac, t < s0.nodes.size) (hn : ac.length = n)
    {c : SM.NgS} {a : ASt} (hr : Rel c a) (hi : CInv s0 n c) (updNg : Bool) :
    Rel (cFinal n ac stable c updNg) (NGen.stepFinal (PP s0 n ac stable raw) a updNg) ∧
    CInv s0 n (cFinal n ac stable c updNg) := by
  have hcv := rel_cv hr hi
  have hacs : ∀ t ∈ ac, t < c.s.nodes.size := fun t ht => Nat.lt_of_lt_of_le (hac0 t ht) hi.ext.1
  have ⟨u1, u2, u3, u4⟩ := applyInterp_spec c.cur ac c.s hi.wf hi.valid hacs
  have ⟨r1, i1⟩ := rel_store hr hi u1 u2
  -- the information values of the restricted conditions are `Γ_D` of the decided part
  have hG : toPA (applyInterp c.s c.cur ac).2 = Gam (ac.map (eval s0)) (toPA c.cur) := by
    rw [← cv_map_eval u1 u3, u4]
    simp only [cv, Gam, List.map_map]
    apply List.map_congr_left
    intro x hx
    simp only [Function.comp]
    congr 1
    funext σ
    exact eval_ext w0 hi.ext x _ (hac0 x hx)
  have hbad : ((c.cur.zip (applyInterp c.s c.cur ac).2).any (fun (c, a) => isTV c && isTV a && (c != a))) =
      (PP s0 n ac stable raw).acIncons ((PP s0 n ac stable raw).dec a.cur) := by
    show _ = acInc (ac.map (eval s0)) (cv a.cur)
    apply Bool.eq_iff_iff.mpr
    rw [bad_iff, acInc_true_iff, hcv, hG]
  rw [stepFinal_eq]
  unfold cFinal
  simp only
  rw [hbad]
  by_cases hb : (PP s0 n ac stable raw).acIncons ((PP s0 n ac stable raw).dec a.cur) = true
  · rw [if_pos hb, if_pos hb]
    exact ⟨⟨r1.cur, r1.store, r1.stack, rfl, r1.ch, r1.out⟩, ⟨i1.wf, i1.ext, i1.valid, i1.len, i1.histOK, i1.nd⟩⟩
  · rw [if_neg hb, if_neg hb]
    exact sim_prop ac stable raw w0 hac0 hn r1 i1 updNg

theorem sim_tail (w0 : WF s0) (hac0 : ∀ t ∈ ac, t < s0.nodes.size) (hn : ac.length = n)
    {c : SM.NgS} {a : ASt} (hr : Rel c a) (hi : CInv s0 n c) :
    Rel (cTail n ac stable c) (NGen.stepTail (PP s0 n ac stable raw) a) ∧ CInv s0 n (cTail n ac stable c) := by
  have hcv := rel_cv hr hi
  have hcl : (PP s0 n ac stable raw).closure a.store ((PP s0 n ac stable raw).dec a.cur) =
      conclusionClosure c.buckets (toPA c.cur) := by
    show conclusionClosure a.store (cv a.cur) = _
    rw [hr.store, hcv]
  unfold cTail NGen.stepTail
  rw [hcl, closureF_eq]
  cases hc : conclusionClosure c.buckets (toPA c.cur) with
  | inconsistent =>
    simp only [liftC]
    exact ⟨⟨hr.cur, hr.store, hr.stack, rfl, hr.ch, hr.out⟩, ⟨hi.wf, hi.ext, hi.valid, hi.len, hi.histOK, hi.nd⟩⟩
  | noUpdate =>
    simp only [liftC]
    exact sim_final ac stable raw w0 hac0 hn hr hi false
  | update R =>
    simp only [liftC]
    have ⟨l1, l2, _⟩ := closure_psub_len hc
    have hR : toPA (updH c.cur R) = R := toPA_updH (by rw [l1, toPA_length]) l2
    have r2 : Rel { c with cur := updH c.cur R, stack := (false, toPA (updH c.cur R)) :: c.stack }
        { a with cur := (PP s0 n ac stable raw).updV a.cur R, stack := { choice := none, ng := R } :: a.stack } := by
      refine ⟨?_, hr.store, ?_, hr.bt, hr.ch, hr.out⟩
      · show updF a.cur R = (updH c.cur R).map (eval c.s)
        rw [updH_map_eval, hr.cur]
      · rw [hR]; exact StackRel.plain _ _ _ _ hr.stack
    have i2 : CInv s0 n { c with cur := updH c.cur R, stack := (false, toPA (updH c.cur R)) :: c.stack } :=
      ⟨hi.wf, hi.ext, updH_valid hi.wf hi.valid R, by show (updH c.cur R).length = n; rw [updH_length, hi.len],
        hi.histOK, hi.nd⟩
    exact sim_final ac stable raw w0 hac0 hn r2 i2 true

/-- **one concrete iteration is one abstract iteration** -/
theorem sim_iter (w0 : WF s0) (hac0 : ∀ t ∈ ac, t < s0.nodes.size) (hn : ac.length = n) {h : CHeu} (hok : HeuOK h)
    (k : Nat) {c : SM.NgS} {a : ASt} (hr : Rel c a) (hi : CInv s0 n c)
    (hraw : raw k = conv (h c.s c.cur c.time)) :
    match NGen.iter (PP s0 n ac stable raw) k a with
    | NGen.Res.done a' => (cIter h n ac stable c).done = true ∧ (cIter h n ac stable c).out.map toPA = a'.out
    | NGen.Res.cont a' => Rel (cIter h n ac stable c) a' ∧ CInv s0 n (cIter h n ac stable c) := by
  have ⟨r1, i1⟩ := sim_choice (ac.map (eval s0)) stable raw hok k hr hi hraw
  unfold NGen.iter cIter
  simp only
  by_cases hd : (cChoice h c).backtrack = true ∧ (cChoice h c).stack = []
  · have hd' : (NGen.step1 (PP s0 n ac stable raw) k a).backtrack = true ∧
        (NGen.step1 (PP s0 n ac stable raw) k a).stack = [] := ⟨by rw [r1.bt]; exact hd.1, r1.stack.nil_iff.mpr hd.2⟩
    rw [if_pos hd', if_pos (by simp [hd.1, hd.2])]
    exact ⟨rfl, r1.out.symm⟩
  · have hd' : ¬ ((NGen.step1 (PP s0 n ac stable raw) k a).backtrack = true ∧
        (NGen.step1 (PP s0 n ac stable raw) k a).stack = []) := by
      intro ⟨h1, h2⟩; exact hd ⟨by rw [← r1.bt]; exact h1, r1.stack.nil_iff.mp h2⟩
    rw [if_neg hd', if_neg (by simpa using hd)]
    have ⟨r3, i3⟩ := sim_back (ac.map (eval s0)) stable raw r1 i1
    exact sim_tail ac stable raw w0 hac0 hn r3 i3

end tail

end NConc
#print axioms NConc.sim_iter
