import AdfObdd.NgEndToEnd
import AdfObdd.TTDepthPaths
import AdfObdd.Deps
/-! # The nogood-learning search lists its models in an order that depends on the FUNCTIONS only

Two well-formed stores `s`, `s'` with condition vectors `ac`, `ac'` that denote the same functions - e.g. the
store of an object after an arbitrary call history and the store of the freshly built object: different node
tables, different handle numbers.  For every built-in heuristic, every bound and both modes the two runs of
`SM.ngSearch` halt within the same bound and emit the same decided parts IN THE SAME ORDER.

Proof: both concrete runs are lock-step simulations (`NConc.sim_iter`) of the semantic machine over denotation
vectors, whose only free parameter is the heuristic's answer in each iteration; the built-in heuristics read the
handle vector through positions, `paths` and `var_dependencies` only, which are functions of the denoted
Boolean functions (`paths_den` via `TT.paths_eq`, `deps_exact`): `heuCall_key`.  Hence both runs simulate the
SAME abstract run. -/
namespace NConc.Ord
open NConc NSem

/-! ## the heuristics through denotations -/

theorem sic_constOf {s : Store} (w : WF s) {t : Nat} (ht : t < s.nodes.size) : storeIsConst t = constOf (eval s t) := by
  have := asg3_eq StoreRA (s := s) (v := [t]) w (by intro x hx; simp at hx; subst hx; exact ht)
  simp only [asg3, List.map_cons, List.map_nil, List.cons.injEq, and_true] at this
  exact this

theorem isTV_sic (t : Nat) : isTV t = (storeIsConst t).isSome := by
  unfold isTV storeIsConst
  by_cases h0 : t = 0
  · subst h0; rfl
  · by_cases h1 : t = 1
    · subst h1; rfl
    · simp only [h0, h1, if_false, Option.isSome_none]
      simp; omega

theorem mem_le_sum {l : List Nat} {x : Nat} (h : x ∈ l) : x ≤ l.sum := by
  induction l with
  | nil => cases h
  | cons y ys ih =>
    rcases List.mem_cons.mp h with e | e
    · subst e; simp
    · have := ih e; simp; omega

/-- the path counts of a diagram are a function of its Boolean function -/
theorem paths_den {s s' : Store} (w : WF s) (w' : WF s') {t t' : Nat} (ht : t < s.nodes.size) (ht' : t' < s'.nodes.size)
    (e : eval s t = eval s' t') : paths s t = paths s' t' := by
  have hd : ∀ x ∈ depsF s (t+1) t, x < (depsF s (t+1) t).sum + 1 := fun x hx => Nat.lt_succ_of_le (mem_le_sum hx)
  have hd' : ∀ x ∈ depsF s' (t'+1) t', x < (depsF s (t+1) t).sum + 1 := by
    intro x hx
    have := (deps_exact s' w' t' x ht').mp hx
    rw [← e] at this
    exact hd x ((deps_exact s w t x ht).mpr this)
  have r := TT.rep_ofFn ((depsF s (t+1) t).sum + 1) (eval s t)
  have p1 := TT.paths_eq s w.table t ht _ _ r hd
  have p2 := TT.paths_eq s' w'.table t' ht' _ _ (e ▸ r) hd'
  unfold paths
  rw [← p1, ← p2, e]

open Classical in
/-- path counts of THE diagram of a function (any well-formed store, any handle denoting it) -/
noncomputable def pathsFn (f : BoolFn) : Nat × Nat :=
  if h : ∃ (s : Store) (t : Nat), WF s ∧ t < s.nodes.size ∧ eval s t = f then paths h.choose h.choose_spec.choose
  else (0, 0)

theorem paths_fn {s : Store} (w : WF s) {t : Nat} (ht : t < s.nodes.size) : paths s t = pathsFn (eval s t) := by
  have h : ∃ (s' : Store) (t' : Nat), WF s' ∧ t' < s'.nodes.size ∧ eval s' t' = eval s t := ⟨s, t, w, ht, rfl⟩
  unfold pathsFn
  rw [dif_pos h]
  have ⟨w', ht', e⟩ := h.choose_spec.choose_spec
  exact paths_den w w' ht ht' e.symm

open Classical in
noncomputable def passiveK (i : Nat) (fs : List BoolFn) : Nat := (fs.filter (fun f => decide (Essential f i))).length

theorem passive_den {s : Store} (w : WF s) {v : List Nat} (hv : ∀ t ∈ v, t < s.nodes.size) (i : Nat) :
    passive s i v = passiveK i (v.map (eval s)) := by
  unfold passive passiveK
  rw [List.filter_map, List.length_map]
  congr 1
  apply List.filter_congr
  intro t ht
  simp only [Function.comp]
  rw [Bool.eq_iff_iff]
  simp only [List.contains_iff_mem, decide_eq_true_eq]
  exact deps_exact s w t i (hv t ht)

abbrev KP := Nat × BoolFn
def keyOf (s : Store) (p : Nat × Nat) : KP := (p.1, eval s p.2)

noncomputable def undecidedK (fs : List BoolFn) : List KP :=
  (fs.zipIdx.filter (fun (p : BoolFn × Nat) => !(constOf p.1).isSome)).map (fun p => (p.2, p.1))

theorem undecided_key {s : Store} (w : WF s) {v : List Nat} (hv : ∀ t ∈ v, t < s.nodes.size) :
    (SM.undecided v).map (keyOf s) = undecidedK (v.map (eval s)) := by
  unfold SM.undecided undecidedK
  rw [List.zipIdx_map, List.filter_map, List.map_map, List.map_map]
  have hf : v.zipIdx.filter (fun (x : Nat × Nat) => match x with | (t, _) => !isTV t) =
      v.zipIdx.filter ((fun (p : BoolFn × Nat) => !(constOf p.1).isSome) ∘ Prod.map (eval s) id) := by
    apply List.filter_congr
    intro x hx
    obtain ⟨t, i⟩ := x
    have hm := List.mem_zipIdx hx
    simp only [Nat.zero_add, Nat.zero_le, true_and, Nat.sub_zero] at hm
    have htv : t ∈ v := by rw [hm.2]; exact List.getElem_mem hm.1
    simp only [Function.comp, Prod.map, id]
    rw [isTV_sic, sic_constOf w (hv t htv)]
  rw [hf]
  apply List.map_congr_left
  intro x _
  obtain ⟨t, i⟩ := x
  rfl

def minByG {α : Type} (cmp : α → α → Ordering) : List α → Option α
  | [] => none
  | x :: xs => some (xs.foldl (fun m y => if cmp m y == .gt then y else m) x)

theorem foldl_min_map {α : Type} (f : Nat × Nat → α) (cmp : (Nat × Nat) → (Nat × Nat) → Ordering)
    (cmpK : α → α → Ordering) (l : List (Nat × Nat))
    (hc : ∀ p ∈ l, ∀ q ∈ l, cmp p q = cmpK (f p) (f q)) : ∀ (xs : List (Nat × Nat)) (m : Nat × Nat),
    m ∈ l → (∀ y ∈ xs, y ∈ l) →
    f (xs.foldl (fun m y => if cmp m y == .gt then y else m) m) =
      (xs.map f).foldl (fun m y => if cmpK m y == .gt then y else m) (f m) ∧
    xs.foldl (fun m y => if cmp m y == .gt then y else m) m ∈ l := by
  intro xs
  induction xs with
  | nil => intro m hm _; exact ⟨rfl, hm⟩
  | cons y ys ih =>
    intro m hm hy
    have hyl := hy y (List.mem_cons_self ..)
    simp only [List.foldl_cons, List.map_cons]
    rw [← hc m hm y hyl]
    by_cases hg : (cmp m y == .gt) = true
    · simp only [hg, if_true]
      exact ih y hyl (fun z hz => hy z (List.mem_cons_of_mem _ hz))
    · simp only [hg, Bool.false_eq_true, if_false]
      exact ih m hm (fun z hz => hy z (List.mem_cons_of_mem _ hz))

theorem minBy_map {α : Type} (f : Nat × Nat → α) (cmp : (Nat × Nat) → (Nat × Nat) → Ordering)
    (cmpK : α → α → Ordering) (l : List (Nat × Nat))
    (hc : ∀ p ∈ l, ∀ q ∈ l, cmp p q = cmpK (f p) (f q)) :
    (minBy cmp l).map f = minByG cmpK (l.map f) ∧ ∀ r, minBy cmp l = some r → r ∈ l := by
  cases l with
  | nil => exact ⟨rfl, fun r h => by cases h⟩
  | cons x xs =>
    have := foldl_min_map f cmp cmpK (x :: xs) hc xs x (List.mem_cons_self ..) (fun y hy => List.mem_cons_of_mem _ hy)
    refine ⟨?_, ?_⟩
    · simp only [minBy, minByG, List.map_cons, Option.map_some]
      rw [this.1]
    · intro r hr
      simp only [minBy, Option.some.injEq] at hr
      rw [← hr]; exact this.2

noncomputable def minPathsK (f : BoolFn) : Nat := min (pathsFn f).1 (pathsFn f).2

noncomputable def cmpK1 (fs : List BoolFn) (l r : KP) : Ordering :=
  match compare (minPathsK l.2) (minPathsK r.2) with
  | .eq => compare (passiveK l.1 fs) (passiveK r.1 fs)
  | o => o

noncomputable def cmpK2 (fs : List BoolFn) (l r : KP) : Ordering :=
  match compare (passiveK l.1 fs) (passiveK r.1 fs) with
  | .eq => compare (minPathsK l.2) (minPathsK r.2)
  | o => o

noncomputable def valK (p : KP) : Nat × Nat := (p.1, if moreModels (pathsFn p.2) then 1 else 0)

/-- the built-in heuristics as functions of the DENOTATIONS of the vector shown -/
noncomputable def heuK (h : SM.Heu) (fs : List BoolFn) (time : Nat) : Option (Nat × Nat) :=
  match h with
  | .simple => (undecidedK fs).head?.map (fun p => (p.1, 1))
  | .minPathsMaxVarImp => (minByG (cmpK1 fs) (undecidedK fs)).map valK
  | .maxVarImpMinPaths => (minByG (cmpK2 fs) (undecidedK fs)).map valK
  | .script seed =>
    let u := undecidedK fs
    let r := (SM.splitmix (UInt64.ofNat seed + UInt64.ofNat time * 0x2545F4914F6CDD1D)).toNat
    match u[r % u.length]? with
    | some p => some (p.1, (r / 2 ^ 33) % 2)
    | none => none

theorem undecided_valid {s : Store} {v : List Nat} (hv : ∀ t ∈ v, t < s.nodes.size) {p : Nat × Nat}
    (hp : p ∈ SM.undecided v) : p.2 < s.nodes.size :=
  hv _ (List.mem_of_getElem? (mem_undecided hp).2.1)

/-- **what a built-in heuristic answers depends on the denotations of the vector only** -/
theorem heuCall_key (h : SM.Heu) {s : Store} (w : WF s) {v : List Nat} (hv : ∀ t ∈ v, t < s.nodes.size) (time : Nat) :
    SM.heuCall h s v time = heuK h (v.map (eval s)) time := by
  have hu := undecided_key w hv
  have hval : ∀ r ∈ SM.undecided v, (r.1, if moreModels (paths s r.2) then 1 else 0) = valK (keyOf s r) := by
    intro r hr
    simp only [valK, keyOf, paths_fn w (undecided_valid hv hr)]
    rfl
  have hmp : ∀ p ∈ SM.undecided v, minPaths s p.2 = minPathsK (eval s p.2) := by
    intro p hp
    simp only [minPaths, minPathsK, paths_fn w (undecided_valid hv hp)]
  cases h with
  | simple =>
    simp only [SM.heuCall, heuK]
    rw [← hu, List.head?_map, Option.map_map]
    congr 1
  | minPathsMaxVarImp =>
    simp only [SM.heuCall, heuK]
    have ⟨m1, m2⟩ := minBy_map (keyOf s) (SM.cmpMinPathsImp s v) (cmpK1 (v.map (eval s))) (SM.undecided v) (by
      intro p hp q hq
      simp only [SM.cmpMinPathsImp, cmpK1, keyOf, hmp p hp, hmp q hq, passive_den w hv]
      rfl)
    rw [← hu, ← m1]
    cases hmin : minBy (SM.cmpMinPathsImp s v) (SM.undecided v) with
    | none => rfl
    | some r =>
      simp only [Option.map_some]
      have := hval r (m2 r hmin)
      obtain ⟨i, t⟩ := r
      exact congrArg some this
  | maxVarImpMinPaths =>
    simp only [SM.heuCall, heuK]
    have ⟨m1, m2⟩ := minBy_map (keyOf s) (SM.cmpImpMinPaths s v) (cmpK2 (v.map (eval s))) (SM.undecided v) (by
      intro p hp q hq
      simp only [SM.cmpImpMinPaths, cmpK2, keyOf, hmp p hp, hmp q hq, passive_den w hv]
      rfl)
    rw [← hu, ← m1]
    cases hmin : minBy (SM.cmpImpMinPaths s v) (SM.undecided v) with
    | none => rfl
    | some r =>
      simp only [Option.map_some]
      have := hval r (m2 r hmin)
      obtain ⟨i, t⟩ := r
      exact congrArg some this
  | script seed =>
    simp only [SM.heuCall, heuK]
    rw [← hu, List.length_map, List.getElem?_map]
    cases (SM.undecided v)[(SM.splitmix (UInt64.ofNat seed + UInt64.ofNat time * 0x2545F4914F6CDD1D)).toNat %
      (SM.undecided v).length]? with
    | none => rfl
    | some p => obtain ⟨i, t⟩ := p; rfl

/-! ## the two runs in lock step -/

theorem cChoice_time (hc : CHeu) (c : SM.NgS) : (cChoice hc c).time = c.time + (if c.choice then 1 else 0) := by
  unfold cChoice
  by_cases h : c.choice = true
  · simp only [h, if_true]
    split <;> rfl
  · simp only [h, Bool.false_eq_true, if_false]; rfl

theorem cBack_time (c : SM.NgS) : (cBack c).time = c.time := by
  unfold cBack
  split <;> rfl

theorem cClass_time (n : Nat) (ac : List Nat) (stable : Bool) (c : SM.NgS) : (cClass n ac stable c).time = c.time := by
  unfold cClass
  split
  · rfl
  · simp only [apply_ite SM.NgS.time, ite_self]

theorem cProp_time (n : Nat) (ac : List Nat) (stable : Bool) (c : SM.NgS) (u : Bool) :
    (cProp n ac stable c u).time = c.time := by
  unfold cProp
  simp only
  split
  · rfl
  · split
    · rfl
    · rw [cClass_time]

theorem cFinal_time (n : Nat) (ac : List Nat) (stable : Bool) (c : SM.NgS) (u : Bool) :
    (cFinal n ac stable c u).time = c.time := by
  unfold cFinal
  simp only
  split
  · rfl
  · rw [cProp_time]

theorem cTail_time (n : Nat) (ac : List Nat) (stable : Bool) (c : SM.NgS) : (cTail n ac stable c).time = c.time := by
  unfold cTail
  cases SM.closureF c.buckets c.cur with
  | inconsistent => rfl
  | update r => rw [cFinal_time]
  | noUpdate => rw [cFinal_time]

theorem cIter_time (hc : CHeu) (n : Nat) (ac : List Nat) (stable : Bool) (c : SM.NgS) :
    (cIter hc n ac stable c).time = c.time + (if c.choice then 1 else 0) := by
  unfold cIter
  simp only
  split
  · show (cChoice hc c).time = _
    exact cChoice_time hc c
  · rw [cTail_time, cBack_time, cChoice_time]

section lock
variable (h : SM.Heu) (s s' : Store) (n : Nat) (ac ac' : List Nat) (stable : Bool)

/-- the joint invariant of the two runs after `k` iterations: both have halted with the same decided outputs, or
both are related to the SAME state of the semantic machine and have called the heuristic equally often -/
def Joint (k : Nat) : Prop :=
  ((cState (SM.heuCall h) s n ac stable k).done = true ∧ (cState (SM.heuCall h) s' n ac' stable k).done = true ∧
    (cState (SM.heuCall h) s n ac stable k).out.map toPA = (cState (SM.heuCall h) s' n ac' stable k).out.map toPA) ∨
  (∃ a : ASt, Rel (cState (SM.heuCall h) s n ac stable k) a ∧ CInv s n (cState (SM.heuCall h) s n ac stable k) ∧
    Rel (cState (SM.heuCall h) s' n ac' stable k) a ∧ CInv s' n (cState (SM.heuCall h) s' n ac' stable k) ∧
    (cState (SM.heuCall h) s n ac stable k).time = (cState (SM.heuCall h) s' n ac' stable k).time)

theorem joint_all (w : WF s) (w' : WF s') (hn : ac.length = n) (hn' : ac'.length = n)
    (hv : ∀ t ∈ ac, t < s.nodes.size) (hv' : ∀ t ∈ ac', t < s'.nodes.size)
    (hD : ac.map (eval s) = ac'.map (eval s')) : ∀ k, Joint h s s' n ac ac' stable k := by
  intro k
  induction k with
  | zero =>
    right
    have ⟨r, i, _, _⟩ := init_facts s n ac stable w hv hn
    have ⟨r', i', _, _⟩ := init_facts s' n ac' stable w' hv' hn'
    have ⟨_, _, _, d1⟩ := groundedLoop_sem StoreRA (n + 1) s ac w hv
    have ⟨_, _, _, d1'⟩ := groundedLoop_sem StoreRA (n + 1) s' ac' w' hv'
    have e : (initC s n ac).cur.map (eval (initC s n ac).s) = (initC s' n ac').cur.map (eval (initC s' n ac').s) := by
      have a1 : (initC s n ac).cur.map (eval (initC s n ac).s) = semLoop (n + 1) (ac.map (eval s)) := d1
      have a2 : (initC s' n ac').cur.map (eval (initC s' n ac').s) = semLoop (n + 1) (ac'.map (eval s')) := d1'
      rw [a1, a2, hD]
    rw [← e] at r'
    exact ⟨_, r, i, r', i', rfl⟩
  | succ k ih =>
    rcases ih with ⟨d, d', o⟩ | ⟨a, r, i, r', i', ht⟩
    · left
      have e : cState (SM.heuCall h) s n ac stable (k + 1) = cState (SM.heuCall h) s n ac stable k := by
        have hd : (cRun (SM.heuCall h) n ac stable k (initC s n ac)).done = true := d
        unfold cState; rw [cRun_succ, if_pos hd]
      have e' : cState (SM.heuCall h) s' n ac' stable (k + 1) = cState (SM.heuCall h) s' n ac' stable k := by
        have hd : (cRun (SM.heuCall h) n ac' stable k (initC s' n ac')).done = true := d'
        unfold cState; rw [cRun_succ, if_pos hd]
      rw [e, e']; exact ⟨d, d', o⟩
    · have hnext : cState (SM.heuCall h) s n ac stable (k + 1) =
          cIter (SM.heuCall h) n ac stable (cState (SM.heuCall h) s n ac stable k) := by
        have hnd : (cRun (SM.heuCall h) n ac stable k (initC s n ac)).done = false := i.nd
        unfold cState
        rw [cRun_succ, hnd]
        simp only [Bool.false_eq_true, if_false]
      have hnext' : cState (SM.heuCall h) s' n ac' stable (k + 1) =
          cIter (SM.heuCall h) n ac' stable (cState (SM.heuCall h) s' n ac' stable k) := by
        have hnd : (cRun (SM.heuCall h) n ac' stable k (initC s' n ac')).done = false := i'.nd
        unfold cState
        rw [cRun_succ, hnd]
        simp only [Bool.false_eq_true, if_false]
      generalize cState (SM.heuCall h) s n ac stable k = c at r i ht hnext
      generalize cState (SM.heuCall h) s' n ac' stable k = c' at r' i' ht hnext'
      -- the heuristic answers alike
      have hheu : SM.heuCall h c'.s c'.cur c'.time = SM.heuCall h c.s c.cur c.time := by
        rw [heuCall_key h i.wf i.valid, heuCall_key h i'.wf i'.valid, ← r.cur, ← r'.cur, ht]
      have hok := heuOK_builtin h
      have s1 := sim_iter ac stable (fun _ => conv (SM.heuCall h c.s c.cur c.time)) w hv hn hok k r i rfl
      have s2 := sim_iter ac' stable (fun _ => conv (SM.heuCall h c.s c.cur c.time)) w' hv' hn' hok k r' i'
        (by rw [hheu])
      have hPP : PP s' n ac' stable (fun _ => conv (SM.heuCall h c.s c.cur c.time)) =
          PP s n ac stable (fun _ => conv (SM.heuCall h c.s c.cur c.time)) := by
        unfold PP; rw [hD]
      rw [hPP] at s2
      unfold Joint
      rw [hnext, hnext']
      cases hit : NGen.iter (PP s n ac stable (fun _ => conv (SM.heuCall h c.s c.cur c.time))) k a with
      | done a1 =>
        rw [hit] at s1 s2
        exact Or.inl ⟨s1.1, s2.1, s1.2.trans s2.2.symm⟩
      | cont a1 =>
        rw [hit] at s1 s2
        refine Or.inr ⟨a1, s1.1, s1.2, s2.1, s2.2, ?_⟩
        rw [cIter_time, cIter_time, ht, ← r.ch, ← r'.ch]

/-- **same bound, same verdict, same decided parts in the same order** -/
theorem ngSearch_order (w : WF s) (w' : WF s') (hn : ac.length = n) (hn' : ac'.length = n)
    (hv : ∀ t ∈ ac, t < s.nodes.size) (hv' : ∀ t ∈ ac', t < s'.nodes.size)
    (hD : ac.map (eval s) = ac'.map (eval s')) (fuel : Nat) :
    (SM.ngSearch h fuel s n ac stable).2.2.2 = (SM.ngSearch h fuel s' n ac' stable).2.2.2 ∧
    ((SM.ngSearch h fuel s n ac stable).2.2.2 = true →
      (SM.ngSearch h fuel s n ac stable).2.1.map (fun v => v.map storeIsConst) =
      (SM.ngSearch h fuel s' n ac' stable).2.1.map (fun v => v.map storeIsConst)) := by
  rw [ngSearch_eq, ngSearch_eq]
  show (cState (SM.heuCall h) s n ac stable fuel).done = (cState (SM.heuCall h) s' n ac' stable fuel).done ∧
    ((cState (SM.heuCall h) s n ac stable fuel).done = true →
      (cState (SM.heuCall h) s n ac stable fuel).out.map toPA = (cState (SM.heuCall h) s' n ac' stable fuel).out.map toPA)
  rcases joint_all h s s' n ac ac' stable w w' hn hn' hv hv' hD fuel with ⟨d, d', o⟩ | ⟨a, r, i, r', i', _⟩
  · exact ⟨by rw [d, d'], fun _ => o⟩
  · exact ⟨by rw [i.nd, i'.nd], fun hd => by rw [i.nd] at hd; cases hd⟩

end lock

end NConc.Ord
