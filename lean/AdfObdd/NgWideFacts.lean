import AdfObdd.NgSpecFacts
import AdfObdd.Spec.NgWide
/-! the search-based specification for wide nogood stores (`Spec/NgWide.lean`): the search
    `avoidingExt` is sound and complete, and the W-checks built on it coincide with the brute-force
    checks of `Spec/Ng.lean` (which enumerate all `2^n` total assignments) -/
namespace NgSpec

theorem mem_openLitsFrom : ∀ (g A : PA) (i v : Nat) (c : Bool),
    (v, c) ∈ openLitsFrom i g A ↔ ∃ j, v = i + j ∧ pget g j = some c ∧ pget A j = none := by
  intro g
  induction g with
  | nil =>
    intro A i v c
    simp only [openLitsFrom, List.not_mem_nil, false_iff]
    rintro ⟨j, _, h, _⟩
    simp [pget] at h
  | cons x g ih =>
    intro A i v c
    -- the literals behind the head, in terms of the tail
    have tail : ∀ A' : PA, (∀ j, pget A' j = pget A (j + 1)) →
        ((v, c) ∈ openLitsFrom (i + 1) g A' ↔
          ∃ j, v = i + (j + 1) ∧ pget (x :: g) (j + 1) = some c ∧ pget A (j + 1) = none) := by
      intro A' hA'
      rw [ih A' (i + 1) v c]
      constructor
      · rintro ⟨j, h1, h2, h3⟩
        exact ⟨j, by omega, by rw [pget_cons_succ]; exact h2, by rw [← hA']; exact h3⟩
      · rintro ⟨j, h1, h2, h3⟩
        exact ⟨j, by omega, by rw [pget_cons_succ] at h2; exact h2, by rw [hA']; exact h3⟩
    -- splitting the index of a literal of `x :: g` into head / tail
    have split : ∀ (hd : Prop), (hd ↔ (v = i ∧ x = some c ∧ pget A 0 = none)) → ∀ (tl : Prop),
        (tl ↔ ∃ j, v = i + (j + 1) ∧ pget (x :: g) (j + 1) = some c ∧ pget A (j + 1) = none) →
        ((hd ∨ tl) ↔ ∃ j, v = i + j ∧ pget (x :: g) j = some c ∧ pget A j = none) := by
      intro hd hhd tl htl
      rw [hhd, htl]
      constructor
      · rintro (⟨h1, h2, h3⟩ | ⟨j, h⟩)
        · exact ⟨0, by omega, by rw [pget_cons_zero]; exact h2, h3⟩
        · exact ⟨j + 1, h⟩
      · rintro ⟨j, h1, h2, h3⟩
        cases j with
        | zero => exact Or.inl ⟨by omega, by rw [pget_cons_zero] at h2; exact h2, h3⟩
        | succ j => exact Or.inr ⟨j, h1, h2, h3⟩
    have nil_get : ∀ j, pget ([] : PA) j = none := fun j => by simp [pget]
    cases A with
    | nil =>
      have t := tail [] (fun j => by rw [nil_get, nil_get])
      cases x with
      | none =>
        simp only [openLitsFrom]
        rw [← split False (by simp) _ t]; simp
      | some d =>
        simp only [openLitsFrom, List.mem_cons]
        rw [← split ((v, c) = (i, d)) (by simp [nil_get, eq_comm]) _ t]
    | cons a A =>
      have t := tail A (fun j => by rw [pget_cons_succ])
      cases x with
      | none =>
        simp only [openLitsFrom]
        rw [← split False (by simp) _ t]; simp
      | some d =>
        cases a with
        | some w =>
          simp only [openLitsFrom]
          rw [← split False (by simp [pget_cons_zero]) _ t]; simp
        | none =>
          simp only [openLitsFrom, List.mem_cons]
          rw [← split ((v, c) = (i, d)) (by simp [pget_cons_zero, eq_comm]) _ t]

theorem mem_openLits {g A : PA} {v : Nat} {c : Bool} :
    (v, c) ∈ openLits g A ↔ pget g v = some c ∧ pget A v = none := by
  unfold openLits
  rw [mem_openLitsFrom]
  constructor
  · rintro ⟨j, h1, h2, h3⟩
    have : v = j := by omega
    subst this; exact ⟨h2, h3⟩
  · rintro ⟨h2, h3⟩; exact ⟨v, by omega, h2, h3⟩

theorem closedL_iff : ∀ (g A : PA), closedL g A = true ↔ Closed g A := by
  intro g
  induction g with
  | nil =>
    intro A
    simp only [closedL, Bool.false_eq_true, false_iff]
    rintro ⟨i, c, h, _⟩
    simp [pget] at h
  | cons x g ih =>
    intro A
    cases A with
    | nil =>
      simp only [closedL, Bool.false_eq_true, false_iff]
      rintro ⟨i, c, _, h⟩
      simp [pget] at h
    | cons a A =>
      have tail : closedL g A = true ↔ ∃ i c, pget (x :: g) (i + 1) = some c ∧ pget (a :: A) (i + 1) = some (!c) := by
        rw [ih A]; unfold Closed
        simp only [pget_cons_succ]
      have split : ∀ (hd : Prop), (hd ↔ ∃ c, x = some c ∧ a = some (!c)) →
          ((hd ∨ closedL g A = true) ↔ Closed (x :: g) (a :: A)) := by
        intro hd hhd
        rw [hhd, tail]
        unfold Closed
        constructor
        · rintro (⟨c, h1, h2⟩ | ⟨i, c, h⟩)
          · exact ⟨0, c, by rw [pget_cons_zero]; exact h1, by rw [pget_cons_zero]; exact h2⟩
          · exact ⟨i + 1, c, h⟩
        · rintro ⟨i, c, h1, h2⟩
          cases i with
          | zero => rw [pget_cons_zero] at h1 h2; exact Or.inl ⟨c, h1, h2⟩
          | succ i => exact Or.inr ⟨i, c, h1, h2⟩
      cases x with
      | none =>
        simp only [closedL]
        rw [← split False (by simp)]; simp
      | some c =>
        cases a with
        | none =>
          simp only [closedL]
          rw [← split False (by simp)]; simp
        | some d =>
          simp only [closedL, Bool.or_eq_true]
          rw [← split ((c != d) = true) (by cases c <;> cases d <;> simp)]

theorem pickOpen_none {A : PA} : ∀ (gs : List PA), pickOpen gs A = none → ∀ g ∈ gs, closedL g A = true := by
  intro gs
  induction gs with
  | nil => intro _ g hg; cases hg
  | cons g gs ih =>
    intro h x hx
    simp only [pickOpen] at h
    by_cases hc : closedL g A = true
    · rw [if_pos hc] at h
      rcases List.mem_cons.mp hx with rfl | hx
      · exact hc
      · exact ih h x hx
    · rw [if_neg hc] at h
      cases hp : pickOpen gs A with
      | none => rw [hp] at h; cases h
      | some k => rw [hp] at h; simp only at h; split at h <;> cases h

theorem pickOpen_some {A : PA} : ∀ (gs : List PA) (g : PA), pickOpen gs A = some g →
    g ∈ gs ∧ closedL g A = false := by
  intro gs
  induction gs with
  | nil => intro g h; cases h
  | cons x gs ih =>
    intro g h
    simp only [pickOpen] at h
    by_cases hc : closedL x A = true
    · rw [if_pos hc] at h
      have := ih g h
      exact ⟨List.mem_cons_of_mem _ this.1, this.2⟩
    · rw [if_neg hc] at h
      have hx : closedL x A = false := by simpa using hc
      cases hp : pickOpen gs A with
      | none => rw [hp] at h; cases h; exact ⟨List.mem_cons_self .., hx⟩
      | some k =>
        rw [hp] at h
        simp only at h
        split at h
        · cases h; exact ⟨List.mem_cons_self .., hx⟩
        · cases h
          have := ih _ hp
          exact ⟨List.mem_cons_of_mem _ this.1, this.2⟩

/-- a nogood without complemented and without undecided literal is contained in the interpretation -/
theorem psub_of_openLits_nil {g A : PA} (ho : openLits g A = []) (hc : closedL g A = false) : PSub g A := by
  intro i c hg
  cases hA : pget A i with
  | none =>
    have : (i, c) ∈ openLits g A := mem_openLits.mpr ⟨hg, hA⟩
    rw [ho] at this; cases this
  | some d =>
    by_cases e : d = c
    · rw [e]
    · exfalso
      have : closedL g A = true :=
        (closedL_iff g A).mpr ⟨i, c, hg, by rw [hA]; cases c <;> cases d <;> simp_all⟩
      rw [hc] at this; cases this

theorem not_matches_of_closed {g R : PA} {σ : Asg} (h : Closed g R) (hm : Matches R σ) : ¬ Matches g σ := by
  intro hg
  obtain ⟨i, c, h1, h2⟩ := h
  have a := hg i c h1
  have b := hm i _ h2
  rw [a] at b; cases c <;> simp at b

/-- a result of the search extends the interpretation, keeps the width and closes every nogood -/
theorem searchExt_sound {n : Nat} {gs : List PA} (hgs : ∀ g ∈ gs, g.length ≤ n) :
    ∀ (fuel : Nat) (A R : PA), A.length = n → searchExt gs fuel A = some R →
      PSub A R ∧ R.length = n ∧ ∀ g ∈ gs, Closed g R := by
  intro fuel
  induction fuel with
  | zero => intro A R _ h; simp [searchExt] at h
  | succ fuel ih =>
    intro A R hA h
    rw [searchExt] at h
    cases hp : pickOpen gs A with
    | none =>
      rw [hp] at h; cases h
      exact ⟨PSub.refl _, hA, fun g hg => (closedL_iff g _).mp (pickOpen_none gs hp g hg)⟩
    | some g =>
      rw [hp] at h
      simp only at h
      obtain ⟨hg, _⟩ := pickOpen_some gs g hp
      cases ho : openLits g A with
      | nil => rw [ho] at h; cases h
      | cons x rest =>
        obtain ⟨v, c⟩ := x
        rw [ho] at h
        simp only at h
        have hmem : (v, c) ∈ openLits g A := by rw [ho]; exact List.mem_cons_self ..
        obtain ⟨hgv, hAv⟩ := mem_openLits.mp hmem
        have hv : v < A.length := by rw [hA]; exact Nat.lt_of_lt_of_le (pget_lt hgv) (hgs g hg)
        have key : ∀ b, searchExt gs fuel (setAt A v b) = some R →
            PSub A R ∧ R.length = n ∧ ∀ g ∈ gs, Closed g R := by
          intro b hb
          have ⟨h1, h2, h3⟩ := ih (setAt A v b) R (by rw [setAt_length A v b hv, hA]) hb
          exact ⟨(psub_setAt b hAv).trans h1, h2, h3⟩
        cases h1 : searchExt gs fuel (setAt A v (!c)) with
        | some R' => rw [h1] at h; cases h; exact key _ h1
        | none => rw [h1] at h; exact key _ h

/-- the search fails only if every total assignment that extends the interpretation matches a
nogood; the fuel is not the reason as long as it exceeds the number of undecided positions -/
theorem searchExt_complete {n : Nat} {gs : List PA} (hgs : ∀ g ∈ gs, g.length ≤ n) :
    ∀ (fuel : Nat) (A : PA), A.length = n → n - size A < fuel → searchExt gs fuel A = none →
      ∀ σ, Matches A σ → ExcludedBy gs σ := by
  intro fuel
  induction fuel with
  | zero => intro A _ hf; omega
  | succ fuel ih =>
    intro A hA hf h σ hm
    rw [searchExt] at h
    cases hp : pickOpen gs A with
    | none => rw [hp] at h; cases h
    | some g =>
      rw [hp] at h
      simp only at h
      obtain ⟨hg, hc⟩ := pickOpen_some gs g hp
      cases ho : openLits g A with
      | nil => exact ⟨g, hg, matches_of_psub (psub_of_openLits_nil ho hc) hm⟩
      | cons x rest =>
        obtain ⟨v, c⟩ := x
        rw [ho] at h
        simp only at h
        have hmem : (v, c) ∈ openLits g A := by rw [ho]; exact List.mem_cons_self ..
        obtain ⟨hgv, hAv⟩ := mem_openLits.mp hmem
        have hv : v < A.length := by rw [hA]; exact Nat.lt_of_lt_of_le (pget_lt hgv) (hgs g hg)
        have hlen : ∀ b, (setAt A v b).length = n := fun b => by rw [setAt_length A v b hv, hA]
        have hsz : ∀ b, n - size (setAt A v b) < fuel := by
          intro b
          have h1 := size_setAt A v b hv hAv
          have h2 := size_le_length (setAt A v b)
          rw [hlen b] at h2
          omega
        cases h1 : searchExt gs fuel (setAt A v (!c)) with
        | some R' => rw [h1] at h; cases h
        | none =>
          rw [h1] at h
          by_cases e : σ v = c
          · exact ih (setAt A v c) (hlen c) (hsz c) h σ (matches_setAt hm e)
          · have e' : σ v = !c := by cases c <;> simp_all
            exact ih (setAt A v (!c)) (hlen _) (hsz _) h1 σ (matches_setAt hm e')

theorem fillT_length (n : Nat) (R : PA) : (fillT n R).length = n := by simp [fillT]

theorem asg_fillT {n : Nat} (R : PA) {i : Nat} (hi : i < n) : asg (fillT n R) i = (pget R i).getD false := by
  unfold asg fillT
  simp [hi]

theorem matches_fillT {n : Nat} {R : PA} (hR : R.length ≤ n) : Matches R (asg (fillT n R)) := by
  intro i b hi
  rw [asg_fillT R (Nat.lt_of_lt_of_le (pget_lt hi) hR), hi]; rfl

/-! ### the search is sound and complete -/

/-- **soundness** (total assignments as functions): the value list found has length `n`, extends the
interpretation and matches no nogood -/
theorem avoidingExt_sound {n : Nat} {gs : List PA} {A : PA} {t : List Bool} (hgs : ∀ g ∈ gs, g.length ≤ n)
    (hA : A.length = n) (h : avoidingExt n gs A = some t) :
    t.length = n ∧ Matches A (asg t) ∧ AvoidsL gs (asg t) := by
  unfold avoidingExt at h
  cases hs : searchExt gs (n + 1) A with
  | none => rw [hs] at h; cases h
  | some R =>
    rw [hs] at h
    simp only [Option.map] at h
    cases h
    have ⟨h1, h2, h3⟩ := searchExt_sound hgs (n + 1) A R hA hs
    have hm : Matches R (asg (fillT n R)) := matches_fillT (Nat.le_of_eq h2)
    exact ⟨fillT_length n R, matches_of_psub h1 hm, fun g hg => not_matches_of_closed (h3 g hg) hm⟩

/-- **completeness**: without a result every total assignment that extends the interpretation
matches a nogood -/
theorem avoidingExt_complete {n : Nat} {gs : List PA} {A : PA} (hgs : ∀ g ∈ gs, g.length ≤ n)
    (hA : A.length = n) (h : avoidingExt n gs A = none) : ∀ σ, Matches A σ → ExcludedBy gs σ := by
  unfold avoidingExt at h
  cases hs : searchExt gs (n + 1) A with
  | some R => rw [hs] at h; simp [Option.map] at h
  | none => exact searchExt_complete hgs (n + 1) A hA (by omega) hs

theorem avoidingExt_none_iff {n : Nat} {gs : List PA} {A : PA} (hgs : ∀ g ∈ gs, g.length ≤ n) (hA : A.length = n) :
    avoidingExt n gs A = none ↔ ∀ σ, Matches A σ → ¬ AvoidsL gs σ := by
  constructor
  · intro h σ hm ha
    exact avoidsL_iff.mp ha (avoidingExt_complete hgs hA h σ hm)
  · intro h
    cases hs : avoidingExt n gs A with
    | none => rfl
    | some t =>
      have ⟨_, h1, h2⟩ := avoidingExt_sound hgs hA hs
      exact absurd h2 (h _ h1)

/-- soundness and completeness on value lists, in the vocabulary of the executable specification -/
theorem avoidingExt_some {n : Nat} {gs : List PA} {A : PA} {t : List Bool} (hgs : ∀ g ∈ gs, g.length ≤ n)
    (hA : A.length = n) (h : avoidingExt n gs A = some t) :
    t.length = n ∧ matchesT A t = true ∧ ∀ g ∈ gs, matchesT g t = false := by
  have ⟨h1, h2, h3⟩ := avoidingExt_sound hgs hA h
  refine ⟨h1, (matchesT_iff A t).mpr h2, fun g hg => ?_⟩
  cases hm : matchesT g t with
  | false => rfl
  | true => exact absurd ((matchesT_iff g t).mp hm) (h3 g hg)

theorem avoidingExt_none {n : Nat} {gs : List PA} {A : PA} (hgs : ∀ g ∈ gs, g.length ≤ n)
    (hA : A.length = n) (h : avoidingExt n gs A = none) :
    ¬ ∃ t : List Bool, t.length = n ∧ matchesT A t = true ∧ ∀ g ∈ gs, matchesT g t = false := by
  rintro ⟨t, _, h1, h2⟩
  obtain ⟨g, hg, hm⟩ := avoidingExt_complete hgs hA h (asg t) ((matchesT_iff A t).mp h1)
  have := (matchesT_iff g t).mpr hm
  rw [h2 g hg] at this; cases this

/-! ### the W-checks are the brute-force checks -/

theorem avoidingExt_isNone {n : Nat} {gs : List PA} {A : PA} (hgs : ∀ g ∈ gs, g.length ≤ n) (hA : A.length = n) :
    (avoidingExt n gs A).isNone = (exts n gs A).isEmpty := by
  rw [Bool.eq_iff_iff, Option.isNone_iff_eq_none, avoidingExt_none_iff hgs hA,
    exts_empty_iff hgs (Nat.le_of_eq hA)]

theorem forcedByW_iff {n : Nat} {gs : List PA} {A r : PA} (hgs : ∀ g ∈ gs, g.length ≤ n) (hA : A.length = n)
    (hr : r.length ≤ n) :
    forcedByW n gs A r = true ↔ ∀ σ, Matches A σ → AvoidsL gs σ → Matches r σ := by
  unfold forcedByW
  rw [List.all_eq_true]
  constructor
  · intro h σ hm ha i b hi
    have hir := pget_lt hi
    have := h i (List.mem_range.mpr hir)
    simp only [hi] at this
    cases hAi : pget A i with
    | some w =>
      rw [hAi] at this
      simp only [Bool.or_eq_true, beq_iff_eq, Option.isNone_iff_eq_none] at this
      rcases this with rfl | hn
      · exact hm i _ hAi
      · exact absurd ha ((avoidingExt_none_iff hgs hA).mp hn σ hm)
    | none =>
      rw [hAi] at this
      simp only [Option.isNone_iff_eq_none] at this
      have hiA : i < A.length := by rw [hA]; exact Nat.lt_of_lt_of_le hir hr
      have hlen : (setAt A i (!b)).length = n := by rw [setAt_length A i _ hiA, hA]
      cases hσ : σ i with
      | false =>
        cases b with
        | false => rfl
        | true => exact absurd ha ((avoidingExt_none_iff hgs hlen).mp this σ (matches_setAt hm (by simpa using hσ)))
      | true =>
        cases b with
        | true => rfl
        | false => exact absurd ha ((avoidingExt_none_iff hgs hlen).mp this σ (matches_setAt hm (by simpa using hσ)))
  · intro h i hi
    have hir := List.mem_range.mp hi
    cases hri : pget r i with
    | none => rfl
    | some b =>
      simp only
      cases hAi : pget A i with
      | some w =>
        simp only [Bool.or_eq_true, beq_iff_eq, Option.isNone_iff_eq_none]
        by_cases e : w = b
        · exact Or.inl e
        · right
          rw [avoidingExt_none_iff hgs hA]
          intro σ hm ha
          have h1 := h σ hm ha i b hri
          have h2 := hm i w hAi
          exact e (by rw [← h2, h1])
      | none =>
        simp only [Option.isNone_iff_eq_none]
        have hiA : i < A.length := by rw [hA]; exact Nat.lt_of_lt_of_le hir hr
        have hlen : (setAt A i (!b)).length = n := by rw [setAt_length A i _ hiA, hA]
        rw [avoidingExt_none_iff hgs hlen]
        intro σ hm ha
        have h1 := h σ (matches_of_setAt hAi hm) ha i b hri
        have h2 := hm i (!b) (by rw [pget_setAt, if_pos rfl])
        rw [h1] at h2
        cases b <;> simp at h2

theorem forcedByW_eq {n : Nat} {gs : List PA} {A r : PA} (hgs : ∀ g ∈ gs, g.length ≤ n) (hA : A.length = n)
    (hr : r.length ≤ n) : forcedByW n gs A r = forcedBy n gs A r := by
  rw [Bool.eq_iff_iff, forcedByW_iff hgs hA hr, forcedBy_iff hgs (Nat.le_of_eq hA) hr]

/-- **the `conclusions` check for wide stores is the brute-force check** -/
theorem conclViolationsW_eq {n : Nat} {gs : List PA} {A : PA} (hgs : ∀ g ∈ gs, g.length ≤ n) (hA : A.length = n)
    (x : Option PA) (hx : ∀ r, x = some r → r.length ≤ n) :
    conclViolationsW n gs A x = conclViolations n gs A x := by
  cases x with
  | none => simp only [conclViolationsW, conclViolations, avoidingExt_isNone hgs hA]
  | some r => simp only [conclViolationsW, conclViolations, forcedByW_eq hgs hA (hx r rfl)]

/-- **the `conclusion_closure` check for wide stores is the brute-force check** -/
theorem closureViolationsW_eq {n : Nat} {gs : List PA} {A : PA} (hgs : ∀ g ∈ gs, g.length ≤ n) (hA : A.length = n)
    (x : ClosureAns) (hx : ∀ r, x = .update r → r.length ≤ n) :
    closureViolationsW n gs A x = closureViolations n gs A x := by
  cases x with
  | inconsistent => simp only [closureViolationsW, closureViolations, avoidingExt_isNone hgs hA]
  | noUpdate => simp only [closureViolationsW, closureViolations]
  | update r => simp only [closureViolationsW, closureViolations, forcedByW_eq hgs hA (hx r rfl)]

/-- a reported witness is one: a total assignment excluded by the one set and not by the other -/
theorem escaping_some {n : Nat} {these those : List PA} {t : List Bool} (h1 : ∀ g ∈ these, g.length = n)
    (h2 : ∀ g ∈ those, g.length ≤ n) (h : escaping n these those = some t) :
    t.length = n ∧ ExcludedBy these (asg t) ∧ ¬ ExcludedBy those (asg t) := by
  unfold escaping at h
  obtain ⟨g, hg, hf⟩ := List.exists_of_findSome?_eq_some h
  have ⟨a, b, c⟩ := avoidingExt_sound h2 (h1 g hg) hf
  exact ⟨a, ⟨g, hg, b⟩, avoidsL_iff.mp c⟩

theorem escaping_none_iff {n : Nat} {these those : List PA} (h1 : ∀ g ∈ these, g.length = n)
    (h2 : ∀ g ∈ those, g.length ≤ n) :
    escaping n these those = none ↔ ∀ σ, ExcludedBy these σ → ExcludedBy those σ := by
  unfold escaping
  rw [List.findSome?_eq_none_iff]
  constructor
  · rintro h σ ⟨g, hg, hm⟩
    exact avoidingExt_complete h2 (h1 g hg) (h g hg) σ hm
  · intro h g hg
    rw [avoidingExt_none_iff h2 (h1 g hg)]
    intro σ hm ha
    exact avoidsL_iff.mp ha (h σ ⟨g, hg, hm⟩)

/-- **meaning of the store check for wide stores** -/
theorem storeViolationsW_nil {n : Nat} {gs stored : List PA} (hgs : ∀ g ∈ gs, g.length = n)
    (hst : ∀ g ∈ stored, g.length = n) :
    storeViolationsW n gs stored = [] ↔ ∀ σ, ExcludedBy stored σ ↔ ExcludedBy gs σ := by
  have hgs' : ∀ g ∈ gs, g.length ≤ n := fun g hg => Nat.le_of_eq (hgs g hg)
  have hst' : ∀ g ∈ stored, g.length ≤ n := fun g hg => Nat.le_of_eq (hst g hg)
  unfold storeViolationsW
  constructor
  · intro h σ
    cases e1 : escaping n gs stored with
    | some t => rw [e1] at h; cases h
    | none =>
      rw [e1] at h
      cases e2 : escaping n stored gs with
      | some t => rw [e2] at h; cases h
      | none =>
        exact ⟨(escaping_none_iff hst hgs').mp e2 σ, (escaping_none_iff hgs hst').mp e1 σ⟩
  · intro h
    rw [(escaping_none_iff hgs hst').mpr (fun σ => (h σ).mpr), (escaping_none_iff hst hgs').mpr (fun σ => (h σ).mp)]

/-- **the store check for wide stores accepts exactly what the brute-force check accepts** (the
witness it reports may be another one) -/
theorem storeViolationsW_iff {n : Nat} {gs stored : List PA} (hgs : ∀ g ∈ gs, g.length = n)
    (hst : ∀ g ∈ stored, g.length = n) :
    storeViolationsW n gs stored = [] ↔ storeViolations n gs stored = [] := by
  rw [storeViolationsW_nil hgs hst,
    storeViolations_nil (fun g hg => Nat.le_of_eq (hgs g hg)) (fun g hg => Nat.le_of_eq (hst g hg))]

end NgSpec
