import AdfObdd.AdfModel
import AdfObdd.Spec.TT
/-! # The second back-end: `adfbiodivine.rs` (`Adf` on top of the external crate `biodivine_lib_bdd`)

Only the back-end's OWN logic is modelled: `from_parser`, `stm_rewriting`, `var_list`,
`var_list_from_term`, `ac.restrict(..)` (= the LIBRARY's inherent `Bdd::restrict`; the file's own
`impl BddRestrict` = `select` then `exists` is dead code, kept as `restrictSE`), `grounded_internal`,
`complete`, `stable`, `stable_representation`, `stable_model_candidates`,
`stable_bdd_representation`, `cmp_information`, and the native
`Adf::stable_bdd_representation(&biodivine)` of `adf.rs`.

The external library is an INTERFACE (`Bio.Lib`: the operations the file calls) with LAWS
(`Bio.Lawful`: the library represents Boolean functions over the declared variables faithfully).
Two instances: the ideal one (`fnLib`, terms are Boolean functions, noncomputable) and a
computable one on truth tables (`ttLib`, `Spec/TT.lean`; its laws are proved in BioProofs.lean,
because the table lemmas live in a file that imports a Mathlib tactic). This file is Mathlib-free,
the model driver can import it (`Bio.runTT`).

Statement `i` is library variable `i` (`vars[i]` is created from `namelist[i]`), vectors of
`Term`s are lists of numbers (`0` = ⊥, `1` = ⊤, `2` = `Term::UND`), exactly as for the two
interpretation iterators (`twoValAll` / `threeValAll`, C20). -/
namespace Bio

/-! ## the library's expressions and the semantic operations the laws speak about -/

/-- `BooleanExpression` with the variable names already resolved to variable indices
(`Formula::to_boolean_expr` is a constructor-for-constructor translation) -/
inductive BExpr where
  | const (b : Bool)
  | var (i : Nat)
  | not (a : BExpr)
  | and (a b : BExpr)
  | or (a b : BExpr)
  | xor (a b : BExpr)
  | imp (a b : BExpr)
  | iff (a b : BExpr)
deriving Repr, DecidableEq

def BExpr.sem : BExpr → BoolFn
  | .const b => fun _ => b
  | .var i => fun σ => σ i
  | .not a => fun σ => !a.sem σ
  | .and a b => fun σ => a.sem σ && b.sem σ
  | .or a b => fun σ => a.sem σ || b.sem σ
  | .xor a b => fun σ => a.sem σ != b.sem σ
  | .imp a b => fun σ => !a.sem σ || b.sem σ
  | .iff a b => fun σ => a.sem σ == b.sem σ

/-- every variable of the expression is declared (otherwise `eval_expression` panics) -/
def BExpr.closed (nv : Nat) : BExpr → Bool
  | .const _ => true
  | .var i => decide (i < nv)
  | .not a => a.closed nv
  | .and a b => a.closed nv && b.closed nv
  | .or a b => a.closed nv && b.closed nv
  | .xor a b => a.closed nv && b.closed nv
  | .imp a b => a.closed nv && b.closed nv
  | .iff a b => a.closed nv && b.closed nv

/-- `Bdd::select`: conjunction with the given literals -/
def sel (f : BoolFn) (l : List (Nat × Bool)) : BoolFn := fun σ => f σ && l.all (fun p => σ p.1 == p.2)
/-- existential quantification of one variable -/
def ex1 (f : BoolFn) (v : Nat) : BoolFn := fun σ => f (upd σ v false) || f (upd σ v true)
/-- `Bdd::exists`: projection = existential quantification of every listed variable -/
def exL (f : BoolFn) (vs : List Nat) : BoolFn := vs.foldl ex1 f
/-- successive updates, the first pair of the list applied last (for pairwise different variables
the order does not matter): `σ[variables := values]` -/
def updL (σ : Asg) : List (Nat × Bool) → Asg
  | [] => σ
  | p :: l => upd (updL σ l) p.1 p.2
/-- the assignment given by a valuation of the declared variables -/
def asgOf (val : List Bool) : Asg := fun i => val.getD i false

/-! ## the interface to the external library -/

/-- the operations of `biodivine_lib_bdd` that `adfbiodivine.rs` calls -/
structure Lib (T : Type) where
  /-- `BddVariableSet::eval_expression` -/
  evalExpr : BExpr → T
  /-- `BddVariableSet::mk_false` -/
  mkFalse : T
  isTrue : T → Bool
  isFalse : T → Bool
  /-- `Bdd::select(&[(var, value)])` -/
  select : T → List (Nat × Bool) → T
  /-- `Bdd::exists(&[var])` -/
  exist : T → List Nat → T
  /-- the INHERENT `Bdd::restrict(&[(var, value)])` of biodivine_lib_bdd 0.5.23
  (`_impl_relation_ops.rs`, routine `restriction`): what `ac.restrict(&list)` in `adfbiodivine.rs`
  resolves to (method resolution prefers the inherent method to the file's own `impl BddRestrict`) -/
  restrict : T → List (Nat × Bool) → T
  and : T → T → T
  iff : T → T → T
  /-- `Bdd::sat_valuations().collect()`, a valuation = the values of the declared variables in order -/
  satVals : T → List (List Bool)

/-- THE ASSUMPTION about the external library, for `nv` declared variables: every diagram it hands
out denotes a Boolean function (`den`) and the operations compute what their names say;
`is_true` / `is_false` are exact; `sat_valuations` yields every satisfying total valuation of the
declared variables exactly once (in some order). `Valid` = "a diagram of this variable set". -/
structure Lawful {T : Type} (L : Lib T) (nv : Nat) where
  Valid : T → Prop
  den : T → BoolFn
  evalExpr_spec : ∀ e : BExpr, e.closed nv = true → Valid (L.evalExpr e) ∧ den (L.evalExpr e) = e.sem
  mkFalse_spec : Valid L.mkFalse ∧ den L.mkFalse = fun _ => false
  isTrue_spec : ∀ t, Valid t → (L.isTrue t = true ↔ ∀ σ, den t σ = true)
  isFalse_spec : ∀ t, Valid t → (L.isFalse t = true ↔ ∀ σ, den t σ = false)
  select_spec : ∀ t l, Valid t → (∀ p ∈ l, p.1 < nv) →
    Valid (L.select t l) ∧ den (L.select t l) = sel (den t) l
  exist_spec : ∀ t vs, Valid t → (∀ v ∈ vs, v < nv) →
    Valid (L.exist t vs) ∧ den (L.exist t vs) = exL (den t) vs
  /-- the library's documented contract of `restrict` ("a valuation v satisfies the result iff
  v[variables := values] satisfies the original"): the COFACTOR by the listed literals; assumed for
  lists of pairwise different declared variables only (all the back-end ever passes). `Valid` of the
  result is what keeps `is_true` / `is_false` exact on it (`isTrue_spec`: in the crate these are
  node-count tests, exact because the result is a reduced diagram). -/
  restrict_spec : ∀ t l, Valid t → (∀ p ∈ l, p.1 < nv) → (l.map (·.1)).Nodup →
    Valid (L.restrict t l) ∧ den (L.restrict t l) = fun σ => den t (updL σ l)
  and_spec : ∀ a b, Valid a → Valid b → Valid (L.and a b) ∧ den (L.and a b) = fun σ => den a σ && den b σ
  iff_spec : ∀ a b, Valid a → Valid b → Valid (L.iff a b) ∧ den (L.iff a b) = fun σ => den a σ == den b σ
  sat_spec : ∀ t, Valid t → (L.satVals t).Nodup ∧
    ∀ val : List Bool, val ∈ L.satVals t ↔ (val.length = nv ∧ den t (asgOf val) = true)

/-! ## the back-end's own code -/
section code
variable {T : Type} (L : Lib T)

/-- `AdfOperations::is_truth_value` for `Bdd` -/
def Lib.isTV (t : T) : Bool := L.isFalse t || L.isTrue t

/-- information value of a diagram (used in statements only) -/
def Lib.isConst (t : T) : Option Bool :=
  if L.isTrue t then some true else if L.isFalse t then some false else none

/-- `impl From<&Bdd> for Term` -/
def toTerm (t : T) : Nat := if L.isTrue t then 1 else if L.isFalse t then 0 else 2

/-- `Term::cmp_information(&self, other: &Bdd)` -/
def cmpInfo (x : Nat) (t : T) : Bool := (isTV x == L.isTV t) && ((x == 1) == L.isTrue t)

/-- `ac.restrict(&var_list)`. CAUTION (found by a coverage run of the harness, not by reading):
the back-end's own `impl BddRestrict for Bdd { fn restrict … select(..).exists(..) }` is DEAD code -
biodivine_lib_bdd 0.5.23 has an inherent `Bdd::restrict` (and `var_restrict`), which method
resolution prefers, so the call runs the library's own `restriction` routine = the operation
`Lib.restrict` of the interface. The assumption about the external library therefore INCLUDES the
law `Lawful.restrict_spec` ("restrict = cofactor"); it is NOT derived from the laws of `select` and
`exists`. -/
def restrict (t : T) (vl : List (Nat × Bool)) : T := L.restrict t vl

/-- the shadowed `impl BddRestrict for Bdd` of `adfbiodivine.rs` (`select`, then `exists` of the
selected variables): never executed; `Bio.restrictSE_den` (BioProofs.lean) derives from the laws of
`select` / `exists` that it denotes the same cofactor as the operation that runs -/
def restrictSE (t : T) (vl : List (Nat × Bool)) : T := L.exist (L.select t vl) (vl.map (·.1))

/-- `var_list(&[Bdd])` -/
def varList (cur : List T) : List (Nat × Bool) :=
  (cur.zipIdx.filter (fun p => L.isTV p.1)).map (fun p => (p.2, L.isTrue p.1))

/-- `var_list_from_term(&[Term])` -/
def varListTerm (c : List Nat) : List (Nat × Bool) :=
  (c.zipIdx.filter (fun p => isTV p.1)).map (fun p => (p.2, p.1 == 1))

/-- `reduction_list` of `stable` / `stable_bdd_representation`: the FALSE statements -/
def falseList (c : List Nat) : List (Nat × Bool) :=
  (c.zipIdx.filter (fun p => isTV p.1 && !(p.1 == 1))).map (fun p => (p.2, false))

/-- the `for` loop of one round of `grounded_internal`: every entry that is not a truth value is
restricted by the variable list computed BEFORE the loop; the flag is `truth_extention` -/
def roundGo (vl : List (Nat × Bool)) : List T → List T × Bool
  | [] => ([], false)
  | x :: xs =>
    let r := roundGo vl xs
    if L.isTV x then (x :: r.1, r.2)
    else let y := restrict L x vl; (y :: r.1, L.isTV y || r.2)

def bioRound (cur : List T) : List T × Bool := roundGo L (varList L cur) cur

/-- `loop { … if !truth_extention { break; } }` with a bound on the number of rounds -/
def groundedLoopB : Nat → List T → List T
  | 0, v => v
  | f+1, v => let r := bioRound L v; if r.2 then groundedLoopB f r.1 else r.1

/-- `grounded_internal`; `length + 1` rounds always reach the `break` (`groundedLoopB_fuel`) -/
def groundedInternal (v : List T) : List T := groundedLoopB L (v.length + 1) v

/-- `Adf::grounded` -/
def bioGrounded (ac : List T) : List Nat := (groundedInternal L ac).map (toTerm L)

/-- the filter of `Adf::complete` -/
def completeTest (ac : List T) (c : List Nat) : Bool :=
  ac.zipIdx.all (fun p => cmpInfo L (c.getD p.2 2) (restrict L p.1 (varListTerm c)))

/-- `Adf::complete` (collected) -/
def bioComplete (ac : List T) : List (List Nat) :=
  (threeValAll (bioGrounded L ac)).filter (completeTest L ac)

/-- the filter of `Adf::stable` and of `Adf::stable_bdd_representation` -/
def stableTest (ac : List T) (c : List Nat) : Bool :=
  let reduct := ac.map (fun a => restrict L a (falseList c))
  let grounded := groundedInternal L reduct
  (c.zip grounded).all (fun p => cmpInfo L p.1 p.2)

/-- `Adf::stable` (collected) -/
def bioStable (ac : List T) : List (List Nat) :=
  (twoValAll (bioGrounded L ac)).filter (stableTest L ac)

/-- `stable_representation`: `⋀ᵢ (acᵢ ↔ xᵢ)` folded over the conditions -/
def stableRepresentation (ac : List T) : T :=
  ac.zipIdx.foldl (fun acc p => L.and acc (L.iff p.1 (L.evalExpr (.var p.2)))) (L.evalExpr (.const true))

/-- the valuation as a vector of `Term::TOP` / `Term::BOT` -/
def toTerms (val : List Bool) : List Nat := val.map (fun b => if b then 1 else 0)

/-- `stable_model_candidates`: the prepared rewriting if there is one, else `stable_representation` -/
def stableModelCandidates (rewrite : Option T) (ac : List T) : List (List Nat) :=
  let sr := match rewrite with
    | some r => r
    | none => stableRepresentation L ac
  (L.satVals sr).map toTerms

/-- `Adf::stable_bdd_representation` of the biodivine back-end -/
def bioStableRep (rewrite : Option T) (ac : List T) : List (List Nat) :=
  (stableModelCandidates L rewrite ac).filter (stableTest L ac)

/-- `from_parser`: `n` = `dict_size`, `order` = `formula_order()` (the statement of the i-th
condition of the file), `fs` = the conditions in file order. A later condition for the same
statement overwrites an earlier one, a statement without condition keeps `mk_false`. -/
def acOf (n : Nat) (order : List Nat) (fs : List BExpr) : List T :=
  (order.zip fs).foldl (fun ac p => ac.set p.1 (L.evalExpr p.2)) (List.replicate n L.mkFalse)

/-- the expression built by `stm_rewriting`: one equivalence per condition OF THE FILE -/
def rewriteExpr (order : List Nat) (fs : List BExpr) : BExpr :=
  (order.zip fs).foldl (fun acc p => .and acc (.iff (.var p.1) p.2)) (.const true)

/-- `stm_rewriting` -/
def stmRewriting (order : List Nat) (fs : List BExpr) : T := L.evalExpr (rewriteExpr order fs)

end code

/-- `Adf::stable_bdd_representation(&mut self, biodivine)` of the NATIVE back-end (`adf.rs`):
the candidates come from the biodivine object, reduct / grounding / comparison run on the own store
(the body of the loop is the one of `stableAll`) -/
def nativeStableRep (s : Store) (n : Nat) (ac : List Nat) (cands : List (List Nat)) :
    Store × List (List Nat) :=
  cands.foldl (fun (acc : Store × List (List Nat)) cand =>
      let red := mapFalse acc.1 cand ac
      let grd := groundedLoop StoreRA (n + 1) red.1 red.2
      let ok := (cand.zip grd.2).all (fun (a, b) => sameInfo a b)
      (grd.1, if ok then acc.2 ++ [cand] else acc.2)) (s, [])

/-! ## instance 1: the ideal library (terms are Boolean functions) -/

/-- all valuations of `n` variables -/
def allVals : Nat → List (List Bool)
  | 0 => [[]]
  | n+1 => (allVals n).flatMap (fun v => [false :: v, true :: v])

open Classical in
noncomputable def fnLib (nv : Nat) : Lib BoolFn where
  evalExpr := BExpr.sem
  mkFalse := fun _ => false
  isTrue := fun f => decide (∀ σ, f σ = true)
  isFalse := fun f => decide (∀ σ, f σ = false)
  select := sel
  exist := exL
  restrict := fun f l σ => f (updL σ l)
  and := fun f g σ => f σ && g σ
  iff := fun f g σ => f σ == g σ
  satVals := fun f => (allVals nv).filter (fun val => f (asgOf val))

theorem mem_allVals : ∀ (n : Nat) (v : List Bool), v ∈ allVals n ↔ v.length = n := by
  intro n
  induction n with
  | zero => intro v; simp [allVals]
  | succ n ih =>
    intro v
    simp only [allVals, List.mem_flatMap, List.mem_cons, List.not_mem_nil, or_false]
    constructor
    · rintro ⟨u, hu, h | h⟩ <;> subst h <;> simp [(ih u).mp hu]
    · intro h
      cases v with
      | nil => simp at h
      | cons b v =>
        refine ⟨v, (ih v).mpr (by simpa using h), ?_⟩
        cases b <;> simp

theorem nodup_allVals : ∀ n, (allVals n).Nodup := by
  intro n
  induction n with
  | zero => simp [allVals]
  | succ n ih =>
    unfold allVals List.Nodup
    rw [List.pairwise_flatMap]
    refine ⟨fun v _ => by simp, ?_⟩
    apply List.Pairwise.imp _ ih
    intro a b hab x hx y hy hxy
    apply hab
    simp only [List.mem_cons, List.not_mem_nil, or_false] at hx hy
    subst hxy
    rcases hx with h | h <;> rcases hy with h' | h' <;>
      first
      | exact (List.cons.inj (h.symm.trans h')).2
      | (have := (List.cons.inj (h.symm.trans h')).1; cases this)

open Classical in
/-- the ideal library is lawful (for every number of declared variables) -/
noncomputable def fnLawful (nv : Nat) : Lawful (fnLib nv) nv where
  Valid := fun _ => True
  den := fun f => f
  evalExpr_spec := fun _ _ => ⟨trivial, rfl⟩
  mkFalse_spec := ⟨trivial, rfl⟩
  isTrue_spec := fun f _ => by simp [fnLib]
  isFalse_spec := fun f _ => by simp [fnLib]
  select_spec := fun _ _ _ _ => ⟨trivial, rfl⟩
  exist_spec := fun _ _ _ _ => ⟨trivial, rfl⟩
  restrict_spec := fun _ _ _ _ _ => ⟨trivial, rfl⟩
  and_spec := fun _ _ _ _ => ⟨trivial, rfl⟩
  iff_spec := fun _ _ _ _ => ⟨trivial, rfl⟩
  sat_spec := fun f _ => by
    refine ⟨List.Nodup.sublist List.filter_sublist (nodup_allVals nv), ?_⟩
    intro val
    simp [fnLib, List.mem_filter, mem_allVals]

/-! ## instance 2: truth tables over `nv` variables (computable; lawful: `ttLawful`, BioProofs.lean) -/

def ttEval (nv : Nat) : BExpr → Nat
  | .const b => TT.const nv b
  | .var i => TT.var nv i
  | .not a => TT.not nv (ttEval nv a)
  | .and a b => TT.and (ttEval nv a) (ttEval nv b)
  | .or a b => TT.or (ttEval nv a) (ttEval nv b)
  | .xor a b => TT.xor (ttEval nv a) (ttEval nv b)
  | .imp a b => TT.imp nv (ttEval nv a) (ttEval nv b)
  | .iff a b => TT.iff nv (ttEval nv a) (ttEval nv b)

/-- the values of the variables `0 … nv-1` under the valuation coded by `a` -/
def bitsList (nv a : Nat) : List Bool := (List.range nv).map (fun x => a.testBit x)

def ttLib (nv : Nat) : Lib Nat where
  evalExpr := ttEval nv
  mkFalse := 0
  isTrue := fun t => t == TT.mask nv
  isFalse := fun t => t == 0
  select := fun t l => l.foldl (fun acc p =>
    TT.and acc (if p.2 then TT.var nv p.1 else TT.not nv (TT.var nv p.1))) t
  exist := fun t vs => vs.foldl (fun acc v =>
    TT.or (TT.restrict nv acc v false) (TT.restrict nv acc v true)) t
  restrict := fun t l => l.foldl (fun acc p => TT.restrict nv acc p.1 p.2) t
  and := TT.and
  iff := TT.iff nv
  satVals := fun t => ((List.range (2 ^ nv)).filter (fun a => t.testBit a)).map (bitsList nv)

/-! ## what the model driver runs -/

def toI3 (v : List Nat) : List (Option Bool) := v.map storeIsConst

/-- the biodivine back-end's algorithms executed on the truth-table library: `n` statements,
`tts` their conditions as tables over `n` variables. `what` ∈ `grounded` (one vector), `complete`,
`stable`, `stablerew` (`stable_bdd_representation` without prepared rewriting; the candidates come
in ascending valuation order, the real library has its own order — compare as a set). -/
def runTT (what : String) (n : Nat) (tts : List Nat) : Option (List (List (Option Bool))) :=
  if tts.length != n then none
  else if what == "grounded" then some [toI3 (bioGrounded (ttLib n) tts)]
  else if what == "complete" then some ((bioComplete (ttLib n) tts).map toI3)
  else if what == "stable" then some ((bioStable (ttLib n) tts).map toI3)
  else if what == "stablerew" then some ((bioStableRep (ttLib n) none tts).map toI3)
  else none

end Bio
