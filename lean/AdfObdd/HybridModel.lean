import AdfObdd.BioModel
import AdfObdd.Bridge
/-! # The hybrid back-end: `adfbiodivine::Adf::hybrid_step_opt` + `adf::Adf::from_biodivine_vector`

`hybrid_step_opt(bio_grounded)` hands either the conditions themselves (`bio_grounded = false`,
also `Adf::from_biodivine`) or the RESIDUAL vector returned by biodivine's `grounded_internal`
(`bio_grounded = true`, = `hybrid_step`) to `from_biodivine_vector`, which starts from `Bdd::new()`
and converts the diagrams ONE AFTER THE OTHER, IN STATEMENT ORDER, INTO ONE native store:

* `is_true()` → `Term(1)`, `is_false()` → `Term(0)` (the dump is not looked at);
* otherwise the textual dump `|var,lo,hi|var,lo,hi|…` (`Bdd::to_string`) is walked with a fresh
  `term_vec`: entry 0 pushes `Term(0)`, entry 1 pushes `Term(1)` - THE CONTENT OF THE FIRST TWO
  ENTRIES IS NEVER READ -, every later entry pushes `self.bdd.node(var, term_vec[lo], term_vec[hi])`;
  the statement's condition is the LAST element pushed (biodivine keeps the root last); with no
  entry at all the initial `Term(0)` stays.

The dump is a function `dump : T → List Node` (the parsed string; `Bridge.lean`: `Node`, `replayL`).
What is ASSUMED about it is a hypothesis of the theorems (`Bio.DumpSpec`), never an axiom. It is NOT
checked on real dumps: the harness never sees biodivine's own dump text (`adfbiodivine::Adf::ac` is
`pub(crate)`); what the harness checks after every hybrid construction is the BRIDGED NATIVE TABLE -
`wfCheck` on the node table that `from_biodivine_vector` produced and `isoCheck` of its handles against
the natively compiled conditions. That validates the outcome of the bridge on the explored inputs,
not the shape of the dump. `Bio.DumpSpec` is satisfiable by dumps of the shape biodivine writes
(reduced, shared, with skipped levels): `Bio.storeDump_spec` (StoreLib.lean). `term_vec[lo]` panics when `lo` is out of range; the
model reads `getD lo 0` there, which is never reached under `DumpOK` (`lo, hi < index`). -/
namespace Bio

/-- `term_vec` after the whole dump has been walked (entries 0 and 1 are only counted) -/
def termVec : List Node → Store → Store × List Nat
  | [], s => (s, [])
  | [_], s => (s, [0])
  | _ :: _ :: rest, s => replayL rest s [0, 1]

section code
variable {T : Type} (L : Lib T) (dump : T → List Node)

/-- one iteration of the `for_each` of `from_biodivine_vector` -/
def bridgeOne (s : Store) (t : T) : Store × Nat :=
  if L.isTrue t then (s, 1)
  else if L.isFalse t then (s, 0)
  else
    let r := termVec (dump t) s
    (r.1, r.2.getLast?.getD 0)

/-- the `for_each` over `ac.iter_mut().zip(bio_ac.iter())`: statement order, one store -/
def bridgeAll : List T → Store → Store × List Nat
  | [], s => (s, [])
  | t :: ts, s =>
    let r := bridgeOne L dump s t
    let r' := bridgeAll ts r.1
    (r'.1, r.2 :: r'.2)

/-- `Adf::from_biodivine_vector` (the store starts as `Bdd::new()`; no variable node is created
in advance, unlike `from_parser`) -/
def fromBiodivineVector (bioAc : List T) : Store × List Nat := bridgeAll L dump bioAc Store.init

/-- `hybrid_step_opt(bio_grounded)`; `hybrid_step()` = `hybridStep true`, `Adf::from_biodivine` =
`hybridStep false` -/
def hybridStep (opt : Bool) (ac : List T) : Store × List Nat :=
  fromBiodivineVector L dump (if opt then groundedInternal L ac else ac)

end code

/-- THE ASSUMPTION about the external crate's dump (`Bdd::to_string`), for a lawful library: the
dump of every diagram of the variable set that is neither `is_true` nor `is_false` has at least the
two terminal entries, is ordered (`DumpOK`: children before parents, larger variables below, variable
numbers below `Var::BOT`), and its LAST entry denotes the diagram's function when index 0 is read as
⊥ and index 1 as ⊤ (`Den`). Nothing is assumed about the dumps of constant diagrams (they are not
read), nothing about reducedness. -/
structure DumpSpec {T : Type} {L : Lib T} {nv : Nat} (W : Lawful L nv) (dump : T → List Node) : Prop where
  ok : ∀ t, W.Valid t → L.isTrue t = false → L.isFalse t = false →
    DumpOK (dump t) ∧ 2 ≤ (dump t).length ∧ Den (dump t) ((dump t).length - 1) (W.den t)

/-- what biodivine writes into the two entries that the bridge skips (`|nv,0,0|nv,1,1|`); a
checkable predicate for the harness - NO theorem needs it, because the code does not read them -/
def dumpTerminals (nv : Nat) (d : List Node) : Bool :=
  d[0]? == some ⟨nv, 0, 0⟩ && d[1]? == some ⟨nv, 1, 1⟩

end Bio
