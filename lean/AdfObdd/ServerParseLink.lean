import AdfObdd.ServerHybrid
import AdfObdd.Parser6
/-! # C08 / C16 — a text the parser rejects gets no answer from the web service

The link between the parser model of C08 (`ParserM.parse : List Char → Option PState`, about which the
rejection theorems `C08.reject_*` speak) and the service model: `ServerAdf.conditions` runs the SAME
`ParserM.parseFile`, so `ParserM.parse code.toList = none` makes the parse function of the service
answer `Error("ADF could not be parsed, double check your input!")` for BOTH parsing strategies
(`parse_rejected`); the parse task stores that error (`C16.parse_error_reported`), a solve request is
refused with it (`C16.error_blocks_solve`), and in every reachable state of every history no document
under an untainted key whose code is rejected carries a framework or a result
(`rejected_code_never_answered`). -/
namespace SrvC
open ServerM ServerAdf
section
variable {T : Type}

/-- the service reads the text with the parser of C08 -/
theorem conditions_of_parse_none (code : String) (h : ParserM.parse code.toList = none) :
    conditions code = .error .parseError := by
  unfold conditions parseText
  rw [ParserM.parse_eq] at h
  unfold ParserM.parseFacts at h
  have hl : code.toList.length = code.length := String.length_toList
  rw [hl] at h
  cases hp : ParserM.parseFile (code.length + 1) code.toList with
  | none => rfl
  | some fs => rw [hp] at h; cases h

/-- **rejected text, the parse function of the service, both parsing strategies, all three service
environments** (the driver's `libEnv o`, the modelled hybrid arm `hybEnv`, and `hybEnvF F`) -/
theorem parse_rejected (o : Oracle) (Lf : Nat → Bio.Lib T) (dumpf : Nat → T → List Node) (pg : Parsing) (code : String)
    (h : ParserM.parse code.toList = none) :
    (libEnv o).parse pg code = .error .parseError ∧ (hybEnv Lf dumpf).parse pg code = .error .parseError ∧
    ∀ F, (hybEnvF F Lf dumpf).parse pg code = .error .parseError := by
  have hc := conditions_of_parse_none code h
  have h2 : (hybEnv Lf dumpf).parse pg code = .error .parseError := by
    cases pg with
    | naive => exact parseNaive_of_conditions_error _ code _ hc
    | hybrid => exact parseHybrid_of_conditions_error Lf dumpf _ code _ hc
  exact ⟨libEnv_parse_error_iff o code _ hc pg, h2, fun _ => h2⟩

end

section
variable {T H A R : Type} [DecidableEq T]

/-- **no answer is ever produced for code the library refuses** (any environment, EVERY history): in
every state reached from the empty server, a document under an untainted key (no stale write of D9's
shape since the key was last cleared) whose code the environment's parse function refuses stores no
framework and, under every strategy, no result -/
theorem rejected_code_never_answered (E : Env T H A R) (es : List (Event T)) (p : Problem T A R)
    (hp : p ∈ (runAll E {} es).1.db.problems)
    (hn : taintRun E {} (fun _ _ => false) es p.username p.name = false)
    (e : Err) (hrej : E.parse p.parsing p.code = .error e) :
    (∀ a, p.adf ≠ .some a) ∧ ∀ s res, p.res.get s ≠ .some res := by
  have hdoc := reachable_untainted_belong_to_the_code E es p hp hn
  constructor
  · intro a ha
    obtain ⟨r, hr⟩ := hdoc.1 a ha
    rw [hrej] at hr; cases hr
  · intro s res hs
    obtain ⟨a, r, hr, _⟩ := hdoc.2 s res hs
    rw [hrej] at hr; cases hr

end
end SrvC
