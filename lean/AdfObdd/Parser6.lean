import AdfObdd.Parser5

namespace ParserM
/-! the parser object: `AdfParser`'s four fields and the side effects of `parse_statement` /
    `parse_ac` on them, threaded through `all_consuming(many1(alt(..)))` exactly as in `parser.rs`;
    `formula_order`; and the proof that the final state is the one the written facts describe -/

abbrev Label := List Char

/-- `AdfParser { namelist, dict, formulae, formulaname }`. The `HashMap` is an association list
whose most recent entry for a key wins. -/
structure PState where
  namelist : List Label := []
  dict : List (Label × Nat) := []
  formulae : List Fml := []
  formulaname : List Label := []
deriving DecidableEq

/-- `dict.get(l)` -/
def dictGet : List (Label × Nat) → Label → Option Nat
  | [], _ => none
  | (k, v) :: d, l => if k = l then some v else dictGet d l

/-- the effect of one accepted fact on the parser object:
`if !dict.contains_key(l) { let pos = namelist.len(); namelist.push(l); dict.insert(l, pos) }`
resp. `formulae.push(f); formulaname.push(l)` -/
def PState.apply (st : PState) : Fact → PState
  | .stmt l =>
    if (dictGet st.dict l).isSome then st
    else { st with namelist := st.namelist ++ [l], dict := (l, st.namelist.length) :: st.dict }
  | .ac l f => { st with formulae := st.formulae ++ [f], formulaname := st.formulaname ++ [l] }

theorem apply_stmt (st : PState) (l : Label) : st.apply (.stmt l) =
    if (dictGet st.dict l).isSome then st
    else { st with namelist := st.namelist ++ [l], dict := (l, st.namelist.length) :: st.dict } := rfl

/-- `parse_statement`: the effect happens only after the text of the fact has been accepted -/
def parseStatement (st : PState) : Inp → Option (PState × Inp) := fun cs =>
  (stmtP cs).map fun x => (st.apply x.1, x.2)

/-- `parse_ac` -/
def parseAc (fuel : Nat) (st : PState) : Inp → Option (PState × Inp) := fun cs =>
  (acP fuel cs).map fun x => (st.apply x.1, x.2)

/-- `many1(alt((parse_statement, parse_ac)))` on the parser object; the Boolean says whether at
least one fact was read -/
def manySt (fuel : Nat) : Nat → PState → Inp → PState × Bool × Inp
  | 0, st, cs => (st, false, cs)
  | k+1, st, cs =>
    match orElse (parseStatement st) (parseAc fuel st) cs with
    | none => (st, false, cs)
    | some (st', r) => let m := manySt fuel k st' r; (m.1, true, m.2.2)

/-- `AdfParser::default().parse()(text)`: `some` final parser object iff the result is `Ok` -/
def parseFuel (fuel : Nat) (cs : Inp) : Option PState :=
  match manySt fuel fuel {} cs with
  | (st, true, []) => some st
  | _ => none

def parse (cs : Inp) : Option PState := parseFuel (cs.length + 1) cs

/-- `formula_order`: `none` models the panic of `expect("Dictionary should contain all the used
formulanames")` when a condition is given for a label that was never declared -/
def PState.formulaOrder (st : PState) : Option (List Nat) := st.formulaname.mapM (dictGet st.dict)

/-- `dict_value` -/
def PState.dictValue (st : PState) (l : Label) : Option Nat := dictGet st.dict l

/-- the parser object a list of facts produces -/
def PState.ofFacts (fs : List Fact) : PState := fs.foldl PState.apply {}

/-! ### the threaded parser is the pure parser followed by the effects -/

theorem alt_eq (fuel : Nat) (st : PState) (cs : Inp) :
    orElse (parseStatement st) (parseAc fuel st) cs = (factP fuel cs).map fun x => (st.apply x.1, x.2) := by
  unfold orElse parseStatement parseAc factP orElse
  cases stmtP cs with
  | none => simp
  | some x => simp

theorem manySt_eq (fuel : Nat) : ∀ (k : Nat) (st : PState) (cs : Inp),
    manySt fuel k st cs =
      ((many (factP fuel) k cs).1.foldl PState.apply st, !(many (factP fuel) k cs).1.isEmpty,
       (many (factP fuel) k cs).2) := by
  intro k
  induction k with
  | zero => intro st cs; simp [manySt, many]
  | succ k ih =>
    intro st cs
    unfold manySt many
    rw [alt_eq]
    cases factP fuel cs with
    | none => simp
    | some x => simp [ih]

theorem parseFuel_eq (fuel : Nat) (cs : Inp) : parseFuel fuel cs = (parseFile fuel cs).map PState.ofFacts := by
  unfold parseFuel parseFile
  rw [manySt_eq]
  cases h : many (factP fuel) fuel cs with
  | mk fs r =>
    cases fs with
    | nil => simp
    | cons f fs' =>
      cases r with
      | nil => simp [PState.ofFacts]
      | cons _ _ => simp

/-- the parser object after `parse` is the effect of the facts of the pure parser -/
theorem parse_eq (cs : Inp) : parse cs = (parseFacts cs).map PState.ofFacts := parseFuel_eq _ cs

/-! ### what the final parser object contains, in terms of the written facts -/

/-- declared labels in order of first declaration, without repetitions -/
def namesOf : List Fact → List Label
  | [] => []
  | .stmt l :: fs => l :: (namesOf fs).filter (fun x => !decide (x = l))
  | .ac _ _ :: fs => namesOf fs

/-- conditions with the label they are given for, in file order (repetitions kept) -/
def acsOf : List Fact → List (Label × Fml)
  | [] => []
  | .stmt _ :: fs => acsOf fs
  | .ac l f :: fs => (l, f) :: acsOf fs

/-- position of a label in a list -/
def indexOf : List Label → Label → Option Nat
  | [], _ => none
  | x :: xs, l => if x = l then some 0 else (indexOf xs l).map (· + 1)

theorem indexOf_isSome (xs : List Label) (l : Label) : (indexOf xs l).isSome = decide (l ∈ xs) := by
  induction xs with
  | nil => simp [indexOf]
  | cons x xs ih =>
    simp only [indexOf]
    by_cases e : x = l
    · simp [e]
    · have : ¬ l = x := fun h => e h.symm
      simp [e, ih, this]

theorem indexOf_append_mem (xs ys : List Label) (l : Label) (h : l ∈ xs) :
    indexOf (xs ++ ys) l = indexOf xs l := by
  induction xs with
  | nil => simp at h
  | cons x xs ih =>
    simp only [List.cons_append, indexOf]
    by_cases e : x = l
    · simp [e]
    · have : l ∈ xs := by
        rcases List.mem_cons.mp h with h | h
        · exact absurd h.symm e
        · exact h
      simp [e, ih this]

theorem indexOf_append_last (xs : List Label) (l : Label) (h : l ∉ xs) :
    indexOf (xs ++ [l]) l = some xs.length := by
  induction xs with
  | nil => simp [indexOf]
  | cons x xs ih =>
    have hx : ¬ x = l := fun e => h (e ▸ List.mem_cons_self ..)
    have hl : l ∉ xs := fun e => h (List.mem_cons_of_mem _ e)
    simp [indexOf, hx, ih hl]

theorem indexOf_append_other (xs : List Label) (l l' : Label) (h : l' ∉ xs) (hne : l ≠ l') :
    indexOf (xs ++ [l]) l' = none := by
  induction xs with
  | nil => simp [indexOf, hne]
  | cons x xs ih =>
    have hx : ¬ x = l' := fun e => h (e ▸ List.mem_cons_self ..)
    have hl : l' ∉ xs := fun e => h (List.mem_cons_of_mem _ e)
    simp [indexOf, hx, ih hl]

/-- the invariant of `namelist`/`dict`: the dictionary is the inverse of the name list -/
def DictOK (st : PState) : Prop := ∀ l, dictGet st.dict l = indexOf st.namelist l

theorem apply_dictOK (st : PState) (x : Fact) (h : DictOK st) : DictOK (st.apply x) := by
  cases x with
  | ac l f => exact h
  | stmt l =>
    rw [apply_stmt]
    by_cases hs : (dictGet st.dict l).isSome = true
    · rw [if_pos hs]; exact h
    · rw [if_neg hs]
      have hl : l ∉ st.namelist := by
        rw [h l, indexOf_isSome] at hs
        simpa using hs
      intro l'
      simp only [dictGet]
      by_cases e : l = l'
      · subst e; rw [if_pos rfl, indexOf_append_last _ _ hl]
      · rw [if_neg e, h l']
        by_cases hm : l' ∈ st.namelist
        · rw [indexOf_append_mem _ _ _ hm]
        · rw [indexOf_append_other _ _ _ hm e]
          have := indexOf_isSome st.namelist l'
          cases hi : indexOf st.namelist l' with
          | none => rfl
          | some v => rw [hi] at this; simp [hm] at this

theorem foldl_dictOK (fs : List Fact) : ∀ (st : PState), DictOK st → DictOK (fs.foldl PState.apply st) := by
  induction fs with
  | nil => intro st h; exact h
  | cons x fs ih => intro st h; exact ih _ (apply_dictOK st x h)

theorem foldl_names (fs : List Fact) : ∀ (st : PState), DictOK st →
    (fs.foldl PState.apply st).namelist = st.namelist ++ (namesOf fs).filter (fun x => !decide (x ∈ st.namelist)) := by
  induction fs with
  | nil => intro st _; simp [namesOf]
  | cons x fs ih =>
    intro st h
    rw [List.foldl_cons, ih _ (apply_dictOK st x h)]
    cases x with
    | ac l f => rfl
    | stmt l =>
      rw [apply_stmt]
      by_cases hs : (dictGet st.dict l).isSome = true
      · rw [if_pos hs]
        have hl : l ∈ st.namelist := by
          rw [h l, indexOf_isSome] at hs
          simpa using hs
        simp only [namesOf, List.filter_cons, hl, not_true_eq_false, decide_false, Bool.false_eq_true, if_false,
          List.filter_filter]
        congr 1
        apply List.filter_congr
        intro y _
        by_cases hy : y ∈ st.namelist
        · simp [hy]
        · have : y ≠ l := fun e => hy (e ▸ hl)
          simp [hy, this]
      · rw [if_neg hs]
        have hl : l ∉ st.namelist := by
          rw [h l, indexOf_isSome] at hs
          simpa using hs
        simp only [namesOf, List.filter_cons, hl, not_false_eq_true, decide_true, if_true, List.filter_filter,
          List.append_assoc, List.cons_append, List.nil_append]
        congr 2
        apply List.filter_congr
        intro y _
        by_cases hy : y ∈ st.namelist
        · simp [hy]
        · by_cases e : y = l
          · simp [e]
          · simp [hy, e]

theorem foldl_acs (fs : List Fact) : ∀ (st : PState),
    (fs.foldl PState.apply st).formulaname = st.formulaname ++ (acsOf fs).map (·.1) ∧
    (fs.foldl PState.apply st).formulae = st.formulae ++ (acsOf fs).map (·.2) := by
  induction fs with
  | nil => intro st; simp [acsOf]
  | cons x fs ih =>
    intro st
    rw [List.foldl_cons]
    have := ih (st.apply x)
    cases x with
    | stmt l =>
      have e1 : (st.apply (Fact.stmt l)).formulaname = st.formulaname := by
        rw [apply_stmt]; split <;> rfl
      have e2 : (st.apply (Fact.stmt l)).formulae = st.formulae := by
        rw [apply_stmt]; split <;> rfl
      rw [e1, e2] at this
      simpa [acsOf] using this
    | ac l f => simpa [PState.apply, acsOf] using this

/-- the parser object after reading the facts `fs`: the name list is the declared labels in order
of first declaration, the dictionary maps each of them to its position (and nothing else), the
conditions and their labels are stored in file order, and `formula_order` looks every condition's
label up among the declared ones -/
theorem ofFacts_spec (fs : List Fact) :
    (PState.ofFacts fs).namelist = namesOf fs ∧
    (∀ l, (PState.ofFacts fs).dictValue l = indexOf (namesOf fs) l) ∧
    (PState.ofFacts fs).formulaname = (acsOf fs).map (·.1) ∧
    (PState.ofFacts fs).formulae = (acsOf fs).map (·.2) ∧
    (PState.ofFacts fs).formulaOrder = ((acsOf fs).map (·.1)).mapM (indexOf (namesOf fs)) := by
  have h0 : DictOK {} := fun l => by simp [dictGet, indexOf]
  have hn : (PState.ofFacts fs).namelist = namesOf fs := by
    have := foldl_names fs {} h0
    have e : ∀ (xs : List Label), xs.filter (fun _ => true) = xs := fun xs =>
      List.filter_eq_self.mpr (fun _ _ => rfl)
    simpa [PState.ofFacts, e] using this
  have hd : ∀ l, (PState.ofFacts fs).dictValue l = indexOf (namesOf fs) l := by
    intro l
    have := foldl_dictOK fs {} h0 l
    rw [← hn]; exact this
  have ha := foldl_acs fs {}
  refine ⟨hn, hd, by simpa [PState.ofFacts] using ha.1, by simpa [PState.ofFacts] using ha.2, ?_⟩
  unfold PState.formulaOrder
  have e : (PState.ofFacts fs).formulaname = (acsOf fs).map (·.1) := by simpa [PState.ofFacts] using ha.1
  rw [e]
  congr 1
  funext l
  exact hd l

theorem namesOf_mem (fs : List Fact) (l : Label) : l ∈ namesOf fs ↔ Fact.stmt l ∈ fs := by
  induction fs with
  | nil => simp [namesOf]
  | cons x fs ih =>
    cases x with
    | ac l' f => simp [namesOf, ih]
    | stmt l' =>
      simp only [namesOf, List.mem_cons, List.mem_filter, ih, Fact.stmt.injEq]
      by_cases e : l = l'
      · simp [e]
      · simp [e]

theorem namesOf_nodup (fs : List Fact) : (namesOf fs).Nodup := by
  induction fs with
  | nil => simp [namesOf]
  | cons x fs ih =>
    cases x with
    | ac l' f => simpa [namesOf] using ih
    | stmt l' =>
      simp only [namesOf, List.nodup_cons]
      refine ⟨by simp, ih.filter _⟩

/-! ### the Boolean function a condition denotes -/

/-- value of a formula under an assignment of the labels -/
def Fml.eval (σ : Label → Bool) : Fml → Bool
  | .top => true
  | .bot => false
  | .atom l => σ l
  | .not f => !(f.eval σ)
  | .and a b => a.eval σ && b.eval σ
  | .or a b => a.eval σ || b.eval σ
  | .imp a b => !(a.eval σ) || b.eval σ
  | .xor a b => a.eval σ != b.eval σ
  | .iff a b => a.eval σ == b.eval σ

end ParserM
