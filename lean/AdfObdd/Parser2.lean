import AdfObdd.ParserProofs

namespace ParserM
/-! the formula grammar on char lists, structured like `parser.rs` (`atomic` with both label
    spellings, `constant`, the five binary connectives, `neg`, alt order as in the Rust), the
    documented concrete syntax as an inductive relation, and completeness: every text of the
    documented formula syntax (any layout around commas, alphanumeric labels incl. keyword-like
    ones, quoted labels) is parsed back to the formula that was written -/

inductive Fml where
  | top | bot
  | atom (l : List Char)
  | not (f : Fml)
  | and (a b : Fml) | or (a b : Fml) | imp (a b : Fml) | xor (a b : Fml) | iff (a b : Fml)
deriving DecidableEq

def isWs (c : Char) : Bool := c == ' ' || c == '\t' || c == '\r' || c == '\n'
def ws0 : Prs Unit := fun cs => some ((), cs.dropWhile isWs)

def orElse {α : Type} (p q : Prs α) : Prs α := fun cs =>
  match p cs with
  | some r => some r
  | none => q cs

/-- `preceded(tag("c"), delimited(tag("("), tag(x), tag(")")))` -/
def constP (x : Char) (v : Fml) : Prs Fml := fun cs =>
  (tagL ['c'] cs).bind fun a => (tagL ['('] a.2).bind fun b => (tagL [x] b.2).bind fun c =>
  (tagL [')'] c.2).bind fun d => some (v, d.2)

def constantP : Prs Fml := orElse (constP 'v' Fml.top) (constP 'f' Fml.bot)

def commaP : Prs Unit := fun cs =>
  (ws0 cs).bind fun x => (tagL [','] x.2).bind fun y => ws0 y.2

def pairP (rec : Prs Fml) (kw : List Char) (mk : Fml → Fml → Fml) : Prs Fml := fun cs =>
  (tagL kw cs).bind fun x0 => (tagL ['('] x0.2).bind fun x1 => (rec x1.2).bind fun a =>
  (commaP a.2).bind fun x3 => (rec x3.2).bind fun b => (tagL [')'] b.2).bind fun x5 =>
  some (mk a.1 b.1, x5.2)

def negP (rec : Prs Fml) : Prs Fml := fun cs =>
  (tagL ['n','e','g'] cs).bind fun x0 => (tagL ['('] x0.2).bind fun x1 => (rec x1.2).bind fun a =>
  (tagL [')'] a.2).bind fun x3 => some (Fml.not a.1, x3.2)

/-- `take_until("\"")`: everything before the first `"`; an error if there is none. The empty
prefix is a success (`take_until`, not `take_until1`), so `""` is the empty label. -/
def takeUntilQ : Prs (List Char)
  | [] => none
  | c :: cs => if c = '"' then some ([], c :: cs) else (takeUntilQ cs).map fun x => (c :: x.1, x.2)

/-- `delimited(tag("\""), take_until("\""), tag("\""))` -/
def quotedP : Prs (List Char) := fun cs =>
  (tagL ['"'] cs).bind fun a => (takeUntilQ a.2).bind fun l => (tagL ['"'] l.2).bind fun b =>
  some (l.1, b.2)

/-- `atomic`: `alt((delimited(tag("\""), take_until("\""), tag("\"")), alphanumeric1))` -/
def atomic : Prs (List Char) := orElse quotedP alnum1

/-- `atomic_term` -/
def atomP : Prs Fml := fun cs => (atomic cs).map fun x => (Fml.atom x.1, x.2)

def binaryP (rec : Prs Fml) : Prs Fml :=
  orElse (pairP rec ['a','n','d'] Fml.and)
  (orElse (pairP rec ['o','r'] Fml.or)
  (orElse (pairP rec ['i','m','p'] Fml.imp)
  (orElse (pairP rec ['x','o','r'] Fml.xor)
          (pairP rec ['i','f','f'] Fml.iff))))

def formulaF : Nat → Prs Fml
  | 0 => fun _ => none
  | fuel+1 => orElse constantP (orElse (binaryP (formulaF fuel)) (orElse (negP (formulaF fuel)) atomP))

def AllWs (w : List Char) : Prop := ∀ c ∈ w, isWs c = true

/-- the two spellings of a label: a non-empty alphanumeric word, written as it is, or any text
without `"` (possibly empty, possibly with blanks, brackets, commas, dots, non-ASCII characters)
between two `"`. The label is the word resp. the text between the quotes, verbatim. -/
inductive DerL : List Char → List Char → Prop
  | alnum (l : List Char) : l ≠ [] → AllAlnum l → DerL l l
  | quoted (l : List Char) : '"' ∉ l → DerL l (['"'] ++ l ++ ['"'])

/-- the documented concrete syntax of formulas -/
inductive DerF : Fml → List Char → Prop
  | top : DerF Fml.top ['c','(','v',')']
  | bot : DerF Fml.bot ['c','(','f',')']
  | atom (l s : List Char) : DerL l s → DerF (Fml.atom l) s
  | not (f : Fml) (s : List Char) : DerF f s → DerF (Fml.not f) (['n','e','g','('] ++ s ++ [')'])
  | and (a b : Fml) (s1 s2 w1 w2 : List Char) : DerF a s1 → DerF b s2 → AllWs w1 → AllWs w2 →
      DerF (Fml.and a b) (['a','n','d','('] ++ s1 ++ w1 ++ [','] ++ w2 ++ s2 ++ [')'])
  | or (a b : Fml) (s1 s2 w1 w2 : List Char) : DerF a s1 → DerF b s2 → AllWs w1 → AllWs w2 →
      DerF (Fml.or a b) (['o','r','('] ++ s1 ++ w1 ++ [','] ++ w2 ++ s2 ++ [')'])
  | imp (a b : Fml) (s1 s2 w1 w2 : List Char) : DerF a s1 → DerF b s2 → AllWs w1 → AllWs w2 →
      DerF (Fml.imp a b) (['i','m','p','('] ++ s1 ++ w1 ++ [','] ++ w2 ++ s2 ++ [')'])
  | xor (a b : Fml) (s1 s2 w1 w2 : List Char) : DerF a s1 → DerF b s2 → AllWs w1 → AllWs w2 →
      DerF (Fml.xor a b) (['x','o','r','('] ++ s1 ++ w1 ++ [','] ++ w2 ++ s2 ++ [')'])
  | iff (a b : Fml) (s1 s2 w1 w2 : List Char) : DerF a s1 → DerF b s2 → AllWs w1 → AllWs w2 →
      DerF (Fml.iff a b) (['i','f','f','('] ++ s1 ++ w1 ++ [','] ++ w2 ++ s2 ++ [')'])

def Fml.size : Fml → Nat
  | .top => 1 | .bot => 1 | .atom _ => 1
  | .not f => f.size + 1
  | .and a b => a.size + b.size + 1 | .or a b => a.size + b.size + 1 | .imp a b => a.size + b.size + 1
  | .xor a b => a.size + b.size + 1 | .iff a b => a.size + b.size + 1

/-! ### combinator lemmas -/

theorem tagL_append : ∀ (k r : List Char), tagL k (k ++ r) = some ((), r) := by
  intro k
  induction k with
  | nil => intro r; cases r <;> rfl
  | cons c k ih => intro r; simp [tagL, ih]

theorem dropWhile_ws : ∀ (w r : List Char), AllWs w → (∀ c, r.head? = some c → isWs c = false) →
    (w ++ r).dropWhile isWs = r := by
  intro w
  induction w with
  | nil =>
    intro r _ hr
    cases r with
    | nil => rfl
    | cons d r' => simp [List.dropWhile, hr d rfl]
  | cons c w ih =>
    intro r hw hr
    simp only [List.cons_append, List.dropWhile, hw c (List.mem_cons_self ..)]
    exact ih r (fun x hx => hw x (List.mem_cons_of_mem _ hx)) hr

/-- a rendered formula starts with a non-blank character -/
theorem DerF.head_not_ws {f : Fml} {s : List Char} (h : DerF f s) (r : List Char) :
    ∀ c, (s ++ r).head? = some c → isWs c = false := by
  intro c hc
  cases h with
  | atom _ _ hl =>
    cases hl with
    | alnum hne hl =>
      cases s with
      | nil => exact absurd rfl hne
      | cons d l' =>
        simp at hc; subst hc
        have := hl d (List.mem_cons_self ..)
        cases hw : isWs d with
        | false => rfl
        | true =>
          simp [isWs] at hw
          rcases hw with ((rfl | rfl) | rfl) | rfl <;> simp [isAlnum, Char.isAlphanum, Char.isAlpha, Char.isUpper, Char.isLower, Char.isDigit] at this
    | quoted _ => simp at hc; subst hc; decide
  | _ => simp at hc; subst hc; decide

theorem commaP_spec (w1 w2 r : List Char) (h1 : AllWs w1) (h2 : AllWs w2)
    (hr : ∀ c, r.head? = some c → isWs c = false) :
    commaP (w1 ++ [','] ++ w2 ++ r) = some ((), r) := by
  unfold commaP ws0
  have e1 : (w1 ++ [','] ++ w2 ++ r).dropWhile isWs = [','] ++ w2 ++ r := by
    rw [List.append_assoc, List.append_assoc]
    apply dropWhile_ws _ _ h1
    intro c hc; simp at hc; subst hc; decide
  simp only [Option.bind, e1]
  have e2 : tagL [','] ([','] ++ w2 ++ r) = some ((), w2 ++ r) := by
    rw [List.append_assoc]; exact tagL_append _ _
  rw [e2]
  simp only
  rw [dropWhile_ws _ _ h2 hr]

theorem tagL_paren_none (cs : List Char) (h : cs.head? ≠ some '(') : tagL ['('] cs = none := by
  cases cs with
  | nil => rfl
  | cons d cs' =>
    simp only [tagL]
    by_cases e : '(' = d
    · subst e; simp at h
    · rw [if_neg e]

/-- a keyword followed by `(` never matches a label followed by a good rest -/
theorem kwParen_none {α : Type} (kw l r : List Char) (hk : AllAlnum kw) (hl : AllAlnum l) (hr : GoodRest r)
    (g : Unit × Inp → Option α) :
    ((tagL kw (l ++ r)).bind fun x => (tagL ['('] x.2).bind g) = none := by
  cases h : tagL kw (l ++ r) with
  | none => rfl
  | some x =>
    obtain ⟨u, cs'⟩ := x
    have := kw_then_no_paren kw l r cs' hk hl hr (by cases u; exact h)
    simp only [Option.bind]
    rw [tagL_paren_none cs' this]

theorem goodRest_ws_comma (w rest : List Char) (hw : AllWs w) : GoodRest (w ++ [','] ++ rest) := by
  intro c hc
  cases w with
  | nil => simp at hc; subst hc; exact ⟨by decide, by decide⟩
  | cons d w' =>
    simp at hc; subst hc
    have := hw d (List.mem_cons_self ..)
    simp [isWs] at this
    rcases this with ((rfl | rfl) | rfl) | rfl <;> exact ⟨by decide, by decide⟩

theorem goodRest_close (rest : List Char) : GoodRest ([')'] ++ rest) := by
  intro c hc; simp at hc; subst hc; exact ⟨by decide, by decide⟩

/-- a binary connective parser succeeds on its own rendering -/
theorem pairP_ok (rec : Prs Fml) (kw : List Char) (mk : Fml → Fml → Fml) (a b : Fml)
    (s1 s2 w1 w2 r : List Char) (h1 : AllWs w1) (h2 : AllWs w2) (hb : DerF b s2)
    (ra : rec (s1 ++ (w1 ++ [','] ++ w2 ++ (s2 ++ ([')'] ++ r)))) = some (a, w1 ++ [','] ++ w2 ++ (s2 ++ ([')'] ++ r))))
    (rb : rec (s2 ++ ([')'] ++ r)) = some (b, [')'] ++ r)) :
    pairP rec kw mk (kw ++ (['('] ++ (s1 ++ (w1 ++ [','] ++ w2 ++ (s2 ++ ([')'] ++ r)))))) = some (mk a b, r) := by
  unfold pairP
  rw [tagL_append]
  simp only [Option.bind]
  rw [tagL_append]
  simp only [ra]
  rw [commaP_spec w1 w2 _ h1 h2 (hb.head_not_ws _)]
  simp only [rb]
  rw [tagL_append]

theorem pairP_tag_none (rec : Prs Fml) (kw : List Char) (mk : Fml → Fml → Fml) (cs : Inp)
    (h : tagL kw cs = none) : pairP rec kw mk cs = none := by
  unfold pairP; rw [h]; rfl

theorem orElse_none_left {α : Type} (p q : Prs α) (cs : Inp) (h : p cs = none) : orElse p q cs = q cs := by
  unfold orElse; rw [h]
theorem orElse_some_left {α : Type} (p q : Prs α) (cs : Inp) (x : α × Inp) (h : p cs = some x) :
    orElse p q cs = some x := by
  unfold orElse; rw [h]

theorem allAlnum_lit (l : List Char) (h : l.all isAlnum = true) : AllAlnum l := by
  intro c hc; exact List.all_eq_true.mp h c hc

theorem constP_label_none (x : Char) (v : Fml) (l r : List Char) (hl : AllAlnum l) (hr : GoodRest r) :
    constP x v (l ++ r) = none := by
  unfold constP
  exact kwParen_none ['c'] l r (allAlnum_lit _ (by decide)) hl hr _

theorem pairP_label_none (rec : Prs Fml) (kw : List Char) (mk : Fml → Fml → Fml) (l r : List Char)
    (hk : AllAlnum kw) (hl : AllAlnum l) (hr : GoodRest r) : pairP rec kw mk (l ++ r) = none := by
  unfold pairP
  exact kwParen_none kw l r hk hl hr _

theorem negP_label_none (rec : Prs Fml) (l r : List Char) (hl : AllAlnum l) (hr : GoodRest r) :
    negP rec (l ++ r) = none := by
  unfold negP
  exact kwParen_none ['n','e','g'] l r (allAlnum_lit _ (by decide)) hl hr _

theorem takeUntilQ_spec : ∀ (l r : List Char), '"' ∉ l → takeUntilQ (l ++ '"' :: r) = some (l, '"' :: r) := by
  intro l
  induction l with
  | nil => intro r _; simp [takeUntilQ]
  | cons c l ih =>
    intro r h
    have hc : c ≠ '"' := fun e => h (e ▸ List.mem_cons_self ..)
    have hl : '"' ∉ l := fun e => h (List.mem_cons_of_mem _ e)
    simp [takeUntilQ, hc, ih r hl]

/-- a quoted label is read back exactly, whatever follows -/
theorem quotedP_ok (l r : List Char) (h : '"' ∉ l) : quotedP (['"'] ++ l ++ ['"'] ++ r) = some (l, r) := by
  have e : ['"'] ++ l ++ ['"'] ++ r = ['"'] ++ (l ++ '"' :: r) := by simp
  rw [e]
  unfold quotedP
  rw [tagL_append]; simp only [Option.bind]
  rw [takeUntilQ_spec l r h]
  simp [tagL]

theorem alnum_not_quote {c : Char} (h : isAlnum c = true) : c ≠ '"' := by
  intro e; subst e; simp [isAlnum, Char.isAlphanum, Char.isAlpha, Char.isUpper, Char.isLower, Char.isDigit] at h

theorem quotedP_alnum_none (l r : List Char) (hne : l ≠ []) (hl : AllAlnum l) : quotedP (l ++ r) = none := by
  cases l with
  | nil => exact absurd rfl hne
  | cons d l' =>
    have := alnum_not_quote (hl d (List.mem_cons_self ..))
    have hd : ¬ ('"' = d) := fun e => this e.symm
    simp [quotedP, tagL, hd]

/-- a label in either spelling, followed by a good rest, is read back exactly -/
theorem atomic_ok (l s r : List Char) (h : DerL l s) (hr : GoodRest r) : atomic (s ++ r) = some (l, r) := by
  cases h with
  | alnum hne hl =>
    unfold atomic
    rw [orElse_none_left _ _ _ (quotedP_alnum_none l r hne hl)]
    exact alnum1_label l r hne hl hr
  | quoted hq =>
    unfold atomic
    exact orElse_some_left _ _ _ _ (quotedP_ok l r hq)

/-- C08, formula level: every text of the documented formula syntax — any blanks around
commas, alphanumeric labels including keyword-like ones — followed by a good rest is parsed
back to exactly the formula that was written, and the rest is left over. -/
theorem formula_complete : ∀ (f : Fml) (s : List Char), DerF f s → ∀ (fuel : Nat) (r : List Char),
    f.size < fuel → GoodRest r → formulaF fuel (s ++ r) = some (f, r) := by
  intro f s h
  induction h with
  | top =>
    intro fuel r hf _
    cases fuel with
    | zero => omega
    | succ k => simp [formulaF, orElse, constantP, constP, tagL]
  | bot =>
    intro fuel r hf _
    cases fuel with
    | zero => omega
    | succ k => simp [formulaF, orElse, constantP, constP, tagL]
  | atom l s hl =>
    intro fuel r hf hr
    cases fuel with
    | zero => omega
    | succ k =>
      unfold formulaF
      cases hl with
      | alnum hne hl =>
        have c1 : constantP (l ++ r) = none := by
          unfold constantP
          rw [orElse_none_left _ _ _ (constP_label_none _ _ l r hl hr)]
          exact constP_label_none _ _ l r hl hr
        have c2 : binaryP (formulaF k) (l ++ r) = none := by
          unfold binaryP
          rw [orElse_none_left _ _ _ (pairP_label_none _ _ _ l r (allAlnum_lit _ (by decide)) hl hr),
              orElse_none_left _ _ _ (pairP_label_none _ _ _ l r (allAlnum_lit _ (by decide)) hl hr),
              orElse_none_left _ _ _ (pairP_label_none _ _ _ l r (allAlnum_lit _ (by decide)) hl hr),
              orElse_none_left _ _ _ (pairP_label_none _ _ _ l r (allAlnum_lit _ (by decide)) hl hr)]
          exact pairP_label_none _ _ _ l r (allAlnum_lit _ (by decide)) hl hr
        rw [orElse_none_left _ _ _ c1, orElse_none_left _ _ _ c2,
            orElse_none_left _ _ _ (negP_label_none _ l r hl hr)]
        unfold atomP
        rw [atomic_ok l l r (DerL.alnum l hne hl) hr]; rfl
      | quoted hq =>
        have hshape : ['"'] ++ l ++ ['"'] ++ r = '"' :: (l ++ '"' :: r) := by simp
        have c1 : constantP (['"'] ++ l ++ ['"'] ++ r) = none := by
          rw [hshape]; simp [constantP, constP, orElse, tagL]
        have c2 : binaryP (formulaF k) (['"'] ++ l ++ ['"'] ++ r) = none := by
          rw [hshape]; simp [binaryP, pairP, orElse, tagL]
        have c3 : negP (formulaF k) (['"'] ++ l ++ ['"'] ++ r) = none := by
          rw [hshape]; simp [negP, tagL]
        rw [orElse_none_left _ _ _ c1, orElse_none_left _ _ _ c2, orElse_none_left _ _ _ c3]
        unfold atomP
        rw [atomic_ok l _ r (DerL.quoted l hq) hr]; rfl
  | not f s _ ih =>
    intro fuel r hf hr
    cases fuel with
    | zero => omega
    | succ k =>
      have hsz : f.size < k := by simp [Fml.size] at hf; omega
      have hrec := ih k ([')'] ++ r) hsz (goodRest_close r)
      unfold formulaF
      have hshape : ['n','e','g','('] ++ s ++ [')'] ++ r = ['n','e','g'] ++ (['('] ++ (s ++ ([')'] ++ r))) := by simp
      rw [hshape]
      have c1 : constantP (['n','e','g'] ++ (['('] ++ (s ++ ([')'] ++ r)))) = none := by
        simp [constantP, constP, orElse, tagL]
      have c2 : binaryP (formulaF k) (['n','e','g'] ++ (['('] ++ (s ++ ([')'] ++ r)))) = none := by
        simp [binaryP, pairP, orElse, tagL]
      rw [orElse_none_left _ _ _ c1, orElse_none_left _ _ _ c2]
      apply orElse_some_left
      unfold negP
      rw [tagL_append]; simp only [Option.bind]
      rw [tagL_append]; simp only [hrec]
      rw [tagL_append]
  | and a b s1 s2 w1 w2 _ hb h1 h2 iha ihb =>
    intro fuel r hf hr
    cases fuel with
    | zero => omega
    | succ k =>
      have hsa : a.size < k := by simp [Fml.size] at hf; omega
      have hsb : b.size < k := by simp [Fml.size] at hf; omega
      have ra := iha k (w1 ++ [','] ++ w2 ++ (s2 ++ ([')'] ++ r))) hsa
        (by rw [List.append_assoc]; exact goodRest_ws_comma w1 _ h1)
      have rb := ihb k ([')'] ++ r) hsb (goodRest_close r)
      unfold formulaF
      have hshape : ['a','n','d','('] ++ s1 ++ w1 ++ [','] ++ w2 ++ s2 ++ [')'] ++ r =
          ['a','n','d'] ++ (['('] ++ (s1 ++ (w1 ++ [','] ++ w2 ++ (s2 ++ ([')'] ++ r))))) := by simp
      rw [hshape]
      have c1 : constantP (['a','n','d'] ++ (['('] ++ (s1 ++ (w1 ++ [','] ++ w2 ++ (s2 ++ ([')'] ++ r)))))) = none := by
        simp [constantP, constP, orElse, tagL]
      rw [orElse_none_left _ _ _ c1]
      apply orElse_some_left
      unfold binaryP
      apply orElse_some_left
      exact pairP_ok _ _ _ a b s1 s2 w1 w2 r h1 h2 hb ra rb
  | or a b s1 s2 w1 w2 _ hb h1 h2 iha ihb =>
    intro fuel r hf hr
    cases fuel with
    | zero => omega
    | succ k =>
      have hsa : a.size < k := by simp [Fml.size] at hf; omega
      have hsb : b.size < k := by simp [Fml.size] at hf; omega
      have ra := iha k (w1 ++ [','] ++ w2 ++ (s2 ++ ([')'] ++ r))) hsa
        (by rw [List.append_assoc]; exact goodRest_ws_comma w1 _ h1)
      have rb := ihb k ([')'] ++ r) hsb (goodRest_close r)
      unfold formulaF
      have hshape : ['o','r','('] ++ s1 ++ w1 ++ [','] ++ w2 ++ s2 ++ [')'] ++ r =
          ['o','r'] ++ (['('] ++ (s1 ++ (w1 ++ [','] ++ w2 ++ (s2 ++ ([')'] ++ r))))) := by simp
      rw [hshape]
      have c1 : constantP (['o','r'] ++ (['('] ++ (s1 ++ (w1 ++ [','] ++ w2 ++ (s2 ++ ([')'] ++ r)))))) = none := by
        simp [constantP, constP, orElse, tagL]
      rw [orElse_none_left _ _ _ c1]
      apply orElse_some_left
      unfold binaryP
      rw [orElse_none_left _ _ _ (pairP_tag_none _ _ _ _ (by simp [tagL]))]
      apply orElse_some_left
      exact pairP_ok _ _ _ a b s1 s2 w1 w2 r h1 h2 hb ra rb
  | imp a b s1 s2 w1 w2 _ hb h1 h2 iha ihb =>
    intro fuel r hf hr
    cases fuel with
    | zero => omega
    | succ k =>
      have hsa : a.size < k := by simp [Fml.size] at hf; omega
      have hsb : b.size < k := by simp [Fml.size] at hf; omega
      have ra := iha k (w1 ++ [','] ++ w2 ++ (s2 ++ ([')'] ++ r))) hsa
        (by rw [List.append_assoc]; exact goodRest_ws_comma w1 _ h1)
      have rb := ihb k ([')'] ++ r) hsb (goodRest_close r)
      unfold formulaF
      have hshape : ['i','m','p','('] ++ s1 ++ w1 ++ [','] ++ w2 ++ s2 ++ [')'] ++ r =
          ['i','m','p'] ++ (['('] ++ (s1 ++ (w1 ++ [','] ++ w2 ++ (s2 ++ ([')'] ++ r))))) := by simp
      rw [hshape]
      have c1 : constantP (['i','m','p'] ++ (['('] ++ (s1 ++ (w1 ++ [','] ++ w2 ++ (s2 ++ ([')'] ++ r)))))) = none := by
        simp [constantP, constP, orElse, tagL]
      rw [orElse_none_left _ _ _ c1]
      apply orElse_some_left
      unfold binaryP
      rw [orElse_none_left _ _ _ (pairP_tag_none _ _ _ _ (by simp [tagL])),
          orElse_none_left _ _ _ (pairP_tag_none _ _ _ _ (by simp [tagL]))]
      apply orElse_some_left
      exact pairP_ok _ _ _ a b s1 s2 w1 w2 r h1 h2 hb ra rb
  | xor a b s1 s2 w1 w2 _ hb h1 h2 iha ihb =>
    intro fuel r hf hr
    cases fuel with
    | zero => omega
    | succ k =>
      have hsa : a.size < k := by simp [Fml.size] at hf; omega
      have hsb : b.size < k := by simp [Fml.size] at hf; omega
      have ra := iha k (w1 ++ [','] ++ w2 ++ (s2 ++ ([')'] ++ r))) hsa
        (by rw [List.append_assoc]; exact goodRest_ws_comma w1 _ h1)
      have rb := ihb k ([')'] ++ r) hsb (goodRest_close r)
      unfold formulaF
      have hshape : ['x','o','r','('] ++ s1 ++ w1 ++ [','] ++ w2 ++ s2 ++ [')'] ++ r =
          ['x','o','r'] ++ (['('] ++ (s1 ++ (w1 ++ [','] ++ w2 ++ (s2 ++ ([')'] ++ r))))) := by simp
      rw [hshape]
      have c1 : constantP (['x','o','r'] ++ (['('] ++ (s1 ++ (w1 ++ [','] ++ w2 ++ (s2 ++ ([')'] ++ r)))))) = none := by
        simp [constantP, constP, orElse, tagL]
      rw [orElse_none_left _ _ _ c1]
      apply orElse_some_left
      unfold binaryP
      rw [orElse_none_left _ _ _ (pairP_tag_none _ _ _ _ (by simp [tagL])),
          orElse_none_left _ _ _ (pairP_tag_none _ _ _ _ (by simp [tagL])),
          orElse_none_left _ _ _ (pairP_tag_none _ _ _ _ (by simp [tagL]))]
      apply orElse_some_left
      exact pairP_ok _ _ _ a b s1 s2 w1 w2 r h1 h2 hb ra rb
  | iff a b s1 s2 w1 w2 _ hb h1 h2 iha ihb =>
    intro fuel r hf hr
    cases fuel with
    | zero => omega
    | succ k =>
      have hsa : a.size < k := by simp [Fml.size] at hf; omega
      have hsb : b.size < k := by simp [Fml.size] at hf; omega
      have ra := iha k (w1 ++ [','] ++ w2 ++ (s2 ++ ([')'] ++ r))) hsa
        (by rw [List.append_assoc]; exact goodRest_ws_comma w1 _ h1)
      have rb := ihb k ([')'] ++ r) hsb (goodRest_close r)
      unfold formulaF
      have hshape : ['i','f','f','('] ++ s1 ++ w1 ++ [','] ++ w2 ++ s2 ++ [')'] ++ r =
          ['i','f','f'] ++ (['('] ++ (s1 ++ (w1 ++ [','] ++ w2 ++ (s2 ++ ([')'] ++ r))))) := by simp
      rw [hshape]
      have c1 : constantP (['i','f','f'] ++ (['('] ++ (s1 ++ (w1 ++ [','] ++ w2 ++ (s2 ++ ([')'] ++ r)))))) = none := by
        simp [constantP, constP, orElse, tagL]
      rw [orElse_none_left _ _ _ c1]
      apply orElse_some_left
      unfold binaryP
      rw [orElse_none_left _ _ _ (pairP_tag_none _ _ _ _ (by simp [tagL])),
          orElse_none_left _ _ _ (pairP_tag_none _ _ _ _ (by simp [tagL])),
          orElse_none_left _ _ _ (pairP_tag_none _ _ _ _ (by simp [tagL])),
          orElse_none_left _ _ _ (pairP_tag_none _ _ _ _ (by simp [tagL]))]
      exact pairP_ok _ _ _ a b s1 s2 w1 w2 r h1 h2 hb ra rb
#print axioms formula_complete

end ParserM
