import AdfObdd.CliHalt
import AdfObdd.NgFuelBound
/-! # The fuel hypothesis of the CLI models holds from the EXPLICIT bound `2^(n+3)` on

`CliF.haltsFromF_eventually`, `CliMP.halted_naive_eventually`, `CliMP.halted_hybrid_eventually`,
`CliMP.halted_text_eventually` say "from SOME bound on". With `NConc.ngSearch_halts_within` (every
search of a framework with `n` statements in a well-formed store halts within `NConc.ngBound n =
2^(n+3)` iterations) the same proofs give the number: every invocation on a framework with `n`
statements satisfies `HaltedF fuel` / `haltedParsed W fuel` for EVERY `fuel ≥ 2^(n+3)`; since
`2^(16+3) = 524288 ≤ 10^6` the driver's bound provably suffices for `n ≤ 16`.

Beyond 16 statements nothing is proved about the number 10^6 (the bound is exponential; the Rust loop
has no bound at all): there the hypothesis remains and is established by evaluation only. -/
namespace CliF
open Cli

/-- every section's search halts from `2^(n+3)` iterations on (no hypothesis on the conditions but
validity of the handles: halting does not need the support hypothesis) -/
theorem section_halts_within (heu : SM.Heu) (sec : Section) (s : Store) (n : Nat) (ac : List Nat) (w : WF s)
    (hn : ac.length = n) (hv : ∀ t ∈ ac, t < s.nodes.size) :
    ∀ F, NConc.ngBound n ≤ F → sectionHaltsF F heu sec s n ac = true := by
  intro F hF
  cases sec with
  | twoval => exact NConc.ngSearch_halts_within heu s n ac false w hn hv F hF
  | stmng => exact NConc.ngSearch_halts_within heu s n ac true w hn hv F hF
  | _ => rfl

section threading
variable {n : Nat} {tts : List Nat} {D D' : List BoolFn}

/-- the sections of an invocation, threading the store: no search hits a bound `≥ 2^(n+3)` -/
theorem haltsFromF_within (R : SpecSound.Reps n tts D) (hD : D.length = n) (hs : Same n D D')
    (heu : SM.Heu) (s1 : Store) (ac : List Nat) (w1 : WF s1) (hn : ac.length = n)
    (hv : ∀ t ∈ ac, t < s1.nodes.size) (hden : ac.map (eval s1) = D') :
    ∀ (l : List Section) (s : Store), WF s → Ext s1 s →
      ∀ F, NConc.ngBound n ≤ F → haltsFromF F heu n ac l s = true := by
  intro l
  induction l with
  | nil => intro s _ _ _ _; rfl
  | cons x xs ih =>
    intro s ws es F hF
    have hva : ∀ t ∈ ac, t < s.nodes.size := fun t ht => Nat.lt_of_lt_of_le (hv t ht) es.1
    have hd : ac.map (eval s) = D' := by rw [CI.map_eval_ext w1 es hv]; exact hden
    have h1 := section_halts_within heu x s n ac ws hn hva F hF
    have ⟨w2, e2, _⟩ := section_exact R hD hs F heu x s ac ws hn hva hd h1
    simp only [haltsFromF, Bool.and_eq_true]
    exact ⟨h1, ih _ w2 (Ext.trans es e2) F hF⟩

end threading

/-- **the fuel hypothesis of `runF_faithful` from the explicit bound on**: every invocation on a
framework compiled from `n` written conditions runs no search that hits a bound `≥ 2^(n+3)` -/
theorem haltedF_within (m : Mode) (f : Flags) (heu : SM.Heu) (n : Nat) (fms : List Fm)
    (hl : fms.length = n) (hn : n ≤ VBOT) (ha : ∀ φ ∈ fms, NConc.atomsLt n φ) :
    ∀ fuel, NConc.ngBound n ≤ fuel → HaltedF fuel m f heu (buildNative n fms).1 n (buildNative n fms).2 := by
  have ⟨w, hlen, hvalid, e, hdet, R⟩ := built_facts n fms hl hn ha
  have hD : (fms.map Fm.sem).length = n := by simp [hl]
  rw [← e] at hdet
  have ⟨w1, v1, l1, hs⟩ := start_facts m _ n _ w hlen hvalid hdet
  rw [e] at hs
  intro fuel hf
  exact haltsFromF_within R hD hs heu _ _ w1 l1 v1 rfl (sections m f) _ w1 (Ext.refl _) fuel hf

/-- … in particular the driver's 10^6 for at most 16 statements -/
theorem halted_of_le_16 (m : Mode) (f : Flags) (heu : SM.Heu) (n : Nat) (fms : List Fm)
    (hl : fms.length = n) (h16 : n ≤ 16) (ha : ∀ φ ∈ fms, NConc.atomsLt n φ) :
    Halted m f heu (buildNative n fms).1 n (buildNative n fms).2 :=
  haltedF_within m f heu n fms hl (by unfold VBOT; omega) ha 1000000 ((NConc.ngBound_le_million_iff n).mpr h16)

end CliF

namespace CliMP
open CliM ParserM FromParser Cli SortModel

section hybridhalts
variable {n : Nat} {tts : List Nat} {D D' : List BoolFn}

/-- the sections of the hybrid arm, threading the store: no search hits a bound `≥ 2^(n+3)` -/
theorem haltsWith_hybrid_within (R : SpecSound.Reps n tts D) (hD : D.length = n) (hs : CliF.Same n D D')
    (cands : List (List Nat)) (hc : GoodCands n D cands)
    (heu : SM.Heu) (s1 : Store) (ac : List Nat) (w1 : WF s1) (hn : ac.length = n)
    (hv : ∀ t ∈ ac, t < s1.nodes.size) (hden : ac.map (eval s1) = D') :
    ∀ (l : List Section) (s : Store), WF s → Ext s1 s →
      ∀ F, NConc.ngBound n ≤ F →
        haltsWith (secHalts F heu n ac) (secHybrid F heu cands n ac) l s = true := by
  intro l
  induction l with
  | nil => intro s _ _ _ _; rfl
  | cons x xs ih =>
    intro s ws es F hF
    have hva : ∀ t ∈ ac, t < s.nodes.size := fun t ht => Nat.lt_of_lt_of_le (hv t ht) es.1
    have hd : ac.map (eval s) = D' := by rw [CI.map_eval_ext w1 es hv]; exact hden
    have h1 : secHalts F heu n ac x s = true := by
      rw [secHalts_eq_F]; exact CliF.section_halts_within heu x s n ac ws hn hva F hF
    have ⟨w2, e2, _⟩ := secHybrid_exact R hD hs cands hc F heu x s ac ws hn hva hd h1
    simp only [haltsWith, Bool.and_eq_true]
    exact ⟨h1, ih _ w2 (Ext.trans es e2) F hF⟩

end hybridhalts

/-- the naive arm, any flags: no search hits a bound `≥ 2^(n+3)`, `n` = number of statements -/
theorem halted_naive_within {T : Type} (W : World T) (i : Inv) (hm : i.mode = .naive)
    {st : PState} {names : List Label} {acs : List (Label × Fml)}
    (h : Pres st names acs) (hwf : WfOn names acs) (hn : names.length ≤ VBOT) :
    ∀ fuel, NConc.ngBound names.length ≤ fuel → haltedParsed W fuel i st = true := by
  obtain ⟨mode, f, so, heu⟩ := i
  cases hm
  have R := reps_condsOn names acs
  have hD := condsOn_length names acs
  have hdet := condsOn_det names acs
  have hsz : dictSizeOf st = names.length := h.p.size
  obtain ⟨items, s, ac, _, hfp, _, w, hl, hv, hden, _, _⟩ := items_facts h hwf hn
  intro fuel hf
  simp only [haltedParsed, hfp, hsz, haltsWith_naive_eq_F]
  exact CliF.haltsFromF_within R hD (CliF.Same.refl hD hdet) heu s ac w hl hv hden
    (sections .naive f) s w (Ext.refl _) fuel hf

/-- the hybrid arm, any flags (in particular `--twoval`, `--stmng`): no search hits a bound
`≥ 2^(n+3)`. Hypotheses as in `halted_hybrid_eventually`. -/
theorem halted_hybrid_within {T : Type} (W : World T) (ok : WorldOK W) (i : Inv) (hm : i.mode = .hybrid)
    {st : PState} {names : List Label} {acs : List (Label × Fml)}
    (h : Pres st names acs) (hwf : WfOn names acs) (hn : names.length ≤ VBOT)
    (hnames : names.all bioNameOK = true)
    (hone : i.flags.stmrew = true → (acs.map (·.1)).Nodup)
    (hdump : DumpOKW W ok) :
    ∀ fuel, NConc.ngBound names.length ≤ fuel → haltedParsed W fuel i st = true := by
  have R := reps_condsOn names acs
  have hD := condsOn_length names acs
  have hdet := condsOn_det names acs
  obtain ⟨mode, f, so, heu⟩ := i
  cases hm
  have hsz : dictSizeOf st = names.length := h.p.size
  obtain ⟨items, hw, hlt, hb, hl, hv, hden⟩ := bioBuild_facts (ok.law names.length hn) h hwf hn hnames f.stmrew
  have hg : Bio.GoodRewrite (ok.law names.length hn)
      (Bio.acOf (W.lib names.length) names.length (items.map (·.1)) (items.map fun pf => fmToBExpr pf.2))
      (if f.stmrew = true then some (Bio.stmRewriting (W.lib names.length) (items.map (·.1))
        (items.map fun pf => fmToBExpr pf.2)) else none) := by
    by_cases hr : f.stmrew = true
    · rw [if_pos hr]
      have hi : omap (itemOf names) acs = some items := by rw [← workList_presents h.p]; exact hw
      exact Bio.stmRewriting_good (ok.law names.length hn) _ _
        (by intro φ hφ
            obtain ⟨pf, hpf, rfl⟩ := List.mem_map.mp hφ
            exact fmToBExpr_closed _ _ (hlt pf hpf))
        (items_order_lt names acs items hi) (items_order_nodup names acs items hi (hone hr))
        (by simp)
    · rw [if_neg hr]; trivial
  have ⟨w1, v1, l1, g, hlfp, hpre⟩ := hybridStep_spec (ok.law names.length hn) (hdump names.length hn) _ hv hl
  rw [hden] at hlfp hpre
  have hs := CliF.Same.pre hD hdet hlfp
  have hc : GoodCands names.length (condsOn names acs) (Bio.stableModelCandidates (W.lib names.length)
      (if f.stmrew = true then some (Bio.stmRewriting (W.lib names.length) (items.map (·.1))
        (items.map fun pf => fmToBExpr pf.2)) else none)
      (Bio.acOf (W.lib names.length) names.length (items.map (·.1)) (items.map fun pf => fmToBExpr pf.2))) := by
    obtain ⟨R0, vals, hR, hse, he⟩ := Bio.candidates_enum (ok.law names.length hn) _ _ hv hl hg
    rw [hden] at hR
    exact ⟨R0, vals, hR, hse, he⟩
  intro fuel hf
  simp only [haltedParsed, hsz, hb]
  exact haltsWith_hybrid_within R hD hs _ hc heu _ _ w1 l1 v1 hpre (sections .hybrid f) _ w1 (Ext.refl _) fuel hf

/-- **every arm**: the fuel hypothesis of `cli_text_faithful` holds for every bound `≥ 2^(n+3)` -/
theorem halted_within {T : Type} (W : World T) (ok : WorldOK W) (i : Inv)
    {st : PState} {names : List Label} {acs : List (Label × Fml)}
    (h : Pres st names acs) (hwf : WfOn names acs) (hn : names.length ≤ VBOT)
    (hnames : i.mode = .hybrid → names.all bioNameOK = true)
    (hone : i.mode = .hybrid → i.flags.stmrew = true → (acs.map (·.1)).Nodup)
    (hdump : i.mode = .hybrid → DumpOKW W ok) :
    ∀ fuel, NConc.ngBound names.length ≤ fuel → haltedParsed W fuel i st = true := by
  cases hm : i.mode with
  | naive => exact halted_naive_within W i hm h hwf hn
  | biodivine => exact fun fuel _ => halted_of_no_search W fuel i st (Or.inl hm)
  | hybrid => exact halted_hybrid_within W ok i hm h hwf hn (hnames hm) (hone hm) (hdump hm)

/-- the same in terms of the written facts (the form `runText_faithful` takes its hypothesis in) -/
theorem halted_text_within {T : Type} (W : World T) (ok : WorldOK W) (i : Inv)
    (fs : List Fact) (hwf : WellFormedAdf fs) (hn : (namesOf fs).length ≤ VBOT)
    (hnames : i.mode = .hybrid → (namesOf fs).all bioNameOK = true)
    (hone : i.mode = .hybrid → i.flags.stmrew = true → ((acsOf fs).map (·.1)).Nodup)
    (hdump : i.mode = .hybrid → DumpOKW W ok) :
    ∀ fuel, NConc.ngBound (namesOf fs).length ≤ fuel →
      haltedParsed W fuel i (sortState W.anSort i.sort (PState.ofFacts fs)) = true := by
  have pres := pres_sortState W.anSort ok.an i.sort (pres_ofFacts fs)
  have hperm := sortedNames_perm W.anSort ok.an i.sort (namesOf fs)
  have hwf' : WfOn (sortedNames W.anSort i.sort (namesOf fs)) (acsOf fs) := wfOn_perm hperm hwf
  have := halted_within W ok i pres hwf' (by rw [hperm.length_eq]; exact hn)
    (fun hm => by
      have := hnames hm
      rw [List.all_eq_true] at this ⊢
      exact fun x hx => this x (hperm.mem_iff.mp hx))
    hone hdump
  rw [hperm.length_eq] at this
  exact this

/-- … in particular the driver's 10^6 for files with at most 16 statements -/
theorem halted_text_of_le_16 {T : Type} (W : World T) (ok : WorldOK W) (i : Inv)
    (fs : List Fact) (hwf : WellFormedAdf fs) (h16 : (namesOf fs).length ≤ 16)
    (hnames : i.mode = .hybrid → (namesOf fs).all bioNameOK = true)
    (hone : i.mode = .hybrid → i.flags.stmrew = true → ((acsOf fs).map (·.1)).Nodup)
    (hdump : i.mode = .hybrid → DumpOKW W ok) :
    haltedParsed W 1000000 i (sortState W.anSort i.sort (PState.ofFacts fs)) = true :=
  halted_text_within W ok i fs hwf (by unfold VBOT; omega) hnames hone hdump 1000000
    ((NConc.ngBound_le_million_iff _).mpr h16)

end CliMP
#print axioms CliF.haltedF_within
#print axioms CliMP.halted_text_within
