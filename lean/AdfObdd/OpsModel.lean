import AdfObdd.Compile
/-! The public diagram-building operations of `Bdd` as one operation language over a history of
    issued handles (operands are positions in the history, as in the correspondence protocol).
    `runOps` is what the model driver executes. -/

inductive Op where
  | var (v : Nat)
  | const (b : Bool)
  | not (a : Nat)
  | and (a b : Nat)
  | or (a b : Nat)
  | imp (a b : Nat)
  | iff (a b : Nat)
  | xor (a b : Nat)
  | restrict (a v : Nat) (b : Bool)
deriving Repr

/-- handle at history position `k` (the protocol rejects positions out of range before calling) -/
def hget (hist : List Nat) (k : Nat) : Nat := hist.getD k 0

/-- one operation of `obdd.rs` on the store model -/
def stepOp (s : Store) (hist : List Nat) : Op → Store × Nat
  | .var v => mkNode s v 0 1
  | .const b => (s, if b then 1 else 0)
  | .not a => opNot s (hget hist a)
  | .and a b => opIte s (hget hist a) (hget hist b) 0
  | .or a b => opIte s (hget hist a) 1 (hget hist b)
  | .imp a b => opIte s (hget hist a) (hget hist b) 1
  | .iff a b => let nb := opNot s (hget hist b); opIte nb.1 (hget hist a) (hget hist b) nb.2
  | .xor a b => let nb := opNot s (hget hist b); opIte nb.1 (hget hist a) nb.2 (hget hist b)
  | .restrict a v b => restrictF (hget hist a + 1) s (hget hist a) v b

/-- the Boolean function an operation names, over the functions of the history -/
def fget (fs : List BoolFn) (k : Nat) : BoolFn := fs.getD k (fun _ => false)

def semOp (fs : List BoolFn) : Op → BoolFn
  | .var v => fun σ => σ v
  | .const b => fun _ => b
  | .not a => fun σ => !(fget fs a σ)
  | .and a b => fun σ => fget fs a σ && fget fs b σ
  | .or a b => fun σ => fget fs a σ || fget fs b σ
  | .imp a b => fun σ => !(fget fs a σ) || fget fs b σ
  | .iff a b => fun σ => fget fs a σ == fget fs b σ
  | .xor a b => fun σ => fget fs a σ != fget fs b σ
  | .restrict a v b => fun σ => fget fs a (upd σ v b)

def Op.valid (len : Nat) : Op → Prop
  | .var v => v < VBOT
  | .const _ => True
  | .not a => a < len
  | .and a b | .or a b | .imp a b | .iff a b | .xor a b => a < len ∧ b < len
  | .restrict a _ _ => a < len

/-- run a sequence of operations; every result is appended to the history -/
def runOps : List Op → Store → List Nat → Store × List Nat
  | [], s, hist => (s, hist)
  | op :: ops, s, hist => let r := stepOp s hist op; runOps ops r.1 (hist ++ [r.2])

def semOps : List Op → List BoolFn → List BoolFn
  | [], fs => fs
  | op :: ops, fs => semOps ops (fs ++ [semOp fs op])

def opsValid : List Op → Nat → Prop
  | [], _ => True
  | op :: ops, len => op.valid len ∧ opsValid ops (len + 1)
