import AdfObdd.ServerProofs
import AdfObdd.ServerSuccess
/-! # C16 — what is stored in every reachable state of a deletion-free history (any environment)

The per-event theorems of `ServerSuccess.lean` assume, at the moment of a task's write, that the
addressed document is the one the task was spawned for. That is NOT a consequence of reachability in
general: a document can be deleted and re-created under the same name, or its owner renamed, while a
task runs, and the task's write then lands in whatever document carries the (user, name) pair at that
moment (finding D9; the Rust behaves the same). For histories WITHOUT the three requests that remove
or rename documents (`DELETE /adf/{name}`, `DELETE /users/delete`, `PUT /users/update`) it is: this
file proves the invariant `Good` for every state such a history reaches —

* every stored framework is the environment's parse result for the document's OWN code and parsing
  strategy, and every stored strategy result is the environment's answer for that framework;
* every task ever spawned addresses an existing document; a parse task carries that document's code,
  a solve task the framework parsed from that document's code.

Atomic requests (`stepEv`), arbitrary interleaving of requests of any number of users/jars with the
task events `finish` / `write` / `timeout`. Core Lean only. -/
namespace ServerM
section
variable {T H A R : Type} [DecidableEq T]

/-- the task was spawned for this document -/
def TaskOK (E : Env T H A R) : TaskInput T A → Problem T A R → Prop
  | .parse code parsing, p => p.code = code ∧ p.parsing = parsing
  | .solve a _, p => ∃ r, E.parse p.parsing p.code = .ok (a, r)

/-- what the document stores belongs to its own code -/
def DocOK (E : Env T H A R) (p : Problem T A R) : Prop :=
  (∀ a, p.adf = .some a → ∃ r, E.parse p.parsing p.code = .ok (a, r)) ∧
  (∀ s res, p.res.get s = .some res → ∃ a r, E.parse p.parsing p.code = .ok (a, r) ∧ E.solve a s = .ok res)

structure Good (E : Env T H A R) (db : Db T H A R) : Prop where
  docs : ∀ p ∈ db.problems, DocOK E p
  tasks : ∀ t ∈ db.tasks, ∃ p, db.problems.find? (isProb t.username t.name) = some p ∧ TaskOK E t.input p

theorem Good.init (E : Env T H A R) : Good E ({} : Db T H A R) :=
  ⟨fun p hp => (by cases hp), fun t ht => (by cases ht)⟩

theorem Good.congr {E : Env T H A R} {db db' : Db T H A R} (h : Good E db) (hp : db'.problems = db.problems)
    (ht : db'.tasks = db.tasks) : Good E db' :=
  ⟨fun p hp' => h.docs p (hp ▸ hp'), fun t ht' => by rw [hp]; exact h.tasks t (ht ▸ ht')⟩

theorem Results.get_empty (s : Strategy) : (({} : Results R).get s) = .none := by cases s <;> rfl

/-! ### list facts -/

theorem find_append_some {α : Type} (q : α → Bool) (l : List α) (x y : α) (h : l.find? q = some y) :
    (l ++ [x]).find? q = some y := by
  rw [List.find?_append, h]; rfl

theorem find_append_none {α : Type} (q : α → Bool) (l : List α) (x : α) (h : l.find? q = none) (hx : q x = true) :
    (l ++ [x]).find? q = some x := by
  rw [List.find?_append, h]; simp [hx]

theorem mem_updFirst_r {α : Type} (q : α → Bool) (f : α → α) : ∀ (l : List α) (y : α), y ∈ updFirst q f l →
    y ∈ l ∨ ∃ x, l.find? q = some x ∧ y = f x := by
  intro l
  induction l with
  | nil => intro y h; cases h
  | cons x xs ih =>
    intro y h
    by_cases hq : q x = true
    · simp only [updFirst, hq, if_true, List.mem_cons] at h
      rcases h with rfl | h
      · exact Or.inr ⟨x, by simp [hq], rfl⟩
      · exact Or.inl (List.mem_cons_of_mem _ h)
    · simp only [updFirst, hq, Bool.false_eq_true, if_false, List.mem_cons] at h
      rcases h with rfl | h
      · exact Or.inl (List.mem_cons_self ..)
      · rcases ih y h with h' | ⟨z, hz, rfl⟩
        · exact Or.inl (List.mem_cons_of_mem _ h')
        · exact Or.inr ⟨z, by simp [hq, hz], rfl⟩

/-- a look-up by a filter the update respects still finds a document: the old one or its update -/
theorem find_updFirst_exists {α : Type} (q q' : α → Bool) (f : α → α) (hf : ∀ x, q' (f x) = q' x) :
    ∀ (l : List α) (y : α), l.find? q' = some y →
      ∃ y', (updFirst q f l).find? q' = some y' ∧ (y' = y ∨ (l.find? q = some y ∧ y' = f y)) := by
  intro l
  induction l with
  | nil => intro y h; cases h
  | cons x xs ih =>
    intro y h
    by_cases hq : q x = true
    · simp only [updFirst, hq, if_true]
      by_cases hq' : q' x = true
      · have : y = x := by simpa [hq'] using h.symm
        subst this
        exact ⟨f y, by simp [hf, hq'], Or.inr ⟨by simp [hq], rfl⟩⟩
      · have hfx : q' (f x) = false := by rw [hf]; simpa using hq'
        have h' : xs.find? q' = some y := by simpa [hq'] using h
        exact ⟨y, by simp [hfx, h'], Or.inl rfl⟩
    · simp only [updFirst, hq, Bool.false_eq_true, if_false]
      by_cases hq' : q' x = true
      · have : y = x := by simpa [hq'] using h.symm
        subst this
        exact ⟨y, by simp [hq'], Or.inl rfl⟩
      · have h' : xs.find? q' = some y := by simpa [hq'] using h
        obtain ⟨y', h1, h2⟩ := ih y h'
        refine ⟨y', by simp [hq', h1], ?_⟩
        rcases h2 with h2 | ⟨h2, h3⟩
        · exact Or.inl h2
        · exact Or.inr ⟨by simp [hq, h2], h3⟩

theorem mem_updNth (j : Nat) (f : TaskRec T A → TaskRec T A) : ∀ (n : Nat) (l : List (TaskRec T A)) (t' : TaskRec T A),
    t' ∈ updNth j f n l → t' ∈ l ∨ ∃ t ∈ l, t' = f t := by
  intro n l
  induction l generalizing n with
  | nil => intro t' h; cases h
  | cons x xs ih =>
    intro t' h
    unfold updNth at h
    by_cases hx : x.jar = j
    · rw [if_pos hx] at h
      cases n with
      | zero =>
        simp only [List.mem_cons] at h
        rcases h with rfl | h
        · exact Or.inr ⟨x, List.mem_cons_self .., rfl⟩
        · exact Or.inl (List.mem_cons_of_mem _ h)
      | succ k =>
        simp only [List.mem_cons] at h
        rcases h with rfl | h
        · exact Or.inl (List.mem_cons_self ..)
        · rcases ih k t' h with h' | ⟨t, ht, rfl⟩
          · exact Or.inl (List.mem_cons_of_mem _ h')
          · exact Or.inr ⟨t, List.mem_cons_of_mem _ ht, rfl⟩
    · rw [if_neg hx] at h
      simp only [List.mem_cons] at h
      rcases h with rfl | h
      · exact Or.inl (List.mem_cons_self ..)
      · rcases ih n t' h with h' | ⟨t, ht, rfl⟩
        · exact Or.inl (List.mem_cons_of_mem _ h')
        · exact Or.inr ⟨t, List.mem_cons_of_mem _ ht, rfl⟩

theorem TaskOK_apply (E : Env T H A R) (i : TaskInput T A) (w : Write A R) (p : Problem T A R) :
    TaskOK E i (w.apply p) ↔ TaskOK E i p := by
  cases i <;> cases w <;> exact Iff.rfl

/-! ### the three ways a state changes -/

/-- flags of tasks change (finish / written) -/
theorem Good.flags {E : Env T H A R} {db : Db T H A R} (h : Good E db) (ts : List (TaskRec T A))
    (hts : ∀ t' ∈ ts, ∃ t ∈ db.tasks, t'.username = t.username ∧ t'.name = t.name ∧ t'.input = t.input)
    (db' : Db T H A R) (hp : db'.problems = db.problems) (ht : db'.tasks = ts) : Good E db' := by
  refine ⟨fun p hp' => h.docs p (hp ▸ hp'), fun t' ht' => ?_⟩
  rw [ht] at ht'
  obtain ⟨t, htm, e1, e2, e3⟩ := hts t' ht'
  rw [hp, e1, e2, e3]
  exact h.tasks t htm

/-- a document is updated in place by a write that keeps the updated document `DocOK` -/
theorem Good.pset {E : Env T H A R} {db : Db T H A R} (h : Good E db) (u n : T) (w : Write A R)
    (hw : ∀ p, db.problems.find? (isProb u n) = some p → DocOK E (w.apply p))
    (db' : Db T H A R) (hp : db'.problems = updFirst (isProb u n) w.apply db.problems)
    (ht : ∀ t' ∈ db'.tasks, ∃ t ∈ db.tasks, t'.username = t.username ∧ t'.name = t.name ∧ t'.input = t.input) :
    Good E db' := by
  refine ⟨fun p hp' => ?_, fun t' ht' => ?_⟩
  · rw [hp] at hp'
    rcases mem_updFirst_r _ _ _ _ hp' with h1 | ⟨x, hx, rfl⟩
    · exact h.docs p h1
    · exact hw x hx
  · obtain ⟨t, htm, e1, e2, e3⟩ := ht t' ht'
    obtain ⟨p, hf, hok⟩ := h.tasks t htm
    obtain ⟨p', hf', hp'⟩ := find_updFirst_exists (isProb u n) (isProb t.username t.name) w.apply
      (fun x => isProb_apply _ _ w x) db.problems p hf
    rw [hp, e1, e2, e3]
    refine ⟨p', hf', ?_⟩
    rcases hp' with rfl | ⟨_, rfl⟩
    · exact hok
    · exact (TaskOK_apply E t.input w p).mpr hok

/-- a new document with its parse task -/
theorem Good.add {E : Env T H A R} {db : Db T H A R} (h : Good E db) (u n code : T) (parsing : Parsing) (t0 : TaskRec T A)
    (hnone : db.problems.find? (isProb u n) = none)
    (h1 : t0.username = u) (h2 : t0.name = n) (h3 : t0.input = .parse code parsing)
    (db' : Db T H A R)
    (hp : db'.problems = db.problems ++ [{ name := n, username := u, code := code, parsing := parsing }])
    (ht : db'.tasks = db.tasks ++ [t0]) : Good E db' := by
  refine ⟨fun p hp' => ?_, fun t ht' => ?_⟩
  · rw [hp, List.mem_append, List.mem_singleton] at hp'
    rcases hp' with h' | rfl
    · exact h.docs p h'
    · refine ⟨fun a ha => (by cases ha), fun s res hr => ?_⟩
      have : (({} : Results R).get s) = .some res := hr
      rw [Results.get_empty] at this; cases this
  · rw [ht, List.mem_append, List.mem_singleton] at ht'
    rw [hp]
    rcases ht' with h' | rfl
    · obtain ⟨p, hf, hok⟩ := h.tasks t h'
      exact ⟨p, find_append_some _ _ _ _ hf, hok⟩
    · rw [h1, h2, h3]
      exact ⟨_, find_append_none _ _ _ hnone (by simp [isProb]), rfl, rfl⟩

/-- a solve task for the framework stored in the addressed document -/
theorem Good.solve {E : Env T H A R} {db : Db T H A R} (h : Good E db) (u n : T) (p : Problem T A R) (a : A) (s : Strategy)
    (t0 : TaskRec T A) (hf : db.problems.find? (isProb u n) = some p) (ha : p.adf = .some a)
    (h1 : t0.username = u) (h2 : t0.name = n) (h3 : t0.input = .solve a s)
    (db' : Db T H A R) (hp : db'.problems = db.problems) (ht : db'.tasks = db.tasks ++ [t0]) : Good E db' := by
  refine ⟨fun q hq => h.docs q (hp ▸ hq), fun t ht' => ?_⟩
  rw [ht, List.mem_append, List.mem_singleton] at ht'
  rw [hp]
  rcases ht' with h' | rfl
  · exact h.tasks t h'
  · rw [h1, h2, h3]
    exact ⟨p, hf, (h.docs p (List.mem_of_find?_eq_some hf)).1 a ha⟩

/-! ### the task events -/

theorem docOK_taskWrite (E : Env T H A R) (i : TaskInput T A) (p : Problem T A R) (hd : DocOK E p) (hok : TaskOK E i p) :
    DocOK E ((taskWrite E i).apply p) := by
  cases i with
  | parse code parsing =>
    obtain ⟨rfl, rfl⟩ := hok
    simp only [taskWrite]
    cases hp : E.parse p.parsing p.code with
    | error e => exact ⟨fun a ha => (by cases ha), hd.2⟩
    | ok x =>
      obtain ⟨a, r⟩ := x
      refine ⟨fun a' ha' => ?_, hd.2⟩
      have : (OWE.some a : OWE A) = .some a' := ha'
      cases this
      exact ⟨r, hp⟩
  | solve a s =>
    obtain ⟨r0, hr0⟩ := hok
    simp only [taskWrite]
    cases hs : E.solve a s with
    | error e =>
      refine ⟨hd.1, fun s' res hr => ?_⟩
      by_cases hss : s' = s
      · subst hss
        have : (p.res.set s' (.error e)).get s' = .some res := hr
        rw [Results.get_set_same] at this; cases this
      · have : (p.res.set s (.error e)).get s' = .some res := hr
        rw [Results.get_set_other _ _ _ _ hss] at this
        exact hd.2 s' res this
    | ok r =>
      refine ⟨hd.1, fun s' res hr => ?_⟩
      by_cases hss : s' = s
      · subst hss
        have : (p.res.set s' (.some r)).get s' = .some res := hr
        rw [Results.get_set_same] at this
        cases this
        exact ⟨a, r0, hr0, hs⟩
      · have : (p.res.set s (.some r)).get s' = .some res := hr
        rw [Results.get_set_other _ _ _ _ hss] at this
        exact hd.2 s' res this

theorem docOK_timeoutWrite (E : Env T H A R) (i : TaskInput T A) (p : Problem T A R) (hd : DocOK E p) :
    DocOK E ((timeoutWrite i : Write A R).apply p) := by
  cases i with
  | parse code parsing => exact ⟨fun a ha => (by cases ha), hd.2⟩
  | solve a s =>
    refine ⟨hd.1, fun s' res hr => ?_⟩
    by_cases hss : s' = s
    · subst hss
      have : (p.res.set s' (.error .timeout)).get s' = .some res := hr
      rw [Results.get_set_same] at this; cases this
    · have : (p.res.set s (.error .timeout)).get s' = .some res := hr
      rw [Results.get_set_other _ _ _ _ hss] at this
      exact hd.2 s' res this

theorem flags_same (j n : Nat) (f : TaskRec T A → TaskRec T A)
    (hf : ∀ t, (f t).username = t.username ∧ (f t).name = t.name ∧ (f t).input = t.input) (l : List (TaskRec T A)) :
    ∀ t' ∈ updNth j f n l, ∃ t ∈ l, t'.username = t.username ∧ t'.name = t.name ∧ t'.input = t.input := by
  intro t' ht'
  rcases mem_updNth j f n l t' ht' with h | ⟨t, ht, rfl⟩
  · exact ⟨t', h, rfl, rfl, rfl⟩
  · exact ⟨t, ht, hf t⟩

theorem Good.event (E : Env T H A R) {db : Db T H A R} (h : Good E db) :
    ∀ e : Event T, (∀ rq, e ≠ .req rq) → Good E (dbEv E db e) := by
  intro e hne
  cases e with
  | req rq => exact absurd rfl (hne rq)
  | finish j n =>
    simp only [dbEv]
    cases ht : nthOf j n db.tasks with
    | none => exact h
    | some t =>
      simp only
      split
      · exact h
      · exact h.flags _ (flags_same j n (fun t => { t with blockingDone := true }) (fun _ => ⟨rfl, rfl, rfl⟩) db.tasks) _ rfl rfl
  | write j n =>
    simp only [dbEv]
    cases ht : nthOf j n db.tasks with
    | none => exact h
    | some t =>
      simp only
      split
      · obtain ⟨p0, hf0, hok⟩ := h.tasks t (nthOf_mem j n _ t ht).1
        refine h.pset t.username t.name (taskWrite E t.input) ?_ _ rfl
          (flags_same j n (fun t => { t with written := true }) (fun _ => ⟨rfl, rfl, rfl⟩) db.tasks)
        intro p hp
        rw [hf0] at hp; cases hp
        exact docOK_taskWrite E t.input p0 (h.docs p0 (List.mem_of_find?_eq_some hf0)) hok
      · exact h
  | timeout j n =>
    simp only [dbEv]
    cases ht : nthOf j n db.tasks with
    | none => exact h
    | some t =>
      simp only
      split
      · refine h.pset t.username t.name (timeoutWrite t.input) ?_ _ rfl
          (flags_same j n (fun t => { t with written := true }) (fun _ => ⟨rfl, rfl, rfl⟩) db.tasks)
        intro p hp
        exact docOK_timeoutWrite E t.input p (h.docs p (List.mem_of_find?_eq_some hp))
      · exact h

/-! ### the requests -/

/-- commands that leave the problem collection and the task list alone -/
def Harmless : Cmd T H A R → Prop
  | .uFind _ | .uInsert _ | .pFindOne _ _ | .pFindAll _ | .rContains _ | .rTasks _ _ => True
  | _ => False

theorem exec_harmless (db : Db T H A R) (c : Cmd T H A R) (hc : Harmless c) :
    (exec db c).1.problems = db.problems ∧ (exec db c).1.tasks = db.tasks := by
  cases c with
  | uInsert u => simp only [exec]; split <;> exact ⟨rfl, rfl⟩
  | uFind _ => exact ⟨rfl, rfl⟩
  | pFindOne _ _ => exact ⟨rfl, rfl⟩
  | pFindAll _ => exact ⟨rfl, rfl⟩
  | rContains _ => exact ⟨rfl, rfl⟩
  | rTasks _ _ => exact ⟨rfl, rfl⟩
  | _ => exact absurd hc (by simp [Harmless])

/-- a program of harmless commands leaves problems and tasks alone -/
theorem run_harmless {α : Type} {Q : Cmd T H A R → Prop} {P : α → Prop} (hQ : ∀ c, Q c → Harmless c)
    {p : Prog T H A R α} (hp : AllCmds Q P p) (db : Db T H A R) :
    (run p db).1.problems = db.problems ∧ (run p db).1.tasks = db.tasks :=
  run_inv (fun d => d.problems = db.problems ∧ d.tasks = db.tasks)
    (fun d c hc hi => by
      have := exec_harmless d c (hQ c hc)
      exact ⟨this.1.trans hi.1, this.2.trans hi.2⟩) hp db ⟨rfl, rfl⟩

/-- what `add` does to problems and tasks: nothing, or one new document (under a pair that addressed
no document) together with its parse task -/
def AddEffect (jar : Nat) (parsing : Parsing) (db db' : Db T H A R) : Prop :=
  (db'.problems = db.problems ∧ db'.tasks = db.tasks) ∨
  ∃ u n c, db.problems.find? (isProb u n) = none ∧
    db'.problems = db.problems ++ [{ name := n, username := u, code := c, parsing := parsing }] ∧
    db'.tasks = db.tasks ++ [{ jar := jar, username := u, name := n, input := .parse c parsing }]

theorem addFor_effect (jar : Nat) (ck : Cookie T) (u name code : T) (parsing : Parsing) (emp fp : T) (db : Db T H A R) :
    AddEffect jar parsing db (run (addFor (H := H) (A := A) (R := R) jar ck u name code parsing emp fp) db).1 := by
  unfold addFor
  by_cases hn : name ≠ emp
  · rw [if_pos hn]
    simp only [run, exec]
    cases hf : db.problems.find? (isProb u name) with
    | some _ => exact Or.inl ⟨rfl, rfl⟩
    | none =>
      refine Or.inr ⟨u, name, code, hf, ?_, ?_⟩ <;> simp [run, exec]
  · rw [if_neg hn]
    simp only [run, exec]
    cases hf : db.problems.find? (isProb u fp) with
    | some _ => exact Or.inl ⟨rfl, rfl⟩
    | none =>
      refine Or.inr ⟨u, fp, code, hf, ?_, ?_⟩ <;> simp [run, exec]

theorem AddEffect.of_same {jar : Nat} {parsing : Parsing} {db d1 db' : Db T H A R} (hp : d1.problems = db.problems)
    (ht : d1.tasks = db.tasks) (h : AddEffect jar parsing d1 db') : AddEffect jar parsing db db' := by
  unfold AddEffect at h ⊢
  rw [hp, ht] at h
  exact h

theorem hAdd_effect (E : Env T H A R) (jar : Nat) (id : Option T) (name : T) (code file : Option T) (parsing : Parsing)
    (fu fp : T) (db : Db T H A R) :
    AddEffect jar parsing db (run (hAdd E jar id name code file parsing fu fp) db).1 := by
  have body : ∀ c : T, AddEffect jar parsing db (run
      (if c = E.emp then reply 400 .needCode else
        match id with
        | some u => addFor jar .keep u name c parsing E.emp fp
        | none =>
          .cmd (.uFind fu) fun r => match r with
            | some _ => reply 500 .noGenName
            | none => .cmd (.uInsert ⟨fu, none⟩) fun ok =>
              if ok then addFor jar (.login fu) fu name c parsing E.emp fp
              else reply 500 .dbError : P T H A R) db).1 := by
    intro c
    by_cases he : c = E.emp
    · rw [if_pos he]; exact Or.inl ⟨rfl, rfl⟩
    · rw [if_neg he]
      cases id with
      | some u => exact addFor_effect jar .keep u name c parsing E.emp fp db
      | none =>
        simp only [run, exec]
        cases hf : db.users.find? (isUser fu) with
        | some _ => exact Or.inl ⟨rfl, rfl⟩
        | none =>
          simp only [run, exec]
          by_cases hany : db.users.any (isUser fu) = true
          · simp only [hany, if_true]
            exact Or.inl ⟨rfl, rfl⟩
          · simp only [hany, Bool.false_eq_true, if_false]
            exact AddEffect.of_same rfl rfl (addFor_effect jar (.login fu) fu name c parsing E.emp fp _)
  unfold hAdd
  cases file with
  | some f => exact body f
  | none =>
    cases code with
    | some c => exact body c
    | none => exact Or.inl ⟨rfl, rfl⟩

/-- what `solve` does to problems and tasks: nothing, or one new solve task for the framework stored
in the addressed document -/
theorem hSolve_effect (jar : Nat) (id : Option T) (name : T) (s : Strategy) (db : Db T H A R) :
    (run (hSolve (H := H) jar id name s) db).1.problems = db.problems ∧
    ((run (hSolve (H := H) jar id name s) db).1.tasks = db.tasks ∨
     ∃ u p a, db.problems.find? (isProb u name) = some p ∧ p.adf = .some a ∧
       (run (hSolve (H := H) jar id name s) db).1.tasks =
         db.tasks ++ [{ jar := jar, username := u, name := name, input := .solve a s }]) := by
  unfold hSolve
  cases id with
  | none => exact ⟨rfl, Or.inl rfl⟩
  | some u =>
    simp only [run, exec]
    cases hf : db.problems.find? (isProb u name) with
    | none => exact ⟨rfl, Or.inl rfl⟩
    | some p =>
      simp only
      cases ha : p.adf with
      | none => exact ⟨rfl, Or.inl rfl⟩
      | error e => exact ⟨rfl, Or.inl rfl⟩
      | some a =>
        simp only [run, exec]
        by_cases hb : ((p.res.get s).isSome || db.running.any (isInfo ⟨u, name, .solve s⟩)) = true
        · simp only [hb, if_true]; exact ⟨rfl, Or.inl rfl⟩
        · simp only [hb, Bool.false_eq_true, if_false, run, exec]
          exact ⟨rfl, Or.inr ⟨u, p, a, hf, ha, rfl⟩⟩

/-- requests that neither remove nor rename documents -/
def Req.keeps : Req T → Bool
  | .delete _ | .deleteAccount | .update _ _ _ => false
  | _ => true

theorem Good.request (E : Env T H A R) {st : State T H A R} (h : Good E st.db) (rq : Request T)
    (hk : rq.req.keeps = true) : Good E (step E st rq).1.db := by
  obtain ⟨jar, r⟩ := rq
  show Good E (run (handler E jar (st.sess jar) r) st.db).1
  have harmless : (∀ c, Shape E jar (st.sess jar) r c → Harmless c) →
      Good E (run (handler E jar (st.sess jar) r) st.db).1 := by
    intro hQ
    have := run_harmless hQ (handler_shape E jar (st.sess jar) r) st.db
    exact h.congr this.1 this.2
  cases r with
  | delete _ => cases hk
  | deleteAccount => cases hk
  | update _ _ _ => cases hk
  | register u p salt =>
    apply harmless; intro c hc
    rcases hc with rfl | rfl <;> trivial
  | login u p => apply harmless; intro c hc; cases hc; trivial
  | logout => apply harmless; intro c hc; obtain ⟨v, _, rfl⟩ := hc; trivial
  | info => apply harmless; intro c hc; obtain ⟨v, _, rfl⟩ := hc; trivial
  | get name =>
    apply harmless; intro c hc
    obtain ⟨v, _, rfl | ⟨n, rfl⟩⟩ := hc <;> trivial
  | list =>
    apply harmless; intro c hc
    obtain ⟨v, _, rfl | ⟨n, rfl⟩⟩ := hc <;> trivial
  | malformed => apply harmless; intro c hc; cases hc
  | add name code file parsing fu fp =>
    rcases hAdd_effect E jar (st.sess jar) name code file parsing fu fp st.db with ⟨h1, h2⟩ | ⟨u, n, c, hf, h1, h2⟩
    · exact h.congr h1 h2
    · exact h.add u n c parsing _ hf rfl rfl rfl _ h1 h2
  | solve name s =>
    obtain ⟨h1, h2 | ⟨u, p, a, hf, ha, h2⟩⟩ := hSolve_effect (H := H) jar (st.sess jar) name s st.db
    · exact h.congr h1 h2
    · exact h.solve u name p a s _ hf ha rfl rfl rfl _ h1 h2

/-! ### histories -/

def Event.keeps : Event T → Bool
  | .req rq => rq.req.keeps
  | _ => true

theorem Good.stepEv (E : Env T H A R) {st : State T H A R} (h : Good E st.db) (e : Event T) (hk : e.keeps = true) :
    Good E (stepEv E st e).1.db := by
  cases e with
  | req rq => exact h.request E rq hk
  | finish j n => exact h.event E (.finish j n) (fun _ hh => by cases hh)
  | write j n => exact h.event E (.write j n) (fun _ hh => by cases hh)
  | timeout j n => exact h.event E (.timeout j n) (fun _ hh => by cases hh)

/-- **the invariant holds in every state a deletion-free history reaches** (from any good state, in
particular from the empty server) -/
theorem Good.runAll (E : Env T H A R) : ∀ (es : List (Event T)) (st : State T H A R), Good E st.db →
    (∀ e ∈ es, e.keeps = true) → Good E (runAll E st es).1.db := by
  intro es
  induction es with
  | nil => intro st h _; exact h
  | cons e es ih =>
    intro st h hk
    exact ih _ (h.stepEv E e (hk e (List.mem_cons_self ..))) (fun e' he' => hk e' (List.mem_cons_of_mem _ he'))

/-- **reachable_results_belong_to_the_code**: in every state reached from the empty server by a
deletion-free history — any requests of any users in any order, interleaved with the task events —
whatever a document shows under strategy `s` is the environment's answer `E.solve a s` for the
framework `a` that `E.parse` yields for the document's OWN code and parsing strategy, and a stored
framework is that parse result -/
theorem reachable_results_belong_to_the_code (E : Env T H A R) (es : List (Event T))
    (hk : ∀ e ∈ es, e.keeps = true) (p : Problem T A R) (hp : p ∈ (runAll E {} es).1.db.problems) :
    (∀ a, p.adf = .some a → ∃ r, E.parse p.parsing p.code = .ok (a, r)) ∧
    (∀ s res, p.res.get s = .some res → ∃ a r, E.parse p.parsing p.code = .ok (a, r) ∧ E.solve a s = .ok res) :=
  (Good.runAll E es {} (Good.init E) hk).docs p hp

end
end ServerM
