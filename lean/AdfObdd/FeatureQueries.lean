import AdfObdd.FeatureStore
import AdfObdd.OpsProofs
/-! C12: `new` and `fix_import` establish the invariant; the queries `paths`, `models`,
    `max_depth`, `var_dependencies` answer, under every feature set, what the recursive
    reference functions (`pathsF`, `countF`, `depsF`) answer — with the documented exception. -/

/-! ### projections of the naive tuple -/

theorem naive_proj (s : Store) (t : Nat) :
    (naive s t).cm = (countF s (t+1) t).1 ∧ (naive s t).m = (countF s (t+1) t).2.1 ∧
    (naive s t).pcm = (paths s t).1 ∧ (naive s t).pm = (paths s t).2 ∧
    (naive s t).depth = (countF s (t+1) t).2.2 := by
  unfold naive paths
  rw [naiveCN_eq]
  exact ⟨rfl, rfl, rfl, rfl, rfl⟩

theorem ins01_one (c : CntCache) : ((c.insert 1 CN.top).insert 0 CN.bot)[1]? = some CN.top := by
  rw [Std.HashMap.getElem?_insert, if_neg (by decide), Std.HashMap.getElem?_insert, if_pos (by decide)]
theorem ins01_zero (c : CntCache) : ((c.insert 1 CN.top).insert 0 CN.bot)[0]? = some CN.bot := by
  rw [Std.HashMap.getElem?_insert, if_pos (by decide)]

/-! ### `Bdd::new` -/

theorem newC_inv (c : Cfg) : FInv c true (newC c) := by
  refine ⟨WF_init, ?_, ?_, ?_, ?_⟩
  · intro hv
    simp only [newC, hv, if_true]
    refine ⟨by simp [Store.init], ?_⟩
    intro i hi x
    have hi' : i < 2 := by simpa [Store.init] using hi
    have : depsF Store.init (i+1) i = [] := by unfold depsF; rw [if_pos hi']
    rw [this]
    have h01 : i = 0 ∨ i = 1 := by omega
    rcases h01 with h | h <;> subst h <;> simp
  · simp only [newC]
    by_cases ha : c.adhoccounting = true
    · simp only [ha, if_true]
      apply CntOK_insert (CntOK_insert (CntOK_empty _ _) 1 CN.top (by simp [Store.init]) ?_) 0 CN.bot (by simp [Store.init])
      · rw [naive_zero]; exact CN.agree_refl _ _
      · rw [naive_one]; exact CN.agree_refl _ _
    · simp only [ha]; exact CntOK_empty _ _
  · intro ha t ht
    have ht' : t < 2 := by simpa [newC, Store.init] using ht
    simp only [newC, ha, if_true]
    have h01 : t = 0 ∨ t = 1 := by omega
    rcases h01 with h | h <;> subst h
    · exact ⟨CN.bot, ins01_zero _⟩
    · exact ⟨CN.top, ins01_one _⟩
  · intro _ _ t ht2 ht
    have ht' : t < 2 := by simpa [newC, Store.init] using ht
    omega

/-! ### `fix_import` -/

theorem fixCounts_ok (s : Store) (h : TableWF s.nodes) (cnt : CntCache) (hc : CntOK true s cnt) :
    CntOK true s (fixCounts s cnt) ∧ CntFull s (fixCounts s cnt) := by
  have hl := h.len
  have key : ∀ k, k ≤ s.nodes.size →
      CntOK true s ((List.range k).foldl (fun c i => (memoCN s (i+1) c i).2) ((cnt.insert 1 CN.top).insert 0 CN.bot)) ∧
      (∀ i, i < 2 ∨ i < k → i < s.nodes.size →
        ∃ r, ((List.range k).foldl (fun c i => (memoCN s (i+1) c i).2) ((cnt.insert 1 CN.top).insert 0 CN.bot))[i]? = some r) := by
    intro k
    induction k with
    | zero =>
      intro _
      simp only [List.range_zero, List.foldl_nil]
      constructor
      · apply CntOK_insert (CntOK_insert hc 1 CN.top (by omega) ?_) 0 CN.bot (by omega)
        · rw [naive_zero]; exact CN.agree_refl _ _
        · rw [naive_one]; exact CN.agree_refl _ _
      · intro i hi _
        have h01 : i = 0 ∨ i = 1 := by omega
        rcases h01 with h | h <;> subst h
        · exact ⟨CN.bot, ins01_zero _⟩
        · exact ⟨CN.top, ins01_one _⟩
    | succ k ih =>
      intro hk
      have ⟨c1, f1⟩ := ih (by omega)
      rw [List.range_succ, List.foldl_append]
      simp only [List.foldl_cons, List.foldl_nil]
      generalize (List.range k).foldl (fun c i => (memoCN s (i+1) c i).2) ((cnt.insert 1 CN.top).insert 0 CN.bot) = C at *
      have ⟨_, c2, m2, e2⟩ := memoCN_spec true s h (k+1) C k c1 (by omega) (Nat.lt_succ_self _)
      refine ⟨c2, ?_⟩
      intro i hi hsz
      by_cases hold : i < 2 ∨ i < k
      · obtain ⟨r, hr⟩ := f1 i hold hsz
        exact ⟨r, m2 i r hr⟩
      · have : i = k := by omega
        subst this
        exact e2 (by omega)
  have ⟨a, b⟩ := key s.nodes.size (Nat.le_refl _)
  exact ⟨a, fun t ht => b t (Or.inr ht) ht⟩

/-- `fix_import` on a deserialised store (well-formed node and unique tables, `var_deps` empty
because it is `serde(skip)`, any sound count cache — it is empty) establishes the invariant;
moreover every count entry is then exact, model components included, under every feature set -/
theorem fixImportC_inv (c : Cfg) (fs : FStore) (w : WF fs.base) (hd : fs.deps = #[])
    (hc : CntOK true fs.base fs.cnt) :
    FInv c false (fixImportC c fs) ∧ CntOK true (fixImportC c fs).base (fixImportC c fs).cnt := by
  have hcnt : CntOK true fs.base (fixImportC c fs).cnt := by
    simp only [fixImportC]
    by_cases ha : c.adhoccounting = true
    · simp only [ha, if_true]; exact (fixCounts_ok fs.base w.table fs.cnt hc).1
    · simp only [ha]; exact hc
  refine ⟨⟨w, ?_, ?_, ?_, ?_⟩, hcnt⟩
  · intro hv
    simp only [fixImportC, hv, if_true, hd]
    exact genDeps_ok fs.base w.table
  · exact hcnt.weaken
  · intro ha
    simp only [fixImportC, ha, if_true]
    exact (fixCounts_ok fs.base w.table fs.cnt hc).2
  · intro hz; cases hz

/-! ### queries -/

theorem lookup_of_full {c : Cfg} {z : Bool} {fs : FStore} (inv : FInv c z fs) (ha : c.adhoccounting = true)
    (t : Nat) (ht : t < fs.base.nodes.size) :
    CN.agree c.exactModels (lookupCN fs.cnt t) (naive fs.base t) := by
  obtain ⟨r, hr⟩ := inv.tab.full ha t ht
  unfold lookupCN; rw [hr]
  exact (inv.tab.cnt t r hr).2

/-- storing the cache returned by a memoised count keeps the invariant (feature `adhoccounting` off) -/
theorem memo_inv {c : Cfg} {z : Bool} {fs : FStore} (inv : FInv c z fs) (ha : c.adhoccounting = false)
    (t : Nat) (ht : t < fs.base.nodes.size) :
    FInv c z { fs with cnt := (memoCN fs.base (t+1) fs.cnt t).2 } := by
  have ⟨_, c2, _, _⟩ := memoCN_spec c.exactModels fs.base inv.wf.table (t+1) fs.cnt t inv.tab.cnt ht (Nat.lt_succ_self _)
  refine ⟨inv.wf, inv.tab.deps, c2, ?_, ?_⟩
  · intro ha'; rw [ha] at ha'; cases ha'
  · intro _ he; simp [Cfg.exc, ha] at he

/-- `paths`: ad hoc = memoised = naive = the recursive path count -/
theorem pathsC_exact (c : Cfg) (z : Bool) (fs : FStore) (t : Nat) (memo : Bool) (inv : FInv c z fs)
    (ht : t < fs.base.nodes.size) :
    (pathsC c fs t memo).1 = paths fs.base t ∧ (pathsC c fs t memo).2.base = fs.base ∧
    FInv c z (pathsC c fs t memo).2 := by
  have ⟨_, _, p1, p2, _⟩ := naive_proj fs.base t
  unfold pathsC
  by_cases ha : c.adhoccounting = true
  · rw [if_pos ha]
    have ⟨a1, a2, _, _⟩ := lookup_of_full inv ha t ht
    refine ⟨?_, rfl, inv⟩
    simp only [a1, a2, p1, p2]
  · rw [if_neg ha]
    cases memo with
    | true =>
      simp only [if_true]
      have ⟨⟨a1, a2, _, _⟩, _, _, _⟩ :=
        memoCN_spec c.exactModels fs.base inv.wf.table (t+1) fs.cnt t inv.tab.cnt ht (Nat.lt_succ_self _)
      refine ⟨?_, by trivial, memo_inv inv (by simpa using ha) t ht⟩
      simp only [a1, a2, p1, p2]
    | false =>
      simp only [Bool.false_eq_true, if_false]
      exact ⟨by simp only [p1, p2], by trivial, inv⟩

/-- `models`: ad hoc = naive; memoised = naive unless paths are counted ad hoc and models are not -/
theorem modelsC_exact (c : Cfg) (hv : c.valid) (z : Bool) (fs : FStore) (t : Nat) (memo : Bool) (inv : FInv c z fs)
    (ht : t < fs.base.nodes.size) (hex : c.exc = false ∨ memo = false) :
    (modelsC c fs t memo).1 = ((countF fs.base (t+1) t).1, (countF fs.base (t+1) t).2.1) ∧
    (modelsC c fs t memo).2.base = fs.base ∧ FInv c z (modelsC c fs t memo).2 := by
  have ⟨p1, p2, _, _, _⟩ := naive_proj fs.base t
  unfold modelsC
  by_cases hm : c.adhoccountmodels = true
  · rw [if_pos hm]
    have ha := hv hm
    have hag := lookup_of_full inv ha t ht
    rw [Cfg.exact_of_adhoc ha, hm] at hag
    rw [CN.agree_true hag]
    exact ⟨by simp only [p1, p2], by trivial, inv⟩
  · rw [if_neg hm]
    cases memo with
    | true =>
      simp only [if_true]
      have hexc : c.exc = false := by
        rcases hex with h | h
        · exact h
        · cases h
      have ha : c.adhoccounting = false := by
        have hm' : c.adhoccountmodels = false := by simpa using hm
        simpa [Cfg.exc, hm'] using hexc
      have hem : c.exactModels = true := by simp [Cfg.exactModels, hexc]
      have ⟨hag, _, _, _⟩ :=
        memoCN_spec c.exactModels fs.base inv.wf.table (t+1) fs.cnt t inv.tab.cnt ht (Nat.lt_succ_self _)
      rw [hem] at hag
      rw [CN.agree_true hag]
      exact ⟨by simp only [p1, p2], by trivial, memo_inv inv ha t ht⟩
    | false =>
      simp only [Bool.false_eq_true, if_false]
      exact ⟨by simp only [p1, p2], by trivial, inv⟩

/-- the documented exception: with `adhoccounting` but without `adhoccountmodels`, on a store
built by operations only, memoised `models` answers (0, 0) for every inner node (the cache
entry `node` wrote has model components 0) and leaves the store alone -/
theorem modelsC_exception (c : Cfg) (fs : FStore) (t : Nat) (inv : FInv c true fs) (he : c.exc = true)
    (ht2 : 2 ≤ t) (ht : t < fs.base.nodes.size) :
    (modelsC c fs t true).1 = (0, 0) ∧ (modelsC c fs t true).2.cnt = fs.cnt := by
  have hm : c.adhoccountmodels = false := by
    simp only [Cfg.exc, Bool.and_eq_true, Bool.not_eq_true'] at he; exact he.2
  obtain ⟨r, hr, z1, z2⟩ := inv.tab.zero rfl he t ht2 ht
  unfold modelsC
  rw [hm]
  simp only [Bool.false_eq_true, if_false, if_true]
  rw [memoCN, if_neg (by omega), if_neg (by omega), hr]
  simp only [z1, z2, and_self]

/-- `max_depth` (repaired): cached = recursive = the depth component of the naive count -/
theorem maxDepthCfg_exact (c : Cfg) (z : Bool) (fs : FStore) (t : Nat) (inv : FInv c z fs)
    (ht : t < fs.base.nodes.size) : maxDepthCfg c fs t = (countF fs.base (t+1) t).2.2 := by
  have ⟨_, _, _, _, p⟩ := naive_proj fs.base t
  unfold maxDepthCfg
  by_cases ha : c.adhoccounting = true
  · rw [if_pos ha, (lookup_of_full inv ha t ht).2.2.1, p]
  · rw [if_neg ha, maxDepthC_exact c.exactModels fs.base inv.wf.table fs.cnt inv.tab.cnt (t+1) t ht (Nat.lt_succ_self _), p]

/-- `var_dependencies`: the maintained table = the recursive set -/
theorem varDepsC_exact (c : Cfg) (z : Bool) (fs : FStore) (t : Nat) (inv : FInv c z fs)
    (ht : t < fs.base.nodes.size) (x : Nat) : x ∈ varDepsC c fs t ↔ x ∈ depsOf fs.base t := by
  unfold varDepsC
  by_cases hv : c.variablelist = true
  · rw [if_pos hv]; exact (inv.tab.deps hv).2 t ht x
  · rw [if_neg hv]

#print axioms newC_inv
#print axioms fixImportC_inv
#print axioms pathsC_exact
#print axioms modelsC_exact
#print axioms modelsC_exception
#print axioms maxDepthCfg_exact
#print axioms varDepsC_exact
