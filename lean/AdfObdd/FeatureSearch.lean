import AdfObdd.FeatureSemantics
import AdfObdd.SearchModel
/-! C12, the semantics over the configured store — part 2: the queries the searches use
    (`paths(t, true)` through the `RefCell` count cache, `var_dependencies(..).contains(..)`,
    the two impacts, `interpretations`), the counting search `stable_count_optimisation_heu_a/b`
    under a feature set (`countAllC`) and its simulation by the executed model `countAll`.

    A query may fill the count cache (without `adhoccounting`), so under a feature set the
    heuristic comparators, `min_by`, `pick` and `goal` thread the store (`minByM`, `GK.searchM`);
    the simulation theorems compare these state-threading routines directly with the pure ones of
    the reference model. -/

/-! ### node-table congruence of the pure queries -/

theorem pathsF_nodes {s s' : Store} (h : s.nodes = s'.nodes) : ∀ (fuel t : Nat), pathsF s fuel t = pathsF s' fuel t := by
  intro fuel
  induction fuel with
  | zero => intro t; rfl
  | succ f ih => intro t; unfold pathsF; simp only [h, ih]

theorem depsF_nodes {s s' : Store} (h : s.nodes = s'.nodes) : ∀ (fuel t : Nat), depsF s fuel t = depsF s' fuel t := by
  intro fuel
  induction fuel with
  | zero => intro t; rfl
  | succ f ih => intro t; unfold depsF; simp only [h, ih]

theorem cubesF_nodes {s s' : Store} (h : s.nodes = s'.nodes) : ∀ (fuel t : Nat) (goal : Bool) (gv : Nat) (neg pos : List Nat),
    cubesF s fuel t goal gv neg pos = cubesF s' fuel t goal gv neg pos := by
  intro fuel
  induction fuel with
  | zero => intros; rfl
  | succ f ih => intro t goal gv neg pos; unfold cubesF; simp only [h, ih]

theorem paths_oob (s : Store) (t : Nat) (h2 : 2 ≤ s.nodes.size) (h : s.nodes.size ≤ t) : paths s t = (0, 0) := by
  unfold paths pathsF
  rw [if_neg (by omega), if_neg (by omega)]
  simp only [Array.getElem?_eq_none h]

theorem depsOf_oob (s : Store) (t : Nat) (h : s.nodes.size ≤ t) : depsOf s t = [] := by
  unfold depsOf depsF
  split
  · rfl
  · simp only [Array.getElem?_eq_none h]

/-! ### the queries under a feature set -/

/-- `self.bdd.paths(t, true)` -/
def pathsQ (c : Cfg) (fs : FStore) (t : Nat) : (Nat × Nat) × FStore := pathsC c fs t true
/-- `self.bdd.var_dependencies(t).contains(&Var(v))` -/
def depsHasC (c : Cfg) (fs : FStore) (t v : Nat) : Bool := (varDepsC c fs t).contains v
/-- `Bdd::passive_var_impact` -/
def passiveC (c : Cfg) (fs : FStore) (v : Nat) (interp : List Nat) : Nat :=
  (interp.filter (fun t => depsHasC c fs t v)).length
/-- `Bdd::active_var_impact` -/
def activeC (c : Cfg) (fs : FStore) (v : Nat) (interp : List Nat) : Nat :=
  ((List.range interp.length).filter (fun i => depsHasC c fs (interp.getD v 0) i)).length
/-- `self.bdd.paths(t, true).minimum()` -/
def minPathsC (c : Cfg) (fs : FStore) (t : Nat) : Nat × FStore :=
  let p := pathsQ c fs t; (min p.1.1 p.1.2, p.2)
/-- `Bdd::interpretations(t, goal, gv, &[], &[])` (no feature split in its body) -/
def cubesC (fs : FStore) (t : Nat) (goal : Bool) (gv : Nat) : List PCube := cubesF fs.base (t+1) t goal gv [] []

theorem pathsC_pres {c : Cfg} {P : FStore → Prop} (st : Stable c P) (fs : FStore) (t : Nat) (memo : Bool) (h : P fs) :
    P (pathsC c fs t memo).2 := by
  unfold pathsC
  by_cases ha : c.adhoccounting = true
  · rw [if_pos ha]; exact h
  · rw [if_neg ha]
    cases memo with
    | true => simp only [if_true]; exact st.cnt (by simpa using ha) fs _ h
    | false => simp only [Bool.false_eq_true, if_false]; exact h

/-- `paths`, every handle: same answer, relation kept (the cache may have been filled) -/
theorem pathsQ_rel {c : Cfg} {z : Bool} {P : FStore → Prop} (st : Stable c P) {fs : FStore} {s : Store}
    (h : RelP c z P fs s) (t : Nat) :
    (pathsQ c fs t).1 = paths s t ∧ RelP c z P (pathsQ c fs t).2 s := by
  have r := h.1
  have hp : paths fs.base t = paths s t := pathsF_nodes r.nodes _ _
  by_cases ht : t < fs.base.nodes.size
  · have ⟨a, b, i⟩ := pathsC_exact c z fs t true r.inv ht
    unfold pathsQ
    exact ⟨by rw [a, hp], ⟨i, r.wf, by rw [b]; exact r.nodes, by rw [b]; exact r.ite⟩,
      pathsC_pres st fs t true h.2⟩
  · have hs : fs.base.nodes.size ≤ t := by omega
    have h2 := r.inv.wf.len
    have hnone : fs.cnt[t]? = none := by
      cases hc : fs.cnt[t]? with
      | none => rfl
      | some x => have := (r.inv.tab.cnt t x hc).1; omega
    have : pathsQ c fs t = ((0, 0), fs) := by
      unfold pathsQ pathsC
      by_cases ha : c.adhoccounting = true
      · rw [if_pos ha]; simp only [lookupCN, hnone, Option.getD_none, CN.zero]
      · rw [if_neg ha]
        simp only [if_true]
        have : memoCN fs.base (t+1) fs.cnt t = (CN.zero, fs.cnt) := by
          rw [memoCN, if_neg (by omega), if_neg (by omega)]
          simp only [hnone, Array.getElem?_eq_none hs]
        rw [this]
        rfl
    rw [this, ← hp, paths_oob fs.base t h2 hs]
    exact ⟨rfl, h⟩

theorem depsHasC_rel {c : Cfg} {z : Bool} {fs : FStore} {s : Store} (r : Rel c z fs s) (t v : Nat) :
    depsHasC c fs t v = (depsOf s t).contains v := by
  have hd : depsOf fs.base t = depsOf s t := depsF_nodes r.nodes _ _
  unfold depsHasC varDepsC
  by_cases hv : c.variablelist = true
  · rw [if_pos hv]
    have ok := r.inv.tab.deps hv
    by_cases ht : t < fs.base.nodes.size
    · rw [DepsOK_contains ok t v ht, hd]
    · have hs : fs.base.nodes.size ≤ t := by omega
      rw [← hd, depsOf_oob fs.base t hs]
      have : fs.deps.getD t [] = [] := by
        have := ok.1
        simp [Array.getD, show ¬ t < fs.deps.size by omega]
      rw [this]
  · rw [if_neg hv, hd]

theorem passiveC_rel {c : Cfg} {z : Bool} {fs : FStore} {s : Store} (r : Rel c z fs s) (v : Nat) (interp : List Nat) :
    passiveC c fs v interp = passive s v interp := by
  unfold passiveC passive
  simp only [depsHasC_rel r]

theorem activeC_rel {c : Cfg} {z : Bool} {fs : FStore} {s : Store} (r : Rel c z fs s) (v : Nat) (interp : List Nat) :
    activeC c fs v interp = active s v interp := by
  unfold activeC active
  simp only [depsHasC_rel r]

theorem cubesC_rel {c : Cfg} {z : Bool} {fs : FStore} {s : Store} (r : Rel c z fs s) (t : Nat) (goal : Bool) (gv : Nat) :
    cubesC fs t goal gv = cubesOf s t goal gv := cubesF_nodes r.nodes _ _ _ _ _ _

theorem minPathsC_rel {c : Cfg} {z : Bool} {P : FStore → Prop} (st : Stable c P) {fs : FStore} {s : Store}
    (h : RelP c z P fs s) (t : Nat) :
    (minPathsC c fs t).1 = minPaths s t ∧ RelP c z P (minPathsC c fs t).2 s := by
  have ⟨a, b⟩ := pathsQ_rel st h t
  unfold minPathsC minPaths
  simp only [a]
  exact ⟨trivial, b⟩

/-! ### `min_by` with a comparator that threads a state -/

section
variable {S S' : Type}

/-- `Iterator::min_by` (first minimum), the comparator may change the state -/
def minByM (cmp : S → (Nat × Nat) → (Nat × Nat) → Ordering × S) : S → List (Nat × Nat) → Option (Nat × Nat) × S
  | s, [] => (none, s)
  | s, x :: xs =>
    let r := xs.foldl (fun (m : (Nat × Nat) × S) y => let c := cmp m.2 m.1 y; (if c.1 == .gt then y else m.1, c.2)) (x, s)
    (some r.1, r.2)

theorem minByM_sim {R : S → S' → Prop} (cmpM : S → (Nat × Nat) → (Nat × Nat) → Ordering × S)
    (cmp : (Nat × Nat) → (Nat × Nat) → Ordering) (s' : S')
    (h : ∀ s l r, R s s' → (cmpM s l r).1 = cmp l r ∧ R (cmpM s l r).2 s') :
    ∀ (xs : List (Nat × Nat)) (s : S), R s s' → (minByM cmpM s xs).1 = minBy cmp xs ∧ R (minByM cmpM s xs).2 s' := by
  have key : ∀ (xs : List (Nat × Nat)) (m : (Nat × Nat) × S), R m.2 s' →
      (xs.foldl (fun (m : (Nat × Nat) × S) y => let c := cmpM m.2 m.1 y; (if c.1 == .gt then y else m.1, c.2)) m).1 =
        xs.foldl (fun m y => if cmp m y == .gt then y else m) m.1 ∧
      R (xs.foldl (fun (m : (Nat × Nat) × S) y => let c := cmpM m.2 m.1 y; (if c.1 == .gt then y else m.1, c.2)) m).2 s' := by
    intro xs
    induction xs with
    | nil => intro m hm; exact ⟨rfl, hm⟩
    | cons y ys ih =>
      intro m hm
      have ⟨a, b⟩ := h m.2 m.1 y hm
      simp only [List.foldl_cons]
      have := ih (if (cmpM m.2 m.1 y).1 == .gt then y else m.1, (cmpM m.2 m.1 y).2) b
      rw [a] at this
      simp only at this
      rw [a]
      exact this
  intro xs s hs
  cases xs with
  | nil => exact ⟨rfl, hs⟩
  | cons x xs =>
    have ⟨a, b⟩ := key xs (x, s) hs
    unfold minByM minBy
    simp only
    exact ⟨by rw [a], b⟩
end

/-! ### the comparators of the counting search and of the MinMod heuristics -/

/-- `heu_max_imp_min_nacyc_impact_min_paths` -/
def heuAC (c : Cfg) (fs : FStore) (interp : List Nat) (l r : Nat × Nat) : Ordering × FStore :=
  match compare (passiveC c fs r.1 interp) (passiveC c fs l.1 interp) with
  | .eq => match compare (activeC c fs l.1 interp) (activeC c fs r.1 interp) with
    | .eq => let a := minPathsC c fs l.2; let b := minPathsC c a.2 r.2; (compare a.1 b.1, b.2)
    | o => (o, fs)
  | o => (o, fs)

/-- `heu_min_paths_max_imp` -/
def heuBC (c : Cfg) (fs : FStore) (interp : List Nat) (l r : Nat × Nat) : Ordering × FStore :=
  let a := minPathsC c fs l.2; let b := minPathsC c a.2 r.2
  match compare a.1 b.1 with
  | .eq => (compare (passiveC c b.2 r.1 interp) (passiveC c b.2 l.1 interp), b.2)
  | o => (o, b.2)

/-- comparator of `heu_mc_minpaths_maxvarimp` -/
def cmpMinPathsImpC (c : Cfg) (fs : FStore) (interp : List Nat) (l r : Nat × Nat) : Ordering × FStore :=
  let a := minPathsC c fs l.2; let b := minPathsC c a.2 r.2
  match compare a.1 b.1 with
  | .eq => (compare (passiveC c b.2 l.1 interp) (passiveC c b.2 r.1 interp), b.2)
  | o => (o, b.2)

/-- comparator of `heu_mc_maxvarimp_minpaths` -/
def cmpImpMinPathsC (c : Cfg) (fs : FStore) (interp : List Nat) (l r : Nat × Nat) : Ordering × FStore :=
  match compare (passiveC c fs l.1 interp) (passiveC c fs r.1 interp) with
  | .eq => let a := minPathsC c fs l.2; let b := minPathsC c a.2 r.2; (compare a.1 b.1, b.2)
  | o => (o, fs)

section
variable {c : Cfg} {z : Bool} {P : FStore → Prop} (st : Stable c P) {fs : FStore} {s : Store}
include st

theorem heuAC_rel (h : RelP c z P fs s) (interp : List Nat) (l r : Nat × Nat) :
    (heuAC c fs interp l r).1 = heuA s interp l r ∧ RelP c z P (heuAC c fs interp l r).2 s := by
  have ⟨a1, b1⟩ := minPathsC_rel st h l.2
  have ⟨a2, b2⟩ := minPathsC_rel st b1 r.2
  unfold heuAC heuA
  rw [passiveC_rel h.1, passiveC_rel h.1, activeC_rel h.1, activeC_rel h.1]
  cases compare (passive s r.1 interp) (passive s l.1 interp) with
  | eq =>
    cases compare (active s l.1 interp) (active s r.1 interp) with
    | eq => simp only [a1, a2]; exact ⟨trivial, b2⟩
    | lt => exact ⟨rfl, h⟩
    | gt => exact ⟨rfl, h⟩
  | lt => exact ⟨rfl, h⟩
  | gt => exact ⟨rfl, h⟩

theorem heuBC_rel (h : RelP c z P fs s) (interp : List Nat) (l r : Nat × Nat) :
    (heuBC c fs interp l r).1 = heuB s interp l r ∧ RelP c z P (heuBC c fs interp l r).2 s := by
  have ⟨a1, b1⟩ := minPathsC_rel st h l.2
  have ⟨a2, b2⟩ := minPathsC_rel st b1 r.2
  unfold heuBC heuB
  simp only [a1, a2, passiveC_rel b2.1]
  cases compare (minPaths s l.2) (minPaths s r.2) with
  | eq => exact ⟨rfl, b2⟩
  | lt => exact ⟨rfl, b2⟩
  | gt => exact ⟨rfl, b2⟩

theorem cmpMinPathsImpC_rel (h : RelP c z P fs s) (interp : List Nat) (l r : Nat × Nat) :
    (cmpMinPathsImpC c fs interp l r).1 = SM.cmpMinPathsImp s interp l r ∧
    RelP c z P (cmpMinPathsImpC c fs interp l r).2 s := by
  have ⟨a1, b1⟩ := minPathsC_rel st h l.2
  have ⟨a2, b2⟩ := minPathsC_rel st b1 r.2
  unfold cmpMinPathsImpC SM.cmpMinPathsImp
  simp only [a1, a2, passiveC_rel b2.1]
  cases compare (minPaths s l.2) (minPaths s r.2) with
  | eq => exact ⟨rfl, b2⟩
  | lt => exact ⟨rfl, b2⟩
  | gt => exact ⟨rfl, b2⟩

theorem cmpImpMinPathsC_rel (h : RelP c z P fs s) (interp : List Nat) (l r : Nat × Nat) :
    (cmpImpMinPathsC c fs interp l r).1 = SM.cmpImpMinPaths s interp l r ∧
    RelP c z P (cmpImpMinPathsC c fs interp l r).2 s := by
  have ⟨a1, b1⟩ := minPathsC_rel st h l.2
  have ⟨a2, b2⟩ := minPathsC_rel st b1 r.2
  unfold cmpImpMinPathsC SM.cmpImpMinPaths
  rw [passiveC_rel h.1, passiveC_rel h.1]
  cases compare (passive s l.1 interp) (passive s r.1 interp) with
  | eq => simp only [a1, a2]; exact ⟨trivial, b2⟩
  | lt => exact ⟨rfl, h⟩
  | gt => exact ⟨rfl, h⟩
end

/-! ### the counting-guided machine with `pick` and `goal` threading the store -/

namespace GK
variable {S S' C K O : Type}

structure CParamsM (S C K O : Type) where
  pick : S → C → Option Nat × S
  goal : S → C → Nat → Bool × S
  cubes : S → C → Nat → Bool → List K
  cubeStep : S → C → Nat → Bool → K → S × Option C
  flipStep : S → C → Nat → Bool → S × Option C
  leaf : S → C → S × List O

def cubeLoopM (P : CParamsM S C K O) (rec : S → C → S × List O) (c : C) (idx : Nat) (g : Bool) :
    List K → S → S × List O
  | [], s => (s, [])
  | cu :: cus, s =>
    let r := P.cubeStep s c idx g cu
    let here := match r.2 with
      | some c' => rec r.1 c'
      | none => (r.1, [])
    let rest := cubeLoopM P rec c idx g cus here.1
    (rest.1, here.2 ++ rest.2)

/-- `two_val_model_counts_logic`, in the order of the code: heuristic (`min_by`), `paths(ac, true)`,
`interpretations`, the cube loop, the flip -/
def searchM (P : CParamsM S C K O) : Nat → S → C → S × List O
  | 0, s, _ => (s, [])
  | fuel+1, s, c =>
    let p := P.pick s c
    match p.1 with
    | none => P.leaf p.2 c
    | some idx =>
      let g := P.goal p.2 c idx
      let r1 := cubeLoopM P (fun s' c' => searchM P fuel s' c') c idx g.1 (P.cubes g.2 c idx g.1) g.2
      let f := P.flipStep r1.1 c idx g.1
      match f.2 with
      | some c' => let r2 := searchM P fuel f.1 c'; (r2.1, r1.2 ++ r2.2)
      | none => (f.1, r1.2)

/-- field by field simulation of a state-threading parameter set by a pure one -/
structure PSim (PM : CParamsM S C K O) (P : CParams S' C K O) (R : S → S' → Prop) : Prop where
  pick : ∀ s s' c, R s s' → (PM.pick s c).1 = P.pick s' c ∧ R (PM.pick s c).2 s'
  goal : ∀ s s' c idx, R s s' → (PM.goal s c idx).1 = P.goal s' c idx ∧ R (PM.goal s c idx).2 s'
  cubes : ∀ s s' c idx g, R s s' → PM.cubes s c idx g = P.cubes s' c idx g
  cubeStep : ∀ s s' c idx g cu, R s s' → (PM.cubeStep s c idx g cu).2 = (P.cubeStep s' c idx g cu).2 ∧
    R (PM.cubeStep s c idx g cu).1 (P.cubeStep s' c idx g cu).1
  flipStep : ∀ s s' c idx g, R s s' → (PM.flipStep s c idx g).2 = (P.flipStep s' c idx g).2 ∧
    R (PM.flipStep s c idx g).1 (P.flipStep s' c idx g).1
  leaf : ∀ s s' c, R s s' → (PM.leaf s c).2 = (P.leaf s' c).2 ∧ R (PM.leaf s c).1 (P.leaf s' c).1

theorem cubeLoopM_sim {PM : CParamsM S C K O} {P : CParams S' C K O} {R : S → S' → Prop} (ps : PSim PM P R)
    (rec : S → C → S × List O) (rec' : S' → C → S' × List O)
    (hrec : ∀ s s' c, R s s' → (rec s c).2 = (rec' s' c).2 ∧ R (rec s c).1 (rec' s' c).1)
    (c : C) (idx : Nat) (g : Bool) : ∀ (cus : List K) (s : S) (s' : S'), R s s' →
    (cubeLoopM PM rec c idx g cus s).2 = (cubeLoop P rec' c idx g cus s').2 ∧
    R (cubeLoopM PM rec c idx g cus s).1 (cubeLoop P rec' c idx g cus s').1 := by
  intro cus
  induction cus with
  | nil => intro s s' h; exact ⟨rfl, h⟩
  | cons cu cus ih =>
    intro s s' h
    have ⟨q, r⟩ := ps.cubeStep s s' c idx g cu h
    unfold cubeLoopM cubeLoop
    simp only
    rw [← q]
    cases (PM.cubeStep s c idx g cu).2 with
    | none =>
      simp only
      have ⟨q2, r2⟩ := ih _ _ r
      exact ⟨by rw [q2], r2⟩
    | some c' =>
      simp only
      have ⟨q1, r1⟩ := hrec _ _ c' r
      have ⟨q2, r2⟩ := ih _ _ r1
      exact ⟨by rw [q1, q2], r2⟩

theorem searchM_sim {PM : CParamsM S C K O} {P : CParams S' C K O} {R : S → S' → Prop} (ps : PSim PM P R) :
    ∀ (fuel : Nat) (s : S) (s' : S') (c : C), R s s' →
    (searchM PM fuel s c).2 = (search P fuel s' c).2 ∧ R (searchM PM fuel s c).1 (search P fuel s' c).1 := by
  intro fuel
  induction fuel with
  | zero => intro s s' c h; exact ⟨rfl, h⟩
  | succ f ih =>
    intro s s' c h
    have ⟨qp, rp⟩ := ps.pick s s' c h
    unfold searchM search
    simp only
    rw [← qp]
    cases (PM.pick s c).1 with
    | none => exact ps.leaf _ _ c rp
    | some idx =>
      simp only
      have ⟨qg, rg⟩ := ps.goal _ s' c idx rp
      have qc := ps.cubes _ s' c idx (PM.goal (PM.pick s c).2 c idx).1 rg
      have ⟨q1, r1⟩ := cubeLoopM_sim ps (fun s' c' => searchM PM f s' c') (fun s' c' => search P f s' c')
        (fun a a' c' ha => ih a a' c' ha) c idx (PM.goal (PM.pick s c).2 c idx).1
        (PM.cubes (PM.goal (PM.pick s c).2 c idx).2 c idx (PM.goal (PM.pick s c).2 c idx).1) _ s' rg
      rw [qc, qg] at q1 r1
      have ⟨qf, rf⟩ := ps.flipStep _ _ c idx (P.goal s' c idx) r1
      rw [qc, qg, ← qf]
      cases (PM.flipStep _ c idx (P.goal s' c idx)).2 with
      | none => exact ⟨q1, rf⟩
      | some c' =>
        simp only
        have ⟨q2, r2⟩ := ih _ _ c' rf
        exact ⟨by rw [q1, q2], r2⟩
end GK

/-! ### store-threading helpers, generic over the restriction algebra, against the executed ones -/

section
variable {S : Type} (A : RA S Nat)

def mapRestrictG (s : S) (v : Nat) (b : Bool) : List Nat → S × List Nat
  | [] => (s, [])
  | t :: ts => let r := A.restrict s t v b; let m := mapRestrictG r.1 v b ts; (m.1, r.2 :: m.2)

/-- `apply_interpretation(ac, interp)` -/
def applyVecG (s : S) (interp : List Nat) : List Nat → S × List Nat
  | [] => (s, [])
  | a :: acs => let r := restrictBy A s a 0 interp; let m := applyVecG r.1 interp acs; (m.1, r.2 :: m.2)

/-- `stability_check` -/
def stabilityCheckG (s : S) (n : Nat) (ac cand : List Nat) : S × Bool :=
  let red := mapFalseG A s cand ac
  let grd := groundedLoop A (n + 1) red.1 red.2
  (grd.1, (grd.2.zip cand).all (fun (a, b) => sameInfo a b))

def stableFilterG (n : Nat) (ac : List Nat) (cands : List (List Nat)) (s : S) : S × List (List Nat) :=
  cands.foldl (fun (acc : S × List (List Nat)) v =>
      let chk := stabilityCheckG A acc.1 n ac v
      (chk.1, if chk.2 then acc.2 ++ [v] else acc.2)) (s, [])
end

section
variable {S : Type} {A : RA S Nat} {R : S → Store → Prop} (sim : RASim A StoreRA R)
include sim

theorem mapRestrictG_sim (v : Nat) (b : Bool) : ∀ (ts : List Nat) (s : S) (s' : Store), R s s' →
    (mapRestrictG A s v b ts).2 = (mapRestrict s' v b ts).2 ∧ R (mapRestrictG A s v b ts).1 (mapRestrict s' v b ts).1 := by
  intro ts
  induction ts with
  | nil => intro s s' h; exact ⟨rfl, h⟩
  | cons t ts ih =>
    intro s s' h
    have ⟨q0, r0⟩ := sim.restrict s s' t v b h
    have ⟨q1, r1⟩ := ih _ _ r0
    unfold mapRestrictG mapRestrict
    exact ⟨by simp only; rw [q1]; congr 1, r1⟩

theorem applyVecG_sim (interp : List Nat) : ∀ (acs : List Nat) (s : S) (s' : Store), R s s' →
    (applyVecG A s interp acs).2 = (applyVec s' interp acs).2 ∧ R (applyVecG A s interp acs).1 (applyVec s' interp acs).1 := by
  intro acs
  induction acs with
  | nil => intro s s' h; exact ⟨rfl, h⟩
  | cons a acs ih =>
    intro s s' h
    have ⟨q0, r0⟩ := restrictBy_sim sim interp 0 s s' a h
    have ⟨q1, r1⟩ := ih _ _ r0
    unfold applyVecG applyVec
    exact ⟨by simp only; rw [q0, q1], r1⟩

omit sim in
theorem applyInterp_eq_applyVec (interp : List Nat) : ∀ (acs : List Nat) (s : Store),
    applyInterp s interp acs = applyVec s interp acs := by
  intro acs
  induction acs with
  | nil => intro s; rfl
  | cons a acs ih => intro s; unfold applyInterp applyVec; simp only [ih]

theorem mapFalseG_sim' (cand : List Nat) (acs : List Nat) (s : S) (s' : Store) (h : R s s') :
    (mapFalseG A s cand acs).2 = (mapFalse s' cand acs).2 ∧ R (mapFalseG A s cand acs).1 (mapFalse s' cand acs).1 := by
  rw [← mapFalseG_store]; exact mapFalseG_sim sim cand acs s s' h

theorem stabilityCheckG_sim (n : Nat) (ac cand : List Nat) (s : S) (s' : Store) (h : R s s') :
    (stabilityCheckG A s n ac cand).2 = (stabilityCheckC s' n ac cand).2 ∧
    R (stabilityCheckG A s n ac cand).1 (stabilityCheckC s' n ac cand).1 := by
  have ⟨q1, r1⟩ := mapFalseG_sim' sim cand ac s s' h
  have ⟨q2, r2⟩ := groundedLoop_sim sim (n+1) _ _ (mapFalseG A s cand ac).2 r1
  unfold stabilityCheckG stabilityCheckC
  simp only
  rw [← q1]
  exact ⟨by rw [q2], r2⟩

theorem stableFilterG_sim (n : Nat) (ac : List Nat) (cands : List (List Nat)) (s : S) (s' : Store) (h : R s s') :
    (stableFilterG A n ac cands s).2 = (stableFilter n ac cands s').2 ∧
    R (stableFilterG A n ac cands s).1 (stableFilter n ac cands s').1 := by
  unfold stableFilterG stableFilter
  exact foldl_sim (R := R) _ _
    (by
      intro a a' x ra qa
      have ⟨q1, r1⟩ := stabilityCheckG_sim sim n ac x a.1 a'.1 ra
      simp only
      rw [q1, qa]
      exact ⟨rfl, r1⟩)
    _ _ _ h rfl
end

/-! ### `stable_count_optimisation_heu_a/b` under a feature set -/

/-- the steps of `two_val_model_counts_logic` under the feature set `c` (repaired body) -/
def countParamsC (c : Cfg) (ac : List Nat) (useA : Bool) : GK.CParamsM FStore CState PCube (List Nat) where
  pick fs cs :=
    let r := minByM (fun fs l r => if useA then heuAC c fs cs.1 l r else heuBC c fs cs.1 l r) fs (candidates cs)
    (r.1.map (·.1), r.2)
  goal fs cs idx := let p := pathsQ c fs (cs.1.getD idx 0); (!moreModels p.1, p.2)
  cubes fs cs idx g := cubesC fs (cs.1.getD idx 0) g idx
  cubeStep fs cs idx g cu :=
    match applyCube cs.1 cs.2 cu with
    | none => (fs, none)
    | some ni =>
      let ni := ni.set idx (if g then 1 else 0)
      let upd := applyVecG (CfgRA c) fs ni ni
      (upd.1, if consistentWith upd.2 cs.2 then some (upd.2, cs.2) else none)
  flipStep fs cs idx g :=
    let ni := mapRestrictG (CfgRA c) fs idx (!g) cs.1
    let upd := applyVecG (CfgRA c) ni.1 ni.2 ni.2
    let nidx := ni.2.getD idx 0
    if noInfIncons nidx (upd.2.getD idx 0) then
      let other := if g then 0 else 1
      if noInfIncons nidx other then (upd.1, some (upd.2.set idx other, cs.2.set idx nidx))
      else (upd.1, none)
    else (upd.1, none)
  leaf fs cs :=
    let concluded := cs.1.zipIdx.map (fun (t, i) => if !isTV t then cs.2.getD i 2 else t)
    let r := applyVecG (CfgRA c) fs concluded ac
    if consistentWith r.2 concluded then (r.1, [r.2]) else (r.1, [cs.1])

/-- `stable_count_optimisation_heu_a/b` under the feature set `c` -/
def countAllC (c : Cfg) (fs : FStore) (n : Nat) (ac : List Nat) (useA : Bool) : FStore × List (List Nat) :=
  let g := groundedLoop (CfgRA c) (n + 1) fs ac
  let r := GK.searchM (countParamsC c ac useA) (n + 1) g.1 (g.2, List.replicate n 2)
  stableFilterG (CfgRA c) n ac r.2 r.1

theorem countParamsC_sim (c : Cfg) (z : Bool) (P : FStore → Prop) (st : Stable c P) (ac : List Nat) (useA : Bool) :
    GK.PSim (countParamsC c ac useA) (countParams ac useA) (RelP c z P) where
  pick := fun fs s cs h => by
    have := minByM_sim (R := RelP c z P)
      (fun fs l r => if useA then heuAC c fs cs.1 l r else heuBC c fs cs.1 l r)
      (if useA then heuA s cs.1 else heuB s cs.1) s
      (by
        intro fs' l r h'
        cases useA with
        | true => exact heuAC_rel st h' cs.1 l r
        | false => exact heuBC_rel st h' cs.1 l r)
      (candidates cs) fs h
    exact ⟨by show Option.map _ _ = Option.map _ _; rw [this.1], this.2⟩
  goal := fun fs s cs idx h => by
    have ⟨a, b⟩ := pathsQ_rel st h (cs.1.getD idx 0)
    exact ⟨by show (!moreModels _) = (!moreModels _); rw [a], b⟩
  cubes := fun fs s cs idx g h => cubesC_rel h.1 _ _ _
  cubeStep := fun fs s cs idx g cu h => by
    show (match applyCube cs.1 cs.2 cu with
      | none => (fs, none)
      | some ni =>
        let ni := ni.set idx (if g then 1 else 0)
        let upd := applyVecG (CfgRA c) fs ni ni
        (upd.1, if consistentWith upd.2 cs.2 then some (upd.2, cs.2) else none)).2 =
      (match applyCube cs.1 cs.2 cu with
      | none => (s, none)
      | some ni =>
        let ni := ni.set idx (if g then 1 else 0)
        let upd := applyVec s ni ni
        (upd.1, if consistentWith upd.2 cs.2 then some (upd.2, cs.2) else none)).2 ∧
      RelP c z P (match applyCube cs.1 cs.2 cu with
      | none => (fs, none)
      | some ni =>
        let ni := ni.set idx (if g then 1 else 0)
        let upd := applyVecG (CfgRA c) fs ni ni
        (upd.1, if consistentWith upd.2 cs.2 then some (upd.2, cs.2) else none)).1
      (match applyCube cs.1 cs.2 cu with
      | none => (s, none)
      | some ni =>
        let ni := ni.set idx (if g then 1 else 0)
        let upd := applyVec s ni ni
        (upd.1, if consistentWith upd.2 cs.2 then some (upd.2, cs.2) else none)).1
    cases applyCube cs.1 cs.2 cu with
    | none => exact ⟨rfl, h⟩
    | some ni =>
      simp only
      have ⟨q, r⟩ := applyVecG_sim (cfg_sim c z P st) (ni.set idx (if g then 1 else 0)) (ni.set idx (if g then 1 else 0)) fs s h
      rw [q]; exact ⟨rfl, r⟩
  flipStep := fun fs s cs idx g h => by
    have ⟨q0, r0⟩ := mapRestrictG_sim (cfg_sim c z P st) idx (!g) cs.1 fs s h
    have ⟨q1, r1⟩ := applyVecG_sim (cfg_sim c z P st) (mapRestrictG (CfgRA c) fs idx (!g) cs.1).2
      (mapRestrictG (CfgRA c) fs idx (!g) cs.1).2 _ _ r0
    rw [q0] at q1 r1
    show (let ni := mapRestrictG (CfgRA c) fs idx (!g) cs.1
      let upd := applyVecG (CfgRA c) ni.1 ni.2 ni.2
      let nidx := ni.2.getD idx 0
      if noInfIncons nidx (upd.2.getD idx 0) then
        let other := if g then 0 else 1
        if noInfIncons nidx other then (upd.1, some (upd.2.set idx other, cs.2.set idx nidx))
        else (upd.1, none)
      else (upd.1, none)).2 =
      (let ni := mapRestrict s idx (!g) cs.1
      let upd := applyVec ni.1 ni.2 ni.2
      let nidx := ni.2.getD idx 0
      if noInfIncons nidx (upd.2.getD idx 0) then
        let other := if g then 0 else 1
        if noInfIncons nidx other then (upd.1, some (upd.2.set idx other, cs.2.set idx nidx))
        else (upd.1, none)
      else (upd.1, none)).2 ∧
      RelP c z P (let ni := mapRestrictG (CfgRA c) fs idx (!g) cs.1
      let upd := applyVecG (CfgRA c) ni.1 ni.2 ni.2
      let nidx := ni.2.getD idx 0
      if noInfIncons nidx (upd.2.getD idx 0) then
        let other := if g then 0 else 1
        if noInfIncons nidx other then (upd.1, some (upd.2.set idx other, cs.2.set idx nidx))
        else (upd.1, none)
      else (upd.1, none)).1
      (let ni := mapRestrict s idx (!g) cs.1
      let upd := applyVec ni.1 ni.2 ni.2
      let nidx := ni.2.getD idx 0
      if noInfIncons nidx (upd.2.getD idx 0) then
        let other := if g then 0 else 1
        if noInfIncons nidx other then (upd.1, some (upd.2.set idx other, cs.2.set idx nidx))
        else (upd.1, none)
      else (upd.1, none)).1
    simp only [q0, q1]
    repeat' split
    all_goals exact ⟨rfl, r1⟩
  leaf := fun fs s cs h => by
    have ⟨q, r⟩ := applyVecG_sim (cfg_sim c z P st)
      (cs.1.zipIdx.map (fun (t, i) => if !isTV t then cs.2.getD i 2 else t)) ac fs s h
    show (let concluded := cs.1.zipIdx.map (fun (t, i) => if !isTV t then cs.2.getD i 2 else t)
      let r := applyVecG (CfgRA c) fs concluded ac
      if consistentWith r.2 concluded then (r.1, [r.2]) else (r.1, [cs.1])).2 =
      (let concluded := cs.1.zipIdx.map (fun (t, i) => if !isTV t then cs.2.getD i 2 else t)
      let r := applyVec s concluded ac
      if consistentWith r.2 concluded then (r.1, [r.2]) else (r.1, [cs.1])).2 ∧
      RelP c z P (let concluded := cs.1.zipIdx.map (fun (t, i) => if !isTV t then cs.2.getD i 2 else t)
      let r := applyVecG (CfgRA c) fs concluded ac
      if consistentWith r.2 concluded then (r.1, [r.2]) else (r.1, [cs.1])).1
      (let concluded := cs.1.zipIdx.map (fun (t, i) => if !isTV t then cs.2.getD i 2 else t)
      let r := applyVec s concluded ac
      if consistentWith r.2 concluded then (r.1, [r.2]) else (r.1, [cs.1])).1
    simp only [q]
    split
    · exact ⟨rfl, r⟩
    · exact ⟨rfl, r⟩

/-- the counting search under any feature set returns the vectors (handles included) of the
executed reference model, and the stores stay related -/
theorem countAllC_sim (c : Cfg) (z : Bool) (P : FStore → Prop) (st : Stable c P) (fs : FStore) (s : Store)
    (n : Nat) (ac : List Nat) (useA : Bool) (h : RelP c z P fs s) :
    (countAllC c fs n ac useA).2 = (countAll s n ac useA).2 ∧
    RelP c z P (countAllC c fs n ac useA).1 (countAll s n ac useA).1 := by
  have sim := cfg_sim c z P st
  have ⟨q0, r0⟩ := groundedLoop_sim sim (n+1) fs s ac h
  have ⟨q1, r1⟩ := GK.searchM_sim (countParamsC_sim c z P st ac useA) (n+1) _ _
    ((groundedLoop (CfgRA c) (n+1) fs ac).2, List.replicate n 2) r0
  unfold countAllC countAll countLogic
  simp only
  rw [← q0, ← q1]
  exact stableFilterG_sim sim n ac _ _ _ r1

#print axioms countAllC_sim
