import AdfObdd.Parser2

namespace ParserM
/-! prototype 31: the fact level of the parser — `all_consuming(many1(alt(statement, ac)))` —
    accepts every file of the documented format and returns the facts in file order -/

inductive Fact where
  | stmt (l : List Char)
  | ac (l : List Char) (f : Fml)
deriving DecidableEq

/-- `terminated(statement, terminated(tag("."), multispace0))` -/
def stmtP : Prs Fact := fun cs =>
  (tagL ['s'] cs).bind fun a => (tagL ['('] a.2).bind fun b => (alnum1 b.2).bind fun l =>
  (tagL [')'] l.2).bind fun c => (tagL ['.'] c.2).bind fun d => (ws0 d.2).bind fun e =>
  some (Fact.stmt l.1, e.2)

/-- `terminated(ac, terminated(tag("."), multispace0))` -/
def acP (fuel : Nat) : Prs Fact := fun cs =>
  (tagL ['a','c'] cs).bind fun a => (tagL ['('] a.2).bind fun b => (alnum1 b.2).bind fun l =>
  (commaP l.2).bind fun c => (formulaF fuel c.2).bind fun f => (tagL [')'] f.2).bind fun d =>
  (tagL ['.'] d.2).bind fun e => (ws0 e.2).bind fun g => some (Fact.ac l.1 f.1, g.2)

def factP (fuel : Nat) : Prs Fact := orElse stmtP (acP fuel)

/-- `many1` (the fuel only bounds the number of facts) -/
def many (p : Prs Fact) : Nat → Inp → List Fact × Inp
  | 0, cs => ([], cs)
  | k+1, cs => match p cs with
    | none => ([], cs)
    | some (x, r) => let m := many p k r; (x :: m.1, m.2)

/-- `all_consuming(many1(..))` -/
def parseFile (fuel : Nat) (cs : Inp) : Option (List Fact) :=
  match many (factP fuel) fuel cs with
  | ([], _) => none
  | (fs, []) => some fs
  | (_, _ :: _) => none

/-- the documented file format: facts, each followed by optional blanks -/
inductive DerFact : Fact → List Char → Prop
  | stmt (l w : List Char) : l ≠ [] → AllAlnum l → AllWs w →
      DerFact (Fact.stmt l) (['s','('] ++ l ++ [')','.'] ++ w)
  | ac (l : List Char) (f : Fml) (s w1 w2 w : List Char) : l ≠ [] → AllAlnum l → DerF f s →
      AllWs w1 → AllWs w2 → AllWs w →
      DerFact (Fact.ac l f) (['a','c','('] ++ l ++ w1 ++ [','] ++ w2 ++ s ++ [')','.'] ++ w)

inductive DerFile : List Fact → List Char → Prop
  | nil : DerFile [] []
  | cons (x : Fact) (xs : List Fact) (s t : List Char) : DerFact x s → DerFile xs t → DerFile (x :: xs) (s ++ t)

def Fact.size : Fact → Nat
  | .stmt _ => 1
  | .ac _ f => f.size + 1

/-- a file continues with a fact, i.e. with a non-blank character, or ends -/
theorem DerFile.head_not_ws {fs : List Fact} {t : List Char} (h : DerFile fs t) :
    ∀ c, t.head? = some c → isWs c = false := by
  intro c hc
  cases h with
  | nil => simp at hc
  | cons x xs s t' hx _ =>
    cases hx with
    | stmt l w _ _ _ => simp at hc; subst hc; decide
    | ac l f s' w1 w2 w _ _ _ _ _ _ => simp at hc; subst hc; decide

theorem goodRest_close2 (rest : List Char) : GoodRest ([')','.'] ++ rest) := by
  intro c hc; simp at hc; subst hc; exact ⟨by decide, by decide⟩

theorem stmtP_ok (l w t : List Char) (hne : l ≠ []) (hl : AllAlnum l) (hw : AllWs w)
    (ht : ∀ c, t.head? = some c → isWs c = false) :
    stmtP (['s','('] ++ l ++ [')','.'] ++ w ++ t) = some (Fact.stmt l, t) := by
  have hshape : ['s','('] ++ l ++ [')','.'] ++ w ++ t = ['s'] ++ (['('] ++ (l ++ ([')'] ++ (['.'] ++ (w ++ t))))) := by simp
  rw [hshape]
  unfold stmtP
  rw [tagL_append]; simp only [Option.bind]
  rw [tagL_append]; simp only
  rw [alnum1_label l _ hne hl (by intro c hc; simp at hc; subst hc; exact ⟨by decide, by decide⟩)]
  simp only
  rw [tagL_append]; simp only
  rw [tagL_append]; simp only
  unfold ws0
  simp only
  rw [dropWhile_ws w t hw ht]

theorem stmtP_none_ac (cs : List Char) : stmtP (['a','c','('] ++ cs) = none := by
  simp [stmtP, tagL]

theorem acP_ok (fuel : Nat) (l : List Char) (f : Fml) (s w1 w2 w t : List Char) (hne : l ≠ []) (hl : AllAlnum l)
    (hf : DerF f s) (h1 : AllWs w1) (h2 : AllWs w2) (hw : AllWs w) (hfuel : f.size < fuel)
    (ht : ∀ c, t.head? = some c → isWs c = false) :
    acP fuel (['a','c','('] ++ l ++ w1 ++ [','] ++ w2 ++ s ++ [')','.'] ++ w ++ t) = some (Fact.ac l f, t) := by
  have hshape : ['a','c','('] ++ l ++ w1 ++ [','] ++ w2 ++ s ++ [')','.'] ++ w ++ t =
      ['a','c'] ++ (['('] ++ (l ++ (w1 ++ [','] ++ w2 ++ (s ++ ([')'] ++ (['.'] ++ (w ++ t))))))) := by simp
  rw [hshape]
  unfold acP
  rw [tagL_append]; simp only [Option.bind]
  rw [tagL_append]; simp only
  rw [alnum1_label l _ hne hl (by rw [List.append_assoc]; exact goodRest_ws_comma w1 _ h1)]
  simp only
  rw [commaP_spec w1 w2 _ h1 h2 (hf.head_not_ws _)]
  simp only
  rw [formula_complete f s hf fuel _ hfuel (by
    intro c hc; simp at hc; subst hc; exact ⟨by decide, by decide⟩)]
  simp only
  rw [tagL_append]; simp only
  rw [tagL_append]; simp only
  unfold ws0
  simp only
  rw [dropWhile_ws w t hw ht]

theorem factP_ok (fuel : Nat) (x : Fact) (s t : List Char) (hx : DerFact x s) (hfuel : x.size < fuel + 1)
    (ht : ∀ c, t.head? = some c → isWs c = false) : factP fuel (s ++ t) = some (x, t) := by
  unfold factP
  cases hx with
  | stmt l w hne hl hw =>
    apply orElse_some_left
    exact stmtP_ok l w t hne hl hw ht
  | ac l f s' w1 w2 w hne hl hf h1 h2 hw =>
    have hnone : stmtP (['a','c','('] ++ l ++ w1 ++ [','] ++ w2 ++ s' ++ [')','.'] ++ w ++ t) = none := by
      have : ['a','c','('] ++ l ++ w1 ++ [','] ++ w2 ++ s' ++ [')','.'] ++ w ++ t =
          ['a','c','('] ++ (l ++ w1 ++ [','] ++ w2 ++ s' ++ [')','.'] ++ w ++ t) := by simp
      rw [this]; exact stmtP_none_ac _
    rw [orElse_none_left _ _ _ hnone]
    exact acP_ok fuel l f s' w1 w2 w t hne hl hf h1 h2 hw (by simp [Fact.size] at hfuel; omega) ht

theorem factP_nil (fuel : Nat) : factP fuel [] = none := by
  simp [factP, orElse, stmtP, acP, tagL]

/-- every documented file is read as its facts, in order, with nothing left over -/
theorem many_ok (fuel : Nat) : ∀ (fs : List Fact) (t : List Char), DerFile fs t → ∀ k, fs.length < k →
    (∀ x ∈ fs, x.size < fuel + 1) → many (factP fuel) k t = (fs, []) := by
  intro fs t h
  induction h with
  | nil =>
    intro k hk _
    cases k with
    | zero => omega
    | succ k => simp [many, factP_nil]
  | cons x xs s t' hx hxs ih =>
    intro k hk hsz
    cases k with
    | zero => omega
    | succ k =>
      unfold many
      rw [factP_ok fuel x s t' hx (hsz x (List.mem_cons_self ..)) hxs.head_not_ws]
      simp only
      rw [ih k (by simp at hk; omega) (fun y hy => hsz y (List.mem_cons_of_mem _ hy))]

/-- C08, file level (alphanumeric labels): a non-empty file in the documented format is accepted
and yields exactly the written facts in file order -/
theorem parse_complete (fuel : Nat) (fs : List Fact) (t : List Char) (h : DerFile fs t) (hne : fs ≠ [])
    (hlen : fs.length < fuel) (hsz : ∀ x ∈ fs, x.size < fuel + 1) : parseFile fuel t = some fs := by
  unfold parseFile
  rw [many_ok fuel fs t h fuel hlen hsz]
  cases fs with
  | nil => exact absurd rfl hne
  | cons _ _ => rfl
#print axioms parse_complete

end ParserM
