import AdfObdd.Parser2

namespace ParserM
/-! the fact level of the parser — `all_consuming(many1(alt(statement, ac)))` — accepts every
    file of the documented format (alphanumeric or quoted labels) and returns the facts in file
    order -/

inductive Fact where
  | stmt (l : List Char)
  | ac (l : List Char) (f : Fml)
deriving DecidableEq

/-- `terminated(statement, terminated(tag("."), multispace0))` -/
def stmtP : Prs Fact := fun cs =>
  (tagL ['s'] cs).bind fun a => (tagL ['('] a.2).bind fun b => (atomic b.2).bind fun l =>
  (tagL [')'] l.2).bind fun c => (tagL ['.'] c.2).bind fun d => (ws0 d.2).bind fun e =>
  some (Fact.stmt l.1, e.2)

/-- `terminated(ac, terminated(tag("."), multispace0))` -/
def acP (fuel : Nat) : Prs Fact := fun cs =>
  (tagL ['a','c'] cs).bind fun a => (tagL ['('] a.2).bind fun b => (atomic b.2).bind fun l =>
  (commaP l.2).bind fun c => (formulaF fuel c.2).bind fun f => (tagL [')'] f.2).bind fun d =>
  (tagL ['.'] d.2).bind fun e => (ws0 e.2).bind fun g => some (Fact.ac l.1 f.1, g.2)

def factP (fuel : Nat) : Prs Fact := orElse stmtP (acP fuel)

/-- `many1` (the fuel only bounds the number of facts) -/
def many (p : Prs Fact) : Nat → Inp → List Fact × Inp
  | 0, cs => ([], cs)
  | k+1, cs => match p cs with
    | none => ([], cs)
    | some (x, r) => let m := many p k r; (x :: m.1, m.2)

/-- `all_consuming(many1(..))`: at least one fact, nothing left over. (`many1`'s guard against a
parser that succeeds without consuming can never fire: every fact starts with the tag `s` or `ac`.) -/
def parseFile (fuel : Nat) (cs : Inp) : Option (List Fact) :=
  match many (factP fuel) fuel cs with
  | ([], _) => none
  | (fs, []) => some fs
  | (_, _ :: _) => none

/-- the parser on a text, as the list of facts in file order. The fuel (recursion depth of
`formula`, number of facts) is the length of the text plus one; `parseFacts_complete` and
`parseFacts_sound` show that this is enough: the accepted language does not depend on it. -/
def parseFacts (cs : Inp) : Option (List Fact) := parseFile (cs.length + 1) cs

/-- the documented file format: facts, each followed by optional blanks -/
inductive DerFact : Fact → List Char → Prop
  | stmt (l sl w : List Char) : DerL l sl → AllWs w →
      DerFact (Fact.stmt l) (['s','('] ++ sl ++ [')','.'] ++ w)
  | ac (l sl : List Char) (f : Fml) (s w1 w2 w : List Char) : DerL l sl → DerF f s →
      AllWs w1 → AllWs w2 → AllWs w →
      DerFact (Fact.ac l f) (['a','c','('] ++ sl ++ w1 ++ [','] ++ w2 ++ s ++ [')','.'] ++ w)

inductive DerFile : List Fact → List Char → Prop
  | nil : DerFile [] []
  | cons (x : Fact) (xs : List Fact) (s t : List Char) : DerFact x s → DerFile xs t → DerFile (x :: xs) (s ++ t)

def Fact.size : Fact → Nat
  | .stmt _ => 1
  | .ac _ f => f.size + 1

/-- a file continues with a fact, i.e. with a non-blank character, or ends -/
theorem DerFile.head_not_ws {fs : List Fact} {t : List Char} (h : DerFile fs t) :
    ∀ c, t.head? = some c → isWs c = false := by
  intro c hc
  cases h with
  | nil => simp at hc
  | cons x xs s t' hx _ =>
    cases hx with
    | stmt l sl w _ _ => simp at hc; subst hc; decide
    | ac l sl f s' w1 w2 w _ _ _ _ _ => simp at hc; subst hc; decide

theorem goodRest_close2 (rest : List Char) : GoodRest ([')','.'] ++ rest) := by
  intro c hc; simp at hc; subst hc; exact ⟨by decide, by decide⟩

theorem stmtP_ok (l sl w t : List Char) (hl : DerL l sl) (hw : AllWs w)
    (ht : ∀ c, t.head? = some c → isWs c = false) :
    stmtP (['s','('] ++ sl ++ [')','.'] ++ w ++ t) = some (Fact.stmt l, t) := by
  have hshape : ['s','('] ++ sl ++ [')','.'] ++ w ++ t = ['s'] ++ (['('] ++ (sl ++ ([')'] ++ (['.'] ++ (w ++ t))))) := by simp
  rw [hshape]
  unfold stmtP
  rw [tagL_append]; simp only [Option.bind]
  rw [tagL_append]; simp only
  rw [atomic_ok l sl _ hl (by intro c hc; simp at hc; subst hc; exact ⟨by decide, by decide⟩)]
  simp only
  rw [tagL_append]; simp only
  rw [tagL_append]; simp only
  unfold ws0
  simp only
  rw [dropWhile_ws w t hw ht]

theorem stmtP_none_ac (cs : List Char) : stmtP (['a','c','('] ++ cs) = none := by
  simp [stmtP, tagL]

theorem acP_ok (fuel : Nat) (l sl : List Char) (f : Fml) (s w1 w2 w t : List Char) (hl : DerL l sl)
    (hf : DerF f s) (h1 : AllWs w1) (h2 : AllWs w2) (hw : AllWs w) (hfuel : f.size < fuel)
    (ht : ∀ c, t.head? = some c → isWs c = false) :
    acP fuel (['a','c','('] ++ sl ++ w1 ++ [','] ++ w2 ++ s ++ [')','.'] ++ w ++ t) = some (Fact.ac l f, t) := by
  have hshape : ['a','c','('] ++ sl ++ w1 ++ [','] ++ w2 ++ s ++ [')','.'] ++ w ++ t =
      ['a','c'] ++ (['('] ++ (sl ++ (w1 ++ [','] ++ w2 ++ (s ++ ([')'] ++ (['.'] ++ (w ++ t))))))) := by simp
  rw [hshape]
  unfold acP
  rw [tagL_append]; simp only [Option.bind]
  rw [tagL_append]; simp only
  rw [atomic_ok l sl _ hl (by rw [List.append_assoc]; exact goodRest_ws_comma w1 _ h1)]
  simp only
  rw [commaP_spec w1 w2 _ h1 h2 (hf.head_not_ws _)]
  simp only
  rw [formula_complete f s hf fuel _ hfuel (by
    intro c hc; simp at hc; subst hc; exact ⟨by decide, by decide⟩)]
  simp only
  rw [tagL_append]; simp only
  rw [tagL_append]; simp only
  unfold ws0
  simp only
  rw [dropWhile_ws w t hw ht]

theorem factP_ok (fuel : Nat) (x : Fact) (s t : List Char) (hx : DerFact x s) (hfuel : x.size < fuel + 1)
    (ht : ∀ c, t.head? = some c → isWs c = false) : factP fuel (s ++ t) = some (x, t) := by
  unfold factP
  cases hx with
  | stmt l sl w hl hw =>
    apply orElse_some_left
    exact stmtP_ok l sl w t hl hw ht
  | ac l sl f s' w1 w2 w hl hf h1 h2 hw =>
    have hnone : stmtP (['a','c','('] ++ sl ++ w1 ++ [','] ++ w2 ++ s' ++ [')','.'] ++ w ++ t) = none := by
      have : ['a','c','('] ++ sl ++ w1 ++ [','] ++ w2 ++ s' ++ [')','.'] ++ w ++ t =
          ['a','c','('] ++ (sl ++ w1 ++ [','] ++ w2 ++ s' ++ [')','.'] ++ w ++ t) := by simp
      rw [this]; exact stmtP_none_ac _
    rw [orElse_none_left _ _ _ hnone]
    exact acP_ok fuel l sl f s' w1 w2 w t hl hf h1 h2 hw (by simp [Fact.size] at hfuel; omega) ht

theorem factP_nil (fuel : Nat) : factP fuel [] = none := by
  simp [factP, orElse, stmtP, acP, tagL]

/-- every documented file is read as its facts, in order, with nothing left over -/
theorem many_ok (fuel : Nat) : ∀ (fs : List Fact) (t : List Char), DerFile fs t → ∀ k, fs.length < k →
    (∀ x ∈ fs, x.size < fuel + 1) → many (factP fuel) k t = (fs, []) := by
  intro fs t h
  induction h with
  | nil =>
    intro k hk _
    cases k with
    | zero => omega
    | succ k => simp [many, factP_nil]
  | cons x xs s t' hx hxs ih =>
    intro k hk hsz
    cases k with
    | zero => omega
    | succ k =>
      unfold many
      rw [factP_ok fuel x s t' hx (hsz x (List.mem_cons_self ..)) hxs.head_not_ws]
      simp only
      rw [ih k (by simp at hk; omega) (fun y hy => hsz y (List.mem_cons_of_mem _ hy))]

/-- file level, explicit fuel: a non-empty file in the documented format is accepted and yields
exactly the written facts in file order -/
theorem parseFile_complete (fuel : Nat) (fs : List Fact) (t : List Char) (h : DerFile fs t) (hne : fs ≠ [])
    (hlen : fs.length < fuel) (hsz : ∀ x ∈ fs, x.size < fuel + 1) : parseFile fuel t = some fs := by
  unfold parseFile
  rw [many_ok fuel fs t h fuel hlen hsz]
  cases fs with
  | nil => exact absurd rfl hne
  | cons _ _ => rfl

/-! ### the fuel `length + 1` is enough -/

theorem DerF.size_le {f : Fml} {s : List Char} (h : DerF f s) : f.size ≤ s.length := by
  induction h with
  | top => simp [Fml.size]
  | bot => simp [Fml.size]
  | atom l s hl =>
    cases hl with
    | alnum hne _ =>
      cases l with
      | nil => exact absurd rfl hne
      | cons _ _ => simp [Fml.size]
    | quoted _ => simp [Fml.size]
  | not f s _ ih => simp [Fml.size]; omega
  | and a b s1 s2 w1 w2 _ _ _ _ iha ihb => simp [Fml.size]; omega
  | or a b s1 s2 w1 w2 _ _ _ _ iha ihb => simp [Fml.size]; omega
  | imp a b s1 s2 w1 w2 _ _ _ _ iha ihb => simp [Fml.size]; omega
  | xor a b s1 s2 w1 w2 _ _ _ _ iha ihb => simp [Fml.size]; omega
  | iff a b s1 s2 w1 w2 _ _ _ _ iha ihb => simp [Fml.size]; omega

theorem DerFact.size_le {x : Fact} {s : List Char} (h : DerFact x s) : x.size < s.length := by
  cases h with
  | stmt l sl w _ _ => simp [Fact.size]
  | ac l sl f s' w1 w2 w _ hf _ _ _ => have := hf.size_le; simp [Fact.size]; omega

theorem DerFile.bounds {fs : List Fact} {t : List Char} (h : DerFile fs t) :
    fs.length ≤ t.length ∧ ∀ x ∈ fs, x.size < t.length := by
  induction h with
  | nil => simp
  | cons x xs s t' hx _ ih =>
    have hs := hx.size_le
    refine ⟨by simp; omega, ?_⟩
    intro y hy
    rcases List.mem_cons.mp hy with rfl | hy
    · simp; omega
    · have := ih.2 y hy; simp; omega

/-- file level completeness: every non-empty file of the documented format — facts in any order,
any blanks after facts and around commas, labels alphanumeric (keyword-like ones included) or
quoted — is accepted and yields exactly the written facts, in file order, labels verbatim -/
theorem parseFacts_complete (fs : List Fact) (t : List Char) (h : DerFile fs t) (hne : fs ≠ []) :
    parseFacts t = some fs := by
  have b := h.bounds
  exact parseFile_complete _ fs t h hne (by omega) (fun x hx => by have := b.2 x hx; omega)
#print axioms parseFacts_complete

end ParserM
