
namespace ParserM
/-! prototype 27: calibration of the parser proofs on `List Char` — keyword-like labels are
    parsed as atoms -/

abbrev Inp := List Char
abbrev Prs (α : Type) := Inp → Option (α × Inp)

def tagL : List Char → Prs Unit
  | [], cs => some ((), cs)
  | _ :: _, [] => none
  | c :: k, d :: cs => if c = d then tagL k cs else none

def isAlnum (c : Char) : Bool := c.isAlphanum

def alnum1 : Prs (List Char) := fun cs =>
  let w := cs.takeWhile isAlnum
  if w.isEmpty then none else some (w, cs.dropWhile isAlnum)

def AllAlnum (l : List Char) : Prop := ∀ c ∈ l, isAlnum c = true

/-- what may follow a formula: nothing, or a character that is neither alphanumeric nor `(` -/
def GoodRest (r : Inp) : Prop := ∀ c, r.head? = some c → isAlnum c = false ∧ c ≠ '('

theorem alnum_not_paren {c : Char} (h : isAlnum c = true) : c ≠ '(' := by
  intro e; subst e; simp [isAlnum, Char.isAlphanum, Char.isAlpha, Char.isUpper, Char.isLower, Char.isDigit] at h

/-- after any all-alphanumeric keyword matched against `label ++ rest`, the next character is
not an opening bracket — so `and(`/`neg(`/`c(` never fire on a label -/
theorem kw_then_no_paren : ∀ (kw l : List Char) (r cs' : Inp), AllAlnum kw → AllAlnum l → GoodRest r →
    tagL kw (l ++ r) = some ((), cs') → cs'.head? ≠ some '(' := by
  intro kw
  induction kw with
  | nil =>
    intro l r cs' _ hl hr h
    simp only [tagL, Option.some.injEq, Prod.mk.injEq, true_and] at h
    subst h
    cases l with
    | nil => intro e; exact (hr '(' e).2 rfl
    | cons d l' =>
      simp only [List.cons_append, List.head?_cons, ne_eq, Option.some.injEq]
      exact alnum_not_paren (hl d (List.mem_cons_self ..))
  | cons c kw ih =>
    intro l r cs' hk hl hr h
    cases l with
    | nil =>
      -- the keyword would have to continue into `rest`, whose head is not alphanumeric
      cases r with
      | nil => simp [tagL] at h
      | cons d r' =>
        simp only [List.nil_append, tagL] at h
        by_cases e : c = d
        · subst e
          have := (hr c rfl).1
          rw [hk c (List.mem_cons_self ..)] at this; cases this
        · rw [if_neg e] at h; cases h
    | cons d l' =>
      simp only [List.cons_append, tagL] at h
      by_cases e : c = d
      · rw [if_pos e] at h
        exact ih l' r cs' (fun x hx => hk x (List.mem_cons_of_mem _ hx))
          (fun x hx => hl x (List.mem_cons_of_mem _ hx)) hr h
      · rw [if_neg e] at h; cases h

theorem takeWhile_label : ∀ (l : List Char) (r : Inp), AllAlnum l → GoodRest r →
    (l ++ r).takeWhile isAlnum = l ∧ (l ++ r).dropWhile isAlnum = r := by
  intro l
  induction l with
  | nil =>
    intro r _ hr
    cases r with
    | nil => simp
    | cons d r' =>
      have := (hr d rfl).1
      simp [List.takeWhile, List.dropWhile, this]
  | cons c l ih =>
    intro r hl hr
    have hc := hl c (List.mem_cons_self ..)
    have ⟨a, b⟩ := ih r (fun x hx => hl x (List.mem_cons_of_mem _ hx)) hr
    simp only [List.cons_append, List.takeWhile, List.dropWhile, hc]
    exact ⟨by rw [a], b⟩

/-- an alphanumeric label followed by a good rest is read back exactly -/
theorem alnum1_label (l : List Char) (r : Inp) (hne : l ≠ []) (hl : AllAlnum l) (hr : GoodRest r) :
    alnum1 (l ++ r) = some (l, r) := by
  have ⟨a, b⟩ := takeWhile_label l r hl hr
  unfold alnum1
  simp only [a, b]
  cases l with
  | nil => exact absurd rfl hne
  | cons _ _ => rfl

example : AllAlnum "andy".toList := by
  intro c hc; simp at hc; rcases hc with rfl | rfl | rfl | rfl <;> decide
#print axioms kw_then_no_paren
#print axioms alnum1_label

end ParserM
