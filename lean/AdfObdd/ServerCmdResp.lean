import AdfObdd.ServerCmdProofs
/-! # C17 — command granularity: a response is a function of what the request's OWN commands returned

`ServerCmdProofs.RInv` says where the problem DATA in a response comes from (documents returned to the
request's own finds). This file adds the functional dependence: under every schedule, the remaining
program of a request in flight - in particular its response, once it has reached it - is determined by
the request itself (jar, identity decoded at arrival, payload) and the list of results the database
returned to the commands THIS request issued (`Fed`, `Fed.det`); whatever the other requests in flight
did in between is visible to it only through those results. All problem documents among those results
carry the user name of the command's filter (`foundBy_user`). Core Lean only. -/
namespace ServerCmd
open ServerM
section
variable {T H A R : Type}

/-- a command together with the result the database returned to it -/
abbrev Answer (T H A R : Type) := (c : DbCmd T H A R) × c.Res

/-- `Fed p rs q`: the program `p`, given the results `rs` to its successive commands, has become `q` -/
inductive Fed : P T H A R → List (Answer T H A R) → P T H A R → Prop
  | nil (p : P T H A R) : Fed p [] p
  | cons (c : DbCmd T H A R) (k : c.Res → P T H A R) (r : c.Res) (rs : List (Answer T H A R)) (q : P T H A R) :
      Fed (k r) rs q → Fed (.cmd c k) (⟨c, r⟩ :: rs) q

/-- the results determine the residual program (and hence the response) -/
theorem Fed.det {p q q' : P T H A R} {rs : List (Answer T H A R)} (h : Fed p rs q) (h' : Fed p rs q') : q = q' := by
  induction h with
  | nil p => cases h'; rfl
  | cons c k r rs q _ ih =>
    cases h' with
    | cons _ _ _ _ _ h2 => exact ih h2

theorem Fed.snoc {p : P T H A R} {rs : List (Answer T H A R)} {c : DbCmd T H A R} {k : c.Res → P T H A R}
    (h : Fed p rs (.cmd c k)) (r : c.Res) : Fed p (rs ++ [⟨c, r⟩]) (k r) := by
  generalize hq : (Prog.cmd c k : P T H A R) = q at h
  induction h with
  | nil p => subst hq; exact Fed.cons c k r [] _ (Fed.nil _)
  | cons c' k' r' rs q _ ih => exact Fed.cons c' k' r' _ _ (ih hq)

variable [DecidableEq T]

/-- every problem document among the results carries the user name of its command's filter -/
def OwnDocs (rs : List (Answer T H A R)) : Prop :=
  ∀ a ∈ rs, ∀ p ∈ foundBy a.1 a.2, probUser a.1 = some p.username

/-- the invariant: every request in flight is its handler program fed with results of its own commands -/
def FedInv (E : Env T H A R) (s : CState T H A R) : Prop :=
  ∀ f ∈ s.pool, ∃ rs, Fed (handler E f.jar f.id f.req) rs f.prog ∧ OwnDocs rs

theorem FedInv.step (E : Env T H A R) (s : CState T H A R) (a : Act T) (inv : FedInv E s) : FedInv E (stepC E s a) := by
  cases a with
  | arrive rq =>
    intro f hf
    simp only [stepC] at hf
    rcases List.mem_append.mp hf with hf | hf
    · exact inv f hf
    · simp only [List.mem_singleton] at hf; subst hf
      exact ⟨[], Fed.nil _, by intro a ha; cases ha⟩
  | cmd i =>
    simp only [stepC]
    cases hi : s.pool[i]? with
    | none => exact inv
    | some f =>
      simp only
      obtain ⟨rs, hfed, hown⟩ := inv f (List.mem_of_getElem? hi)
      cases hp : f.prog with
      | ret r => exact inv
      | cmd c k =>
        simp only
        rw [hp] at hfed
        intro g hg
        rcases List.mem_or_eq_of_mem_set hg with h | h
        · exact inv g h
        · subst h
          refine ⟨rs ++ [⟨c, (exec s.db c).2⟩], hfed.snoc _, ?_⟩
          intro a ha
          rcases List.mem_append.mp ha with ha | ha
          · exact hown a ha
          · simp only [List.mem_singleton] at ha; subst ha
            exact foundBy_user s.db c
  | deliver i =>
    simp only [stepC]
    cases hi : s.pool[i]? with
    | none => exact inv
    | some f =>
      simp only
      cases hp : f.prog with
      | cmd c k => exact inv
      | ret r => exact fun g hg => inv g (List.mem_of_mem_eraseIdx hg)
  | finish j n => exact inv
  | write j n => exact inv
  | timeout j n => exact inv

theorem FedInv.run (E : Env T H A R) : ∀ (as : List (Act T)) (s : CState T H A R), FedInv E s → FedInv E (runC E s as) := by
  intro as
  induction as with
  | nil => intro s h; exact h
  | cons a as ih => intro s h; exact ih _ (FedInv.step E s a h)

theorem FedInv.init (E : Env T H A R) : FedInv E ({} : CState T H A R) := by
  intro f hf; cases hf

/-! ### third review (audit L1): the results fed are results `exec` can give, so the handler's filters apply -/

theorem Fed.allCmds {Q : Cmd T H A R → Prop} {L : Resp T R → Prop} {p q : P T H A R} {rs : List (Answer T H A R)}
    (hf : Fed p rs q) : AllCmds Q L p → (∀ a ∈ rs, Rok a.1 a.2) → (∀ a ∈ rs, Q a.1) ∧ AllCmds Q L q := by
  induction hf with
  | nil p => intro h _; exact ⟨(by intro a ha; cases ha), h⟩
  | cons c k r rs q _ ih =>
    intro h hr
    cases h with
    | cmd _ _ hq hk =>
      have := ih (hk r (hr ⟨c, r⟩ (List.mem_cons_self ..))) (fun a ha => hr a (List.mem_cons_of_mem _ ha))
      refine ⟨?_, this.2⟩
      intro a ha
      rcases List.mem_cons.mp ha with h | h
      · subst h; exact hq
      · exact this.1 a h

/-- invariant: results fed are results `exec` can give -/
def FedInv2 (E : Env T H A R) (s : CState T H A R) : Prop :=
  ∀ f ∈ s.pool, ∃ rs, Fed (handler E f.jar f.id f.req) rs f.prog ∧ ∀ a ∈ rs, Rok a.1 a.2

theorem FedInv2.step (E : Env T H A R) (s : CState T H A R) (a : Act T) (inv : FedInv2 E s) : FedInv2 E (stepC E s a) := by
  cases a with
  | arrive rq =>
    intro f hf
    simp only [stepC] at hf
    rcases List.mem_append.mp hf with hf | hf
    · exact inv f hf
    · simp only [List.mem_singleton] at hf; subst hf
      exact ⟨[], Fed.nil _, by intro a ha; cases ha⟩
  | cmd i =>
    simp only [stepC]
    cases hi : s.pool[i]? with
    | none => exact inv
    | some f =>
      simp only
      obtain ⟨rs, hfed, hown⟩ := inv f (List.mem_of_getElem? hi)
      cases hp : f.prog with
      | ret r => exact inv
      | cmd c k =>
        simp only
        rw [hp] at hfed
        intro g hg
        rcases List.mem_or_eq_of_mem_set hg with h | h
        · exact inv g h
        · subst h
          refine ⟨rs ++ [⟨c, (exec s.db c).2⟩], hfed.snoc _, ?_⟩
          intro a ha
          rcases List.mem_append.mp ha with ha | ha
          · exact hown a ha
          · simp only [List.mem_singleton] at ha; subst ha
            exact exec_rok s.db c
  | deliver i =>
    simp only [stepC]
    cases hi : s.pool[i]? with
    | none => exact inv
    | some f =>
      simp only
      cases hp : f.prog with
      | cmd c k => exact inv
      | ret r => exact fun g hg => inv g (List.mem_of_mem_eraseIdx hg)
  | finish j n => exact inv
  | write j n => exact inv
  | timeout j n => exact inv

theorem FedInv2.run (E : Env T H A R) : ∀ (as : List (Act T)) (s : CState T H A R), FedInv2 E s → FedInv2 E (runC E s as) := by
  intro as
  induction as with
  | nil => intro s h; exact h
  | cons a as ih => intro s h; exact ih _ (FedInv2.step E s a h)


end
end ServerCmd
