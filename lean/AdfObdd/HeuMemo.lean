import AdfObdd.CountsDef
/-! The heuristics evaluate `minPaths`/`passive`/`active` for every undecided statement inside the
comparison function of a `min_by` (twice per comparison). Here: the keys of all candidates computed
ONCE per heuristic call, the path counts of all candidates with one shared memo
(`Memo.Meas.mapL`, compiled to `mapLM`) and the dependency sets of all conditions with another, and
`min_by` on the precomputed keys — proved equal to the `min_by` with the recomputing comparison.
No Mathlib; the driver imports this module. -/

namespace Memo

/-- `Iterator::min_by` (the first minimum) on (candidate, key) pairs, comparing the keys -/
def minByK {K : Type} (cmpK : K → K → Ordering) : List ((Nat × Nat) × K) → Option (Nat × Nat)
  | [] => none
  | x :: xs => some (xs.foldl (fun m y => if cmpK m.2 y.2 == .gt then y else m) x).1

theorem foldl_keyed {K : Type} (key : Nat × Nat → K) (cmp : (Nat × Nat) → (Nat × Nat) → Ordering)
    (cmpK : K → K → Ordering) (h : ∀ l r, cmp l r = cmpK (key l) (key r)) :
    ∀ (xs : List (Nat × Nat)) (x : Nat × Nat),
      (xs.map (fun p => (p, key p))).foldl (fun m y => if cmpK m.2 y.2 == .gt then y else m) (x, key x) =
        (xs.foldl (fun m y => if cmp m y == .gt then y else m) x,
          key (xs.foldl (fun m y => if cmp m y == .gt then y else m) x)) := by
  intro xs
  induction xs with
  | nil => intro x; rfl
  | cons y ys ih =>
    intro x
    simp only [List.map_cons, List.foldl_cons, h x y]
    by_cases hc : (cmpK (key x) (key y) == Ordering.gt) = true
    · rw [if_pos hc, if_pos hc]; exact ih y
    · rw [if_neg hc, if_neg hc]; exact ih x

theorem zip_map_self {α β : Type} (g : α → β) : ∀ (u : List α), u.zip (u.map g) = u.map (fun x => (x, g x)) := by
  intro u
  induction u with
  | nil => rfl
  | cons a u ih => simp only [List.map_cons, List.zip_cons_cons, ih]

/-- keys `(minPaths, passive)` of the candidates `(statement, handle)` -/
def keysPI (s : Store) (v : List Nat) (u : List (Nat × Nat)) : List ((Nat × Nat) × (Nat × Nat)) :=
  let pl := pathG.mapL s (u.map (·.2))
  let bl := setG.mapL s v
  (u.zip pl).map (fun x => (x.1, (min x.2.1 x.2.2, passiveB bl x.1.1)))

theorem keysPI_eq (s : Store) (v : List Nat) (u : List (Nat × Nat)) :
    keysPI s v u = u.map (fun p => (p, (minPaths s p.2, passive s p.1 v))) := by
  unfold keysPI
  simp only [Meas.mapL, List.map_map]
  rw [zip_map_self, List.map_map]
  apply List.map_congr_left
  intro p _
  simp only [Function.comp, minPaths, paths, pathsF_eq_F, passive_eq_B, Meas.mapL]

/-- keys `(passive, active, minPaths)` of the candidates `(statement, handle)` -/
def keysA (s : Store) (v : List Nat) (u : List (Nat × Nat)) : List ((Nat × Nat) × (Nat × Nat × Nat)) :=
  let pl := pathG.mapL s (u.map (·.2))
  let bl := setG.mapL s v
  (u.zip pl).map (fun x => (x.1, (passiveB bl x.1.1, activeB bl x.1.1, min x.2.1 x.2.2)))

theorem keysA_eq (s : Store) (v : List Nat) (u : List (Nat × Nat)) :
    keysA s v u = u.map (fun p => (p, (passive s p.1 v, active s p.1 v, minPaths s p.2))) := by
  unfold keysA
  simp only [Meas.mapL, List.map_map]
  rw [zip_map_self, List.map_map]
  apply List.map_congr_left
  intro p _
  simp only [Function.comp, minPaths, paths, pathsF_eq_F, passive_eq_B, active_eq_B, Meas.mapL]

/-- `heu_a` on keys `(passive, active, minPaths)` -/
def cmpA (a b : Nat × Nat × Nat) : Ordering :=
  match compare b.1 a.1 with
  | .eq => match compare a.2.1 b.2.1 with
    | .eq => compare a.2.2 b.2.2
    | o => o
  | o => o

/-- `heu_b` on keys `(minPaths, passive)` -/
def cmpB (a b : Nat × Nat) : Ordering :=
  match compare a.1 b.1 with
  | .eq => compare b.2 a.2
  | o => o

/-- `MinModMinPathsMaxVarImp` on keys `(minPaths, passive)` -/
def cmpPI (a b : Nat × Nat) : Ordering :=
  match compare a.1 b.1 with
  | .eq => compare a.2 b.2
  | o => o

/-- `MinModMaxVarImpMinPaths` on keys `(minPaths, passive)` -/
def cmpIP (a b : Nat × Nat) : Ordering :=
  match compare a.2 b.2 with
  | .eq => compare a.1 b.1
  | o => o

end Memo
