import AdfObdd.CountSearchK
/-! # Two instances of the counting machine in lock step

`GK.search` run with two parameter sets `P`, `P'` over possibly different store / state / output types but the
same cube type.  If a relation `R` between (store, state) pairs is kept by every step - the pick, the goal value
and the enumerated cube list agree on related pairs, the cube step and the flip step fail alike or lead to related
pairs, the leaves emit outputs with equal observations - then the two searches emit outputs with the same
observations IN THE SAME ORDER (`search_rel`).  Unlike `search_lock` of `CountSearchLock.lean` (same state, two
stores that agree on a node table) nothing is assumed about how the stores are related beyond `R`; the stores may
only grow (`Le`), and `R` survives growth of both stores (`mono`) - that is what the cube loop needs, which
revisits the same state in later stores. -/
namespace GK

variable {S C K O S' C' O' X : Type}

structure RelLaws (P : CParams S C K O) (P' : CParams S' C' K O') (R : S → C → S' → C' → Prop)
    (Le : S → S → Prop) (Le' : S' → S' → Prop) (obs : O → X) (obs' : O' → X) : Prop where
  le_refl : ∀ s, Le s s
  le_refl' : ∀ s, Le' s s
  le_trans : ∀ s s1 s2, Le s s1 → Le s1 s2 → Le s s2
  le_trans' : ∀ s s1 s2, Le' s s1 → Le' s1 s2 → Le' s s2
  mono : ∀ s c s' c' s1 s1', R s c s' c' → Le s s1 → Le' s' s1' → R s1 c s1' c'
  pick : ∀ s c s' c', R s c s' c' → P.pick s c = P'.pick s' c'
  goal : ∀ s c s' c' idx, R s c s' c' → P.pick s c = some idx → P.goal s c idx = P'.goal s' c' idx
  cubes : ∀ s c s' c' idx, R s c s' c' → P.pick s c = some idx →
    P.cubes s c idx (P.goal s c idx) = P'.cubes s' c' idx (P.goal s c idx)
  cubeStep : ∀ s c s' c' idx g cu, R s c s' c' →
    Le s (P.cubeStep s c idx g cu).1 ∧ Le' s' (P'.cubeStep s' c' idx g cu).1 ∧
    (((P.cubeStep s c idx g cu).2 = none ∧ (P'.cubeStep s' c' idx g cu).2 = none) ∨
     ∃ d d', (P.cubeStep s c idx g cu).2 = some d ∧ (P'.cubeStep s' c' idx g cu).2 = some d' ∧
       R (P.cubeStep s c idx g cu).1 d (P'.cubeStep s' c' idx g cu).1 d')
  flipStep : ∀ s c s' c' idx g, R s c s' c' →
    Le s (P.flipStep s c idx g).1 ∧ Le' s' (P'.flipStep s' c' idx g).1 ∧
    (((P.flipStep s c idx g).2 = none ∧ (P'.flipStep s' c' idx g).2 = none) ∨
     ∃ d d', (P.flipStep s c idx g).2 = some d ∧ (P'.flipStep s' c' idx g).2 = some d' ∧
       R (P.flipStep s c idx g).1 d (P'.flipStep s' c' idx g).1 d')
  leaf : ∀ s c s' c', R s c s' c' →
    Le s (P.leaf s c).1 ∧ Le' s' (P'.leaf s' c').1 ∧ (P.leaf s c).2.map obs = (P'.leaf s' c').2.map obs'

variable {P : CParams S C K O} {P' : CParams S' C' K O'} {R : S → C → S' → C' → Prop}
  {Le : S → S → Prop} {Le' : S' → S' → Prop} {obs : O → X} {obs' : O' → X}

/-- what two related (sub)searches deliver -/
def RelOut (Le : S → S → Prop) (Le' : S' → S' → Prop) (obs : O → X) (obs' : O' → X)
    (s : S) (s' : S') (r : S × List O) (r' : S' × List O') : Prop :=
  Le s r.1 ∧ Le' s' r'.1 ∧ r.2.map obs = r'.2.map obs'

theorem cubeLoop_rel (hL : RelLaws P P' R Le Le' obs obs') (rec : S → C → S × List O) (rec' : S' → C' → S' × List O')
    (hrec : ∀ s c s' c', R s c s' c' → RelOut Le Le' obs obs' s s' (rec s c) (rec' s' c'))
    (c : C) (c' : C') (idx : Nat) (g : Bool) :
    ∀ (l : List K) (s : S) (s' : S'), R s c s' c' →
      RelOut Le Le' obs obs' s s' (cubeLoop P rec c idx g l s) (cubeLoop P' rec' c' idx g l s') := by
  intro l
  induction l with
  | nil => intro s s' _; exact ⟨hL.le_refl s, hL.le_refl' s', rfl⟩
  | cons cu cus ih =>
    intro s s' hR
    have ⟨l1, l1', st⟩ := hL.cubeStep s c s' c' idx g cu hR
    simp only [cubeLoop]
    rcases st with ⟨e, e'⟩ | ⟨d, d', e, e', hR1⟩
    · rw [e, e']
      simp only
      have ⟨a, a', b⟩ := ih _ _ (hL.mono _ _ _ _ _ _ hR l1 l1')
      exact ⟨hL.le_trans _ _ _ l1 a, hL.le_trans' _ _ _ l1' a', by simpa using b⟩
    · rw [e, e']
      simp only
      have ⟨h1, h1', h2⟩ := hrec _ _ _ _ hR1
      have ⟨a, a', b⟩ := ih _ _ (hL.mono _ _ _ _ _ _ hR (hL.le_trans _ _ _ l1 h1) (hL.le_trans' _ _ _ l1' h1'))
      refine ⟨hL.le_trans _ _ _ (hL.le_trans _ _ _ l1 h1) a, hL.le_trans' _ _ _ (hL.le_trans' _ _ _ l1' h1') a', ?_⟩
      rw [List.map_append, List.map_append, h2, b]

/-- **lock step of two instances**: related starting points, same fuel ⇒ outputs with the same observations in the
same order (and both stores only grew) -/
theorem search_rel (hL : RelLaws P P' R Le Le' obs obs') : ∀ (fuel : Nat) (s : S) (c : C) (s' : S') (c' : C'),
    R s c s' c' → RelOut Le Le' obs obs' s s' (search P fuel s c) (search P' fuel s' c') := by
  intro fuel
  induction fuel with
  | zero => intro s c s' c' _; exact ⟨hL.le_refl s, hL.le_refl' s', rfl⟩
  | succ f ih =>
    intro s c s' c' hR
    unfold search
    have hp := hL.pick s c s' c' hR
    cases hpk : P.pick s c with
    | none =>
      rw [← hp, hpk]
      exact hL.leaf s c s' c' hR
    | some idx =>
      rw [← hp, hpk]
      simp only
      rw [← hL.goal s c s' c' idx hR hpk, ← hL.cubes s c s' c' idx hR hpk]
      have ⟨a, a', b⟩ := cubeLoop_rel hL (fun s1 c1 => search P f s1 c1) (fun s1 c1 => search P' f s1 c1)
        (fun s1 c1 s1' c1' h => ih s1 c1 s1' c1' h) c c' idx (P.goal s c idx) (P.cubes s c idx (P.goal s c idx)) s s' hR
      have ⟨l1, l1', st⟩ := hL.flipStep _ c _ c' idx (P.goal s c idx) (hL.mono _ _ _ _ _ _ hR a a')
      rcases st with ⟨e, e'⟩ | ⟨d, d', e, e', hR1⟩
      · rw [e, e']
        exact ⟨hL.le_trans _ _ _ a l1, hL.le_trans' _ _ _ a' l1', b⟩
      · rw [e, e']
        simp only
        have ⟨h1, h1', h2⟩ := ih _ _ _ _ hR1
        refine ⟨hL.le_trans _ _ _ a (hL.le_trans _ _ _ l1 h1), hL.le_trans' _ _ _ a' (hL.le_trans' _ _ _ l1' h1'), ?_⟩
        rw [List.map_append, List.map_append, b, h2]

end GK
