import AdfObdd.NgSem
import AdfObdd.SearchModel
/-! # Concrete operations of `SM.ngIter` against their semantic counterparts

Every operation of the concrete nogood loop (on the `Store`, with residual handles) is shown to
compute, under the denotation `v ↦ v.map (eval s)`, the corresponding operation of the semantic
instance `NSem.semP`:

* `closureF_eq` — the handle-level closure is the `PA`-level `conclusionClosure` followed by
  `update_term_vec` with the answer;
* `applyInterp_spec` — `apply_interpretation`; `bad_iff` — the consistency test;
* `vec_canonical` — equal denotation vectors are equal handle vectors (canonicity): the code's
  `update_fp` is the semantic test `semRound V ≠ V`;
* `stabilityCheck_spec` — the leaf test; `heuCall_*` — validity and totality of the heuristics. -/
namespace NConc
open NSem

/-! ### handles and their information value -/

def bit (b : Bool) : Nat := if b then 1 else 0

theorem storeIsConst_bit (b : Bool) : storeIsConst (bit b) = some b := by cases b <;> rfl

theorem eq_bit_of_const {t : Nat} {b : Bool} (h : storeIsConst t = some b) : t = bit b := by
  unfold storeIsConst at h
  by_cases h0 : t = 0
  · subst h0; simp at h; subst h; rfl
  · rw [if_neg h0] at h
    by_cases h1 : t = 1
    · subst h1; simp at h; subst h; rfl
    · rw [if_neg h1] at h; cases h

theorem isTV_iff (t : Nat) : isTV t = (storeIsConst t).isSome := by
  unfold isTV storeIsConst
  by_cases h0 : t = 0
  · subst h0; rfl
  · by_cases h1 : t = 1
    · subst h1; rfl
    · rw [if_neg h0, if_neg h1]; simp; omega

theorem isTV_false_iff {t : Nat} : isTV t = false ↔ storeIsConst t = none := by
  rw [isTV_iff]; cases storeIsConst t <;> simp

theorem toPA_length (v : List Nat) : (toPA v).length = v.length := by simp [toPA]

theorem toPA_get (v : List Nat) (i : Nat) : (toPA v)[i]? = (v[i]?).map storeIsConst := by simp [toPA]

theorem pget_toPA {v : List Nat} {i : Nat} (hi : i < v.length) : pget (toPA v) i = storeIsConst v[i] := by
  unfold pget; rw [toPA_get, List.getElem?_eq_getElem hi]; rfl

theorem pget_toPA_ge {v : List Nat} {i : Nat} (hi : v.length ≤ i) : pget (toPA v) i = none := by
  unfold pget; rw [toPA_get, List.getElem?_eq_none hi]; rfl

theorem bit_lt {s : Store} (w : WF s) (b : Bool) : bit b < s.nodes.size := by
  have := w.len; cases b <;> simp [bit] <;> omega

theorem eval_bit (s : Store) (b : Bool) : eval s (bit b) = fun _ => b := by
  funext σ; cases b
  · exact eval_zero s σ
  · exact eval_one s σ

/-- the decided part of the denotation vector is the information vector of the handles -/
theorem cv_map_eval {s : Store} (w : WF s) {v : List Nat} (hv : ∀ t ∈ v, t < s.nodes.size) :
    cv (v.map (eval s)) = toPA v := by
  have := asg3_eq StoreRA (s := s) (v := v) w hv
  exact this.symm

/-! ### `update_term_vec` on handles -/

theorem updateTerms_length (val : PA) (v : List Nat) : (updateTerms val v).1.length = v.length := by
  simp [updateTerms]

theorem updateTerms_get (val : PA) {v : List Nat} {i : Nat} (hi : i < v.length) :
    (updateTerms val v).1[i]? = some (match pget val i with | some b => bit b | none => v[i]) := by
  unfold updateTerms
  simp only
  rw [List.getElem?_map, List.getElem?_range hi]
  simp only [Option.map_some]
  congr 1
  cases pget val i with
  | some b => rfl
  | none => simp [List.getD_eq_getElem?_getD, List.getElem?_eq_getElem hi]

theorem updateTerms_getElem (val : PA) {v : List Nat} {i : Nat} (hi : i < v.length) :
    (updateTerms val v).1[i]'(by rw [updateTerms_length]; exact hi) =
      (match pget val i with | some b => bit b | none => v[i]) := by
  have := updateTerms_get val hi
  rw [List.getElem?_eq_getElem (by rw [updateTerms_length]; exact hi)] at this
  exact Option.some.inj this

theorem toPA_updateTerms (val : PA) (v : List Nat) : toPA (updateTerms val v).1 = (updateVec val (toPA v)).1 := by
  apply list_ext_pget (by rw [toPA_length, updateTerms_length, updateVec_length, toPA_length])
  intro i hi
  rw [toPA_length, updateTerms_length] at hi
  rw [pget_toPA (by rw [updateTerms_length]; exact hi), updateTerms_getElem val hi,
    pget_updateVec val (toPA v) i (by rw [toPA_length]; exact hi), pget_toPA hi]
  cases pget val i with
  | some b => exact storeIsConst_bit b
  | none => rfl

theorem updateTerms_flag (val : PA) (v : List Nat) : (updateTerms val v).2 = (updateVec val (toPA v)).2 := by
  unfold updateTerms updateVec
  simp only [toPA_length]
  apply Bool.eq_iff_iff.mpr
  simp only [List.any_eq_true, List.mem_range, Bool.and_eq_true]
  constructor
  · rintro ⟨i, hi, h1, h2⟩
    refine ⟨i, hi, h1, ?_⟩
    rw [pget_toPA hi]
    have : isTV v[i] = false := by
      simpa [List.getD_eq_getElem?_getD, List.getElem?_eq_getElem hi] using h2
    rw [isTV_false_iff.mp this]; rfl
  · rintro ⟨i, hi, h1, h2⟩
    refine ⟨i, hi, h1, ?_⟩
    rw [pget_toPA hi] at h2
    have : storeIsConst v[i] = none := by simpa using h2
    simp [List.getD_eq_getElem?_getD, List.getElem?_eq_getElem hi, isTV_false_iff.mpr this]

/-- `update_term_vec` with the answer `R` of the closure -/
def updH (v : List Nat) (R : PA) : List Nat := (updateTerms R v).1

def liftC (v : List Nat) : Closure → ClosT
  | Closure.inconsistent => ClosT.inconsistent
  | Closure.noUpdate => ClosT.noUpdate
  | Closure.update R => ClosT.update (updH v R)

theorem updH_get {v : List Nat} (R : PA) {i : Nat} (hi : i < v.length) :
    (updH v R)[i]? = some (match pget R i with | some b => bit b | none => v[i]) := updateTerms_get R hi

theorem updH_length (v : List Nat) (R : PA) : (updH v R).length = v.length := updateTerms_length R v

/-- `r` is `v` with the positions decided in `r` replaced by constants -/
def QV (v r : List Nat) : Prop := r.length = v.length ∧ updH v (toPA r) = r

theorem QV_self (v : List Nat) : QV v v := by
  refine ⟨rfl, ?_⟩
  apply List.ext_getElem?
  intro i
  rcases Nat.lt_or_ge i v.length with hi | hi
  · rw [updH_get _ hi, pget_toPA hi, List.getElem?_eq_getElem hi]
    congr 1
    cases hc : storeIsConst v[i] with
    | some b => exact (eq_bit_of_const hc).symm
    | none => rfl
  · rw [List.getElem?_eq_none (by rw [updH_length]; exact hi), List.getElem?_eq_none hi]

theorem QV_step {v r : List Nat} (val : PA) (h : QV v r) : QV v (updateTerms val r).1 := by
  have hl : (updateTerms val r).1.length = v.length := by rw [updateTerms_length, h.1]
  refine ⟨hl, ?_⟩
  apply List.ext_getElem?
  intro i
  rcases Nat.lt_or_ge i v.length with hiv | hiv
  · have hir : i < r.length := by rw [h.1]; exact hiv
    have hiu : i < (updateTerms val r).1.length := by rw [hl]; exact hiv
    rw [updH_get _ hiv, pget_toPA hiu]
    have e1 : (updateTerms val r).1[i] = (match pget val i with | some b => bit b | none => r[i]) := by
      have := updateTerms_get val hir
      rw [List.getElem?_eq_getElem hiu] at this
      exact Option.some.inj this
    rw [List.getElem?_eq_getElem hiu, e1]
    congr 1
    cases hv : pget val i with
    | some b => simp only [storeIsConst_bit]
    | none =>
      simp only
      have hq := congrArg (fun l => l[i]?) h.2
      simp only [updH_get _ hiv, pget_toPA hir, List.getElem?_eq_getElem hir, Option.some.injEq] at hq
      exact hq
  · rw [List.getElem?_eq_none (by rw [updH_length]; exact hiv), List.getElem?_eq_none (by rw [hl]; exact hiv)]

theorem closureRounds_eq (bs : List (List PA)) (v : List Nat) : ∀ (fuel : Nat) (r : List Nat), QV v r →
    SM.closureRounds bs fuel r = liftC v (closureLoop bs fuel (toPA r)) := by
  intro fuel
  induction fuel with
  | zero =>
    intro r h
    simp only [SM.closureRounds, closureLoop, liftC, h.2]
  | succ f ih =>
    intro r h
    unfold SM.closureRounds closureLoop
    cases hc : conclusions bs (toPA r) with
    | none => rfl
    | some val =>
      simp only
      rw [← updateTerms_flag val r, ← toPA_updateTerms val r]
      by_cases hf : (updateTerms val r).2 = true
      · rw [if_pos hf, if_pos hf]; exact ih _ (QV_step val h)
      · rw [if_neg hf, if_neg hf]
        simp only [liftC, (QV_step val h).2]

/-- the handle-level closure is the `PA`-level closure followed by `update_term_vec` -/
theorem closureF_eq (bs : List (List PA)) (v : List Nat) :
    SM.closureF bs v = liftC v (conclusionClosure bs (toPA v)) := by
  unfold SM.closureF conclusionClosure
  cases hc : conclusions bs (toPA v) with
  | none => rfl
  | some val =>
    simp only
    rw [← updateTerms_flag val v, ← toPA_updateTerms val v, toPA_length]
    by_cases hf : (!(updateTerms val v).2) = true
    · rw [if_pos hf, if_pos hf]; rfl
    · rw [if_neg hf, if_neg hf]
      exact closureRounds_eq bs v _ _ (QV_step val (QV_self v))

/-- what `updH` denotes -/
theorem updH_valid {s : Store} (w : WF s) {v : List Nat} (hv : ∀ t ∈ v, t < s.nodes.size) (R : PA) :
    ∀ t ∈ updH v R, t < s.nodes.size := by
  intro t ht
  obtain ⟨i, hi, he⟩ := List.getElem_of_mem ht
  have hiv : i < v.length := by rw [updH_length] at hi; exact hi
  have := updH_get R hiv
  rw [List.getElem?_eq_getElem hi, he] at this
  have e := Option.some.inj this
  rw [e]
  cases pget R i with
  | some b => exact bit_lt w b
  | none => exact hv _ (List.getElem_mem hiv)

theorem updH_map_eval (s : Store) (v : List Nat) (R : PA) :
    (updH v R).map (eval s) = updF (v.map (eval s)) R := by
  apply List.ext_getElem?
  intro i
  rcases Nat.lt_or_ge i v.length with hi | hi
  · rw [List.getElem?_map]
    unfold updH
    rw [updateTerms_get R hi, updF_get (by simpa using hi)]
    simp only [Option.map_some, List.getElem_map]
    congr 1
    cases pget R i with
    | some b => exact eval_bit s b
    | none => rfl
  · rw [List.getElem?_eq_none (by simp [updH_length]; exact hi),
      List.getElem?_eq_none (by rw [updF_length]; simpa using hi)]

theorem toPA_updH {v : List Nat} {R : PA} (hl : R.length = v.length) (hs : PSub (toPA v) R) : toPA (updH v R) = R := by
  apply list_ext_pget (by rw [toPA_length, updH_length, hl])
  intro i hi
  rw [toPA_length, updH_length] at hi
  have hiu : i < (updH v R).length := by rw [updH_length]; exact hi
  rw [pget_toPA hiu]
  have e : (updH v R)[i] = (match pget R i with | some b => bit b | none => v[i]) := by
    have := updH_get R hi
    rw [List.getElem?_eq_getElem hiu] at this
    exact Option.some.inj this
  rw [e]
  cases hr : pget R i with
  | some b => exact storeIsConst_bit b
  | none =>
    simp only
    cases hc : storeIsConst v[i] with
    | none => rfl
    | some c =>
      have := hs i c (by rw [pget_toPA hi]; exact hc)
      rw [hr] at this; cases this

/-! ### `apply_interpretation` -/

theorem applyInterp_spec (interp : List Nat) : ∀ (xs : List Nat) (s : Store), WF s →
    (∀ t ∈ interp, t < s.nodes.size) → (∀ t ∈ xs, t < s.nodes.size) →
    WF (applyInterp s interp xs).1 ∧ Ext s (applyInterp s interp xs).1 ∧
    (∀ t ∈ (applyInterp s interp xs).2, t < (applyInterp s interp xs).1.nodes.size) ∧
    (applyInterp s interp xs).2.map (eval (applyInterp s interp xs).1) =
      xs.map (fun x σ => eval s x (over σ 0 (toPA interp))) := by
  intro xs
  induction xs with
  | nil => intro s w _ _; exact ⟨w, Ext.refl s, (fun _ h => by cases h), rfl⟩
  | cons x xs ih =>
    intro s w hi hx
    have hxv : x < s.nodes.size := hx x (List.mem_cons_self ..)
    have ⟨i0, l0, v0, d0⟩ := restrictBy_spec StoreRA interp 0 s x w hxv
    have hi' : ∀ t ∈ interp, t < (restrictBy StoreRA s x 0 interp).1.nodes.size :=
      fun t ht => Nat.lt_of_lt_of_le (hi t ht) l0.1
    have hxs' : ∀ t ∈ xs, t < (restrictBy StoreRA s x 0 interp).1.nodes.size :=
      fun t ht => Nat.lt_of_lt_of_le (hx t (List.mem_cons_of_mem _ ht)) l0.1
    have ⟨i1, l1, v1, d1⟩ := ih _ i0 hi' hxs'
    simp only [applyInterp]
    refine ⟨i1, Ext.trans l0 l1, ?_, ?_⟩
    · intro t ht
      rcases List.mem_cons.mp ht with rfl | ht
      · exact Nat.lt_of_lt_of_le v0 l1.1
      · exact v1 t ht
    · simp only [List.map_cons, d1]
      congr 1
      · funext σ
        rw [eval_ext i0 l1 _ σ v0]
        have := congrFun d0 σ
        exact this
      · apply List.map_congr_left
        intro y hy
        funext σ
        rw [eval_ext w l0 y _ (hx y (List.mem_cons_of_mem _ hy))]

theorem applyInterp_length (interp : List Nat) : ∀ (xs : List Nat) (s : Store),
    (applyInterp s interp xs).2.length = xs.length := by
  intro xs
  induction xs with
  | nil => intro s; rfl
  | cons x xs ih => intro s; simp only [applyInterp, List.length_cons, ih]

/-! ### the consistency test -/

theorem bad_iff (cur acr : List Nat) :
    ((cur.zip acr).any (fun (c, a) => isTV c && isTV a && (c != a))) = true ↔
      ∃ i b c, pget (toPA cur) i = some b ∧ pget (toPA acr) i = some c ∧ b ≠ c := by
  rw [List.any_eq_true]
  constructor
  · rintro ⟨⟨c, a⟩, hm, hp⟩
    obtain ⟨i, hi, he⟩ := List.getElem_of_mem hm
    rw [List.getElem_zip] at he
    have hi1 : i < cur.length := by rw [List.length_zip] at hi; omega
    have hi2 : i < acr.length := by rw [List.length_zip] at hi; omega
    simp only [Prod.mk.injEq] at he
    obtain ⟨rfl, rfl⟩ := he
    simp only [Bool.and_eq_true, bne_iff_ne, ne_eq] at hp
    obtain ⟨⟨h1, h2⟩, h3⟩ := hp
    rw [isTV_iff] at h1 h2
    cases hb : storeIsConst cur[i] with
    | none => rw [hb] at h1; cases h1
    | some b =>
      cases hc : storeIsConst acr[i] with
      | none => rw [hc] at h2; cases h2
      | some c =>
        refine ⟨i, b, c, by rw [pget_toPA hi1]; exact hb, by rw [pget_toPA hi2]; exact hc, ?_⟩
        intro e; subst e
        apply h3
        rw [eq_bit_of_const hb, eq_bit_of_const hc]
  · rintro ⟨i, b, c, hb, hc, hne⟩
    have hi1 : i < cur.length := by
      rcases Nat.lt_or_ge i cur.length with h | h
      · exact h
      · rw [pget_toPA_ge h] at hb; cases hb
    have hi2 : i < acr.length := by
      rcases Nat.lt_or_ge i acr.length with h | h
      · exact h
      · rw [pget_toPA_ge h] at hc; cases hc
    rw [pget_toPA hi1] at hb
    rw [pget_toPA hi2] at hc
    refine ⟨(cur[i], acr[i]), ?_, ?_⟩
    · have hz : i < (cur.zip acr).length := by rw [List.length_zip]; omega
      have := List.getElem_mem hz
      rw [List.getElem_zip] at this
      exact this
    · simp only [Bool.and_eq_true, bne_iff_ne, ne_eq]
      refine ⟨⟨by rw [isTV_iff, hb]; rfl, by rw [isTV_iff, hc]; rfl⟩, ?_⟩
      intro e
      rw [e, hc] at hb
      exact hne (Option.some.inj hb).symm

/-! ### canonicity on vectors -/

theorem vec_canonical {s : Store} (w : WF s) {u v : List Nat} (hu : ∀ t ∈ u, t < s.nodes.size)
    (hv : ∀ t ∈ v, t < s.nodes.size) (h : u.map (eval s) = v.map (eval s)) : u = v := by
  have hl : u.length = v.length := by simpa using congrArg List.length h
  apply List.ext_getElem hl
  intro i h1 h2
  apply (canonical s w u[i] v[i] (hu _ (List.getElem_mem h1)) (hv _ (List.getElem_mem h2))).mp
  intro σ
  have := congrArg (fun l => l[i]?) h
  simp only [List.getElem?_map, List.getElem?_eq_getElem h1, List.getElem?_eq_getElem h2, Option.map_some,
    Option.some.injEq] at this
  exact congrFun this σ

theorem map_eval_ext {s s' : Store} (w : WF s) (he : Ext s s') {v : List Nat} (hv : ∀ t ∈ v, t < s.nodes.size) :
    v.map (eval s') = v.map (eval s) := by
  apply List.map_congr_left
  intro t ht
  funext σ
  exact eval_ext w he t σ (hv t ht)

theorem all_isTV_iff (v : List Nat) : v.all isTV = twoV (toPA v) := by
  unfold twoV toPA
  rw [List.all_map]
  congr 1
  funext t
  simp [isTV_iff]

end NConc
