import AdfObdd.JsonProofs
import AdfObdd.PersistAnswers
/-! # export / import through the JSON TEXT, composed with the persistence model

`exportText` = `serde_json::to_string(&adf)` (with any whitespace: `print` is the case without),
`importText` = `serde_json::from_str::<Adf>`: `Json.parse`, then the two hash maps are collected
from the lists read (`vectorize::deserialize` = `from_iter`; serde's own map visitor inserts in
order) and the skipped fields get their defaults (`importB`).  The iteration orders of the two hash
maps are parameters `ml`, `cl`: any permutation of the map's entries. -/
namespace Json
open Persist Std

/-- collecting a permutation of a hash map's entries gives a map with the same lookups -/
theorem ofList_perm_get {α β : Type} [BEq α] [Hashable α] [LawfulBEq α] [LawfulHashable α]
    (m : HashMap α β) (l : List (α × β)) (h : l.Perm m.toList) (k : α) : (HashMap.ofList l)[k]? = m[k]? := by
  have hd : List.Pairwise (fun a b : α × β => (a.1 == b.1) = false) l :=
    (List.Perm.pairwise_iff (fun {x y} (hxy : (x.1 == y.1) = false) => by
      rw [BEq.comm]; exact hxy) h).mpr HashMap.distinct_keys_toList
  cases hk : m[k]? with
  | some v =>
    exact HashMap.getElem?_ofList_of_mem BEq.rfl hd (h.mem_iff.mpr (HashMap.mem_toList_iff_getElem?_eq_some.mpr hk))
  | none =>
    apply HashMap.getElem?_ofList_of_contains_eq_false
    have : (l.map Prod.fst).Perm m.keys := by
      rw [← HashMap.map_fst_toList_eq_keys]; exact h.map _
    rw [List.contains_eq_mem, decide_eq_false_iff_not, this.mem_iff, HashMap.mem_keys,
      HashMap.mem_iff_contains, HashMap.contains_eq_isSome_getElem?, hk]
    simp

/-- the object as serde sees it, the two maps in the orders `ml`, `cl` -/
def textOf (a : PAdf) (ml : List (String × Nat)) (cl : List (Node × Nat)) : TextAdf :=
  { names := a.names, mapping := ml, nodes := a.bdd.st.nodes.toList, cache := cl, ac := a.ac }

/-- `serde_json::to_string(&adf)`, whitespace `w` between the tokens (`noWs` = what serde writes) -/
def exportText (w : Nat → List Char) (a : PAdf) (ml : List (String × Nat)) (cl : List (Node × Nat)) : List Char :=
  render w 0 (toks (textOf a ml cl))

/-- `serde_json::from_str::<Adf>`: the object and its `mapping` -/
def importText (text : List Char) : Option (PAdf × HashMap String Nat) :=
  (parse text).map fun e =>
    ({ names := e.names, bdd := importB ⟨e.nodes.toArray, e.cache⟩, ac := e.ac }, HashMap.ofList e.mapping)

/-- every number written is a `usize` -/
def FitsA (a : PAdf) (ml : List (String × Nat)) (cl : List (Node × Nat)) : Prop := Fits (textOf a ml cl)

/-- for a well-formed store with at most 2^64 nodes, valid root handles and `usize` values in
`mapping`, every number written is a `usize` -/
theorem fitsA_of_wf (a : PAdf) (m : HashMap String Nat) (ml : List (String × Nat)) (cl : List (Node × Nat))
    (w : WF a.bdd.st) (hsz : a.bdd.st.nodes.size ≤ B64) (hv : ∀ t ∈ a.ac, t < a.bdd.st.nodes.size)
    (hm : ∀ (k : String) (v : Nat), m[k]? = some v → v < B64) (hml : ml.Perm m.toList) (hcl : cl.Perm a.bdd.st.uniq.toList) :
    FitsA a ml cl := by
  have node_fits : ∀ (i : Nat) (n : Node), a.bdd.st.nodes[i]? = some n → NodeFits n := by
    intro i n h
    have hi : i < a.bdd.st.nodes.size := by
      rcases Nat.lt_or_ge i a.bdd.st.nodes.size with h' | h'
      · exact h'
      · rw [Array.getElem?_eq_none h'] at h; cases h
    by_cases h0 : i = 0
    · subst h0; rw [w.bot] at h; cases h; simp [NodeFits, VBOT, B64]
    by_cases h1 : i = 1
    · subst h1; rw [w.top] at h; cases h; simp [NodeFits, VTOP, B64]
    have := w.inner i n (by omega) h
    have hb : VBOT < B64 := by simp [VBOT, B64]
    exact ⟨by omega, by omega, by omega⟩
  refine ⟨?_, ?_, ?_, ?_⟩
  · intro kv hkv
    exact hm kv.1 kv.2 (HashMap.mem_toList_iff_getElem?_eq_some.mp (hml.mem_iff.mp hkv))
  · intro n hn
    have hn' : n ∈ a.bdd.st.nodes.toList := hn
    have ⟨i, hi, e⟩ := List.getElem_of_mem hn'
    refine node_fits i n ?_
    rw [← e, ← Array.getElem?_toList, List.getElem?_eq_getElem hi]
  · intro q hq
    have h1 := HashMap.mem_toList_iff_getElem?_eq_some.mp (hcl.mem_iff.mp hq)
    have ⟨_, h2⟩ := (w.uniqOK q.1 q.2).mp h1
    refine ⟨node_fits q.2 q.1 h2, ?_⟩
    rcases Nat.lt_or_ge q.2 a.bdd.st.nodes.size with h' | h'
    · omega
    · rw [Array.getElem?_eq_none h'] at h2; cases h2
  · intro t ht
    have := hv t ht
    omega

/-- **the round trip through the text is the identity on the persisted state**: for every order
of the two hash maps, every whitespace between the tokens, every label (any Unicode strings) the
text is read back, and the object read has the names, the root handles and the node table of the
original, `mapping` and the unique table with the same lookups, and the skipped fields empty -/
theorem text_roundtrip (w : Nat → List Char) (hw : WsOnly w) (a : PAdf) (m : HashMap String Nat)
    (ml : List (String × Nat)) (cl : List (Node × Nat)) (hml : ml.Perm m.toList)
    (hcl : cl.Perm a.bdd.st.uniq.toList) (f : FitsA a ml cl) :
    ∃ a' m', importText (exportText w a ml cl) = some (a', m') ∧
      a'.names = a.names ∧ a'.ac = a.ac ∧ a'.bdd.st.nodes = a.bdd.st.nodes ∧
      (∀ n : Node, a'.bdd.st.uniq[n]? = a.bdd.st.uniq[n]?) ∧ (∀ k : String, m'[k]? = m[k]?) ∧
      a'.bdd.deps = #[] ∧ (∀ k : Nat, a'.bdd.cnt[k]? = none) ∧
      (∀ k : Nat × Nat × Bool, a'.bdd.st.resC[k]? = none) ∧ (∀ k : Nat × Nat × Nat, a'.bdd.st.iteC[k]? = none) := by
  refine ⟨{ names := a.names, bdd := importB ⟨a.bdd.st.nodes.toList.toArray, cl⟩, ac := a.ac }, HashMap.ofList ml,
    by simp only [importText, exportText, parse_render w hw _ f]; rfl, rfl, rfl, ?_, ?_, ?_, rfl,
    fun _ => HashMap.getElem?_empty, fun _ => HashMap.getElem?_empty, fun _ => HashMap.getElem?_empty⟩
  · simp [importB]
  · intro n; exact ofList_perm_get _ cl hcl n
  · intro k; exact ofList_perm_get m ml hml k

/-- the text-level import followed by `fix_import` -/
def importFixText (text : List Char) : Option PAdf := (importText text).map (fun p => fixImportA p.1)

/-- **import_fix from the text**: `to_string → from_str → fix_import` reproduces the node table
(same numbering), a unique table with the same lookups, empty memo tables, a well-formed store and
sound recomputed bookkeeping; names, `mapping` and root handles are the original's -/
theorem text_import_fix (w : Nat → List Char) (hw : WsOnly w) (a : PAdf) (m : HashMap String Nat)
    (ml : List (String × Nat)) (cl : List (Node × Nat)) (hml : ml.Perm m.toList)
    (hcl : cl.Perm a.bdd.st.uniq.toList) (f : FitsA a ml cl) (wf : WF a.bdd.st) :
    ∃ a' m', importText (exportText w a ml cl) = some (a', m') ∧
      importFixText (exportText w a ml cl) = some (fixImportA a') ∧
      (∀ k : String, m'[k]? = m[k]?) ∧
      let r := fixImportA a'
      r.names = a.names ∧ r.ac = a.ac ∧ r.bdd.st.nodes = a.bdd.st.nodes ∧
      (∀ n : Node, r.bdd.st.uniq[n]? = a.bdd.st.uniq[n]?) ∧
      (∀ k : Nat × Nat × Bool, r.bdd.st.resC[k]? = none) ∧ (∀ k : Nat × Nat × Nat, r.bdd.st.iteC[k]? = none) ∧
      Healthy r.bdd := by
  obtain ⟨a', m', h, hnm, hac, hn, hu, hmm, hd, hc, hr, hi⟩ := text_roundtrip w hw a m ml cl hml hcl f
  refine ⟨a', m', h, by simp [importFixText, h], hmm, hnm, hac, hn, hu, hr, hi, ?_⟩
  have wr : WF (fixImportA a').bdd.st := WF_of_same a.bdd.st _ wf hn hu hr hi
  refine ⟨wr, ?_, ?_⟩
  · have := genDeps_ok (fixImportA a').bdd.st wr.table
    simpa [fixImportA, fixImport, hd] using this
  · exact cntFix_full (fixImportA a').bdd.st wr.table _ (fun t r h => by rw [hc] at h; cases h)

/-- the object after the text round trip and the original have well-formed stores in which the
root handles denote the same Boolean functions: the hypothesis of every `SameFns.…` answer theorem -/
theorem text_sameFns (w : Nat → List Char) (hw : WsOnly w) (a : PAdf) (m : HashMap String Nat)
    (ml : List (String × Nat)) (cl : List (Node × Nat)) (hml : ml.Perm m.toList)
    (hcl : cl.Perm a.bdd.st.uniq.toList) (f : FitsA a ml cl) (wf : WF a.bdd.st)
    (hv : ∀ t ∈ a.ac, t < a.bdd.st.nodes.size) :
    ∃ r, importFixText (exportText w a ml cl) = some r ∧ r.names = a.names ∧ r.ac = a.ac ∧
      r.bdd.st.nodes = a.bdd.st.nodes ∧ SameFns a.bdd.st r.bdd.st a.ac := by
  obtain ⟨a', _, _, h, _, hnm, hac, hn, _, _, _, hh⟩ := text_import_fix w hw a m ml cl hml hcl f wf
  exact ⟨_, h, hnm, hac, hn, SameFns.ofNodes wf hh.wf hn hv⟩

end Json
