import AdfObdd.CliIO
import AdfObdd.CliModesProofs
import AdfObdd.JsonPersist
import AdfObdd.CallHistoryMemoFull
/-! # `CliM.runTextIO`: the file system is only ever extended by the requested path; export then
import prints the same lines; without the two options the run is `runText` -/
namespace CliM
open ParserM FromParser Cli CallH Persist Std CliMP

/-! ## the file system -/

theorem FS.get_cons (p q : Path) (c : List Char) (fs : FS) :
    FS.get ((p, c) :: fs) q = if p = q then some c else FS.get fs q := rfl

theorem FS.mem_paths_of_get {fs : FS} {p : Path} {c : List Char} (h : fs.get p = some c) : p ∈ fs.paths := by
  induction fs with
  | nil => cases h
  | cons x r ih =>
    obtain ⟨q, d⟩ := x
    rw [FS.get_cons] at h
    by_cases e : q = p
    · subst e; simp [FS.paths]
    · rw [if_neg e] at h
      have := ih h
      simp only [FS.paths, List.map_cons, List.mem_cons] at this ⊢
      exact Or.inr this

theorem FS.get_of_mem_paths {fs : FS} {p : Path} (h : p ∈ fs.paths) : ∃ c, fs.get p = some c := by
  induction fs with
  | nil => simp [FS.paths] at h
  | cons x r ih =>
    obtain ⟨q, d⟩ := x
    rw [FS.get_cons]
    by_cases e : q = p
    · exact ⟨d, by rw [if_pos e]⟩
    · rw [if_neg e]
      simp only [FS.paths, List.map_cons, List.mem_cons] at h
      rcases h with h | h
      · exact absurd h.symm e
      · exact ih h

theorem runObjIO_none (fuel : Nat) (io : InvIO) (ord : Orders) (o : NaiveObj) (fs : FS) (h : io.exportTo = none) :
    runObjIO fuel io ord o fs = ⟨outOn fuel io.inv o, fs, false⟩ := by
  unfold runObjIO; rw [h]

theorem runObjIO_has (fuel : Nat) (io : InvIO) (ord : Orders) (o : NaiveObj) (fs : FS) (p : Path)
    (h : io.exportTo = some p) (hx : fs.has p = true) :
    runObjIO fuel io ord o fs = ⟨outOn fuel io.inv o, fs, true⟩ := by
  unfold runObjIO; rw [h]; simp only [hx, if_true]

theorem runObjIO_free (fuel : Nat) (io : InvIO) (ord : Orders) (o : NaiveObj) (fs : FS) (p : Path)
    (h : io.exportTo = some p) (hx : fs.has p = false) :
    runObjIO fuel io ord o fs = ⟨outOn fuel io.inv o, (p, exportText o ord) :: fs, false⟩ := by
  unfold runObjIO; rw [h]; simp only [hx, Bool.false_eq_true, if_false]

/-- what `runObjIO` does to the file system: nothing, or exactly one new binding for the requested,
so far free, path, holding the JSON text of the object -/
theorem runObjIO_fs (fuel : Nat) (io : InvIO) (ord : Orders) (o : NaiveObj) (fs : FS) :
    ((runObjIO fuel io ord o fs).fs = fs ∧
      ((runObjIO fuel io ord o fs).refused = true ↔ ∃ p, io.exportTo = some p ∧ fs.has p = true)) ∨
    (∃ p, io.exportTo = some p ∧ fs.get p = none ∧ (runObjIO fuel io ord o fs).refused = false ∧
      (runObjIO fuel io ord o fs).fs = (p, exportText o ord) :: fs) := by
  cases he : io.exportTo with
  | none =>
    rw [runObjIO_none fuel io ord o fs he]
    exact Or.inl ⟨rfl, by simp⟩
  | some p =>
    cases hx : fs.has p with
    | true =>
      rw [runObjIO_has fuel io ord o fs p he hx]
      exact Or.inl ⟨rfl, by simp [hx]⟩
    | false =>
      rw [runObjIO_free fuel io ord o fs p he hx]
      refine Or.inr ⟨p, rfl, ?_, rfl, rfl⟩
      unfold FS.has at hx
      cases hg : fs.get p with
      | none => rfl
      | some c => rw [hg] at hx; simp at hx

theorem runObjIO_out (fuel : Nat) (io : InvIO) (ord : Orders) (o : NaiveObj) (fs : FS) :
    (runObjIO fuel io ord o fs).out = outOn fuel io.inv o := by
  cases he : io.exportTo with
  | none => rw [runObjIO_none fuel io ord o fs he]
  | some p =>
    cases hx : fs.has p with
    | true => rw [runObjIO_has fuel io ord o fs p he hx]
    | false => rw [runObjIO_free fuel io ord o fs p he hx]

/-- the file system after a run, all arms -/
theorem runTextIO_fs {T : Type} (W : World T) (fuel : Nat) (io : InvIO) (ord : Orders) (t : List Char) (fs : FS) :
    (runTextIO W fuel io ord t fs).fs = fs ∨
    (∃ p o, io.exportTo = some p ∧ fs.get p = none ∧ io.inv.mode = .naive ∧ objOf W io t = some o ∧
      (runTextIO W fuel io ord t fs).refused = false ∧
      (runTextIO W fuel io ord t fs).fs = (p, exportText o ord) :: fs) := by
  unfold runTextIO
  cases hm : io.inv.mode with
  | naive =>
    simp only
    cases ho : objOf W io t with
    | none => exact Or.inl rfl
    | some o =>
      simp only
      rcases runObjIO_fs fuel io ord o fs with h | ⟨p, h1, h2, h3, h4⟩
      · exact Or.inl h.1
      · exact Or.inr ⟨p, o, h1, h2, trivial, rfl, h3, h4⟩
  | biodivine => exact Or.inl rfl
  | hybrid => exact Or.inl rfl

/-! ## the sections do not depend on the memo tables (lock step on two stores with one node table) -/

/-- the library call behind a section of the naive arm -/
def callOf (fuel : Nat) (heu : SM.Heu) : Section → Call
  | .grd => .grounded
  | .com => .complete
  | .twoval => .ng heu fuel false
  | .stm => .stable
  | .stmca => .count true
  | .stmcb => .count false
  | .stmpre => .stablePre
  | .stmrew => .stable
  | .stmng => .ng heu fuel true

theorem secNaive_valid (fuel : Nat) (heu : SM.Heu) (n : Nat) (ac : List Nat) (sec : Section) (s : Store)
    (w : WF s) (hn : ac.length = n) (hv : ∀ a ∈ ac, a < s.nodes.size) :
    ∀ a ∈ ac, a < (secNaive fuel heu n ac sec s).1.nodes.size := by
  have hi : CallH.Inv ⟨s, n, ac, []⟩ := ⟨w, hn, hv, fun _ h => by cases h⟩
  have h := (runCall_step ⟨s, n, ac, []⟩ (callOf fuel heu sec) hi).1.ac
  cases sec <;> exact h

theorem secNaive_grd (fuel : Nat) (heu : SM.Heu) (n : Nat) (ac : List Nat) (s : Store) :
    secNaive fuel heu n ac .grd s = ((groundedLoop StoreRA (n + 1) s ac).1, [(groundedLoop StoreRA (n + 1) s ac).2]) := rfl
theorem secNaive_com (fuel : Nat) (heu : SM.Heu) (n : Nat) (ac : List Nat) (s : Store) :
    secNaive fuel heu n ac .com s = ((completeAll s n ac).1, (completeAll s n ac).2.2) := rfl
theorem secNaive_twoval (fuel : Nat) (heu : SM.Heu) (n : Nat) (ac : List Nat) (s : Store) :
    secNaive fuel heu n ac .twoval s = ((SM.ngSearch heu fuel s n ac false).1, (SM.ngSearch heu fuel s n ac false).2.1) := rfl
theorem secNaive_stmng (fuel : Nat) (heu : SM.Heu) (n : Nat) (ac : List Nat) (s : Store) :
    secNaive fuel heu n ac .stmng s = ((SM.ngSearch heu fuel s n ac true).1, (SM.ngSearch heu fuel s n ac true).2.1) := rfl
theorem secNaive_stm (fuel : Nat) (heu : SM.Heu) (n : Nat) (ac : List Nat) (s : Store) :
    secNaive fuel heu n ac .stm s = stableAll s n ac := rfl
theorem secNaive_stmrew (fuel : Nat) (heu : SM.Heu) (n : Nat) (ac : List Nat) (s : Store) :
    secNaive fuel heu n ac .stmrew s = stableAll s n ac := rfl
theorem secNaive_stmca (fuel : Nat) (heu : SM.Heu) (n : Nat) (ac : List Nat) (s : Store) :
    secNaive fuel heu n ac .stmca s = countAll s n ac true := rfl
theorem secNaive_stmcb (fuel : Nat) (heu : SM.Heu) (n : Nat) (ac : List Nat) (s : Store) :
    secNaive fuel heu n ac .stmcb s = countAll s n ac false := rfl
theorem secNaive_stmpre (fuel : Nat) (heu : SM.Heu) (n : Nat) (ac : List Nat) (s : Store) :
    secNaive fuel heu n ac .stmpre s = stablePre s n ac := rfl

theorem secNaive_lock (fuel : Nat) (heu : SM.Heu) (n : Nat) (ac : List Nat) (sec : Section) (s s' : Store)
    (h : Lk s s') (hn : ac.length = n) (hv : ∀ a ∈ ac, a < s.nodes.size) :
    Lk (secNaive fuel heu n ac sec s).1 (secNaive fuel heu n ac sec s').1 ∧
    (secNaive fuel heu n ac sec s').2 = (secNaive fuel heu n ac sec s).2 := by
  cases sec with
  | grd =>
    have ⟨a, _, _, d⟩ := groundedLoop_lock (n + 1) s s' ac h hv
    rw [secNaive_grd, secNaive_grd]
    exact ⟨a, by rw [d]⟩
  | com =>
    have ⟨a, d⟩ := completeAll_lock s s' n ac h hv
    rw [secNaive_com, secNaive_com]
    exact ⟨a, by rw [d]⟩
  | twoval =>
    have ⟨a, d⟩ := ngSearch_lock heu fuel s s' n ac false h hv
    rw [secNaive_twoval, secNaive_twoval]
    exact ⟨a, by rw [d]⟩
  | stm => rw [secNaive_stm, secNaive_stm]; exact stableAll_lock s s' n ac h hv
  | stmca => rw [secNaive_stmca, secNaive_stmca]; exact countAll_lock s s' n ac true h hn hv
  | stmcb => rw [secNaive_stmcb, secNaive_stmcb]; exact countAll_lock s s' n ac false h hn hv
  | stmpre => rw [secNaive_stmpre, secNaive_stmpre]; exact stablePre_lock s s' n ac h hv
  | stmrew => rw [secNaive_stmrew, secNaive_stmrew]; exact stableAll_lock s s' n ac h hv
  | stmng =>
    have ⟨a, d⟩ := ngSearch_lock heu fuel s s' n ac true h hv
    rw [secNaive_stmng, secNaive_stmng]
    exact ⟨a, by rw [d]⟩

/-- **the printed blocks are a function of the node table**: the same sections on two well-formed stores
with the same node table (memo tables and unique-table layout arbitrary) give the same list of blocks -
vectors, order, for every bound `fuel` (halted or not) -/
theorem runWith_lock (fuel : Nat) (heu : SM.Heu) (n : Nat) (ac : List Nat) (hn : ac.length = n) :
    ∀ (l : List Section) (acc acc' : Store × List Block), Lk acc.1 acc'.1 → acc'.2 = acc.2 →
      (∀ a ∈ ac, a < acc.1.nodes.size) →
      (runWith (secNaive fuel heu n ac) l acc').2 = (runWith (secNaive fuel heu n ac) l acc).2 := by
  intro l
  induction l with
  | nil => intro acc acc' _ e _; exact e
  | cons sec rest ih =>
    intro acc acc' h e hv
    simp only [runWith]
    have ⟨a, d⟩ := secNaive_lock fuel heu n ac sec acc.1 acc'.1 h hn hv
    exact ih _ _ a (by simp only [e, d]) (secNaive_valid fuel heu n ac sec acc.1 h.w hn hv)

/-! ## the object read back from its own export -/

theorem map_toList_ofList (l : List Label) : (l.map String.ofList).map String.toList = l := by
  induction l with
  | nil => rfl
  | cons x xs ih => simp only [List.map_cons, String.toList_ofList, ih]

/-- the object `importObj` builds from the export of `o` -/
def reimported (o : NaiveObj) (ord : Orders) : NaiveObj where
  names := (o.names.map String.ofList).map String.toList
  mapping := HashMap.ofList ord.ml
  store := (fixImport (importB ⟨o.store.nodes.toList.toArray, ord.cl⟩)).st
  ac := o.ac
  n := o.ac.length

/-- `--import` on the text `--export` wrote: the object read has the names, the conditions, `n` and the
NODE TABLE of the exporting object, and a well-formed store -/
theorem importObj_exportText (o : NaiveObj) (ord : Orders) (w : WF o.store) (hn : o.ac.length = o.n)
    (hcl : ord.cl.Perm o.store.uniq.toList) (f : Json.Fits (textAdfOf o ord)) :
    ∃ o', importObj (exportText o ord) = some o' ∧ o'.names = o.names ∧ o'.ac = o.ac ∧ o'.n = o.n ∧
      Lk o.store o'.store ∧ (∀ k : String, o'.mapping[k]? = (HashMap.ofList ord.ml)[k]?) := by
  refine ⟨reimported o ord,
    by simp only [importObj, exportText, Json.parse_print _ f]; rfl, map_toList_ofList _, rfl, hn, ?_,
    fun _ => rfl⟩
  refine ⟨w, ?_, ?_⟩
  · refine WF_of_same o.store _ w ?_ ?_ (fun _ => HashMap.getElem?_empty) (fun _ => HashMap.getElem?_empty)
    · simp [reimported, fixImport, importB]
    · intro nd
      exact Json.ofList_perm_get _ ord.cl hcl nd
  · simp [reimported, fixImport, importB]

/-- the two runs print the same: blocks (vectors, their order) and lines -/
theorem outOn_import_export (fuel : Nat) (i i' : Inv) (hf : i'.flags = i.flags) (hh : i'.heu = i.heu)
    (o o' : NaiveObj) (hnm : o'.names = o.names) (hac : o'.ac = o.ac) (hn' : o'.n = o.n) (lk : Lk o.store o'.store)
    (hn : o.ac.length = o.n) (hv : ∀ a ∈ o.ac, a < o.store.nodes.size) :
    blocksOn fuel i' o' = blocksOn fuel i o ∧ outOn fuel i' o' = outOn fuel i o := by
  have hb : blocksOn fuel i' o' = blocksOn fuel i o := by
    unfold blocksOn
    rw [hf, hh, hac, hn']
    exact runWith_lock fuel i.heu o.n o.ac hn (sections .naive i.flags) (o.store, []) (o'.store, []) lk rfl hv
  exact ⟨hb, by unfold outOn; rw [hb, hnm]⟩

/-! ## what the parsed object is -/

/-- the object `Adf::from_parser` builds from an accepted text is well formed, has one condition per
statement and valid root handles (for at most 2^64 − 2 statements) -/
theorem parsedObj_ok {T : Type} (W : World T) (han : ∀ ns, (W.anSort ns).Perm ns) (i : Inv) (t : List Char)
    (o : NaiveObj) (h : parsedObj W i t = some o) (hsz : o.names.length ≤ VBOT) :
    WF o.store ∧ o.ac.length = o.n ∧ o.n = o.names.length ∧ (∀ a ∈ o.ac, a < o.store.nodes.size) := by
  unfold parsedObj at h
  cases hp : parsed W i t with
  | none => rw [hp] at h; cases h
  | some st =>
    rw [hp] at h
    simp only at h
    cases hf : fromParser st with
    | none => rw [hf] at h; cases h
    | some b =>
      rw [hf] at h
      simp only [Option.map_some, Option.some.injEq] at h
      subst h
      simp only at hsz ⊢
      obtain ⟨fs, _, _, pres⟩ := parsed_pres W han i t st hp
      have hwf : WfOn (sortedNames W.anSort i.sort (namesOf fs)) (acsOf fs) := by
        rw [← workList_isSome_iff pres.p]
        cases hw : workList st with
        | none => rw [(fromParser_none_iff st).mpr hw] at hf; cases hf
        | some _ => rfl
      rw [pres.nl] at hsz
      obtain ⟨_, s, ac, _, hfp, hd, w, hl, hv, _⟩ := items_facts pres hwf hsz
      rw [hf] at hfp
      cases hfp
      exact ⟨w, by rw [hl, hd], by rw [hd, pres.nl], hv⟩

/-! ## without the options -/

theorem runTextIO_plain {T : Type} (W : World T) (fuel : Nat) (i : Inv) (e : Option Path) (ord : Orders)
    (t : List Char) (fs : FS) : (runTextIO W fuel ⟨i, e, false⟩ ord t fs).out = runText W fuel i t := by
  unfold runTextIO runText
  cases hm : i.mode with
  | naive =>
    simp only [objOf, parsedObj, runParsed, hm, Bool.false_eq_true, if_false]
    cases parsed W i t with
    | none => rfl
    | some st =>
      simp only [runNaive]
      cases fromParser st with
      | none => rfl
      | some b => simp only [Option.map_some]; rw [runObjIO_out]; rfl
  | biodivine => simp only
  | hybrid => simp only

theorem runTextIO_naive {T : Type} (W : World T) (fuel : Nat) (io : InvIO) (ord : Orders) (t : List Char) (fs : FS)
    (hm : io.inv.mode = .naive) (o : NaiveObj) (ho : objOf W io t = some o) :
    runTextIO W fuel io ord t fs = runObjIO fuel io ord o fs := by
  unfold runTextIO; rw [hm]; simp only [ho]

theorem runTextIO_naive_none {T : Type} (W : World T) (fuel : Nat) (io : InvIO) (ord : Orders) (t : List Char) (fs : FS)
    (hm : io.inv.mode = .naive) (ho : objOf W io t = none) :
    runTextIO W fuel io ord t fs = ⟨rejected, fs, false⟩ := by
  unfold runTextIO; rw [hm]; simp only [ho]

theorem runTextIO_other {T : Type} (W : World T) (fuel : Nat) (io : InvIO) (ord : Orders) (t : List Char) (fs : FS)
    (hm : io.inv.mode ≠ .naive) : runTextIO W fuel io ord t fs = ⟨runText W fuel io.inv t, fs, false⟩ := by
  unfold runTextIO
  cases h : io.inv.mode with
  | naive => exact absurd h hm
  | biodivine => rfl
  | hybrid => rfl

/-- existing files keep their content -/
theorem runTextIO_keeps {T : Type} (W : World T) (fuel : Nat) (io : InvIO) (ord : Orders) (t : List Char) (fs : FS)
    (q : Path) (c : List Char) (h : fs.get q = some c) : (runTextIO W fuel io ord t fs).fs.get q = some c := by
  rcases runTextIO_fs W fuel io ord t fs with e | ⟨p, o, _, hfree, _, _, _, e⟩
  · rw [e]; exact h
  · rw [e, FS.get_cons]
    have : p ≠ q := by intro hpq; subst hpq; rw [hfree] at h; cases h
    rw [if_neg this]; exact h

/-- every number of the export of a well-formed object with at most 2^64 nodes is a `usize` -/
theorem fits_of_ok (o : NaiveObj) (ord : Orders) (w : WF o.store) (hsz : o.store.nodes.size ≤ Json.B64)
    (hv : ∀ t ∈ o.ac, t < o.store.nodes.size) (hml : ∀ kv ∈ ord.ml, kv.2 < Json.B64)
    (hcl : ord.cl.Perm o.store.uniq.toList) : Json.Fits (textAdfOf o ord) := by
  have F := Json.fitsA_of_wf ⟨o.names.map String.ofList, ⟨o.store, #[], {}⟩, o.ac⟩ (∅ : HashMap String Nat) [] ord.cl
    w hsz hv (fun k v h => by simp at h) (by simp) hcl
  exact ⟨hml, F.nodes, F.cache, F.ac⟩

/-- **export, then import, from the built object on**: the run that exports a well-formed object to a free
path writes its JSON text there; a run with `--import` on that file (same section flags and heuristic;
any sorting flag, any further `--export`) prints the same blocks - vectors and order, whatever the
bound `fuel` - and hence the same lines with the same exit status -/
theorem export_then_import_obj {T : Type} (W : World T) (fuel : Nat) (io : InvIO) (i' : Inv)
    (hm' : i'.mode = .naive) (hf : i'.flags = io.inv.flags) (hh : i'.heu = io.inv.heu)
    (p : Path) (he : io.exportTo = some p) (ord ord' : Orders) (fs : FS) (free : fs.get p = none)
    (o : NaiveObj) (w : WF o.store) (hn : o.ac.length = o.n) (hv : ∀ a ∈ o.ac, a < o.store.nodes.size)
    (hcl : ord.cl.Perm o.store.uniq.toList) (fits : Json.Fits (textAdfOf o ord)) (e' : Option Path) :
    let r1 := runObjIO fuel io ord o fs
    r1.fs = (p, exportText o ord) :: fs ∧ r1.refused = false ∧ r1.out = outOn fuel io.inv o ∧
    (∃ o', importObj (exportText o ord) = some o' ∧ o'.names = o.names ∧ o'.ac = o.ac ∧
      o'.store.nodes = o.store.nodes ∧ blocksOn fuel i' o' = blocksOn fuel io.inv o) ∧
    (runFileIO W fuel ⟨i', e', true⟩ ord' p r1.fs).out = r1.out := by
  intro r1
  have hx : fs.has p = false := by unfold FS.has; rw [free]; rfl
  have e1 : r1 = ⟨outOn fuel io.inv o, (p, exportText o ord) :: fs, false⟩ := runObjIO_free fuel io ord o fs p he hx
  obtain ⟨o', hi, hnm, hac, hn', lk, _⟩ := importObj_exportText o ord w hn hcl fits
  have ⟨hb, ho⟩ := outOn_import_export fuel io.inv i' hf hh o o' hnm hac hn' lk hn hv
  refine ⟨by rw [e1], by rw [e1], by rw [e1], ⟨o', hi, hnm, hac, lk.nodes, hb⟩, ?_⟩
  rw [e1]
  simp only
  unfold runFileIO
  rw [FS.get_cons, if_pos rfl]
  simp only
  rw [runTextIO_naive W fuel ⟨i', e', true⟩ ord' _ _ hm' o' (by simp only [objOf, if_true]; exact hi), runObjIO_out]
  exact ho

end CliM
