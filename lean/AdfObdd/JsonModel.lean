import AdfObdd.Store
/-! # the JSON text of an exported `Adf` (C14/C15: `serde_json::to_writer` / `from_str`)

`#[derive(Serialize, Deserialize)] struct Adf { ordering, bdd, ac, #[serde(skip)] rng }` with
`VarContainer { names, mapping }`, `Bdd { nodes, #[serde(with = "vectorize")] cache, … skipped }`,
`BddNode { var, lo, hi }`, `Term(usize)` / `Var(usize)` (newtypes: the bare number).  serde_json's
compact writer produces

    {"ordering":{"names":[…],"mapping":{"a":0,…}},"bdd":{"nodes":[{"var":V,"lo":L,"hi":H},…],
     "cache":[[{"var":V,"lo":L,"hi":H},T],…]},"ac":[…]}

* text = `List Char` (Unicode scalar values; serde_json escapes only ASCII bytes, everything
  ≥ 0x80 passes through, so the code-point view and the UTF-8 byte view agree);
* `lex`: a one-pass state machine (whitespace ` \n\t\r` skipped between tokens, decimal numbers
  without leading zeros and below 2^64, strings with all JSON escapes; a raw control character
  inside a string, `-`, `.`, `e`, literals are rejected — serde rejects them for `usize` fields);
* `toks`: the token sequence of an exported object; `parseToks`: tokens → JSON value (`pJ`) →
  serde's derived visitors (`dAdf`: members in any order, unknown members skipped, repeated or
  missing members rejected, structs also as arrays); `parseStrictToks`: a reader for exactly the
  member order serde writes (kept for comparison, same result on `toks`);
* the two hash maps (`mapping`, `cache`) are written in the order of the lists handed to the
  printer: any order. -/
namespace Json

inductive Tok where
  | lb | rb | lk | rk | colon | comma
  | num (n : Nat)
  | str (s : List Char)
deriving DecidableEq, Repr

def B64 : Nat := 18446744073709551616

/-! ## characters -/

def isWs (c : Char) : Bool := c = ' ' || c = '\n' || c = '\t' || c = '\r'

def digitVal (c : Char) : Option Nat :=
  if 48 ≤ c.toNat ∧ c.toNat ≤ 57 then some (c.toNat - 48) else none

def digitChar (d : Nat) : Char := Char.ofNat (48 + d)

def hexVal (c : Char) : Option Nat :=
  if 48 ≤ c.toNat ∧ c.toNat ≤ 57 then some (c.toNat - 48)
  else if 97 ≤ c.toNat ∧ c.toNat ≤ 102 then some (c.toNat - 87)
  else if 65 ≤ c.toNat ∧ c.toNat ≤ 70 then some (c.toNat - 55)
  else none

def hexChar (d : Nat) : Char := if d < 10 then Char.ofNat (48 + d) else Char.ofNat (87 + d)

/-! ## printer: numbers, strings -/

/-- decimal digits, most significant first (`itoa`) -/
def digits (n : Nat) : List Char :=
  if n < 10 then [digitChar n] else digits (n / 10) ++ [digitChar (n % 10)]
termination_by n
decreasing_by omega

/-- serde_json's `ESCAPE` table -/
def escChar (c : Char) : List Char :=
  if c = '"' then ['\\', '"']
  else if c = '\\' then ['\\', '\\']
  else if c = '\x08' then ['\\', 'b']
  else if c = '\x0c' then ['\\', 'f']
  else if c = '\n' then ['\\', 'n']
  else if c = '\r' then ['\\', 'r']
  else if c = '\t' then ['\\', 't']
  else if c.toNat < 32 then ['\\', 'u', '0', '0', hexChar (c.toNat / 16), hexChar (c.toNat % 16)]
  else [c]

def escape (s : List Char) : List Char := s.flatMap escChar

def tokChars : Tok → List Char
  | .lb => ['{'] | .rb => ['}'] | .lk => ['['] | .rk => [']'] | .colon => [':'] | .comma => [',']
  | .num n => digits n
  | .str s => '"' :: (escape s ++ ['"'])

/-- tokens with the whitespace `w i` before the i-th token (and after the last) -/
def render (w : Nat → List Char) : Nat → List Tok → List Char
  | i, [] => w i
  | i, t :: ts => w i ++ (tokChars t ++ render w (i + 1) ts)

def noWs : Nat → List Char := fun _ => []

/-! ## lexer -/

inductive LS where
  | idle
  | zero                      -- a single `0` read
  | num (acc : Nat)           -- digits read, first one not `0`
  | str (acc : List Char)     -- inside a string, characters so far (reversed)
  | esc (acc : List Char)     -- after a backslash
  | uni (acc : List Char) (k : Nat) (code : Nat)   -- after `\u`, k hex digits read
deriving DecidableEq

def punct (c : Char) : Option Tok :=
  if c = '{' then some .lb else if c = '}' then some .rb else if c = '[' then some .lk
  else if c = ']' then some .rk else if c = ':' then some .colon else if c = ',' then some .comma
  else none

def stepIdle (c : Char) : Option (LS × List Tok) :=
  if isWs c then some (.idle, [])
  else if c = '"' then some (.str [], [])
  else match digitVal c with
    | some d => if d = 0 then some (.zero, []) else some (.num d, [])
    | none => match punct c with
      | some t => some (.idle, [t])
      | none => none

def step : LS → Char → Option (LS × List Tok)
  | .idle, c => stepIdle c
  | .zero, c =>
    match digitVal c with
    | some _ => none            -- leading zero
    | none => (stepIdle c).map (fun p => (p.1, Tok.num 0 :: p.2))
  | .num acc, c =>
    match digitVal c with
    | some d => some (.num (acc * 10 + d), [])
    | none => if acc < B64 then (stepIdle c).map (fun p => (p.1, Tok.num acc :: p.2)) else none
  | .str acc, c =>
    if c = '"' then some (.idle, [.str acc.reverse])
    else if c = '\\' then some (.esc acc, [])
    else if c.toNat < 32 then none
    else some (.str (c :: acc), [])
  | .esc acc, c =>
    if c = '"' then some (.str ('"' :: acc), [])
    else if c = '\\' then some (.str ('\\' :: acc), [])
    else if c = '/' then some (.str ('/' :: acc), [])
    else if c = 'b' then some (.str ('\x08' :: acc), [])
    else if c = 'f' then some (.str ('\x0c' :: acc), [])
    else if c = 'n' then some (.str ('\n' :: acc), [])
    else if c = 'r' then some (.str ('\r' :: acc), [])
    else if c = 't' then some (.str ('\t' :: acc), [])
    else if c = 'u' then some (.uni acc 0 0, [])
    else none
  | .uni acc k code, c =>
    match hexVal c with
    | none => none
    | some h =>
      let code' := code * 16 + h
      if k < 3 then some (.uni acc (k + 1) code', [])
      else if 0xD800 ≤ code' ∧ code' < 0xE000 then none   -- surrogate pairs: not supported here
      else some (.str (Char.ofNat code' :: acc), [])

def fin : LS → Option (List Tok)
  | .idle => some []
  | .zero => some [.num 0]
  | .num acc => if acc < B64 then some [.num acc] else none
  | _ => none

def run : LS → List Char → Option (List Tok)
  | st, [] => fin st
  | st, c :: cs =>
    match step st c with
    | none => none
    | some (st', out) =>
      match run st' cs with
      | none => none
      | some r => some (out ++ r)

def lex (text : List Char) : Option (List Tok) := run .idle text

/-! ## the exported object as lists, its tokens, the reader -/

structure TextAdf where
  names : List String
  mapping : List (String × Nat)
  nodes : List Node
  cache : List (Node × Nat)
  ac : List Nat
deriving DecidableEq, Repr

def kOrdering : List Char := ['o','r','d','e','r','i','n','g']
def kNames : List Char := ['n','a','m','e','s']
def kMapping : List Char := ['m','a','p','p','i','n','g']
def kBdd : List Char := ['b','d','d']
def kNodes : List Char := ['n','o','d','e','s']
def kCache : List Char := ['c','a','c','h','e']
def kAc : List Char := ['a','c']
def kVar : List Char := ['v','a','r']
def kLo : List Char := ['l','o']
def kHi : List Char := ['h','i']

/-- separated, non-empty part -/
def tSepTail {α : Type} (pr : α → List Tok → List Tok) : α → List α → List Tok → List Tok
  | x, [], r => pr x r
  | x, y :: ys, r => pr x (.comma :: tSepTail pr y ys r)

/-- `open x,y,z close` -/
def tSeq {α : Type} (op cl : Tok) (pr : α → List Tok → List Tok) : List α → List Tok → List Tok
  | [], r => op :: cl :: r
  | x :: xs, r => op :: tSepTail pr x xs (cl :: r)

def tStr (s : String) (r : List Tok) : List Tok := .str s.toList :: r
def tNum (n : Nat) (r : List Tok) : List Tok := .num n :: r
def tKV (kv : String × Nat) (r : List Tok) : List Tok := .str kv.1.toList :: .colon :: .num kv.2 :: r
def tNode (n : Node) (r : List Tok) : List Tok :=
  .lb :: .str kVar :: .colon :: .num n.var :: .comma :: .str kLo :: .colon :: .num n.lo :: .comma ::
  .str kHi :: .colon :: .num n.hi :: .rb :: r
def tPair (p : Node × Nat) (r : List Tok) : List Tok := .lk :: tNode p.1 (.comma :: .num p.2 :: .rk :: r)

def toks (e : TextAdf) : List Tok :=
  .lb :: .str kOrdering :: .colon :: .lb :: .str kNames :: .colon ::
    tSeq .lk .rk tStr e.names (.comma :: .str kMapping :: .colon ::
    tSeq .lb .rb tKV e.mapping (.rb :: .comma :: .str kBdd :: .colon :: .lb :: .str kNodes :: .colon ::
    tSeq .lk .rk tNode e.nodes (.comma :: .str kCache :: .colon ::
    tSeq .lk .rk tPair e.cache (.rb :: .comma :: .str kAc :: .colon ::
    tSeq .lk .rk tNum e.ac [.rb]))))

/-- serde_json's compact output -/
def print (e : TextAdf) : List Char := render noWs 0 (toks e)

abbrev P (α : Type) := List Tok → Option (α × List Tok)

def expect (t : Tok) : List Tok → Option (List Tok)
  | t' :: r => if t' = t then some r else none
  | [] => none

def pStr : P String
  | .str s :: r => some (String.ofList s, r)
  | _ => none
def pNum : P Nat
  | .num n :: r => some (n, r)
  | _ => none
def pKV : P (String × Nat)
  | .str s :: .colon :: .num n :: r => some ((String.ofList s, n), r)
  | _ => none
def pNode : P Node := fun ts => do
  let r ← expect .lb ts
  let r ← expect (.str kVar) r
  let r ← expect .colon r
  let (v, r) ← pNum r
  let r ← expect .comma r
  let r ← expect (.str kLo) r
  let r ← expect .colon r
  let (l, r) ← pNum r
  let r ← expect .comma r
  let r ← expect (.str kHi) r
  let r ← expect .colon r
  let (h, r) ← pNum r
  let r ← expect .rb r
  pure (⟨v, l, h⟩, r)
def pPair : P (Node × Nat) := fun ts => do
  let r ← expect .lk ts
  let (n, r) ← pNode r
  let r ← expect .comma r
  let (t, r) ← pNum r
  let r ← expect .rk r
  pure ((n, t), r)

/-- elements separated by commas up to the closing token (at least one element) -/
def pSepTail {α : Type} (p : P α) (cl : Tok) : Nat → P (List α)
  | 0, _ => none
  | f + 1, ts =>
    match p ts with
    | none => none
    | some (x, r) =>
      match r with
      | [] => none
      | t :: r' =>
        if t = cl then some ([x], r')
        else if t = .comma then
          match pSepTail p cl f r' with
          | none => none
          | some (xs, r'') => some (x :: xs, r'')
        else none

def pSeq {α : Type} (op cl : Tok) (p : P α) : P (List α) := fun ts =>
  match expect op ts with
  | none => none
  | some r =>
    match expect cl r with
    | some r' => some ([], r')
    | none => pSepTail p cl r.length r

def pAdf : P TextAdf := fun ts => do
  let r ← expect .lb ts
  let r ← expect (.str kOrdering) r
  let r ← expect .colon r
  let r ← expect .lb r
  let r ← expect (.str kNames) r
  let r ← expect .colon r
  let (names, r) ← pSeq .lk .rk pStr r
  let r ← expect .comma r
  let r ← expect (.str kMapping) r
  let r ← expect .colon r
  let (mapping, r) ← pSeq .lb .rb pKV r
  let r ← expect .rb r
  let r ← expect .comma r
  let r ← expect (.str kBdd) r
  let r ← expect .colon r
  let r ← expect .lb r
  let r ← expect (.str kNodes) r
  let r ← expect .colon r
  let (nodes, r) ← pSeq .lk .rk pNode r
  let r ← expect .comma r
  let r ← expect (.str kCache) r
  let r ← expect .colon r
  let (cache, r) ← pSeq .lk .rk pPair r
  let r ← expect .rb r
  let r ← expect .comma r
  let r ← expect (.str kAc) r
  let r ← expect .colon r
  let (ac, r) ← pSeq .lk .rk pNum r
  let r ← expect .rb r
  pure (⟨names, mapping, nodes, cache, ac⟩, r)

/-- the reader for the fixed field order (what serde writes); `parse` below uses the general one -/
def parseStrictToks (ts : List Tok) : Option TextAdf :=
  match pAdf ts with
  | some (e, []) => some e
  | _ => none

/-! ## the general reader: JSON values, then serde's derived `Deserialize`

serde's derived visitors take the fields of a struct in ANY order, skip unknown fields (older
exports carry `"count_cache":{}`), reject a repeated or a missing field, and also accept a struct
written as an array of its fields in declaration order. -/

inductive J where
  | num (n : Nat)
  | str (s : List Char)
  | arr (xs : List J)
  | obj (kvs : List (List Char × J))

mutual
def tJ : J → List Tok → List Tok
  | .num n, r => .num n :: r
  | .str s, r => .str s :: r
  | .arr [], r => .lk :: .rk :: r
  | .arr (x :: xs), r => .lk :: tJ x (tJs xs (.rk :: r))
  | .obj [], r => .lb :: .rb :: r
  | .obj ((k, v) :: kvs), r => .lb :: .str k :: .colon :: tJ v (tJm kvs (.rb :: r))
def tJs : List J → List Tok → List Tok
  | [], r => r
  | x :: xs, r => .comma :: tJ x (tJs xs r)
def tJm : List (List Char × J) → List Tok → List Tok
  | [], r => r
  | (k, v) :: kvs, r => .comma :: .str k :: .colon :: tJ v (tJm kvs r)
end

mutual
def pJ : Nat → List Tok → Option (J × List Tok)
  | 0, _ => none
  | _ + 1, .num n :: r => some (.num n, r)
  | _ + 1, .str s :: r => some (.str s, r)
  | _ + 1, .lk :: .rk :: r => some (.arr [], r)
  | f + 1, .lk :: r =>
    match pJ f r with
    | none => none
    | some (x, r) =>
      match pJs f r with
      | none => none
      | some (xs, r) => some (.arr (x :: xs), r)
  | _ + 1, .lb :: .rb :: r => some (.obj [], r)
  | f + 1, .lb :: .str k :: .colon :: r =>
    match pJ f r with
    | none => none
    | some (v, r) =>
      match pJm f r with
      | none => none
      | some (kvs, r) => some (.obj ((k, v) :: kvs), r)
  | _ + 1, _ => none
/-- after an element: `]`, or `,` and another element -/
def pJs : Nat → List Tok → Option (List J × List Tok)
  | 0, _ => none
  | _ + 1, .rk :: r => some ([], r)
  | f + 1, .comma :: r =>
    match pJ f r with
    | none => none
    | some (x, r) =>
      match pJs f r with
      | none => none
      | some (xs, r) => some (x :: xs, r)
  | _ + 1, _ => none
/-- after a member: `}`, or `,` and another member -/
def pJm : Nat → List Tok → Option (List (List Char × J) × List Tok)
  | 0, _ => none
  | _ + 1, .rb :: r => some ([], r)
  | f + 1, .comma :: .str k :: .colon :: r =>
    match pJ f r with
    | none => none
    | some (v, r) =>
      match pJm f r with
      | none => none
      | some (kvs, r) => some ((k, v) :: kvs, r)
  | _ + 1, _ => none
end

/-- the value of the one member named `k` (a second one: serde's "duplicate field") -/
def field (k : List Char) (o : List (List Char × J)) : Option J :=
  match o.filter (fun kv => kv.1 == k) with
  | [kv] => some kv.2
  | _ => none

def dNat : J → Option Nat
  | .num n => some n
  | _ => none
def dStr : J → Option String
  | .str s => some (String.ofList s)
  | _ => none
def dList {α : Type} (d : J → Option α) : J → Option (List α)
  | .arr xs => xs.mapM d
  | _ => none
def dNode : J → Option Node
  | .obj o => do
    let v ← (field kVar o).bind dNat
    let l ← (field kLo o).bind dNat
    let h ← (field kHi o).bind dNat
    pure ⟨v, l, h⟩
  | .arr [v, l, h] => do pure ⟨← dNat v, ← dNat l, ← dNat h⟩
  | _ => none
def dPair : J → Option (Node × Nat)
  | .arr [n, t] => do pure (← dNode n, ← dNat t)
  | _ => none
def dMap : J → Option (List (String × Nat))
  | .obj o => o.mapM (fun kv => (dNat kv.2).map (fun n => (String.ofList kv.1, n)))
  | _ => none
def dOrdering : J → Option (List String × List (String × Nat))
  | .obj o => do pure (← (field kNames o).bind (dList dStr), ← (field kMapping o).bind dMap)
  | .arr [n, m] => do pure (← dList dStr n, ← dMap m)
  | _ => none
def dBdd : J → Option (List Node × List (Node × Nat))
  | .obj o => do pure (← (field kNodes o).bind (dList dNode), ← (field kCache o).bind (dList dPair))
  | .arr [n, c] => do pure (← dList dNode n, ← dList dPair c)
  | _ => none
def dAdf : J → Option TextAdf
  | .obj o => do
    let ord ← (field kOrdering o).bind dOrdering
    let bdd ← (field kBdd o).bind dBdd
    let ac ← (field kAc o).bind (dList dNat)
    pure ⟨ord.1, ord.2, bdd.1, bdd.2, ac⟩
  | .arr [ord, bdd, ac] => do
    let ord ← dOrdering ord
    let bdd ← dBdd bdd
    let ac ← dList dNat ac
    pure ⟨ord.1, ord.2, bdd.1, bdd.2, ac⟩
  | _ => none

def parseToks (ts : List Tok) : Option TextAdf :=
  match pJ ts.length ts with
  | some (v, []) => dAdf v
  | _ => none

/-- `serde_json::from_str::<Adf>` on the text (trailing whitespace allowed, anything else after the
value is an error) -/
def parse (text : List Char) : Option TextAdf :=
  match lex text with
  | none => none
  | some ts => parseToks ts

/-- the JSON value serde builds the text from -/
def eNode (n : Node) : J := .obj [(kVar, .num n.var), (kLo, .num n.lo), (kHi, .num n.hi)]
def enc (e : TextAdf) : J :=
  .obj [(kOrdering, .obj [(kNames, .arr (e.names.map fun s => .str s.toList)),
                          (kMapping, .obj (e.mapping.map fun kv => (kv.1.toList, .num kv.2)))]),
        (kBdd, .obj [(kNodes, .arr (e.nodes.map eNode)),
                     (kCache, .arr (e.cache.map fun q => .arr [eNode q.1, .num q.2]))]),
        (kAc, .arr (e.ac.map .num))]

end Json

/-! evaluator tests (not theorems): the text of a real export, and rejections -/
#guard (Json.parse "{\"ordering\":{\"names\":[\"a\",\"b\",\"c\"],\"mapping\":{\"b\":1,\"c\":2,\"a\":0}},\"bdd\":{\"nodes\":[{\"var\":18446744073709551614,\"lo\":0,\"hi\":0},{\"var\":18446744073709551615,\"lo\":1,\"hi\":1},{\"var\":0,\"lo\":0,\"hi\":1},{\"var\":1,\"lo\":0,\"hi\":1},{\"var\":2,\"lo\":0,\"hi\":1},{\"var\":1,\"lo\":1,\"hi\":0},{\"var\":0,\"lo\":0,\"hi\":4}],\"cache\":[[{\"var\":1,\"lo\":1,\"hi\":0},5],[{\"var\":0,\"lo\":0,\"hi\":4},6],[{\"var\":2,\"lo\":0,\"hi\":1},4],[{\"var\":1,\"lo\":0,\"hi\":1},3],[{\"var\":0,\"lo\":0,\"hi\":1},2]]},\"ac\":[5,6,1]}".toList).map (fun e => (e.names, e.mapping, e.nodes.length, e.cache.length, e.ac)) == some (["a","b","c"], [("b",1),("c",2),("a",0)], 7, 5, [5,6,1])
#guard (Json.lex " [ 01 ] ".toList) == none
#guard (Json.lex " [ 10 , 0 ] ".toList) == some [.lk, .num 10, .comma, .num 0, .rk]
#guard (Json.lex "18446744073709551616".toList) == none
#guard (Json.lex "\"a\\u00e9\\n\\\"\"".toList) == some [.str ['a', 'é', '\n', '"']]
#guard Json.escape ['a', '"', '\\', '\x01', '\x1f', '\x7f', 'é', '\n'] == "a\\\"\\\\\\u0001\\u001f\x7fé\\n".toList
#guard (Json.parse "{\"ac\":[2],\"bdd\":{\"cache\":[[[0,0,1],2]],\"count_cache\":{},\"nodes\":[{\"hi\":0,\"var\":18446744073709551614,\"lo\":0},[18446744073709551615,1,1],{\"var\":0,\"lo\":0,\"hi\":1}]},\"ordering\":{\"mapping\":{\"a\":0},\"names\":[\"a\"]}}".toList).map (fun e => (e.names, e.mapping, e.nodes.length, e.cache, e.ac)) == some (["a"], [("a",0)], 3, [(⟨0,0,1⟩,2)], [2])
#guard (Json.parse "{\"ac\":[2],\"ac\":[2],\"bdd\":{\"cache\":[],\"nodes\":[]},\"ordering\":{\"mapping\":{},\"names\":[]}}".toList).isNone
#guard (Json.parse "{\"bdd\":{\"cache\":[],\"nodes\":[]},\"ordering\":{\"mapping\":{},\"names\":[]}}".toList).isNone
#guard (Json.parse "{\"ac\":[2,],\"bdd\":{\"cache\":[],\"nodes\":[]},\"ordering\":{\"mapping\":{},\"names\":[]}}".toList).isNone
#guard (Json.parse "[[[],{}],[[],[]],[]]".toList).isSome
