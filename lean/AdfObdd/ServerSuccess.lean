import AdfObdd.ServerModel
/-! # C16 — the success path of the background tasks (any environment)

What the final `update_one` of a parse / solve task stores when the library call succeeded, that it
touches the addressed document and (for a solve task) the addressed strategy only, and that `GET`
returns what is stored. Everything here holds in EVERY server state `db` (hence in every reachable
one) and for every environment; `ServerConcreteProofs.lean` instantiates it with the concrete
library models. Core Lean only. -/
namespace ServerM

theorem Results.get_set_same {R : Type} (r : Results R) (s : Strategy) (v : OWE R) : (r.set s v).get s = v := by
  cases s <;> rfl

theorem Results.get_set_other {R : Type} (r : Results R) (s s' : Strategy) (v : OWE R) (h : s' ≠ s) :
    (r.set s v).get s' = r.get s' := by
  cases s <;> cases s' <;> first | rfl | exact absurd rfl h

section
variable {T H A R : Type} [DecidableEq T]

theorem find_updFirst_same {α : Type} (q : α → Bool) (f : α → α) (hq : ∀ x, q x = true → q (f x) = true) :
    ∀ l : List α, (updFirst q f l).find? q = (l.find? q).map f := by
  intro l
  induction l with
  | nil => rfl
  | cons x xs ih =>
    by_cases h : q x = true
    · simp [updFirst, h, hq x h]
    · simp [updFirst, h, ih]

/-- a filter `q'` that the update does not disturb and that excludes the updated element sees no change -/
theorem find_updFirst_other {α : Type} (q q' : α → Bool) (f : α → α) (hq : ∀ x, q x = true → q' x = false)
    (hf : ∀ x, q' (f x) = q' x) : ∀ l : List α, (updFirst q f l).find? q' = l.find? q' := by
  intro l
  induction l with
  | nil => rfl
  | cons x xs ih =>
    by_cases h : q x = true
    · have h1 := hq x h
      have h2 : q' (f x) = false := by rw [hf]; exact h1
      simp [updFirst, h, h1, h2]
    · by_cases h' : q' x = true
      · simp [updFirst, h, h']
      · simp [updFirst, h, h', ih]

theorem isProb_apply (u n : T) (w : Write A R) (p : Problem T A R) : isProb u n (w.apply p) = isProb u n p := by
  cases w <;> rfl

theorem isProb_other {u n u' n' : T} (h : ¬ (u' = u ∧ n' = n)) (p : Problem T A R) (hp : isProb u n p = true) :
    isProb u' n' p = false := by
  simp only [isProb, Bool.and_eq_true, decide_eq_true_eq] at hp
  simp only [isProb, Bool.and_eq_false_iff, decide_eq_false_iff_not]
  rcases hp with ⟨h1, h2⟩
  by_cases hn : n' = n
  · right; rw [h2]; intro e; exact h ⟨e.symm, hn⟩
  · left; rw [h1]; intro e; exact hn e.symm

/-- the state after a task's final write, spelled out -/
theorem dbEv_write (E : Env T H A R) (db : Db T H A R) (j n : Nat) (t : TaskRec T A)
    (ht : nthOf j n db.tasks = some t) (hlive : t.blockingDone = true ∧ t.written = false) :
    (dbEv E db (.write j n)).problems =
      updFirst (isProb t.username t.name) (taskWrite E t.input).apply db.problems := by
  simp only [dbEv, ht, hlive.1, hlive.2, Bool.not_false, Bool.and_self, if_true, exec]

/-- **a successful parse task stores the parse result**: the final write of a parse task whose
library call returned `(a, r)` puts `a` into `adf` and `r` into `acs_per_strategy.parse_only` of the
addressed document; name, owner, code, parsing and all strategy results stay as they were -/
theorem parse_success_stored (E : Env T H A R) (db : Db T H A R) (j n : Nat) (t : TaskRec T A) (code : T)
    (parsing : Parsing) (a : A) (r : R) (ht : nthOf j n db.tasks = some t) (hin : t.input = .parse code parsing)
    (hlive : t.blockingDone = true ∧ t.written = false) (hok : E.parse parsing code = .ok (a, r))
    (p : Problem T A R) (hp : db.problems.find? (isProb t.username t.name) = some p) :
    (dbEv E db (.write j n)).problems.find? (isProb t.username t.name) =
      some { p with adf := .some a, parseOnly := .some r } := by
  rw [dbEv_write E db j n t ht hlive, find_updFirst_same _ _ (fun x hx => by rw [isProb_apply]; exact hx), hp]
  simp only [hin, taskWrite, hok]
  rfl

/-- **a successful solve task stores the library's answer under its strategy**: the final write of a
solve task for strategy `s` on the ADF `a` it was spawned with, whose library call returned `r`, sets
`acs_per_strategy.<s>` of the addressed document to `r` — the stored ADF, the parse-only result,
the code and the results of the other strategies (`solve_write_other_strategies`) stay as they were -/
theorem solve_success_stored (E : Env T H A R) (db : Db T H A R) (j n : Nat) (t : TaskRec T A) (a : A)
    (s : Strategy) (r : R) (ht : nthOf j n db.tasks = some t) (hin : t.input = .solve a s)
    (hlive : t.blockingDone = true ∧ t.written = false) (hok : E.solve a s = .ok r)
    (p : Problem T A R) (hp : db.problems.find? (isProb t.username t.name) = some p) :
    (dbEv E db (.write j n)).problems.find? (isProb t.username t.name) =
      some { p with res := p.res.set s (.some r) } := by
  rw [dbEv_write E db j n t ht hlive, find_updFirst_same _ _ (fun x hx => by rw [isProb_apply]; exact hx), hp]
  simp only [hin, taskWrite, hok]
  rfl

theorem solve_write_other_strategies (p : Problem T A R) (s s' : Strategy) (v : OWE R) (h : s' ≠ s) :
    ({ p with res := p.res.set s v } : Problem T A R).res.get s' = p.res.get s' :=
  Results.get_set_other _ _ _ _ h

/-- **… and nowhere else**: the document any OTHER (user, problem name) pair addresses is the same
before and after the write of a task (whatever the task, whatever it computed) -/
theorem write_elsewhere_unchanged (E : Env T H A R) (db : Db T H A R) (j n : Nat) (u' n' : T)
    (h : ∀ t, nthOf j n db.tasks = some t → ¬ (u' = t.username ∧ n' = t.name)) :
    (dbEv E db (.write j n)).problems.find? (isProb u' n') = db.problems.find? (isProb u' n') := by
  cases ht : nthOf j n db.tasks with
  | none => simp only [dbEv, ht]
  | some t =>
    by_cases hl : t.blockingDone = true ∧ t.written = false
    · rw [dbEv_write E db j n t ht hl]
      exact find_updFirst_other _ _ _ (isProb_other (h t ht)) (isProb_apply u' n' _) _
    · have : (t.blockingDone && !t.written) = false := by
        cases hb : t.blockingDone <;> cases hw : t.written <;> simp_all
      simp only [dbEv, ht, this, Bool.false_eq_true, if_false]

/-- users, the running set: not touched by a write -/
theorem write_users_running (E : Env T H A R) (db : Db T H A R) (j n : Nat) :
    (dbEv E db (.write j n)).users = db.users ∧ (dbEv E db (.write j n)).running = db.running := by
  cases ht : nthOf j n db.tasks with
  | none => simp only [dbEv, ht, and_self]
  | some t =>
    by_cases hl : (t.blockingDone && !t.written) = true
    · simp only [dbEv, ht, hl, if_true, exec, and_self]
    · have hl' : (t.blockingDone && !t.written) = false := by simpa using hl
      simp only [dbEv, ht, hl', Bool.false_eq_true, if_false, and_self]

/-- **`GET /adf/{name}` returns what is stored**: for the owner of a stored document the response is
200 with the document's code, parsing, parse-only result and the results of all six strategies -/
theorem get_returns_stored (E : Env T H A R) (st : State T H A R) (jar : Nat) (u name : T) (p : Problem T A R)
    (hs : st.sess jar = some u) (hf : st.db.problems.find? (isProb u name) = some p) :
    ∃ ts, (step E st ⟨jar, .get name⟩).2 = ⟨200, .keep, .problem ⟨p.name, p.code, p.parsing, p.parseOnly, p.res, ts⟩⟩ ∧
      (step E st ⟨jar, .get name⟩).1.db = st.db := by
  refine ⟨(exec st.db (.rTasks p.username p.name : Cmd T H A R)).2, ?_, ?_⟩ <;>
    simp only [step, stepT, handler, hGet, hs, run, exec, hf, infoOf]

/-- a `GET` changes nothing (so repeated gets return the same) -/
theorem get_no_change (E : Env T H A R) (st : State T H A R) (jar : Nat) (name : T) :
    (step E st ⟨jar, .get name⟩).1.db = st.db := by
  simp only [step, stepT, handler, hGet]
  cases hs : st.sess jar with
  | none => rfl
  | some u =>
    simp only [run, exec]
    cases hf : st.db.problems.find? (isProb u name) with
    | none => rfl
    | some p => rfl

/-- **the solve request spawns the task on the STORED framework**: if `PUT /adf/{name}/solve` is
accepted (200), the addressed document exists, holds a stored ADF `a`, and the task appended to the
task list is `solve a s` for exactly this user, problem and strategy; nothing else changes -/
theorem solve_accepted (E : Env T H A R) (st : State T H A R) (jar : Nat) (name : T) (s : Strategy)
    (h : (step E st ⟨jar, .solve name s⟩).2.status = 200) :
    ∃ u p a, st.sess jar = some u ∧ st.db.problems.find? (isProb u name) = some p ∧ p.adf = .some a ∧
      (step E st ⟨jar, .solve name s⟩).1.db.tasks =
        st.db.tasks ++ [{ jar := jar, username := u, name := name, input := .solve a s }] ∧
      (step E st ⟨jar, .solve name s⟩).1.db.problems = st.db.problems := by
  simp only [step, stepT, handler, hSolve] at h ⊢
  cases hs : st.sess jar with
  | none => rw [hs] at h; simp [run, reply] at h
  | some u =>
    rw [hs] at h
    simp only [run, exec] at h ⊢
    cases hf : st.db.problems.find? (isProb u name) with
    | none => rw [hf] at h; simp [run, reply] at h
    | some p =>
      rw [hf] at h
      simp only at h ⊢
      cases ha : p.adf with
      | none => rw [ha] at h; simp [run, reply] at h
      | error e => rw [ha] at h; simp [run, reply] at h
      | some a =>
        rw [ha] at h
        simp only [run, exec] at h ⊢
        by_cases hb : ((p.res.get s).isSome || st.db.running.any (isInfo ⟨u, name, .solve s⟩)) = true
        · simp [hb, run, reply] at h
        · refine ⟨u, p, a, rfl, hf, ha, ?_, ?_⟩ <;> simp [hb, run, exec, reply]

end
end ServerM
