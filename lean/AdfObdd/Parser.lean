/-! prototype 16: the formula parser (nom combinators on `List Char`) and its round trip -/

abbrev Inp := List Char
abbrev Prs (α : Type) := Inp → Option (α × Inp)

def tag (s : String) : Prs Unit := fun cs =>
  if s.toList.isPrefixOf cs then some ((), cs.drop s.toList.length) else none

def isAlnum (c : Char) : Bool := c.isAlphanum
def isWs (c : Char) : Bool := c == ' ' || c == '\t' || c == '\r' || c == '\n'

def alnum1 : Prs (List Char) := fun cs =>
  let w := cs.takeWhile isAlnum
  if w.isEmpty then none else some (w, cs.dropWhile isAlnum)

def ws0 : Prs Unit := fun cs => some ((), cs.dropWhile isWs)

/-- `delimited(tag("\""), take_until("\""), tag("\""))` or `alphanumeric1` -/
def atomic : Prs (List Char) := fun cs =>
  match cs with
  | '"' :: r =>
    if '"' ∈ r then some (r.takeWhile (· != '"'), (r.dropWhile (· != '"')).drop 1)
    else alnum1 cs
  | _ => alnum1 cs

inductive Formula where
  | top | bot
  | atom (l : List Char)
  | not (f : Formula)
  | and (a b : Formula) | or (a b : Formula) | imp (a b : Formula) | xor (a b : Formula) | iff (a b : Formula)
deriving Repr, DecidableEq

def comma : Prs Unit := fun cs =>
  (ws0 cs).bind fun x => (tag "," x.2).bind fun y => ws0 y.2

def orElse {α : Type} (p q : Prs α) : Prs α := fun cs =>
  match p cs with
  | some r => some r
  | none => q cs

def constantP : Prs Formula :=
  orElse (fun cs => (tag "c(v)" cs).map fun x => (Formula.top, x.2))
         (fun cs => (tag "c(f)" cs).map fun x => (Formula.bot, x.2))

/-- `preceded(tag(kw), formula_pair)` -/
def pairP (rec : Prs Formula) (kw : String) (mk : Formula → Formula → Formula) : Prs Formula := fun cs =>
  (tag kw cs).bind fun x0 => (tag "(" x0.2).bind fun x1 => (rec x1.2).bind fun a =>
  (comma a.2).bind fun x3 => (rec x3.2).bind fun b => (tag ")" b.2).bind fun x5 =>
  some (mk a.1 b.1, x5.2)

def negP (rec : Prs Formula) : Prs Formula := fun cs =>
  (tag "neg" cs).bind fun x0 => (tag "(" x0.2).bind fun x1 => (rec x1.2).bind fun a =>
  (tag ")" a.2).bind fun x3 => some (Formula.not a.1, x3.2)

def atomP : Prs Formula := fun cs => (atomic cs).map fun x => (Formula.atom x.1, x.2)

def formulaF : Nat → Prs Formula
  | 0 => fun _ => none
  | fuel+1 =>
    orElse constantP
    (orElse (pairP (formulaF fuel) "and" Formula.and)
    (orElse (pairP (formulaF fuel) "or" Formula.or)
    (orElse (pairP (formulaF fuel) "imp" Formula.imp)
    (orElse (pairP (formulaF fuel) "xor" Formula.xor)
    (orElse (pairP (formulaF fuel) "iff" Formula.iff)
    (orElse (negP (formulaF fuel)) atomP))))))

def parseFormula (s : String) : Option (Formula × String) :=
  (formulaF (s.length + 1) s.toList).map (fun (f, r) => (f, String.ofList r))

#eval parseFormula "and(or(neg(a),iff(\" iff left \",b)),xor(imp(c,d),e))"
#eval parseFormula "and(andy , c)"
#eval parseFormula "and(c(v),c(f)) rest"
#eval parseFormula "and(a,b"
