import AdfObdd.ServerNonintFull
/-! # C17 — clause (1) of the full noninterference statement: the alone run with RESERVED names

`nonint_rsv`: under the discipline of the full statement (`DisciplinedF`, conflicts permitted to BOTH
sides, the unused name proposals of authenticated `add`s included), what the jars `J` observe in the full run is
exactly `runRsv`: their own events executed on a state that holds nothing of anybody else except that
the user records of the others are present for the duration of each event.

The unwinding relation is the one of `ServerNonintJ` (`SimJ`, `NsInvJ`, `WithinJ` between the full state
`s` and the alone state `a`).  For an event of `J` whose names are regular, `stepEv_mineJ` is applied
twice: to `(s, a)` and to `(reserve rs a, a)`; the reserved records lie outside the name space, so all
three runs give the same response.  For a conflict of `J` (a name held by the others) the event is a
no-op both on `s` and on `reserve rs a` (`conflict_noop`) and the response depends only on the record
found under that name (`conflict_resp`), which is the same record.  Core Lean only. -/
namespace ServerM
section
variable {T H A R : Type} [DecidableEq T]

/-! ### reserved records lie outside the name space -/

theorem foreignUsers_out {S : T → Bool} {J : Nat → Bool} {s a : State T H A R} (sim : SimJ S J s a) :
    ∀ u ∈ foreignUsers s a, S u.username = false := by
  intro u hu
  simp only [foreignUsers, List.mem_filter, Bool.not_eq_true'] at hu
  cases hS : S u.username with
  | false => rfl
  | true =>
    exfalso
    have h1 : u ∈ s.db.users.filter (fun x => S x.username) := List.mem_filter.mpr ⟨hu.1, hS⟩
    rw [sim.db.users] at h1
    have h2 : a.db.users.any (isUser u.username) = true :=
      List.any_eq_true.mpr ⟨u, (List.mem_filter.mp h1).1, by simp [isUser]⟩
    rw [hu.2] at h2; cases h2

theorem foreignUsers_fresh (s a : State T H A R) :
    ∀ u ∈ a.db.users, (foreignUsers s a).any (isUser u.username) = false := by
  intro u hu
  cases h : (foreignUsers s a).any (isUser u.username) with
  | false => rfl
  | true =>
    exfalso
    obtain ⟨r, hr, hru⟩ := List.any_eq_true.mp h
    simp only [isUser, decide_eq_true_eq] at hru
    simp only [foreignUsers, List.mem_filter, Bool.not_eq_true'] at hr
    have : a.db.users.any (isUser r.username) = true :=
      List.any_eq_true.mpr ⟨u, hu, by simp [isUser, hru]⟩
    rw [hr.2] at this; cases this

theorem reserve_sim {S : T → Bool} {J : Nat → Bool} (rs : List (User T H)) (a : State T H A R)
    (hrs : ∀ u ∈ rs, S u.username = false) : SimJ S J (reserve rs a) a := by
  refine ⟨⟨?_, rfl, rfl, rfl⟩, fun _ _ => rfl⟩
  show (a.db.users ++ rs).filter _ = _
  rw [List.filter_append]
  have : rs.filter (fun u => S u.username) = [] := by
    rw [List.filter_eq_nil_iff]
    intro u hu; rw [hrs u hu]; simp
  rw [this, List.append_nil]

omit [DecidableEq T] in
theorem reserve_ns {S : T → Bool} {J : Nat → Bool} (rs : List (User T H)) (a : State T H A R)
    (h : NsInvJ S J a) : NsInvJ S J (reserve rs a) := ⟨h.mine, h.others, h.tasks⟩

theorem rs_not_S {S : T → Bool} (rs : List (User T H)) (hrs : ∀ u ∈ rs, S u.username = false) (n : T) (hn : S n = true) :
    rs.any (isUser n) = false := by
  cases h : rs.any (isUser n) with
  | false => rfl
  | true =>
    exfalso
    obtain ⟨r, hr, hrn⟩ := List.any_eq_true.mp h
    simp only [isUser, decide_eq_true_eq] at hrn
    have := hrs r hr
    rw [hrn, hn] at this; cases this

theorem unreserve_sim {S : T → Bool} {J : Nat → Bool} (rs : List (User T H)) (x : State T H A R)
    (hrs : ∀ u ∈ rs, S u.username = false) : SimJ S J (unreserve rs x) x := by
  refine ⟨⟨?_, rfl, rfl, rfl⟩, fun _ _ => rfl⟩
  show (x.db.users.filter _).filter _ = _
  rw [List.filter_filter]
  apply List.filter_congr
  intro u _
  cases hS : S u.username with
  | false => simp
  | true => simp [rs_not_S rs hrs u.username hS]

theorem unreserve_ns {S : T → Bool} {J : Nat → Bool} (rs : List (User T H)) (x : State T H A R)
    (h : NsInvJ S J x) : NsInvJ S J (unreserve rs x) := ⟨h.mine, h.others, h.tasks⟩

theorem unreserve_reserve (s a : State T H A R) : unreserve (foreignUsers s a) (reserve (foreignUsers s a) a) = a := by
  have hu : ((a.db.users ++ foreignUsers s a).filter (fun u => !((foreignUsers s a).any (isUser u.username)))) = a.db.users := by
    rw [List.filter_append]
    have h1 : a.db.users.filter (fun u => !((foreignUsers s a).any (isUser u.username))) = a.db.users := by
      rw [List.filter_eq_self]
      intro u hu; rw [foreignUsers_fresh s a u hu]; rfl
    have h2 : (foreignUsers s a).filter (fun u => !((foreignUsers s a).any (isUser u.username))) = [] := by
      rw [List.filter_eq_nil_iff]
      intro u hu
      have : (foreignUsers s a).any (isUser u.username) = true := List.any_eq_true.mpr ⟨u, hu, by simp [isUser]⟩
      rw [this]; simp
    rw [h1, h2, List.append_nil]
  obtain ⟨⟨us, ps, rn, ts⟩, se⟩ := a
  simp only [unreserve, reserve] at hu ⊢
  rw [hu]

/-! ### the alone state with reserved records stays within the name space plus the reserved records -/

def DbWithinP (P : User T H → Prop) (S : T → Bool) (J : Nat → Bool) (d : Db T H A R) : Prop :=
  (∀ u ∈ d.users, P u) ∧ (∀ p ∈ d.problems, S p.username = true) ∧
  (∀ i ∈ d.running, S i.username = true) ∧ (∀ t ∈ d.tasks, J t.jar = true)

theorem exec_withinP {P : User T H → Prop} {S : T → Bool} {J : Nat → Bool} (hP : ∀ u, S u.username = true → P u)
    (d : Db T H A R) (c : Cmd T H A R)
    (hc : CmdIn S J c) (h : DbWithinP P S J d) : DbWithinP P S J (exec d c).1 := by
  obtain ⟨hu, hp, hr, ht⟩ := h
  cases c with
  | uFind n => exact ⟨hu, hp, hr, ht⟩
  | uInsert u =>
    simp only [exec]
    split
    · exact ⟨hu, hp, hr, ht⟩
    · refine ⟨?_, hp, hr, ht⟩
      intro x hx
      rcases List.mem_append.mp hx with h | h
      · exact hu x h
      · simp only [List.mem_singleton] at h; subst h; exact hP _ hc
  | uReplace n u =>
    simp only [exec]
    split
    · exact ⟨hu, hp, hr, ht⟩
    · refine ⟨?_, hp, hr, ht⟩
      intro x hx
      rcases mem_updFirst _ _ _ x hx with h | ⟨y, _, _, h⟩
      · exact hu x h
      · subst h; exact hP _ hc.2
  | uDelete n => exact ⟨fun x hx => hu x (mem_delFirst _ _ x hx), hp, hr, ht⟩
  | pFindOne u n => exact ⟨hu, hp, hr, ht⟩
  | pFindAll u => exact ⟨hu, hp, hr, ht⟩
  | pInsert p =>
    refine ⟨hu, ?_, hr, ht⟩
    intro x hx
    simp only [exec] at hx
    rcases List.mem_append.mp hx with h | h
    · exact hp x h
    · simp only [List.mem_singleton] at h; subst h; exact hc
  | pSet u n w =>
    refine ⟨hu, ?_, hr, ht⟩
    intro x hx
    rcases mem_updFirst _ _ _ x hx with h | ⟨y, hy, _, h⟩
    · exact hp x h
    · subst h; rw [Write.apply_username]; exact hp y hy
  | pDeleteOne u n => exact ⟨hu, fun x hx => hp x (mem_delFirst _ _ x hx), hr, ht⟩
  | pDeleteAll u => exact ⟨hu, fun x hx => hp x (List.mem_filter.mp hx).1, hr, ht⟩
  | pRename u u' =>
    refine ⟨hu, ?_, hr, ht⟩
    intro x hx
    simp only [exec, List.mem_map] at hx
    obtain ⟨y, hy, rfl⟩ := hx
    split
    · exact hc.2
    · exact hp y hy
  | rContains i => exact ⟨hu, hp, hr, ht⟩
  | rTasks u n => exact ⟨hu, hp, hr, ht⟩
  | spawn t =>
    refine ⟨hu, hp, ?_, ?_⟩
    · intro x hx
      simp only [exec] at hx
      split at hx
      · exact hr x hx
      · rcases List.mem_append.mp hx with h | h
        · exact hr x h
        · simp only [List.mem_singleton] at h; subst h; exact hc.1
    · intro x hx
      simp only [exec] at hx
      rcases List.mem_append.mp hx with h | h
      · exact ht x h
      · simp only [List.mem_singleton] at h; subst h; exact hc.2

/-- an event of a jar in `J` with names in `S` keeps the database within `S` plus the extra records `P` -/
theorem stepEv_withinP (E : Env T H A R) {P : User T H → Prop} {S : T → Bool} {J : Nat → Bool} {a : State T H A R} (e : Event T)
    (hj : J e.jar = true) (hP : ∀ u, S u.username = true → P u)
    (hdb : DbWithinP P S J a.db) (ia : NsInvJ S J a) (hn : e.namesIn S) : DbWithinP P S J (stepEv E a e).1.db := by
  cases he : e with
  | req rq =>
    subst he
    simp only [Event.jar] at hj
    have hown := handler_owned E rq.jar (a.sess rq.jar) rq.req
    have hU : ∀ u, actor (a.sess rq.jar) rq.req = some u → S u = true := by
      intro u hu
      cases hq : rq.req with
      | add name code file parsing fu fp =>
        rw [hq] at hu
        have hn' : ∀ n ∈ reqNames rq.req, S n = true := hn
        rw [hq] at hn'
        simp only [actor, Option.some.injEq] at hu
        cases hs : a.sess rq.jar with
        | none => rw [hs] at hu; simp only [addUser] at hu; subst hu; exact hn' _ (by simp [reqNames])
        | some v => rw [hs] at hu; simp only [addUser] at hu; subst hu; exact ia.mine _ hj _ hs
      | _ => rw [hq] at hu; exact ia.mine _ hj u hu
    have hin := hown.mono (Q' := CmdIn S J) (P' := fun _ => True)
      (Owned.cmdIn hU hn hj) (fun _ _ => trivial)
    exact run_inv (DbWithinP P S J) (fun db c hc h => exec_withinP hP db c hc h) hin a.db hdb
  | finish k n =>
    obtain ⟨hu, hp, hr, ht⟩ := hdb
    simp only [stepEv, dbEv]
    cases nthOf k n a.db.tasks with
    | none => exact ⟨hu, hp, hr, ht⟩
    | some t =>
      simp only
      split
      · exact ⟨hu, hp, hr, ht⟩
      · refine ⟨hu, hp, ?_, ?_⟩
        · intro i hi; exact hr i (List.mem_filter.mp hi).1
        · exact within_updNthJ J k n (fun t => { t with blockingDone := true }) (fun _ => rfl) _ ht
  | write k n =>
    obtain ⟨hu, hp, hr, ht⟩ := hdb
    simp only [stepEv, dbEv]
    cases nthOf k n a.db.tasks with
    | none => exact ⟨hu, hp, hr, ht⟩
    | some t =>
      simp only
      split
      · refine ⟨hu, ?_, hr, ?_⟩
        · intro x hx
          rcases mem_updFirst _ _ _ x hx with h | ⟨y, hy, _, h⟩
          · exact hp x h
          · subst h; rw [Write.apply_username]; exact hp y hy
        · exact within_updNthJ J k n (fun t => { t with written := true }) (fun _ => rfl) _ ht
      · exact ⟨hu, hp, hr, ht⟩
  | timeout k n =>
    obtain ⟨hu, hp, hr, ht⟩ := hdb
    simp only [stepEv, dbEv]
    cases nthOf k n a.db.tasks with
    | none => exact ⟨hu, hp, hr, ht⟩
    | some t =>
      simp only
      split
      · refine ⟨hu, ?_, hr, ?_⟩
        · intro x hx
          rcases mem_updFirst _ _ _ x hx with h | ⟨y, hy, _, h⟩
          · exact hp x h
          · subst h; rw [Write.apply_username]; exact hp y hy
        · exact within_updNthJ J k n (fun t => { t with written := true }) (fun _ => rfl) _ ht
      · exact ⟨hu, hp, hr, ht⟩

/-! ### the record found under a name held by the others -/

theorem find_filter_of_imp {α : Type} (p q : α → Bool) (h : ∀ x, q x = true → p x = true) :
    ∀ l : List α, (l.filter p).find? q = l.find? q := by
  intro l
  induction l with
  | nil => rfl
  | cons x xs ih =>
    by_cases hq : q x = true
    · simp [List.filter_cons, h x hq, List.find?_cons, hq]
    · have hq' : q x = false := by simpa using hq
      by_cases hp : p x = true
      · simp [List.filter_cons, hp, List.find?_cons, hq', ih]
      · simp [List.filter_cons, hp, List.find?_cons, hq', ih]

/-- under a name outside the name space, the alone state with the reserved records finds exactly the
record the full state finds -/
theorem find_reserve {S : T → Bool} (s a : State T H A R) (w : ∀ u ∈ a.db.users, S u.username = true) (n : T)
    (hn : S n = false) :
    (reserve (foreignUsers s a) a).db.users.find? (isUser n) = s.db.users.find? (isUser n) := by
  show (a.db.users ++ foreignUsers s a).find? (isUser n) = _
  have h1 : a.db.users.find? (isUser n) = none := by
    rw [List.find?_eq_none]
    intro u hu hun
    simp only [isUser, decide_eq_true_eq] at hun
    have := w u hu
    rw [hun, hn] at this; cases this
  have h1' : a.db.users.any (isUser n) = false := by
    cases h : a.db.users.any (isUser n) with
    | false => rfl
    | true => obtain ⟨x, hx⟩ := find_of_any h; rw [h1] at hx; cases hx
  rw [List.find?_append, h1, Option.none_or]
  unfold foreignUsers
  apply find_filter_of_imp
  intro x hx
  simp only [isUser, decide_eq_true_eq] at hx
  rw [hx, h1']; rfl

/-- **the response to a conflicting request depends only on the session of its jar and on the record
found under the contested name** -/
theorem conflict_resp (E : Env T H A R) (st st' : State T H A R) (rq : Request T) (n : T)
    (hn : n ∈ evNames (.req rq)) (hc : Conflict E st (.req rq) n) (hg : ghostAdd st (.req rq) = false)
    (hsess : st.sess rq.jar = st'.sess rq.jar)
    (hfind : st.db.users.find? (isUser n) = st'.db.users.find? (isUser n)) :
    (step E st rq).2 = (step E st' rq).2 := by
  obtain ⟨hacc, hs, _⟩ := hc
  obtain ⟨x, hx⟩ := find_of_any hacc
  have hx' : st'.db.users.find? (isUser n) = some x := hfind ▸ hx
  obtain ⟨jar, r⟩ := rq
  simp only [Event.jar] at hs
  simp only at hsess
  cases r with
  | register v p salt =>
    simp only [evNames, reqNames, List.mem_singleton] at hn; subst hn
    simp only [step, stepT, handler, hRegister]
    split
    · rfl
    · simp only [run, exec, hx, hx', reply]
  | update v p salt =>
    simp only [evNames, reqNames, List.mem_singleton] at hn; subst hn
    simp only [step, stepT, handler, ← hsess]
    cases hid : st.sess jar with
    | none =>
      simp only [hUpdate]
      split <;> rfl
    | some u =>
      have hne : n ≠ u := fun h => hs (by rw [hid, h])
      simp only [hUpdate]
      split
      · rfl
      · simp only [ne_eq, hne, not_false_eq_true, if_true, run, exec, hx, hx', reply]
  | login v p =>
    simp only [evNames, reqNames, List.mem_singleton] at hn; subst hn
    simp only [step, stepT, handler, hLogin]
    split
    · rfl
    · simp only [run, exec, hx, hx']
      cases x.password with
      | none => rfl
      | some h => simp only; split <;> rfl
  | add name code file parsing fu fp =>
    simp only [evNames, reqNames, List.mem_singleton] at hn; subst hn
    simp only [ghostAdd, Option.isSome_eq_false_iff, Option.isNone_iff_eq_none] at hg
    have hg' : st'.sess jar = none := hsess ▸ hg
    simp only [step, stepT, handler, hg, hg', hAdd]
    split
    · rfl
    · split
      · rfl
      · simp only [run, exec, hx, hx', reply]
  | _ => simp [evNames, reqNames] at hn

/-- one regular event of a jar of `J` (names in the name space `S`): the full state, the alone state and the
alone state with the reserved records give the same response, and the unwinding relation is restored
after the reserved records are removed again -/
theorem rsv_step_mine (E : Env T H A R) {S : T → Bool} {J : Nat → Bool} {s a : State T H A R} (e : Event T)
    (hj : J e.jar = true) (sim' : SimJ S J s a) (is' : NsInvJ S J s) (ia' : NsInvJ S J a) (w' : WithinJ S J a)
    (hn : e.namesIn S) :
    (stepEv E s e).2 = (stepEv E (reserve (foreignUsers s a) a) e).2 ∧
    SimJ S J (stepEv E s e).1 (unreserve (foreignUsers s a) (stepEv E (reserve (foreignUsers s a) a) e).1) ∧
    NsInvJ S J (stepEv E s e).1 ∧
    NsInvJ S J (unreserve (foreignUsers s a) (stepEv E (reserve (foreignUsers s a) a) e).1) ∧
    WithinJ S J (unreserve (foreignUsers s a) (stepEv E (reserve (foreignUsers s a) a) e).1) := by
  have hrs := foreignUsers_out sim'
  have hm := stepEv_mineJ E e hj sim' is' ia' hn
  have hm2 := stepEv_mineJ E e hj (reserve_sim (foreignUsers s a) a hrs) (reserve_ns _ a ia') ia' hn
  have usim := unreserve_sim (J := J) (foreignUsers s a) (stepEv E (reserve (foreignUsers s a) a) e).1 hrs
  have sim2 : SimJ S J (stepEv E s e).1
      (unreserve (foreignUsers s a) (stepEv E (reserve (foreignUsers s a) a) e).1) :=
    ⟨hm.2.1.db.trans (hm2.2.1.db.symm.trans usim.db.symm),
     fun k hk => (hm.2.1.sess k hk).trans ((hm2.2.1.sess k hk).symm.trans (usim.sess k hk).symm)⟩
  have hwp := stepEv_withinP E (a := reserve (foreignUsers s a) a)
    (P := fun u => S u.username = true ∨ (foreignUsers s a).any (isUser u.username) = true) e hj (fun u h => Or.inl h)
    ⟨(by
        intro u hu
        rcases List.mem_append.mp hu with h | h
        · exact Or.inl (w'.users u h)
        · exact Or.inr (List.any_eq_true.mpr ⟨u, h, by simp [isUser]⟩)),
      w'.probs, w'.running, w'.tasks⟩ (reserve_ns _ a ia') hn
  have w2 : WithinJ S J (unreserve (foreignUsers s a) (stepEv E (reserve (foreignUsers s a) a) e).1) := by
    refine ⟨?_, hwp.2.1, hwp.2.2.1, ?_, hwp.2.2.2⟩
    · intro u hu
      have hu' := List.mem_filter.mp hu
      rcases hwp.1 u hu'.1 with h | h
      · exact h
      · rw [h] at hu'; simp at hu'
    · intro k hk
      have hke : e.jar ≠ k := by intro h; rw [h, hk] at hj; cases hj
      show (stepEv E (reserve (foreignUsers s a) a) e).1.sess k = none
      rw [stepEv_sess_other E _ e k hke]
      exact w'.sess k hk
  exact ⟨hm.1.trans hm2.1.symm, sim2, hm.2.2.1, unreserve_ns _ _ hm2.2.2.1, w2⟩

/-! ### the unwinding argument with reserved names -/

theorem nonint_rsv (E : Env T H A R) (J : Nat → Bool) (ghost : Bool) : ∀ (es : List (Event T)) (own : T → Option Nat) (s a : State T H A R),
    SimJ (spaceOfJ own J) J s a → NsInvJ (spaceOfJ own J) J s → NsInvJ (spaceOfJ own J) J a → WithinJ (spaceOfJ own J) J a →
    DisciplinedF E J true ghost own s es →
    obsJ J (runAll E s es).2 = runRsv E J s a es := by
  intro es
  induction es with
  | nil => intro _ s a _ _ _ _ _; rfl
  | cons e es ih =>
    intro own s a sim is ia w hd
    obtain ⟨hnames, hrest⟩ := hd
    by_cases hreg : ∀ n ∈ evNames e, (ownedByJ J (own n) = J e.jar) ∨ Free n s
    · -- all mentions regular
      rw [claimF_regular J own s e hreg] at hrest
      have hfree : ∀ n, spaceOfJ own J n ≠ spaceOfJ (fun n => if n ∈ evNames e then some e.jar else own n) J n → Free n s := by
        intro n hne
        by_cases hmem : n ∈ evNames e
        · rcases hreg n hmem with h | h
          · exfalso; apply hne
            simp only [spaceOfJ, hmem, if_true, ownedByJ]
            exact h
          · exact h
        · exfalso; apply hne; simp [spaceOfJ, hmem]
      obtain ⟨sim', is', ia', w'⟩ := rebaseJ sim is ia w hfree
      by_cases hj : J e.jar = true
      · have hn : e.namesIn (spaceOfJ (fun n => if n ∈ evNames e then some e.jar else own n) J) := by
          cases e with
          | req rq => intro n hn; simp [spaceOfJ, evNames, hn, ownedByJ]; exact hj
          | finish _ _ => trivial
          | write _ _ => trivial
          | timeout _ _ => trivial
        have hst := rsv_step_mine E e hj sim' is' ia' w' hn
        have hih := ih _ _ _ hst.2.1 hst.2.2.1 hst.2.2.2.1 hst.2.2.2.2 hrest
        have hL : (runAll E s (e :: es)).2 =
            (match (stepEv E s e).2 with | some r => [(e.jar, r)] | none => []) ++ (runAll E (stepEv E s e).1 es).2 := rfl
        have hR : runRsv E J s a (e :: es) =
            (match (stepEv E (reserve (foreignUsers s a) a) e).2 with | some r => [(e.jar, r)] | none => []) ++
              runRsv E J (stepEv E s e).1 (unreserve (foreignUsers s a) (stepEv E (reserve (foreignUsers s a) a) e).1) es := by
          simp only [runRsv]; exact if_pos hj
        rw [hL, hR, obsJ_append, hih, hst.1]
        cases (stepEv E (reserve (foreignUsers s a) a) e).2 with
        | none => simp [obsJ]
        | some r => simp [obsJ, hj]
      · have hj' : J e.jar = false := by simpa using hj
        have hn : e.namesIn (fun x => !spaceOfJ (fun n => if n ∈ evNames e then some e.jar else own n) J x) := by
          cases e with
          | req rq => intro n hn; simp [spaceOfJ, evNames, hn, ownedByJ]; exact hj'
          | finish _ _ => trivial
          | write _ _ => trivial
          | timeout _ _ => trivial
        have ho := stepEv_otherJ E e hj' sim' is' hn
        have hL : (runAll E s (e :: es)).2 =
            (match (stepEv E s e).2 with | some r => [(e.jar, r)] | none => []) ++ (runAll E (stepEv E s e).1 es).2 := rfl
        have hR : runRsv E J s a (e :: es) = runRsv E J (stepEv E s e).1 a es := by
          simp only [runRsv, hj', Bool.false_eq_true, if_false]
        rw [hL, hR, obsJ_append, ih _ _ _ ho.1 ho.2 ia' w' hrest]
        cases (stepEv E s e).2 with
        | none => simp [obsJ]
        | some r => simp [obsJ, hj']
    · -- a conflict
      have hex : ∃ n, n ∈ evNames e ∧ ¬ ((ownedByJ J (own n) = J e.jar) ∨ Free n s) := by
        apply Classical.byContradiction
        intro hne
        apply hreg
        intro n hn'
        apply Classical.byContradiction
        intro h'
        exact hne ⟨n, hn', h'⟩
      obtain ⟨n, hmem, hnot⟩ := hex
      have hc : (true = true ∨ J e.jar = false) ∧ (ghost = true ∨ ghostAdd s e = false) ∧ Conflict E s e n := by
        rcases hnames n hmem with h | h | h
        · exact absurd (Or.inl h) hnot
        · exact absurd (Or.inr h) hnot
        · exact h
      have hfun : claimF J own s e = own := by
        apply claimF_conflict
        intro m hm
        have : m = n := evNames_le_one e m hm n hmem
        subst this
        exact hnot
      rw [hfun] at hrest
      have hL : (runAll E s (e :: es)).2 =
          (match (stepEv E s e).2 with | some r => [(e.jar, r)] | none => []) ++ (runAll E (stepEv E s e).1 es).2 := rfl
      cases hg : ghostAdd s e with
      | true =>
        -- the unused proposal of an authenticated `add`: executed as the same request with the session's name
        obtain ⟨u, hu, hnm⟩ := ghost_names s e hg
        by_cases hj : J e.jar = true
        · have hjd : J (deghost s e).jar = true := by rw [deghost_jar]; exact hj
          have hn : (deghost s e).namesIn (spaceOfJ own J) := by
            apply namesIn_of_evNames
            intro m hm; rw [hnm, List.mem_singleton] at hm; subst hm
            exact is.mine _ hj _ hu
          have hst := rsv_step_mine E (deghost s e) hjd sim is ia w hn
          have hsr : s.sess e.jar = (reserve (foreignUsers s a) a).sess e.jar := sim.sess _ hj
          rw [stepEv_deghost, deghost_congr s (reserve (foreignUsers s a) a) e hsr, stepEv_deghost] at hst
          have hih := ih _ _ _ hst.2.1 hst.2.2.1 hst.2.2.2.1 hst.2.2.2.2 hrest
          have hR : runRsv E J s a (e :: es) =
              (match (stepEv E (reserve (foreignUsers s a) a) e).2 with | some r => [(e.jar, r)] | none => []) ++
                runRsv E J (stepEv E s e).1 (unreserve (foreignUsers s a) (stepEv E (reserve (foreignUsers s a) a) e).1) es := by
            simp only [runRsv]; exact if_pos hj
          rw [hL, hR, obsJ_append, hih, hst.1]
          cases (stepEv E (reserve (foreignUsers s a) a) e).2 with
          | none => simp [obsJ]
          | some r => simp [obsJ, hj]
        · have hj' : J e.jar = false := by simpa using hj
          have hjd : J (deghost s e).jar = false := by rw [deghost_jar]; exact hj'
          have hn : (deghost s e).namesIn (fun x => !spaceOfJ own J x) := by
            apply namesIn_of_evNames
            intro m hm; rw [hnm, List.mem_singleton] at hm; subst hm
            rw [is.others _ hj' _ hu]; rfl
          have ho := stepEv_otherJ E (deghost s e) hjd sim is hn
          rw [stepEv_deghost] at ho
          have hR : runRsv E J s a (e :: es) = runRsv E J (stepEv E s e).1 a es := by
            simp only [runRsv, hj', Bool.false_eq_true, if_false]
          rw [hL, hR, obsJ_append, ih _ _ _ ho.1 ho.2 ia w hrest]
          cases (stepEv E s e).2 with
          | none => simp [obsJ]
          | some r => simp [obsJ, hj']
      | false =>
      have hnoop := conflict_noop E s e n hmem hc.2.2 hg
      rw [hnoop] at hrest
      by_cases hj : J e.jar = true
      · -- the user himself mentions a name held by the others
        have hSn : spaceOfJ own J n = false := by
          cases h : spaceOfJ own J n with
          | false => rfl
          | true => exact absurd (Or.inl (by simpa [spaceOfJ, hj] using h)) hnot
        cases e with
        | req rq =>
          have hfind := find_reserve s a w.users n hSn
          have hsess : s.sess rq.jar = (reserve (foreignUsers s a) a).sess rq.jar := sim.sess rq.jar hj
          obtain ⟨x, hx⟩ := find_of_any hc.2.2.1
          have hacc' : hasAccount n (reserve (foreignUsers s a) a).db := by
            unfold hasAccount
            have hx2 := hfind.trans hx
            exact List.any_eq_true.mpr ⟨x, List.mem_of_find?_eq_some hx2, List.find?_some hx2⟩
          have hresp := conflict_resp E s (reserve (foreignUsers s a) a) rq n hmem hc.2.2 hg hsess hfind.symm
          have hlog' : loginOk E (reserve (foreignUsers s a) a) (.req rq) = false := by
            have h0 := hc.2.2.2.2
            obtain ⟨jar, r⟩ := rq
            cases r <;> first | rfl | (simp only [loginOk] at h0 ⊢; rw [← hresp]; exact h0)
          have hc' : Conflict E (reserve (foreignUsers s a) a) (.req rq) n :=
            ⟨hacc', by show (reserve (foreignUsers s a) a).sess rq.jar ≠ some n; rw [← hsess]; exact hc.2.2.2.1, hlog'⟩
          have hg' : ghostAdd (reserve (foreignUsers s a) a) (.req rq) = false := by
            obtain ⟨jar, r⟩ := rq
            cases r <;> first | rfl | (simp only [ghostAdd] at hg ⊢; rw [← hsess]; exact hg)
          have hnoop' := conflict_noop E (reserve (foreignUsers s a) a) (.req rq) n hmem hc' hg'
          have hR : runRsv E J s a (.req rq :: es) =
              (match (stepEv E (reserve (foreignUsers s a) a) (.req rq)).2 with | some r => [(rq.jar, r)] | none => []) ++
                runRsv E J (stepEv E s (.req rq)).1
                  (unreserve (foreignUsers s a) (stepEv E (reserve (foreignUsers s a) a) (.req rq)).1) es := by
            have hj0 : J rq.jar = true := hj
            simp only [runRsv, Event.jar]; exact if_pos hj0
          rw [hL, hR, obsJ_append, hnoop, hnoop', unreserve_reserve, ih own s a sim is ia w hrest]
          have : (stepEv E s (.req rq)).2 = (stepEv E (reserve (foreignUsers s a) a) (.req rq)).2 := by
            simp only [stepEv]; rw [hresp]
          rw [this]
          have hj0 : J rq.jar = true := hj
          cases (stepEv E (reserve (foreignUsers s a) a) (.req rq)).2 with
          | none => simp [obsJ]
          | some r => simp [obsJ, hj0, Event.jar]
        | finish _ _ => simp [evNames] at hmem
        | write _ _ => simp [evNames] at hmem
        | timeout _ _ => simp [evNames] at hmem
      · have hj' : J e.jar = false := by simpa using hj
        have hR : runRsv E J s a (e :: es) = runRsv E J (stepEv E s e).1 a es := by
          simp only [runRsv, hj', Bool.false_eq_true, if_false]
        rw [hL, hR, obsJ_append, hnoop, ih own s a sim is ia w hrest]
        cases (stepEv E s e).2 with
        | none => simp [obsJ]
        | some r => simp [obsJ, hj']

end
end ServerM
