import AdfObdd.Store
/-! canonicity, proved from the structural invariant of the bare node table (`TableWF`) so that
    it applies to tables dumped from the real store as well as to model stores -/

theorem eval_zero (s : Store) (σ : Asg) : eval s 0 σ = false := by
  simp [eval, evalF]
theorem eval_one (s : Store) (σ : Asg) : eval s 1 σ = true := by
  simp [eval, evalF]

namespace Tab

theorem evalF_fuel (s : Store) (h : TableWF s.nodes) :
    ∀ (t fuel : Nat) (σ : Asg), t < fuel → evalF s.nodes fuel t σ = evalF s.nodes (t+1) t σ := by
  intro t
  induction t using Nat.strongRecOn with
  | _ t ih =>
    intro fuel σ hlt
    cases fuel with
    | zero => omega
    | succ f =>
      unfold evalF
      by_cases h0 : t = 0
      · simp [h0]
      by_cases h1 : t = 1
      · simp [h1]
      simp only [h0, h1, if_false]
      cases hn : s.nodes[t]? with
      | none => rfl
      | some n =>
        simp only
        have ⟨_, hlo, hhi, _, _, _⟩ := h.inner t n (by omega) hn
        rw [ih n.hi hhi f σ (by omega), ih n.lo hlo f σ (by omega),
            ih n.hi hhi t σ (by omega), ih n.lo hlo t σ (by omega)]

theorem eval_node (s : Store) (h : TableWF s.nodes) (t : Nat) (n : Node) (ht : 2 ≤ t)
    (hn : s.nodes[t]? = some n) (σ : Asg) :
    eval s t σ = if σ n.var then eval s n.hi σ else eval s n.lo σ := by
  have ⟨_, hlo, hhi, _, _, _⟩ := h.inner t n ht hn
  unfold eval
  conv => lhs; unfold evalF
  have h0 : t ≠ 0 := by omega
  have h1 : t ≠ 1 := by omega
  simp only [h0, h1, if_false, hn]
  rw [evalF_fuel s h n.hi t σ hhi, evalF_fuel s h n.lo t σ hlo]


/-- Lemma A: eval t does not depend on variables below its top variable -/
theorem eval_indep (s : Store) (h : TableWF s.nodes) :
    ∀ (t : Nat) (n : Node), s.nodes[t]? = some n → ∀ σ σ' : Asg, (∀ x, n.var ≤ x → σ x = σ' x) →
      eval s t σ = eval s t σ' := by
  intro t
  induction t using Nat.strongRecOn with
  | _ t ih =>
    intro n hn σ σ' hag
    by_cases h0 : t = 0
    · subst h0; simp [eval_zero]
    by_cases h1 : t = 1
    · subst h1; simp [eval_one]
    have ht : 2 ≤ t := by omega
    have ⟨_, hlo, hhi, _, hvlo, hvhi⟩ := h.inner t n ht hn
    rw [eval_node s h t n ht hn, eval_node s h t n ht hn, hag n.var (Nat.le_refl _)]
    have hlen : t < s.nodes.size := by
      rcases Nat.lt_or_ge t s.nodes.size with h' | h'
      · exact h'
      · simp [Array.getElem?_eq_none h'] at hn
    have hl : ∃ m, s.nodes[n.lo]? = some m := ⟨s.nodes[n.lo]'(by omega), Array.getElem?_eq_getElem (by omega)⟩
    have hh : ∃ m, s.nodes[n.hi]? = some m := ⟨s.nodes[n.hi]'(by omega), Array.getElem?_eq_getElem (by omega)⟩
    obtain ⟨ml, hml⟩ := hl
    obtain ⟨mh, hmh⟩ := hh
    rw [ih n.hi hhi mh hmh σ σ' (fun x hx => hag x (by have := hvhi mh hmh; omega)),
        ih n.lo hlo ml hml σ σ' (fun x hx => hag x (by have := hvlo ml hml; omega))]


/-- children of an inner node, evaluated anywhere, equal the node evaluated at the updated assignment -/
theorem eval_lo (s : Store) (h : TableWF s.nodes) (t : Nat) (n : Node) (ht : 2 ≤ t)
    (hn : s.nodes[t]? = some n) (σ : Asg) : eval s n.lo σ = eval s t (upd σ n.var false) := by
  have ⟨_, hlo, _, _, hvlo, _⟩ := h.inner t n ht hn
  obtain ⟨m, hm⟩ := get_of_lt (ns := s.nodes) (i := n.lo) (by have := lt_of_get hn; omega)
  rw [eval_node s h t n ht hn]
  simp only [upd, if_true]
  apply eval_indep s h n.lo m hm
  intro x hx
  have := hvlo m hm
  simp only [upd]
  split <;> first | omega | rfl

theorem eval_hi (s : Store) (h : TableWF s.nodes) (t : Nat) (n : Node) (ht : 2 ≤ t)
    (hn : s.nodes[t]? = some n) (σ : Asg) : eval s n.hi σ = eval s t (upd σ n.var true) := by
  have ⟨_, _, hhi, _, _, hvhi⟩ := h.inner t n ht hn
  obtain ⟨m, hm⟩ := get_of_lt (ns := s.nodes) (i := n.hi) (by have := lt_of_get hn; omega)
  rw [eval_node s h t n ht hn]
  simp only [upd, if_true]
  apply eval_indep s h n.hi m hm
  intro x hx
  have := hvhi m hm
  simp only [upd]
  split <;> first | omega | rfl

/-- an inner node's function depends on its variable, given canonicity below it -/
theorem canon_aux (s : Store) (h : TableWF s.nodes) :
    ∀ (k a b : Nat), a < s.nodes.size → b < s.nodes.size → a ≤ k → b ≤ k →
      (∀ σ, eval s a σ = eval s b σ) → a = b := by
  intro k
  induction k using Nat.strongRecOn with
  | _ k ih =>
    -- helper: if an inner node t ≤ k agrees with a function independent of its variable, contradiction
    have key : ∀ (t : Nat) (n : Node), 2 ≤ t → t ≤ k → s.nodes[t]? = some n →
        (f : Asg → Bool) → (∀ σ, eval s t σ = f σ) →
        (∀ σ b, f (upd σ n.var b) = f σ) → False := by
      intro t n ht htk hn f hf hfi
      have ⟨_, hlo, hhi, hne, _, _⟩ := h.inner t n ht hn
      have hlen := lt_of_get hn
      apply hne
      apply ih (k - 1) (by omega) n.lo n.hi (by omega) (by omega) (by omega) (by omega)
      intro σ
      rw [eval_lo s h t n ht hn, eval_hi s h t n ht hn, hf, hf, hfi, hfi]
    intro a b ha hb hak hbk heq
    by_cases ha2 : a < 2
    · by_cases hb2 : b < 2
      · -- both constants
        have h0 := heq (fun _ => false)
        rcases Nat.lt_or_ge a 1 with h | h <;> rcases Nat.lt_or_ge b 1 with h' | h'
        · omega
        · have : a = 0 := by omega
          have : b = 1 := by omega
          subst_vars; simp [eval_zero, eval_one] at h0
        · have : a = 1 := by omega
          have : b = 0 := by omega
          subst_vars; simp [eval_zero, eval_one] at h0
        · omega
      · -- a const, b inner
        exfalso
        obtain ⟨n, hn⟩ := get_of_lt hb
        apply key b n (by omega) hbk hn (fun σ => eval s a σ) (fun σ => (heq σ).symm)
        intro σ c
        rcases Nat.lt_or_ge a 1 with h | h
        · have : a = 0 := by omega
          subst this; simp [eval_zero]
        · have : a = 1 := by omega
          subst this; simp [eval_one]
    · by_cases hb2 : b < 2
      · exfalso
        obtain ⟨n, hn⟩ := get_of_lt ha
        apply key a n (by omega) hak hn (fun σ => eval s b σ) heq
        intro σ c
        rcases Nat.lt_or_ge b 1 with h | h
        · have : b = 0 := by omega
          subst this; simp [eval_zero]
        · have : b = 1 := by omega
          subst this; simp [eval_one]
      · -- both inner
        obtain ⟨na, hna⟩ := get_of_lt ha
        obtain ⟨nb, hnb⟩ := get_of_lt hb
        have ⟨_, hloa, hhia, _, _, _⟩ := h.inner a na (by omega) hna
        have ⟨_, hlob, hhib, _, _, _⟩ := h.inner b nb (by omega) hnb
        rcases Nat.lt_trichotomy na.var nb.var with hv | hv | hv
        · exfalso
          apply key a na (by omega) hak hna (fun σ => eval s b σ) heq
          intro σ c
          apply eval_indep s h b nb hnb
          intro x hx; simp only [upd]; split <;> first | omega | rfl
        · -- same variable: children agree pairwise
          have hl : na.lo = nb.lo := by
            apply ih (k-1) (by omega) na.lo nb.lo (by omega) (by omega) (by omega) (by omega)
            intro σ
            rw [eval_lo s h a na (by omega) hna, eval_lo s h b nb (by omega) hnb, hv, heq]
          have hh : na.hi = nb.hi := by
            apply ih (k-1) (by omega) na.hi nb.hi (by omega) (by omega) (by omega) (by omega)
            intro σ
            rw [eval_hi s h a na (by omega) hna, eval_hi s h b nb (by omega) hnb, hv, heq]
          have : na = nb := by
            cases na; cases nb; simp_all
          apply h.nodup a b na (by omega) (by omega) hna (this ▸ hnb)
        · exfalso
          apply key b nb (by omega) hbk hnb (fun σ => eval s a σ) (fun σ => (heq σ).symm)
          intro σ c
          apply eval_indep s h a na hna
          intro x hx; simp only [upd]; split <;> first | omega | rfl

/-- C06 core: canonicity -/
theorem canonical (s : Store) (h : TableWF s.nodes) (a b : Nat)
    (ha : a < s.nodes.size) (hb : b < s.nodes.size) :
    (∀ σ, eval s a σ = eval s b σ) ↔ a = b := by
  constructor
  · exact canon_aux s h (max a b) a b ha hb (Nat.le_max_left _ _) (Nat.le_max_right _ _)
  · intro h; subst h; intro σ; rfl


end Tab

/-! the same facts under the full store invariant (the names the rest of the development uses) -/
theorem evalF_fuel (s : Store) (h : WF s) :
    ∀ (t fuel : Nat) (σ : Asg), t < fuel → evalF s.nodes fuel t σ = evalF s.nodes (t+1) t σ :=
  Tab.evalF_fuel s h.table
theorem eval_node (s : Store) (h : WF s) (t : Nat) (n : Node) (ht : 2 ≤ t)
    (hn : s.nodes[t]? = some n) (σ : Asg) :
    eval s t σ = if σ n.var then eval s n.hi σ else eval s n.lo σ :=
  Tab.eval_node s h.table t n ht hn σ
theorem eval_indep (s : Store) (h : WF s) :
    ∀ (t : Nat) (n : Node), s.nodes[t]? = some n → ∀ σ σ' : Asg, (∀ x, n.var ≤ x → σ x = σ' x) →
      eval s t σ = eval s t σ' :=
  Tab.eval_indep s h.table
theorem eval_lo (s : Store) (h : WF s) (t : Nat) (n : Node) (ht : 2 ≤ t)
    (hn : s.nodes[t]? = some n) (σ : Asg) : eval s n.lo σ = eval s t (upd σ n.var false) :=
  Tab.eval_lo s h.table t n ht hn σ
theorem eval_hi (s : Store) (h : WF s) (t : Nat) (n : Node) (ht : 2 ≤ t)
    (hn : s.nodes[t]? = some n) (σ : Asg) : eval s n.hi σ = eval s t (upd σ n.var true) :=
  Tab.eval_hi s h.table t n ht hn σ
theorem canon_aux (s : Store) (h : WF s) :
    ∀ (k a b : Nat), a < s.nodes.size → b < s.nodes.size → a ≤ k → b ≤ k →
      (∀ σ, eval s a σ = eval s b σ) → a = b :=
  Tab.canon_aux s h.table
/-- C06 core: canonicity -/
theorem canonical (s : Store) (h : WF s) (a b : Nat)
    (ha : a < s.nodes.size) (hb : b < s.nodes.size) :
    (∀ σ, eval s a σ = eval s b σ) ↔ a = b :=
  Tab.canonical s h.table a b ha hb

#print axioms canonical
