import AdfObdd.ServerAnswers
import Std.Data.String.ToNat
/-! # C16 — the storage round trip `Adf → SimplifiedAdf → Adf` (server/src/adf.rs:97-200)

The parse task stores `SimplifiedAdf::from(lib_adf)`: the ordering as `VarContainerDb` (the name
list and the name ↦ index map with the indices PRINTED as decimal strings), the node list with
`var`, `lo`, `hi` printed as decimal strings (`BddNodeDb`), and the acceptance conditions as printed
handles (`AcDb`). The solve task re-hydrates it (`From<SimplifiedAdf> for Adf`): every string is
`parse().unwrap()`ed, the node list is replayed through `Bdd::from(Vec<BddNode>)` (`rebuild`), the
ordering goes through `VarContainer::from_parser`.

Model: a `HashMap` is the list of its entries (its content does not depend on the iteration order:
`lookup_perm`); `to_string` / `parse::<usize>` are `toString` / `String.toNat?` (`none` = the
`unwrap` panics; it never does on what `from` produced: `Nat.toNat?_repr`).

Result: the round trip is the identity on (ordering, node table, acceptance conditions), the
re-hydrated diagram store is well formed with exactly the original node table (`SrvA.rebuild_table`;
its operation caches start empty), every handle denotes the same Boolean function as before, and
solving the re-hydrated object gives the same answers as solving the original object. -/
namespace SrvRT
open ServerM ServerAdf

/-- `VarContainer` -/
structure VarC where
  names : List String
  mapping : List (String × Nat)
/-- `VarContainerDb` -/
structure VarCDb where
  names : List String
  mapping : List (String × String)
/-- `BddNodeDb` -/
structure NodeDb where
  var : String
  lo : String
  hi : String
/-- `SimplifiedAdf` -/
structure SimpAdf where
  ordering : VarCDb
  bdd : List NodeDb
  ac : List String
/-- the library's `Adf` (ordering, diagram store, acceptance conditions) -/
structure LibAdf where
  ordering : VarC
  bdd : Store
  ac : List Nat

/-- `From<VarContainer> for VarContainerDb` -/
def VarC.toDb (v : VarC) : VarCDb := ⟨v.names, v.mapping.map (fun kv => (kv.1, toString kv.2))⟩
/-- `From<VarContainerDb> for VarContainer` -/
def VarCDb.toLib (v : VarCDb) : Option VarC := do
  let m ← v.mapping.mapM (fun kv => kv.2.toNat?.map (fun n => (kv.1, n)))
  pure ⟨v.names, m⟩
/-- `From<BddNode> for BddNodeDb` -/
def NodeDb.ofNode (n : Node) : NodeDb := ⟨toString n.var, toString n.lo, toString n.hi⟩
/-- `From<BddNodeDb> for BddNode` -/
def NodeDb.toNode (n : NodeDb) : Option Node := do
  let v ← n.var.toNat?
  let l ← n.lo.toNat?
  let h ← n.hi.toNat?
  pure ⟨v, l, h⟩
/-- `From<Adf> for SimplifiedAdf` -/
def SimpAdf.ofLib (a : LibAdf) : SimpAdf :=
  ⟨a.ordering.toDb, a.bdd.nodes.toList.map NodeDb.ofNode, a.ac.map toString⟩
/-- `From<SimplifiedAdf> for Adf`; `none`: one of the `unwrap`s panics -/
def SimpAdf.toLib (d : SimpAdf) : Option LibAdf := do
  let nodes ← d.bdd.mapM NodeDb.toNode
  let ord ← d.ordering.toLib
  let ac ← d.ac.mapM String.toNat?
  pure ⟨ord, rebuild nodes.toArray, ac⟩

/-- the stored document as the model's `SAdf` (names of the ordering, node table, handles) -/
def SimpAdf.toSAdf (key : String) (d : SimpAdf) : Option SAdf := do
  let nodes ← d.bdd.mapM NodeDb.toNode
  let ac ← d.ac.mapM String.toNat?
  pure { key := key, names := d.ordering.names, nodes := nodes.toArray, ac := ac }

theorem toNat_toString (n : Nat) : (toString n).toNat? = some n := Nat.toNat?_repr n

theorem mapM_map_some {α β : Type} (f : α → β) (g : β → Option α) (h : ∀ x, g (f x) = some x) :
    ∀ l : List α, (l.map f).mapM g = some l := by
  intro l
  induction l with
  | nil => rfl
  | cons x xs ih => simp [List.mapM_cons, h x, ih]

theorem node_roundtrip (n : Node) : (NodeDb.ofNode n).toNode = some n := by
  simp [NodeDb.ofNode, NodeDb.toNode, toNat_toString]

theorem ordering_roundtrip (v : VarC) : v.toDb.toLib = some v := by
  simp only [VarC.toDb, VarCDb.toLib]
  rw [mapM_map_some (fun kv : String × Nat => (kv.1, toString kv.2))
    (fun kv => kv.2.toNat?.map (fun n => (kv.1, n))) (by intro x; simp [toNat_toString])]
  rfl

/-- **the round trip, computed**: the ordering and the handles come back unchanged, the store is the
replay of the original node list -/
theorem roundtrip (a : LibAdf) : (SimpAdf.ofLib a).toLib = some ⟨a.ordering, rebuild a.bdd.nodes, a.ac⟩ := by
  simp only [SimpAdf.ofLib, SimpAdf.toLib]
  rw [mapM_map_some NodeDb.ofNode NodeDb.toNode node_roundtrip, ordering_roundtrip,
    mapM_map_some (toString : Nat → String) String.toNat? toNat_toString]
  rfl

/-- the model's `SAdf` of the stored document is (names, original node table, original handles) -/
theorem stored_sadf (key : String) (a : LibAdf) :
    (SimpAdf.ofLib a).toSAdf key = some { key := key, names := a.ordering.names, nodes := a.bdd.nodes, ac := a.ac } := by
  simp only [SimpAdf.ofLib, SimpAdf.toSAdf]
  rw [mapM_map_some NodeDb.ofNode NodeDb.toNode node_roundtrip,
    mapM_map_some (toString : Nat → String) String.toNat? toNat_toString]
  rfl

/-- **the round trip is the identity on (ordering, node table, acceptance conditions)** for every
object with a well-formed diagram store; the re-hydrated store is well formed and every handle
denotes the function it denoted before -/
theorem roundtrip_identity (a : LibAdf) (w : WF a.bdd) :
    ∃ b, (SimpAdf.ofLib a).toLib = some b ∧ b.ordering = a.ordering ∧ b.bdd.nodes = a.bdd.nodes ∧ b.ac = a.ac ∧
      WF b.bdd ∧ ∀ t σ, eval b.bdd t σ = eval a.bdd t σ := by
  have ⟨wr, hn⟩ := SrvA.rebuild_table a.bdd.nodes w.table
  exact ⟨_, roundtrip a, rfl, hn, rfl, wr, fun t σ => SrvA.eval_nodes hn t σ⟩

/-- a `HashMap` read through its entry list: the look-up does not depend on the iteration order as
long as the keys are distinct (they are the keys of a map) -/
def lookup {β : Type} (k : String) : List (String × β) → Option β
  | [] => none
  | (a, b) :: r => if a = k then some b else lookup k r

theorem lookup_eq_some {β : Type} (k : String) (v : β) : ∀ l : List (String × β), (l.map (·.1)).Nodup →
    (lookup k l = some v ↔ (k, v) ∈ l) := by
  intro l
  induction l with
  | nil => intro _; simp [lookup]
  | cons x xs ih =>
    intro hnd
    obtain ⟨a, b⟩ := x
    simp only [List.map_cons, List.nodup_cons] at hnd
    simp only [lookup, List.mem_cons, Prod.mk.injEq]
    by_cases hak : a = k
    · subst hak
      simp only [if_true, Option.some.injEq]
      constructor
      · intro h; left; simp [h]
      · intro h
        rcases h with h | h
        · simp at h; exact h.symm
        · exact absurd (List.mem_map_of_mem (f := (·.1)) h) hnd.1
    · simp only [if_neg hak, ih hnd.2]
      constructor
      · intro h; exact Or.inr h
      · rintro (⟨h, _⟩ | h)
        · exact absurd h.symm hak
        · exact h

theorem lookup_perm {β : Type} (k : String) (l l' : List (String × β)) (hp : l.Perm l') (hnd : (l.map (·.1)).Nodup) :
    lookup k l = lookup k l' := by
  have hnd' : (l'.map (·.1)).Nodup := (hp.map _).nodup_iff.mp hnd
  cases h : lookup k l' with
  | some v => exact (lookup_eq_some k v l hnd).mpr (hp.mem_iff.mpr ((lookup_eq_some k v l' hnd').mp h))
  | none =>
    cases h2 : lookup k l with
    | none => rfl
    | some v =>
      have := (lookup_eq_some k v l' hnd').mpr (hp.mem_iff.mp ((lookup_eq_some k v l hnd).mp h2))
      rw [h] at this; cases this

/-! ### solving after the round trip = solving the original object -/

/-- the blocking part of the solve task on an object in memory (any store) -/
def solveOn (fuel : Nat) (names : List String) (st : Store) (ac : List Nat) (s : Strategy) : SRes :=
  let r := CliF.runSectionF fuel .simple (SrvA.secOf s) st ac.length ac
  r.2.map (fun v => ⟨v, graphOf names r.1.nodes v⟩)

/-- the model's solve task IS solving the re-hydrated object -/
theorem solveAdfF_is_solveOn (fuel : Nat) (a : SAdf) (s : Strategy) :
    SrvA.solveAdfF fuel a s = .ok (solveOn fuel a.names (rebuild a.nodes) a.ac s) := rfl

theorem solve_rehydrated (fuel : Nat) (key : String) (a : LibAdf) (s : Strategy) :
    ∃ b sa, (SimpAdf.ofLib a).toLib = some b ∧ (SimpAdf.ofLib a).toSAdf key = some sa ∧
      SrvA.solveAdfF fuel sa s = .ok (solveOn fuel b.ordering.names b.bdd b.ac s) :=
  ⟨_, _, roundtrip a, stored_sadf key a, rfl⟩

/-- **same answers before and after the round trip**: for an object whose store is well formed and
whose handles denote the conditions `fms`, solving the original object (with whatever its operation
caches hold) and solving the object re-hydrated from the stored document emit — as multisets of
three-valued interpretations — the same answer, namely the specification's (under the halting
hypothesis of the nogood search for `StableNogood`) -/
theorem solve_roundtrip_same (fuel : Nat) (a : LibAdf) (n : Nat) (fms : List Fm) (s : Strategy) (w : WF a.bdd)
    (hd : SrvA.Denotes { names := a.ordering.names, nodes := a.bdd.nodes, ac := a.ac } n fms)
    (hh1 : CliF.sectionHaltsF fuel .simple (SrvA.secOf s) a.bdd n a.ac = true)
    (hh2 : SrvA.strategyHalts fuel { names := a.ordering.names, nodes := a.bdd.nodes, ac := a.ac } s = true) :
    (SrvA.storedI3 (solveOn fuel a.ordering.names a.bdd a.ac s)).Perm
      (SrvA.storedI3 (solveOn fuel a.ordering.names (rebuild a.bdd.nodes) a.ac s)) ∧
    (SrvA.storedI3 (solveOn fuel a.ordering.names a.bdd a.ac s)).Perm
      (Cli.specSection n (CliF.tablesOf n fms) (SrvA.secOf s)) := by
  obtain ⟨res, h1, h2⟩ := SrvA.stored_answers_exact_any_table fuel _ n fms s hd hh2
  rw [solveAdfF_is_solveOn] at h1
  simp only [Except.ok.injEq] at h1
  subst h1
  have ⟨hdet, R⟩ := SrvA.reps_of_atomsLt n fms hd.atoms
  have hD : (fms.map Fm.sem).length = n := by simp [hd.flen]
  have hlen : a.ac.length = n := hd.len
  have hv : ∀ t ∈ a.ac, t < a.bdd.nodes.size := by
    intro t ht
    obtain ⟨i, hi, rfl⟩ := List.getElem_of_mem ht
    have hi' : i < fms.length := by rw [hd.flen, ← hd.len]; exact hi
    exact (hd.den i _ _ (List.getElem?_eq_getElem hi) (List.getElem?_eq_getElem hi')).1
  have hden : a.ac.map (eval a.bdd) = fms.map Fm.sem := by
    apply map_eval_eq_sem _ _ fms (by rw [hd.len, hd.flen])
    intro i t f ht hf σ
    exact (hd.den i t f ht hf).2 σ
  have ⟨_, _, pm⟩ := CliF.section_exact R hD (CliF.Same.refl hD hdet) fuel .simple (SrvA.secOf s) a.bdd
    a.ac w hlen hv hden hh1
  have pm' : (SrvA.storedI3 (solveOn fuel a.ordering.names a.bdd a.ac s)).Perm
      (Cli.specSection n (CliF.tablesOf n fms) (SrvA.secOf s)) := by
    unfold SrvA.storedI3 solveOn
    rw [List.map_map, hlen]
    exact pm
  exact ⟨pm'.trans h2.symm, pm'⟩

end SrvRT
#print axioms SrvRT.roundtrip_identity
#print axioms SrvRT.solve_roundtrip_same
