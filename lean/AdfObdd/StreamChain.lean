import AdfObdd.StreamFull
/-! # C19 for a relay chain of arbitrary length

    producer --pend--> (scheduler) --q₀--> store₀ --q₁--> store₁ --…--> store_{k-1}

Every store of the chain is a `Bdd::with_sender_receiver` relay (`StreamF.recv true`: push each received
node verbatim, forward it through the own sender), except that the last one has nobody behind it: what it
forwards is discarded.  That is at the same time the model of `with_receiver` (no sender) and of a relay
whose downstream receiver was dropped (`send` fails, the error is logged and ignored - `frontend.rs`
:76-:86): the event `dropFrom i` removes the stores `i, i+1, …` from the chain, after which store `i-1`
forwards into the void.

Events: producer operations creating `0..many` nodes, deliveries of `k` pending messages into the first
inbox, `poll i t` = `store_i.recv(Term(t))`, polls on the producer, `dropFrom i`; a schedule is any list
of events.  `RInv` is the conservation invariant along the chain, proved by induction over the chain
(`pollAt_inv`) and over the event sequence (`run_inv`). -/
namespace StreamC
open StreamF

variable {α : Type}

/-- a store of the chain -/
structure Relay (α : Type) where
  q : List α       -- its receiving channel
  tbl : List α     -- its node table
  k : Nat          -- messages consumed so far
deriving DecidableEq, Repr

structure Chain (α : Type) where
  prod : List α            -- producer's node table
  pend : List α            -- sent by the producer, not yet in the first inbox
  relays : List (Relay α)

inductive Ev (α : Type) where
  | create (ns : List α)
  | deliver (k : Nat)
  | poll (i t : Nat)         -- `store_i.recv(Term(t))`
  | prodPoll (t : Nat)
  | dropFrom (i : Nat)       -- stores `i, i+1, …` are dropped

def Chain.init (c : List α) (k : Nat) : Chain α :=
  { prod := c, pend := [], relays := List.replicate k { q := [], tbl := c, k := 0 } }

/-- append messages to the inbox of the first store (if any) -/
def feed : List (Relay α) → List α → List (Relay α)
  | [], _ => []
  | r :: rest, x => { r with q := r.q ++ x } :: rest

/-- `store_i.recv(t)`; what it forwards goes into the inbox of store `i+1` -/
def pollAt : List (Relay α) → Nat → Nat → List (Relay α) × Option Bool
  | [], _, _ => ([], none)
  | r :: rest, 0, t =>
    let res := recv true r.q r.tbl t
    ({ q := res.q, tbl := res.tbl, k := r.k + res.consumed } :: feed rest res.fwd, some res.found)
  | r :: rest, i+1, t => let p := pollAt rest i t; (r :: p.1, p.2)

def stepEv (s : Chain α) : Ev α → Chain α × Option Bool
  | .create ns => ({ s with prod := s.prod ++ ns, pend := s.pend ++ ns }, none)
  | .deliver k => ({ s with pend := s.pend.drop k, relays := feed s.relays (s.pend.take k) }, none)
  | .poll i t => let p := pollAt s.relays i t; ({ s with relays := p.1 }, p.2)
  | .prodPoll t => (s, some (recv false [] s.prod t).found)
  | .dropFrom i => ({ s with relays := s.relays.take i }, none)

def run (evs : List (Ev α)) (s : Chain α) : Chain α := evs.foldl (fun s e => (stepEv s e).1) s

/-- conservation along the chain: table ++ inbox of each store is the table of the store before it (`up`
for the first), and the counter counts the mirrored nodes -/
def RInv (c : List α) : List α → List (Relay α) → Prop
  | _, [] => True
  | up, r :: rest => r.tbl ++ r.q = up ∧ r.tbl.length = c.length + r.k ∧ RInv c r.tbl rest

/-- `delivered ++ pend = prod`, and the chain hangs off `delivered` -/
def Inv (c : List α) (s : Chain α) : Prop := ∃ up, up ++ s.pend = s.prod ∧ RInv c up s.relays

theorem rinv_feed (c : List α) (x : List α) : ∀ (up : List α) (rs : List (Relay α)),
    RInv c up rs → RInv c (up ++ x) (feed rs x)
  | _, [], _ => trivial
  | up, r :: rest, h => by
    obtain ⟨h1, h2, h3⟩ := h
    exact ⟨by show r.tbl ++ (r.q ++ x) = up ++ x
              rw [← List.append_assoc, h1], h2, h3⟩

theorem rinv_take (c : List α) : ∀ (i : Nat) (up : List α) (rs : List (Relay α)), RInv c up rs → RInv c up (rs.take i)
  | 0, _, _, _ => by simp [RInv]
  | _+1, _, [], _ => trivial
  | i+1, up, r :: rest, h => by
    obtain ⟨h1, h2, h3⟩ := h
    exact ⟨h1, h2, rinv_take c i r.tbl rest h3⟩

/-- induction over the chain: a poll anywhere keeps the invariant -/
theorem pollAt_inv (c : List α) (t : Nat) : ∀ (rs : List (Relay α)) (i : Nat) (up : List α),
    RInv c up rs → RInv c up (pollAt rs i t).1
  | [], _, _, _ => trivial
  | r :: rest, 0, up, h => by
    obtain ⟨h1, h2, h3⟩ := h
    have ⟨a, b, cc, _⟩ := recv_spec r.q r.tbl t
    refine ⟨?_, ?_, ?_⟩
    · show (recv true r.q r.tbl t).tbl ++ (recv true r.q r.tbl t).q = up
      rw [a]; exact h1
    · show (recv true r.q r.tbl t).tbl.length = c.length + (r.k + (recv true r.q r.tbl t).consumed)
      rw [b, List.length_append, cc, h2]; omega
    · show RInv c (recv true r.q r.tbl t).tbl (feed rest (recv true r.q r.tbl t).fwd)
      rw [b]; exact rinv_feed c _ _ _ h3
  | r :: rest, i+1, up, h => by
    obtain ⟨h1, h2, h3⟩ := h
    exact ⟨h1, h2, pollAt_inv c t rest i r.tbl h3⟩

theorem Inv.init (c : List α) (k : Nat) : Inv c (Chain.init c k) := by
  refine ⟨c, by simp [Chain.init], ?_⟩
  show RInv c c (List.replicate k { q := [], tbl := c, k := 0 })
  induction k with
  | zero => trivial
  | succ k ih => exact ⟨by simp, rfl, ih⟩

theorem step_inv (c : List α) (s : Chain α) (e : Ev α) (h : Inv c s) : Inv c (stepEv s e).1 := by
  obtain ⟨up, h1, h2⟩ := h
  cases e with
  | create ns => exact ⟨up, by simp [stepEv, ← h1], h2⟩
  | deliver k =>
    refine ⟨up ++ s.pend.take k, ?_, rinv_feed c _ _ _ h2⟩
    show up ++ s.pend.take k ++ s.pend.drop k = s.prod
    rw [List.append_assoc, List.take_append_drop]; exact h1
  | poll i t => exact ⟨up, h1, pollAt_inv c t _ i up h2⟩
  | prodPoll t => exact ⟨up, h1, h2⟩
  | dropFrom i => exact ⟨up, h1, rinv_take c i up _ h2⟩

/-- induction over the event sequence -/
theorem run_inv (c : List α) (evs : List (Ev α)) (s : Chain α) (h : Inv c s) : Inv c (run evs s) := by
  induction evs generalizing s with
  | nil => exact h
  | cons e evs ih => exact ih _ (step_inv c s e h)

/-! ## what the invariant says -/

/-- every store holds a prefix of `P` (verbatim, same numbering), of length `2 + consumed` -/
theorem rinv_mirror (c : List α) (P : List α) : ∀ (up : List α) (rs : List (Relay α)), RInv c up rs → up <+: P →
    ∀ r ∈ rs, r.tbl = P.take (c.length + r.k) ∧ r.tbl.length ≤ up.length
  | _, [], _, _ => fun _ hr => by cases hr
  | up, r :: rest, h, hp => by
    obtain ⟨h1, h2, h3⟩ := h
    have hpre : r.tbl <+: up := ⟨r.q, h1⟩
    have hpP : r.tbl <+: P := hpre.trans hp
    intro r' hr'
    rcases List.mem_cons.mp hr' with rfl | hm
    · refine ⟨?_, hpre.length_le⟩
      rw [← h2]
      obtain ⟨t, ht⟩ := hpP
      rw [← ht]; simp
    · have := rinv_mirror c P r.tbl rest h3 hpP r' hm
      exact ⟨this.1, Nat.le_trans this.2 hpre.length_le⟩

theorem rinv_len (c : List α) : ∀ (up : List α) (rs : List (Relay α)), RInv c up rs →
    ∀ x ∈ rs, x.tbl.length = c.length + x.k
  | _, [], _ => fun _ hx => by cases hx
  | _, y :: ys, hh => by
    intro x hx
    rcases List.mem_cons.mp hx with rfl | hm
    · exact hh.2.1
    · exact rinv_len c y.tbl ys hh.2.2 x hm

/-- along the chain the tables get shorter: no store overtakes the one before it -/
theorem rinv_sorted (c : List α) : ∀ (up : List α) (rs : List (Relay α)), RInv c up rs →
    rs.Pairwise (fun a b => b.k ≤ a.k)
  | _, [], _ => List.Pairwise.nil
  | up, r :: rest, h => by
    obtain ⟨h1, h2, h3⟩ := h
    refine List.Pairwise.cons ?_ (rinv_sorted c r.tbl rest h3)
    intro b hb
    have hb1 := (rinv_mirror c r.tbl r.tbl rest h3 (List.prefix_refl _) b hb)
    have hlen : b.tbl.length = c.length + b.k := rinv_len c r.tbl rest h3 b hb
    have := hb1.2
    omega

/-- once every channel of the chain is empty, every store's table is `up` -/
theorem rinv_drained (c : List α) : ∀ (up : List α) (rs : List (Relay α)), RInv c up rs → (∀ r ∈ rs, r.q = []) →
    ∀ r ∈ rs, r.tbl = up
  | _, [], _, _ => fun _ hr => by cases hr
  | up, r :: rest, h, hq => by
    obtain ⟨h1, _, h3⟩ := h
    have hr : r.tbl = up := by
      have := hq r (List.mem_cons_self ..)
      rw [this, List.append_nil] at h1; exact h1
    intro r' hr'
    rcases List.mem_cons.mp hr' with rfl | hm
    · exact hr
    · rw [← hr]
      exact rinv_drained c r.tbl rest h3 (fun x hx => hq x (List.mem_cons_of_mem _ hx)) r' hm

theorem Inv.mirror {c : List α} {s : Chain α} (h : Inv c s) :
    (∀ r ∈ s.relays, r.tbl = s.prod.take (c.length + r.k) ∧ c.length + r.k ≤ s.prod.length) ∧
    s.relays.Pairwise (fun a b => b.k ≤ a.k) := by
  obtain ⟨up, h1, h2⟩ := h
  have hp : up <+: s.prod := ⟨s.pend, h1⟩
  refine ⟨?_, rinv_sorted c up _ h2⟩
  intro r hr
  have ⟨a, b⟩ := rinv_mirror c s.prod up _ h2 hp r hr
  refine ⟨a, ?_⟩
  have hl := rinv_len c up _ h2 r hr
  have := hp.length_le
  omega

theorem Inv.drained {c : List α} {s : Chain α} (h : Inv c s) (hp : s.pend = []) (hq : ∀ r ∈ s.relays, r.q = []) :
    ∀ r ∈ s.relays, r.tbl = s.prod := by
  obtain ⟨up, h1, h2⟩ := h
  rw [hp, List.append_nil] at h1
  rw [← h1]
  exact rinv_drained c up _ h2 hq

/-! ## polls -/

/-- a poll on store `i` answers (the store exists) iff `i` is inside the chain; the answer is "found" iff the
handle is present in that store's table afterwards -/
theorem pollAt_found (t : Nat) : ∀ (rs : List (Relay α)) (i : Nat),
    (pollAt rs i t).1.length = rs.length ∧
    ((pollAt rs i t).2 = none ↔ rs.length ≤ i) ∧
    (∀ r, (pollAt rs i t).1[i]? = some r → ((pollAt rs i t).2 = some true ↔ t < r.tbl.length))
  | [], i => by simp [pollAt]
  | r :: rest, 0 => by
    have hf : ∀ (l : List (Relay α)) (x : List α), (feed l x).length = l.length := by
      intro l x; cases l <;> rfl
    refine ⟨by simp [pollAt, hf], by simp [pollAt], ?_⟩
    intro r' hr'
    simp only [pollAt, List.getElem?_cons_zero, Option.some.injEq] at hr' ⊢
    subst hr'
    exact (recv_spec r.q r.tbl t).2.2.2
  | r :: rest, i+1 => by
    have ⟨a, b, cc⟩ := pollAt_found t rest i
    refine ⟨by simp [pollAt, a], ?_, ?_⟩
    · simp only [pollAt, List.length_cons]; rw [b]; omega
    · intro r' hr'
      simp only [pollAt, List.getElem?_cons_succ] at hr' ⊢
      exact cc r' hr'

/-- a poll only touches store `i` (table, inbox, counter) and the inbox of store `i+1` -/
theorem pollAt_others (t : Nat) : ∀ (rs : List (Relay α)) (i j : Nat), j ≠ i →
    ((pollAt rs i t).1[j]?).map (fun r => (r.tbl, r.k)) = (rs[j]?).map (fun r => (r.tbl, r.k))
  | [], _, _, _ => by simp [pollAt]
  | r :: rest, 0, j, hj => by
    cases j with
    | zero => exact absurd rfl hj
    | succ j =>
      simp only [pollAt, List.getElem?_cons_succ]
      cases rest with
      | nil => rfl
      | cons r2 rest' => cases j <;> rfl
  | r :: rest, i+1, j, hj => by
    cases j with
    | zero => rfl
    | succ j =>
      simp only [pollAt, List.getElem?_cons_succ]
      exact pollAt_others t rest i j (by omega)

/-! ## a store does not depend on what is behind it -/

/-- everything upstream of the inbox of store `i` -/
def upstream (i : Nat) (s : Chain α) : List α × List α × List (Relay α) := (s.prod, s.pend, s.relays.take i)

/-- events that concern only stores `i, i+1, …`: their polls, and their being dropped -/
def downstreamEv (i : Nat) : Ev α → Bool
  | .poll j _ => decide (i ≤ j)
  | .dropFrom j => decide (i ≤ j)
  | _ => false

theorem feed_take (x : List α) : ∀ (rs : List (Relay α)) (i : Nat), (feed rs x).take (i + 1) = feed (rs.take (i + 1)) x
  | [], _ => rfl
  | _ :: _, _ => rfl

theorem pollAt_take_lt (t : Nat) : ∀ (rs : List (Relay α)) (j i : Nat), j < i →
    (pollAt rs j t).1.take i = (pollAt (rs.take i) j t).1.take i ∧ (pollAt rs j t).2 = (pollAt (rs.take i) j t).2
  | [], _, i, _ => by simp [pollAt]
  | r :: rest, 0, i+1, _ => by
    simp only [pollAt, List.take_succ_cons, and_true]
    congr 1
    cases i with
    | zero => simp
    | succ i => rw [feed_take, feed_take, List.take_take]; simp
  | r :: rest, j+1, i+1, h => by
    have ⟨a, b⟩ := pollAt_take_lt t rest j i (by omega)
    simp only [pollAt, List.take_succ_cons]
    exact ⟨by rw [a], b⟩

theorem pollAt_take_ge (t : Nat) : ∀ (rs : List (Relay α)) (j i : Nat), i ≤ j → (pollAt rs j t).1.take i = rs.take i
  | [], _, i, _ => by simp [pollAt]
  | r :: rest, j, 0, _ => by simp
  | r :: rest, j+1, i+1, h => by
    simp only [pollAt, List.take_succ_cons]
    rw [pollAt_take_ge t rest j i (by omega)]

/-- the length-truncated poll result depends on the truncated chain only -/
theorem pollAt_take_congr (t : Nat) (rs rs' : List (Relay α)) (j i : Nat) (hj : j < i) (h : rs.take i = rs'.take i) :
    (pollAt rs j t).1.take i = (pollAt rs' j t).1.take i ∧ (pollAt rs j t).2 = (pollAt rs' j t).2 := by
  have ⟨a, b⟩ := pollAt_take_lt t rs j i hj
  have ⟨a', b'⟩ := pollAt_take_lt t rs' j i hj
  rw [a, a', b, b', h]; exact ⟨rfl, rfl⟩

theorem feed_take_congr (x : List α) (rs rs' : List (Relay α)) (i : Nat) (h : rs.take i = rs'.take i) :
    (feed rs x).take i = (feed rs' x).take i := by
  cases i with
  | zero => simp
  | succ i => rw [feed_take, feed_take, h]

theorem upstream_step (i : Nat) (s s' : Chain α) (e : Ev α) (h : upstream i s = upstream i s')
    (hd : downstreamEv i e = false) :
    upstream i (stepEv s e).1 = upstream i (stepEv s' e).1 ∧ (stepEv s e).2 = (stepEv s' e).2 := by
  simp only [upstream, Prod.mk.injEq] at h
  obtain ⟨h1, h2, h3⟩ := h
  cases e with
  | create ns => simp [stepEv, upstream, h1, h2, h3]
  | deliver k =>
    simp only [stepEv, upstream, h1, h2, Prod.mk.injEq, true_and, and_true]
    rw [h2] at *
    exact feed_take_congr _ _ _ i h3
  | poll j t =>
    have hj : j < i := by simpa [downstreamEv] using hd
    have ⟨a, b⟩ := pollAt_take_congr t s.relays s'.relays j i hj h3
    simp only [stepEv, upstream, h1, h2, Prod.mk.injEq, true_and]
    exact ⟨a, b⟩
  | prodPoll t => simp [stepEv, upstream, h1, h2, h3]
  | dropFrom j =>
    have hj : j < i := by simpa [downstreamEv] using hd
    simp only [stepEv, upstream, h1, h2, Prod.mk.injEq, true_and, and_true]
    rw [List.take_take, List.take_take]
    have e1 : min i j = j := by omega
    rw [e1]
    have : (s.relays.take i).take j = (s'.relays.take i).take j := by rw [h3]
    rw [List.take_take, List.take_take] at this
    have e2 : min j i = j := by omega
    rw [e2] at this; exact this

theorem upstream_downstreamEv (i : Nat) (s : Chain α) (e : Ev α) (hd : downstreamEv i e = true) :
    upstream i (stepEv s e).1 = upstream i s := by
  cases e with
  | create ns => simp [downstreamEv] at hd
  | deliver k => simp [downstreamEv] at hd
  | prodPoll t => simp [downstreamEv] at hd
  | poll j t =>
    have hj : i ≤ j := by simpa [downstreamEv] using hd
    simp only [stepEv, upstream]
    rw [pollAt_take_ge t _ j i hj]
  | dropFrom j =>
    have hj : i ≤ j := by simpa [downstreamEv] using hd
    simp only [stepEv, upstream]
    rw [List.take_take]
    have : min i j = i := by omega
    rw [this]

/-- **a relay keeps mirroring whatever happens behind it.** For every schedule, deleting all events that concern
the stores `i, i+1, …` (their polls, their being dropped at any point) leaves producer, pending messages and
the stores `0 … i-1` - tables, inboxes, counters - exactly as they are -/
theorem upstream_independent (i : Nat) (evs : List (Ev α)) :
    ∀ s s' : Chain α, upstream i s = upstream i s' →
      upstream i (run evs s) = upstream i (run (evs.filter (fun e => !downstreamEv i e)) s') := by
  induction evs with
  | nil => intro s s' h; simpa [run] using h
  | cons e evs ih =>
    intro s s' h
    cases hd : downstreamEv i e with
    | true =>
      simp only [run, List.foldl_cons, List.filter_cons, hd, Bool.not_true, Bool.false_eq_true, if_false]
      exact ih _ _ (by rw [upstream_downstreamEv i s e hd]; exact h)
    | false =>
      simp only [run, List.foldl_cons, List.filter_cons, hd, Bool.not_false, if_true]
      exact ih _ _ (upstream_step i s s' e h hd).1

/-! ## draining is always possible -/

/-- polls on the stores `js` (in that order), all for the handle `T` -/
def pollSeq (rs : List (Relay α)) (js : List Nat) (T : Nat) : List (Relay α) :=
  js.foldl (fun rs j => (pollAt rs j T).1) rs

theorem pollSeq_cons_succ (T : Nat) (r : Relay α) : ∀ (js : List Nat) (X : List (Relay α)),
    pollSeq (r :: X) (js.map (· + 1)) T = r :: pollSeq X js T
  | [], _ => rfl
  | j :: js, X => by
    show pollSeq (pollAt (r :: X) (j + 1) T).1 (js.map (· + 1)) T = r :: pollSeq (pollAt X j T).1 js T
    exact pollSeq_cons_succ T r js _

theorem feed_length (x : List α) (rs : List (Relay α)) : (feed rs x).length = rs.length := by
  cases rs <;> rfl

/-- induction over the chain: polling every store once, front to back, for a handle beyond the upstream table
empties every channel and makes every table equal to the upstream table -/
theorem drain_all (c : List α) (T : Nat) : ∀ (n : Nat) (rs : List (Relay α)) (up : List α), rs.length = n →
    RInv c up rs → up.length ≤ T → ∀ r ∈ pollSeq rs (List.range n) T, r.q = [] ∧ r.tbl = up
  | 0, rs, _, hl, _, _ => by
    have : rs = [] := List.eq_nil_of_length_eq_zero hl
    subst this; intro r hr; cases hr
  | n+1, [], _, hl, _, _ => by cases hl
  | n+1, r :: rest, up, hl, h, hT => by
    obtain ⟨h1, h2, h3⟩ := h
    rw [List.range_succ_eq_map]
    show ∀ r' ∈ pollSeq (pollAt (r :: rest) 0 T).1 ((List.range n).map (· + 1)) T, _
    have hp := pollAt_inv c T (r :: rest) 0 up ⟨h1, h2, h3⟩
    simp only [pollAt] at hp ⊢
    rw [pollSeq_cons_succ]
    have ⟨a, b, _, d⟩ := recv_spec r.q r.tbl T
    have hnf : (recv true r.q r.tbl T).found = false := by
      cases hf : (recv true r.q r.tbl T).found with
      | false => rfl
      | true =>
        have := d.mp hf
        have hl2 := congrArg List.length a
        rw [h1] at hl2
        simp at hl2; omega
    have ⟨e1, e2⟩ := (recv_exact r.q r.tbl T).2.2 hnf
    have e3 : (recv true r.q r.tbl T).tbl = up := by rw [e2]; exact h1
    intro r' hr'
    rcases List.mem_cons.mp hr' with rfl | hm
    · exact ⟨e1, e3⟩
    · have hrest : RInv c up (feed rest (recv true r.q r.tbl T).fwd) := by
        have := hp.2.2
        rw [e3] at this; exact this
      exact drain_all c T n _ up (by rw [feed_length]; simpa using hl) hrest hT r' hm

theorem run_polls (T : Nat) : ∀ (js : List Nat) (s : Chain α),
    run (js.map (fun j => Ev.poll j T)) s = { s with relays := pollSeq s.relays js T }
  | [], _ => rfl
  | j :: js, s => by
    show run (js.map (fun j => Ev.poll j T)) (stepEv s (.poll j T)).1 = _
    rw [run_polls T js]; rfl

/-- from ANY reachable state: deliver what is pending, then let store 0, store 1, … each ask for a handle
beyond the producer's table: every channel is empty and every table equals the producer's -/
theorem Inv.drain {c : List α} {s : Chain α} (h : Inv c s) (T : Nat) (hT : s.prod.length ≤ T) :
    let s' := run (Ev.deliver s.pend.length :: (List.range s.relays.length).map (fun j => Ev.poll j T)) s
    s'.prod = s.prod ∧ s'.pend = [] ∧ ∀ r ∈ s'.relays, r.q = [] ∧ r.tbl = s.prod := by
  intro s'
  have h1 : Inv c (stepEv s (.deliver s.pend.length)).1 := step_inv c s _ h
  have e : s' = run ((List.range s.relays.length).map (fun j => Ev.poll j T)) (stepEv s (.deliver s.pend.length)).1 := rfl
  rw [run_polls] at e
  obtain ⟨up, u1, u2⟩ := h1
  have hpend : (stepEv s (.deliver s.pend.length)).1.pend = [] := by simp [stepEv]
  rw [hpend, List.append_nil] at u1
  have hup : up = s.prod := u1
  refine ⟨by rw [e]; rfl, by rw [e]; exact hpend, ?_⟩
  intro r hr
  rw [e] at hr
  have := drain_all c T s.relays.length (stepEv s (.deliver s.pend.length)).1.relays up
    (by simp [stepEv, feed_length]) u2 (by rw [hup]; exact hT) r hr
  rw [hup] at this; exact this

/-! ## no event makes the chain longer -/

theorem stepEv_length_le (x : Chain α) (e : Ev α) : (stepEv x e).1.relays.length ≤ x.relays.length := by
  cases e with
  | create ns => exact Nat.le_refl _
  | deliver n => simp [stepEv, feed_length]
  | poll j t => simp [stepEv, (pollAt_found t x.relays j).1]
  | prodPoll t => exact Nat.le_refl _
  | dropFrom j => simp only [stepEv, List.length_take]; omega

theorem run_length_le : ∀ (es : List (Ev α)) (x : Chain α), (run es x).relays.length ≤ x.relays.length := by
  intro es
  induction es with
  | nil => intro x; exact Nat.le_refl _
  | cons e es ih => intro x; exact Nat.le_trans (ih _) (stepEv_length_le x e)

/-- after `dropFrom i` the chain has at most `i` stores, whatever follows -/
theorem length_after_drop (i : Nat) (evs more : List (Ev α)) (x : Chain α) :
    (run (evs ++ [.dropFrom i] ++ more) x).relays.length ≤ i := by
  simp only [run, List.foldl_append, List.foldl_cons, List.foldl_nil]
  refine Nat.le_trans (run_length_le more _) ?_
  simp only [stepEv, List.length_take]; omega

/-! ## the one-relay system of `StreamFull` is the chain of length 2 -/

def ofSys (s : Sys α) : Chain α :=
  { prod := s.prod, pend := s.pend,
    relays := [{ q := s.q1, tbl := s.relay, k := s.k1 }, { q := s.q2, tbl := s.recv, k := s.k2 }] }

def ofEv : StreamF.Ev α → Ev α
  | .create ns => .create ns
  | .deliver k => .deliver k
  | .relayPoll t => .poll 0 t
  | .recvPoll t => .poll 1 t
  | .prodPoll t => .prodPoll t

theorem ofSys_step (s : Sys α) (e : StreamF.Ev α) :
    ofSys (StreamF.stepEv s e).1 = (stepEv (ofSys s) (ofEv e)).1 ∧
    (∀ b, (StreamF.stepEv s e).2 = some b → (stepEv (ofSys s) (ofEv e)).2 = some b) := by
  cases e <;> simp [ofSys, ofEv, StreamF.stepEv, stepEv, pollAt, feed]

theorem ofSys_run (evs : List (StreamF.Ev α)) : ∀ s : Sys α, ofSys (StreamF.run evs s) = run (evs.map ofEv) (ofSys s) := by
  induction evs with
  | nil => intro s; rfl
  | cons e evs ih =>
    intro s
    show ofSys (StreamF.run evs (StreamF.stepEv s e).1) = run (evs.map ofEv) (stepEv (ofSys s) (ofEv e)).1
    rw [ih, (ofSys_step s e).1]

theorem ofSys_init (c : List α) : ofSys (Sys.init c) = Chain.init c 2 := rfl

/-! ## the producer is a real diagram store -/

structure PChain where
  st : Store
  hist : List Nat
  ch : Chain Node

inductive PEv where
  | op (o : Op)
  | ev (e : Ev Node)

def PChain.init (k : Nat) : PChain := { st := Store.init, hist := [0, 1], ch := Chain.init Store.init.nodes.toList k }

def pstep (p : PChain) : PEv → PChain × Option Bool
  | .op o =>
    let r := stepOp p.st p.hist o
    ({ st := r.1, hist := p.hist ++ [r.2], ch := (stepEv p.ch (.create (created p.st r.1))).1 }, none)
  | .ev e => let r := stepEv p.ch e; ({ p with ch := r.1 }, r.2)

def prun (evs : List PEv) (p : PChain) : PChain := evs.foldl (fun p e => (pstep p e).1) p

/-- operations refer to issued history positions; only the producer creates nodes -/
def pevsValid : List PEv → Nat → Prop
  | [], _ => True
  | .op o :: es, len => o.valid len ∧ pevsValid es (len + 1)
  | .ev (.create _) :: _, _ => False
  | .ev _ :: es, len => pevsValid es len

structure PInv (p : PChain) : Prop where
  wf : WF p.st
  hist : ∃ fs, HistOK p.st p.hist fs
  tbl : p.ch.prod = p.st.nodes.toList
  inv : Inv Store.init.nodes.toList p.ch

theorem PInv.init (k : Nat) : PInv (PChain.init k) := ⟨WF_init, ⟨_, HistOK.init⟩, rfl, Inv.init _ k⟩

theorem prun_inv : ∀ (evs : List PEv) (p : PChain), PInv p → pevsValid evs p.hist.length → PInv (prun evs p) := by
  intro evs
  induction evs with
  | nil => intro p h _; exact h
  | cons e evs ih =>
    intro p h hv
    obtain ⟨w, ⟨fs, hh⟩, ht, hi⟩ := h
    cases e with
    | op o =>
      have g := stepOp_good p.st p.hist fs o w hh hv.1
      apply ih
      · refine ⟨g.wf, ⟨_, HistOK.step p.st p.hist fs o w hh hv.1⟩, ?_, step_inv _ _ _ hi⟩
        simp only [pstep, stepEv]
        rw [ht, ext_toList g.ext]
      · simpa [pstep] using hv.2
    | ev e =>
      have hk : PInv (pstep p (.ev e)).1 := by
        refine ⟨w, ⟨fs, hh⟩, ?_, step_inv _ _ _ hi⟩
        cases e with
        | create ns => exact hv.elim
        | deliver k => exact ht
        | poll i t => exact ht
        | prodPoll t => exact ht
        | dropFrom i => exact ht
      apply ih _ hk
      cases e with
      | create ns => exact hv.elim
      | deliver k => exact hv
      | poll i t => exact hv
      | prodPoll t => exact hv
      | dropFrom i => exact hv

end StreamC
