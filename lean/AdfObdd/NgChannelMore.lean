import AdfObdd.NgChannel
import AdfObdd.ChannelZero
import AdfObdd.ChannelClones
import AdfObdd.ChannelDrop
import AdfObdd.NgStoreAfter
/-! # The nogood search on the extended channel models

Instances of `ChannelZero` (`bounded(0)`), `ChannelClones` (several searches on clones of one sender) and
`ChannelDrop` (receiver dropped early) with the producer `NConc.ngProducer` of NgChannel.lean. -/
namespace NConc

/-! ## `bounded(0)` -/

def chanRunZ (hc : CHeu) (sched : List Chan.Ev) (s : Store) (n : Nat) (ac : List Nat) (stable : Bool) :
    Chan.Cfg SM.NgS (List Nat) :=
  Chan.Zero.run (ngProducer hc n ac stable) sched (Chan.init (initC s n ac))

theorem rendezvous_delivers (hc : CHeu) (s : Store) (n : Nat) (ac : List Nat) (stable : Bool) {fuel : Nat}
    (hd : (cSearch hc fuel s n ac stable).2.2.2 = true) (sched : List Chan.Ev) :
    let c := chanRunZ hc sched s n ac stable
    let res := (cSearch hc fuel s n ac stable).2.1
    (c.got <+: res ∧ c.buf = []) ∧
    (c.closed = true → c.got = res ∧ c.log = res.map Chan.ChEv.send ++ [Chan.ChEv.close]) ∧
    (c.consDone = true → c.got = res ∧ c.closed = true) ∧
    (∀ m, Chan.Fair m sched → fuel + res.length + 1 + res.length + 1 ≤ m → c.consDone = true) := by
  have := Chan.Zero.delivers (ngProducer_mono hc n ac stable) (done_runG hc s n ac stable hd) sched
  rw [out_runG hc s n ac stable fuel] at this
  exact this

/-! ## receiver dropped before the last model -/

/-- search + channel + consumer with the event "the consumer drops the receiver" -/
def chanRunD (hc : CHeu) (cap : Option Nat) (sched : List Chan.DEv) (s : Store) (n : Nat) (ac : List Nat) (stable : Bool) :
    Chan.DCfg SM.NgS (List Nat) :=
  Chan.drun (ngProducer hc n ac stable) cap sched ⟨Chan.init (initC s n ac), false, false⟩

/-- **the `expect` at the send site panics.** After any schedule `sched` (receiver still there) in which fewer
models were handed to the channel than the search finds in total, the consumer drops the receiver; then every
continuation `more` with more than `fuel` producer steps ends with the producer thread panicked, and the
consumer has exactly what it had received at the moment of the drop -/
theorem receiver_dropped_panics (hc : CHeu) (cap : Option Nat) (s : Store) (n : Nat) (ac : List Nat) (stable : Bool)
    {fuel : Nat} (hd : (cSearch hc fuel s n ac stable).2.2.2 = true) (sched : List Chan.Ev) (more : List Chan.DEv)
    (hlt : (chanRun hc cap sched s n ac stable).sent < (cSearch hc fuel s n ac stable).2.1.length)
    (hmore : fuel < more.count Chan.DEv.prod) :
    let c := chanRunD hc cap (sched.map Chan.Ev.toD ++ Chan.DEv.dropRecv :: more) s n ac stable
    c.panicked = true ∧ c.base.got = (chanRun hc cap sched s n ac stable).got := by
  intro c
  have hm := ngProducer_mono hc n ac stable
  have hN := done_runG hc s n ac stable hd
  have hc0 : c = Chan.drun (ngProducer hc n ac stable) cap more
      ⟨chanRun hc cap sched s n ac stable, true, false⟩ := by
    show Chan.drun _ cap (sched.map Chan.Ev.toD ++ Chan.DEv.dropRecv :: more) _ = _
    unfold Chan.drun
    rw [List.foldl_append]
    have := Chan.drun_no_drop (ngProducer hc n ac stable) cap sched (Chan.init (initC s n ac))
    unfold Chan.drun at this
    rw [this]
    rfl
  rw [hc0]
  constructor
  · apply Chan.recv_dropped_panics hm hN more _ (chanRun_inv hc cap s n ac stable sched) rfl
    · rw [out_runG hc s n ac stable fuel]; exact hlt
    · exact Nat.lt_of_le_of_lt (Nat.sub_le _ _) hmore
  · exact (Chan.drun_got_frozen _ cap more _ rfl).1

/-! ## several searches of one object on clones of one sender -/

/-- the call `…_nogood_channel(heuristic, s.clone())` on the object whose store is `s` -/
def ngJob (hc : CHeu) (s : Store) (n : Nat) (ac : List Nat) (stable : Bool) : Chan.Job SM.NgS (List Nat) :=
  ⟨ngProducer hc n ac stable, initC s n ac, ngProducer_mono hc n ac stable⟩

/-- the calls `(heuristic, stable?, fuel)` made one after the other on ONE object: every search starts on the
store the previous one has left behind -/
def ngJobs (n : Nat) (ac : List Nat) : Store → List (CHeu × Bool × Nat) → List (Chan.Job SM.NgS (List Nat))
  | _, [] => []
  | s, (hc, stable, fuel) :: tl => ngJob hc s n ac stable :: ngJobs n ac (cSearch hc fuel s n ac stable).1 tl

/-- what the searches return, one list per call -/
def ngResults (n : Nat) (ac : List Nat) : Store → List (CHeu × Bool × Nat) → List (List (List Nat))
  | _, [] => []
  | s, (hc, stable, fuel) :: tl => (cSearch hc fuel s n ac stable).2.1 :: ngResults n ac (cSearch hc fuel s n ac stable).1 tl

/-- every call halts within its fuel -/
def ngAllDone (n : Nat) (ac : List Nat) : Store → List (CHeu × Bool × Nat) → Prop
  | _, [] => True
  | s, (hc, stable, fuel) :: tl =>
    (cSearch hc fuel s n ac stable).2.2.2 = true ∧ ngAllDone n ac (cSearch hc fuel s n ac stable).1 tl

theorem ngJob_halts (hc : CHeu) (s : Store) (n : Nat) (ac : List Nat) (stable : Bool) {fuel : Nat}
    (hd : (cSearch hc fuel s n ac stable).2.2.2 = true) :
    (ngJob hc s n ac stable).Halts (cSearch hc fuel s n ac stable).2.1 :=
  ⟨fuel, done_runG hc s n ac stable hd, out_runG hc s n ac stable fuel⟩

theorem ngJobs_halt (n : Nat) (ac : List Nat) : ∀ (calls : List (CHeu × Bool × Nat)) (s : Store),
    ngAllDone n ac s calls → Chan.AllHalt (ngJobs n ac s calls) (ngResults n ac s calls) := by
  intro calls
  induction calls with
  | nil => intro s _; exact Chan.AllHalt.nil
  | cons x tl ih =>
    intro s h
    obtain ⟨hc, stable, fuel⟩ := x
    exact Chan.AllHalt.cons (ngJob_halts hc s n ac stable h.1) (ih _ h.2)

/-- "exactly the models of `D`, each once" for a list of handle vectors -/
def ExactD (D : List BoolFn) (n : Nat) (stable : Bool) (res : List (List Nat)) : Prop :=
  let out := res.map (fun v => v.map storeIsConst)
  out.Nodup ∧ ∀ v : I3, v ∈ out ↔
    (v.length = n ∧ TotalI v ∧ Gam D v = v ∧
      (stable = true → ∀ w : I3, IsLfp (redu D v) w → ∀ i : Nat, v[i]? = some (some true) → w[i]? = some (some true)))

/-- every call returns exactly the models of `D` (stable or two-valued, as the call says) -/
def ngAllExact (n : Nat) (ac : List Nat) (D : List BoolFn) : Store → List (CHeu × Bool × Nat) → Prop
  | _, [] => True
  | s, (hc, stable, fuel) :: tl =>
    ExactD D n stable (cSearch hc fuel s n ac stable).2.1 ∧ ngAllExact n ac D (cSearch hc fuel s n ac stable).1 tl

/-- fuels exist: for a well-formed object (and, if one of the calls is two-valued, conditions that depend on
the statements only) every list of heuristics/modes can be completed with fuels such that all calls halt; each
call - although it runs on the store the earlier calls have left behind - returns exactly the models of the
functions `D` the conditions denote -/
theorem ng_fuels_exist (n : Nat) (ac : List Nat) (D : List BoolFn) : ∀ (hs : List (CHeu × Bool)) (s : Store),
    (∀ x ∈ hs, HeuOK x.1) → WF s → ac.length = n → (∀ t ∈ ac, t < s.nodes.size) → ac.map (eval s) = D →
    ((∃ x ∈ hs, x.2 = false) → ∀ t ∈ ac, ∀ σ τ : Asg, (∀ i, i < n → σ i = τ i) → eval s t σ = eval s t τ) →
    ∃ calls : List (CHeu × Bool × Nat), calls.map (fun x => (x.1, x.2.1)) = hs ∧ ngAllDone n ac s calls ∧
      ngAllExact n ac D s calls := by
  intro hs
  induction hs with
  | nil => intro s _ _ _ _ _ _; exact ⟨[], rfl, trivial, trivial⟩
  | cons x tl ih =>
    intro s hok w hn hac hD hsup
    obtain ⟨hc, stable⟩ := x
    obtain ⟨fuel, hd, hex⟩ := search_exact_any_heuristic hc (hok _ (List.mem_cons_self ..)) s n ac stable w hn hac
      (fun hst => hsup ⟨(hc, stable), List.mem_cons_self .., hst⟩)
    rw [hD] at hex
    have hst := After.cState_store hc (hok _ (List.mem_cons_self ..)) s n ac stable w hac hn fuel
    have hs' : (cSearch hc fuel s n ac stable).1 = (cState hc s n ac stable fuel).s := rfl
    have he : Ext s (cSearch hc fuel s n ac stable).1 := hs' ▸ hst.2.1
    obtain ⟨calls, h1, h2, h3⟩ := ih (cSearch hc fuel s n ac stable).1
      (fun y hy => hok y (List.mem_cons_of_mem _ hy)) (hs' ▸ hst.1) hn
      (fun t ht => Nat.lt_of_lt_of_le (hac t ht) he.1)
      (by
        rw [← hD]
        apply List.map_congr_left
        intro t ht
        funext σ
        exact eval_ext w he t σ (hac t ht))
      (by
        intro hex t ht σ τ hστ
        rw [eval_ext w he t σ (hac t ht), eval_ext w he t τ (hac t ht)]
        obtain ⟨y, hy, hy2⟩ := hex
        exact hsup ⟨y, List.mem_cons_of_mem _ hy, hy2⟩ t ht σ τ hστ)
    exact ⟨(hc, stable, fuel) :: calls, by simp [h1], ⟨hd, h2⟩, ⟨hex, h3⟩⟩

/-- what `buildNative` (the `from_parser` model) guarantees for the searches -/
theorem compiled_facts (fms : List Fm) (hn : fms.length ≤ VBOT) (hv : ∀ f ∈ fms, atomsLt fms.length f) :
    WF (buildNative fms.length fms).1 ∧ (buildNative fms.length fms).2.length = fms.length ∧
    (∀ t ∈ (buildNative fms.length fms).2, t < (buildNative fms.length fms).1.nodes.size) ∧
    (buildNative fms.length fms).2.map (eval (buildNative fms.length fms).1) = fms.map Fm.sem ∧
    (∀ t ∈ (buildNative fms.length fms).2, ∀ σ τ : Asg,
      (∀ i, i < fms.length → σ i = τ i) → eval (buildNative fms.length fms).1 t σ = eval (buildNative fms.length fms).1 t τ) := by
  have hok : ∀ f ∈ fms, f.atomsOK := fun f hf => atomsOK_of_lt hn f (hv f hf)
  have ⟨w, hl, hc⟩ := buildNative_correct fms.length fms hn hok
  have hvalid : ∀ t ∈ (buildNative fms.length fms).2, t < (buildNative fms.length fms).1.nodes.size := by
    intro t ht
    obtain ⟨i, hi, rfl⟩ := List.getElem_of_mem ht
    have hi' : i < fms.length := by omega
    exact (hc i _ _ (List.getElem?_eq_getElem hi) (List.getElem?_eq_getElem hi')).1
  have e : (buildNative fms.length fms).2.map (eval (buildNative fms.length fms).1) = fms.map Fm.sem :=
    map_eval_eq_sem _ _ fms hl (fun i t f a c => (hc i t f a c).2)
  refine ⟨w, hl, hvalid, e, ?_⟩
  intro t ht σ τ hst
  obtain ⟨i, hi, rfl⟩ := List.getElem_of_mem ht
  have hi' : i < fms.length := by omega
  have hev := (hc i _ _ (List.getElem?_eq_getElem hi) (List.getElem?_eq_getElem hi')).2
  rw [hev σ, hev τ]
  exact sem_supp _ (hv _ (List.getElem_mem hi')) σ τ hst

theorem ngJobs_length (n : Nat) (ac : List Nat) : ∀ (calls : List (CHeu × Bool × Nat)) (s : Store),
    (ngJobs n ac s calls).length = calls.length := by
  intro calls
  induction calls with
  | nil => intro _; rfl
  | cons y ys ih => intro s; obtain ⟨a, b, c⟩ := y; simp [ngJobs, ih]

/-- the shared channel: the thread that runs the calls `x :: tl` on the object with store `s`, and the consumer -/
def chanRunM (cap : Option Nat) (sched : List Chan.Ev) (n : Nat) (ac : List Nat) (s : Store)
    (x : CHeu × Bool × Nat) (tl : List (CHeu × Bool × Nat)) : Chan.MCfg SM.NgS (List Nat) :=
  Chan.mrun cap sched (Chan.minit (ngJob x.1 s n ac x.2.1) (ngJobs n ac (cSearch x.1 x.2.2 s n ac x.2.1).1 tl))

/-- **k searches of one object on clones of one sender** (the pattern of the library's own test): the consumer
of the shared channel receives a prefix of the concatenation of the k result lists, its loop does not end
before the k-th handle was dropped, ends (fair schedules) after it, and has then received exactly the
concatenation -/
theorem clones_deliver_ng (cap : Option Nat) (n : Nat) (ac : List Nat) (s : Store)
    (x : CHeu × Bool × Nat) (tl : List (CHeu × Bool × Nat)) (hd : ngAllDone n ac s (x :: tl)) :
    ∃ m, ∀ (sched : List Chan.Ev),
      let c := chanRunM cap sched n ac s x tl
      let all := (ngResults n ac s (x :: tl)).flatten
      (c.got ++ c.buf <+: all) ∧
      ((c.senders = 0 ↔ c.running = false) ∧ (c.senders = 0 → c.drops = tl.length + 1) ∧
        (c.drops < tl.length + 1 → 1 ≤ c.senders ∧ c.consDone = false)) ∧
      (c.senders = 0 → c.got ++ c.buf = all) ∧
      (c.consDone = true → c.got = all ∧ c.senders = 0 ∧ c.buf = []) ∧
      ((∀ k, cap = some k → 1 ≤ k) → Chan.Fair m sched → c.consDone = true) := by
  obtain ⟨hc, stable, fuel⟩ := x
  have hlen := ngJobs_length n ac tl (cSearch hc fuel s n ac stable).1
  have := Chan.clones_deliver (ngJob hc s n ac stable) (ngJobs n ac (cSearch hc fuel s n ac stable).1 tl)
    (cSearch hc fuel s n ac stable).2.1 (ngResults n ac (cSearch hc fuel s n ac stable).1 tl)
    (ngJob_halts hc s n ac stable hd.1) (ngJobs_halt n ac tl _ hd.2) cap
  rw [hlen] at this
  exact this

end NConc
