import AdfObdd.StoreCanon
/-! prototype 30: a decidable check on a dumped node table that implies the structural part of
    the invariant — hence canonicity — for the *real* table the harness dumps -/

def nodeOK (ns : Array Node) (i : Nat) (n : Node) : Bool :=
  decide (n.var < VBOT) && decide (n.lo < i) && decide (n.hi < i) && decide (n.lo ≠ n.hi) &&
  (match ns[n.lo]? with | some m => decide (n.var < m.var) | none => false) &&
  (match ns[n.hi]? with | some m => decide (n.var < m.var) | none => false)

/-- no duplicate among the inner nodes (quadratic; the driver uses a hash set with the same meaning) -/
def noDupFrom (ns : Array Node) : Bool :=
  (List.range ns.size).all (fun i => (List.range ns.size).all (fun j =>
    decide (i < 2) || decide (j < 2) || decide (i = j) || decide (ns[i]? ≠ ns[j]?)))

def wfCheck (ns : Array Node) : Bool :=
  decide (2 ≤ ns.size) && decide (ns[0]? = some ⟨VBOT, 0, 0⟩) && decide (ns[1]? = some ⟨VTOP, 1, 1⟩) &&
  (List.range ns.size).all (fun i => decide (i < 2) || (match ns[i]? with | some n => nodeOK ns i n | none => false)) &&
  noDupFrom ns

theorem wfCheck_sound (ns : Array Node) (h : wfCheck ns = true) : TableWF ns := by
  unfold wfCheck at h
  simp only [Bool.and_eq_true, decide_eq_true_eq] at h
  obtain ⟨⟨⟨⟨h1, h2⟩, h3⟩, h4⟩, h5⟩ := h
  refine ⟨h1, h2, h3, ?_, ?_⟩
  · intro i n hi hn
    have hlt : i < ns.size := lt_of_get hn
    have := List.all_eq_true.mp h4 i (List.mem_range.mpr hlt)
    simp only [Bool.or_eq_true, decide_eq_true_eq] at this
    rcases this with h | h
    · omega
    · rw [hn] at h
      unfold nodeOK at h
      simp only [Bool.and_eq_true, decide_eq_true_eq] at h
      obtain ⟨⟨⟨⟨⟨a, b⟩, c⟩, d⟩, e⟩, f⟩ := h
      refine ⟨a, b, c, d, ?_, ?_⟩
      · intro m hm; rw [hm] at e; simpa using e
      · intro m hm; rw [hm] at f; simpa using f
  · intro i j n hi hj hni hnj
    unfold noDupFrom at h5
    have := List.all_eq_true.mp (List.all_eq_true.mp h5 i (List.mem_range.mpr (lt_of_get hni))) j
      (List.mem_range.mpr (lt_of_get hnj))
    simp only [Bool.or_eq_true, decide_eq_true_eq] at this
    rcases this with ((h | h) | h) | h
    · omega
    · omega
    · exact h
    · rw [hni, hnj] at h; exact absurd rfl h
#print axioms wfCheck_sound

/-- what the checker buys: on a dumped table that passes the check, two handles denote the same
Boolean function iff they are the same handle (whatever the unique table and caches hold) -/
theorem canonical_of_check (s : Store) (h : wfCheck s.nodes = true) (a b : Nat)
    (ha : a < s.nodes.size) (hb : b < s.nodes.size) :
    (∀ σ, eval s a σ = eval s b σ) ↔ a = b :=
  Tab.canonical s (wfCheck_sound s.nodes h) a b ha hb
#print axioms canonical_of_check
