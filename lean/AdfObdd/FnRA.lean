import AdfObdd.Grounded
/-! The ideal Boolean-function library as a lawful restriction algebra: terms ARE Boolean functions,
    restriction is the cofactor, constant detection is exact. Any library that represents Boolean
    functions faithfully (biodivine's diagrams are assumed to) behaves like this instance, so the
    generic theorems about `groundedLoop`, `completeCheck`, … apply to it. -/

noncomputable def FnRA : RA Unit BoolFn where
  Inv := fun _ => True
  Valid := fun _ _ => True
  den := fun _ f => f
  Le := fun _ _ => True
  le_refl := fun _ => trivial
  le_trans := fun _ _ => trivial
  valid_mono := fun _ _ => trivial
  den_mono := fun _ _ _ => rfl
  restrict := fun s f v b => (s, fun σ => f (upd σ v b))
  restrict_spec := fun _ _ _ _ => ⟨trivial, trivial, trivial, rfl⟩
  isConst := constOf
  isConst_spec := fun _ _ _ => constOf_some

/-- C01 on the ideal library (the model of the biodivine back-end): the grounding loop returns the
least fixpoint of the consequence operator of the given functions -/
theorem grounded_ideal_library (D : List BoolFn) :
    let g := asg3 FnRA (groundedLoop FnRA (D.length + 1) () D).2
    Gam D g = g ∧ ∀ w', Gam D w' = w' → Le3 g w' := by
  have h := grounded_correct FnRA (D.length + 1) () D trivial (fun _ _ => trivial) (Nat.lt_succ_self _)
  have e : List.map (FnRA.den ()) D = D := by
    show List.map (fun f => f) D = D
    simp
  rw [e] at h
  exact h
