import AdfObdd.Grounded
/-! prototype 19: the filter of `Adf::complete` is exactly "fixpoint of Γ" -/

section
variable {S T : Type} (A : RA S T)

/-- `interpretation.iter().enumerate().all(|(i, it)| it.compare_inf(&fold restrict ac[i] by interpretation))`
with the short circuit of `all` -/
def completeCheck (s : S) (v : List T) : List T → List T → S × Bool
  | a :: acs, x :: xs =>
    let r := restrictBy A s a 0 v
    if A.isConst r.2 == A.isConst x then completeCheck r.1 v acs xs else (r.1, false)
  | _, _ => (s, true)

theorem isConst_eq_constOf {s : S} {t : T} (hi : A.Inv s) (hv : A.Valid s t) :
    A.isConst t = constOf (A.den s t) := by
  cases hc : A.isConst t with
  | some b => exact ((constOf_some).mpr ((A.isConst_spec b hi hv).mp hc)).symm
  | none =>
    cases hd : constOf (A.den s t) with
    | none => rfl
    | some b =>
      have := (A.isConst_spec b hi hv).mpr (constOf_some.mp hd)
      rw [hc] at this; cases this

theorem completeCheck_spec (v : List T) : ∀ (acs xs : List T) (s s0 : S), A.Inv s0 → A.Le s0 s → A.Inv s →
    AllValid A s0 v → AllValid A s0 acs → AllValid A s0 xs → acs.length = xs.length →
    A.Inv (completeCheck A s v acs xs).1 ∧ A.Le s (completeCheck A s v acs xs).1 ∧
    ((completeCheck A s v acs xs).2 = true ↔
      (acs.map (fun a => constOf (fun σ => A.den s0 a (over σ 0 (asg3 A v))))) = xs.map (fun x => constOf (A.den s0 x))) := by
  intro acs
  induction acs with
  | nil =>
    intro xs s s0 _ _ hi _ _ _ hl
    cases xs with
    | nil => exact ⟨hi, A.le_refl s, by simp [completeCheck]⟩
    | cons _ _ => simp at hl
  | cons a acs ih =>
    intro xs s s0 hi0 hle hi hv ha hx hl
    cases xs with
    | nil => simp at hl
    | cons x xs =>
      have hav : A.Valid s0 a := ha a (List.mem_cons_self ..)
      have hxv : A.Valid s0 x := hx x (List.mem_cons_self ..)
      have ⟨i1, l1, v1, d1⟩ := restrictBy_spec A v 0 s a hi (A.valid_mono hle hav)
      unfold completeCheck
      simp only
      -- what the two information values are, semantically
      have e1 : A.isConst (restrictBy A s a 0 v).2 = constOf (fun σ => A.den s0 a (over σ 0 (asg3 A v))) := by
        rw [isConst_eq_constOf A i1 v1, d1, A.den_mono hi0 hle hav]
      have e2 : A.isConst x = constOf (A.den s0 x) := isConst_eq_constOf A hi0 hxv
      by_cases hc : (A.isConst (restrictBy A s a 0 v).2 == A.isConst x) = true
      · rw [if_pos hc]
        have heq : constOf (fun σ => A.den s0 a (over σ 0 (asg3 A v))) = constOf (A.den s0 x) := by
          rw [← e1, ← e2]; simpa using hc
        have ⟨i2, l2, h2⟩ := ih xs _ s0 hi0 (A.le_trans hle l1) i1 hv
          (fun y hy => ha y (List.mem_cons_of_mem _ hy)) (fun y hy => hx y (List.mem_cons_of_mem _ hy))
          (by simpa using hl)
        refine ⟨i2, A.le_trans l1 l2, ?_⟩
        rw [h2]
        simp only [List.map_cons, List.cons.injEq, heq, true_and]
      · rw [if_neg hc]
        refine ⟨i1, l1, ?_⟩
        simp only [List.map_cons, List.cons.injEq]
        constructor
        · intro h; cases h
        · intro ⟨h, _⟩
          exfalso; apply hc
          rw [e1, e2, h]; simp

/-- C02 core: the filter accepts `v` iff its decided part is a fixpoint of the consequence
operator of the ADF denoted by `ac` -/
theorem complete_filter_iff (s : S) (ac v : List T) (hi : A.Inv s) (ha : AllValid A s ac)
    (hv : AllValid A s v) (hl : ac.length = v.length) :
    (completeCheck A s v ac v).2 = true ↔ Gam (ac.map (A.den s)) (asg3 A v) = asg3 A v := by
  have ⟨_, _, h⟩ := completeCheck_spec A v ac v s s hi (A.le_refl s) hi hv ha hv hl
  rw [h]
  have e := asg3_eq A hi hv
  simp only [Gam, List.map_map, e, Function.comp_def]
end
#print axioms complete_filter_iff
