import AdfObdd.FeatureSearch
import AdfObdd.CliModel
/-! C12, the semantics over the configured store — part 3: `Adf::nogood_internal`
    (`stable_nogood(heu)` / `two_val_nogood(heu)`) under a feature set (`ngSearchC`) and its
    simulation by the executed model `SM.ngSearch`, for every built-in and scripted heuristic.

    The executed `SM.ngIter` is cut into phases (`ngChoice`, `ngBack`, `ngClos`, `ngStore`; the cut
    is definitional: `ngIter_eq` is `rfl`); the configured iteration has the same phases over a
    state whose store is an `FStore`, with the heuristic call threading the store (the MinMod
    heuristics call `paths(t, true)`). -/

namespace SM

/-! ### the phases of the executed iteration -/

def ngChoice (h : Heu) (st : NgS) : NgS :=
  if st.choice then
      match heuCall h st.s st.cur st.time with
      | some (v, t) =>
        let cur' := st.cur.set v t
        { st with choice := false, hist := st.cur :: st.hist, cur := cur', stack := (true, toPA cur') :: st.stack,
                  trace := st.trace ++ [st.cur], time := st.time + 1 }
      | none => { st with choice := false, backtrack := true, trace := st.trace ++ [st.cur], time := st.time + 1 }
    else st

def ngBack (st : NgS) : NgS :=
  if st.backtrack then
      let p := popLoop st.buckets st.cur st.hist st.stack
      { st with backtrack := false, buckets := p.1, stack := p.2.1, cur := p.2.2.1, hist := p.2.2.2 }
    else st

def ngStore (n : Nat) (ac : List Nat) (stable : Bool) (st : NgS) (updNg : Bool) : NgS :=
    let acr := applyInterp st.s st.cur ac
    let st := { st with s := acr.1 }
    let bad := (st.cur.zip acr.2).any (fun (c, a) => isTV c && isTV a && (c != a))
    if bad then { st with backtrack := true } else
    let upd := applyInterp st.s st.cur st.cur
    let st := { st with s := upd.1 }
    let updFp := upd.2 != st.cur
    let st := { st with cur := upd.2 }
    if updFp then st
    else if updNg then st
    else if !(st.cur.all isTV) then { st with choice := true }
    else
      let chk := if stable then stabilityCheck st.s n ac st.cur else (st.s, true)
      let st := { st with s := chk.1 }
      if chk.2 then
        { st with stack := (false, toPA st.cur) :: st.stack, out := st.out ++ [st.cur], backtrack := true }
      else
        { st with stack := (false, toPA st.cur) :: st.stack, backtrack := true }

def ngClos (n : Nat) (ac : List Nat) (stable : Bool) (st : NgS) : NgS :=
  match closureF st.buckets st.cur with
  | ClosT.inconsistent => { st with backtrack := true }
  | cl =>
    let (st, updNg) := match cl with
      | ClosT.update r => ({ st with cur := r, stack := (false, toPA r) :: st.stack }, true)
      | _ => (st, false)
    ngStore n ac stable st updNg

def ngTail (n : Nat) (ac : List Nat) (stable : Bool) (st : NgS) : NgS :=
  if st.backtrack && st.stack.isEmpty then { st with done := true } else ngClos n ac stable (ngBack st)

/-- the executed iteration is the composition of its phases, definitionally -/
theorem ngIter_eq (h : Heu) (n : Nat) (ac : List Nat) (stable : Bool) (st : NgS) :
    ngIter h n ac stable st = ngTail n ac stable (ngChoice h st) := rfl

end SM

/-! ### the heuristic call under a feature set -/

/-- `heuristic(self, interpretation)`; the MinMod heuristics query `paths(t, true)` -/
def heuCallC (c : Cfg) (h : SM.Heu) (fs : FStore) (v : List Nat) (time : Nat) : Option (Nat × Nat) × FStore :=
  match h with
  | .simple => ((SM.undecided v).head?.map (fun (i, _) => (i, 1)), fs)
  | .minPathsMaxVarImp =>
    let r := minByM (fun fs l r => cmpMinPathsImpC c fs v l r) fs (SM.undecided v)
    match r.1 with
    | none => (none, r.2)
    | some (i, t) => let p := pathsQ c r.2 t; (some (i, if moreModels p.1 then 1 else 0), p.2)
  | .maxVarImpMinPaths =>
    let r := minByM (fun fs l r => cmpImpMinPathsC c fs v l r) fs (SM.undecided v)
    match r.1 with
    | none => (none, r.2)
    | some (i, t) => let p := pathsQ c r.2 t; (some (i, if moreModels p.1 then 1 else 0), p.2)
  | .script seed =>
    let u := SM.undecided v
    let r := (SM.splitmix (UInt64.ofNat seed + UInt64.ofNat time * 0x2545F4914F6CDD1D)).toNat
    (match u[r % u.length]? with
     | some (i, _) => some (i, (r / 2 ^ 33) % 2)
     | none => none, fs)

theorem heuCallC_rel {c : Cfg} {z : Bool} {P : FStore → Prop} (st : Stable c P) {fs : FStore} {s : Store}
    (h : RelP c z P fs s) (heu : SM.Heu) (v : List Nat) (time : Nat) :
    (heuCallC c heu fs v time).1 = SM.heuCall heu s v time ∧ RelP c z P (heuCallC c heu fs v time).2 s := by
  cases heu with
  | simple => exact ⟨rfl, h⟩
  | script seed => exact ⟨rfl, h⟩
  | minPathsMaxVarImp =>
    have ⟨a, b⟩ := minByM_sim (R := RelP c z P) (fun fs l r => cmpMinPathsImpC c fs v l r) (SM.cmpMinPathsImp s v) s
      (fun fs' l r h' => cmpMinPathsImpC_rel st h' v l r) (SM.undecided v) fs h
    unfold heuCallC SM.heuCall
    simp only
    rw [a]
    cases minBy (SM.cmpMinPathsImp s v) (SM.undecided v) with
    | none => exact ⟨rfl, b⟩
    | some x =>
      obtain ⟨i, t⟩ := x
      have ⟨a2, b2⟩ := pathsQ_rel st b t
      simp only [Option.map, a2]
      exact ⟨trivial, b2⟩
  | maxVarImpMinPaths =>
    have ⟨a, b⟩ := minByM_sim (R := RelP c z P) (fun fs l r => cmpImpMinPathsC c fs v l r) (SM.cmpImpMinPaths s v) s
      (fun fs' l r h' => cmpImpMinPathsC_rel st h' v l r) (SM.undecided v) fs h
    unfold heuCallC SM.heuCall
    simp only
    rw [a]
    cases minBy (SM.cmpImpMinPaths s v) (SM.undecided v) with
    | none => exact ⟨rfl, b⟩
    | some x =>
      obtain ⟨i, t⟩ := x
      have ⟨a2, b2⟩ := pathsQ_rel st b t
      simp only [Option.map, a2]
      exact ⟨trivial, b2⟩

/-! ### the iteration under a feature set -/

structure NgSC where
  s : FStore
  cur : List Nat
  buckets : List (List PA)
  stack : List (Bool × PA)
  hist : List (List Nat)
  backtrack : Bool := false
  choice : Bool := false
  out : List (List Nat) := []
  trace : List (List Nat) := []
  time : Nat := 0
  done : Bool := false

def ngChoiceC (c : Cfg) (h : SM.Heu) (st : NgSC) : NgSC :=
  if st.choice then
      let hc := heuCallC c h st.s st.cur st.time
      match hc.1 with
      | some (v, t) =>
        let cur' := st.cur.set v t
        { st with s := hc.2, choice := false, hist := st.cur :: st.hist, cur := cur',
                  stack := (true, toPA cur') :: st.stack, trace := st.trace ++ [st.cur], time := st.time + 1 }
      | none => { st with s := hc.2, choice := false, backtrack := true, trace := st.trace ++ [st.cur],
                          time := st.time + 1 }
    else st

def ngBackC (st : NgSC) : NgSC :=
  if st.backtrack then
      let p := SM.popLoop st.buckets st.cur st.hist st.stack
      { st with backtrack := false, buckets := p.1, stack := p.2.1, cur := p.2.2.1, hist := p.2.2.2 }
    else st

def ngStoreC (c : Cfg) (n : Nat) (ac : List Nat) (stable : Bool) (st : NgSC) (updNg : Bool) : NgSC :=
    let acr := applyVecG (CfgRA c) st.s st.cur ac
    let st := { st with s := acr.1 }
    let bad := (st.cur.zip acr.2).any (fun (c, a) => isTV c && isTV a && (c != a))
    if bad then { st with backtrack := true } else
    let upd := applyVecG (CfgRA c) st.s st.cur st.cur
    let st := { st with s := upd.1 }
    let updFp := upd.2 != st.cur
    let st := { st with cur := upd.2 }
    if updFp then st
    else if updNg then st
    else if !(st.cur.all isTV) then { st with choice := true }
    else
      let chk := if stable then stabilityCheckG (CfgRA c) st.s n ac st.cur else (st.s, true)
      let st := { st with s := chk.1 }
      if chk.2 then
        { st with stack := (false, toPA st.cur) :: st.stack, out := st.out ++ [st.cur], backtrack := true }
      else
        { st with stack := (false, toPA st.cur) :: st.stack, backtrack := true }

def ngClosC (c : Cfg) (n : Nat) (ac : List Nat) (stable : Bool) (st : NgSC) : NgSC :=
  match SM.closureF st.buckets st.cur with
  | ClosT.inconsistent => { st with backtrack := true }
  | cl =>
    let (st, updNg) := match cl with
      | ClosT.update r => ({ st with cur := r, stack := (false, toPA r) :: st.stack }, true)
      | _ => (st, false)
    ngStoreC c n ac stable st updNg

/-- one iteration of the `loop` of `nogood_internal` under the feature set `c` -/
def ngIterC (c : Cfg) (h : SM.Heu) (n : Nat) (ac : List Nat) (stable : Bool) (st : NgSC) : NgSC :=
  let st := ngChoiceC c h st
  if st.backtrack && st.stack.isEmpty then { st with done := true } else ngClosC c n ac stable (ngBackC st)

def ngRunC (c : Cfg) (h : SM.Heu) (n : Nat) (ac : List Nat) (stable : Bool) : Nat → NgSC → NgSC
  | 0, st => st
  | fuel+1, st => if st.done then st else ngRunC c h n ac stable fuel (ngIterC c h n ac stable st)

/-- `stable_nogood(heu)` / `two_val_nogood(heu)` under the feature set `c` -/
def ngSearchC (c : Cfg) (h : SM.Heu) (fuel : Nat) (fs : FStore) (n : Nat) (ac : List Nat) (stable : Bool) :
    FStore × List (List Nat) × List (List Nat) × Bool :=
  let g := groundedLoop (CfgRA c) (n + 1) fs ac
  let r := ngRunC c h n ac stable fuel
    { s := g.1, cur := g.2, buckets := List.replicate (n + 1) [], stack := [], hist := [] }
  (r.s, r.out, r.trace, r.done)

/-! ### simulation -/

/-- same control state, related stores -/
structure NgRel (R : FStore → Store → Prop) (a : NgSC) (b : SM.NgS) : Prop where
  s : R a.s b.s
  cur : a.cur = b.cur
  buckets : a.buckets = b.buckets
  stack : a.stack = b.stack
  hist : a.hist = b.hist
  backtrack : a.backtrack = b.backtrack
  choice : a.choice = b.choice
  out : a.out = b.out
  trace : a.trace = b.trace
  time : a.time = b.time
  done : a.done = b.done

section
variable {c : Cfg} {z : Bool} {P : FStore → Prop} (st : Stable c P)

theorem ngRel_cases {R : FStore → Store → Prop} {a : NgSC} {b : SM.NgS} (h : NgRel R a b) :
    ∃ fs s cur bk stk hi bt ch out tr tm dn, R fs s ∧
      a = ⟨fs, cur, bk, stk, hi, bt, ch, out, tr, tm, dn⟩ ∧ b = ⟨s, cur, bk, stk, hi, bt, ch, out, tr, tm, dn⟩ := by
  obtain ⟨fs, cur, bk, stk, hi, bt, ch, out, tr, tm, dn⟩ := a
  obtain ⟨s, cur', bk', stk', hi', bt', ch', out', tr', tm', dn'⟩ := b
  obtain ⟨h0, h1, h2, h3, h4, h5, h6, h7, h8, h9, h10⟩ := h
  simp only at h1 h2 h3 h4 h5 h6 h7 h8 h9 h10
  subst h1 h2 h3 h4 h5 h6 h7 h8 h9 h10
  exact ⟨fs, s, _, _, _, _, _, _, _, _, _, _, h0, rfl, rfl⟩

include st in
theorem ngChoice_sim (heu : SM.Heu) {a : NgSC} {b : SM.NgS} (h : NgRel (RelP c z P) a b) :
    NgRel (RelP c z P) (ngChoiceC c heu a) (SM.ngChoice heu b) := by
  obtain ⟨fs, s, cur, bk, stk, hi, bt, ch, out, tr, tm, dn, r, rfl, rfl⟩ := ngRel_cases h
  unfold ngChoiceC SM.ngChoice
  cases ch with
  | false => exact h
  | true =>
    have ⟨q, r'⟩ := heuCallC_rel st r heu cur tm
    simp only [if_true]
    rw [← q]
    cases (heuCallC c heu fs cur tm).1 with
    | none => exact ⟨r', rfl, rfl, rfl, rfl, rfl, rfl, rfl, rfl, rfl, rfl⟩
    | some x => exact ⟨r', rfl, rfl, rfl, rfl, rfl, rfl, rfl, rfl, rfl, rfl⟩

theorem ngBack_sim {R : FStore → Store → Prop} {a : NgSC} {b : SM.NgS} (h : NgRel R a b) :
    NgRel R (ngBackC a) (SM.ngBack b) := by
  obtain ⟨fs, s, cur, bk, stk, hi, bt, ch, out, tr, tm, dn, r, rfl, rfl⟩ := ngRel_cases h
  unfold ngBackC SM.ngBack
  cases bt with
  | false => exact h
  | true => exact ⟨r, rfl, rfl, rfl, rfl, rfl, rfl, rfl, rfl, rfl, rfl⟩

theorem stabilityCheck_eq (s : Store) (n : Nat) (ac cand : List Nat) :
    stabilityCheck s n ac cand = stabilityCheckC s n ac cand := rfl

include st in
theorem ngStore_sim (n : Nat) (ac : List Nat) (stable : Bool) (updNg : Bool) {a : NgSC} {b : SM.NgS}
    (h : NgRel (RelP c z P) a b) :
    NgRel (RelP c z P) (ngStoreC c n ac stable a updNg) (SM.ngStore n ac stable b updNg) := by
  obtain ⟨fs, s, cur, bk, stk, hi, bt, ch, out, tr, tm, dn, r, rfl, rfl⟩ := ngRel_cases h
  have sim := cfg_sim c z P st
  have ⟨q1, r1⟩ := applyVecG_sim sim cur ac fs s r
  have ⟨q2, r2⟩ := applyVecG_sim sim cur cur _ _ r1
  have ⟨q3, r3⟩ := stabilityCheckG_sim sim n ac (applyVec (applyVec s cur ac).1 cur cur).2 _ _ r2
  unfold ngStoreC SM.ngStore
  simp only [applyInterp_eq_applyVec, stabilityCheck_eq, q1, q2]
  cases stable with
  | true =>
    simp only [if_true, q3]
    repeat' split
    all_goals first
      | exact ⟨r1, rfl, rfl, rfl, rfl, rfl, rfl, rfl, rfl, rfl, rfl⟩
      | exact ⟨r2, rfl, rfl, rfl, rfl, rfl, rfl, rfl, rfl, rfl, rfl⟩
      | exact ⟨r3, rfl, rfl, rfl, rfl, rfl, rfl, rfl, rfl, rfl, rfl⟩
  | false =>
    simp only [Bool.false_eq_true, if_false]
    repeat' split
    all_goals first
      | exact ⟨r1, rfl, rfl, rfl, rfl, rfl, rfl, rfl, rfl, rfl, rfl⟩
      | exact ⟨r2, rfl, rfl, rfl, rfl, rfl, rfl, rfl, rfl, rfl, rfl⟩

include st in
theorem ngClos_sim (n : Nat) (ac : List Nat) (stable : Bool) {a : NgSC} {b : SM.NgS}
    (h : NgRel (RelP c z P) a b) :
    NgRel (RelP c z P) (ngClosC c n ac stable a) (SM.ngClos n ac stable b) := by
  obtain ⟨fs, s, cur, bk, stk, hi, bt, ch, out, tr, tm, dn, r, rfl, rfl⟩ := ngRel_cases h
  unfold ngClosC SM.ngClos
  simp only
  cases SM.closureF bk cur with
  | inconsistent => exact ⟨r, rfl, rfl, rfl, rfl, rfl, rfl, rfl, rfl, rfl, rfl⟩
  | noUpdate => exact ngStore_sim st n ac stable false h
  | update v => exact ngStore_sim st n ac stable true ⟨r, rfl, rfl, rfl, rfl, rfl, rfl, rfl, rfl, rfl, rfl⟩

include st in
theorem ngIter_sim (heu : SM.Heu) (n : Nat) (ac : List Nat) (stable : Bool) {a : NgSC} {b : SM.NgS}
    (h : NgRel (RelP c z P) a b) :
    NgRel (RelP c z P) (ngIterC c heu n ac stable a) (SM.ngIter heu n ac stable b) := by
  rw [SM.ngIter_eq]
  have h1 := ngChoice_sim st heu h
  have hb : ((ngChoiceC c heu a).backtrack && (ngChoiceC c heu a).stack.isEmpty) =
      ((SM.ngChoice heu b).backtrack && (SM.ngChoice heu b).stack.isEmpty) := by rw [h1.backtrack, h1.stack]
  unfold ngIterC SM.ngTail
  simp only
  generalize ngChoiceC c heu a = a1 at *
  generalize SM.ngChoice heu b = b1 at *
  by_cases hc : (b1.backtrack && b1.stack.isEmpty) = true
  · rw [if_pos hc, if_pos (hb.trans hc)]
    exact ⟨h1.s, h1.cur, h1.buckets, h1.stack, h1.hist, h1.backtrack, h1.choice, h1.out, h1.trace, h1.time, rfl⟩
  · rw [if_neg hc, if_neg (by rw [hb]; exact hc)]
    exact ngClos_sim st n ac stable (ngBack_sim h1)

include st in
theorem ngRun_sim (heu : SM.Heu) (n : Nat) (ac : List Nat) (stable : Bool) : ∀ (fuel : Nat) {a : NgSC} {b : SM.NgS},
    NgRel (RelP c z P) a b → NgRel (RelP c z P) (ngRunC c heu n ac stable fuel a) (SM.ngRun heu n ac stable fuel b) := by
  intro fuel
  induction fuel with
  | zero => intro a b h; exact h
  | succ f ih =>
    intro a b h
    unfold ngRunC SM.ngRun
    rw [h.done]
    split
    · exact h
    · exact ih (ngIter_sim st heu n ac stable h)

include st in
/-- the nogood search under any feature set, with any built-in or scripted heuristic: the same
emitted vectors (handles included), the same interpretations shown to the heuristic, the same
halting behaviour as the executed reference model; the stores stay related -/
theorem ngSearchC_sim (heu : SM.Heu) (fuel : Nat) (fs : FStore) (s : Store) (n : Nat) (ac : List Nat) (stable : Bool)
    (h : RelP c z P fs s) :
    (ngSearchC c heu fuel fs n ac stable).2 = (SM.ngSearch heu fuel s n ac stable).2 ∧
    RelP c z P (ngSearchC c heu fuel fs n ac stable).1 (SM.ngSearch heu fuel s n ac stable).1 := by
  have ⟨q0, r0⟩ := groundedLoop_sim (cfg_sim c z P st) (n+1) fs s ac h
  have hr := ngRun_sim st heu n ac stable fuel
    (a := { s := (groundedLoop (CfgRA c) (n+1) fs ac).1, cur := (groundedLoop (CfgRA c) (n+1) fs ac).2,
            buckets := List.replicate (n + 1) [], stack := [], hist := [] })
    (b := { s := (groundedLoop StoreRA (n+1) s ac).1, cur := (groundedLoop StoreRA (n+1) s ac).2,
            buckets := List.replicate (n + 1) [], stack := [], hist := [] })
    ⟨r0, q0, rfl, rfl, rfl, rfl, rfl, rfl, rfl, rfl, rfl⟩
  unfold ngSearchC SM.ngSearch
  simp only
  exact ⟨by rw [hr.out, hr.trace, hr.done], hr.s⟩
end

/-! ### `stable_with_prefilter` and the sections of the command line tool -/

/-- `stable_with_prefilter` on any restriction algebra -/
def stablePreG {S : Type} (A : RA S Nat) (s : S) (n : Nat) (ac : List Nat) : S × List (List Nat) :=
  let g := groundedLoop A (n + 1) s ac
  (twoValAll g.2).foldl (fun (acc : S × List (List Nat)) cand =>
      let pre := completeCheck A acc.1 cand ac cand
      if pre.2 then
        let red := mapFalseG A pre.1 cand ac
        let grd := groundedLoop A (n + 1) red.1 red.2
        let ok := (cand.zip grd.2).all (fun (a, b) => sameInfo a b)
        (grd.1, if ok then acc.2 ++ [cand] else acc.2)
      else (pre.1, acc.2)) (g.1, [])

theorem stablePreG_store (s : Store) (n : Nat) (ac : List Nat) : stablePreG StoreRA s n ac = Cli.stablePre s n ac := by
  unfold stablePreG Cli.stablePre
  simp only [mapFalseG_store]

theorem stablePreG_sim {S S' : Type} {A : RA S Nat} {B : RA S' Nat} {R : S → S' → Prop} (sim : RASim A B R)
    (s : S) (s' : S') (n : Nat) (ac : List Nat) (h : R s s') :
    (stablePreG A s n ac).2 = (stablePreG B s' n ac).2 ∧ R (stablePreG A s n ac).1 (stablePreG B s' n ac).1 := by
  have ⟨q, r⟩ := groundedLoop_sim sim (n+1) s s' ac h
  unfold stablePreG
  simp only
  rw [q]
  exact foldl_sim (R := R) _ _
    (by
      intro a a' x ra qa
      have ⟨q0, r0⟩ := completeCheck_sim sim x ac x a.1 a'.1 ra
      have ⟨q1, r1⟩ := mapFalseG_sim sim x ac _ _ r0
      have ⟨q2, r2⟩ := groundedLoop_sim sim (n+1) _ _ (mapFalseG A (completeCheck A a.1 x ac x).1 x ac).2 r1
      rw [← q0]
      split
      · rw [← q1, q2, qa]; exact ⟨rfl, r2⟩
      · exact ⟨qa, r0⟩)
    _ _ _ r rfl

/-- one section of the tool's output on the configured store -/
def runSectionC (c : Cfg) (heu : SM.Heu) (sec : Cli.Section) (fs : FStore) (n : Nat) (ac : List Nat) :
    FStore × List (List Nat) :=
  match sec with
  | .grd => let g := groundedLoop (CfgRA c) (n + 1) fs ac; (g.1, [g.2])
  | .com => let r := completeAllG (CfgRA c) fs n ac; (r.1, r.2.2)
  | .twoval => let r := ngSearchC c heu 1000000 fs n ac false; (r.1, r.2.1)
  | .stm => stableAllG (CfgRA c) fs n ac
  | .stmca => countAllC c fs n ac true
  | .stmcb => countAllC c fs n ac false
  | .stmpre => stablePreG (CfgRA c) fs n ac
  | .stmrew => stableAllG (CfgRA c) fs n ac
  | .stmng => let r := ngSearchC c heu 1000000 fs n ac true; (r.1, r.2.1)

def runFromC (c : Cfg) (heu : SM.Heu) (n : Nat) (ac : List Nat) :
    List Cli.Section → FStore × List (Cli.Section × List (List Nat)) → FStore × List (Cli.Section × List (List Nat))
  | [], acc => acc
  | sec :: rest, acc =>
    let r := runSectionC c heu sec acc.1 n ac
    runFromC c heu n ac rest (r.1, acc.2 ++ [(sec, r.2)])

/-- everything an invocation prints (naive / hybrid arm), on the configured store -/
def runCliC (c : Cfg) (m : Cli.Mode) (f : Cli.Flags) (heu : SM.Heu) (fs : FStore) (n : Nat) (ac : List Nat) :
    List (Cli.Section × List (List Nat)) :=
  let start : FStore × List Nat := match m with
    | .hybrid => groundedLoop (CfgRA c) (n + 1) fs ac
    | _ => (fs, ac)
  (runFromC c heu n start.2 (Cli.sections m f) (start.1, [])).2

section
variable {c : Cfg} {z : Bool} {P : FStore → Prop} (st : Stable c P)
include st

theorem runSectionC_sim (heu : SM.Heu) (sec : Cli.Section) (fs : FStore) (s : Store) (n : Nat) (ac : List Nat)
    (h : RelP c z P fs s) :
    (runSectionC c heu sec fs n ac).2 = (Cli.runSection heu sec s n ac).2 ∧
    RelP c z P (runSectionC c heu sec fs n ac).1 (Cli.runSection heu sec s n ac).1 := by
  have sim := cfg_sim c z P st
  cases sec with
  | grd =>
    have ⟨q, r⟩ := groundedLoop_sim sim (n+1) fs s ac h
    simp only [runSectionC, Cli.runSection]
    exact ⟨by rw [q], r⟩
  | com =>
    have ⟨q, r⟩ := completeAllG_sim sim fs s n ac h
    rw [completeAllG_store] at q r
    simp only [runSectionC, Cli.runSection]
    exact ⟨by rw [q], r⟩
  | twoval =>
    have ⟨q, r⟩ := ngSearchC_sim st heu 1000000 fs s n ac false h
    simp only [runSectionC, Cli.runSection]
    exact ⟨by rw [q], r⟩
  | stm =>
    have ⟨q, r⟩ := stableAllG_sim sim fs s n ac h
    rw [stableAllG_store] at q r
    simp only [runSectionC, Cli.runSection]
    exact ⟨q, r⟩
  | stmca =>
    simp only [runSectionC, Cli.runSection]
    exact countAllC_sim c z P st fs s n ac true h
  | stmcb =>
    simp only [runSectionC, Cli.runSection]
    exact countAllC_sim c z P st fs s n ac false h
  | stmpre =>
    have ⟨q, r⟩ := stablePreG_sim sim fs s n ac h
    rw [stablePreG_store] at q r
    simp only [runSectionC, Cli.runSection]
    exact ⟨q, r⟩
  | stmrew =>
    have ⟨q, r⟩ := stableAllG_sim sim fs s n ac h
    rw [stableAllG_store] at q r
    simp only [runSectionC, Cli.runSection]
    exact ⟨q, r⟩
  | stmng =>
    have ⟨q, r⟩ := ngSearchC_sim st heu 1000000 fs s n ac true h
    simp only [runSectionC, Cli.runSection]
    exact ⟨by rw [q], r⟩

theorem runFromC_sim (heu : SM.Heu) (n : Nat) (ac : List Nat) : ∀ (secs : List Cli.Section)
    (a : FStore × List (Cli.Section × List (List Nat))) (b : Store × List (Cli.Section × List (List Nat))),
    RelP c z P a.1 b.1 → a.2 = b.2 →
    (runFromC c heu n ac secs a).2 = (Cli.runFrom heu n ac secs b).2 ∧
    RelP c z P (runFromC c heu n ac secs a).1 (Cli.runFrom heu n ac secs b).1 := by
  intro secs
  induction secs with
  | nil => intro a b r q; exact ⟨q, r⟩
  | cons sec rest ih =>
    intro a b r q
    have ⟨q1, r1⟩ := runSectionC_sim st heu sec a.1 b.1 n ac r
    unfold runFromC Cli.runFrom
    exact ih _ _ r1 (by simp only; rw [q, q1])

/-- the tool prints the same sections with the same interpretations under every feature set -/
theorem runCliC_sim (m : Cli.Mode) (f : Cli.Flags) (heu : SM.Heu) (fs : FStore) (s : Store) (n : Nat) (ac : List Nat)
    (h : RelP c z P fs s) : runCliC c m f heu fs n ac = Cli.run m f heu s n ac := by
  unfold runCliC Cli.run Cli.startOf
  cases m with
  | hybrid =>
    have ⟨q, r⟩ := groundedLoop_sim (cfg_sim c z P st) (n+1) fs s ac h
    simp only
    rw [q]
    exact (runFromC_sim st heu n _ _ _ _ r rfl).1
  | naive => exact (runFromC_sim st heu n ac _ (fs, []) (s, []) h rfl).1
  | biodivine => exact (runFromC_sim st heu n ac _ (fs, []) (s, []) h rfl).1
end

#print axioms ngSearchC_sim
#print axioms runCliC_sim
