import AdfObdd.TTSpec
import AdfObdd.PathsDepth
import AdfObdd.CountsMore
/-! The link that `TTSpec.lean` left open: `TT.depth` / `TT.paths` — depth and path counts of
    the reduced ordered diagram of a function, computed from the truth table alone under the
    variable order 0 < 1 < … — ARE the depth component of `countF` (= `modelcount_naive`) and the
    path counts `pathsF` of any diagram of a structurally well-formed table (`TableWF`: ordered,
    reduced, no duplicate node) whose function the table represents.

    The recursion `depthFrom nv fuel k tt` walks the variables `k, k+1, …`; at level `k`
    * if the diagram `t` is a terminal or its top variable is above `k`, the function does not
      depend on `k` (`eval_indep`), both cofactor tables equal `tt` (`rep_restrict`,
      `rep_unique`) and the recursion skips the level;
    * if the top variable is `k`, the cofactor tables represent the children (`eval_lo/hi`) and
      differ, because equal tables of functions of the first `nv` variables mean equal functions
      (`rep_inj`), equal functions mean equal handles (`canonical`), and the node is reduced. -/
namespace TT

/-! ### injectivity of the representation on functions of the first `nv` variables -/

/-- a function that looks at the variables below `nv` only is determined by its values at the coded assignments -/
theorem detBy_numOf {nv : Nat} {f : BoolFn} (hd : DetBy nv f) (σ : Asg) : f σ = f (bitsAsg (numOf nv σ)) :=
  hd σ _ (fun x hx => (bitsAsg_numOf nv σ x hx).symm)

/-- two functions of the first `nv` variables with the same table are the same function -/
theorem rep_inj {nv t : Nat} {f g : BoolFn} (hf : Rep nv t f) (hg : Rep nv t g)
    (df : DetBy nv f) (dg : DetBy nv g) (σ : Asg) : f σ = g σ := by
  rw [detBy_numOf df σ, detBy_numOf dg σ]
  have h1 := hf (numOf nv σ)
  have h2 := hg (numOf nv σ)
  rw [h1] at h2
  simpa [numOf_lt] using h2

/-- … in particular tables of different functions differ -/
theorem rep_ne {nv t u : Nat} {f g : BoolFn} (hf : Rep nv t f) (hg : Rep nv u g)
    (df : DetBy nv f) (dg : DetBy nv g) (hne : ∃ σ, f σ ≠ g σ) : t ≠ u := by
  intro e
  subst e
  obtain ⟨σ, hσ⟩ := hne
  exact hσ (rep_inj hf hg df dg σ)

theorem mask_ne_zero (nv : Nat) : mask nv ≠ 0 := by
  intro e
  have := mask_testBit nv 0
  rw [e] at this
  simp at this

/-! ### diagrams whose variables are below `nv` -/

theorem depsF_node' (s : Store) (h : TableWF s.nodes) (t : Nat) (n : Node) (ht : 2 ≤ t)
    (hn : s.nodes[t]? = some n) :
    depsF s (t+1) t = n.var :: (depsF s (n.lo+1) n.lo ++ depsF s (n.hi+1) n.hi) := by
  have ⟨_, hlo, hhi, _, _, _⟩ := h.inner t n ht hn
  conv => lhs; unfold depsF
  rw [if_neg (by omega)]
  simp only [hn]
  rw [depsF_fuel s h n.lo t hlo, depsF_fuel s h n.hi t hhi]

/-- the function of a diagram whose variables are below `nv` looks at those variables only -/
theorem detBy_eval (s : Store) (h : TableWF s.nodes) (t nv : Nat) (ht : t < s.nodes.size)
    (hdeps : ∀ x ∈ depsF s (t+1) t, x < nv) : DetBy nv (eval s t) :=
  fun σ σ' hag => eval_agree_on_deps s h t ht σ σ' (fun x hx => hag x (hdeps x hx))

/-- the tables of the two terminals -/
theorem rep_terminal (s : Store) (nv tt t : Nat) (ht : t < 2) (hrep : Rep nv tt (eval s t)) :
    (t = 0 ∧ tt = 0) ∨ (t = 1 ∧ tt = mask nv) := by
  have h01 : t = 0 ∨ t = 1 := by omega
  rcases h01 with h0 | h1
  · left
    subst h0
    refine ⟨rfl, ?_⟩
    have := rep_unique hrep (rep_const nv false) (fun a _ => eval_zero s _)
    simpa [const] using this
  · right
    subst h1
    refine ⟨rfl, ?_⟩
    have := rep_unique hrep (rep_const nv true) (fun a _ => eval_one s _)
    simpa [const] using this

theorem terminal_values (s : Store) (nv tt t : Nat) (ht : t < 2) (hrep : Rep nv tt (eval s t)) :
    (countF s (t+1) t).2.2 = 0 ∧ (if tt == 0 then ((1, 0) : Nat × Nat) else (0, 1)) = pathsF s (t+1) t := by
  rcases rep_terminal s nv tt t ht hrep with ⟨rfl, rfl⟩ | ⟨rfl, rfl⟩
  · rw [countF_zero, pathsF_zero]; simp
  · rw [countF_one, pathsF_one]
    have := mask_ne_zero nv
    simp [this]

/-! ### unfolding of the two recursions -/

theorem depthFrom_succ (nv fuel k t : Nat) (hk : k < nv) :
    depthFrom nv (fuel+1) k t =
      if restrict nv t k false == restrict nv t k true then depthFrom nv fuel (k+1) t
      else 1 + max (depthFrom nv fuel (k+1) (restrict nv t k false)) (depthFrom nv fuel (k+1) (restrict nv t k true)) := by
  conv => lhs; unfold depthFrom
  rw [if_neg (by omega)]

theorem depthFrom_ge (nv fuel k t : Nat) (hk : nv ≤ k) : depthFrom nv fuel k t = 0 := by
  cases fuel with
  | zero => rfl
  | succ f => unfold depthFrom; rw [if_pos hk]

theorem pathsFrom_succ (nv fuel k t : Nat) (hk : k < nv) :
    pathsFrom nv (fuel+1) k t =
      if restrict nv t k false == restrict nv t k true then pathsFrom nv fuel (k+1) t
      else ((pathsFrom nv fuel (k+1) (restrict nv t k false)).1 + (pathsFrom nv fuel (k+1) (restrict nv t k true)).1,
            (pathsFrom nv fuel (k+1) (restrict nv t k false)).2 + (pathsFrom nv fuel (k+1) (restrict nv t k true)).2) := by
  conv => lhs; unfold pathsFrom
  rw [if_neg (by omega)]

theorem pathsFrom_ge (nv fuel k t : Nat) (hk : nv ≤ k) :
    pathsFrom nv fuel k t = if t == 0 then (1, 0) else (0, 1) := by
  cases fuel with
  | zero => rfl
  | succ f => unfold pathsFrom; rw [if_pos hk]

/-! ### the link -/

/-- the generalised statement: walking the variables from level `k` on a table that represents
the diagram `t`, all of whose variables are in `[k, nv)`, with enough fuel -/
theorem from_eq (s : Store) (h : TableWF s.nodes) (nv : Nat) :
    ∀ (fuel k t tt : Nat), t < s.nodes.size → nv < fuel + k →
      (∀ n, 2 ≤ t → s.nodes[t]? = some n → k ≤ n.var) →
      (∀ x ∈ depsF s (t+1) t, x < nv) → Rep nv tt (eval s t) →
      depthFrom nv fuel k tt = (countF s (t+1) t).2.2 ∧ pathsFrom nv fuel k tt = pathsF s (t+1) t := by
  -- beyond the last variable only terminals are left
  have beyond : ∀ (fuel k t tt : Nat), t < s.nodes.size → nv ≤ k →
      (∀ n, 2 ≤ t → s.nodes[t]? = some n → k ≤ n.var) →
      (∀ x ∈ depsF s (t+1) t, x < nv) → Rep nv tt (eval s t) →
      depthFrom nv fuel k tt = (countF s (t+1) t).2.2 ∧ pathsFrom nv fuel k tt = pathsF s (t+1) t := by
    intro fuel k t tt ht hk hge hdeps hrep
    have ht2 : t < 2 := by
      false_or_by_contra
      rename_i h2
      obtain ⟨n, hn⟩ := get_of_lt ht
      have h1 := hge n (by omega) hn
      have h3 := hdeps n.var (by rw [depsF_node' s h t n (by omega) hn]; exact List.mem_cons_self ..)
      omega
    have ⟨a, b⟩ := terminal_values s nv tt t ht2 hrep
    rw [depthFrom_ge nv fuel k tt hk, pathsFrom_ge nv fuel k tt hk]
    exact ⟨a.symm, b⟩
  intro fuel
  induction fuel with
  | zero =>
    intro k t tt ht hf hge hdeps hrep
    exact beyond 0 k t tt ht (by omega) hge hdeps hrep
  | succ f ih =>
    intro k t tt ht hf hge hdeps hrep
    by_cases hk : nv ≤ k
    · exact beyond (f+1) k t tt ht hk hge hdeps hrep
    have hk' : k < nv := by omega
    rw [depthFrom_succ nv f k tt hk', pathsFrom_succ nv f k tt hk']
    have r0 := rep_restrict hrep k false hk'
    have r1 := rep_restrict hrep k true hk'
    -- does the diagram test variable `k` at its root?
    by_cases htop : ∃ n, 2 ≤ t ∧ s.nodes[t]? = some n ∧ n.var = k
    · -- yes: the cofactors are the children, and they differ
      obtain ⟨n, ht2, hn, hv⟩ := htop
      have ⟨_, hlo, hhi, hne, hvlo, hvhi⟩ := h.inner t n ht2 hn
      have hd := depsF_node' s h t n ht2 hn
      have dlo : ∀ x ∈ depsF s (n.lo+1) n.lo, x < nv := fun x hx =>
        hdeps x (by rw [hd]; exact List.mem_cons_of_mem _ (List.mem_append_left _ hx))
      have dhi : ∀ x ∈ depsF s (n.hi+1) n.hi, x < nv := fun x hx =>
        hdeps x (by rw [hd]; exact List.mem_cons_of_mem _ (List.mem_append_right _ hx))
      have e0 : (fun σ => eval s t (upd σ k false)) = eval s n.lo := by
        funext σ; rw [Tab.eval_lo s h t n ht2 hn, hv]
      have e1 : (fun σ => eval s t (upd σ k true)) = eval s n.hi := by
        funext σ; rw [Tab.eval_hi s h t n ht2 hn, hv]
      rw [e0] at r0
      rw [e1] at r1
      have hcne : restrict nv tt k false ≠ restrict nv tt k true := by
        apply rep_ne r0 r1 (detBy_eval s h n.lo nv (by omega) dlo) (detBy_eval s h n.hi nv (by omega) dhi)
        false_or_by_contra
        rename_i hcon
        apply hne
        apply (Tab.canonical s h n.lo n.hi (by omega) (by omega)).mp
        intro σ
        false_or_by_contra
        rename_i hd'
        exact hcon ⟨σ, hd'⟩
      have hb : (restrict nv tt k false == restrict nv tt k true) = false := by simpa using hcne
      rw [hb]
      simp only [Bool.false_eq_true, if_false]
      have gl : ∀ m, 2 ≤ n.lo → s.nodes[n.lo]? = some m → k + 1 ≤ m.var := by
        intro m _ hm; have := hvlo m hm; omega
      have gh : ∀ m, 2 ≤ n.hi → s.nodes[n.hi]? = some m → k + 1 ≤ m.var := by
        intro m _ hm; have := hvhi m hm; omega
      have ⟨il1, il2⟩ := ih (k+1) n.lo _ (by omega) (by omega) gl dlo r0
      have ⟨ih1, ih2⟩ := ih (k+1) n.hi _ (by omega) (by omega) gh dhi r1
      rw [il1, il2, ih1, ih2, countF_node s t t n ht2 hn, pathsF_node s t t n ht2 hn,
          countF_fuel s h n.lo t hlo, countF_fuel s h n.hi t hhi,
          pathsF_fuel s h n.lo t hlo, pathsF_fuel s h n.hi t hhi]
      exact ⟨by simp only; omega, rfl⟩
    · -- no: the function does not depend on `k`, the level is skipped
      have hind : ∀ σ b, eval s t (upd σ k b) = eval s t σ := by
        intro σ b
        by_cases ht2 : t < 2
        · have h01 : t = 0 ∨ t = 1 := by omega
          rcases h01 with h0 | h0 <;> subst h0 <;> simp [eval_zero, eval_one]
        · obtain ⟨n, hn⟩ := get_of_lt ht
          have h1 := hge n (by omega) hn
          have h2 : n.var ≠ k := fun e => htop ⟨n, by omega, hn, e⟩
          apply Tab.eval_indep s h t n hn
          intro x hx
          simp only [upd]
          split <;> first | omega | rfl
      have c0 : restrict nv tt k false = tt := rep_unique r0 hrep (fun a _ => hind _ _)
      have c1 : restrict nv tt k true = tt := rep_unique r1 hrep (fun a _ => hind _ _)
      rw [c0, c1]
      simp only [beq_self_eq_true, if_true]
      apply ih (k+1) t tt ht (by omega) ?_ hdeps hrep
      intro n ht2 hn
      have h1 := hge n ht2 hn
      have h2 : n.var ≠ k := fun e => htop ⟨n, ht2, hn, e⟩
      omega

/-- **depth**: the depth of the reduced ordered diagram of the function, computed from the truth
table alone, is the depth component of `countF` (= the length of a longest path, `depth_exact`) -/
theorem depth_eq (s : Store) (h : TableWF s.nodes) (t : Nat) (ht : t < s.nodes.size) (nv tt : Nat)
    (hrep : Rep nv tt (eval s t)) (hdeps : ∀ x ∈ depsF s (t+1) t, x < nv) :
    depth nv tt = (countF s (t+1) t).2.2 :=
  (from_eq s h nv (nv+1) 0 t tt ht (by omega) (fun _ _ _ => Nat.zero_le _) hdeps hrep).1

/-- **paths**: likewise the numbers of paths to ⊥ and to ⊤ are `pathsF` (= the numbers of listed
root-to-leaf paths, `paths_exact`) -/
theorem paths_eq (s : Store) (h : TableWF s.nodes) (t : Nat) (ht : t < s.nodes.size) (nv tt : Nat)
    (hrep : Rep nv tt (eval s t)) (hdeps : ∀ x ∈ depsF s (t+1) t, x < nv) :
    paths nv tt = pathsF s (t+1) t :=
  (from_eq s h nv (nv+1) 0 t tt ht (by omega) (fun _ _ _ => Nat.zero_le _) hdeps hrep).2

end TT

#print axioms TT.rep_inj
#print axioms TT.depth_eq
#print axioms TT.paths_eq
