import AdfObdd.StoreIte
import AdfObdd.CountsDef
/-! # Both bodies of every `cfg(feature = …)` split of `obdd.rs` (C12) — executable model

The cargo features `adhoccounting`, `adhoccountmodels` (which enables `adhoccounting`),
`variablelist` and `frontend` select alternative bodies in `Bdd::{new, restrict, node, models,
paths, max_depth, fix_import, generate_var_dependencies, var_dependencies}`. Here the feature
set is a value (`Cfg`) and the store carries the two feature-dependent tables next to the proved
`Store`: `deps` (= `var_deps`, present with `variablelist`) and `cnt` (= `count_cache`).
`frontend` sends each freshly created node over a channel that is `None` unless a client
installs one (`FStore.sender`); the sent nodes are recorded in `FStore.log`, which no function reads.

No Mathlib in the import closure; everything here is executable. -/

structure Cfg where
  adhoccounting : Bool
  adhoccountmodels : Bool
  variablelist : Bool
  frontend : Bool := false
deriving DecidableEq, Repr

/-- cargo: `adhoccountmodels = ["adhoccounting"]` -/
def Cfg.valid (c : Cfg) : Prop := c.adhoccountmodels = true → c.adhoccounting = true
/-- cargo: `default = ["adhoccounting", "variablelist", "frontend"]` -/
def Cfg.default : Cfg := { adhoccounting := true, adhoccountmodels := false, variablelist := true, frontend := true }
def Cfg.none : Cfg := { adhoccounting := false, adhoccountmodels := false, variablelist := false }
def Cfg.all : Cfg := { adhoccounting := true, adhoccountmodels := true, variablelist := true, frontend := true }
/-- the documented exception: paths are counted ad hoc, models are not -/
def Cfg.exc (c : Cfg) : Bool := c.adhoccounting && !c.adhoccountmodels
/-- are the model components of cache entries meaningful under this feature set? -/
def Cfg.exactModels (c : Cfg) : Bool := !c.exc

/-- `CountNode = (ModelCounts, ModelCounts, usize)`: (counter-models, models), (paths to ⊥, paths to ⊤), depth -/
structure CN where
  cm : Nat
  m : Nat
  pcm : Nat
  pm : Nat
  depth : Nat
deriving DecidableEq, Repr

def CN.zero : CN := ⟨0, 0, 0, 0, 0⟩
/-- `(ModelCounts::top(), ModelCounts::top(), 0)` -/
def CN.top : CN := ⟨0, 1, 0, 1, 0⟩
/-- `(ModelCounts::bot(), ModelCounts::bot(), 0)` -/
def CN.bot : CN := ⟨1, 0, 1, 0, 0⟩

/-- the tuple `modelcount_naive` / `modelcount_memoization` build from the children's tuples
(literal transcription: `lo_exp`, `hi_exp` start at 0 and one of them is set) -/
def CN.combine (l h : CN) : CN :=
  let lo_exp := if l.depth > h.depth then 0 else h.depth - l.depth
  let hi_exp := if l.depth > h.depth then l.depth - h.depth else 0
  ⟨l.cm * 2 ^ lo_exp + h.cm * 2 ^ hi_exp, l.m * 2 ^ lo_exp + h.m * 2 ^ hi_exp,
   l.pcm + h.pcm, l.pm + h.pm, max l.depth h.depth + 1⟩

/-- the tuple `Bdd::node` builds ad hoc; without `adhoccountmodels` both factors are 0 -/
def CN.adhoc (countmodels : Bool) (l h : CN) : CN :=
  let e : Nat × Nat :=
    if countmodels then
      (if l.depth > h.depth then (1, 2 ^ (l.depth - h.depth)) else (2 ^ (h.depth - l.depth), 1))
    else (0, 0)
  ⟨l.cm * e.1 + h.cm * e.2, l.m * e.1 + h.m * e.2, l.pcm + h.pcm, l.pm + h.pm, max l.depth h.depth + 1⟩

abbrev CntCache := Std.HashMap Nat CN

/-- `modelcount_naive`, all five numbers at once -/
def naiveCN (s : Store) : Nat → Nat → CN
  | 0, _ => CN.zero
  | fuel+1, t =>
    if t = 1 then CN.top else if t = 0 then CN.bot else
    match s.nodes[t]? with
    | none => CN.zero
    | some n => CN.combine (naiveCN s fuel n.lo) (naiveCN s fuel n.hi)

def naive (s : Store) (t : Nat) : CN := naiveCN s (t+1) t

/-- `modelcount_memoization`: the cache is consulted for inner nodes and filled on the way back -/
def memoCN (s : Store) : Nat → CntCache → Nat → CN × CntCache
  | 0, c, _ => (CN.zero, c)
  | fuel+1, c, t =>
    if t = 1 then (CN.top, c) else if t = 0 then (CN.bot, c) else
    match c[t]? with
    | some r => (r, c)
    | none =>
    match s.nodes[t]? with
    | none => (CN.zero, c)
    | some n =>
      let l := memoCN s fuel c n.lo
      let h := memoCN s fuel l.2 n.hi
      let r := CN.combine l.1 h.1
      (r, h.2.insert t r)

/-- `max_depth` without `adhoccounting`: cache entry if present, else recursion; `repaired = false`
is the body before the `+ 1` fix (D3) -/
def maxDepthC (repaired : Bool) (s : Store) (c : CntCache) : Nat → Nat → Nat
  | 0, _ => 0
  | fuel+1, t =>
    match c[t]? with
    | some r => r.depth
    | none =>
      if t < 2 then 0 else
      match s.nodes[t]? with
      | none => 0
      | some n => max (maxDepthC repaired s c fuel n.hi) (maxDepthC repaired s c fuel n.lo) + (if repaired then 1 else 0)

/-! ### sets of variables (`HashSet<Var>`) as duplicate-free lists -/

def setUnion (a b : List Nat) : List Nat := a ++ b.filter (fun x => !a.contains x)
def setInsert (v : Nat) (a : List Nat) : List Nat := if a.contains v then a else v :: a
/-- `var_deps[lo] ∪ var_deps[hi] ∪ {var}` -/
def depsEntry (tbl : Array (List Nat)) (v lo hi : Nat) : List Nat :=
  setInsert v (setUnion (tbl.getD lo []) (tbl.getD hi []))

/-- one step of the loop of `generate_var_dependencies` -/
def genDepsStep (tbl : Array (List Nat)) (n : Node) : Array (List Nat) :=
  if n.var ≥ VBOT then tbl.push [] else tbl.push (depsEntry tbl n.var n.lo n.hi)
/-- `generate_var_dependencies` (the table is `serde(skip)`, hence empty after an import) -/
def genDeps (tbl0 : Array (List Nat)) (ns : Array Node) : Array (List Nat) := ns.foldl genDepsStep tbl0

/-! ### the store with its feature-dependent tables -/

structure FStore where
  base : Store
  deps : Array (List Nat)
  cnt : CntCache
  /-- `frontend`: is a `crossbeam_channel::Sender` attached (`set_sender` / `with_sender`)? The field
  exists only under the feature; without it the flag is never read. -/
  sender : Bool := false
  /-- `frontend`: the nodes handed to `send` so far, oldest first (the channel is unbounded and
  write-only for the store; a failed `send` is logged and ignored by the code, so the list records
  the calls of `send`) -/
  log : List Node := []

/-- `Bdd::new` -/
def newC (c : Cfg) : FStore :=
  { base := Store.init
    deps := if c.variablelist then #[[], []] else #[]
    cnt := if c.adhoccounting then ((∅ : CntCache).insert 1 CN.top).insert 0 CN.bot else ∅ }

/-- `Bdd::node`. The `expect("Cache corrupted")` of the ad-hoc bookkeeping is unreachable under
the invariant (`FInv.tab.full`); the model leaves the cache unchanged there. -/
def nodeC (c : Cfg) (fs : FStore) (v lo hi : Nat) : FStore × Nat :=
  if lo = hi then (fs, lo) else
  match fs.base.uniq[(⟨v, lo, hi⟩ : Node)]? with
  | some t => (fs, t)
  | none =>
    ({ base := { fs.base with nodes := fs.base.nodes.push ⟨v, lo, hi⟩,
                              uniq := fs.base.uniq.insert ⟨v, lo, hi⟩ fs.base.nodes.size }
       deps := if c.variablelist then fs.deps.push (depsEntry fs.deps v lo hi) else fs.deps
       cnt := if c.adhoccounting then
                match fs.cnt[lo]?, fs.cnt[hi]? with
                | some l, some h => fs.cnt.insert fs.base.nodes.size (CN.adhoc c.adhoccountmodels l h)
                | _, _ => fs.cnt
              else fs.cnt
       sender := fs.sender
       log := if c.frontend && fs.sender then fs.log ++ [⟨v, lo, hi⟩] else fs.log },
     fs.base.nodes.size)

def FStore.insRes (fs : FStore) (k : Nat × Nat × Bool) (r : Nat) : FStore :=
  { fs with base := { fs.base with resC := fs.base.resC.insert k r } }
def FStore.insIte (fs : FStore) (k : Nat × Nat × Nat) (r : Nat) : FStore :=
  { fs with base := { fs.base with iteC := fs.base.iteC.insert k r } }

/-- `Bdd::restrict`, with the `variablelist` shortcut when the feature is on -/
def restrictC (c : Cfg) : Nat → FStore → Nat → Nat → Bool → FStore × Nat
  | 0, fs, t, _, _ => (fs, t)
  | fuel+1, fs, t, v, b =>
    match fs.base.resC[(t, v, b)]? with
    | some r => (fs, r)
    | none =>
    match fs.base.nodes[t]? with
    | none => (fs, t)
    | some n =>
      if (c.variablelist && !(fs.deps.getD t []).contains v) = true then (fs, t)
      else if n.var > v ∨ n.var ≥ VBOT then (fs, t)
      else if n.var < v then
        let r1 := restrictC c fuel fs n.lo v b
        let r2 := restrictC c fuel r1.1 n.hi v b
        let r3 := nodeC c r2.1 n.var r1.2 r2.2
        (r3.1.insRes (t, v, b) r3.2, r3.2)
      else
        let r := if b then restrictC c fuel fs n.hi v b else restrictC c fuel fs n.lo v b
        (r.1.insRes (t, v, b) r.2, r.2)

/-- `Bdd::if_then_else` on top of `restrictC` / `nodeC` -/
def iteCfg (c : Cfg) : Nat → FStore → Nat → Nat → Nat → FStore × Nat
  | 0, fs, i, _, _ => (fs, i)
  | fuel+1, fs, i, t, e =>
    if i = 1 then (fs, t) else if i = 0 then (fs, e) else if t = e then (fs, t)
    else if t = 1 ∧ e = 0 then (fs, i) else
    match fs.base.iteC[(i, t, e)]? with
    | some r => (fs, r)
    | none =>
    let mv := minVar fs.base i t e
    let r1 := restrictC c (i+1) fs i mv true
    let r2 := restrictC c (t+1) r1.1 t mv true
    let r3 := restrictC c (e+1) r2.1 e mv true
    let r4 := restrictC c (i+1) r3.1 i mv false
    let r5 := restrictC c (t+1) r4.1 t mv false
    let r6 := restrictC c (e+1) r5.1 e mv false
    let top := iteCfg c fuel r6.1 r1.2 r2.2 r3.2
    let bot := iteCfg c fuel top.1 r4.2 r5.2 r6.2
    let m := nodeC c bot.1 mv bot.2 top.2
    (m.1.insIte (i, t, e) m.2, m.2)

/-- a cache lookup that the code guards with `.expect(…)`; the default is unreachable under `FInv.tab.full` -/
def lookupCN (c : CntCache) (t : Nat) : CN := (c[t]?).getD CN.zero

/-- `Bdd::paths(term, memoization)`; the cache is behind a `RefCell`, so the query may fill it -/
def pathsC (c : Cfg) (fs : FStore) (t : Nat) (memo : Bool) : (Nat × Nat) × FStore :=
  if c.adhoccounting then (((lookupCN fs.cnt t).pcm, (lookupCN fs.cnt t).pm), fs)
  else if memo then
    let r := memoCN fs.base (t+1) fs.cnt t
    ((r.1.pcm, r.1.pm), { fs with cnt := r.2 })
  else (((naive fs.base t).pcm, (naive fs.base t).pm), fs)

/-- `Bdd::models(term, memoization)` -/
def modelsC (c : Cfg) (fs : FStore) (t : Nat) (memo : Bool) : (Nat × Nat) × FStore :=
  if c.adhoccountmodels then (((lookupCN fs.cnt t).cm, (lookupCN fs.cnt t).m), fs)
  else if memo then
    let r := memoCN fs.base (t+1) fs.cnt t
    ((r.1.cm, r.1.m), { fs with cnt := r.2 })
  else (((naive fs.base t).cm, (naive fs.base t).m), fs)

/-- `Bdd::max_depth` (repaired body) -/
def maxDepthCfg (c : Cfg) (fs : FStore) (t : Nat) : Nat :=
  if c.adhoccounting then (lookupCN fs.cnt t).depth else maxDepthC true fs.base fs.cnt (t+1) t

/-- `Bdd::var_dependencies` -/
def varDepsC (c : Cfg) (fs : FStore) (t : Nat) : List Nat :=
  if c.variablelist then fs.deps.getD t [] else depsOf fs.base t

/-- the count-cache part of `fix_import` under `adhoccounting` -/
def fixCounts (s : Store) (cnt : CntCache) : CntCache :=
  (List.range s.nodes.size).foldl (fun c i => (memoCN s (i+1) c i).2) ((cnt.insert 1 CN.top).insert 0 CN.bot)

/-- `Bdd::fix_import` -/
def fixImportC (c : Cfg) (fs : FStore) : FStore :=
  { fs with deps := if c.variablelist then genDeps fs.deps fs.base.nodes else fs.deps
            cnt := if c.adhoccounting then fixCounts fs.base fs.cnt else fs.cnt }

/-- what deserialisation produces: node table and unique table from the file, every
`serde(skip)` table empty -/
def importC (nodes : Array Node) (uniq : Std.HashMap Node Nat) : FStore :=
  { base := { nodes := nodes, uniq := uniq, resC := ∅, iteC := ∅ }, deps := #[], cnt := ∅ }

/-! ### the same operations on the bare `Store`, with the shortcut as an oracle

`restrictS sc` is `restrictF` with an extra early return when `sc s t v` holds; `restrictF` is the
instance `sc = fun _ _ _ => false`, the `variablelist` body is the instance `scDeps`. -/

def restrictS (sc : Store → Nat → Nat → Bool) : Nat → Store → Nat → Nat → Bool → Store × Nat
  | 0, s, t, _, _ => (s, t)
  | fuel+1, s, t, v, b =>
    match s.resC[(t, v, b)]? with
    | some r => (s, r)
    | none =>
    match s.nodes[t]? with
    | none => (s, t)
    | some n =>
      if sc s t v = true then (s, t)
      else if n.var > v ∨ n.var ≥ VBOT then (s, t)
      else if n.var < v then
        let r1 := restrictS sc fuel s n.lo v b
        let r2 := restrictS sc fuel r1.1 n.hi v b
        let r3 := mkNode r2.1 n.var r1.2 r2.2
        ({ r3.1 with resC := r3.1.resC.insert (t, v, b) r3.2 }, r3.2)
      else
        let r := if b then restrictS sc fuel s n.hi v b else restrictS sc fuel s n.lo v b
        ({ r.1 with resC := r.1.resC.insert (t, v, b) r.2 }, r.2)

def iteS (sc : Store → Nat → Nat → Bool) : Nat → Store → Nat → Nat → Nat → Store × Nat
  | 0, s, i, _, _ => (s, i)
  | fuel+1, s, i, t, e =>
    if i = 1 then (s, t) else if i = 0 then (s, e) else if t = e then (s, t)
    else if t = 1 ∧ e = 0 then (s, i) else
    match s.iteC[(i, t, e)]? with
    | some r => (s, r)
    | none =>
    let mv := minVar s i t e
    let r1 := restrictS sc (i+1) s i mv true
    let r2 := restrictS sc (t+1) r1.1 t mv true
    let r3 := restrictS sc (e+1) r2.1 e mv true
    let r4 := restrictS sc (i+1) r3.1 i mv false
    let r5 := restrictS sc (t+1) r4.1 t mv false
    let r6 := restrictS sc (e+1) r5.1 e mv false
    let top := iteS sc fuel r6.1 r1.2 r2.2 r3.2
    let bot := iteS sc fuel top.1 r4.2 r5.2 r6.2
    let m := mkNode bot.1 mv bot.2 top.2
    ({ m.1 with iteC := m.1.iteC.insert (i, t, e) m.2 }, m.2)

def scNone : Store → Nat → Nat → Bool := fun _ _ _ => false
/-- the shortcut of the `variablelist` body, read off the recursive dependency set -/
def scDeps : Store → Nat → Nat → Bool := fun s t v => !(depsOf s t).contains v
def scOf (c : Cfg) : Store → Nat → Nat → Bool := fun s t v => c.variablelist && scDeps s t v
