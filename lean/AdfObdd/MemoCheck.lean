import AdfObdd.Spec.TT
import AdfObdd.CountsDef
import AdfObdd.Drv.Common
/-! The audit of the implementation's private tables (unique table, if-then-else memo, restrict
    memo, count cache, dependency lists), dumped from the Rust object by the verification hook,
    against the Boolean functions of the implementation's own node table — as a FUNCTIONAL
    checker `memoCheckF` on parsed rows, together with the statement `MemoSound` of what a
    positive verdict means. `MemoCheckProofs.lean` proves `memoCheckF … = true → MemoSound …`
    for every structurally well-formed table (`TableWF`, which `wfCheck` decides).

    This file has no Mathlib in its import closure, so the test driver can call the checker.
    It is a re-implementation of `Drv.memoCheck` (`Drv/Bdd.lean`, imperative, returns a
    diagnostic string) with three deliberate differences, all on inputs the harness does not
    produce: (1) every inner node's variable must be below `nv` (`varsOK`; otherwise the table
    computed for a node would not represent its function), (2) the unique-table rows must cover
    every inner node (`Drv.memoCheck` compares the row count only, which is not enough if a row
    is listed twice), (3) a restrict row for a variable `≥ nv` is compared with the unrestricted
    function (its true cofactor) instead of `TT.restrict`, which is only a cofactor below `nv`. -/
namespace MemoCheck

/-- the dumped tables, parsed -/
structure Rows where
  /-- unique table: `(var, lo, hi, handle)` -/
  uniq : List (Nat × Nat × Nat × Nat)
  /-- if-then-else memo: `(i, t, e, result)` -/
  ite : List (Nat × Nat × Nat × Nat)
  /-- restrict memo: `(t, var, value, result)` -/
  res : List (Nat × Nat × Bool × Nat)
  /-- count cache: `(t, cmodels, models, paths to ⊥, paths to ⊤, depth)` -/
  cnt : List (Nat × Nat × Nat × Nat × Nat × Nat)
  /-- `var_deps`, one list per node (`none`: the feature `variablelist` is off) -/
  deps : Option (List (List Nat))

/-! ### the checker -/

/-- one step of the bottom-up truth-table computation: the table of node `i`, children first -/
def ttStep (nv : Nat) (table : Array Node) (tt : Array Nat) (i : Nat) : Array Nat :=
  if i = 0 then tt.push 0
  else if i = 1 then tt.push (TT.mask nv)
  else
    let n := table.getD i ⟨0, 0, 0⟩
    tt.push (TT.ite nv (TT.var nv n.var) (tt.getD n.hi 0) (tt.getD n.lo 0))

/-- the truth table of every node of the table -/
def ttOf (nv : Nat) (table : Array Node) : Array Nat :=
  (List.range table.size).foldl (ttStep nv table) #[]

/-- every inner node tests a variable below `nv` -/
def varsOK (nv : Nat) (table : Array Node) : Bool :=
  (List.range table.size).all (fun i => decide (i < 2) || decide ((table.getD i ⟨0, 0, 0⟩).var < nv))

/-- which positions are mentioned -/
def marks (size : Nat) (ts : List Nat) : Array Bool :=
  ts.foldl (fun m t => m.setIfInBounds t true) (Array.replicate size false)

/-- unique table: every row is a node of the table at an inner position, every inner position
has a row (and, as in `Drv.memoCheck`, there are exactly as many rows as inner nodes) -/
def uniqOK (table : Array Node) (u : List (Nat × Nat × Nat × Nat)) : Bool :=
  decide (u.length + 2 = table.size) &&
  u.all (fun (v, lo, hi, t) => decide (2 ≤ t) && decide (table[t]? = some ⟨v, lo, hi⟩)) &&
  (List.range table.size).all (fun i =>
    decide (i < 2) || (marks table.size (u.map (fun r => r.2.2.2))).getD i false)

def iteOK (nv size : Nat) (tt : Array Nat) (rows : List (Nat × Nat × Nat × Nat)) : Bool :=
  rows.all (fun (i, t, e, x) =>
    decide (i < size) && decide (t < size) && decide (e < size) && decide (x < size) &&
    decide (tt.getD x 0 = TT.ite nv (tt.getD i 0) (tt.getD t 0) (tt.getD e 0)))

def resOK (nv size : Nat) (tt : Array Nat) (rows : List (Nat × Nat × Bool × Nat)) : Bool :=
  rows.all (fun (t, v, b, x) =>
    decide (t < size) && decide (x < size) &&
    decide (tt.getD x 0 = if v < nv then TT.restrict nv (tt.getD t 0) v b else tt.getD t 0))

def cntOK (nv : Nat) (exc : Bool) (size : Nat) (tt : Array Nat)
    (rows : List (Nat × Nat × Nat × Nat × Nat × Nat)) : Bool :=
  rows.all (fun (t, cm, m, pcm, pm, d) =>
    decide (t < size) &&
    decide ((pcm, pm) = TT.paths nv (tt.getD t 0)) &&
    decide (d = TT.depth nv (tt.getD t 0)) &&
    (exc || (decide (d ≤ nv) && decide (m * 2 ^ (nv - d) = TT.sat nv (tt.getD t 0)) &&
             decide (cm * 2 ^ (nv - d) = TT.unsat nv (tt.getD t 0)))))

def depsOK (nv size : Nat) (tt : Array Nat) : Option (List (List Nat)) → Bool
  | none => true
  | some ds =>
    decide (ds.length = size) &&
    (List.range size).all (fun i => decide (ds[i]? = some (TT.deps nv (tt.getD i 0))))

/-- **the audit**: `exc` is the documented exception (feature `adhoccounting` without
`adhoccountmodels`: the model components of the count cache are not maintained) -/
def memoCheckF (nv : Nat) (exc : Bool) (table : Array Node) (r : Rows) : Bool :=
  varsOK nv table && uniqOK table r.uniq && iteOK nv table.size (ttOf nv table) r.ite &&
  resOK nv table.size (ttOf nv table) r.res && cntOK nv exc table.size (ttOf nv table) r.cnt &&
  depsOK nv table.size (ttOf nv table) r.deps

/-! ### what a positive verdict means -/

/-- soundness of the dumped tables with respect to the store `s` (any store with the dumped
node table): the unique table is the node table, read backwards; memo entries denote what they
are memos of; cached counts are the recursive ones; dependency lists are the variables of the
diagram -/
structure MemoSound (nv : Nat) (exc : Bool) (s : Store) (r : Rows) : Prop where
  /-- every unique-table row is the node stored at its (inner) handle -/
  uniq_sound : ∀ v lo hi t, (v, lo, hi, t) ∈ r.uniq → 2 ≤ t ∧ s.nodes[t]? = some ⟨v, lo, hi⟩
  /-- every inner node has its row -/
  uniq_complete : ∀ t n, 2 ≤ t → s.nodes[t]? = some n → (n.var, n.lo, n.hi, t) ∈ r.uniq
  /-- every if-then-else memo entry denotes the if-then-else of its operands -/
  ite_sound : ∀ i t e x, (i, t, e, x) ∈ r.ite →
    i < s.nodes.size ∧ t < s.nodes.size ∧ e < s.nodes.size ∧ x < s.nodes.size ∧
    ∀ σ, eval s x σ = if eval s i σ then eval s t σ else eval s e σ
  /-- every restrict memo entry denotes the cofactor -/
  res_sound : ∀ t v b x, (t, v, b, x) ∈ r.res →
    t < s.nodes.size ∧ x < s.nodes.size ∧ ∀ σ, eval s x σ = eval s t (upd σ v b)
  /-- every count-cache entry holds the recursive path counts and depth and — unless the feature
  set is the exception — the recursive (counter-)model counts -/
  cnt_sound : ∀ t cm m pcm pm d, (t, cm, m, pcm, pm, d) ∈ r.cnt →
    t < s.nodes.size ∧ (pcm, pm) = pathsF s (t+1) t ∧ d = (countF s (t+1) t).2.2 ∧
    (exc = false → cm = (countF s (t+1) t).1 ∧ m = (countF s (t+1) t).2.1)
  /-- there is one dependency list per node, and it is, as a set, the recursive one -/
  deps_sound : ∀ ds, r.deps = some ds → ds.length = s.nodes.size ∧
    ∀ i, i < s.nodes.size → ∃ d, ds[i]? = some d ∧ ∀ x, x ∈ d ↔ x ∈ depsF s (i+1) i

/-! ### reading the request line (same conventions as `Drv.memoCheck`) -/

def field (ws : List String) (k : String) : Option String :=
  (ws.find? (fun w => w.startsWith (k ++ "="))).map (fun w => (w.drop (k.length + 1)).toString)

def nums (r : String) : List Nat := (r.splitOn ",").map (fun x => x.toNat?.getD 0)

def rowsOf (ws : List String) (k : String) : List (List Nat) :=
  ((field ws k).map (fun f => (Drv.splitOnNE f ";").map nums)).getD []

/-- `none`: a row of the wrong arity or no `deps=` field -/
def parseRows (ws : List String) : Option Rows := do
  let u ← (rowsOf ws "uniq").mapM (fun r => match r with | [v, lo, hi, t] => some (v, lo, hi, t) | _ => none)
  let i ← (rowsOf ws "ite").mapM (fun r => match r with | [i, t, e, x] => some (i, t, e, x) | _ => none)
  let r ← (rowsOf ws "res").mapM (fun r => match r with | [t, v, b, x] => some (t, v, b == 1, x) | _ => none)
  let c ← (rowsOf ws "cnt").mapM (fun r => match r with
    | [t, cm, m, pcm, pm, d] => some (t, cm, m, pcm, pm, d) | _ => none)
  let d ← match field ws "deps" with
    | some "off" => some none
    | some f => some (some ((if f == "-" then [] else f.splitOn ";").map (fun d => (Drv.parseNatList d ",").getD [])))
    | none => none
  pure { uniq := u, ite := i, res := r, cnt := c, deps := d }

/-- which group of checks fails first (for the driver's message) -/
def firstFailure (nv : Nat) (exc : Bool) (table : Array Node) (r : Rows) : String :=
  let tt := ttOf nv table
  if !varsOK nv table then "vars"
  else if !uniqOK table r.uniq then "uniq"
  else if !iteOK nv table.size tt r.ite then "ite"
  else if !resOK nv table.size tt r.res then "res"
  else if !cntOK nv exc table.size tt r.cnt then "cnt"
  else if !depsOK nv table.size tt r.deps then "deps"
  else "none"

/-- the driver's answer: the verdict is `memoCheckF`'s; `detail` (the row-level diagnostic of
`Drv.memoCheck`) is consulted for the message of a negative verdict only -/
def verdict (nv : Nat) (exc : Bool) (table : Array Node) (ws : List String) (detail : Unit → String) : String :=
  match parseRows ws with
  | none => let d := detail (); if d == "ok" then "bad rows" else d
  | some r =>
    if memoCheckF nv exc table r then "ok"
    else
      let d := detail ()
      if d == "ok" then s!"bad {firstFailure nv exc table r} (verified audit)" else d

end MemoCheck
