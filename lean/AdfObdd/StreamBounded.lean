import AdfObdd.StreamChain
/-! # C19 with BOUNDED forwarding channels (review round 2, C19 row): model, safety proved, liveness not

`StreamC` models every channel of the relay chain as an unbounded FIFO list: `recv` of store `i`
pushes and forwards until it stops, whatever the length of the inbox of store `i+1`. The channels
are supplied by the caller (`with_sender_receiver(sender, receiver)`); with
`crossbeam_channel::bounded(cap)` the `send` in `Bdd::recv` (frontend.rs:74) BLOCKS while the next
inbox is full. The relay is then stuck inside `recv` between `self.nodes.push(node)` and the
completion of `send`: the node is in its table but in neither the table nor the inbox of the next
store. `StreamC.RInv` (`tbl_{i+1} ++ q_{i+1} = tbl_i`) is FALSE in such a state; this file gives
the bounded chain, the adjusted invariant `BInv` (conservation up to the node in flight), its proof
for every schedule (`bounded_forwarding`), and a concrete schedule exhibiting the state. The other
C19 theorems (found-iff-present, drain equality, independence of downstream) are proved for the
unbounded model only. Still idealised here: the producer's own `send` in `Bdd::node` never blocks
(`pend` is unbounded; `deliver` moves at most what fits the first inbox), and LIVENESS is not
treated (a chain whose last store stops polling deadlocks the relays before it once the inboxes
are full). -/
namespace StreamB

variable {α : Type}

/-- a store of the chain; `blocked = some (x, t)`: the thread is inside `recv(Term(t))`, has pushed
`x` and waits in `send(x)` for room in the next inbox -/
structure BRelay (α : Type) where
  q : List α
  tbl : List α
  blocked : Option (α × Nat)
deriving DecidableEq, Repr

structure BChain (α : Type) where
  prod : List α
  pend : List α
  relays : List (BRelay α)
deriving DecidableEq, Repr

inductive Ev (α : Type) where
  | create (ns : List α)
  | deliver (k : Nat)      -- at most as many as fit the first inbox
  | poll (i t : Nat)       -- `store_i.recv(Term(t))`; ignored while store `i` is blocked
  | resume (i : Nat)       -- the pending `send` of store `i` completes if there is room now

def BChain.init (c : List α) (k : Nat) : BChain α :=
  { prod := c, pend := [], relays := List.replicate k { q := [], tbl := c, blocked := none } }

/-- the loop of `Bdd::recv` from the point after the entry test, one message per iteration, with the
inbox `nq` of the next store (`none`: nobody behind, a failing `send` is ignored). Returns the
store, the next inbox and `some found`, or `none` when the thread got stuck in `send` -/
def loopB (cap : Nat) : Nat → BRelay α → Option (List α) → Nat → BRelay α × Option (List α) × Option Bool
  | 0, r, nq, _ => (r, nq, some false)
  | fuel+1, r, nq, t =>
    match r.q with
    | [] => (r, nq, some false)
    | x :: q' =>
      let newTerm := r.tbl.length
      let r1 : BRelay α := { q := q', tbl := r.tbl ++ [x], blocked := none }
      match nq with
      | none => if newTerm = t then (r1, none, some true) else loopB cap fuel r1 none t
      | some inbox =>
        if inbox.length < cap then
          if newTerm = t then (r1, some (inbox ++ [x]), some true)
          else loopB cap fuel r1 (some (inbox ++ [x])) t
        else ({ r1 with blocked := some (x, t) }, some inbox, none)

/-- `recv(Term(t))` on a store that is not blocked -/
def recvB (cap : Nat) (r : BRelay α) (nq : Option (List α)) (t : Nat) : BRelay α × Option (List α) × Option Bool :=
  if r.blocked.isSome then (r, nq, none)
  else if t < r.tbl.length then (r, nq, some true)
  else loopB cap r.q.length r nq t

/-- the pending `send` completes (if the inbox has room) and the interrupted `recv` continues -/
def resumeB (cap : Nat) (r : BRelay α) (nq : Option (List α)) : BRelay α × Option (List α) × Option Bool :=
  match r.blocked, nq with
  | some (x, t), some inbox =>
    if inbox.length < cap then
      let r1 : BRelay α := { r with blocked := none }
      if r.tbl.length = t + 1 then (r1, some (inbox ++ [x]), some true)
      else loopB cap r.q.length r1 (some (inbox ++ [x])) t
    else (r, nq, none)
  | _, _ => (r, nq, none)

def nextInbox : List (BRelay α) → Option (List α)
  | [] => none
  | r :: _ => some r.q

def setInbox : List (BRelay α) → Option (List α) → List (BRelay α)
  | r :: rest, some q => { r with q := q } :: rest
  | rs, _ => rs

/-- apply `f` (a `recvB` or `resumeB`) at store `i` -/
def atStore (f : BRelay α → Option (List α) → BRelay α × Option (List α) × Option Bool) :
    List (BRelay α) → Nat → List (BRelay α) × Option Bool
  | [], _ => ([], none)
  | r :: rest, 0 => let p := f r (nextInbox rest); (p.1 :: setInbox rest p.2.1, p.2.2)
  | r :: rest, i+1 => let p := atStore f rest i; (r :: p.1, p.2)

def stepEv (cap : Nat) (s : BChain α) : Ev α → BChain α × Option Bool
  | .create ns => ({ s with prod := s.prod ++ ns, pend := s.pend ++ ns }, none)
  | .deliver k =>
    match s.relays with
    | [] => ({ s with pend := s.pend.drop k }, none)
    | r :: rest =>
      let m := min k (cap - r.q.length)
      ({ s with pend := s.pend.drop m, relays := { r with q := r.q ++ s.pend.take m } :: rest }, none)
  | .poll i t => let p := atStore (fun r nq => recvB cap r nq t) s.relays i; ({ s with relays := p.1 }, p.2)
  | .resume i => let p := atStore (resumeB cap) s.relays i; ({ s with relays := p.1 }, p.2)

def run (cap : Nat) (evs : List (Ev α)) (s : BChain α) : BChain α := evs.foldl (fun s e => (stepEv cap s e).1) s

def inflight (r : BRelay α) : List α := match r.blocked with | some (x, _) => [x] | none => []

/-- the conservation invariant of the bounded chain: table ++ inbox of each store, PLUS the node in
flight of the store before it, is the table of the store before it; every inbox respects the bound -/
def BInv (cap : Nat) : List α → List α → List (BRelay α) → Prop
  | _, _, [] => True
  | up, fl, r :: rest => r.tbl ++ r.q ++ fl = up ∧ r.q.length ≤ cap ∧ BInv cap r.tbl (inflight r) rest

/-- **statement** (proved below: `bounded_forwarding`): with forwarding channels of any capacity `cap ≥ 1`, under every
schedule, conservation holds up to the nodes in flight, every table is a prefix of the producer's
table, and no inbox exceeds the bound. (Liveness — that a blocked relay is eventually resumed — needs
the store behind it to keep polling; a chain whose last store never polls deadlocks all relays before
it once the inboxes are full, which the unbounded model cannot show.) -/
def bounded_forwarding_statement : Prop :=
  ∀ (α : Type) (cap : Nat), 1 ≤ cap → ∀ (c : List α) (k : Nat) (evs : List (Ev α)),
    let s := run cap evs (BChain.init c k)
    (∃ up, up ++ s.pend = s.prod ∧ BInv cap up [] s.relays) ∧
    ∀ r ∈ s.relays, ∃ rest, r.tbl ++ rest = s.prod

/-! ### proof of the safety statement -/

/-- what one `recv` / `resume` step does to a store and the inbox behind it -/
def FSpec (cap : Nat) (f : BRelay α → Option (List α) → BRelay α × Option (List α) × Option Bool) : Prop :=
  ∀ r nq,
    (f r nq).1.tbl ++ (f r nq).1.q = r.tbl ++ r.q ∧ (f r nq).1.q.length ≤ r.q.length ∧
    (nq = none → (f r nq).2.1 = none) ∧
    (∀ inbox, nq = some inbox → ∃ inbox' added, (f r nq).2.1 = some inbox' ∧ (f r nq).1.tbl = r.tbl ++ added ∧
      inbox' ++ inflight (f r nq).1 = inbox ++ inflight r ++ added ∧ (inbox.length ≤ cap → inbox'.length ≤ cap))

theorem loopB_spec (cap : Nat) : ∀ (fuel : Nat) (r : BRelay α) (nq : Option (List α)) (t : Nat), r.blocked = none →
    (loopB cap fuel r nq t).1.tbl ++ (loopB cap fuel r nq t).1.q = r.tbl ++ r.q ∧
    (loopB cap fuel r nq t).1.q.length ≤ r.q.length ∧
    (nq = none → (loopB cap fuel r nq t).2.1 = none) ∧
    (∀ inbox, nq = some inbox → ∃ inbox' added, (loopB cap fuel r nq t).2.1 = some inbox' ∧
      (loopB cap fuel r nq t).1.tbl = r.tbl ++ added ∧
      inbox' ++ inflight (loopB cap fuel r nq t).1 = inbox ++ added ∧ (inbox.length ≤ cap → inbox'.length ≤ cap)) := by
  intro fuel
  induction fuel with
  | zero =>
    intro r nq t hb
    refine ⟨rfl, Nat.le_refl _, fun h => h, fun inbox h => ⟨inbox, [], h, by simp [loopB], ?_, fun h => h⟩⟩
    simp [loopB, inflight, hb]
  | succ fuel ih =>
    intro r nq t hb
    unfold loopB
    cases hq : r.q with
    | nil =>
      simp only
      refine ⟨by rw [hq], by rw [hq]; exact Nat.le_refl _, fun h => h,
        fun inbox h => ⟨inbox, [], h, by simp, ?_, fun h => h⟩⟩
      simp [inflight, hb]
    | cons x q' =>
      simp only
      cases nq with
      | none =>
        simp only
        by_cases he : r.tbl.length = t
        · rw [if_pos he]
          exact ⟨by simp, by simp, fun _ => rfl, fun inbox h => by cases h⟩
        · rw [if_neg he]
          have ⟨a, b, c, _⟩ := ih ⟨q', r.tbl ++ [x], none⟩ none t rfl
          exact ⟨by rw [a]; simp, by simp only at b; simp only [List.length_cons]; omega, (fun _ => c rfl),
            fun inbox h => by cases h⟩
      | some inbox0 =>
        simp only
        by_cases hroom : inbox0.length < cap
        · rw [if_pos hroom]
          by_cases he : r.tbl.length = t
          · rw [if_pos he]
            refine ⟨by simp, by simp, (fun h => by cases h), fun inbox h => ?_⟩
            cases h
            exact ⟨inbox0 ++ [x], [x], rfl, rfl, by simp [inflight], fun _ => by simp; omega⟩
          · rw [if_neg he]
            have ⟨a, b, _, d⟩ := ih ⟨q', r.tbl ++ [x], none⟩ (some (inbox0 ++ [x])) t rfl
            refine ⟨by rw [a]; simp, by simp only at b; simp only [List.length_cons]; omega,
              (fun h => by cases h), fun inbox h => ?_⟩
            cases h
            obtain ⟨inbox', added, e1, e2, e3, e4⟩ := d _ rfl
            refine ⟨inbox', x :: added, e1, by rw [e2]; simp, by rw [e3]; simp, fun _ => e4 (by simp; omega)⟩
        · rw [if_neg hroom]
          refine ⟨by simp, by simp, (fun h => by cases h), fun inbox h => ?_⟩
          cases h
          exact ⟨inbox0, [x], rfl, rfl, by simp [inflight], fun h => h⟩

theorem recvB_spec (cap t : Nat) : FSpec (α := α) cap (fun r nq => recvB cap r nq t) := by
  intro r nq
  simp only [recvB]
  by_cases hb : r.blocked.isSome = true
  · rw [if_pos hb]
    exact ⟨rfl, Nat.le_refl _, fun h => h, fun inbox h => ⟨inbox, [], h, by simp, by simp, fun h => h⟩⟩
  · rw [if_neg hb]
    by_cases ht : t < r.tbl.length
    · rw [if_pos ht]
      exact ⟨rfl, Nat.le_refl _, fun h => h, fun inbox h => ⟨inbox, [], h, by simp, by simp, fun h => h⟩⟩
    · rw [if_neg ht]
      have hn : r.blocked = none := by
        cases h : r.blocked with
        | none => rfl
        | some _ => rw [h] at hb; simp at hb
      have ⟨a, b, c, d⟩ := loopB_spec cap r.q.length r nq t hn
      refine ⟨a, b, c, fun inbox h => ?_⟩
      obtain ⟨inbox', added, e1, e2, e3, e4⟩ := d inbox h
      exact ⟨inbox', added, e1, e2, by rw [e3]; simp [inflight, hn], e4⟩

theorem resumeB_spec (cap : Nat) : FSpec (α := α) cap (resumeB cap) := by
  intro r nq
  have triv : ∀ (r : BRelay α) (nq : Option (List α)),
      (r, nq, (none : Option Bool)).1.tbl ++ (r, nq, (none : Option Bool)).1.q = r.tbl ++ r.q ∧
      (r, nq, (none : Option Bool)).1.q.length ≤ r.q.length ∧
      (nq = none → (r, nq, (none : Option Bool)).2.1 = none) ∧
      (∀ inbox, nq = some inbox → ∃ inbox' added, (r, nq, (none : Option Bool)).2.1 = some inbox' ∧
        (r, nq, (none : Option Bool)).1.tbl = r.tbl ++ added ∧
        inbox' ++ inflight (r, nq, (none : Option Bool)).1 = inbox ++ inflight r ++ added ∧
        (inbox.length ≤ cap → inbox'.length ≤ cap)) :=
    fun r nq => ⟨rfl, Nat.le_refl _, fun h => h, fun inbox h => ⟨inbox, [], h, by simp, by simp, fun h => h⟩⟩
  unfold resumeB
  cases hb : r.blocked with
  | none => exact triv r nq
  | some xt =>
    obtain ⟨x, t⟩ := xt
    cases nq with
    | none => exact triv r none
    | some inbox0 =>
      simp only
      by_cases hroom : inbox0.length < cap
      · rw [if_pos hroom]
        by_cases he : r.tbl.length = t + 1
        · rw [if_pos he]
          refine ⟨rfl, Nat.le_refl _, (fun h => by cases h), fun inbox h => ?_⟩
          cases h
          exact ⟨inbox0 ++ [x], [], rfl, by simp, by simp [inflight, hb], fun _ => by simp; omega⟩
        · rw [if_neg he]
          have ⟨a, b, _, d⟩ := loopB_spec cap r.q.length { r with blocked := none } (some (inbox0 ++ [x])) t rfl
          refine ⟨a, b, (fun h => by cases h), fun inbox h => ?_⟩
          cases h
          obtain ⟨inbox', added, e1, e2, e3, e4⟩ := d _ rfl
          exact ⟨inbox', added, e1, e2, by rw [e3]; simp [inflight, hb], fun _ => e4 (by simp; omega)⟩
      · rw [if_neg hroom]
        exact triv r (some inbox0)

theorem atStore_inv (cap : Nat) (f : BRelay α → Option (List α) → BRelay α × Option (List α) × Option Bool)
    (hf : FSpec cap f) : ∀ (rs : List (BRelay α)) (i : Nat) (up fl : List α),
    BInv cap up fl rs → BInv cap up fl (atStore f rs i).1
  | [], _, _, _, _ => trivial
  | r :: rest, 0, up, fl, h => by
    obtain ⟨h1, h2, h3⟩ := h
    have ⟨a, b, c, d⟩ := hf r (nextInbox rest)
    show BInv cap up fl ((f r (nextInbox rest)).1 :: setInbox rest (f r (nextInbox rest)).2.1)
    refine ⟨by rw [a]; exact h1, Nat.le_trans b h2, ?_⟩
    cases rest with
    | nil => cases (f r (nextInbox [])).2.1 <;> trivial
    | cons r2 rest2 =>
      obtain ⟨g1, g2, g3⟩ := h3
      obtain ⟨inbox', added, e1, e2, e3, e4⟩ := d r2.q rfl
      have e1' : (f r (nextInbox (r2 :: rest2))).2.1 = some inbox' := e1
      rw [e1']
      show BInv cap _ _ ({ r2 with q := inbox' } :: rest2)
      refine ⟨?_, e4 g2, g3⟩
      show r2.tbl ++ inbox' ++ inflight (f r (nextInbox (r2 :: rest2))).1 = (f r (nextInbox (r2 :: rest2))).1.tbl
      have e3' : inbox' ++ inflight (f r (nextInbox (r2 :: rest2))).1 = r2.q ++ inflight r ++ added := e3
      have e2' : (f r (nextInbox (r2 :: rest2))).1.tbl = r.tbl ++ added := e2
      rw [List.append_assoc, e3', e2', ← g1]
      simp
  | r :: rest, i+1, up, fl, h => by
    obtain ⟨h1, h2, h3⟩ := h
    exact ⟨h1, h2, atStore_inv cap f hf rest i r.tbl (inflight r) h3⟩

/-- the invariant of the whole system -/
def SInv (cap : Nat) (s : BChain α) : Prop := ∃ up, up ++ s.pend = s.prod ∧ BInv cap up [] s.relays

theorem binv_replicate (cap : Nat) (c : List α) : ∀ k, BInv cap c [] (List.replicate k (⟨[], c, none⟩ : BRelay α))
  | 0 => trivial
  | k+1 => ⟨by simp, Nat.zero_le _, binv_replicate cap c k⟩

theorem step_inv (cap : Nat) (s : BChain α) (e : Ev α) (h : SInv cap s) : SInv cap (stepEv cap s e).1 := by
  obtain ⟨up, h1, h2⟩ := h
  cases e with
  | create ns => exact ⟨up, by show up ++ (s.pend ++ ns) = s.prod ++ ns; rw [← List.append_assoc, h1], h2⟩
  | deliver k =>
    unfold stepEv
    cases hr : s.relays with
    | nil =>
      refine ⟨up ++ s.pend.take k, ?_, trivial⟩
      show up ++ s.pend.take k ++ s.pend.drop k = s.prod
      rw [List.append_assoc, List.take_append_drop, h1]
    | cons r rest =>
      rw [hr] at h2
      obtain ⟨g1, g2, g3⟩ := h2
      refine ⟨up ++ s.pend.take (min k (cap - r.q.length)), ?_, ?_, ?_, g3⟩
      · show up ++ s.pend.take _ ++ s.pend.drop _ = s.prod
        rw [List.append_assoc, List.take_append_drop, h1]
      · show r.tbl ++ (r.q ++ s.pend.take _) ++ [] = _
        rw [← g1]; simp
      · show (r.q ++ s.pend.take _).length ≤ cap
        rw [List.length_append, List.length_take]
        omega
  | poll i t => exact ⟨up, h1, atStore_inv cap _ (recvB_spec cap t) s.relays i up [] h2⟩
  | resume i => exact ⟨up, h1, atStore_inv cap _ (resumeB_spec cap) s.relays i up [] h2⟩

theorem run_inv (cap : Nat) (evs : List (Ev α)) : ∀ s : BChain α, SInv cap s → SInv cap (run cap evs s) := by
  induction evs with
  | nil => intro s h; exact h
  | cons e evs ih => intro s h; exact ih _ (step_inv cap s e h)

theorem binv_prefix (cap : Nat) : ∀ (rs : List (BRelay α)) (up fl : List α), BInv cap up fl rs →
    ∀ r ∈ rs, ∃ rest, r.tbl ++ rest = up
  | [], _, _, _, r, hr => by cases hr
  | r0 :: rest, up, fl, h, r, hr => by
    obtain ⟨h1, _, h3⟩ := h
    rcases List.mem_cons.mp hr with rfl | hr
    · exact ⟨r.q ++ fl, by rw [← List.append_assoc]; exact h1⟩
    · obtain ⟨x, hx⟩ := binv_prefix cap rest r0.tbl (inflight r0) h3 r hr
      exact ⟨x ++ (r0.q ++ fl), by rw [← List.append_assoc, hx, ← List.append_assoc]; exact h1⟩

/-- **the safety statement holds** (for every capacity, also 0) -/
theorem bounded_forwarding : bounded_forwarding_statement := by
  intro α cap _ c k evs s
  have h : SInv cap s := run_inv cap evs _ ⟨c, by simp [BChain.init], binv_replicate cap c k⟩
  obtain ⟨up, h1, h2⟩ := h
  refine ⟨⟨up, h1, h2⟩, ?_⟩
  intro r hr
  obtain ⟨x, hx⟩ := binv_prefix cap _ up [] h2 r hr
  exact ⟨x ++ s.pend, by rw [← List.append_assoc, hx, h1]⟩

/-- the state the unbounded model cannot represent: capacity 1, two relays, the producer creates
nodes 7, 8 (tables start as `[0, 1]`), both are delivered one at a time and store 0 polls for
handle 3: it pushes 7, forwards it, pushes 8 and blocks in `send` because store 1's inbox (holding
7) is full. Then `tbl₀ = [0,1,7,8]` but `tbl₁ ++ q₁ = [0,1,7]`: the unbounded invariant
`tbl₁ ++ q₁ = tbl₀` fails, the bounded one (with the node in flight) holds; after store 1 polls and
store 0 is resumed, the poll of store 0 completes with `found = true` and both invariants hold -/
def exSched : List (Ev Nat) := [.create [7, 8], .deliver 1, .poll 0 2, .deliver 1, .poll 0 3]

theorem blocked_state_example :
    let s := run 1 exSched (BChain.init [0, 1] 2)
    s.relays = [⟨[], [0, 1, 7, 8], some (8, 3)⟩, ⟨[7], [0, 1], none⟩] ∧
    (∀ r0 r1, s.relays = [r0, r1] → r1.tbl ++ r1.q ≠ r0.tbl) ∧
    (stepEv 1 (run 1 (exSched ++ [.poll 1 2]) (BChain.init [0, 1] 2)) (.resume 0)).2 = some true ∧
    (run 1 (exSched ++ [.poll 1 2, .resume 0]) (BChain.init [0, 1] 2)).relays =
      [⟨[], [0, 1, 7, 8], none⟩, ⟨[8], [0, 1, 7], none⟩] := by
  refine ⟨by decide, ?_, by decide, by decide⟩
  intro r0 r1 h
  have e : run 1 exSched (BChain.init [0, 1] 2) =
      ⟨[0, 1, 7, 8], [], [⟨[], [0, 1, 7, 8], some (8, 3)⟩, ⟨[7], [0, 1], none⟩]⟩ := by decide
  rw [e] at h
  simp only [List.cons.injEq, and_true] at h
  obtain ⟨rfl, rfl⟩ := h
  decide

/-- the bounded invariant does hold in that state -/
example : BInv 1 [0, 1, 7, 8] [] (run 1 exSched (BChain.init [0, 1] 2)).relays := by
  have e : (run 1 exSched (BChain.init [0, 1] 2)).relays =
      [⟨[], [0, 1, 7, 8], some (8, 3)⟩, ⟨[7], [0, 1], none⟩] := by decide
  rw [e]
  exact ⟨rfl, by decide, rfl, by decide, trivial⟩

end StreamB

#print axioms StreamB.blocked_state_example
#print axioms StreamB.bounded_forwarding
