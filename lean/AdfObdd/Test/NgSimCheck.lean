import AdfObdd.NgModel
import AdfObdd.Compile
import AdfObdd.ClosureSound
/-! executable validation (a test, not a proof) of the claimed stuttering simulation between the
    concrete nogood loop (`NgModel`) and the abstract machine (`NgSearch`) -/

def lcg (x : Nat) : Nat := (x * 6364136223846793005 + 1442695040888963407) % 2^64

def genFm (n : Nat) : Nat → Nat → Fm × Nat
  | 0, x => let x := lcg x; (Fm.atom ((x >>> 33) % n), x)
  | d+1, x =>
    let x := lcg x
    let k := (x >>> 33) % 11
    if k < 3 then (Fm.atom ((x >>> 40) % n), x)
    else if k == 3 then let r := genFm n d x; (Fm.not r.1, r.2)
    else if k == 10 then (if (x >>> 45) % 2 == 0 then Fm.top else Fm.bot, x)
    else
      let ra := genFm n d x
      let rb := genFm n d ra.2
      ((match k with
        | 4 => Fm.and ra.1 rb.1 | 5 => Fm.or ra.1 rb.1 | 6 => Fm.imp ra.1 rb.1
        | 7 => Fm.xor ra.1 rb.1 | 8 => Fm.iff ra.1 rb.1 | _ => Fm.and ra.1 (Fm.not rb.1)), rb.2)

def genAdf (n : Nat) (seed : Nat) : Store × List Nat × Nat := Id.run do
  let mut s := Store.init
  let mut acs : List Nat := []
  let mut x := seed
  for _ in [0:n] do
    let r := genFm n 3 x
    x := r.2
    let c := compile s r.1
    s := c.1
    acs := acs ++ [c.2]
  pure (s, acs, x)

/-- one iteration of `ngLoop` (same text, recursion replaced by returning) ; `true` = halted -/
def ngIter (n : Nat) (ac : List Nat) (stable : Bool) (st : NgSt) : NgSt × Bool :=
  let st := if st.choice then
      match heuSimple st.cur with
      | some (v, t) =>
        let cur' := st.cur.set v t
        { st with choice := false, hist := st.cur :: st.hist, cur := cur', stack := (true, toPA cur') :: st.stack,
                  trace := st.trace ++ [st.cur] }
      | none => { st with choice := false, backtrack := true }
    else st
  if st.backtrack && st.stack.isEmpty then (st, true) else
  let st := if st.backtrack then Id.run do
      let mut buckets := st.buckets
      let mut stack := st.stack
      let mut cur := st.cur
      let mut hist := st.hist
      let mut go := true
      while go do
        match stack with
        | [] => go := false
        | (ch, g) :: rest =>
          stack := rest
          buckets := addNg buckets g
          if ch then
            cur := hist.headD cur
            hist := hist.tail
            go := false
      pure { st with backtrack := false, buckets := buckets, stack := stack, cur := cur, hist := hist }
    else st
  match conclusionClosureT st.buckets st.cur with
  | ClosT.inconsistent => ({ st with backtrack := true }, false)
  | cl =>
    let (st, updNg) := match cl with
      | ClosT.update r => ({ st with cur := r, stack := (false, toPA r) :: st.stack }, true)
      | _ => (st, false)
    let acr := applyInterp st.s st.cur ac
    let st := { st with s := acr.1 }
    let bad := (st.cur.zip acr.2).any (fun (c, a) => isTV c && isTV a && (c != a))
    if bad then ({ st with backtrack := true }, false) else
    let upd := applyInterp st.s st.cur st.cur
    let st := { st with s := upd.1 }
    let updFp := upd.2 != st.cur
    let st := { st with cur := upd.2 }
    if updFp then (st, false)
    else if updNg then (st, false)
    else if !(st.cur.all isTV) then ({ st with choice := true }, false)
    else
      let chk := if stable then stabilityCheck st.s n ac st.cur else (st.s, true)
      let st := { st with s := chk.1 }
      if chk.2 then
        ({ st with stack := (false, toPA st.cur) :: st.stack, out := st.out ++ [st.cur], backtrack := true }, false)
      else
        ({ st with stack := (false, toPA st.cur) :: st.stack, backtrack := true }, false)

/-! abstraction -/
def absEntries : List (Bool × PA) → List (List Nat) → List Entry
  | [], _ => []
  | (true, g) :: rest, h :: hs =>
      let H := toPA h
      let v := ((List.range g.length).find? (fun i => (pget H i).isNone && (pget g i).isSome)).getD 0
      { choice := some (H, v, (pget g v).getD false), ng := g } :: absEntries rest hs
  | (_, g) :: rest, hs => { choice := none, ng := g } :: absEntries rest hs

def absSt (c : NgSt) : St :=
  { cur := toPA c.cur, store := c.buckets.flatten, stack := absEntries c.stack c.hist,
    backtrack := c.backtrack, choice := c.choice, out := (c.out.map toPA).reverse, time := c.trace.length }

def eqEntry (a b : Entry) : Bool := a.choice == b.choice && a.ng == b.ng
def eqEntries : List Entry → List Entry → Bool
  | [], [] => true
  | a :: as, b :: bs => eqEntry a b && eqEntries as bs
  | _, _ => false
def sameSet (a b : List PA) : Bool := a.all (fun x => b.contains x) && b.all (fun x => a.contains x)
def eqSt (a b : St) : Bool :=
  a.cur == b.cur && sameSet a.store b.store && eqEntries a.stack b.stack && a.backtrack == b.backtrack &&
  a.choice == b.choice && a.out == b.out && a.time == b.time

def vecOf (A : PA) : List Nat := A.map (fun x => match x with | some true => 1 | some false => 0 | none => 2)

/-- the abstract parameters, each a function of the decided part only -/
def mkParams (s : Store) (n : Nat) (ac : List Nat) (stable : Bool) : Params where
  gam A := let r := (applyInterp s (vecOf A) ac).2
           (List.range n).map (fun i => match pget A i with | some b => some b | none => storeIsConst (r.getD i 0))
  acIncons A := let r := (applyInterp s (vecOf A) ac).2
           (List.range n).any (fun i => match pget A i, storeIsConst (r.getD i 0) with
             | some b, some c => b != c | _, _ => false)
  isTarget A := if stable then (stabilityCheck s n ac (vecOf A)).2 else true
  twoVal A := A.all Option.isSome
  heu _ A := ((List.range n).find? (fun i => (pget A i).isNone)).map (fun i => (i, true))
  closure st A := conclusionClosure (bucketsOf n st) A

structure SimStats where
  iters : Nat := 0
  stutters : Nat := 0
  outs : Nat := 0
deriving Repr

partial def simLoop (P : Params) (n : Nat) (ac : List Nat) (stable : Bool) (c : NgSt) (prevStutter : Bool)
    (st : SimStats) : Except String SimStats :=
  let r := ngIter n ac stable c
  let a := absSt c
  let a' := absSt r.1
  match iter P a with
  | Res.done x =>
    if r.2 && eqSt x a' then .ok { st with iters := st.iters + 1, outs := r.1.out.length }
    else .error s!"abstract halts, concrete {if r.2 then "halts in a different state" else "continues"} at iteration {st.iters}"
  | Res.cont x =>
    if r.2 then .error s!"concrete halts, abstract continues at iteration {st.iters}"
    else if eqSt x a' then simLoop P n ac stable r.1 false { st with iters := st.iters + 1 }
    else if (match iter P a' with | Res.cont y => eqSt x y | Res.done _ => false) then
      if prevStutter then .error s!"two stutters in a row at iteration {st.iters}"
      else simLoop P n ac stable r.1 true { st with iters := st.iters + 1, stutters := st.stutters + 1 }
    else .error s!"neither a step nor a stutter at iteration {st.iters}"

def simOne (n seed : Nat) (stable : Bool) : Except String SimStats :=
  let (s, ac, _) := genAdf n seed
  let g := groundedLoop StoreRA (n + 1) s ac
  let P := mkParams g.1 n ac stable
  simLoop P n ac stable { s := g.1, cur := g.2, buckets := List.replicate (n + 1) [], stack := [], hist := [],
                          backtrack := false, choice := false, out := [], trace := [] } false {}

def simMany (cases : Nat) : IO Unit := do
  let mut bad := 0
  let mut iters := 0
  let mut stutters := 0
  let mut outs := 0
  for k in [0:cases] do
    let n := 1 + k % 6
    for stable in [true, false] do
      match simOne n (k * 7919 + 13) stable with
      | .ok st => iters := iters + st.iters; stutters := stutters + st.stutters; outs := outs + st.outs
      | .error e =>
        bad := bad + 1
        if bad ≤ 5 then IO.println s!"case {k} n={n} stable={stable}: {e}"
  IO.println s!"cases={2*cases} bad={bad} iterations={iters} stutters={stutters} outputs={outs}"

def main : IO Unit := simMany 3000
