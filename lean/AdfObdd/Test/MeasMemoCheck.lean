import AdfObdd.SearchModel
import AdfObdd.Drv.DepsSet
/-! Sanity checks of the memoised measure twins: the PURE definitions are evaluated by the kernel
    (`decide +kernel`: no compiler substitution there), the compiled twins by the evaluator (`#guard`),
    against the same literal values — on a parity diagram (heavy sharing) and on an ILL-FORMED table
    (a cycle and a forward edge), where the pure value depends on the fuel and the twins must follow. -/
namespace MeasMemoCheck

/-- parity of x0..x7: 18 nodes, 256 paths; handle 16 -/
def parS : Store := { nodes := #[⟨VBOT, 0, 0⟩, ⟨VTOP, 1, 1⟩, ⟨7, 0, 1⟩, ⟨7, 1, 0⟩, ⟨6, 2, 3⟩, ⟨6, 3, 2⟩, ⟨5, 4, 5⟩, ⟨5, 5, 4⟩, ⟨4, 6, 7⟩, ⟨4, 7, 6⟩, ⟨3, 8, 9⟩, ⟨3, 9, 8⟩, ⟨2, 10, 11⟩, ⟨2, 11, 10⟩, ⟨1, 12, 13⟩, ⟨1, 13, 12⟩, ⟨0, 14, 15⟩, ⟨0, 15, 14⟩], uniq := {}, resC := {}, iteC := {} }

example : countF parS 17 16 = (128, 128, 8) := by decide +kernel
#guard countFM parS 17 16 == (128, 128, 8)
example : pathsF parS 17 16 = (128, 128) := by decide +kernel
#guard pathsFM parS 17 16 == (128, 128)
-- too little fuel: both give the truncated value
example : pathsF parS 5 16 = (0, 0) := by decide +kernel
#guard pathsFM parS 5 16 == (0, 0)
example : (depsOf parS 16).length = 255 := by decide +kernel
example : Drv.sortDedup (depsOf parS 16) = List.range 8 := by decide +kernel
#guard Drv.depsSortedM parS 16 == List.range 8
example : passive parS 3 [16, 2, 15, 1, 4] = 2 := by decide +kernel
#guard passiveM parS 3 [16, 2, 15, 1, 4] == 2
example : active parS 0 [16, 2, 15, 1, 4] = 5 := by decide +kernel
#guard activeM parS 0 [16, 2, 15, 1, 4] == 5
example : active parS 2 [16, 2, 6, 1, 4] = 0 := by decide +kernel
#guard activeM parS 2 [16, 2, 6, 1, 4] == 0

/-- an ill-formed table: 2 and 3 form a cycle, 4 has a forward edge to 5, 6 sits on top of the cycle -/
def illS : Store := { nodes := #[⟨VBOT, 0, 0⟩, ⟨VTOP, 1, 1⟩, ⟨0, 3, 1⟩, ⟨1, 2, 0⟩, ⟨0, 5, 2⟩, ⟨1, 0, 1⟩, ⟨2, 5, 3⟩],
                      uniq := {}, resC := {}, iteC := {} }

example : [countF illS 3 2, countF illS 4 2, countF illS 5 2, countF illS 5 4, countF illS 7 4, countF illS 7 6, countF illS 9 6] =
    [(2, 4, 3), (4, 10, 4), (10, 20, 5), (12, 18, 5), (52, 74, 7), (74, 52, 7), (298, 212, 9)] := by decide +kernel
#guard [countFM illS 3 2, countFM illS 4 2, countFM illS 5 2, countFM illS 5 4, countFM illS 7 4, countFM illS 7 6, countFM illS 9 6] ==
    [(2, 4, 3), (4, 10, 4), (10, 20, 5), (12, 18, 5), (52, 74, 7), (74, 52, 7), (298, 212, 9)]
example : [pathsF illS 3 2, pathsF illS 5 4, pathsF illS 7 6, pathsF illS 9 6, pathsF illS 2 6, pathsF illS 0 6] =
    [(1, 1), (2, 3), (4, 3), (5, 4), (0, 0), (0, 0)] := by decide +kernel
#guard [pathsFM illS 3 2, pathsFM illS 5 4, pathsFM illS 7 6, pathsFM illS 9 6, pathsFM illS 2 6, pathsFM illS 0 6] ==
    [(1, 1), (2, 3), (4, 3), (5, 4), (0, 0), (0, 0)]
-- the shared memo: handles of the cycle, of the forward edge and well-formed ones in one list
example : Memo.pathG.mapL illS [5, 6, 2, 4, 5, 3, 6, 9] = [pathsF illS 6 5, pathsF illS 7 6, pathsF illS 3 2, pathsF illS 5 4,
    pathsF illS 6 5, pathsF illS 4 3, pathsF illS 7 6, pathsF illS 10 9] := by decide +kernel
#guard Memo.pathG.mapLM illS [5, 6, 2, 4, 5, 3, 6, 9] == [(1, 1), (4, 3), (1, 1), (2, 3), (1, 1), (2, 1), (4, 3), (0, 0)]
example : [pathsF illS 6 5, pathsF illS 7 6, pathsF illS 3 2, pathsF illS 5 4, pathsF illS 4 3, pathsF illS 10 9] =
    [(1, 1), (4, 3), (1, 1), (2, 3), (2, 1), (0, 0)] := by decide +kernel

/-- the heuristics: s0: parity, s1: x7, s2: ¬x7 (handles 16, 2, 3), nothing decided -/
example : SM.heuCall .minPathsMaxVarImp parS [16, 2, 3] 0 = some (1, 1) := by decide +kernel
#guard SM.heuCallM .minPathsMaxVarImp parS [16, 2, 3] 0 == some (1, 1)
example : SM.heuCall .maxVarImpMinPaths parS [16, 2, 3] 0 = some (1, 1) := by decide +kernel
#guard SM.heuCallM .maxVarImpMinPaths parS [16, 2, 3] 0 == some (1, 1)
example : (countParams [] true).pick parS ([16, 2, 3], [2, 2, 2]) = some 1 := by decide +kernel
#guard (countParamsM [] true).pick parS ([16, 2, 3], [2, 2, 2]) == some 1
example : (countParams [] false).pick parS ([16, 2, 3], [2, 2, 2]) = some 1 := by decide +kernel
#guard (countParamsM [] false).pick parS ([16, 2, 3], [2, 2, 2]) == some 1

end MeasMemoCheck

#print axioms Memo.go_spec
#print axioms Memo.mapL_eq_mapLM
#print axioms countF_eq_countFM
#print axioms pathsF_eq_pathsFM
#print axioms passive_eq_passiveM
#print axioms active_eq_activeM
#print axioms countParams_eq_countParamsM
#print axioms SM.heuCall_eq_heuCallM
#print axioms Drv.depsSorted_eq_depsSortedM
