import AdfObdd.FeatureNg
import AdfObdd.FeatureLog
/-! executable sanity checks (evaluator tests, not proofs) of the configured semantics of C12:
    on the ADF  s0 : ¬s1,  s1 : ¬s0,  s2 : s0 ∧ s2  every routine under the three cargo feature
    sets returns what the reference model returns, the answers are not degenerate, a query without
    `adhoccounting` fills the count cache, and the `frontend` log holds the created nodes. -/

def fsemOps : List Op := [.var 0, .var 1, .var 2, .not 2, .not 3, .and 2 4]
-- history: 0 1 | x0=2 x1=3 x2=4 ¬x0=5 ¬x1=6 x0∧x2=7
def fsemAc : List Nat := [6, 5, 7]
def fsemRef : Store := (runOps fsemOps Store.init [0, 1]).1
def fsemC (c : Cfg) : FStore := (runOpsC c fsemOps (newC c) [0, 1]).1

#guard (runOps fsemOps Store.init [0, 1]).2 == [0, 1, 2, 3, 4, 5, 6, 7]
#guard (stableAll fsemRef 3 fsemAc).2 == [[0, 1, 0], [1, 0, 0]]
#guard [Cfg.default, Cfg.none, Cfg.all].all fun c =>
  (groundedLoop (CfgRA c) 4 (fsemC c) fsemAc).2 == (groundedLoop StoreRA 4 fsemRef fsemAc).2 &&
  (completeAllG (CfgRA c) (fsemC c) 3 fsemAc).2 == (completeAll fsemRef 3 fsemAc).2 &&
  (stableAllG (CfgRA c) (fsemC c) 3 fsemAc).2 == (stableAll fsemRef 3 fsemAc).2 &&
  (stablePreG (CfgRA c) (fsemC c) 3 fsemAc).2 == (Cli.stablePre fsemRef 3 fsemAc).2 &&
  (countAllC c (fsemC c) 3 fsemAc true).2 == (countAll fsemRef 3 fsemAc true).2 &&
  (countAllC c (fsemC c) 3 fsemAc false).2 == (countAll fsemRef 3 fsemAc false).2 &&
  (countAllC c (fsemC c) 3 fsemAc true).2 == [[0, 1, 0], [1, 0, 0]] &&
  [SM.Heu.simple, .minPathsMaxVarImp, .maxVarImpMinPaths, .script 7].all fun h =>
    [true, false].all fun st =>
      (ngSearchC c h 200 (fsemC c) 3 fsemAc st).2 == (SM.ngSearch h 200 fsemRef 3 fsemAc st).2 &&
      (ngSearchC c h 200 (fsemC c) 3 fsemAc st).2.2.2
-- a `paths(t, true)` query fills the cache without `adhoccounting`, and not with it
#guard (fsemC Cfg.none).cnt.size == 0 && (pathsQ Cfg.none (fsemC Cfg.none) 7).2.cnt.size == 2
#guard (pathsQ Cfg.default (fsemC Cfg.default) 7).2.cnt.size == (fsemC Cfg.default).cnt.size
-- the channel: all six created nodes, in order; nothing without a sender or without the feature
#guard (runOpsC Cfg.default fsemOps (newC Cfg.default).setSender [0, 1]).1.log ==
  [⟨0, 0, 1⟩, ⟨1, 0, 1⟩, ⟨2, 0, 1⟩, ⟨0, 1, 0⟩, ⟨1, 1, 0⟩, ⟨0, 0, 4⟩]
#guard (runOpsC Cfg.default fsemOps (newC Cfg.default) [0, 1]).1.log == []
#guard (runOpsC Cfg.none fsemOps (newC Cfg.none).setSender [0, 1]).1.log == []
#guard (stableAllG (CfgRA Cfg.default) (fsemC Cfg.default).setSender 3 fsemAc).1.log.length ==
  (stableAllG (CfgRA Cfg.default) (fsemC Cfg.default) 3 fsemAc).1.base.nodes.size - (fsemC Cfg.default).base.nodes.size
