import AdfObdd.CountInstance
/-! The concrete steps of `two_val_model_counts_logic` (`countParams`) satisfy the laws `GK.CSound`
    of the generic machine, for ANY target set `T` of total assignments for which the start vector is
    a residual vector (`ResT`). Invariant carried along: `WF s`, lengths, handle validity, `ResT`,
    and "`will_be[i]` constant ⇒ the vector holds the same constant" (`WB`). -/
namespace CI

/-! ### helpers -/

theorem get_lt {l : List Nat} {j t : Nat} (h : l[j]? = some t) : j < l.length := by
  rcases Nat.lt_or_ge j l.length with h' | h'
  · exact h'
  · rw [List.getElem?_eq_none h'] at h; cases h

theorem all_zip_get {a b : List Nat} {p : Nat × Nat → Bool} (h : (a.zip b).all p = true)
    {j x y : Nat} (hx : a[j]? = some x) (hy : b[j]? = some y) : p (x, y) = true := by
  rw [List.all_eq_true] at h
  apply h
  exact List.mem_of_getElem? (i := j) (List.getElem?_zip_eq_some.mpr ⟨hx, hy⟩)

/-- `will_be` constant ⇒ same constant in the vector: then `check_consistency` succeeds -/
theorem consistent_of_WB {v wb : List Nat} (h : WB v wb) : consistentWith v wb = true := by
  unfold consistentWith
  rw [List.all_eq_true]
  intro p hp
  obtain ⟨j, hj⟩ := List.mem_iff_getElem?.mp hp
  have ⟨h1, h2⟩ := List.getElem?_zip_eq_some.mp hj
  simp only [noInfIncons, Bool.or_eq_true, Bool.not_eq_true']
  cases ht : isTV p.2 with
  | false => exact Or.inr rfl
  | true =>
    left
    have := h j p.2 h2 ht
    rw [h1] at this
    have e : p.1 = p.2 := Option.some.inj this
    rw [e]; exact sameInfo_iff.mpr rfl

/-- the goal variable occurs in a cube only with the goal value -/
theorem cubes_gv (s : Store) : ∀ (fuel t : Nat) (goal : Bool) (gv : Nat) (neg pos : List Nat) (c : PCube),
    c ∈ cubesF s fuel t goal gv neg pos →
    (gv ∈ c.1 → gv ∈ neg ∨ goal = false) ∧ (gv ∈ c.2 → gv ∈ pos ∨ goal = true) := by
  intro fuel
  induction fuel with
  | zero => intro t goal gv neg pos c hc; simp [cubesF] at hc
  | succ f ih =>
    intro t goal gv neg pos c hc
    unfold cubesF at hc
    by_cases h2 : t < 2
    · rw [if_pos h2] at hc; cases hc
    · rw [if_neg h2] at hc
      cases hn : s.nodes[t]? with
      | none => simp only [hn] at hc; cases hc
      | some n =>
        simp only [hn] at hc
        rcases List.mem_append.mp hc with hc | hc
        · -- hi side
          by_cases hcond : gv ≠ n.var ∨ goal = true
          · rw [if_pos hcond] at hc
            have key : ∀ x, x ∈ pos ++ [n.var] → gv = x → gv ∈ pos ∨ goal = true := by
              intro x hx e
              rcases List.mem_append.mp hx with h | h
              · left; rw [e]; exact h
              · rw [List.mem_singleton] at h
                rcases hcond with h' | h'
                · exact absurd (e.trans h) h'
                · exact Or.inr h'
            by_cases hl : n.hi < 2
            · rw [if_pos hl] at hc
              split at hc
              · rw [List.mem_singleton] at hc; subst hc
                exact ⟨fun h => Or.inl h, fun h => key gv h rfl⟩
              · cases hc
            · rw [if_neg hl] at hc
              have ⟨a, b⟩ := ih n.hi goal gv neg (pos ++ [n.var]) c hc
              refine ⟨a, fun h => ?_⟩
              rcases b h with h' | h'
              · exact key gv h' rfl
              · exact Or.inr h'
          · rw [if_neg hcond] at hc; cases hc
        · -- lo side
          by_cases hcond : gv ≠ n.var ∨ goal = false
          · rw [if_pos hcond] at hc
            have key : ∀ x, x ∈ neg ++ [n.var] → gv = x → gv ∈ neg ∨ goal = false := by
              intro x hx e
              rcases List.mem_append.mp hx with h | h
              · left; rw [e]; exact h
              · rw [List.mem_singleton] at h
                rcases hcond with h' | h'
                · exact absurd (e.trans h) h'
                · exact Or.inr h'
            by_cases hl : n.lo < 2
            · rw [if_pos hl] at hc
              split at hc
              · rw [List.mem_singleton] at hc; subst hc
                exact ⟨fun h => key gv h rfl, fun h => Or.inl h⟩
              · cases hc
            · rw [if_neg hl] at hc
              have ⟨a, b⟩ := ih n.lo goal gv (neg ++ [n.var]) pos c hc
              refine ⟨fun h => ?_, b⟩
              rcases a h with h' | h'
              · exact key gv h' rfl
              · exact Or.inr h'
          · rw [if_neg hcond] at hc; cases hc

/-! ### residual vectors relative to a target set -/

/-- for every target assignment extending the decided part, every entry evaluates to the value of
its own statement -/
def ResT (s : Store) (T : Asg → Prop) (v : List Nat) : Prop :=
  ∀ σ, T σ → Agree σ (d3 v) → ∀ (j t : Nat), v[j]? = some t → eval s t σ = σ j

def AllLt (s : Store) (v : List Nat) : Prop := ∀ t ∈ v, t < s.nodes.size

theorem AllLt.mono {s s' : Store} {v : List Nat} (h : AllLt s v) (e : Ext s s') : AllLt s' v :=
  fun t ht => Nat.lt_of_lt_of_le (h t ht) e.1

theorem ResT.mono {s s' : Store} {T : Asg → Prop} {v : List Nat} (h : ResT s T v) (w : WF s) (e : Ext s s')
    (hv : AllLt s v) : ResT s' T v := by
  intro σ t ha j x hj
  rw [eval_ext w e x σ (hv x (List.mem_of_getElem? hj))]
  exact h σ t ha j x hj

theorem le3_of_const {v v' : List Nat}
    (h : ∀ (j t : Nat), v[j]? = some t → isTV t = true → v'[j]? = some t) : Le3 (d3 v) (d3 v') := by
  intro j b hj
  rw [d3_get] at hj
  cases hv : v[j]? with
  | none => rw [hv] at hj; cases hj
  | some t =>
    rw [hv] at hj
    simp only [Option.map_some, Option.some.injEq] at hj
    rw [d3_get, h j t hv (isTV_iff.mpr ⟨b, hj⟩)]
    simp [hj]

/-- one propagation step (`update_interpretation_fixpoint`) on a residual vector -/
theorem prop_step {T : Asg → Prop} {s : Store} {v : List Nat} (w : WF s) (hv : AllLt s v) (hr : ResT s T v) :
    WF (applyVec s v v).1 ∧ Ext s (applyVec s v v).1 ∧ (applyVec s v v).2.length = v.length ∧
    AllLt (applyVec s v v).1 (applyVec s v v).2 ∧
    (∀ (j t : Nat), v[j]? = some t → isTV t = true → (applyVec s v v).2[j]? = some t) ∧
    (∀ σ, T σ → Agree σ (d3 v) → Agree σ (d3 (applyVec s v v).2)) ∧
    ResT (applyVec s v v).1 T (applyVec s v v).2 := by
  rw [applyVec_eq]
  have ⟨w1, e1, l1, d1⟩ := mapS_spec (computes_restrictBy v) v s w hv
  -- entry-wise description, from the result's side
  have back : ∀ (j t' : Nat), (mapS (fun s t => restrictBy StoreRA s t 0 v) s v).2[j]? = some t' →
      ∃ t, v[j]? = some t ∧ t' < (mapS (fun s t => restrictBy StoreRA s t 0 v) s v).1.nodes.size ∧
        ∀ σ, eval (mapS (fun s t => restrictBy StoreRA s t 0 v) s v).1 t' σ = eval s t (over σ 0 (d3 v)) := by
    intro j t' hj
    have hjl : j < v.length := by rw [← l1]; exact get_lt hj
    obtain ⟨t'', h1, h2, h3⟩ := d1 j v[j] (List.getElem?_eq_getElem hjl)
    rw [h1] at hj; cases hj
    exact ⟨v[j], List.getElem?_eq_getElem hjl, h2, h3⟩
  have keep : ∀ (j t : Nat), v[j]? = some t → isTV t = true →
      (mapS (fun s t => restrictBy StoreRA s t 0 v) s v).2[j]? = some t := by
    intro j t hj ht
    obtain ⟨t', h1, h2, h3⟩ := d1 j t hj
    obtain ⟨b, hb⟩ := isTV_iff.mp ht
    have : storeIsConst t' = some b := const_of_eval w1 h2 (fun σ => by rw [h3, eval_const hb])
    rw [h1, sic_inj this hb]
  have cons : ∀ σ, T σ → Agree σ (d3 v) → Agree σ (d3 (mapS (fun s t => restrictBy StoreRA s t 0 v) s v).2) := by
    intro σ ht ha j b hj
    rw [d3_get] at hj
    cases hu : (mapS (fun s t => restrictBy StoreRA s t 0 v) s v).2[j]? with
    | none => rw [hu] at hj; cases hj
    | some t' =>
      rw [hu] at hj
      simp only [Option.map_some, Option.some.injEq] at hj
      obtain ⟨t, h1, _, h3⟩ := back j t' hu
      have := h3 σ
      rw [eval_const hj, over_of_agree ha, hr σ ht ha j t h1] at this
      exact this.symm
  refine ⟨w1, e1, l1, ?_, keep, cons, ?_⟩
  · intro t' ht'
    obtain ⟨j, hj⟩ := List.mem_iff_getElem?.mp ht'
    obtain ⟨_, _, h2, _⟩ := back j t' hj
    exact h2
  · intro σ ht ha j t' hj
    obtain ⟨t, h1, _, h3⟩ := back j t' hj
    have ha' : Agree σ (d3 v) := ha.mono (le3_of_const keep)
    rw [h3 σ, over_of_agree ha']
    exact hr σ ht ha' j t h1

/-! ### the view of the concrete machine -/

/-- the invariant of the recursion -/
structure CInv (n : Nat) (ac : List Nat) (T : Asg → Prop) (s : Store) (c : CState) : Prop where
  wf : WF s
  len1 : c.1.length = n
  len2 : c.2.length = n
  lenac : ac.length = n
  val : AllLt s c.1
  valac : AllLt s ac
  res : ResT s T c.1
  wb : WB c.1 c.2

/-- store order: node table only extended, well-formedness kept -/
def SLe (s s' : Store) : Prop := Ext s s' ∧ (WF s → WF s')

theorem SLe.refl (s : Store) : SLe s s := ⟨Ext.refl s, fun h => h⟩
theorem SLe.trans {a b c : Store} (h1 : SLe a b) (h2 : SLe b c) : SLe a c :=
  ⟨Ext.trans h1.1 h2.1, fun h => h2.2 (h1.2 h)⟩

def GoodO (n : Nat) (o : List Nat) : Prop := o.length = n ∧ ∀ t ∈ o, isTV t = true

def view (n : Nat) (ac : List Nat) (T : Asg → Prop) : GK.View Store CState PCube (List Nat) where
  n := n
  mu c := countSome (d3 c.1)
  Reg c σ := RegI n (d3 c.1) σ
  RegO o σ := RegI n (d3 o) σ
  InK := InPC
  Good := GoodO n
  Inv := CInv n ac T
  Le := SLe

theorem CInv.mono {n : Nat} {ac : List Nat} {T : Asg → Prop} {s s' : Store} {c : CState}
    (h : CInv n ac T s c) (l : SLe s s') : CInv n ac T s' c :=
  ⟨l.2 h.wf, h.len1, h.len2, h.lenac, h.val.mono l.1, h.valac.mono l.1, h.res.mono h.wf l.1 h.val, h.wb⟩

/-! ### the cube step -/

/-- the vector after an accepted cube and `new_int[idx] = goal` -/
structure CubeVec (n : Nat) (interp : List Nat) (cu : PCube) (idx : Nat) (g : Bool) (ni : List Nat) : Prop where
  len : ni.length = n
  keep : ∀ (j t : Nat), interp[j]? = some t → isTV t = true → ni[j]? = some t
  atIdx : ni[idx]? = some (if g then 1 else 0)
  new : ∀ (j t : Nat), ni[j]? = some t → interp[j]? = some t ∨ (t = 0 ∧ j ∈ cu.1) ∨ (t = 1 ∧ j ∈ cu.2) ∨
      (j = idx ∧ t = (if g then 1 else 0))
  neg : ∀ j ∈ cu.1, j < n → ni[j]? = some 0
  pos : ∀ j ∈ cu.2, ni[j]? = some 1

theorem cubeVec_of {n : Nat} {interp wb : List Nat} {cu : PCube} {idx a : Nat} {g : Bool} {ni0 : List Nat}
    (hl : interp.length = n) (ha : interp[idx]? = some a) (hna : isTV a = false)
    (hgv : (idx ∈ cu.1 → g = false) ∧ (idx ∈ cu.2 → g = true))
    (happ : applyCube interp wb cu = some ni0) :
    CubeVec n interp cu idx g (ni0.set idx (if g then 1 else 0)) := by
  have hl0 : ni0.length = n := by rw [(applyCube_some happ).1, hl]
  have hidx : idx < ni0.length := by rw [hl0, ← hl]; exact get_lt ha
  have hget : ∀ j, j ≠ idx → (ni0.set idx (if g then 1 else 0))[j]? = ni0[j]? :=
    fun j hj => List.getElem?_set_ne (Ne.symm hj)
  have hself : (ni0.set idx (if g then 1 else 0))[idx]? = some (if g then 1 else 0) :=
    List.getElem?_set_self hidx
  refine ⟨by rw [List.length_set, hl0], ?_, hself, ?_, ?_, ?_⟩
  · intro j t hj ht
    have hji : j ≠ idx := by
      intro e; subst e; rw [ha] at hj; cases hj; rw [hna] at ht; cases ht
    rw [hget j hji]; exact applyCube_le happ j t hj ht
  · intro j t hj
    by_cases hji : j = idx
    · subst hji; rw [hself] at hj; cases hj
      exact Or.inr (Or.inr (Or.inr ⟨rfl, rfl⟩))
    · rw [hget j hji] at hj
      rcases applyCube_new happ j t hj with h | h | h
      · exact Or.inl h
      · exact Or.inr (Or.inl h)
      · exact Or.inr (Or.inr (Or.inl h))
  · intro j hj hjn
    by_cases hji : j = idx
    · subst hji; rw [hself, hgv.1 hj]; rfl
    · rw [hget j hji]; exact (applyCube_lits happ).1 j hj (by rw [hl]; exact hjn)
  · intro j hj
    by_cases hji : j = idx
    · subst hji; rw [hself, hgv.2 hj]; rfl
    · rw [hget j hji]; exact (applyCube_lits happ).2 j hj

theorem gT_lt (g : Bool) : (if g then 1 else 0 : Nat) < 2 := by cases g <;> simp
theorem sic_gT (g : Bool) : storeIsConst (if g then 1 else 0) = some g := by cases g <;> rfl

theorem CubeVec.allLt {n : Nat} {interp : List Nat} {cu : PCube} {idx : Nat} {g : Bool} {ni : List Nat}
    (h : CubeVec n interp cu idx g ni) {s : Store} (w : WF s) (hv : AllLt s interp) : AllLt s ni := by
  intro t ht
  obtain ⟨j, hj⟩ := List.mem_iff_getElem?.mp ht
  have := w.len
  rcases h.new j t hj with e | ⟨e, _⟩ | ⟨e, _⟩ | ⟨_, e⟩
  · exact hv t (List.mem_of_getElem? e)
  · omega
  · omega
  · have := gT_lt g; omega

theorem CubeVec.le3 {n : Nat} {interp : List Nat} {cu : PCube} {idx : Nat} {g : Bool} {ni : List Nat}
    (h : CubeVec n interp cu idx g ni) : Le3 (d3 interp) (d3 ni) := le3_of_const h.keep

theorem CubeVec.resT {n : Nat} {interp : List Nat} {cu : PCube} {idx : Nat} {g : Bool} {ni : List Nat}
    (h : CubeVec n interp cu idx g ni) {s : Store} {T : Asg → Prop} (hr : ResT s T interp) : ResT s T ni := by
  intro σ ht ha j t hj
  have hd : ∀ b, storeIsConst t = some b → eval s t σ = σ j := by
    intro b hb
    rw [eval_const hb]
    exact (ha j b (by rw [d3_get, hj]; simp [hb])).symm
  rcases h.new j t hj with e | ⟨e, _⟩ | ⟨e, _⟩ | ⟨_, e⟩
  · exact hr σ ht (ha.mono h.le3) j t e
  · exact hd false (by rw [e]; rfl)
  · exact hd true (by rw [e]; rfl)
  · exact hd g (by rw [e]; exact sic_gT g)

/-- assignments of the old region inside the cube with the goal value agree with the new vector -/
theorem CubeVec.agree {n : Nat} {interp : List Nat} {cu : PCube} {idx : Nat} {g : Bool} {ni : List Nat}
    (h : CubeVec n interp cu idx g ni) {σ : Asg} (ha : Agree σ (d3 interp)) (hc : InPC cu σ) (hg : σ idx = g) :
    Agree σ (d3 ni) := by
  intro j b hj
  rw [d3_get] at hj
  cases hn : ni[j]? with
  | none => rw [hn] at hj; cases hj
  | some t =>
    rw [hn] at hj
    simp only [Option.map_some, Option.some.injEq] at hj
    rcases h.new j t hn with e | ⟨e, m⟩ | ⟨e, m⟩ | ⟨e1, e2⟩
    · exact ha j b (by rw [d3_get, e]; simp [hj])
    · subst e; rw [sic_zero] at hj; cases hj; exact hc.1 j m
    · subst e; rw [sic_one] at hj; cases hj; exact hc.2 j m
    · subst e1; subst e2; rw [sic_gT] at hj; cases hj; exact hg

theorem cube_step_law {n : Nat} {ac : List Nat} {T : Asg → Prop} (useA : Bool) {s : Store} {c : CState}
    {idx a : Nat} {g : Bool} {cu : PCube}
    (hinv : CInv n ac T s c) (ha : c.1[idx]? = some a) (hna : isTV a = false)
    (hgv : (idx ∈ cu.1 → g = false) ∧ (idx ∈ cu.2 → g = true)) :
    SLe s ((countParams ac useA).cubeStep s c idx g cu).1 ∧
    (∀ c', ((countParams ac useA).cubeStep s c idx g cu).2 = some c' →
      CInv n ac T ((countParams ac useA).cubeStep s c idx g cu).1 c' ∧
      countSome (d3 c.1) < countSome (d3 c'.1) ∧
      (∀ σ, RegI n (d3 c'.1) σ → RegI n (d3 c.1) σ ∧ InPC cu σ ∧ σ idx = g) ∧
      (∀ σ, T σ → RegI n (d3 c.1) σ → InPC cu σ → σ idx = g → RegI n (d3 c'.1) σ)) ∧
    (((countParams ac useA).cubeStep s c idx g cu).2 = none →
      ∀ σ, T σ → RegI n (d3 c.1) σ → InPC cu σ → σ idx = g → False) := by
  obtain ⟨interp, wb⟩ := c
  simp only at ha
  cases happ : applyCube interp wb cu with
  | none =>
    simp only [countParams, happ]
    refine ⟨SLe.refl s, (fun c' h => by cases h), ?_⟩
    intro _ σ _ hr hc _
    exact applyCube_none hinv.len1 hinv.wb happ σ hr hc
  | some ni0 =>
    have cv := cubeVec_of (g := g) hinv.len1 ha hna hgv happ
    have hv := cv.allLt hinv.wf hinv.val
    have ⟨w1, e1, l1, v1, keep, cons, res1⟩ := prop_step hinv.wf hv (cv.resT hinv.res)
    have hwb : WB (applyVec s (ni0.set idx (if g then 1 else 0)) (ni0.set idx (if g then 1 else 0))).2 wb := by
      intro j t hj ht
      exact keep j t (cv.keep j t (hinv.wb j t hj ht) ht) ht
    simp only [countParams, happ, consistent_of_WB hwb, if_true]
    refine ⟨⟨e1, fun _ => w1⟩, ?_, fun h => by cases h⟩
    intro c' hc'
    cases hc'
    simp only
    have hle : Le3 (d3 interp) (d3 (applyVec s (ni0.set idx (if g then 1 else 0)) (ni0.set idx (if g then 1 else 0))).2) :=
      Le3.trans cv.le3 (le3_of_const keep)
    have hidx : (d3 (applyVec s (ni0.set idx (if g then 1 else 0)) (ni0.set idx (if g then 1 else 0))).2)[idx]? =
        some (some g) := by
      rw [d3_get, keep idx _ cv.atIdx (isTV_iff.mpr ⟨g, sic_gT g⟩)]; simp [sic_gT]
    refine ⟨⟨w1, by rw [l1, cv.len], hinv.len2, hinv.lenac, v1, hinv.valac.mono e1, res1, hwb⟩, ?_, ?_, ?_⟩
    · apply countSome_lt (by rw [d3_length, d3_length, l1, cv.len, hinv.len1]) hle (i := idx) (b := g)
      · rw [d3_get, ha]; simp [sic_none.mpr hna]
      · exact hidx
    · intro σ hr
      refine ⟨hr.mono hle, ⟨?_, ?_⟩, hr.1 idx g hidx⟩
      · intro j hj
        rcases Nat.lt_or_ge j n with hjn | hjn
        · exact hr.1 j false (by rw [d3_get, keep j 0 (cv.neg j hj hjn) rfl]; rfl)
        · exact hr.2 j hjn
      · intro j hj
        exact hr.1 j true (by rw [d3_get, keep j 1 (cv.pos j hj) rfl]; rfl)
    · intro σ ht hr hc hg
      exact ⟨cons σ ht (cv.agree hr.1 hc hg), hr.2⟩

/-! ### the flip step -/

/-- `interpr.map(|t| restrict(t, idx, b))` on a residual vector, for the targets with `σ idx = b` -/
theorem restrict_step {T : Asg → Prop} {s : Store} {v : List Nat} (idx : Nat) (b : Bool)
    (w : WF s) (hv : AllLt s v) (hr : ResT s T v) :
    WF (mapRestrict s idx b v).1 ∧ Ext s (mapRestrict s idx b v).1 ∧ (mapRestrict s idx b v).2.length = v.length ∧
    AllLt (mapRestrict s idx b v).1 (mapRestrict s idx b v).2 ∧
    (∀ (j t : Nat), v[j]? = some t → isTV t = true → (mapRestrict s idx b v).2[j]? = some t) ∧
    (∀ (j t : Nat), v[j]? = some t → ∃ t', (mapRestrict s idx b v).2[j]? = some t' ∧
      ∀ σ, eval (mapRestrict s idx b v).1 t' σ = eval s t (upd σ idx b)) ∧
    (∀ σ, (T σ ∧ σ idx = b) → Agree σ (d3 v) → Agree σ (d3 (mapRestrict s idx b v).2)) ∧
    ResT (mapRestrict s idx b v).1 (fun σ => T σ ∧ σ idx = b) (mapRestrict s idx b v).2 := by
  rw [mapRestrict_eq]
  have ⟨w1, e1, l1, d1⟩ := mapS_spec (computes_restrictF idx b) v s w hv
  have back : ∀ (j t' : Nat), (mapS (fun s t => restrictF (t+1) s t idx b) s v).2[j]? = some t' →
      ∃ t, v[j]? = some t ∧ t' < (mapS (fun s t => restrictF (t+1) s t idx b) s v).1.nodes.size ∧
        ∀ σ, eval (mapS (fun s t => restrictF (t+1) s t idx b) s v).1 t' σ = eval s t (upd σ idx b) := by
    intro j t' hj
    have hjl : j < v.length := by rw [← l1]; exact get_lt hj
    obtain ⟨t'', h1, h2, h3⟩ := d1 j v[j] (List.getElem?_eq_getElem hjl)
    rw [h1] at hj; cases hj
    exact ⟨v[j], List.getElem?_eq_getElem hjl, h2, h3⟩
  have keep : ∀ (j t : Nat), v[j]? = some t → isTV t = true →
      (mapS (fun s t => restrictF (t+1) s t idx b) s v).2[j]? = some t := by
    intro j t hj ht
    obtain ⟨t', h1, h2, h3⟩ := d1 j t hj
    obtain ⟨c, hc⟩ := isTV_iff.mp ht
    have : storeIsConst t' = some c := const_of_eval w1 h2 (fun σ => by rw [h3, eval_const hc])
    rw [h1, sic_inj this hc]
  have cons : ∀ σ, (T σ ∧ σ idx = b) → Agree σ (d3 v) →
      Agree σ (d3 (mapS (fun s t => restrictF (t+1) s t idx b) s v).2) := by
    intro σ ht ha j c hj
    rw [d3_get] at hj
    cases hu : (mapS (fun s t => restrictF (t+1) s t idx b) s v).2[j]? with
    | none => rw [hu] at hj; cases hj
    | some t' =>
      rw [hu] at hj
      simp only [Option.map_some, Option.some.injEq] at hj
      obtain ⟨t, h1, _, h3⟩ := back j t' hu
      have := h3 σ
      rw [eval_const hj, upd_self ht.2, hr σ ht.1 ha j t h1] at this
      exact this.symm
  refine ⟨w1, e1, l1, ?_, keep, ?_, cons, ?_⟩
  · intro t' ht'
    obtain ⟨j, hj⟩ := List.mem_iff_getElem?.mp ht'
    obtain ⟨_, _, h2, _⟩ := back j t' hj
    exact h2
  · intro j t hj
    obtain ⟨t', h1, _, h3⟩ := d1 j t hj
    exact ⟨t', h1, h3⟩
  · intro σ ht ha j t' hj
    obtain ⟨t, h1, _, h3⟩ := back j t' hj
    have ha' : Agree σ (d3 v) := ha.mono (le3_of_const keep)
    rw [h3 σ, upd_self ht.2]
    exact hr σ ht.1 ha' j t h1

theorem other_lt (g : Bool) : (if g then 0 else 1 : Nat) < 2 := by cases g <;> simp
theorem sic_other (g : Bool) : storeIsConst (if g then 0 else 1) = some (!g) := by cases g <;> rfl

theorem flip_step_law {n : Nat} {ac : List Nat} {T : Asg → Prop} (useA : Bool) {s : Store} {c : CState}
    {idx a : Nat} {g : Bool}
    (hinv : CInv n ac T s c) (ha : c.1[idx]? = some a) (hna : isTV a = false) :
    SLe s ((countParams ac useA).flipStep s c idx g).1 ∧
    (∀ c', ((countParams ac useA).flipStep s c idx g).2 = some c' →
      CInv n ac T ((countParams ac useA).flipStep s c idx g).1 c' ∧
      countSome (d3 c.1) < countSome (d3 c'.1) ∧
      (∀ σ, RegI n (d3 c'.1) σ → RegI n (d3 c.1) σ ∧ σ idx = !g) ∧
      (∀ σ, T σ → RegI n (d3 c.1) σ → σ idx = (!g) → RegI n (d3 c'.1) σ)) ∧
    (((countParams ac useA).flipStep s c idx g).2 = none →
      ∀ σ, T σ → RegI n (d3 c.1) σ → σ idx = (!g) → False) := by
  obtain ⟨interp, wb⟩ := c
  simp only at ha
  have hidxn : idx < n := by rw [← hinv.len1]; exact get_lt ha
  have ⟨w1, e1, l1, v1, keep1, sem1, cons1, res1⟩ := restrict_step idx (!g) hinv.wf hinv.val hinv.res
  have ⟨w2, e2, l2, v2, keep2, cons2, res2⟩ := prop_step w1 v1 res1
  obtain ⟨nidx, hnidx, hsem⟩ := sem1 idx a ha
  have hgetD : (mapRestrict s idx (!g) interp).2.getD idx 0 = nidx := by
    rw [List.getD_eq_getElem?_getD, hnidx]; rfl
  simp only [countParams, hgetD]
  generalize mapRestrict s idx (!g) interp = ni at *
  generalize applyVec ni.1 ni.2 ni.2 = up at *
  have hsle : SLe s up.1 := ⟨Ext.trans e1 e2, fun _ => w2⟩
  -- the first test always succeeds
  have test1 : noInfIncons nidx (up.2.getD idx 0) = true := by
    simp only [noInfIncons, Bool.or_eq_true, Bool.not_eq_true']
    cases ht : isTV nidx with
    | false => exact Or.inr rfl
    | true =>
      left
      have : up.2.getD idx 0 = nidx := by rw [List.getD_eq_getElem?_getD, keep2 idx nidx hnidx ht]; rfl
      rw [this]; exact sameInfo_iff.mpr rfl
  rw [if_pos test1]
  by_cases test2 : noInfIncons nidx (if g then 0 else 1) = true
  · rw [if_pos test2]
    refine ⟨hsle, ?_, fun h => by cases h⟩
    intro c' hc'
    cases hc'
    simp only
    have hn2 : isTV nidx = true → nidx = (if g then 0 else 1) := by
      intro ht
      simp only [noInfIncons, Bool.or_eq_true, Bool.not_eq_true', ht] at test2
      rcases test2 with h | h
      · obtain ⟨b, hb⟩ := isTV_iff.mp ht
        have := sameInfo_iff.mp h
        rw [hb] at this
        exact sic_inj hb this.symm
      · cases h
    have hidxl : idx < up.2.length := by rw [l2, l1, hinv.len1]; exact hidxn
    have hself : (up.2.set idx (if g then 0 else 1))[idx]? = some (if g then 0 else 1) :=
      List.getElem?_set_self hidxl
    have hget : ∀ j, j ≠ idx → (up.2.set idx (if g then 0 else 1))[j]? = up.2[j]? :=
      fun j hj => List.getElem?_set_ne (Ne.symm hj)
    have keepAll : ∀ (j t : Nat), interp[j]? = some t → isTV t = true →
        (up.2.set idx (if g then 0 else 1))[j]? = some t := by
      intro j t hj ht
      have hji : j ≠ idx := by
        intro e; subst e; rw [ha] at hj; cases hj; rw [hna] at ht; cases ht
      rw [hget j hji]; exact keep2 j t (keep1 j t hj ht) ht
    have hle : Le3 (d3 interp) (d3 (up.2.set idx (if g then 0 else 1))) := le3_of_const keepAll
    have hidx : (d3 (up.2.set idx (if g then 0 else 1)))[idx]? = some (some (!g)) := by
      rw [d3_get, hself]; simp [sic_other]
    -- assignments of the new region
    have agr : ∀ σ, T σ → Agree σ (d3 interp) → σ idx = (!g) → Agree σ (d3 up.2) :=
      fun σ ht ha' hg => cons2 σ ⟨ht, hg⟩ (cons1 σ ⟨ht, hg⟩ ha')
    refine ⟨⟨w2, by rw [List.length_set, l2, l1, hinv.len1], by rw [List.length_set, hinv.len2], hinv.lenac,
      ?_, (hinv.valac.mono e1).mono e2, ?_, ?_⟩, ?_, ?_, ?_⟩
    · intro t ht
      rcases List.mem_or_eq_of_mem_set ht with h | h
      · exact v2 t h
      · have := w2.len; have := other_lt g; omega
    · intro σ ht ha' j t hj
      have hg : σ idx = (!g) := ha' idx (!g) hidx
      have hau := agr σ ht (ha'.mono hle) hg
      by_cases hji : j = idx
      · subst hji; rw [hself] at hj; cases hj
        rw [eval_const (sic_other g), hg]
      · rw [hget j hji] at hj
        exact res2 σ ⟨ht, hg⟩ hau j t hj
    · intro j t hj ht
      by_cases hji : j = idx
      · subst hji
        rw [List.getElem?_set_self (by rw [hinv.len2]; exact hidxn)] at hj
        cases hj
        rw [hself, hn2 ht]
      · rw [List.getElem?_set_ne (Ne.symm hji)] at hj
        exact keepAll j t (hinv.wb j t hj ht) ht
    · apply countSome_lt (by rw [d3_length, d3_length, List.length_set, l2, l1]) hle (i := idx) (b := !g)
      · rw [d3_get, ha]; simp [sic_none.mpr hna]
      · exact hidx
    · intro σ hr
      exact ⟨hr.mono hle, hr.1 idx (!g) hidx⟩
    · intro σ ht hr hg
      refine ⟨?_, hr.2⟩
      intro j b hj
      by_cases hji : j = idx
      · subst hji; rw [hidx] at hj; cases hj; exact hg
      · rw [d3_get, hget j hji, ← d3_get] at hj
        exact agr σ ht hr.1 hg j b hj
  · rw [if_neg test2]
    refine ⟨hsle, (fun c' h => by cases h), ?_⟩
    intro _ σ ht hr hg
    simp only [noInfIncons, Bool.or_eq_true, Bool.not_eq_true', not_or, Bool.not_eq_false] at test2
    obtain ⟨b, hb⟩ := isTV_iff.mp test2.2
    have hbg : b ≠ (!g) := by
      intro e
      apply test2.1
      rw [sameInfo_iff, hb, sic_other, e]
    have h1 := hsem σ
    rw [eval_const hb, upd_self hg, hinv.res σ ht hr.1 idx a ha, hg] at h1
    exact hbg h1

/-! ### the leaf -/

/-- at a leaf every position is decided (`will_be` constant ⇒ vector constant) -/
theorem leaf_allTV {n : Nat} {ac : List Nat} {T : Asg → Prop} {useA : Bool} {s : Store} {c : CState}
    (hinv : CInv n ac T s c) (hp : (countParams ac useA).pick s c = none) :
    ∀ (j t : Nat), c.1[j]? = some t → isTV t = true := by
  intro j t hj
  rcases pick_none hp j t hj with h | h
  · exact h
  · have hjl : j < c.2.length := by rw [hinv.len2, ← hinv.len1]; exact get_lt hj
    have hw : c.2[j]? = some c.2[j] := List.getElem?_eq_getElem hjl
    have hg : c.2.getD j 2 = c.2[j] := by rw [List.getD_eq_getElem?_getD, hw]; rfl
    rw [hg] at h
    have := hinv.wb j _ hw h
    rw [hj] at this
    rw [Option.some.inj this]; exact h

theorem leaf_eq {n : Nat} {ac : List Nat} {T : Asg → Prop} {useA : Bool} {s : Store} {c : CState}
    (hinv : CInv n ac T s c) (hp : (countParams ac useA).pick s c = none) :
    (countParams ac useA).leaf s c = ((applyVec s c.1 ac).1, [c.1]) := by
  have htv := leaf_allTV hinv hp
  have hconc : c.1.zipIdx.map (fun (x : Nat × Nat) => if !isTV x.1 then c.2.getD x.2 2 else x.1) = c.1 := by
    apply List.ext_getElem?
    intro j
    rw [List.getElem?_map, List.getElem?_zipIdx]
    cases hj : c.1[j]? with
    | none => rfl
    | some t => simp [htv j t hj]
  have ⟨_, _, l1, _⟩ := mapS_spec (computes_restrictBy c.1) ac s hinv.wf hinv.valac
  rw [← applyVec_eq] at l1
  simp only [countParams]
  rw [hconc]
  by_cases hc : consistentWith (applyVec s c.1 ac).2 c.1 = true
  · rw [if_pos hc]
    congr 2
    apply List.ext_getElem?
    intro j
    rcases Nat.lt_or_ge j n with hjn | hjn
    · obtain ⟨x, hx⟩ : ∃ x, (applyVec s c.1 ac).2[j]? = some x :=
        ⟨_, List.getElem?_eq_getElem (by rw [l1, hinv.lenac]; exact hjn)⟩
      obtain ⟨y, hy⟩ : ∃ y, c.1[j]? = some y := ⟨_, List.getElem?_eq_getElem (by rw [hinv.len1]; exact hjn)⟩
      have hty := htv j _ hy
      have := all_zip_get (p := fun (x : Nat × Nat) => noInfIncons x.2 x.1) hc hx hy
      simp only [noInfIncons, hty, Bool.not_true, Bool.or_false] at this
      obtain ⟨b, hb⟩ := isTV_iff.mp hty
      have e := sameInfo_iff.mp this
      rw [hb] at e
      rw [hx, hy, sic_inj e.symm hb]
    · rw [List.getElem?_eq_none (by rw [l1, hinv.lenac]; exact hjn),
        List.getElem?_eq_none (by rw [hinv.len1]; exact hjn)]
  · rw [if_neg hc]

theorem leaf_law {n : Nat} {ac : List Nat} {T : Asg → Prop} (useA : Bool) {s : Store} {c : CState}
    (hinv : CInv n ac T s c) (hp : (countParams ac useA).pick s c = none) :
    GK.Spec T (view n ac T) s c ((countParams ac useA).leaf s c) := by
  rw [leaf_eq hinv hp]
  have ⟨w1, e1, _, _⟩ := mapS_spec (computes_restrictBy c.1) ac s hinv.wf hinv.valac
  rw [← applyVec_eq] at w1 e1
  refine ⟨⟨e1, fun _ => w1⟩, ?_, ?_, List.pairwise_singleton _ _, ?_⟩
  · intro σ _ hr; exact ⟨c.1, List.mem_singleton.mpr rfl, hr⟩
  · intro o ho σ hr; rw [List.mem_singleton.mp ho] at hr; exact hr
  · intro o ho
    rw [List.mem_singleton.mp ho]
    refine ⟨hinv.len1, ?_⟩
    intro t ht
    obtain ⟨j, hj⟩ := List.mem_iff_getElem?.mp ht
    exact leaf_allTV hinv hp j t hj

/-! ### the laws -/

theorem getD_of_get {l : List Nat} {i a d : Nat} (h : l[i]? = some a) : l.getD i d = a := by
  rw [List.getD_eq_getElem?_getD, h]; rfl

theorem cubes_eq {ac : List Nat} {useA : Bool} {s : Store} {c : CState} {idx a : Nat} (g : Bool)
    (ha : c.1[idx]? = some a) : (countParams ac useA).cubes s c idx g = cubesF s (a+1) a g idx [] [] := by
  simp only [countParams, cubesOf, getD_of_get ha, Bool.false_eq_true, if_false]

/-- the concrete steps of `two_val_model_counts_logic` satisfy the laws of the generic machine, for
every target set `T` (the invariant says that the vector is residual w.r.t. `T`) and both heuristics -/
theorem csound (n : Nat) (ac : List Nat) (T : Asg → Prop) (useA : Bool) :
    GK.CSound T (countParams ac useA) (view n ac T) where
  le_refl := SLe.refl
  le_trans := fun _ _ _ => SLe.trans
  inv_mono := fun _ _ _ h l => CInv.mono h l
  bound := by
    intro s c hinv hp
    cases h : (countParams ac useA).pick s c with
    | none => exact absurd h hp
    | some idx =>
      obtain ⟨a, ha, hna, _⟩ := pick_some h
      have : countSome (d3 c.1) < (d3 c.1).length :=
        countSome_lt_length (i := idx) (by rw [d3_get, ha]; simp [sic_none.mpr hna])
      rw [d3_length, hinv.len1] at this
      exact this
  leaf_law := fun _ _ hinv hp => leaf_law useA hinv hp
  cube_cover := by
    intro s c idx hinv hp σ ht hr hg
    obtain ⟨a, ha, hna, _⟩ := pick_some hp
    have hva : a < s.nodes.size := hinv.val a (List.mem_of_getElem? ha)
    have h2 : 2 ≤ a := by unfold isTV at hna; simpa using hna
    have hev : eval s a σ = (countParams ac useA).goal s c idx := by
      rw [hinv.res σ ht hr.1 idx a ha]; exact hg
    have := cubes_cover s hinv.wf (a+1) a _ idx [] [] σ hva (Nat.lt_succ_self _) h2
      ⟨by simp, by simp⟩ hg hev
    rw [cubes_eq _ ha]; exact this
  cube_disj := by
    intro s c idx hinv hp
    obtain ⟨a, ha, hna, _⟩ := pick_some hp
    have hva : a < s.nodes.size := hinv.val a (List.mem_of_getElem? ha)
    have := cubes_disjoint s hinv.wf (a+1) a ((countParams ac useA).goal s c idx) idx [] [] hva (Nat.lt_succ_self _)
    rw [cubes_eq _ ha]; exact this
  cube_step := by
    intro s0 s c idx cu hinv hp hle hmem
    obtain ⟨a, ha, hna, _⟩ := pick_some hp
    have hmem' : cu ∈ cubesF s0 (a+1) a ((countParams ac useA).goal s0 c idx) idx [] [] := by
      rw [cubes_eq _ ha] at hmem; exact hmem
    have hgv := cubes_gv s0 _ _ _ _ _ _ cu hmem'
    have hgv' : (idx ∈ cu.1 → (countParams ac useA).goal s0 c idx = false) ∧
        (idx ∈ cu.2 → (countParams ac useA).goal s0 c idx = true) :=
      ⟨fun h => (hgv.1 h).resolve_left (by simp), fun h => (hgv.2 h).resolve_left (by simp)⟩
    exact cube_step_law useA (CInv.mono hinv hle) ha hna hgv'
  flip_step := by
    intro s0 s c idx hinv hp hle
    obtain ⟨a, ha, hna, _⟩ := pick_some hp
    exact flip_step_law useA (CInv.mono hinv hle) ha hna

/-- the search of the code on a state satisfying the invariant: `n + 1` levels suffice -/
theorem countLogic_spec {n : Nat} {ac : List Nat} {T : Asg → Prop} (useA : Bool) {s : Store} {interp wb : List Nat}
    (hinv : CInv n ac T s (interp, wb)) :
    GK.Spec T (view n ac T) s (interp, wb) (countLogic ac useA (n + 1) s interp wb) :=
  GK.search_spec (csound n ac T useA) (n + 1) s (interp, wb) hinv (by show n - _ < n + 1; omega)

end CI
#print axioms CI.csound
#print axioms CI.countLogic_spec
