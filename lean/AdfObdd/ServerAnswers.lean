import AdfObdd.ServerAdf
import AdfObdd.CliFaithful
/-! # C16 — the answers the web service stores are the definitional ones

The solve task of the service (`ServerAdf.solveAdf`) rebuilds the ADF from the stored
`SimplifiedAdf` (node list replayed through `Bdd::node`: `rebuild`; ordering; `ac` handles) and runs
one of six strategies on it. This file composes

* the storage round trip: replaying ANY well-formed node table (`TableWF`, what the run-time
  `wfCheck` establishes) gives a well-formed store with exactly that table (`rebuild_table`; the
  argument of `rebuild_id`, which is stated for tables that come out of a model store);
* naive parsing: `ServerAdf.fromParser` (all variables, then every `ac` fact in file order, a later
  fact for the same statement overwriting an earlier one, falsum without a fact) yields a well-formed
  store whose handles denote `ServerAdf.conditions` (`fromParser_correct`, `parseNaive_denotes`);
* C01–C05 in the form of `CliF.section_exact` (every section, from any well-formed store, emits a
  permutation of the specification's answer) and `SpecSound` (specification = `Prop`-level
  definitions).

The six strategies are the CLI sections `grd, com, stm, stmca, stmcb, stmng` (`secOf`); `solveAdfF fuel`
is the solve task written with `CliF.runSectionF`, i.e. with the fuel-based model `SM.ngSearch .simple
fuel` of `stable_nogood(Simple)`. `ServerAdf.solveAdf`, the model the driver runs, uses the same
search with the fixed bound 10^6, so `solveAdf = solveAdfF 1000000` for ALL six strategies (by `rfl`
per strategy: `C16.solve_model_is_bound_instance`) and `solveAdfF fuel = solveAdf` for every `fuel` on
the five strategies that run no nogood search (`solveAdfF_eq`). `stored_answers_exact*` are about
`solveAdfF` (all six; `StableNogood` under the hypothesis "the search halted within the bound", as in
C15, discharged for every large bound); `solveAdf_answers_exact_no_search` is the bound-free statement
about `solveAdf` itself for the five strategies without search (complete as it stands: the sixth
strategy is `C16.stored_answers_exact_driver_model`). -/
namespace SrvA
open ServerM ServerAdf

/-! ### the storage round trip on an arbitrary well-formed table -/

section rebuild
variable (orig : Store) (w : TableWF orig.nodes)
include w

theorem prefix_step (k : Nat) (hk2 : 2 ≤ k) (hk : k < orig.nodes.size) (s : Store) (p : Prefix orig k s) :
    Prefix orig (k+1) (mkNode s orig.nodes[k].var orig.nodes[k].lo orig.nodes[k].hi).1 := by
  have hget : orig.nodes[k]? = some orig.nodes[k] := Array.getElem?_eq_getElem hk
  have ⟨_, hlo, hhi, hne, _, _⟩ := w.inner k _ hk2 hget
  have hsz : s.nodes.size = k := p.size
  have hfresh : s.uniq[(⟨orig.nodes[k].var, orig.nodes[k].lo, orig.nodes[k].hi⟩ : Node)]? = none := by
    cases hu : s.uniq[(⟨orig.nodes[k].var, orig.nodes[k].lo, orig.nodes[k].hi⟩ : Node)]? with
    | none => rfl
    | some t =>
      have ⟨ht2, htk, hgt⟩ := (p.uniq _ t).mp hu
      have : t = k := w.nodup t k _ ht2 hk2 hgt hget
      omega
  rw [mkNode_fresh_push s _ _ _ hne hfresh]
  constructor
  · simp [hsz]
  · intro i hi
    simp only [Array.getElem?_push, hsz]
    by_cases hik : i = k
    · subst hik; rw [if_pos rfl, hget]
    · rw [if_neg hik]; exact p.nodes i (by omega)
  · intro n t
    simp only [Std.HashMap.getElem?_insert, hsz]
    by_cases hkn : (⟨orig.nodes[k].var, orig.nodes[k].lo, orig.nodes[k].hi⟩ : Node) = n
    · subst hkn
      simp only [beq_self_eq_true, if_true, Option.some.injEq]
      constructor
      · intro h; subst h; exact ⟨hk2, by omega, hget⟩
      · intro ⟨ht2, _, hgt⟩
        exact (w.nodup t k _ ht2 hk2 hgt hget).symm
    · have : ((⟨orig.nodes[k].var, orig.nodes[k].lo, orig.nodes[k].hi⟩ : Node) == n) = false := by simpa using hkn
      simp only [this, Bool.false_eq_true, if_false]
      rw [p.uniq n t]
      constructor
      · intro ⟨a, b, c⟩; exact ⟨a, by omega, c⟩
      · intro ⟨a, b, c⟩
        refine ⟨a, ?_, c⟩
        rcases Nat.lt_or_ge t k with h | h
        · exact h
        · have : t = k := by omega
          subst this
          rw [hget] at c; cases c
          exact absurd rfl hkn

theorem rebuild_from : ∀ (m k : Nat) (s : Store), 2 ≤ k → k + m = orig.nodes.size →
    Prefix orig k s → Prefix orig orig.nodes.size (rebuildL (orig.nodes.toList.drop k) s) := by
  intro m
  induction m with
  | zero =>
    intro k s _ hkm p
    have : k = orig.nodes.size := by omega
    subst this
    have hd : orig.nodes.toList.drop orig.nodes.size = [] := by
      apply List.drop_eq_nil_of_le; simp
    rw [hd]; exact p
  | succ m ih =>
    intro k s hk2 hkm p
    have hk : k < orig.nodes.size := by omega
    have hdrop : orig.nodes.toList.drop k = orig.nodes[k] :: orig.nodes.toList.drop (k+1) := by
      rw [List.drop_eq_getElem_cons (by simpa using hk)]; simp
    rw [hdrop]
    simp only [rebuildL, List.foldl_cons]
    exact ih (k+1) _ (by omega) (by omega) (prefix_step orig w k hk2 hk s p)

theorem init_after_two : Prefix orig 2 (rebuildL (orig.nodes.toList.take 2) Store.init) := by
  have hl := w.len
  have h0 : orig.nodes[0]? = some ⟨VBOT, 0, 0⟩ := w.bot
  have h1 : orig.nodes[1]? = some ⟨VTOP, 1, 1⟩ := w.top
  have e0 : orig.nodes[0]'(by omega) = ⟨VBOT, 0, 0⟩ := by
    have := Array.getElem?_eq_getElem (xs := orig.nodes) (i := 0) (by omega); rw [this] at h0; simpa using h0
  have e1 : orig.nodes[1]'(by omega) = ⟨VTOP, 1, 1⟩ := by
    have := Array.getElem?_eq_getElem (xs := orig.nodes) (i := 1) (by omega); rw [this] at h1; simpa using h1
  have ht : orig.nodes.toList.take 2 = [⟨VBOT, 0, 0⟩, ⟨VTOP, 1, 1⟩] := by
    apply List.ext_getElem
    · simp; omega
    · intro i hi1 hi2
      have : i < 2 := by simp at hi2; omega
      rcases Nat.lt_or_ge i 1 with h | h
      · have : i = 0 := by omega
        subst this; simp [e0]
      · have : i = 1 := by omega
        subst this; simp [e1]
  rw [ht]
  have : rebuildL [⟨VBOT, 0, 0⟩, ⟨VTOP, 1, 1⟩] Store.init = Store.init := by
    simp [rebuildL, mkNode]
  rw [this]
  constructor
  · rfl
  · intro i hi
    rcases Nat.lt_or_ge i 1 with h | h
    · have : i = 0 := by omega
      subst this; rw [h0]; rfl
    · have : i = 1 := by omega
      subst this; rw [h1]; rfl
  · intro n t
    constructor
    · intro h; simp [Store.init] at h
    · intro ⟨a, b, _⟩; omega

theorem rebuild_prefix : Prefix orig orig.nodes.size (rebuild orig.nodes) := by
  have hsplit : orig.nodes.toList = orig.nodes.toList.take 2 ++ orig.nodes.toList.drop 2 := by simp
  have hfold : rebuild orig.nodes = rebuildL (orig.nodes.toList.drop 2) (rebuildL (orig.nodes.toList.take 2) Store.init) := by
    unfold rebuild
    have happ : ∀ (l1 l2 : List Node) (s : Store), rebuildL (l1 ++ l2) s = rebuildL l2 (rebuildL l1 s) := by
      intro l1 l2 s; unfold rebuildL; rw [List.foldl_append]
    conv => lhs; rw [hsplit]
    exact happ _ _ _
  have p := rebuild_from orig w (orig.nodes.size - 2) 2 _ (Nat.le_refl _) (by have := w.len; omega)
    (init_after_two orig w)
  rw [← hfold] at p
  exact p

end rebuild

theorem rebuildL_memo : ∀ (l : List Node) (s : Store), (rebuildL l s).resC = s.resC ∧ (rebuildL l s).iteC = s.iteC := by
  intro l
  induction l with
  | nil => intro s; exact ⟨rfl, rfl⟩
  | cons n l ih =>
    intro s
    have h1 : (mkNode s n.var n.lo n.hi).1.resC = s.resC ∧ (mkNode s n.var n.lo n.hi).1.iteC = s.iteC := by
      unfold mkNode
      by_cases h : n.lo = n.hi
      · rw [if_pos h]; exact ⟨rfl, rfl⟩
      · rw [if_neg h]
        cases s.uniq[(⟨n.var, n.lo, n.hi⟩ : Node)]? <;> exact ⟨rfl, rfl⟩
    have := ih (mkNode s n.var n.lo n.hi).1
    simp only [rebuildL, List.foldl_cons] at this ⊢
    exact ⟨this.1.trans h1.1, this.2.trans h1.2⟩

/-- **storage round trip, any stored table**: replaying a well-formed node table through `Bdd::node`
(`Bdd::from(Vec<BddNode>)`) gives a well-formed store with exactly that table (same numbering) -/
theorem rebuild_table (ns : Array Node) (w : TableWF ns) : WF (rebuild ns) ∧ (rebuild ns).nodes = ns := by
  have p := rebuild_prefix ⟨ns, {}, {}, {}⟩ w
  have hn : (rebuild ns).nodes = ns := by
    apply Array.ext
    · exact p.size
    · intro i h1 h2
      have := p.nodes i h2
      rw [Array.getElem?_eq_getElem h1, Array.getElem?_eq_getElem h2] at this
      simpa using this
  have hmemo := rebuildL_memo ns.toList Store.init
  refine ⟨⟨by rw [hn]; exact w.len, by rw [hn]; exact w.bot, by rw [hn]; exact w.top, ?_, ?_, ?_, ?_⟩, hn⟩
  · intro i n h2 hg; rw [hn] at hg ⊢; exact w.inner i n h2 hg
  · intro n t
    rw [p.uniq n t, hn]
    constructor
    · intro ⟨a, _, c⟩; exact ⟨a, c⟩
    · intro ⟨a, c⟩; exact ⟨a, lt_of_get c, c⟩
  · intro t v b r h
    have e : (rebuild ns).resC = Store.init.resC := hmemo.1
    rw [e] at h; simp [Store.init] at h
  · intro i t e r h
    have e' : (rebuild ns).iteC = Store.init.iteC := hmemo.2
    rw [e'] at h; simp [Store.init] at h

/-- the value of a diagram depends on the node table only -/
theorem eval_nodes {s s' : Store} (h : s.nodes = s'.nodes) (t : Nat) (σ : Asg) : eval s t σ = eval s' t σ := by
  unfold eval; rw [h]

/-! ### naive parsing: `Adf::from_parser` as the service's parse task runs it -/

/-- the condition that counts for statement `i`: the last `ac` fact for it, falsum without one -/
def lastOf (l : List (Nat × Fm)) (i : Nat) : Fm :=
  match (l.filter (fun x => x.1 == i)).getLast? with
  | some x => x.2
  | none => Fm.bot

/-- the conditions of the `n` statements (the list `ServerAdf.conditions` computes) -/
def condsOf (n : Nat) (l : List (Nat × Fm)) : List Fm := (List.range n).map (lastOf l)

theorem lastOf_snoc_self (l : List (Nat × Fm)) (x : Nat × Fm) : lastOf (l ++ [x]) x.1 = x.2 := by
  simp [lastOf, List.filter_append]

theorem lastOf_snoc_ne (l : List (Nat × Fm)) (x : Nat × Fm) (i : Nat) (h : x.1 ≠ i) :
    lastOf (l ++ [x]) i = lastOf l i := by
  simp [lastOf, List.filter_append, h]

/-- invariant of the loop over the `ac` facts -/
structure FPInv (n : Nat) (done : List (Nat × Fm)) (s : Store) (acc : List Nat) : Prop where
  wf : WF s
  len : acc.length = n
  ok : ∀ (i t : Nat), acc[i]? = some t → t < s.nodes.size ∧ ∀ σ, eval s t σ = (lastOf done i).sem σ

theorem fromParser_loop (n : Nat) : ∀ (l done : List (Nat × Fm)) (s : Store) (acc : List Nat),
    FPInv n done s acc → (∀ x ∈ l, x.2.atomsOK) →
    FPInv n (done ++ l)
      (l.foldl (fun (acc : Store × List Nat) x => ((compile acc.1 x.2).1, acc.2.set x.1 (compile acc.1 x.2).2)) (s, acc)).1
      (l.foldl (fun (acc : Store × List Nat) x => ((compile acc.1 x.2).1, acc.2.set x.1 (compile acc.1 x.2).2)) (s, acc)).2 := by
  intro l
  induction l with
  | nil => intro done s acc h _; simpa using h
  | cons x xs ih =>
    intro done s acc h hok
    have g := compile_correct x.2 s h.wf (hok x (List.mem_cons_self ..))
    have h' : FPInv n (done ++ [x]) (compile s x.2).1 (acc.set x.1 (compile s x.2).2) := by
      refine ⟨g.wf, by rw [List.length_set]; exact h.len, ?_⟩
      intro i t ht
      by_cases hi : x.1 = i
      · subst hi
        rw [List.getElem?_set_self' ] at ht
        cases hlt : decide (x.1 < acc.length) with
        | false =>
          have : ¬ x.1 < acc.length := by simpa using hlt
          simp [this] at ht
        | true =>
          have : x.1 < acc.length := by simpa using hlt
          simp [this] at ht
          subst ht
          rw [lastOf_snoc_self]
          exact ⟨g.lt, g.ev⟩
      · rw [List.getElem?_set_ne hi] at ht
        have ⟨a, b⟩ := h.ok i t ht
        rw [lastOf_snoc_ne _ _ _ hi]
        exact ⟨Nat.lt_of_lt_of_le a g.ext.1, fun σ => by rw [eval_ext h.wf g.ext _ σ a]; exact b σ⟩
    have := ih (done ++ [x]) _ _ h' (fun y hy => hok y (List.mem_cons_of_mem _ hy))
    simpa [List.foldl_cons, List.append_assoc] using this

/-- **`from_parser` as the parse task runs it** (C09 for the service's variant: facts in file order,
later facts overwrite, falsum without a fact): a well-formed store, one valid handle per statement,
and handle `i` denotes the condition that counts for statement `i` -/
theorem fromParser_correct (n : Nat) (l : List (Nat × Fm)) (hn : n ≤ VBOT) (hok : ∀ x ∈ l, x.2.atomsOK) :
    WF (fromParser n l).1 ∧ (fromParser n l).2.length = n ∧
    ∀ (i t : Nat) (f : Fm), (fromParser n l).2[i]? = some t → (condsOf n l)[i]? = some f →
      t < (fromParser n l).1.nodes.size ∧ ∀ σ, eval (fromParser n l).1 t σ = f.sem σ := by
  have ⟨w0, _⟩ := buildVars_wf (List.range n) Store.init WF_init' (by
    intro v hv; simp at hv; omega)
  have h0 : FPInv n [] (buildVars n Store.init) (List.replicate n 0) := by
    refine ⟨w0, by simp, ?_⟩
    intro i t ht
    rw [List.getElem?_replicate] at ht
    split at ht
    · cases ht
      exact ⟨zero_lt _ w0, fun σ => by rw [eval_zero]; rfl⟩
    · cases ht
  have h := fromParser_loop n l [] _ _ h0 hok
  rw [List.nil_append] at h
  refine ⟨h.wf, h.len, ?_⟩
  intro i t f ht hf
  have hi : i < n := by
    have := (List.getElem?_eq_some_iff.mp ht).1
    have hl : (fromParser n l).2.length = n := h.len
    omega
  simp only [condsOf, List.getElem?_map, List.getElem?_range hi, Option.map_some, Option.some.injEq] at hf
  subst hf
  exact h.ok i t ht

/-! ### from the submitted text: what `resolve` guarantees -/

theorem indexOf_lt (x : String) : ∀ (names : List String) (i : Nat), indexOf x names = some i → i < names.length := by
  intro names
  induction names with
  | nil => intro i h; cases h
  | cons y ys ih =>
    intro i h
    unfold indexOf at h
    by_cases hxy : (x == y) = true
    · rw [if_pos hxy] at h; cases h; simp
    · rw [if_neg hxy] at h
      cases hj : indexOf x ys with
      | none => rw [hj] at h; cases h
      | some j =>
        rw [hj] at h
        simp only [Option.map_some, Option.some.injEq] at h
        subst h
        have := ih j hj
        simp; omega

/-- every atom of a resolved condition is a declared statement -/
theorem toFm_atomsLt (names : List String) : ∀ (f : ParserM.Fml) (φ : Fm), toFm names f = some φ →
    NConc.atomsLt names.length φ := by
  intro f
  induction f with
  | top => intro φ h; cases h; trivial
  | bot => intro φ h; cases h; trivial
  | atom l =>
    intro φ h
    unfold toFm at h
    cases hi : indexOf (String.ofList l) names with
    | none => rw [hi] at h; cases h
    | some i =>
      rw [hi] at h
      simp only [Option.map_some, Option.some.injEq] at h
      subst h
      exact indexOf_lt _ names i hi
  | not f ih =>
    intro φ h
    unfold toFm at h
    cases hf : toFm names f with
    | none => rw [hf] at h; cases h
    | some ψ =>
      rw [hf] at h
      simp only [Option.map_some, Option.some.injEq] at h
      subst h
      exact ih ψ hf
  | and a b iha ihb =>
    intro φ h
    unfold toFm at h
    cases ha : toFm names a with
    | none => rw [ha] at h; cases h
    | some ψa =>
      cases hb : toFm names b with
      | none => rw [ha, hb] at h; cases h
      | some ψb =>
        rw [ha, hb] at h
        cases h
        exact ⟨iha ψa ha, ihb ψb hb⟩
  | or a b iha ihb =>
    intro φ h
    unfold toFm at h
    cases ha : toFm names a with
    | none => rw [ha] at h; cases h
    | some ψa =>
      cases hb : toFm names b with
      | none => rw [ha, hb] at h; cases h
      | some ψb =>
        rw [ha, hb] at h
        cases h
        exact ⟨iha ψa ha, ihb ψb hb⟩
  | imp a b iha ihb =>
    intro φ h
    unfold toFm at h
    cases ha : toFm names a with
    | none => rw [ha] at h; cases h
    | some ψa =>
      cases hb : toFm names b with
      | none => rw [ha, hb] at h; cases h
      | some ψb =>
        rw [ha, hb] at h
        cases h
        exact ⟨iha ψa ha, ihb ψb hb⟩
  | xor a b iha ihb =>
    intro φ h
    unfold toFm at h
    cases ha : toFm names a with
    | none => rw [ha] at h; cases h
    | some ψa =>
      cases hb : toFm names b with
      | none => rw [ha, hb] at h; cases h
      | some ψb =>
        rw [ha, hb] at h
        cases h
        exact ⟨iha ψa ha, ihb ψb hb⟩
  | iff a b iha ihb =>
    intro φ h
    unfold toFm at h
    cases ha : toFm names a with
    | none => rw [ha] at h; cases h
    | some ψa =>
      cases hb : toFm names b with
      | none => rw [ha, hb] at h; cases h
      | some ψb =>
        rw [ha, hb] at h
        cases h
        exact ⟨iha ψa ha, ihb ψb hb⟩

theorem mapM_option_mem {α β : Type} (f : α → Option β) : ∀ (l : List α) (l' : List β), l.mapM f = some l' →
    ∀ y ∈ l', ∃ x ∈ l, f x = some y := by
  intro l
  induction l with
  | nil => intro l' h y hy; simp at h; subst h; cases hy
  | cons a l ih =>
    intro l' h y hy
    rw [List.mapM_cons] at h
    cases hfa : f a with
    | none => rw [hfa] at h; cases h
    | some b =>
      cases hr : l.mapM f with
      | none => rw [hfa, hr] at h; cases h
      | some bs =>
        rw [hfa, hr] at h
        cases h
        rcases List.mem_cons.mp hy with rfl | hy'
        · exact ⟨a, List.mem_cons_self .., hfa⟩
        · obtain ⟨x, hx, hfx⟩ := ih bs hr y hy'
          exact ⟨x, List.mem_cons_of_mem _ hx, hfx⟩

theorem resolve_atomsLt (p : Parsed) (l : List (Nat × Fm)) (h : resolve p = .ok l) :
    ∀ x ∈ l, NConc.atomsLt p.names.length x.2 := by
  unfold resolve at h
  intro x hx
  cases hm : p.acs.mapM (fun (x : String × ParserM.Fml) => do
      let i ← indexOf x.1 p.names
      let f ← toFm p.names x.2
      pure (i, f)) with
  | none => rw [hm] at h; cases h
  | some l0 =>
    rw [hm] at h
    cases h
    obtain ⟨y, _, hy⟩ := mapM_option_mem _ _ _ hm x hx
    cases hi : indexOf y.1 p.names with
    | none => simp [hi] at hy
    | some i =>
      cases hf : toFm p.names y.2 with
      | none => simp [hi, hf] at hy
      | some φ =>
        simp [hi, hf] at hy
        subst hy
        exact toFm_atomsLt p.names y.2 φ hf

theorem condsOf_atomsLt (n : Nat) (l : List (Nat × Fm)) (h : ∀ x ∈ l, NConc.atomsLt n x.2) :
    ∀ φ ∈ condsOf n l, NConc.atomsLt n φ := by
  intro φ hφ
  obtain ⟨i, _, rfl⟩ := List.mem_map.mp hφ
  unfold lastOf
  cases hg : (l.filter (fun x => x.1 == i)).getLast? with
  | none => trivial
  | some x =>
    have : x ∈ l.filter (fun x => x.1 == i) := List.mem_of_getLast? hg
    exact h x (List.mem_filter.mp this).1

/-- **the parse task, naive parsing**: a successful parse stores the table and handles of
`fromParser`, and `ServerAdf.conditions` (what the run-time monitors judge against) gives the names
and the conditions `condsOf`, every atom a declared statement -/
theorem parseNaive_ok_iff (key code : String) (a : SAdf) (r : SRes) (h : parseNaive key code = .ok (a, r)) :
    ∃ l : List (Nat × Fm),
      a.nodes = (fromParser a.names.length l).1.nodes ∧ a.ac = (fromParser a.names.length l).2 ∧
      conditions code = .ok (a.names, condsOf a.names.length l) ∧
      (∀ x ∈ l, NConc.atomsLt a.names.length x.2) := by
  unfold parseNaive at h
  cases hp : parseText code with
  | none => rw [hp] at h; cases h
  | some p =>
    rw [hp] at h
    simp only at h
    cases hr : resolve p with
    | error e => rw [hr] at h; cases h
    | ok l =>
      rw [hr] at h
      simp only [Except.ok.injEq, Prod.mk.injEq] at h
      obtain ⟨ha, _⟩ := h
      subst ha
      refine ⟨l, rfl, rfl, ?_, resolve_atomsLt p l hr⟩
      unfold conditions
      rw [hp]
      simp only [hr]
      rfl

/-! ### the solve task -/

/-- the CLI section a strategy is -/
def secOf : Strategy → Cli.Section
  | .ground => .grd | .complete => .com | .stable => .stm
  | .stableCountingA => .stmca | .stableCountingB => .stmcb | .stableNogood => .stmng

/-- `ServerAdf.solveAdf` with the fuel-based model of the nogood-learning search (`SM.ngSearch .simple
fuel`, the loop C05 is about) in the `StableNogood` arm: rebuild the stored table, run the section,
attach the graphs -/
def solveAdfF (fuel : Nat) (a : SAdf) (s : Strategy) : Except Err SRes :=
  let r := CliF.runSectionF fuel .simple (secOf s) (rebuild a.nodes) a.ac.length a.ac
  .ok (r.2.map (fun ac => ⟨ac, graphOf a.names r.1.nodes ac⟩))

/-- for the five strategies that run no nogood search it IS the model the driver runs -/
theorem solveAdfF_eq (fuel : Nat) (a : SAdf) (s : Strategy) (h : s ≠ .stableNogood) :
    solveAdfF fuel a s = solveAdf a s := by
  cases s with
  | stableNogood => exact absurd rfl h
  | _ => rfl

/-- the stored vectors (`AcAndGraph.ac`) read as three-valued interpretations -/
def storedI3 (res : SRes) : List I3 := res.map (fun x => x.ac.map storeIsConst)

/-- did the strategy's search (if it runs one) halt within the bound? -/
def strategyHalts (fuel : Nat) (a : SAdf) (s : Strategy) : Bool :=
  CliF.sectionHaltsF fuel .simple (secOf s) (rebuild a.nodes) a.ac.length a.ac

theorem strategyHalts_of_ne (fuel : Nat) (a : SAdf) (s : Strategy) (h : s ≠ .stableNogood) :
    strategyHalts fuel a s = true := by
  cases s with
  | stableNogood => exact absurd rfl h
  | _ => rfl

/-- the stored ADF denotes the conditions `fms` of `n` statements: a well-formed table, one handle per
statement, each valid and with the function of its condition. For naive parsing this is
`stored_naive_denotes`; for hybrid parsing the stored table is the one adopted from biodivine's dump
and this is exactly what the run-time checks of the adopted table establish (`wfCheck` for the
table, `isoCheck` / the semantic comparison `storedAdfOK` for the handles). -/
structure Denotes (a : SAdf) (n : Nat) (fms : List Fm) : Prop where
  table : TableWF a.nodes
  len : a.ac.length = n
  flen : fms.length = n
  atoms : ∀ φ ∈ fms, NConc.atomsLt n φ
  den : ∀ (i t : Nat) (f : Fm), a.ac[i]? = some t → fms[i]? = some f →
    t < a.nodes.size ∧ ∀ σ, eval ⟨a.nodes, {}, {}, {}⟩ t σ = f.sem σ

/-- the specification's inputs: conditions over the statements, represented by their truth tables -/
theorem reps_of_atomsLt (n : Nat) (fms : List Fm) (ha : ∀ φ ∈ fms, NConc.atomsLt n φ) :
    (∀ f ∈ fms.map Fm.sem, TT.DetBy n f) ∧ SpecSound.Reps n (CliF.tablesOf n fms) (fms.map Fm.sem) := by
  have hdet : ∀ f ∈ fms.map Fm.sem, TT.DetBy n f := by
    intro f hf
    obtain ⟨φ, hφ, rfl⟩ := List.mem_map.mp hf
    exact NConc.sem_supp φ (ha φ hφ)
  refine ⟨hdet, ?_⟩
  have := SpecSound.reps_ofFn n (fms.map Fm.sem) hdet
  rw [List.map_map] at this
  exact this

/-- the rebuilt ADF: well-formed store, valid handles, the conditions' functions -/
theorem rebuilt_facts {a : SAdf} {n : Nat} {fms : List Fm} (h : Denotes a n fms) :
    WF (rebuild a.nodes) ∧ (∀ t ∈ a.ac, t < (rebuild a.nodes).nodes.size) ∧
    a.ac.map (eval (rebuild a.nodes)) = fms.map Fm.sem := by
  have ⟨wr, hn⟩ := rebuild_table a.nodes h.table
  have hlen : a.ac.length = fms.length := by rw [h.len, h.flen]
  refine ⟨wr, ?_, ?_⟩
  · intro t ht
    obtain ⟨i, hi, rfl⟩ := List.getElem_of_mem ht
    have hi' : i < fms.length := by omega
    rw [hn]
    exact (h.den i _ _ (List.getElem?_eq_getElem hi) (List.getElem?_eq_getElem hi')).1
  · apply map_eval_eq_sem _ _ fms hlen
    intro i t f ht hf σ
    rw [eval_nodes (s' := ⟨a.nodes, {}, {}, {}⟩) hn]
    exact (h.den i t f ht hf).2 σ

/-- **stored_answers_exact, any stored table** (both parsing strategies): for a stored ADF that denotes
the conditions `fms`, every strategy: the solve task succeeds, and the vectors it stores are — as a
multiset of three-valued interpretations — exactly the specification's answer for the strategy,
provided the strategy's search (`StableNogood` only) halted within the bound -/
theorem stored_answers_exact_any_table (fuel : Nat) (a : SAdf) (n : Nat) (fms : List Fm) (s : Strategy)
    (h : Denotes a n fms) (hh : strategyHalts fuel a s = true) :
    ∃ res, solveAdfF fuel a s = .ok res ∧
      (storedI3 res).Perm (Cli.specSection n (CliF.tablesOf n fms) (secOf s)) := by
  have ⟨wr, hv, hden⟩ := rebuilt_facts h
  have ⟨hdet, R⟩ := reps_of_atomsLt n fms h.atoms
  have hD : (fms.map Fm.sem).length = n := by simp [h.flen]
  have hlen := h.len
  subst hlen
  have ⟨_, _, pm⟩ := CliF.section_exact R hD (CliF.Same.refl hD hdet) fuel .simple (secOf s) (rebuild a.nodes)
    a.ac wr rfl hv hden hh
  refine ⟨_, rfl, ?_⟩
  unfold storedI3
  rw [List.map_map]
  exact pm

/-- … and the search halts from some bound on, so for every large bound nothing is assumed -/
theorem stored_answers_exact_every_large_bound (a : SAdf) (n : Nat) (fms : List Fm) (s : Strategy)
    (h : Denotes a n fms) :
    ∃ F0, ∀ fuel, F0 ≤ fuel → strategyHalts fuel a s = true ∧
      ∃ res, solveAdfF fuel a s = .ok res ∧
        (storedI3 res).Perm (Cli.specSection n (CliF.tablesOf n fms) (secOf s)) := by
  have ⟨wr, hv, hden⟩ := rebuilt_facts h
  have ⟨hdet, _⟩ := reps_of_atomsLt n fms h.atoms
  have hD : (fms.map Fm.sem).length = n := by simp [h.flen]
  have hlen := h.len
  subst hlen
  obtain ⟨F0, h0⟩ := CliF.section_halts (CliF.Same.refl hD hdet) .simple (secOf s) (rebuild a.nodes) a.ac wr rfl hv hden
  exact ⟨F0, fun fuel hf => ⟨h0 fuel hf, stored_answers_exact_any_table fuel a _ fms s h (h0 fuel hf)⟩⟩

/-- **the model the driver runs** (`ServerAdf.solveAdf`), the five strategies without nogood search:
no hypothesis about bounds (for the sixth, `solveAdf = solveAdfF 1000000` and
`stored_answers_exact_any_table` applies under its halting hypothesis) -/
theorem solveAdf_answers_exact_no_search (a : SAdf) (n : Nat) (fms : List Fm) (s : Strategy)
    (h : Denotes a n fms) (hs : s ≠ .stableNogood) :
    ∃ res, solveAdf a s = .ok res ∧
      (storedI3 res).Perm (Cli.specSection n (CliF.tablesOf n fms) (secOf s)) := by
  rw [← solveAdfF_eq 0 a s hs]
  exact stored_answers_exact_any_table 0 a n fms s h (strategyHalts_of_ne 0 a s hs)

/-! ### naive parsing end to end -/

/-- what naive parsing stores denotes the conditions of the submitted code -/
theorem stored_naive_denotes (n : Nat) (l : List (Nat × Fm)) (names : List String) (key : String) (hn : n ≤ VBOT)
    (ha : ∀ x ∈ l, NConc.atomsLt n x.2) :
    Denotes { key := key, names := names, nodes := (fromParser n l).1.nodes, ac := (fromParser n l).2 } n (condsOf n l) := by
  have hok : ∀ x ∈ l, x.2.atomsOK := fun x hx => NConc.atomsOK_of_lt hn _ (ha x hx)
  have ⟨w, hlen, hc⟩ := fromParser_correct n l hn hok
  refine ⟨w.table, hlen, by simp [condsOf], condsOf_atomsLt n l ha, ?_⟩
  intro i t f ht hf
  have ⟨a, b⟩ := hc i t f ht hf
  exact ⟨a, fun σ => by rw [← b σ]; exact eval_nodes rfl t σ⟩

/-- **the parse task, naive parsing, from the submitted text**: whatever a successful parse stores
denotes the conditions `ServerAdf.conditions` reads off the code -/
theorem parseNaive_denotes (key code : String) (a : SAdf) (r : SRes) (h : parseNaive key code = .ok (a, r))
    (hn : a.names.length ≤ VBOT) :
    ∃ fms, conditions code = .ok (a.names, fms) ∧ Denotes a a.names.length fms := by
  obtain ⟨l, h1, h2, h3, h4⟩ := parseNaive_ok_iff key code a r h
  refine ⟨_, h3, ?_⟩
  have := stored_naive_denotes a.names.length l a.names a.key hn h4
  have e : a = { key := a.key, names := a.names, nodes := (fromParser a.names.length l).1.nodes,
                 ac := (fromParser a.names.length l).2 } := by
    cases a; simp only at h1 h2; subst h1; subst h2; rfl
  rw [e]
  exact this

/-- **stored_answers_exact** (naive parsing, from the submitted text): if the parse task stored `a` for
`code`, then for every strategy the solve task, run on the ADF rebuilt from what was stored, stores —
as a multiset of three-valued interpretations — exactly the specification's answer for the
conditions of the submitted code (provided `StableNogood`'s search halted within the bound) -/
theorem stored_answers_exact (fuel : Nat) (key code : String) (a : SAdf) (r : SRes) (s : Strategy)
    (h : parseNaive key code = .ok (a, r)) (hn : a.names.length ≤ VBOT) (hh : strategyHalts fuel a s = true) :
    ∃ fms res, conditions code = .ok (a.names, fms) ∧ solveAdfF fuel a s = .ok res ∧
      (storedI3 res).Perm (Cli.specSection a.names.length (CliF.tablesOf a.names.length fms) (secOf s)) := by
  obtain ⟨fms, hc, hd⟩ := parseNaive_denotes key code a r h hn
  obtain ⟨res, h1, h2⟩ := stored_answers_exact_any_table fuel a _ fms s hd hh
  exact ⟨fms, res, hc, h1, h2⟩

/-! ### the same at the level of the definitions -/

/-- the definitional answer of a strategy for conditions `D` over `n` statements: the least fixpoint
of Γ; the fixpoints of Γ, each once; the stable models (two-valued models whose true statements are
true in the least fixpoint of the reduct), each once -/
def PropAnswer (n : Nat) (D : List BoolFn) : Strategy → List I3 → Prop
  | .ground, out => ∃ g, out = [g] ∧ IsLfp D g
  | .complete, out => out.Nodup ∧ ∀ w : I3, w ∈ out ↔ (w.length = n ∧ Gam D w = w)
  | _, out => out.Nodup ∧ ∀ v : I3, v ∈ out ↔ (v.length = n ∧ TotalI v ∧ Gam D v = v ∧
      ∀ w : I3, IsLfp (redu D v) w → ∀ i : Nat, v[i]? = some (some true) → w[i]? = some (some true))

theorem stable_of_perm {n : Nat} {tts : List Nat} {D : List BoolFn} (R : SpecSound.Reps n tts D) {out : List I3}
    (h : out.Perm (Spec.stableAll n tts)) :
    out.Nodup ∧ ∀ v : I3, v ∈ out ↔ (v.length = n ∧ TotalI v ∧ Gam D v = v ∧
      ∀ w : I3, IsLfp (redu D v) w → ∀ i : Nat, v[i]? = some (some true) → w[i]? = some (some true)) :=
  ⟨h.nodup_iff.mpr (SpecSound.stableAll_nodup n tts), fun v => by rw [h.mem_iff, SpecSound.stable_spec R v]⟩

/-- a permutation of the specification's answer is the definitional answer -/
theorem propAnswer_of_perm {n : Nat} {tts : List Nat} {D : List BoolFn} (R : SpecSound.Reps n tts D)
    (hD : D.length = n) (s : Strategy) {out : List I3} (h : out.Perm (Cli.specSection n tts (secOf s))) :
    PropAnswer n D s out := by
  cases s with
  | ground =>
    have h' : out.Perm [Spec.grounded n tts] := h
    exact ⟨_, List.perm_singleton.mp h', SpecSound.grounded_spec R hD⟩
  | complete =>
    have h' : out.Perm (Spec.completeAll n tts) := h
    exact ⟨h'.nodup_iff.mpr (SpecSound.completeAll_nodup n tts),
      fun w => by rw [h'.mem_iff, SpecSound.completeAll_spec R w]⟩
  | stable => exact stable_of_perm R h
  | stableCountingA => exact stable_of_perm R h
  | stableCountingB => exact stable_of_perm R h
  | stableNogood => exact stable_of_perm R h

/-- **stored answers = the definitions** (any stored table denoting `fms`): ground stores the least
fixpoint of Γ, complete stores every fixpoint of Γ once, the four stable strategies store every stable
model once — for the Boolean functions of the submitted conditions -/
theorem stored_answers_definitional (fuel : Nat) (a : SAdf) (n : Nat) (fms : List Fm) (s : Strategy)
    (h : Denotes a n fms) (hh : strategyHalts fuel a s = true) :
    ∃ res, solveAdfF fuel a s = .ok res ∧ PropAnswer n (fms.map Fm.sem) s (storedI3 res) := by
  obtain ⟨res, h1, h2⟩ := stored_answers_exact_any_table fuel a n fms s h hh
  have ⟨_, R⟩ := reps_of_atomsLt n fms h.atoms
  exact ⟨res, h1, propAnswer_of_perm R (by simp [h.flen]) s h2⟩

end SrvA
#print axioms SrvA.stored_answers_exact_any_table
#print axioms SrvA.stored_answers_exact_every_large_bound
#print axioms SrvA.solveAdf_answers_exact_no_search
#print axioms SrvA.parseNaive_denotes
#print axioms SrvA.stored_answers_exact
#print axioms SrvA.stored_answers_definitional
