import AdfObdd.AdfModel
/-! C20: the two interpretation iterators of `datatypes/adf.rs` on vectors of handles.

* `It2` / `It3` are literal state-machine models of `TwoValuedInterpretationsIterator` and
  `ThreeValuedInterpretationsIterator` (`indexes`, `current`, `started`, `original`; `next`,
  `decrement_vec`), `collect` is "call `next` until it answers `None`".
* `twoValAll` / `threeValAll` (AdfModel.lean, what the ADF driver runs) are proved equal to the
  `collect` of the literal machines and to the reference enumerations `enum2` / `enum3`, which are
  defined by recursion on the undecided positions and know nothing about odometers.
* From the reference enumerations: length, `Nodup`, membership = completion / refinement. -/
namespace IterFull
open Iter2M Iter3M

/-! ## positions -/

/-- undecided positions, ascending -/
def und (v : List Nat) : List Nat := (List.range v.length).filter (fun i => !isTV (v.getD i 0))
/-- `indexes` of both iterators: undecided positions, descending (`.rev()`) -/
def idxs (v : List Nat) : List Nat := (und v).reverse
/-- `current` of the two-valued iterator after `new`: undecided ↦ ⊥ -/
def start2 (v : List Nat) : List Nat := v.map (fun t => if isTV t then t else 0)
/-- number of undecided entries, defined on the vector alone -/
def nUnd (v : List Nat) : Nat := (v.filter (fun t => !isTV t)).length

theorem twoValAll_def (v : List Nat) :
    twoValAll v = collectFrom (idxs v) (2 ^ (idxs v).length) (start2 v) := rfl

theorem mem_und {v : List Nat} {i : Nat} : i ∈ und v ↔ i < v.length ∧ ¬ v.getD i 0 < 2 := by
  simp [und, isTV]

theorem und_nodup (v : List Nat) : (und v).Nodup :=
  List.Nodup.sublist List.filter_sublist List.nodup_range

theorem range_map_getD (v : List Nat) : (List.range v.length).map (fun i => v.getD i 0) = v := by
  apply List.ext_getElem
  · simp
  · intro i h1 h2
    simp at h1
    simp [List.getD, h1]

theorem und_length (v : List Nat) : (und v).length = nUnd v := by
  unfold und nUnd
  conv => rhs; rw [← range_map_getD v, List.filter_map, List.length_map]
  rfl

theorem idxs_length (v : List Nat) : (idxs v).length = nUnd v := by
  simp [idxs, und_length]

/-! ## specification predicates -/

/-- `w` is a total completion of `v`: decided entries kept, undecided ones replaced by ⊥ or ⊤ -/
def isCompletion (w v : List Nat) : Prop :=
  w.length = v.length ∧
  ∀ i, i < v.length → if v.getD i 0 < 2 then w.getD i 0 = v.getD i 0 else w.getD i 0 < 2

/-- `w` refines `v`: decided entries kept, an undecided entry is kept as it is or decided -/
def isRefinement (w v : List Nat) : Prop :=
  w.length = v.length ∧
  ∀ i, i < v.length → if v.getD i 0 < 2 then w.getD i 0 = v.getD i 0
                       else (w.getD i 0 = v.getD i 0 ∨ w.getD i 0 < 2)

instance (w v : List Nat) : Decidable (isCompletion w v) := by
  unfold isCompletion
  exact instDecidableAnd (dq := Nat.decidableBallLT _ _)
instance (w v : List Nat) : Decidable (isRefinement w v) := by
  unfold isRefinement
  exact instDecidableAnd (dq := Nat.decidableBallLT _ _)

/-! ## generic list facts -/

theorem getD_eq_of_get? {l : List Nat} {i a : Nat} (h : l[i]? = some a) : l.getD i 0 = a := by
  simp [List.getD, h]

theorem get?_of_lt (l : List Nat) {i : Nat} (h : i < l.length) : l[i]? = some (l.getD i 0) := by
  simp [List.getD, h]

theorem set_same {l : List Nat} {i a : Nat} (h : l[i]? = some a) : l.set i a = l := by
  apply List.ext_getElem?
  intro j
  by_cases hj : i = j
  · subst hj
    have : i < l.length := by
      rcases Nat.lt_or_ge i l.length with h' | h'
      · exact h'
      · simp [List.getElem?_eq_none h'] at h
    rw [List.getElem?_set_self this, h]
  · rw [List.getElem?_set_ne hj]

/-! ## the two-valued reference enumeration -/

/-- membership in the reference enumeration -/
theorem mem_enum2 : ∀ (sl : List Nat) (base w : List Nat), sl.Nodup → (∀ i ∈ sl, i < base.length) →
    (w ∈ enum2 sl base ↔
      (w.length = base.length ∧ (∀ j, j ∉ sl → w[j]? = base[j]?) ∧
       ∀ j, j ∈ sl → (w[j]? = some 0 ∨ w[j]? = some 1))) := by
  intro sl
  induction sl with
  | nil =>
    intro base w _ _
    simp only [enum2, List.mem_singleton, List.not_mem_nil, not_false_eq_true, forall_const,
      false_imp_iff, and_true]
    constructor
    · intro h; subst h; exact ⟨rfl, fun _ => rfl⟩
    · intro ⟨_, h⟩; exact List.ext_getElem? h
  | cons i rest ih =>
    intro base w hnd hlt
    have hi : i ∉ rest := (List.nodup_cons.mp hnd).1
    have hnr : rest.Nodup := (List.nodup_cons.mp hnd).2
    have hil : i < base.length := hlt i (List.mem_cons_self ..)
    have hrl : ∀ b : Nat, ∀ j ∈ rest, j < (base.set i b).length :=
      fun b j hj => by simp; exact hlt j (List.mem_cons_of_mem _ hj)
    simp only [enum2, List.mem_append]
    rw [ih (base.set i 0) w hnr (hrl 0), ih (base.set i 1) w hnr (hrl 1)]
    simp only [List.length_set]
    constructor
    · rintro (⟨hl, hout, hin⟩ | ⟨hl, hout, hin⟩)
      · refine ⟨hl, ?_, ?_⟩
        · intro j hj
          have hji : i ≠ j := fun e => hj (e ▸ List.mem_cons_self ..)
          rw [hout j (fun m => hj (List.mem_cons_of_mem _ m)), List.getElem?_set_ne hji]
        · intro j hj
          rcases List.mem_cons.mp hj with rfl | hj
          · left; rw [hout j hi]; simp [hil]
          · exact hin j hj
      · refine ⟨hl, ?_, ?_⟩
        · intro j hj
          have hji : i ≠ j := fun e => hj (e ▸ List.mem_cons_self ..)
          rw [hout j (fun m => hj (List.mem_cons_of_mem _ m)), List.getElem?_set_ne hji]
        · intro j hj
          rcases List.mem_cons.mp hj with rfl | hj
          · right; rw [hout j hi]; simp [hil]
          · exact hin j hj
    · rintro ⟨hl, hout, hin⟩
      have key : ∀ b : Nat, w[i]? = some b →
          (∀ j, j ∉ rest → w[j]? = (base.set i b)[j]?) := by
        intro b hb j hj
        by_cases hji : i = j
        · subst hji; rw [hb]; simp [hil]
        · rw [List.getElem?_set_ne hji]
          exact hout j (fun m => by
            rcases List.mem_cons.mp m with e | m
            · exact hji e.symm
            · exact hj m)
      rcases hin i (List.mem_cons_self ..) with h0 | h1
      · left; exact ⟨hl, key 0 h0, fun j hj => hin j (List.mem_cons_of_mem _ hj)⟩
      · right; exact ⟨hl, key 1 h1, fun j hj => hin j (List.mem_cons_of_mem _ hj)⟩

theorem enum2_nodup : ∀ (sl : List Nat) (base : List Nat), sl.Nodup → (∀ i ∈ sl, i < base.length) →
    (enum2 sl base).Nodup := by
  intro sl
  induction sl with
  | nil => intro base _ _; simp [enum2]
  | cons i rest ih =>
    intro base hnd hlt
    have hi : i ∉ rest := (List.nodup_cons.mp hnd).1
    have hnr : rest.Nodup := (List.nodup_cons.mp hnd).2
    have hil : i < base.length := hlt i (List.mem_cons_self ..)
    have hrl : ∀ b : Nat, ∀ j ∈ rest, j < (base.set i b).length :=
      fun b j hj => by simp; exact hlt j (List.mem_cons_of_mem _ hj)
    simp only [enum2]
    rw [List.nodup_append]
    refine ⟨ih _ hnr (hrl 0), ih _ hnr (hrl 1), ?_⟩
    intro a ha b hb hab
    subst hab
    have h0 := ((mem_enum2 rest (base.set i 0) a hnr (hrl 0)).mp ha).2.1 i hi
    have h1 := ((mem_enum2 rest (base.set i 1) a hnr (hrl 1)).mp hb).2.1 i hi
    rw [h0] at h1
    simp [hil] at h1

/-! ## `twoValAll` is the reference enumeration -/

theorem zeros_id : ∀ (sl : List Nat) (base : List Nat), (∀ i ∈ sl, base[i]? = some 0) → zeros sl base = base := by
  intro sl
  induction sl with
  | nil => intro base _; rfl
  | cons i rest ih =>
    intro base h
    rw [zeros_cons, set_same (h i (List.mem_cons_self ..))]
    exact ih base (fun j hj => h j (List.mem_cons_of_mem _ hj))

theorem start2_length (v : List Nat) : (start2 v).length = v.length := by simp [start2]

theorem start2_get (v : List Nat) {i : Nat} (h : i < v.length) :
    (start2 v)[i]? = some (if v.getD i 0 < 2 then v.getD i 0 else 0) := by
  simp [start2, List.getD, h, isTV]

theorem und_lt_start (v : List Nat) : ∀ i ∈ und v, i < (start2 v).length := by
  intro i hi; rw [start2_length]; exact (mem_und.mp hi).1

/-- the odometer of the two-valued iterator run with any fuel ≥ 2^k yields the reference enumeration -/
theorem collect2_enum (v : List Nat) (fuel : Nat) (hf : 2 ^ nUnd v ≤ fuel) :
    collectFrom (idxs v) fuel (start2 v) = enum2 (und v) (start2 v) := by
  have hz : zeros (und v) (start2 v) = start2 v := by
    apply zeros_id
    intro i hi
    have ⟨hl, hu⟩ := mem_und.mp hi
    rw [start2_get v hl, if_neg hu]
  have := collect2_eq (und v) (start2 v) fuel (und_nodup v) (und_lt_start v) (by rw [und_length]; exact hf)
  rw [hz] at this
  exact this

theorem twoValAll_eq_enum2 (v : List Nat) : twoValAll v = enum2 (und v) (start2 v) := by
  rw [twoValAll_def]
  exact collect2_enum v _ (by rw [idxs_length]; exact Nat.le_refl _)

theorem mem_enum2_iff_completion (v w : List Nat) :
    w ∈ enum2 (und v) (start2 v) ↔ isCompletion w v := by
  rw [mem_enum2 _ _ _ (und_nodup v) (und_lt_start v), start2_length]
  unfold isCompletion
  constructor
  · rintro ⟨hl, hout, hin⟩
    refine ⟨hl, ?_⟩
    intro i hi
    by_cases hd : v.getD i 0 < 2
    · rw [if_pos hd]
      have : i ∉ und v := fun m => (mem_und.mp m).2 hd
      have := hout i this
      rw [start2_get v hi, if_pos hd] at this
      exact getD_eq_of_get? this
    · rw [if_neg hd]
      rcases hin i (mem_und.mpr ⟨hi, hd⟩) with h | h <;> rw [getD_eq_of_get? h] <;> omega
  · rintro ⟨hl, h⟩
    refine ⟨hl, ?_, ?_⟩
    · intro j hj
      rcases Nat.lt_or_ge j v.length with hjl | hjl
      · have hd : v.getD j 0 < 2 := by
          false_or_by_contra
          rename_i hn
          exact hj (mem_und.mpr ⟨hjl, hn⟩)
        have := h j hjl
        rw [if_pos hd] at this
        rw [start2_get v hjl, if_pos hd, get?_of_lt w (by omega), this]
      · rw [List.getElem?_eq_none (by omega), List.getElem?_eq_none (by rw [start2_length]; omega)]
    · intro j hj
      have ⟨hjl, hd⟩ := mem_und.mp hj
      have := h j hjl
      rw [if_neg hd] at this
      rw [get?_of_lt w (by omega)]
      have : w.getD j 0 = 0 ∨ w.getD j 0 = 1 := by omega
      rcases this with e | e <;> rw [e] <;> simp

/-! ## the three-valued iterator: digits ↦ vectors -/

/-- the result vector `next` builds from the digit vector `current` -/
def toVec (v ix base ds : List Nat) : List Nat :=
  (ds.zip ix).foldl (fun acc (d, pos) =>
      acc.set pos (match d with | 0 => 0 | 1 => 1 | _ => v.getD pos 0)) base

theorem threeValAll_def (v : List Nat) :
    threeValAll v = (collect3 (3 ^ (idxs v).length) (List.replicate (idxs v).length 2)).map (toVec v (idxs v) v) := rfl

/-- reference enumeration of the refinements: slowest position first; keep, ⊤, ⊥ -/
def enum3 : (slow : List Nat) → List Nat → List (List Nat)
  | [], base => [base]
  | i :: rest, base => enum3 rest base ++ (enum3 rest (base.set i 1) ++ enum3 rest (base.set i 0))

theorem toVec_nil (v ix base : List Nat) : toVec v ix base [] = base := rfl

theorem toVec_cons (v : List Nat) (p : Nat) (ix base : List Nat) (d : Nat) (ds : List Nat) :
    toVec v (p :: ix) base (d :: ds) =
      toVec v ix (base.set p (match d with | 0 => 0 | 1 => 1 | _ => v.getD p 0)) ds := rfl

theorem toVec_set_comm (v : List Nat) : ∀ (ds ix base : List Nat) (i x : Nat), i ∉ ix →
    (toVec v ix base ds).set i x = toVec v ix (base.set i x) ds := by
  intro ds
  induction ds with
  | nil => intros; rfl
  | cons d ds ih =>
    intro ix base i x hi
    cases ix with
    | nil => rfl
    | cons p ix =>
      have hp : i ≠ p := fun e => hi (e ▸ List.mem_cons_self ..)
      rw [toVec_cons, toVec_cons, ih ix _ i x (fun m => hi (List.mem_cons_of_mem _ m)),
          List.set_comm _ _ (Ne.symm hp)]

theorem toVec_snoc (v : List Nat) : ∀ (ds ix base : List Nat) (d i : Nat), ds.length = ix.length →
    toVec v (ix ++ [i]) base (ds ++ [d]) =
      (toVec v ix base ds).set i (match d with | 0 => 0 | 1 => 1 | _ => v.getD i 0) := by
  intro ds ix base d i hl
  unfold toVec
  rw [List.zip_append hl, List.foldl_append]
  rfl

theorem enumD_mem_length : ∀ (k : Nat) (ds : List Nat), ds ∈ enumD k → ds.length = k := by
  intro k
  induction k with
  | zero => intro ds h; simp [enumD] at h; simp [h]
  | succ k ih =>
    intro ds h
    simp only [enumD, List.mem_append, List.mem_map] at h
    rcases h with ⟨x, hx, rfl⟩ | ⟨x, hx, rfl⟩ | ⟨x, hx, rfl⟩ <;> simp [ih x hx]

/-- mapping the reference digit vectors to result vectors gives the reference enumeration of
refinements -/
theorem map_toVec_enumD (v : List Nat) : ∀ (sl base : List Nat), sl.Nodup →
    (∀ i ∈ sl, i < v.length ∧ base[i]? = v[i]?) →
    (enumD sl.length).map (toVec v sl.reverse base) = enum3 sl base := by
  intro sl
  induction sl with
  | nil => intro base _ _; rfl
  | cons i rest ih =>
    intro base hnd hb
    have hi : i ∉ rest := (List.nodup_cons.mp hnd).1
    have hnr : rest.Nodup := (List.nodup_cons.mp hnd).2
    have ⟨hil, hbi⟩ := hb i (List.mem_cons_self ..)
    have hir : i ∉ rest.reverse := by simpa using hi
    have hb' : ∀ x : Nat, ∀ j ∈ rest, j < v.length ∧ (base.set i x)[j]? = v[j]? := by
      intro x j hj
      have ⟨a, b⟩ := hb j (List.mem_cons_of_mem _ hj)
      have hji : i ≠ j := fun e => hi (e ▸ hj)
      exact ⟨a, by rw [List.getElem?_set_ne hji]; exact b⟩
    have hkeep : base.set i (v.getD i 0) = base := by
      apply set_same
      rw [hbi, get?_of_lt v hil]
    have step : ∀ (d : Nat), (enumD rest.length).map (fun ds => toVec v (i :: rest).reverse base (ds ++ [d])) =
        enum3 rest (base.set i (match d with | 0 => 0 | 1 => 1 | _ => v.getD i 0)) := by
      intro d
      rw [← ih _ hnr (hb' _)]
      apply List.map_congr_left
      intro ds hds
      have hl : ds.length = rest.reverse.length := by simp [enumD_mem_length _ _ hds]
      rw [List.reverse_cons, toVec_snoc v ds _ base d i hl, toVec_set_comm v ds _ base i _ hir]
    simp only [List.length_cons, enumD, List.map_append, List.map_map, enum3]
    have e2 := step 2
    have e1 := step 1
    have e0 := step 0
    simp only [hkeep] at e2 e1 e0
    exact congr (congrArg _ e2) (congr (congrArg _ e1) e0)

theorem und_v_ok (v : List Nat) : ∀ i ∈ und v, i < v.length ∧ v[i]? = v[i]? :=
  fun _ hi => ⟨(mem_und.mp hi).1, rfl⟩

/-- the three-valued odometer run with any fuel ≥ 3^k, mapped to vectors, is the reference
enumeration -/
theorem collect3_enum (v : List Nat) (fuel : Nat) (hf : 3 ^ nUnd v ≤ fuel) :
    (collect3 fuel (List.replicate (idxs v).length 2)).map (toVec v (idxs v) v) = enum3 (und v) v := by
  rw [collect3_eq _ fuel (by rw [idxs_length]; exact hf)]
  have := map_toVec_enumD v (und v) v (und_nodup v) (und_v_ok v)
  simpa [idxs] using this

theorem threeValAll_eq_enum3 (v : List Nat) : threeValAll v = enum3 (und v) v := by
  rw [threeValAll_def]
  exact collect3_enum v _ (by rw [idxs_length]; exact Nat.le_refl _)

/-! ## properties of the three-valued reference enumeration -/

theorem enum3_length (sl base : List Nat) : (enum3 sl base).length = 3 ^ sl.length := by
  induction sl generalizing base with
  | nil => rfl
  | cons i rest ih => simp [enum3, ih, Nat.pow_succ]; omega

theorem enum3_head (sl base : List Nat) : ∃ tl, enum3 sl base = base :: tl := by
  induction sl generalizing base with
  | nil => exact ⟨[], rfl⟩
  | cons i rest ih =>
    obtain ⟨tl, h⟩ := ih base
    exact ⟨tl ++ (enum3 rest (base.set i 1) ++ enum3 rest (base.set i 0)), by simp [enum3, h]⟩

theorem mem_enum3 : ∀ (sl : List Nat) (base w : List Nat), sl.Nodup → (∀ i ∈ sl, i < base.length) →
    (w ∈ enum3 sl base ↔
      (w.length = base.length ∧ (∀ j, j ∉ sl → w[j]? = base[j]?) ∧
       ∀ j, j ∈ sl → (w[j]? = base[j]? ∨ w[j]? = some 1 ∨ w[j]? = some 0))) := by
  intro sl
  induction sl with
  | nil =>
    intro base w _ _
    simp only [enum3, List.mem_singleton, List.not_mem_nil, not_false_eq_true, forall_const,
      false_imp_iff, and_true]
    constructor
    · intro h; subst h; exact ⟨rfl, fun _ => rfl⟩
    · intro ⟨_, h⟩; exact List.ext_getElem? h
  | cons i rest ih =>
    intro base w hnd hlt
    have hi : i ∉ rest := (List.nodup_cons.mp hnd).1
    have hnr : rest.Nodup := (List.nodup_cons.mp hnd).2
    have hil : i < base.length := hlt i (List.mem_cons_self ..)
    have hr0 : ∀ j ∈ rest, j < base.length := fun j hj => hlt j (List.mem_cons_of_mem _ hj)
    have hrl : ∀ b : Nat, ∀ j ∈ rest, j < (base.set i b).length :=
      fun b j hj => by simp; exact hr0 j hj
    have hne : ∀ j ∈ rest, i ≠ j := fun j hj e => hi (e ▸ hj)
    simp only [enum3, List.mem_append]
    rw [ih base w hnr hr0, ih (base.set i 0) w hnr (hrl 0), ih (base.set i 1) w hnr (hrl 1)]
    simp only [List.length_set]
    -- the two branches that overwrite position i
    have branch : ∀ b : Nat, (w.length = base.length ∧ (∀ j, j ∉ rest → w[j]? = (base.set i b)[j]?) ∧
          ∀ j, j ∈ rest → (w[j]? = (base.set i b)[j]? ∨ w[j]? = some 1 ∨ w[j]? = some 0)) ↔
        (w[i]? = some b ∧ w.length = base.length ∧ (∀ j, j ∉ i :: rest → w[j]? = base[j]?) ∧
          ∀ j, j ∈ rest → (w[j]? = base[j]? ∨ w[j]? = some 1 ∨ w[j]? = some 0)) := by
      intro b
      constructor
      · rintro ⟨hl, hout, hin⟩
        refine ⟨by rw [hout i hi]; simp [hil], hl, ?_, ?_⟩
        · intro j hj
          have hji : i ≠ j := fun e => hj (e ▸ List.mem_cons_self ..)
          rw [hout j (fun m => hj (List.mem_cons_of_mem _ m)), List.getElem?_set_ne hji]
        · intro j hj
          have := hin j hj
          rwa [List.getElem?_set_ne (hne j hj)] at this
      · rintro ⟨hb, hl, hout, hin⟩
        refine ⟨hl, ?_, ?_⟩
        · intro j hj
          by_cases hji : i = j
          · subst hji; rw [hb]; simp [hil]
          · rw [List.getElem?_set_ne hji]
            exact hout j (fun m => by
              rcases List.mem_cons.mp m with e | m
              · exact hji e.symm
              · exact hj m)
        · intro j hj
          rw [List.getElem?_set_ne (hne j hj)]; exact hin j hj
    rw [branch 0, branch 1]
    constructor
    · rintro (⟨hl, hout, hin⟩ | ⟨hb, hl, hout, hin⟩ | ⟨hb, hl, hout, hin⟩)
      · refine ⟨hl, fun j hj => hout j (fun m => hj (List.mem_cons_of_mem _ m)), ?_⟩
        intro j hj
        rcases List.mem_cons.mp hj with rfl | hj
        · left; exact hout j hi
        · exact hin j hj
      · refine ⟨hl, hout, ?_⟩
        intro j hj
        rcases List.mem_cons.mp hj with rfl | hj
        · right; left; exact hb
        · exact hin j hj
      · refine ⟨hl, hout, ?_⟩
        intro j hj
        rcases List.mem_cons.mp hj with rfl | hj
        · right; right; exact hb
        · exact hin j hj
    · rintro ⟨hl, hout, hin⟩
      have hin' := fun j hj => hin j (List.mem_cons_of_mem _ hj)
      rcases hin i (List.mem_cons_self ..) with hk | h1 | h0
      · left
        refine ⟨hl, ?_, hin'⟩
        intro j hj
        by_cases hji : i = j
        · subst hji; exact hk
        · exact hout j (fun m => by
            rcases List.mem_cons.mp m with e | m
            · exact hji e.symm
            · exact hj m)
      · right; left; exact ⟨h1, hl, hout, hin'⟩
      · right; right; exact ⟨h0, hl, hout, hin'⟩

theorem enum3_nodup : ∀ (sl : List Nat) (base : List Nat), sl.Nodup → (∀ i ∈ sl, i < base.length) →
    (∀ i ∈ sl, base[i]? ≠ some 0 ∧ base[i]? ≠ some 1) → (enum3 sl base).Nodup := by
  intro sl
  induction sl with
  | nil => intro base _ _ _; simp [enum3]
  | cons i rest ih =>
    intro base hnd hlt hund
    have hi : i ∉ rest := (List.nodup_cons.mp hnd).1
    have hnr : rest.Nodup := (List.nodup_cons.mp hnd).2
    have hil : i < base.length := hlt i (List.mem_cons_self ..)
    have hr0 : ∀ j ∈ rest, j < base.length := fun j hj => hlt j (List.mem_cons_of_mem _ hj)
    have hrl : ∀ b : Nat, ∀ j ∈ rest, j < (base.set i b).length :=
      fun b j hj => by simp; exact hr0 j hj
    have hu0 : ∀ j ∈ rest, base[j]? ≠ some 0 ∧ base[j]? ≠ some 1 :=
      fun j hj => hund j (List.mem_cons_of_mem _ hj)
    have hub : ∀ b : Nat, ∀ j ∈ rest, (base.set i b)[j]? ≠ some 0 ∧ (base.set i b)[j]? ≠ some 1 := by
      intro b j hj
      have hji : i ≠ j := fun e => hi (e ▸ hj)
      rw [List.getElem?_set_ne hji]; exact hu0 j hj
    have ⟨hb0, hb1⟩ := hund i (List.mem_cons_self ..)
    have at_i : ∀ (b : List Nat) (a : List Nat), (∀ j ∈ rest, j < b.length) → a ∈ enum3 rest b → a[i]? = b[i]? :=
      fun b a hb ha => ((mem_enum3 rest b a hnr hb).mp ha).2.1 i hi
    simp only [enum3]
    rw [List.nodup_append]
    refine ⟨ih _ hnr hr0 hu0, ?_, ?_⟩
    · rw [List.nodup_append]
      refine ⟨ih _ hnr (hrl 1) (hub 1), ih _ hnr (hrl 0) (hub 0), ?_⟩
      intro a ha b hb hab
      subst hab
      have h1 := at_i _ a (hrl 1) ha
      have h0 := at_i _ a (hrl 0) hb
      rw [h1] at h0; simp [hil] at h0
    · intro a ha b hb hab
      subst hab
      have hk := at_i _ a hr0 ha
      rcases List.mem_append.mp hb with hb | hb
      · have h1 := at_i _ a (hrl 1) hb
        rw [hk] at h1; simp [hil] at h1
        exact hb1 (by rw [get?_of_lt base hil]; simp [List.getD, hil, h1])
      · have h0 := at_i _ a (hrl 0) hb
        rw [hk] at h0; simp [hil] at h0
        exact hb0 (by rw [get?_of_lt base hil]; simp [List.getD, hil, h0])

theorem mem_enum3_iff_refinement (v w : List Nat) :
    w ∈ enum3 (und v) v ↔ isRefinement w v := by
  rw [mem_enum3 _ _ _ (und_nodup v) (fun i hi => (mem_und.mp hi).1)]
  unfold isRefinement
  constructor
  · rintro ⟨hl, hout, hin⟩
    refine ⟨hl, ?_⟩
    intro i hi
    by_cases hd : v.getD i 0 < 2
    · rw [if_pos hd]
      have : i ∉ und v := fun m => (mem_und.mp m).2 hd
      have := hout i this
      rw [get?_of_lt v hi] at this
      exact getD_eq_of_get? this
    · rw [if_neg hd]
      rcases hin i (mem_und.mpr ⟨hi, hd⟩) with h | h | h
      · left; rw [get?_of_lt v hi] at h; exact getD_eq_of_get? h
      · right; rw [getD_eq_of_get? h]; omega
      · right; rw [getD_eq_of_get? h]; omega
  · rintro ⟨hl, h⟩
    refine ⟨hl, ?_, ?_⟩
    · intro j hj
      rcases Nat.lt_or_ge j v.length with hjl | hjl
      · have hd : v.getD j 0 < 2 := by
          false_or_by_contra
          rename_i hn
          exact hj (mem_und.mpr ⟨hjl, hn⟩)
        have := h j hjl
        rw [if_pos hd] at this
        rw [get?_of_lt v hjl, get?_of_lt w (by omega), this]
      · rw [List.getElem?_eq_none (by omega), List.getElem?_eq_none hjl]
    · intro j hj
      have ⟨hjl, hd⟩ := mem_und.mp hj
      have := h j hjl
      rw [if_neg hd] at this
      rw [get?_of_lt w (by omega), get?_of_lt v hjl]
      rcases this with e | e
      · left; rw [e]
      · have : w.getD j 0 = 0 ∨ w.getD j 0 = 1 := by omega
        rcases this with e | e <;> rw [e] <;> simp

theorem und_undecided (v : List Nat) : ∀ i ∈ und v, v[i]? ≠ some 0 ∧ v[i]? ≠ some 1 := by
  intro i hi
  have ⟨hl, hd⟩ := mem_und.mp hi
  rw [get?_of_lt v hl]
  constructor <;> intro e <;> have := Option.some.inj e <;> omega

/-! ## literal models of the two Rust iterators -/

/-- `TwoValuedInterpretationsIterator` -/
structure It2 where
  indexes : List Nat
  current : Option (List Nat)
  started : Bool

/-- `TwoValuedInterpretationsIterator::new` -/
def It2.new (v : List Nat) : It2 := { indexes := idxs v, current := some (start2 v), started := false }

/-- `.iter().enumerate().find(|(_, &idx)| current[idx] == Term::BOT)`: (place in `indexes`, position) -/
def findBot (cur : List Nat) : List Nat → Option (Nat × Nat)
  | [] => none
  | i :: rest => if cur[i]? = some 0 then some (0, i) else (findBot cur rest).map (fun p => (p.1 + 1, p.2))

/-- body of `next` once started: flip the found position to ⊤ and reset `indexes[0..idx]` to ⊥ -/
def step2 (ix cur : List Nat) : Option (List Nat) :=
  match findBot cur ix with
  | some (k, a) => some ((ix.take k).foldl (fun r i => r.set i 0) (cur.set a 1))
  | none => none

/-- `TwoValuedInterpretationsIterator::next` -/
def It2.next (it : It2) : It2 × Option (List Nat) :=
  if it.started then
    match it.current with
    | some cur => ({ it with current := step2 it.indexes cur }, step2 it.indexes cur)
    | none => (it, none)
  else ({ it with started := true }, it.current)

/-- `collect()`: call `next` until it answers `None`; the flag says that `None` was seen within
the fuel (the iterator terminated by itself) -/
def It2.collect : Nat → It2 → List (List Nat) × Bool
  | 0, _ => ([], false)
  | fuel+1, it =>
    match it.next with
    | (it', some x) => let r := It2.collect fuel it'; (x :: r.1, r.2)
    | (_, none) => ([], true)

theorem findBot_set_notin (cur : List Nat) (i : Nat) (x : Nat) : ∀ (ix : List Nat), i ∉ ix →
    findBot (cur.set i x) ix = findBot cur ix := by
  intro ix
  induction ix with
  | nil => intro _; rfl
  | cons j rest ih =>
    intro h
    have hj : i ≠ j := fun e => h (e ▸ List.mem_cons_self ..)
    simp only [findBot, List.getElem?_set_ne hj, ih (fun m => h (List.mem_cons_of_mem _ m))]

theorem findBot_mem (cur : List Nat) : ∀ (ix : List Nat) (k a : Nat), findBot cur ix = some (k, a) → a ∈ ix := by
  intro ix
  induction ix with
  | nil => intro k a h; simp [findBot] at h
  | cons j rest ih =>
    intro k a h
    simp only [findBot] at h
    by_cases hc : cur[j]? = some 0
    · rw [if_pos hc] at h; cases h; exact List.mem_cons_self ..
    · rw [if_neg hc] at h
      cases hf : findBot cur rest with
      | none => simp [hf] at h
      | some p =>
        obtain ⟨k', a'⟩ := p
        simp [hf] at h
        exact List.mem_cons_of_mem _ (h.2 ▸ ih k' a' hf)

/-- "find, then reset the prefix" is the carry-as-you-go successor of `Iter2M` -/
theorem step2_eq_succ2 : ∀ (ix cur : List Nat), ix.Nodup → step2 ix cur = succ2 ix cur := by
  intro ix
  induction ix with
  | nil => intro cur _; rfl
  | cons i rest ih =>
    intro cur hnd
    have hi : i ∉ rest := (List.nodup_cons.mp hnd).1
    have hnr : rest.Nodup := (List.nodup_cons.mp hnd).2
    by_cases hc : cur[i]? = some 0
    · simp [step2, findBot, succ2, hc]
    · have hs : succ2 (i :: rest) cur = succ2 rest (cur.set i 0) := by simp [succ2, hc]
      rw [hs, ← ih _ hnr]
      unfold step2
      simp only [findBot, if_neg hc, findBot_set_notin cur i 0 rest hi]
      cases hf : findBot cur rest with
      | none => rfl
      | some p =>
        obtain ⟨k, a⟩ := p
        have ha : a ≠ i := fun e => hi (e ▸ findBot_mem cur rest k a hf)
        simp only [Option.map_some, List.take_succ_cons, List.foldl_cons]
        rw [List.set_comm _ _ ha]

theorem It2.collect_started (ix : List Nat) (hnd : ix.Nodup) : ∀ (f : Nat) (cur : List Nat),
    cur :: (It2.collect f { indexes := ix, current := some cur, started := true }).1 = collectFrom ix (f+1) cur := by
  intro f
  induction f with
  | zero => intro cur; simp only [It2.collect, collectFrom]; cases succ2 ix cur <;> rfl
  | succ f ih =>
    intro cur
    rw [collectFrom]
    simp only [It2.collect, It2.next, if_true, step2_eq_succ2 ix cur hnd]
    cases hs : succ2 ix cur with
    | none => rfl
    | some c => simp only; rw [ih c]

theorem It2.collect_flag : ∀ (f : Nat) (it : It2), (It2.collect f it).2 = true ↔ (It2.collect f it).1.length < f := by
  intro f
  induction f with
  | zero => intro it; simp [It2.collect]
  | succ f ih =>
    intro it
    simp only [It2.collect]
    cases hn : it.next with
    | mk it' o =>
      cases o with
      | none => simp
      | some x => simp only [List.length_cons]; rw [ih it']; omega

/-- `ThreeValuedInterpretationsIterator` -/
structure It3 where
  original : List Nat
  indexes : List Nat
  current : Option (List Nat)
  started : Bool

/-- `ThreeValuedInterpretationsIterator::new` -/
def It3.new (v : List Nat) : It3 :=
  { original := v, indexes := idxs v, current := some (List.replicate (idxs v).length 2), started := false }

/-- `decrement_vec`, literally: find the first digit > 0, decrement it, set the digits before it
to 2; `None` stands for the answer `false` -/
def decrementVec (ds : List Nat) : Option (List Nat) :=
  match ds.findIdx? (fun d => decide (d > 0)) with
  | some k => some (List.replicate k 2 ++ (ds.getD k 0 - 1) :: ds.drop (k+1))
  | none => none

/-- `ThreeValuedInterpretationsIterator::next` (with `decrement` inlined) -/
def It3.next (it : It3) : It3 × Option (List Nat) :=
  let it1 : It3 :=
    if it.started then
      match it.current with
      | some c => { it with current := decrementVec c }
      | none => it
    else { it with started := true }
  match it1.current with
  | some cur => (it1, some (toVec it1.original it1.indexes it1.original cur))
  | none => (it1, none)

def It3.collect : Nat → It3 → List (List Nat) × Bool
  | 0, _ => ([], false)
  | fuel+1, it =>
    match it.next with
    | (it', some x) => let r := It3.collect fuel it'; (x :: r.1, r.2)
    | (_, none) => ([], true)

theorem decrementVec_eq_pred3 : ∀ (ds : List Nat), decrementVec ds = pred3 ds := by
  intro ds
  induction ds with
  | nil => rfl
  | cons d rest ih =>
    unfold decrementVec pred3
    rw [List.findIdx?_cons]
    by_cases hd : 0 < d
    · simp [hd]
    · have : decide (d > 0) = false := by simpa using hd
      simp only [this, Bool.false_eq_true, if_false, if_neg hd]
      rw [← ih]
      unfold decrementVec
      cases List.findIdx? (fun d => decide (d > 0)) rest with
      | none => rfl
      | some k => simp [List.replicate_succ]

theorem It3.collect_started (v ix : List Nat) : ∀ (f : Nat) (cur : List Nat),
    toVec v ix v cur :: (It3.collect f { original := v, indexes := ix, current := some cur, started := true }).1 =
      (collect3 (f+1) cur).map (toVec v ix v) := by
  intro f
  induction f with
  | zero => intro cur; simp only [It3.collect, collect3]; cases pred3 cur <;> rfl
  | succ f ih =>
    intro cur
    rw [collect3]
    simp only [It3.collect, It3.next, if_true, decrementVec_eq_pred3]
    cases hs : pred3 cur with
    | none => rfl
    | some c => simp only [List.map_cons]; rw [← ih c]

theorem It3.collect_flag : ∀ (f : Nat) (it : It3), (It3.collect f it).2 = true ↔ (It3.collect f it).1.length < f := by
  intro f
  induction f with
  | zero => intro it; simp [It3.collect]
  | succ f ih =>
    intro it
    simp only [It3.collect]
    cases hn : it.next with
    | mk it' o =>
      cases o with
      | none => simp
      | some x => simp only [List.length_cons]; rw [ih it']; omega

theorem idxs_nodup (v : List Nat) : (idxs v).Nodup := by
  have h := und_nodup v
  unfold idxs List.Nodup at *; rw [List.pairwise_reverse]; exact h.imp (fun h => h.symm)

/-- the literal two-valued iterator, collected with fuel ≥ 2^k, is `collectFrom` with that fuel -/
theorem It2.collect_new (v : List Nat) (f : Nat) :
    (It2.collect (f+1) (It2.new v)).1 = collectFrom (idxs v) (f+1) (start2 v) := by
  rw [← It2.collect_started (idxs v) (idxs_nodup v) f (start2 v)]
  simp [It2.collect, It2.next, It2.new]

theorem It3.collect_new (v : List Nat) (f : Nat) :
    (It3.collect (f+1) (It3.new v)).1 =
      (collect3 (f+1) (List.replicate (idxs v).length 2)).map (toVec v (idxs v) v) := by
  rw [← It3.collect_started v (idxs v) f _]
  simp [It3.collect, It3.next, It3.new]

end IterFull
